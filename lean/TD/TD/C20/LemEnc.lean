import TD.C01.Props
import TD.C13.Props
import TD.C20.Lemmas

/-!
C20 ↔ C01 / C13 bridge: facts about the spec encoders of the other properties that file type identification needs.
-/
namespace TD.C20

/-! ### C13: the first record of an encoded BIT file -/

theorem flatten_len4 (names : List (List Nat)) (h : ∀ nm ∈ names, TD.C13.nameOk nm) : names.flatten.length = 4 * names.length := by
  induction names with
  | nil => rfl
  | cons n ns ih =>
    have h1 := (h n (by simp)).1
    have h2 := ih (fun nm hnm => h nm (by simp [hnm]))
    simp only [List.flatten_cons, List.length_append, List.length_cons, h1, h2]
    omega

theorem headerBytes_length (p : TD.C13.Spec.PassC) (h : p.wf) (htail : p.tail.length = 8) :
    (TD.C13.Spec.headerBytes p).length = 276 := by
  have hn := flatten_len4 p.names h.names
  have hle := h.nch_le
  simp only [TD.C13.Spec.headerBytes, List.length_append, h.head, h.desc, h.ua, h.ub, h.uc, h.null, h.filler, hn,
    TD.C13.words_length, h.range, htail, TD.C13.Spec.u16be, List.length_cons, List.length_nil]
  omega

/-- an encoded BIT file with at least one log pass: TIF marker (0, 0, 288 little endian), the header block, the rest -/
theorem bit_encode_shape (p : TD.C13.Spec.PassC) (ps : List TD.C13.Spec.PassC) (h : p.wf) (htail : p.tail.length = 8) :
    ∃ rest, TD.C13.Spec.encode (p :: ps) = [0, 0, 0, 0, 0, 0, 0, 0] ++ [32, 1, 0, 0] ++ TD.C13.Spec.headerBytes p ++ rest := by
  have hl := headerBytes_length p h htail
  refine ⟨TD.C13.Spec.layout 288 0 (p.blocks.map (fun b => (0, TD.C13.Spec.blockBytes b)) ++ [(1, [])] ++ (ps.flatMap TD.C13.Spec.passRecords ++ [(1, [])])), ?_⟩
  simp only [TD.C13.Spec.encode, TD.C13.Spec.fileRecords, List.flatMap_cons, TD.C13.Spec.passRecords, List.cons_append,
    TD.C13.Spec.layout, hl]
  simp [TD.C13.Spec.u32bytes]

/-! ### C01: a conformant label as written -/

theorem c01_digit (c : Nat) (h : TD.C01.mDigit c = true) : 48 ≤ c ∧ c ≤ 57 := by
  simpa [TD.C01.mDigit] using h

theorem c01_fill (l : List Nat) (h : l.all TD.C01.isFill = true) : ∀ c ∈ l, c = 32 ∨ c = 48 := by
  intro c hc
  have := List.all_eq_true.mp h c hc
  simp [TD.C01.isFill] at this
  omega

end TD.C20
