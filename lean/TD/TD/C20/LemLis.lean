import TD.C05.Props
import TD.C20.Lemmas

/-!
C20 ↔ C05 bridge: the first bytes of a LIS file written by the C05 spec encoder (`TD.C05.encode`, proved equal to what
`File.FileWrite` writes: `TD.C05.writer_layout`) when its first logical record is a reel/tape/file header.
-/
namespace TD.C20
open TD.C05

/-- A reel / tape / file header logical record as LIS-79 lays it out: type 132 / 130 / 128, attribute byte, then the
fixed text fields; 58 bytes (file header) or 128 bytes (reel, tape).  Bytes 4..7 lie inside the first name field
(file name / service name) and are printable; byte 12 is filler (blank or NUL) in all three layouts. -/
structure LisHeaderRec (r : Bytes) : Prop where
  len : r.length = 58 ∨ r.length = 128
  typ : r.getD 0 0 = 128 ∨ r.getD 0 0 = 130 ∨ r.getD 0 0 = 132
  name : ∀ i, 4 ≤ i → i < 8 → 32 ≤ r.getD i 0 ∧ r.getD i 0 ≤ 126
  filler : r.getD 12 0 = 0 ∨ r.getD 12 0 = 32

theorem getD_take (r : Bytes) (n i : Nat) (h : i < n) : (r.take n).getD i 0 = r.getD i 0 := by
  simp [List.getD_eq_getElem?_getD, List.getElem?_take, h]

theorem byteAt_prefix (P c X : Bytes) (i : Nat) (hi : i < c.length) : byteAt (P ++ (c ++ X)) (P.length + i) = c.getD i 0 := by
  simp [byteAt, List.getD_eq_getElem?_getD, List.getElem?_append_right, List.getElem?_append_left hi]

/-- the file begins with the first physical record of the first logical record -/
theorem encode_prefix (L : Layout) (hL : L.Valid) (r0 : Bytes) (rs : List Bytes) (hr0 : r0 ≠ []) :
    ∃ last X, encode L (r0 :: rs) =
      tifMarker L.tif 0 0 (12 + prLenOf L (r0.take L.maxPayload)) ++
        (u16be (prLenOf L (r0.take L.maxPayload)) ++ u16be (attrOf L true last) ++ (r0.take L.maxPayload ++ X)) := by
  have hmp : 1 ≤ L.maxPayload := by
    unfold Layout.Valid at hL; unfold Layout.maxPayload; omega
  refine ⟨(chunks L.maxPayload (r0.drop (r0.take L.maxPayload).length)).isEmpty, ?_⟩
  simp only [encode, encRecs, encRec, chunks_cons L.maxPayload hmp r0 hr0, encChunks, encPR, prBody, prCovered, ES.init,
    Nat.zero_add, List.append_assoc]
  exact ⟨_, rfl⟩

theorem u16be_small (n : Nat) (h : n < 256) : u16be n = [0, n] := by
  unfold u16be
  have : n / 256 = 0 := Nat.div_eq_of_lt h
  simp [this, Nat.mod_eq_of_lt h]


/-- what the earlier tests of `FUNCTION_ID_MAP` look at, for a byte string `P ++ (c ++ X)` with a short known prefix `P`
and the first chunk `c` of a header record -/
theorem lisHead_of_shape (b P c X r0 : Bytes) (hb : b = P ++ (c ++ X)) (h : LisHeaderRec r0)
    (hc : ∀ i, i < 13 → i < c.length → c.getD i 0 = r0.getD i 0)
    (hcase : (P.length = 4 ∧ 13 ≤ c.length ∧ P.head? = some 0) ∨
             (P.length = 16 ∧ 1 ≤ c.length ∧ P.head? = some 0 ∧ byteAt P 4 = 0 ∧ (∀ i, 8 ≤ i → i < 12 → byteAt P i < 256) ∧
               byteAt P 9 = 0 ∧ byteAt P 10 = 0)) :
    b.head? = some 0 ∧ (∀ i, 8 ≤ i → i < 12 → byteAt b i < 256) ∧ byteAt b 4 ≠ 86 ∧ byteAt b 16 ≠ 86 ∧ ¬ word288 b ∧
      ∃ i, i < 256 ∧ 128 ≤ byteAt b i := by
  obtain ⟨_, htyp, hname, hfill⟩ := h
  have hP : ∀ i, i < P.length → byteAt b i = byteAt P i := by
    intro i hi
    rw [hb]
    simp [byteAt, List.getD_eq_getElem?_getD, List.getElem?_append_left hi]
  rcases hcase with ⟨hl, hcl, hh⟩ | ⟨hl, hcl, hh, h4, hby, h9, h10⟩
  · have hC : ∀ i, i < 13 → byteAt b (4 + i) = r0.getD i 0 := by
      intro i hi
      rw [hb, ← hl, byteAt_prefix P c X i (by omega), hc i hi (by omega)]
    have e4 := hC 0 (by omega)
    have e8 := hC 4 (by omega); have e9 := hC 5 (by omega); have e10 := hC 6 (by omega); have e11 := hC 7 (by omega)
    have e16 := hC 12 (by omega)
    have n4 := hname 4 (by omega) (by omega); have n5 := hname 5 (by omega) (by omega)
    have n6 := hname 6 (by omega) (by omega); have n7 := hname 7 (by omega) (by omega)
    simp only [show 4 + 0 = 4 from rfl, show 4 + 4 = 8 from rfl, show 4 + 5 = 9 from rfl, show 4 + 6 = 10 from rfl,
      show 4 + 7 = 11 from rfl, show 4 + 12 = 16 from rfl] at e4 e8 e9 e10 e11 e16
    refine ⟨?_, ?_, by omega, by omega, ?_, ⟨4, by omega, by omega⟩⟩
    · rw [hb]; cases P with
      | nil => simp at hl
      | cons x t => simpa using hh
    · intro i h1 h2
      have : i = 8 ∨ i = 9 ∨ i = 10 ∨ i = 11 := by omega
      rcases this with rfl | rfl | rfl | rfl <;> omega
    · unfold word288; omega
  · have e16 : byteAt b 16 = r0.getD 0 0 := by
      rw [hb, ← hl]
      have := byteAt_prefix P c X 0 (by omega)
      rw [Nat.add_zero] at this
      rw [this, hc 0 (by omega) (by omega)]
    have e4 := hP 4 (by omega)
    have e9 := hP 9 (by omega)
    have e10 := hP 10 (by omega)
    refine ⟨?_, ?_, by omega, by omega, ?_, ⟨16, by omega, by omega⟩⟩
    · rw [hb]; cases P with
      | nil => simp at hl
      | cons x t => simpa using hh
    · intro i h1 h2
      rw [hP i (by omega)]
      exact hby i h1 h2
    · unfold word288; omega


theorem u32le_small (n : Nat) (h : n < 256) : u32le n = [n, 0, 0, 0] := by
  unfold u32le
  have h1 : n / 256 = 0 := Nat.div_eq_of_lt h
  have h2 : n / 65536 = 0 := Nat.div_eq_of_lt (by omega)
  have h3 : n / 16777216 = 0 := Nat.div_eq_of_lt (by omega)
  simp [h1, h2, h3, Nat.mod_eq_of_lt h]

theorem u32be_small (n : Nat) (h : n < 256) : u32be n = [0, 0, 0, n] := by
  unfold u32be
  have h1 : n / 256 = 0 := Nat.div_eq_of_lt h
  have h2 : n / 65536 = 0 := Nat.div_eq_of_lt (by omega)
  have h3 : n / 16777216 = 0 := Nat.div_eq_of_lt (by omega)
  simp [h1, h2, h3, Nat.mod_eq_of_lt h]

/-- **the head of an encoded LIS file** whose first logical record is a reel/tape/file header, for every valid layout
(any trailer options, TIF off / normal / reversed, any maximum PR length that — without TIF markers — leaves at least
13 payload bytes in the first physical record) and whatever records follow -/
theorem lisHead_encode (L : Layout) (hL : L.Valid) (r0 : Bytes) (rs : List Bytes) (h : LisHeaderRec r0)
    (hmp : L.tif = .off → 13 ≤ L.maxPayload) :
    let b := encode L (r0 :: rs)
    b.head? = some 0 ∧ (∀ i, 8 ≤ i → i < 12 → byteAt b i < 256) ∧ byteAt b 4 ≠ 86 ∧ byteAt b 16 ≠ 86 ∧ ¬ word288 b ∧
      ∃ i, i < 256 ∧ 128 ≤ byteAt b i := by
  intro b
  have hlen : 58 ≤ r0.length ∧ r0.length ≤ 128 := by rcases h.len with e | e <;> omega
  have hr0 : r0 ≠ [] := by intro e; rw [e] at hlen; simp at hlen
  have hmp1 : 1 ≤ L.maxPayload := by unfold Layout.Valid at hL; unfold Layout.maxPayload; omega
  obtain ⟨last, X, hb⟩ := encode_prefix L hL r0 rs hr0
  have hcl : (r0.take L.maxPayload).length = min L.maxPayload r0.length := List.length_take
  have hprt : L.prtLen ≤ 6 := by unfold Layout.prtLen; split <;> split <;> split <;> omega
  have hp : prLenOf L (r0.take L.maxPayload) < 244 := by unfold prLenOf; omega
  have hc : ∀ i, i < 13 → i < (r0.take L.maxPayload).length → (r0.take L.maxPayload).getD i 0 = r0.getD i 0 := by
    intro i _ hi
    exact getD_take r0 _ i (by omega)
  have hq : u16be (prLenOf L (r0.take L.maxPayload)) = [0, prLenOf L (r0.take L.maxPayload)] := u16be_small _ (by omega)
  cases htif : L.tif with
  | off =>
    have h13 := hmp htif
    apply lisHead_of_shape b ([0, prLenOf L (r0.take L.maxPayload)] ++ u16be (attrOf L true last)) (r0.take L.maxPayload) X r0
      (by show encode L (r0 :: rs) = _; rw [hb, htif, hq]; simp [tifMarker]) h hc
    left
    refine ⟨by simp [u16be], by omega, rfl⟩
  | le =>
    apply lisHead_of_shape b ([0, 0, 0, 0, 0, 0, 0, 0, 12 + prLenOf L (r0.take L.maxPayload), 0, 0, 0] ++
        ([0, prLenOf L (r0.take L.maxPayload)] ++ u16be (attrOf L true last))) (r0.take L.maxPayload) X r0
      (by show encode L (r0 :: rs) = _
          rw [hb, htif, hq]
          simp only [tifMarker]
          rw [show u32le 0 = [0, 0, 0, 0] from rfl, u32le_small _ (by omega : 12 + prLenOf L (r0.take L.maxPayload) < 256)]
          simp) h hc
    right
    refine ⟨by simp [u16be], by omega, rfl, by simp [byteAt], ?_, by simp [byteAt], by simp [byteAt]⟩
    intro i h1 h2
    have : i = 8 ∨ i = 9 ∨ i = 10 ∨ i = 11 := by omega
    rcases this with rfl | rfl | rfl | rfl <;> simp [byteAt] <;> omega
  | be =>
    apply lisHead_of_shape b ([0, 0, 0, 0, 0, 0, 0, 0, 0, 0, 0, 12 + prLenOf L (r0.take L.maxPayload)] ++
        ([0, prLenOf L (r0.take L.maxPayload)] ++ u16be (attrOf L true last))) (r0.take L.maxPayload) X r0
      (by show encode L (r0 :: rs) = _
          rw [hb, htif, hq]
          simp only [tifMarker]
          rw [show u32be 0 = [0, 0, 0, 0] from rfl, u32be_small _ (by omega : 12 + prLenOf L (r0.take L.maxPayload) < 256)]
          simp) h hc
    right
    refine ⟨by simp [u16be], by omega, rfl, by simp [byteAt], ?_, by simp [byteAt], by simp [byteAt]⟩
    intro i h1 h2
    have : i = 8 ∨ i = 9 ∨ i = 10 ∨ i = 11 := by omega
    rcases this with rfl | rfl | rfl | rfl <;> simp [byteAt] <;> omega

end TD.C20
