import TD.C05.Props
import TD.C06.Props
import TD.C20.LisTest
import TD.C20.LemLis

/-!
C20 ↔ C05/C06: the concrete deep test `lisTest` on a file written by the C05 encoder.
-/
namespace TD.C20
open TD.C05

/-- the abstract history that `lisOps` is the image of -/
def absOps : Nat → List Op
  | 0 => []
  | n + 1 => .read (-1) :: .tell :: absOps n

theorem absOps_conc (L : Layout) (rs : List Bytes) (n : Nat) : (absOps n).map (concOp L rs) = lisOps n := by
  induction n with
  | zero => rfl
  | succ n ih => simp [absOps, lisOps, concOp, ih]

theorem absOps_histOK (rs : List Bytes) (n : Nat) : HistOK rs (absOps n) := by
  induction n with
  | zero => intro op hop; simp [absOps] at hop
  | succ n ih =>
    intro op hop i hi
    simp only [absOps, List.mem_cons] at hop
    rcases hop with h | h | h
    · rw [h] at hi; cases hi
    · rw [h] at hi; cases hi
    · exact ih op h i hi

/-- the records with their positions, from record `i` on -/
def posRecs (L : Layout) (rs : List Bytes) (i : Nat) : Nat → List (Nat × List Nat)
  | 0 => []
  | k + 1 => (tellOf L rs i, recAt rs i) :: posRecs L rs (i + 1) k

/-- the abstract reader, asked `read rest; tell` repeatedly, lists the records with their positions and then `None` -/
theorem absRun_collect (L : Layout) (rs : List Bytes) (hr : ∀ r ∈ rs, r ≠ []) :
    ∀ (k i : Nat) (cur : Option Nat) (n : Nat), i + k = rs.length → k < n →
      collectRecs (absRun L rs ⟨.start i, cur⟩ (absOps n)) = some (posRecs L rs i k) := by
  intro k
  induction k with
  | zero =>
    intro i cur n hik hn
    obtain ⟨m, rfl⟩ : ∃ m, n = m + 1 := ⟨n - 1, by omega⟩
    have hi : ¬ i < rs.length := by omega
    simp [absOps, absRun, absStep, absRead, openRec, hi, collectRecs, posRecs]
  | succ k ih =>
    intro i cur n hik hn
    obtain ⟨m, rfl⟩ : ∃ m, n = m + 1 := ⟨n - 1, by omega⟩
    have hi : i < rs.length := by omega
    have hne : recAt rs i ≠ [] := hr _ (by unfold recAt; simp [hi])
    have hlen : 0 < (recAt rs i).length := List.length_pos_iff.mpr hne
    have hnot : ¬ (0 ≥ (recAt rs i).length) := by omega
    have step1 : absRun L rs ⟨.start i, cur⟩ (absOps (m + 1)) =
        .bytes (recAt rs i) :: .pos (tellOf L rs i) :: absRun L rs ⟨.start (i + 1), some i⟩ (absOps m) := by
      simp [absOps, absRun, absStep, absRead, openRec, hi, hnot]
    rw [step1]
    simp only [collectRecs, posRecs]
    rw [ih (i + 1) (some i) m (by omega) (by omega)]
    rfl

theorem length_le_numPRs (L : Layout) (hL : L.Valid) (rs : List Bytes) (hr : ∀ r ∈ rs, r ≠ []) : rs.length ≤ numPRs L rs := by
  have hmp : 1 ≤ L.maxPayload := by have := hL.2; unfold Layout.maxPayload; omega
  induction rs with
  | nil => simp
  | cons r rs ih =>
    have h1 : 1 ≤ (chunks L.maxPayload r).length := by
      have : chunks L.maxPayload r ≠ [] := fun h => hr r (by simp) ((chunks_eq_nil _ hmp r).mp h)
      exact List.length_pos_iff.mpr this
    have := ih (fun x hx => hr x (by simp [hx]))
    simp only [numPRs, List.map_cons, List.sum_cons, List.length_cons] at this ⊢
    omega

theorem length_lt_encode (L : Layout) (hL : L.Valid) (rs : List Bytes) (hr : ∀ r ∈ rs, r ≠ []) :
    rs.length < (encode L rs).length + 1 := by
  have h1 := length_le_numPRs L hL rs hr
  have h2 := numPRs_le_size L rs
  rw [encode_length]
  unfold fileSize tellOf
  rw [List.take_length]
  split <;> omega


/-- an index of a record stream whose first record has a type the dispatch table knows is not empty -/
theorem fileIndex_nonempty (p t a : Nat) (payload : List Nat) (rest : List (Nat × List Nat)) (es : List TD.C06.Entry)
    (ht : t = 128 ∨ t = 130 ∨ t = 132)
    (h : TD.C06.fileIndex ((p, t :: a :: payload) :: rest) = .ok es) : es ≠ [] := by
  have := TD.C06.index_lists_all _ es h
  intro he
  rw [he] at this
  have hs : TD.C06.specEntry (p, t :: a :: payload) ≠ none := by
    rcases ht with rfl | rfl | rfl <;> simp [TD.C06.specEntry, TD.C06.despatch]
  cases hsp : TD.C06.specEntry (p, t :: a :: payload) with
  | none => exact hs hsp
  | some e => simp [TD.C06.specEntries, List.filterMap_cons, hsp] at this

/-! ### the two-round loop -/

theorem lisTryOption_code (b : Bytes) (o : Nat × Bool) (r : LisRes) (h : lisTryOption b o = some r) : r = tifCode b := by
  unfold lisTryOption lisTryOptionE at h
  split at h
  · rename_i r' hr
    split at hr
    · cases hr; cases h
    · split at hr
      · cases hr
      · split at hr
        · cases hr; cases h
        · cases hr; cases h; rfl
  · cases h

theorem firstSome_eq {α β : Type} (f : α → Option β) (l : List α) (r : β) (h : firstSome f l = some r) :
    ∃ a ∈ l, f a = some r := by
  induction l with
  | nil => cases h
  | cons a t ih =>
    unfold firstSome at h
    split at h
    · rename_i x hx
      cases h
      exact ⟨a, by simp, hx⟩
    · obtain ⟨a', ha', hf⟩ := ih h
      exact ⟨a', by simp [ha'], hf⟩

theorem firstSome_isSome {α β : Type} (f : α → Option β) (l : List α) (a : α) (ha : a ∈ l) (r : β) (hf : f a = some r) :
    ∃ r', firstSome f l = some r' := by
  induction l with
  | nil => cases ha
  | cons x t ih =>
    unfold firstSome
    cases hx : f x with
    | some y => exact ⟨y, rfl⟩
    | none =>
      rcases List.mem_cons.mp ha with e | e
      · rw [e] at hf; rw [hf] at hx; cases hx
      · exact ih e

/-- **the TIF flavour of the answer does not depend on the pad option that succeeded**: whatever round and option
returns, the code is the one the first 12 bytes of the file determine -/
theorem lisRound_code (b : Bytes) (limit : Nat) (r : LisRes) (h : lisRound b limit = some r) : r = tifCode b := by
  obtain ⟨o, _, ho⟩ := firstSome_eq _ _ r h
  exact lisTryOption_code b o r ho

/-- for every byte string: the deep test answers nothing, or the code of the file's TIF state -/
theorem lisTest_flavour (b : Bytes) : lisTest b = .none ∨ lisTest b = tifCode b := by
  unfold lisTest
  cases h1 : lisRound b lisPrLimit with
  | some r => right; exact lisRound_code b _ r h1
  | none =>
    cases h2 : lisRound b 0 with
    | some r => right; exact lisRound_code b _ r h2
    | none => left; rfl

/-- if, in either round, some tried option gives a non-empty index, the answer is the file's TIF code — no matter which
(earlier) option actually returns -/
theorem lisTest_of_success (b : Bytes) (limit : Nat) (hl : limit = lisPrLimit ∨ limit = 0) (o : Nat × Bool)
    (ho : o ∈ lisTried b limit) (r : LisRes) (hs : lisTryOption b o = some r) : lisTest b = tifCode b := by
  obtain ⟨r', hr'⟩ := firstSome_isSome (lisTryOption b) (lisTried b limit) o ho r hs
  have hround : lisRound b limit = some r' := hr'
  unfold lisTest
  cases h1 : lisRound b lisPrLimit with
  | some r1 => exact lisRound_code b _ r1 h1
  | none =>
    rcases hl with e | e
    · rw [e] at hround; rw [hround] at h1; cases h1
    · rw [e] at hround
      simp only [hround]
      exact lisRound_code b _ r' hround

/-! ### the sorted list of options -/

theorem mem_insertDesc (x z : (Nat × Bool) × Nat) (l : List ((Nat × Bool) × Nat)) :
    z ∈ insertDesc x l ↔ z = x ∨ z ∈ l := by
  induction l with
  | nil => simp [insertDesc]
  | cons y r ih =>
    unfold insertDesc
    split
    · simp only [List.mem_cons, ih]
      constructor
      · rintro (h | h | h)
        · exact Or.inr (Or.inl h)
        · exact Or.inl h
        · exact Or.inr (Or.inr h)
      · rintro (h | h | h)
        · exact Or.inr (Or.inl h)
        · exact Or.inl h
        · exact Or.inr (Or.inr h)
    · simp [List.mem_cons]

theorem mem_sortDesc (z : (Nat × Bool) × Nat) (l : List ((Nat × Bool) × Nat)) : z ∈ sortDesc l ↔ z ∈ l := by
  induction l with
  | nil => simp [sortDesc]
  | cons y r ih =>
    have : sortDesc (y :: r) = insertDesc y (sortDesc r) := rfl
    rw [this, mem_insertDesc, ih]
    simp [List.mem_cons]

theorem insertDesc_sorted (x : (Nat × Bool) × Nat) (l : List ((Nat × Bool) × Nat))
    (h : l.Pairwise (fun a b => b.2 ≤ a.2)) : (insertDesc x l).Pairwise (fun a b => b.2 ≤ a.2) := by
  induction l with
  | nil => simp [insertDesc]
  | cons y r ih =>
    rw [List.pairwise_cons] at h
    unfold insertDesc
    split
    · rename_i hgt
      rw [List.pairwise_cons]
      refine ⟨?_, ih h.2⟩
      intro z hz
      rcases (mem_insertDesc x z r).mp hz with e | e
      · rw [e]; omega
      · exact h.1 z e
    · rename_i hle
      rw [List.pairwise_cons]
      refine ⟨?_, List.pairwise_cons.mpr h⟩
      intro z hz
      rcases List.mem_cons.mp hz with e | e
      · rw [e]; omega
      · have := h.1 z e; omega

theorem sortDesc_sorted (l : List ((Nat × Bool) × Nat)) : (sortDesc l).Pairwise (fun a b => b.2 ≤ a.2) := by
  induction l with
  | nil => simp [sortDesc]
  | cons y r ih => exact insertDesc_sorted y _ ih

/-- in a list sorted by decreasing count, an element with a non-zero count comes before the first zero -/
theorem mem_takeWhile_sorted (l : List ((Nat × Bool) × Nat)) (h : l.Pairwise (fun a b => b.2 ≤ a.2))
    (x : (Nat × Bool) × Nat) (hx : x ∈ l) (hpos : x.2 ≠ 0) : x ∈ l.takeWhile (fun y => y.2 != 0) := by
  induction l with
  | nil => cases hx
  | cons y r ih =>
    rw [List.pairwise_cons] at h
    have hy : (fun (y : (Nat × Bool) × Nat) => y.2 != 0) y = true := by
      rcases List.mem_cons.mp hx with e | e
      · rw [← e]; simpa using hpos
      · have := h.1 x e; simp; omega
    rw [List.takeWhile_cons_of_pos (p := fun (y : (Nat × Bool) × Nat) => y.2 != 0) hy]
    rcases List.mem_cons.mp hx with e | e
    · rw [e]; simp
    · exact List.mem_cons_of_mem _ (ih h.2 e)

/-- **every option that read at least one physical record is tried** (in the round with that `pr_limit`) -/
theorem mem_lisTried (b : Bytes) (limit : Nat) (o : Nat × Bool) (ho : o ∈ padOptions)
    (hpos : scanFile ⟨true, o.1, o.2⟩ b limit ≠ 0) : o ∈ lisTried b limit := by
  unfold lisTried
  have hm : (o, scanFile ⟨true, o.1, o.2⟩ b limit) ∈ scanAll true b limit := by
    unfold scanAll
    exact List.mem_map.mpr ⟨o, ho, rfl⟩
  have := mem_takeWhile_sorted _ (sortDesc_sorted (scanAll true b limit)) _ ((mem_sortDesc _ _).mpr hm) hpos
  exact List.mem_map.mpr ⟨_, this, rfl⟩

/-- the true option (no padding) on a written file: the reader refines the abstract semantics, the records are collected
with their positions, and — when the index over them does not raise — the option succeeds -/
theorem lisTryOption_encode (L : Layout) (rs : List Bytes) (hL : L.Valid) (hr : ∀ r ∈ rs, r ≠ []) (hrs : rs ≠ [])
    (hbe : L.tif = .be → firstNext L rs ≠ 0x100 ∧ firstNext L rs ≠ 0x10000)
    (hsz : fileSize L rs + 24 < 4294967296)
    (es : List TD.C06.Entry) (hidx : TD.C06.fileIndex (posRecs L rs 0 rs.length) = .ok es) (hes : es ≠ []) :
    lisTryOption (encode L rs) (0, false) = some (tifCode (encode L rs)) := by
  have hrun := read_refines ⟨true, 0, false⟩ L rs (absOps ((encode L rs).length + 1)) hL hr (fun _ => hrs) hbe hsz
    (absOps_histOK _ _)
  have hcol := absRun_collect L rs hr rs.length 0 none ((encode L rs).length + 1) (by omega) (length_lt_encode L hL rs hr)
  unfold lisTryOption lisTryOptionE
  rw [← absOps_conc L rs, hrun]
  have hinit : AState.init = ⟨.start 0, none⟩ := rfl
  rw [hinit, hcol]
  simp only []
  rw [hidx]
  have hne : es.isEmpty = false := by cases es with
    | nil => exact absurd rfl hes
    | cons _ _ => rfl
  simp only [hne]
  rfl

theorem tifCode_encode (L : Layout) (rs : List Bytes) (hL : L.Valid) (hr : ∀ r ∈ rs, r ≠ []) (hrs : rs ≠ [])
    (hbe : L.tif = .be → firstNext L rs ≠ 0x100 ∧ firstNext L rs ≠ 0x10000) :
    tifCode (encode L rs) = lisCodeOf L.tif := by
  obtain ⟨h1, h2⟩ := tifInit_mode L hL rs hr (fun _ => hrs) hbe
  unfold tifCode
  rw [h1, h2]
  cases htif : L.tif <;> simp [lisCodeOf]

/-- **the deep test on a written file**: in the whole-file round the file's own option (0, False) counts all its physical
records, so it is tried; it builds the index when the record contents allow it; any earlier success gives the same answer. -/
theorem lisTest_encode (L : Layout) (rs : List Bytes) (hL : L.Valid) (hr : ∀ r ∈ rs, r ≠ []) (hrs : rs ≠ [])
    (hbe : L.tif = .be → firstNext L rs ≠ 0x100 ∧ firstNext L rs ≠ 0x10000)
    (hsz : fileSize L rs + 24 < 4294967296)
    (es : List TD.C06.Entry) (hidx : TD.C06.fileIndex (posRecs L rs 0 rs.length) = .ok es) (hes : es ≠ []) :
    lisTest (encode L rs) = lisCodeOf L.tif := by
  have hcount := scan_counts_records ⟨true, 0, false⟩ L rs 0 hL hr (fun _ => hrs) hbe hsz
  have hpos : 0 < numPRs L rs := by
    have := length_le_numPRs L hL rs hr
    have : 0 < rs.length := List.length_pos_iff.mpr hrs
    omega
  have hmem : (0, false) ∈ lisTried (encode L rs) 0 :=
    mem_lisTried _ 0 (0, false) (by decide) (by rw [hcount]; simp; omega)
  have hs := lisTryOption_encode L rs hL hr hrs hbe hsz es hidx hes
  rw [lisTest_of_success (encode L rs) 0 (Or.inr rfl) (0, false) hmem _ hs]
  exact tifCode_encode L rs hL hr hrs hbe

end TD.C20
