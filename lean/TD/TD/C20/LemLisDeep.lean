import TD.C05.Props
import TD.C06.Props
import TD.C20.LisTest
import TD.C20.LemLis

/-!
C20 ↔ C05/C06: the concrete deep test `lisTest` on a file written by the C05 encoder.
-/
namespace TD.C20
open TD.C05

/-- the abstract history that `lisOps` is the image of -/
def absOps : Nat → List Op
  | 0 => []
  | n + 1 => .read (-1) :: .tell :: absOps n

theorem absOps_conc (L : Layout) (rs : List Bytes) (n : Nat) : (absOps n).map (concOp L rs) = lisOps n := by
  induction n with
  | zero => rfl
  | succ n ih => simp [absOps, lisOps, concOp, ih]

theorem absOps_histOK (rs : List Bytes) (n : Nat) : HistOK rs (absOps n) := by
  induction n with
  | zero => intro op hop; simp [absOps] at hop
  | succ n ih =>
    intro op hop i hi
    simp only [absOps, List.mem_cons] at hop
    rcases hop with h | h | h
    · rw [h] at hi; cases hi
    · rw [h] at hi; cases hi
    · exact ih op h i hi

/-- the records with their positions, from record `i` on -/
def posRecs (L : Layout) (rs : List Bytes) (i : Nat) : Nat → List (Nat × List Nat)
  | 0 => []
  | k + 1 => (tellOf L rs i, recAt rs i) :: posRecs L rs (i + 1) k

/-- the abstract reader, asked `read rest; tell` repeatedly, lists the records with their positions and then `None` -/
theorem absRun_collect (L : Layout) (rs : List Bytes) (hr : ∀ r ∈ rs, r ≠ []) :
    ∀ (k i : Nat) (cur : Option Nat) (n : Nat), i + k = rs.length → k < n →
      collectRecs (absRun L rs ⟨.start i, cur⟩ (absOps n)) = some (posRecs L rs i k) := by
  intro k
  induction k with
  | zero =>
    intro i cur n hik hn
    obtain ⟨m, rfl⟩ : ∃ m, n = m + 1 := ⟨n - 1, by omega⟩
    have hi : ¬ i < rs.length := by omega
    simp [absOps, absRun, absStep, absRead, openRec, hi, collectRecs, posRecs]
  | succ k ih =>
    intro i cur n hik hn
    obtain ⟨m, rfl⟩ : ∃ m, n = m + 1 := ⟨n - 1, by omega⟩
    have hi : i < rs.length := by omega
    have hne : recAt rs i ≠ [] := hr _ (by unfold recAt; simp [hi])
    have hlen : 0 < (recAt rs i).length := List.length_pos_iff.mpr hne
    have hnot : ¬ (0 ≥ (recAt rs i).length) := by omega
    have step1 : absRun L rs ⟨.start i, cur⟩ (absOps (m + 1)) =
        .bytes (recAt rs i) :: .pos (tellOf L rs i) :: absRun L rs ⟨.start (i + 1), some i⟩ (absOps m) := by
      simp [absOps, absRun, absStep, absRead, openRec, hi, hnot]
    rw [step1]
    simp only [collectRecs, posRecs]
    rw [ih (i + 1) (some i) m (by omega) (by omega)]
    rfl

theorem length_le_numPRs (L : Layout) (hL : L.Valid) (rs : List Bytes) (hr : ∀ r ∈ rs, r ≠ []) : rs.length ≤ numPRs L rs := by
  have hmp : 1 ≤ L.maxPayload := by have := hL.2; unfold Layout.maxPayload; omega
  induction rs with
  | nil => simp
  | cons r rs ih =>
    have h1 : 1 ≤ (chunks L.maxPayload r).length := by
      have : chunks L.maxPayload r ≠ [] := fun h => hr r (by simp) ((chunks_eq_nil _ hmp r).mp h)
      exact List.length_pos_iff.mpr this
    have := ih (fun x hx => hr x (by simp [hx]))
    simp only [numPRs, List.map_cons, List.sum_cons, List.length_cons] at this ⊢
    omega

theorem length_lt_encode (L : Layout) (hL : L.Valid) (rs : List Bytes) (hr : ∀ r ∈ rs, r ≠ []) :
    rs.length < (encode L rs).length + 1 := by
  have h1 := length_le_numPRs L hL rs hr
  have h2 := numPRs_le_size L rs
  rw [encode_length]
  unfold fileSize tellOf
  rw [List.take_length]
  split <;> omega


/-- an index of a record stream whose first record has a type the dispatch table knows is not empty -/
theorem fileIndex_nonempty (p t a : Nat) (payload : List Nat) (rest : List (Nat × List Nat)) (es : List TD.C06.Entry)
    (ht : t = 128 ∨ t = 130 ∨ t = 132)
    (h : TD.C06.fileIndex ((p, t :: a :: payload) :: rest) = .ok es) : es ≠ [] := by
  have := TD.C06.index_lists_all _ es h
  intro he
  rw [he] at this
  have hs : TD.C06.specEntry (p, t :: a :: payload) ≠ none := by
    rcases ht with rfl | rfl | rfl <;> simp [TD.C06.specEntry, TD.C06.despatch]
  cases hsp : TD.C06.specEntry (p, t :: a :: payload) with
  | none => exact hs hsp
  | some e => simp [TD.C06.specEntries, List.filterMap_cons, hsp] at this

/-! ### the two-round loop -/

theorem lisTryOption_code (b : Bytes) (o : Nat × Bool) (r : LisRes) (h : lisTryOption b o = some r) : r = tifCode b := by
  unfold lisTryOption lisTryOptionE at h
  split at h
  · rename_i r' hr
    split at hr
    · cases hr; cases h
    · split at hr
      · cases hr
      · split at hr
        · cases hr; cases h
        · cases hr; cases h; rfl
  · cases h

theorem firstSome_eq {α β : Type} (f : α → Option β) (l : List α) (r : β) (h : firstSome f l = some r) :
    ∃ a ∈ l, f a = some r := by
  induction l with
  | nil => cases h
  | cons a t ih =>
    unfold firstSome at h
    split at h
    · rename_i x hx
      cases h
      exact ⟨a, by simp, hx⟩
    · obtain ⟨a', ha', hf⟩ := ih h
      exact ⟨a', by simp [ha'], hf⟩

theorem firstSome_isSome {α β : Type} (f : α → Option β) (l : List α) (a : α) (ha : a ∈ l) (r : β) (hf : f a = some r) :
    ∃ r', firstSome f l = some r' := by
  induction l with
  | nil => cases ha
  | cons x t ih =>
    unfold firstSome
    cases hx : f x with
    | some y => exact ⟨y, rfl⟩
    | none =>
      rcases List.mem_cons.mp ha with e | e
      · rw [e] at hf; rw [hf] at hx; cases hx
      · exact ih e

/-- **the TIF flavour of the answer does not depend on the pad option that succeeded**: whatever round and option
returns, the code is the one the first 12 bytes of the file determine -/
theorem lisRound_code (b : Bytes) (limit : Nat) (r : LisRes) (h : lisRound b limit = some r) : r = tifCode b := by
  obtain ⟨o, _, ho⟩ := firstSome_eq _ _ r h
  exact lisTryOption_code b o r ho

/-- for every byte string: the deep test answers nothing, or the code of the file's TIF state -/
theorem lisTest_flavour (b : Bytes) : lisTest b = .none ∨ lisTest b = tifCode b := by
  unfold lisTest
  cases h1 : lisRound b lisPrLimit with
  | some r => right; exact lisRound_code b _ r h1
  | none =>
    cases h2 : lisRound b 0 with
    | some r => right; exact lisRound_code b _ r h2
    | none => left; rfl

/-- if, in either round, some tried option gives a non-empty index, the answer is the file's TIF code — no matter which
(earlier) option actually returns -/
theorem lisTest_of_success (b : Bytes) (limit : Nat) (hl : limit = lisPrLimit ∨ limit = 0) (o : Nat × Bool)
    (ho : o ∈ lisTried b limit) (r : LisRes) (hs : lisTryOption b o = some r) : lisTest b = tifCode b := by
  obtain ⟨r', hr'⟩ := firstSome_isSome (lisTryOption b) (lisTried b limit) o ho r hs
  have hround : lisRound b limit = some r' := hr'
  unfold lisTest
  cases h1 : lisRound b lisPrLimit with
  | some r1 => exact lisRound_code b _ r1 h1
  | none =>
    rcases hl with e | e
    · rw [e] at hround; rw [hround] at h1; cases h1
    · rw [e] at hround
      simp only [hround]
      exact lisRound_code b _ r' hround

/-- when `best_physical_record_pad_settings` would pick `o`, `o` is the first option the round tries -/
theorem lisTried_head (b : Bytes) (limit : Nat) (o : Nat × Bool) (h : bestPad b limit = some o) :
    ∃ t, lisTried b limit = o :: t := by
  unfold bestPad pickBest at h
  split at h
  · cases h
  · rename_i o' t' hm
    split at h
    · rename_i hpos
      cases h
      unfold lisTried
      simp only [hm]
      have : ((List.lookup o (scanAll true b limit)).getD 0 != 0) = true := by
        simp; omega
      exact ⟨_, List.takeWhile_cons_of_pos (p := fun o => (List.lookup o (scanAll true b limit)).getD 0 != 0) this⟩
    · cases h

/-- the true option (no padding) on a written file: the reader refines the abstract semantics, the records are collected
with their positions, and — when the index over them does not raise — the option succeeds -/
theorem lisTryOption_encode (L : Layout) (rs : List Bytes) (hL : L.Valid) (hr : ∀ r ∈ rs, r ≠ []) (hrs : rs ≠ [])
    (hbe : L.tif = .be → firstNext L rs ≠ 0x100 ∧ firstNext L rs ≠ 0x10000)
    (hsz : fileSize L rs + 24 < 4294967296)
    (es : List TD.C06.Entry) (hidx : TD.C06.fileIndex (posRecs L rs 0 rs.length) = .ok es) (hes : es ≠ []) :
    lisTryOption (encode L rs) (0, false) = some (tifCode (encode L rs)) := by
  have hrun := read_refines ⟨true, 0, false⟩ L rs (absOps ((encode L rs).length + 1)) hL hr (fun _ => hrs) hbe hsz
    (absOps_histOK _ _)
  have hcol := absRun_collect L rs hr rs.length 0 none ((encode L rs).length + 1) (by omega) (length_lt_encode L hL rs hr)
  unfold lisTryOption lisTryOptionE
  rw [← absOps_conc L rs, hrun]
  have hinit : AState.init = ⟨.start 0, none⟩ := rfl
  rw [hinit, hcol]
  simp only []
  rw [hidx]
  have hne : es.isEmpty = false := by cases es with
    | nil => exact absurd rfl hes
    | cons _ _ => rfl
  simp only [hne]
  rfl

theorem tifCode_encode (L : Layout) (rs : List Bytes) (hL : L.Valid) (hr : ∀ r ∈ rs, r ≠ []) (hrs : rs ≠ [])
    (hbe : L.tif = .be → firstNext L rs ≠ 0x100 ∧ firstNext L rs ≠ 0x10000) :
    tifCode (encode L rs) = lisCodeOf L.tif := by
  obtain ⟨h1, h2⟩ := tifInit_mode L hL rs hr (fun _ => hrs) hbe
  unfold tifCode
  rw [h1, h2]
  cases htif : L.tif <;> simp [lisCodeOf]

/-- **the deep test on a written file**: if in one of the two rounds the pad-option scan has the true option (0, False)
as its first best option and building the index over the records does not raise, `lisTest` answers the layout's code. -/
theorem lisTest_encode (L : Layout) (rs : List Bytes) (hL : L.Valid) (hr : ∀ r ∈ rs, r ≠ []) (hrs : rs ≠ [])
    (hbe : L.tif = .be → firstNext L rs ≠ 0x100 ∧ firstNext L rs ≠ 0x10000)
    (hsz : fileSize L rs + 24 < 4294967296)
    (limit : Nat) (hl : limit = lisPrLimit ∨ limit = 0) (hbest : bestPad (encode L rs) limit = some (0, false))
    (es : List TD.C06.Entry) (hidx : TD.C06.fileIndex (posRecs L rs 0 rs.length) = .ok es) (hes : es ≠ []) :
    lisTest (encode L rs) = lisCodeOf L.tif := by
  obtain ⟨t, ht⟩ := lisTried_head _ limit _ hbest
  have hs := lisTryOption_encode L rs hL hr hrs hbe hsz es hidx hes
  rw [lisTest_of_success (encode L rs) limit hl (0, false) (by rw [ht]; simp) _ hs]
  exact tifCode_encode L rs hL hr hrs hbe

end TD.C20
