import TD.C05.Props
import TD.C06.Props
import TD.C20.LisTest
import TD.C20.LemLis

/-!
C20 ↔ C05/C06: the concrete deep test `lisTest` on a file written by the C05 encoder.
-/
namespace TD.C20
open TD.C05

/-- the abstract history that `lisOps` is the image of -/
def absOps : Nat → List Op
  | 0 => []
  | n + 1 => .read (-1) :: .tell :: absOps n

theorem absOps_conc (L : Layout) (rs : List Bytes) (n : Nat) : (absOps n).map (concOp L rs) = lisOps n := by
  induction n with
  | zero => rfl
  | succ n ih => simp [absOps, lisOps, concOp, ih]

theorem absOps_histOK (rs : List Bytes) (n : Nat) : HistOK rs (absOps n) := by
  induction n with
  | zero => intro op hop; simp [absOps] at hop
  | succ n ih =>
    intro op hop i hi
    simp only [absOps, List.mem_cons] at hop
    rcases hop with h | h | h
    · rw [h] at hi; cases hi
    · rw [h] at hi; cases hi
    · exact ih op h i hi

/-- the records with their positions, from record `i` on -/
def posRecs (L : Layout) (rs : List Bytes) (i : Nat) : Nat → List (Nat × List Nat)
  | 0 => []
  | k + 1 => (tellOf L rs i, recAt rs i) :: posRecs L rs (i + 1) k

/-- the abstract reader, asked `read rest; tell` repeatedly, lists the records with their positions and then `None` -/
theorem absRun_collect (L : Layout) (rs : List Bytes) (hr : ∀ r ∈ rs, r ≠ []) :
    ∀ (k i : Nat) (cur : Option Nat) (n : Nat), i + k = rs.length → k < n →
      collectRecs (absRun L rs ⟨.start i, cur⟩ (absOps n)) = some (posRecs L rs i k) := by
  intro k
  induction k with
  | zero =>
    intro i cur n hik hn
    obtain ⟨m, rfl⟩ : ∃ m, n = m + 1 := ⟨n - 1, by omega⟩
    have hi : ¬ i < rs.length := by omega
    simp [absOps, absRun, absStep, absRead, openRec, hi, collectRecs, posRecs]
  | succ k ih =>
    intro i cur n hik hn
    obtain ⟨m, rfl⟩ : ∃ m, n = m + 1 := ⟨n - 1, by omega⟩
    have hi : i < rs.length := by omega
    have hne : recAt rs i ≠ [] := hr _ (by unfold recAt; simp [hi])
    have hlen : 0 < (recAt rs i).length := List.length_pos_iff.mpr hne
    have hnot : ¬ (0 ≥ (recAt rs i).length) := by omega
    have step1 : absRun L rs ⟨.start i, cur⟩ (absOps (m + 1)) =
        .bytes (recAt rs i) :: .pos (tellOf L rs i) :: absRun L rs ⟨.start (i + 1), some i⟩ (absOps m) := by
      simp [absOps, absRun, absStep, absRead, openRec, hi, hnot]
    rw [step1]
    simp only [collectRecs, posRecs]
    rw [ih (i + 1) (some i) m (by omega) (by omega)]
    rfl

theorem length_le_numPRs (L : Layout) (hL : L.Valid) (rs : List Bytes) (hr : ∀ r ∈ rs, r ≠ []) : rs.length ≤ numPRs L rs := by
  have hmp : 1 ≤ L.maxPayload := by have := hL.2; unfold Layout.maxPayload; omega
  induction rs with
  | nil => simp
  | cons r rs ih =>
    have h1 : 1 ≤ (chunks L.maxPayload r).length := by
      have : chunks L.maxPayload r ≠ [] := fun h => hr r (by simp) ((chunks_eq_nil _ hmp r).mp h)
      exact List.length_pos_iff.mpr this
    have := ih (fun x hx => hr x (by simp [hx]))
    simp only [numPRs, List.map_cons, List.sum_cons, List.length_cons] at this ⊢
    omega

theorem length_lt_encode (L : Layout) (hL : L.Valid) (rs : List Bytes) (hr : ∀ r ∈ rs, r ≠ []) :
    rs.length < (encode L rs).length + 1 := by
  have h1 := length_le_numPRs L hL rs hr
  have h2 := numPRs_le_size L rs
  rw [encode_length]
  unfold fileSize tellOf
  rw [List.take_length]
  split <;> omega


/-- an index of a record stream whose first record has a type the dispatch table knows is not empty -/
theorem fileIndex_nonempty (p t a : Nat) (payload : List Nat) (rest : List (Nat × List Nat)) (es : List TD.C06.Entry)
    (ht : t = 128 ∨ t = 130 ∨ t = 132)
    (h : TD.C06.fileIndex ((p, t :: a :: payload) :: rest) = .ok es) : es ≠ [] := by
  have := TD.C06.index_lists_all _ es h
  intro he
  rw [he] at this
  have hs : TD.C06.specEntry (p, t :: a :: payload) ≠ none := by
    rcases ht with rfl | rfl | rfl <;> simp [TD.C06.specEntry, TD.C06.despatch]
  cases hsp : TD.C06.specEntry (p, t :: a :: payload) with
  | none => exact hs hsp
  | some e => simp [TD.C06.specEntries, List.filterMap_cons, hsp] at this

/-- **the deep test on a written file**: if the pad-option scan returns a reader that refines the abstract semantics
(as `pad_reader_refines` / `pad_reader_refines_cond` give it) and building the index over the records does not raise,
`lisTest` answers the layout's code. -/
theorem lisTest_encode (L : Layout) (rs : List Bytes) (hL : L.Valid) (hr : ∀ r ∈ rs, r ≠ []) (hrs : rs ≠ [])
    (hbe : L.tif = .be → firstNext L rs ≠ 0x100 ∧ firstNext L rs ≠ 0x10000)
    (hread : ∃ cfg, bestReaderCfg (encode L rs) lisPrLimit = some cfg ∧
      run cfg (encode L rs) (some (Rd.new (encode L rs))) ((absOps ((encode L rs).length + 1)).map (concOp L rs))
        = absRun L rs AState.init (absOps ((encode L rs).length + 1)))
    (es : List TD.C06.Entry) (hidx : TD.C06.fileIndex (posRecs L rs 0 rs.length) = .ok es) (hes : es ≠ []) :
    lisTest (encode L rs) = lisCodeOf L.tif := by
  obtain ⟨cfg, hcfg, hrun⟩ := hread
  have hcol := absRun_collect L rs hr rs.length 0 none ((encode L rs).length + 1) (by omega) (length_lt_encode L hL rs hr)
  have hmode := tifInit_mode L hL rs hr (fun _ => hrs) hbe
  unfold lisTest
  rw [hcfg]
  simp only []
  rw [← absOps_conc L rs, hrun]
  have hinit : AState.init = ⟨.start 0, none⟩ := rfl
  rw [hinit, hcol]
  simp only []
  rw [hidx]
  have hne : es.isEmpty = false := by cases es with
    | nil => exact absurd rfl hes
    | cons _ _ => rfl
  simp only [hne]
  obtain ⟨h1, h2⟩ := hmode
  rw [h1, h2]
  cases htif : L.tif <;> simp [lisCodeOf]

end TD.C20
