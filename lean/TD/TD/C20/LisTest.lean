/-
C20 — the LIS deep test `bin_file_type._lis`, written out with the reader model of C05 and the index model of C06
(core Lean only: the driver links this file).

    for pr_limit in (100, 0):
        d = File.scan_file_with_different_padding(fobj, keep_going=True, pr_limit=pr_limit)
        for pr_settings in sorted(d, key=d.get, reverse=True):
            if d[pr_settings] == 0: break
            try:
                lis_file = File.FileRead(fobj, '', True, *pr_settings)
                if len(FileIndexer.FileIndex(lis_file)): return LIStr / LISt / LIS by lis_file._prh.tif
            except (ExceptionTotalDepthLIS, struct.error, ArithmeticError): pass
    return ''

* `TD.C05.scanAll true b limit` is the pad-option scan (dict items in insertion order), `sortDesc` the stable sort by decreasing count;
* the logical records the index is built from are obtained from that reader by the history
  `readLrBytes(-1); tellLr()` repeated until the end — `FileIndex` itself reads headers, sub-structures and skips, but
  `TD.C05.read_refines` holds for EVERY history, so on written files any history yields the same bytes at the same
  positions; on arbitrary bytes this choice of history is a modelling decision (compared with the code by `./check C20`);
* `TD.C06.fileIndex` is the loop of `FileIndex.__init__` on the stream of (position, record bytes);
* an exception (of any class: the C20 model has no exception output) gives `none`.
-/
import TD.C05.Model
import TD.C06.Model
import TD.C20.Model

namespace TD.C20
open TD.C05 (COp Reply Rd Tif run)

/-- `readLrBytes(-1); tellLr()`, n times -/
def lisOps : Nat → List COp
  | 0 => []
  | n + 1 => .read (-1) :: .tell :: lisOps n

/-- the (position, bytes) pairs of the replies up to the first `None` / EOF; `none` after any other reply -/
def collectRecs : List Reply → Option (List (Nat × List Nat))
  | .bytes b :: .pos p :: rest => (collectRecs rest).map ((p, b) :: ·)
  | .none :: _ => some []
  | .eofError :: _ => some []
  | [] => some []
  | _ => none

/-- `pr_limit=100` of the first round of `_lis` (the second round scans the whole file: `pr_limit=0`) -/
def lisPrLimit : Nat := 100

/-- `LIStr` / `LISt` / `LIS` from `lis_file._prh.tif.hasTif / isReversed`: the TIF object is built by the constructor from
the first 12 bytes of the file, whatever the pad option -/
def tifCode (b : Bytes) : LisRes :=
  if (Tif.init b).hasTif then (if (Tif.init b).isReversed then .listr else .list) else .lis

/-- the body of the inner loop for one pad option: `FileRead(fobj, '', True, *pr_settings)`, `FileIndex(lis_file)`;
`.ok (some code)` = returned, `.ok none` = empty index (loop goes on), `.error e` = the index raised (caught, loop goes on) -/
def lisTryOptionE (b : Bytes) (o : Nat × Bool) : Except TD.C06.Err (Option LisRes) :=
  match collectRecs (run ⟨true, o.1, o.2⟩ b (some (Rd.new b)) (lisOps (b.length + 1))) with
  | none => .ok none                      -- the reader raised (ExceptionTotalDepthLIS)
  | some recs =>
    match TD.C06.fileIndex recs with
    | .error e => .error e
    | .ok es => if es.isEmpty then .ok none else .ok (some (tifCode b))

def lisTryOption (b : Bytes) (o : Nat × Bool) : Option LisRes :=
  match lisTryOptionE b o with
  | .ok r => r
  | .error _ => none

/-- insertion into a list sorted by decreasing count, before the first element whose count is not larger: an element
that came earlier in the dict stays in front of later ones with the same count (Python's `sorted` is stable) -/
def insertDesc (x : (Nat × Bool) × Nat) : List ((Nat × Bool) × Nat) → List ((Nat × Bool) × Nat)
  | [] => [x]
  | y :: r => if y.2 > x.2 then y :: insertDesc x r else x :: y :: r

/-- `sorted(d, key=d.get, reverse=True)` on the dict items in insertion order -/
def sortDesc (c : List ((Nat × Bool) × Nat)) : List ((Nat × Bool) × Nat) := c.foldr insertDesc []

/-- `for pr_settings in sorted(d, key=d.get, reverse=True): if d[pr_settings] == 0: break` — the options that get tried in
one round: every option that read at least one physical record, best count first, ties in dict order -/
def lisTried (b : Bytes) (limit : Nat) : List (Nat × Bool) :=
  ((sortDesc (TD.C05.scanAll true b limit)).takeWhile (fun x => x.2 != 0)).map (·.1)

def firstSome {α β : Type} (f : α → Option β) : List α → Option β
  | [] => none
  | a :: r => match f a with
    | some x => some x
    | none => firstSome f r

/-- one round of the outer loop: the first tried option that gives a non-empty index decides -/
def lisRound (b : Bytes) (limit : Nat) : Option LisRes := firstSome (lisTryOption b) (lisTried b limit)

/-- `bin_file_type._lis` on a file with content `b`: `for pr_limit in (100, 0)` -/
def lisTest (b : Bytes) : LisRes :=
  match lisRound b lisPrLimit with
  | some r => r
  | none =>
    match lisRound b 0 with
    | some r => r
    | none => .none

/-- the C06 index model declares parts of the format outside its scope (`Err.unsupported`: floating X values of a data
record other than integers in code 68, dipmeter channels, differing spacing/depth units, …): when a tried option meets
such a record stream `lisTest` is not claimed to follow the code (the correspondence run skips these files and counts them) -/
def lisTestInScope (b : Bytes) : Bool :=
  (lisTried b lisPrLimit ++ lisTried b 0).all (fun o =>
    match lisTryOptionE b o with
    | .error .unsupported => false
    | _ => true)

/-- what `_lis` must answer for a layout: `LIS`, `LISt` (TIF markers), `LIStr` (reversed TIF markers) -/
def lisCodeOf : TD.C05.TifMode → LisRes
  | .off => .lis
  | .le => .list
  | .be => .listr

end TD.C20
