/-
C20 — the LIS deep test `bin_file_type._lis`, written out with the reader model of C05 and the index model of C06
(core Lean only: the driver links this file).

    lis_file = File.file_read_with_best_physical_record_pad_settings(fobj, '', pr_limit=100)
    if lis_file is not None:
        lis_index = FileIndexer.FileIndex(lis_file)
        if len(lis_index): LIStr / LISt / LIS by lis_file._prh.tif.hasTif / isReversed
    return ''            (also after ExceptionTotalDepthLIS, struct.error, ArithmeticError)

* `TD.C05.bestReaderCfg b 100` is the pad-option scan and the constructor arguments of the reader that is returned;
* the logical records the index is built from are obtained from that reader by the history
  `readLrBytes(-1); tellLr()` repeated until the end — `FileIndex` itself reads headers, sub-structures and skips, but
  `TD.C05.read_refines` holds for EVERY history, so on written files any history yields the same bytes at the same
  positions; on arbitrary bytes this choice of history is a modelling decision (compared with the code by `./check C20`);
* `TD.C06.fileIndex` is the loop of `FileIndex.__init__` on the stream of (position, record bytes);
* an exception (of any class: the C20 model has no exception output) gives `none`.
-/
import TD.C05.Model
import TD.C06.Model
import TD.C20.Model

namespace TD.C20
open TD.C05 (COp Reply Rd Tif run bestReaderCfg)

/-- `readLrBytes(-1); tellLr()`, n times -/
def lisOps : Nat → List COp
  | 0 => []
  | n + 1 => .read (-1) :: .tell :: lisOps n

/-- the (position, bytes) pairs of the replies up to the first `None` / EOF; `none` after any other reply -/
def collectRecs : List Reply → Option (List (Nat × List Nat))
  | .bytes b :: .pos p :: rest => (collectRecs rest).map ((p, b) :: ·)
  | .none :: _ => some []
  | .eofError :: _ => some []
  | [] => some []
  | _ => none

/-- `pr_limit=100` in `_lis` -/
def lisPrLimit : Nat := 100

/-- `bin_file_type._lis` on a file with content `b` -/
def lisTest (b : Bytes) : LisRes :=
  match bestReaderCfg b lisPrLimit with
  | none => .none
  | some cfg =>
    match collectRecs (run cfg b (some (Rd.new b)) (lisOps (b.length + 1))) with
    | none => .none
    | some recs =>
      match TD.C06.fileIndex recs with
      | .error _ => .none
      | .ok es =>
        if es.isEmpty then .none
        else if (Tif.init b).hasTif then (if (Tif.init b).isReversed then .listr else .list) else .lis

/-- the C06 index model declares parts of the format outside its scope (`Err.unsupported`: floating X values of a data
record other than integers in code 68, dipmeter channels, differing spacing/depth units, …): on such a record stream
`lisTest` is not claimed to follow the code (the correspondence run skips these files and counts them) -/
def lisTestInScope (b : Bytes) : Bool :=
  match bestReaderCfg b lisPrLimit with
  | none => true
  | some cfg =>
    match collectRecs (run cfg b (some (Rd.new b)) (lisOps (b.length + 1))) with
    | none => true
    | some recs =>
      match TD.C06.fileIndex recs with
      | .error .unsupported => false
      | _ => true

/-- what `_lis` must answer for a layout: `LIS`, `LISt` (TIF markers), `LIStr` (reversed TIF markers) -/
def lisCodeOf : TD.C05.TifMode → LisRes
  | .off => .lis
  | .le => .list
  | .be => .listr

end TD.C20
