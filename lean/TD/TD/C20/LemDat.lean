import TD.C14.Props
import TD.C20.Lemmas

/-!
C20 ↔ C14 bridge: the DAT trial parse of `bin_file_type._dat` instantiated with the C14 model
(`TD.C14.canParseFile`), and the facts about the C14 printer `TD.C14.Spec.print` that file type identification needs.
-/
namespace TD.C20
open TD.C14 TD.C14.Spec

/-- `DAT_parser.can_parse_file(io.StringIO(fobj.read().decode('ascii')))` — for an all-ASCII file the decoded text is
the byte list itself (code points = bytes; `io.StringIO` does not translate newlines).  An escaping non-DAT exception
(`Except.error`) is not an output of the C20 model; `TD.C14.can_parse_never_raises` shows the C14 model has none. -/
def datParse (b : Bytes) : Bool :=
  match canParseFile b with
  | .ok true => true
  | _ => false

/-! ### break-after-first-row -/

/-- the scanner up to and including the first data line, for both values of `break_after_first_row` -/
theorem loop_first_row (brk : Bool) (f : File) (hwf : f.wf) (r0 : Row × LineLay × CellLay) (hr0 : r0 ∈ f.rows) (rest : List Str) :
    ∃ st', loop brk {} (f.decls.map (fun d => printLine (declTokens d.1) d.2) ++
        printLine (headerTokens f.sel) f.hdrLay :: printLine (rowTokens r0.1 r0.2.2) r0.2.1 :: rest) =
      (if brk then .ok st' else loop brk st' rest) ∧ st' = ⟨dictOf f, false, headerTokens f.sel, (headerTokens f.sel).map (chanOf f),
          appendRow (List.replicate (headerTokens f.sel).length []) (rowTokens r0.1 r0.2.2)⟩ := by
  have hst := sel_tok f hwf
  have hmk := hdr_mk f hwf
  have hnd' := hdr_nodup f hwf
  obtain ⟨hd, hnd, _, _, _, hne, _, _, hhl, hrows⟩ := hwf
  refine ⟨_, ?_, rfl⟩
  have h0 : ({} : St) = ⟨[], true, [], [], []⟩ := rfl
  have hadd := addChannels_ok (dictOf f) (chanOf f) (headerTokens f.sel) [] [] hmk hnd' (by intro n _ c hc; simp at hc)
  simp only [List.nil_append] at hadd
  obtain ⟨hrw, hlw⟩ := hrows r0 hr0
  have htok := rowTokens_tok _ r0.1 r0.2.2 hrw
  have hsplit : splitWs (prep (printLine (rowTokens r0.1 r0.2.2) r0.2.1)) = rowTokens r0.1 r0.2.2 := by
    rw [prep_printLine _ _ (by simp [rowTokens]) htok hlw, splitWs_interleave _ _ htok hlw.2.2]
  have hlen : (rowTokens r0.1 r0.2.2).length = (headerTokens f.sel).length := by
    rw [rowTokens_length, hrw.2.2.2.2.2.2.2.2.2.2.1]; simp [headerTokens]; omega
  rw [h0, loop_decls brk f.decls [] _ hd hnd (by intro d _ e he; simp at he)]
  show loop brk ⟨dictOf f, true, [], [], []⟩ _ = _
  rw [loop_header brk (dictOf f) f.sel f.hdrLay _ hne hst hhl, hadd]
  simp only []
  rw [loop]
  simp only [List.length_map, ne_eq, not_true_eq_false, if_false, Bool.false_eq_true, hsplit, hlen, List.length_replicate]

/-- `can_parse_file` accepts every printed well-formed file that has at least one data row -/
theorem canParse_print (f : File) (hwf : f.wf) (hrows : f.rows ≠ []) : canParseFile (print f) = .ok true := by
  obtain ⟨r0, rs, hr⟩ : ∃ r0 rs, f.rows = r0 :: rs := by
    cases h : f.rows with
    | nil => exact absurd h hrows
    | cons a t => exact ⟨a, t, rfl⟩
  -- the same file with only its first row
  let g : File := { f with rows := [r0] }
  have hg : g.wf := by
    obtain ⟨a1, a2, a3, a4, a5, a6, a7, a8, a9, a10⟩ := hwf
    exact ⟨a1, a2, a3, a4, a5, a6, a7, a8, a9, fun r hrm => a10 r (by
      have : r = r0 := by simpa [g] using hrm
      rw [this, hr]; simp)⟩
  have hfl : f.lines = f.decls.map (fun d => printLine (declTokens d.1) d.2) ++
      printLine (headerTokens f.sel) f.hdrLay :: printLine (rowTokens r0.1 r0.2.2) r0.2.1 ::
        rs.map (fun r => printLine (rowTokens r.1 r.2.2) r.2.1) := by
    simp [File.lines, hr]
  have hgl : g.lines = f.decls.map (fun d => printLine (declTokens d.1) d.2) ++
      printLine (headerTokens f.sel) f.hdrLay :: printLine (rowTokens r0.1 r0.2.2) r0.2.1 :: [] := by
    simp [File.lines, g]
  obtain ⟨st1, h1, e1⟩ := loop_first_row true f hwf r0 (by rw [hr]; simp) (rs.map (fun r => printLine (rowTokens r.1 r.2.2) r.2.1))
  obtain ⟨st2, h2, e2⟩ := loop_first_row false f hwf r0 (by rw [hr]; simp) []
  have hsame : loop true {} f.lines = loop false {} g.lines := by
    rw [hfl, hgl, h1, h2, e1, e2]
    simp [loop]
  have hparse : parseLines true f.lines = .ok (expected g) := by
    have hp := dat_parse_print g hg
    unfold parseFile print at hp
    rw [splitLines_joinLines _ _ (lines_ok g hg)] at hp
    unfold parseLines at hp ⊢
    rw [hsame]
    exact hp
  unfold canParseFile print
  rw [splitLines_joinLines _ _ (lines_ok f hwf), hparse]
  simp [expected, headerTokens, columns, g]

theorem datParse_print (f : File) (hwf : f.wf) (hrows : f.rows ≠ []) : datParse (print f) = true := by
  unfold datParse
  rw [canParse_print f hwf hrows]


/-! ### shape of a printed file -/

theorem joinLines_mem (ls : List Str) (fin : Bool) : ∀ c ∈ joinLines ls fin, c = 10 ∨ ∃ l ∈ ls, c ∈ l := by
  induction ls with
  | nil => simp [joinLines]
  | cons l r ih =>
    intro c hc
    cases r with
    | nil =>
      simp only [joinLines] at hc
      split at hc
      · rcases List.mem_append.mp hc with h | h
        · exact Or.inr ⟨l, by simp, h⟩
        · left; simpa using h
      · exact Or.inr ⟨l, by simp, hc⟩
    | cons l2 r2 =>
      simp only [joinLines] at hc
      rcases List.mem_append.mp hc with h | h
      · exact Or.inr ⟨l, by simp, h⟩
      · rcases List.mem_cons.mp h with h | h
        · exact Or.inl h
        · rcases ih c h with h' | ⟨l', hl', hc'⟩
          · exact Or.inl h'
          · exact Or.inr ⟨l', by simp [hl'], hc'⟩

theorem printLine_chars (toks : List Str) (lay : LineLay) (ht : ∀ t ∈ toks, isTok t) (hl : lay.wf) :
    ∀ c ∈ printLine toks lay, (9 ≤ c ∧ c ≤ 13) ∨ (32 ≤ c ∧ c ≤ 126) := by
  obtain ⟨hlead, htrail, hseps⟩ := hl
  intro c hc
  simp only [printLine, List.mem_append] at hc
  rcases hc with (hc | hc) | hc
  · rcases hlead c hc with h | h | h | h | h <;> omega
  · rcases interleave_chars toks lay.seps ht hseps c hc with h | h
    · omega
    · rcases h with h | h | h | h | h <;> omega
  · rcases htrail c hc with h | h | h | h | h <;> omega

theorem print_printable (f : File) (hwf : f.wf) : Printable (print f) := by
  have hst := sel_tok f hwf
  obtain ⟨hd, _, _, _, _, hne, _, _, hhl, hrows⟩ := hwf
  intro c hc
  rcases joinLines_mem _ _ c hc with h | ⟨l, hl, hcl⟩
  · omega
  · simp only [File.lines, List.mem_append, List.mem_cons, List.mem_map] at hl
    rcases hl with ⟨d, hdm, rfl⟩ | rfl | ⟨r, hrm, rfl⟩
    · exact printLine_chars _ _ (declTokens_tok d.1 (hd d hdm).1) (hd d hdm).2 c hcl
    · exact printLine_chars _ _ (headerTokens_tok f.sel hst) hhl c hcl
    · exact printLine_chars _ _ (rowTokens_tok _ r.1 r.2.2 (hrows r hrm).1) (hrows r hrm).2 c hcl

theorem joinLines_cons_prefix (l : Str) (r : List Str) (fin : Bool) : ∃ Z, joinLines (l :: r) fin = l ++ Z := by
  cases r with
  | nil =>
    simp only [joinLines]
    split
    · exact ⟨[10], rfl⟩
    · exact ⟨[], by simp⟩
  | cons l2 r2 => exact ⟨10 :: joinLines (l2 :: r2) fin, rfl⟩

theorem interleave_cons_prefix (t : Str) (ts seps : List Str) : ∃ Y, interleave (t :: ts) seps = t ++ Y := by
  cases ts with
  | nil => exact ⟨[], by simp [interleave]⟩
  | cons u us =>
    cases seps with
    | nil => exact ⟨32 :: interleave (u :: us) [], rfl⟩
    | cons s ss => exact ⟨s ++ interleave (u :: us) ss, by simp [interleave]⟩

theorem dropWhile_blank_prefix (lead : Str) (a : Nat) (W : Str) (hl : isBlank lead) (ha : isWs a = false) :
    (lead ++ a :: W).dropWhile isWs = a :: W := by
  induction lead with
  | nil => simp [List.dropWhile, ha]
  | cons x xs ih =>
    have hx : isWs x = true := by
      rcases hl x (by simp) with h | h | h | h | h <;> simp [h, isWs]
    rw [List.cons_append, List.dropWhile_cons_of_pos hx]
    exact ih (fun c hc => hl c (by simp [hc]))

/-- a printed file is: blanks, then a channel mnemonic character -/
theorem print_head (f : File) (hwf : f.wf) :
    ∃ lead a W, print f = lead ++ a :: W ∧ isBlank lead ∧ isUpperDigit a = true := by
  obtain ⟨hd, _, ⟨dU, hdU, _, _⟩, _⟩ := hwf
  cases hds : f.decls with
  | nil => rw [hds] at hdU; simp at hdU
  | cons d ds =>
    obtain ⟨⟨hname, _⟩, hlay⟩ := hd d (by rw [hds]; simp)
    obtain ⟨hne, hchars⟩ := hname
    cases hn : d.1.name with
    | nil => exact absurd hn hne
    | cons a n' =>
      obtain ⟨Y, hY⟩ := interleave_cons_prefix d.1.name (d.1.words ++ [d.1.units]) d.2.seps
      obtain ⟨Z, hZ⟩ := joinLines_cons_prefix (printLine (declTokens d.1) d.2)
        (ds.map (fun d => printLine (declTokens d.1) d.2) ++ printLine (headerTokens f.sel) f.hdrLay ::
          f.rows.map (fun r => printLine (rowTokens r.1 r.2.2) r.2.1)) f.finalNewline
      refine ⟨d.2.lead, a, n' ++ Y ++ d.2.trail ++ Z, ?_, hlay.1, hchars a (by rw [hn]; simp)⟩
      unfold print File.lines
      rw [hds, List.map_cons, List.cons_append, hZ]
      simp only [printLine, declTokens]
      rw [hY, hn]
      simp only [List.cons_append, List.append_assoc]

end TD.C20
