import TD.C14.Props
import TD.C20.Lemmas

/-!
C20 ↔ C14 bridge: the DAT trial parse of `bin_file_type._dat` instantiated with the C14 model
(`TD.C14.canParseFile`), and the facts about the C14 printer `TD.C14.Spec.print` that file type identification needs.
-/
namespace TD.C20
open TD.C14 TD.C14.Spec

/-- `DAT_parser.can_parse_file(io.StringIO(fobj.read().decode('ascii')))` — for an all-ASCII file the decoded text is
the byte list itself (code points = bytes; `io.StringIO` does not translate newlines).  An escaping non-DAT exception
(`Except.error`) is not an output of the C20 model; `TD.C14.can_parse_never_raises` shows the C14 model has none. -/
def datParse (b : Bytes) : Bool :=
  match canParseFile b with
  | .ok true => true
  | _ => false

/-! ### break-after-first-row -/

/-- the scanner up to and including the first data line, for both values of `break_after_first_row` -/
theorem loop_first_row (brk : Bool) (f : File) (hwf : f.wf) (r0 : Row × LineLay × CellLay) (hr0 : r0 ∈ f.rows) (rest : List Str) :
    ∃ st', loop brk {} (f.decls.map (fun d => printLine (declTokens d.1) d.2) ++
        printLine (headerTokens f.sel) f.hdrLay :: printLine (rowTokens r0.1 r0.2.2) r0.2.1 :: rest) =
      (if brk then .ok st' else loop brk st' rest) ∧ st' = ⟨dictOf f, false, headerTokens f.sel, (headerTokens f.sel).map (chanOf f),
          appendRow (List.replicate (headerTokens f.sel).length []) (rowTokens r0.1 r0.2.2)⟩ := by
  have hst := sel_tok f hwf
  have hmk := hdr_mk f hwf
  have hnd' := hdr_nodup f hwf
  obtain ⟨hd, hnd, _, _, _, hne, _, _, hhl, hrows⟩ := hwf
  refine ⟨_, ?_, rfl⟩
  have h0 : ({} : St) = ⟨[], true, [], [], []⟩ := rfl
  have hadd := addChannels_ok (dictOf f) (chanOf f) (headerTokens f.sel) [] [] hmk hnd' (by intro n _ c hc; simp at hc)
  simp only [List.nil_append] at hadd
  obtain ⟨hrw, hlw⟩ := hrows r0 hr0
  have htok := rowTokens_tok _ r0.1 r0.2.2 hrw
  have hsplit : splitWs (prep (printLine (rowTokens r0.1 r0.2.2) r0.2.1)) = rowTokens r0.1 r0.2.2 := by
    rw [prep_printLine _ _ (by simp [rowTokens]) htok hlw, splitWs_interleave _ _ htok hlw.2.2]
  have hlen : (rowTokens r0.1 r0.2.2).length = (headerTokens f.sel).length := by
    rw [rowTokens_length, hrw.2.2.2.2.2.2.2.2.2.2.1]; simp [headerTokens]; omega
  rw [h0, loop_decls brk f.decls [] _ hd hnd (by intro d _ e he; simp at he)]
  show loop brk ⟨dictOf f, true, [], [], []⟩ _ = _
  rw [loop_header brk (dictOf f) f.sel f.hdrLay _ hne hst hhl, hadd]
  simp only []
  rw [loop]
  simp only [List.length_map, ne_eq, not_true_eq_false, if_false, Bool.false_eq_true, hsplit, hlen, List.length_replicate]

/-- `can_parse_file` accepts every printed well-formed file that has at least one data row -/
theorem canParse_print (f : File) (hwf : f.wf) (hrows : f.rows ≠ []) : canParseFile (print f) = .ok true := by
  obtain ⟨r0, rs, hr⟩ : ∃ r0 rs, f.rows = r0 :: rs := by
    cases h : f.rows with
    | nil => exact absurd h hrows
    | cons a t => exact ⟨a, t, rfl⟩
  -- the same file with only its first row
  let g : File := { f with rows := [r0] }
  have hg : g.wf := by
    obtain ⟨a1, a2, a3, a4, a5, a6, a7, a8, a9, a10⟩ := hwf
    exact ⟨a1, a2, a3, a4, a5, a6, a7, a8, a9, fun r hrm => a10 r (by
      have : r = r0 := by simpa [g] using hrm
      rw [this, hr]; simp)⟩
  have hfl : f.lines = f.decls.map (fun d => printLine (declTokens d.1) d.2) ++
      printLine (headerTokens f.sel) f.hdrLay :: printLine (rowTokens r0.1 r0.2.2) r0.2.1 ::
        rs.map (fun r => printLine (rowTokens r.1 r.2.2) r.2.1) := by
    simp [File.lines, hr]
  have hgl : g.lines = f.decls.map (fun d => printLine (declTokens d.1) d.2) ++
      printLine (headerTokens f.sel) f.hdrLay :: printLine (rowTokens r0.1 r0.2.2) r0.2.1 :: [] := by
    simp [File.lines, g]
  obtain ⟨st1, h1, e1⟩ := loop_first_row true f hwf r0 (by rw [hr]; simp) (rs.map (fun r => printLine (rowTokens r.1 r.2.2) r.2.1))
  obtain ⟨st2, h2, e2⟩ := loop_first_row false f hwf r0 (by rw [hr]; simp) []
  have hsame : loop true {} f.lines = loop false {} g.lines := by
    rw [hfl, hgl, h1, h2, e1, e2]
    simp [loop]
  have hparse : parseLines true f.lines = .ok (expected g) := by
    have hp := dat_parse_print g hg
    unfold parseFile print at hp
    rw [splitLines_joinLines _ _ (lines_ok g hg)] at hp
    unfold parseLines at hp ⊢
    rw [hsame]
    exact hp
  unfold canParseFile print
  rw [splitLines_joinLines _ _ (lines_ok f hwf), hparse]
  simp [expected, headerTokens, columns, g]

theorem datParse_print (f : File) (hwf : f.wf) (hrows : f.rows ≠ []) : datParse (print f) = true := by
  unfold datParse
  rw [canParse_print f hwf hrows]

end TD.C20
