import TD.C20.Lemmas

/-!
# C20 — file type identification recognises every supported format and never crashes

Property theorems only.  The model `TD.C20.identify` transcribes `TotalDepth/util/bin_file_type.py`; its table of tests
(`TD.C20.Gen.tests`: order, magic byte strings, constants, regular-expression shapes) is re-generated from the source by
`./check C20`, so a reordering of `FUNCTION_ID_MAP` or a changed signature changes the subject of these theorems.
The LIS deep test `lisT` and the DAT trial parse `datP` are abstract parameters (see `Model.lean`): theorems that
mention them are named `…_partial` and say what is missing.
-/
namespace TD.C20
open TD.C20.Gen

/-! ## Totality, range, ordering -/

/-- the strings one entry of the table can return -/
def kindRets : TestKind → List String
  | .magic _ _ ret => [ret]
  | .magicAny _ ret => [ret]
  | .bit .. => ["BIT"]
  | .las pfx => ["LAS" ++ codeOfBytes pfx]
  | .rp66v1 => ["RP66V1"]
  | .rp66v1Tif => ["RP66V1", "RP66V1t", "RP66V1tr"]
  | .rp66v1TifR => ["RP66V1", "RP66V1t", "RP66V1tr"]
  | .rp66v2 => ["RP66V2"]
  | .dat => ["DAT"]
  | .segy => ["SEGY"]
  | .lisVer _ _ ret => [ret]
  | .ascii _ ret => [ret]
  | .lis => ["LIS", "LISt", "LIStr"]
  | .unknown => []

theorem rp66v1Bytes_range (x : Bytes) : rp66v1Bytes x = "" ∨ rp66v1Bytes x = "RP66V1" := by
  unfold rp66v1Bytes
  repeat' split
  all_goals simp

theorem rp66v1TifGeneral_range (x : Bytes) (n : Nat) :
    rp66v1TifGeneral x n = "" ∨ rp66v1TifGeneral x n ∈ ["RP66V1", "RP66V1t", "RP66V1tr"] := by
  unfold rp66v1TifGeneral
  rcases rp66v1Bytes_range (x.drop 12) with h | h
  · simp [h]
  · simp only [h]
    by_cases hn : (n != rp66v1LenWithTif) = true
    · simp [hn]
    · simp only [hn]
      cases tifInitial x <;> decide

theorem runTest_range (lisT : Bytes → LisRes) (datP : Bytes → Bool) (k : TestKind) (b : Bytes) :
    runTest lisT datP k b = "" ∨ runTest lisT datP k b ∈ kindRets k := by
  cases k with
  | magic n sig ret => simp only [runTest, kindRets]; split <;> simp
  | magicAny sigs ret => simp only [runTest, kindRets]; split <;> simp
  | bit t w k => simp only [runTest, kindRets, bitTest]; repeat' split
                 all_goals simp
  | las pfx =>
    simp only [runTest, kindRets, lasTest]
    repeat' split
    all_goals simp
  | rp66v1 => simp only [runTest, kindRets]; rcases rp66v1Bytes_range (b.take 80) with h | h <;> simp [h]
  | rp66v1Tif =>
    simp only [runTest, kindRets, rp66v1TifTest]
    split
    · simp
    · exact rp66v1TifGeneral_range _ _
  | rp66v1TifR =>
    simp only [runTest, kindRets, rp66v1TifRTest]
    split
    · simp
    · exact rp66v1TifGeneral_range _ _
  | rp66v2 => simp only [runTest, kindRets, rp66v2Test]; repeat' split
              all_goals simp
  | dat => simp only [runTest, kindRets, datTest]; repeat' split
           all_goals simp
  | segy => simp only [runTest, kindRets, segyTest]; repeat' split
            all_goals simp
  | lisVer sigs extra ret => simp only [runTest, kindRets, lisVerTest]; split <;> simp
  | ascii n ret => simp only [runTest, kindRets, asciiTest]; split <;> simp
  | lis => simp only [runTest, kindRets]; cases lisT b <;> simp [LisRes.code]
  | unknown => simp [runTest]

theorem firstMatch_range (lisT : Bytes → LisRes) (datP : Bytes → Bool) (b : Bytes) (ts : List (String × TestKind × String)) :
    firstMatch lisT datP b ts = "" ∨ ∃ t ∈ ts, firstMatch lisT datP b ts ∈ kindRets t.2.1 := by
  induction ts with
  | nil => left; rfl
  | cons t rest ih =>
    obtain ⟨nm, k, lbl⟩ := t
    simp only [firstMatch]
    by_cases h : (runTest lisT datP k b != "") = true
    · simp only [h, if_true]
      rcases runTest_range lisT datP k b with h0 | h1
      · simp [h0] at h
      · right; exact ⟨(nm, k, lbl), by simp, h1⟩
    · simp only [h]
      rcases ih with h0 | ⟨t, ht, hk⟩
      · left; simpa using h0
      · right; exact ⟨t, by simp [ht], by simpa using hk⟩

/-- every string an entry of the generated table can return is a documented code -/
theorem table_rets_documented : ∀ t ∈ tests, ∀ s ∈ kindRets t.2.1, s ∈ codes := by decide

/-- **Totality and range**: for every byte string (and whatever the two deep tests answer) the identification is the
empty string or one of the documented codes of the generated table. -/
theorem total_and_in_range (lisT : Bytes → LisRes) (datP : Bytes → Bool) (b : Bytes) :
    identify lisT datP b = "" ∨ identify lisT datP b ∈ codes := by
  rcases firstMatch_range lisT datP b tests with h | ⟨t, ht, hk⟩
  · left; exact h
  · right; exact table_rets_documented t ht _ hk

example : identify (fun _ => .none) (fun _ => false) [80, 75, 3, 4, 20, 0] = "ZIP" := by decide

/-- **First match wins**: the answer is the answer of the first test of the table (in `FUNCTION_ID_MAP` order) that
answers at all; it is empty exactly when every test answers empty. -/
theorem first_match_wins (lisT : Bytes → LisRes) (datP : Bytes → Bool) (b : Bytes)
    (pre post : List (String × TestKind × String)) (t : String × TestKind × String)
    (hsplit : tests = pre ++ t :: post)
    (hpre : ∀ u ∈ pre, runTest lisT datP u.2.1 b = "")
    (ht : runTest lisT datP t.2.1 b ≠ "") :
    identify lisT datP b = runTest lisT datP t.2.1 b := by
  unfold identify
  rw [hsplit]
  clear hsplit
  induction pre with
  | nil =>
    obtain ⟨nm, k, lbl⟩ := t
    simp only [List.nil_append, firstMatch]
    simp [ht]
  | cons u pre ih =>
    obtain ⟨nm, k, lbl⟩ := u
    have hu : runTest lisT datP k b = "" := hpre (nm, k, lbl) (by simp)
    simp only [List.cons_append, firstMatch, hu]
    exact ih (fun v hv => hpre v (by simp [hv]))

theorem all_empty_iff (lisT : Bytes → LisRes) (datP : Bytes → Bool) (b : Bytes) :
    identify lisT datP b = "" ↔ ∀ t ∈ tests, runTest lisT datP t.2.1 b = "" := by
  unfold identify
  generalize tests = ts
  induction ts with
  | nil => simp [firstMatch]
  | cons t rest ih =>
    obtain ⟨nm, k, lbl⟩ := t
    simp only [firstMatch, List.mem_cons, forall_eq_or_imp]
    by_cases h : runTest lisT datP k b = ""
    · simp [h, ih]
    · simp [h]


/-! ## Recognition: LIS -/

/-- The head of a LIS file as the lemmas need it: first byte NUL (a reel/tape/file header is 62..138 bytes long, so the
high byte of the first physical record length is 0; a TIF-marked file starts with the TIF type word 0), bytes 4 and 16
are not `V` (byte 4 is the logical record type 128/130/132 or a TIF zero; byte 16 is header filler or, behind a TIF
marker, the record type), bytes 8..11 do not spell the word 288 (for a TIF-marked file: the first record is not exactly
276 bytes long — the stated exclusion; for a plain file these are printable name characters), and a byte >= 128
occurs within the first 256 (the record type byte 128/130/132 at offset 4 or 16). -/
structure LisHead (b : Bytes) : Prop where
  first_zero : b.head? = some 0
  bytes : ∀ x ∈ b, x < 256
  b4 : byteAt b 4 ≠ 86
  b16 : byteAt b 16 ≠ 86
  not_bit : ¬ word288 b
  high : ∃ x ∈ b.take 256, 128 ≤ x

/-- **LIS, relative to the deep test** (`_partial`: the physical-record scan + `FileIndexer` is the abstract `lisT`;
what is proved is that nothing earlier in the generated order claims a file with a LIS head, so the answer is exactly
what the LIS test says — `LIS`, `LISt`, `LIStr` or nothing.  Missing for the full statement "every valid LIS file is
identified as LIS/LISt/LIStr": `lisT b ≠ none` for files written by `File.FileWrite`; that part is exercised by the
oracle on generated files.) -/
theorem lis_identified_partial (lisT : Bytes → LisRes) (datP : Bytes → Bool) (b : Bytes) (h : LisHead b) :
    identify lisT datP b = (lisT b).code := by
  obtain ⟨h0, hbytes, h4, h16, hnb, hhi⟩ := h
  cases b with
  | nil => simp at h0
  | cons c r =>
    have hc : c = 0 := by simpa using h0
    subst hc
    rw [identify_skip_magic lisT datP 0 r (by unfold notMagicFirst; omega)]
    have hbit := bit_fail (0 :: r) (thirdWord_ne _ hbytes hnb)
    have hlas : ∀ pfx, lasTest pfx (0 :: r) = "" := fun pfx =>
      las_fail pfx (0 :: r) 0 r (by simp [List.dropWhile, isWs]) (by decide) (by decide)
    have hv1 := rp66v1Test_fail (0 :: r) h4
    have ht := rp66v1Tif_fail (0 :: r) h16
    have htr := rp66v1TifR_fail (0 :: r) h16
    have hv2 := rp66v2_fail (0 :: r) h4
    obtain ⟨ha256, hall⟩ := high_byte_not_ascii (0 :: r) 256 hhi
    have hdat : datTest datP (0 :: r) = "" := by simp [datTest, hall]
    have hsegy := segy_fail_zero r
    have hver : ∀ sigs extra ret, (∀ sig ∈ sigs, sig.head? ≠ some 0 ∧ sig ≠ []) → lisVerTest sigs extra ret (0 :: r) = "" :=
      fun sigs extra ret hs => lisVer_fail sigs extra ret 0 r (by decide) hs
    have hascii : asciiTest 256 "ASCII" (0 :: r) = "" := by
      unfold asciiTest; rw [ha256]; rfl
    simp only [tests, List.filter, isMagic, Bool.not_true, Bool.not_false, firstMatch, runTest, hbit, hlas, hv1, ht, htr, hv2,
      hdat, hsegy, hascii]
    rw [hver _ _ _ (by decide)]
    by_cases hc : (lisT (0 :: r)).code = ""
    · simp [hc]
    · simp [hc]

/-- plain LIS -/
theorem lis_identified (lisT : Bytes → LisRes) (datP : Bytes → Bool) (b : Bytes) (h : LisHead b) (hl : lisT b = .lis) :
    identify lisT datP b = "LIS" := by rw [lis_identified_partial lisT datP b h, hl]; rfl

/-- LIS with TIF markers (first record not exactly 276 bytes: `LisHead.not_bit`) -/
theorem list_identified (lisT : Bytes → LisRes) (datP : Bytes → Bool) (b : Bytes) (h : LisHead b) (hl : lisT b = .list) :
    identify lisT datP b = "LISt" := by rw [lis_identified_partial lisT datP b h, hl]; rfl

/-- LIS with reversed TIF markers -/
theorem listr_identified (lisT : Bytes → LisRes) (datP : Bytes → Bool) (b : Bytes) (h : LisHead b) (hl : lisT b = .listr) :
    identify lisT datP b = "LIStr" := by rw [lis_identified_partial lisT datP b h, hl]; rfl

/-- a plain file header record (PR length 62, type 128, name `RUNOne.lis`, filler NUL) has a LIS head -/
example : LisHead [0, 62, 0, 0, 128, 0, 82, 85, 78, 79, 110, 101, 46, 108, 105, 115, 0, 0, 83, 117] :=
  ⟨by decide, by decide, by decide, by decide, by decide, ⟨128, by decide, by decide⟩⟩

/-- a TIF-marked reel header (next = 144) has a LIS head -/
example : LisHead [0, 0, 0, 0, 0, 0, 0, 0, 144, 0, 0, 0, 0, 132, 0, 0, 132, 0, 83, 69] :=
  ⟨by decide, by decide, by decide, by decide, by decide, ⟨144, by decide, by decide⟩⟩

end TD.C20
