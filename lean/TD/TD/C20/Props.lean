import TD.C20.Lemmas
import TD.C20.LemDat
import TD.C20.LemEnc
import TD.C20.LemLis
import TD.C20.LemLisDeep

/-!
# C20 — file type identification recognises every supported format and never crashes

Property theorems only.  The model `TD.C20.identify` transcribes `TotalDepth/util/bin_file_type.py`; its table of tests
(`TD.C20.Gen.tests`: order, magic byte strings, constants, regular-expression shapes) is re-generated from the source by
`./check C20`, so a reordering of `FUNCTION_ID_MAP` or a changed signature changes the subject of these theorems.
The LIS deep test `lisT` and the DAT trial parse `datP` are abstract parameters (see `Model.lean`): theorems that
mention them are named `…_partial` and say what is missing.
-/
namespace TD.C20
open TD.C20.Gen

/-! ## Totality, range, ordering -/

/-- the strings one entry of the table can return -/
def kindRets : TestKind → List String
  | .magic _ _ ret => [ret]
  | .magicAny _ ret => [ret]
  | .bit .. => ["BIT"]
  | .las pfx => ["LAS" ++ codeOfBytes pfx]
  | .rp66v1 => ["RP66V1"]
  | .rp66v1Tif => ["RP66V1", "RP66V1t", "RP66V1tr"]
  | .rp66v1TifR => ["RP66V1", "RP66V1t", "RP66V1tr"]
  | .rp66v2 => ["RP66V2"]
  | .dat => ["DAT"]
  | .segy => ["SEGY"]
  | .lisVer _ _ ret => [ret]
  | .ascii _ ret => [ret]
  | .lis => ["LIS", "LISt", "LIStr"]
  | .unknown => []

theorem rp66v1Bytes_range (x : Bytes) : rp66v1Bytes x = "" ∨ rp66v1Bytes x = "RP66V1" := by
  unfold rp66v1Bytes
  repeat' split
  all_goals simp

theorem rp66v1TifGeneral_range (x : Bytes) (n : Nat) :
    rp66v1TifGeneral x n = "" ∨ rp66v1TifGeneral x n ∈ ["RP66V1", "RP66V1t", "RP66V1tr"] := by
  unfold rp66v1TifGeneral
  rcases rp66v1Bytes_range (x.drop 12) with h | h
  · simp [h]
  · simp only [h]
    by_cases hn : (n != rp66v1LenWithTif) = true
    · simp [hn]
    · simp only [hn]
      cases tifInitial x <;> decide

theorem runTest_range (lisT : Bytes → LisRes) (datP : Bytes → Bool) (k : TestKind) (b : Bytes) :
    runTest lisT datP k b = "" ∨ runTest lisT datP k b ∈ kindRets k := by
  cases k with
  | magic n sig ret => simp only [runTest, kindRets]; split <;> simp
  | magicAny sigs ret => simp only [runTest, kindRets]; split <;> simp
  | bit t w k => simp only [runTest, kindRets, bitTest]; repeat' split
                 all_goals simp
  | las pfx =>
    simp only [runTest, kindRets, lasTest]
    repeat' split
    all_goals simp
  | rp66v1 => simp only [runTest, kindRets]; rcases rp66v1Bytes_range (b.take 80) with h | h <;> simp [h]
  | rp66v1Tif =>
    simp only [runTest, kindRets, rp66v1TifTest]
    split
    · simp
    · exact rp66v1TifGeneral_range _ _
  | rp66v1TifR =>
    simp only [runTest, kindRets, rp66v1TifRTest]
    split
    · simp
    · exact rp66v1TifGeneral_range _ _
  | rp66v2 => simp only [runTest, kindRets, rp66v2Test]; repeat' split
              all_goals simp
  | dat => simp only [runTest, kindRets, datTest]; repeat' split
           all_goals simp
  | segy => simp only [runTest, kindRets, segyTest]; repeat' split
            all_goals simp
  | lisVer sigs extra ret => simp only [runTest, kindRets, lisVerTest]; split <;> simp
  | ascii n ret => simp only [runTest, kindRets, asciiTest]; split <;> simp
  | lis => simp only [runTest, kindRets]; cases lisT b <;> simp [LisRes.code]
  | unknown => simp [runTest]

theorem firstMatch_range (lisT : Bytes → LisRes) (datP : Bytes → Bool) (b : Bytes) (ts : List (String × TestKind × String)) :
    firstMatch lisT datP b ts = "" ∨ ∃ t ∈ ts, firstMatch lisT datP b ts ∈ kindRets t.2.1 := by
  induction ts with
  | nil => left; rfl
  | cons t rest ih =>
    obtain ⟨nm, k, lbl⟩ := t
    simp only [firstMatch]
    by_cases h : (runTest lisT datP k b != "") = true
    · simp only [h, if_true]
      rcases runTest_range lisT datP k b with h0 | h1
      · simp [h0] at h
      · right; exact ⟨(nm, k, lbl), by simp, h1⟩
    · simp only [h]
      rcases ih with h0 | ⟨t, ht, hk⟩
      · left; simpa using h0
      · right; exact ⟨t, by simp [ht], by simpa using hk⟩

/-- every string an entry of the generated table can return is a documented code -/
theorem table_rets_documented : ∀ t ∈ tests, ∀ s ∈ kindRets t.2.1, s ∈ codes := by decide

/-- **Totality and range**: for every byte string (and whatever the two deep tests answer) the identification is the
empty string or one of the documented codes of the generated table. -/
theorem total_and_in_range (lisT : Bytes → LisRes) (datP : Bytes → Bool) (b : Bytes) :
    identify lisT datP b = "" ∨ identify lisT datP b ∈ codes := by
  rcases firstMatch_range lisT datP b tests with h | ⟨t, ht, hk⟩
  · left; exact h
  · right; exact table_rets_documented t ht _ hk

example : identify (fun _ => .none) (fun _ => false) [80, 75, 3, 4, 20, 0] = "ZIP" := by decide

/-- **First match wins**: the answer is the answer of the first test of the table (in `FUNCTION_ID_MAP` order) that
answers at all; it is empty exactly when every test answers empty. -/
theorem first_match_wins (lisT : Bytes → LisRes) (datP : Bytes → Bool) (b : Bytes)
    (pre post : List (String × TestKind × String)) (t : String × TestKind × String)
    (hsplit : tests = pre ++ t :: post)
    (hpre : ∀ u ∈ pre, runTest lisT datP u.2.1 b = "")
    (ht : runTest lisT datP t.2.1 b ≠ "") :
    identify lisT datP b = runTest lisT datP t.2.1 b := by
  unfold identify
  rw [hsplit]
  clear hsplit
  induction pre with
  | nil =>
    obtain ⟨nm, k, lbl⟩ := t
    simp only [List.nil_append, firstMatch]
    simp [ht]
  | cons u pre ih =>
    obtain ⟨nm, k, lbl⟩ := u
    have hu : runTest lisT datP k b = "" := hpre (nm, k, lbl) (by simp)
    simp only [List.cons_append, firstMatch, hu]
    exact ih (fun v hv => hpre v (by simp [hv]))

theorem all_empty_iff (lisT : Bytes → LisRes) (datP : Bytes → Bool) (b : Bytes) :
    identify lisT datP b = "" ↔ ∀ t ∈ tests, runTest lisT datP t.2.1 b = "" := by
  unfold identify
  generalize tests = ts
  induction ts with
  | nil => simp [firstMatch]
  | cons t rest ih =>
    obtain ⟨nm, k, lbl⟩ := t
    simp only [firstMatch, List.mem_cons, forall_eq_or_imp]
    by_cases h : runTest lisT datP k b = ""
    · simp [h, ih]
    · simp [h]


/-! ## Recognition: LIS -/

/-- The head of a LIS file as the lemmas need it: first byte NUL (a reel/tape/file header is 62..138 bytes long, so the
high byte of the first physical record length is 0; a TIF-marked file starts with the TIF type word 0), bytes 4 and 16
are not `V` (byte 4 is the logical record type 128/130/132 or a TIF zero; byte 16 is header filler or, behind a TIF
marker, the record type), bytes 8..11 do not spell the word 288 (for a TIF-marked file: the first record is not exactly
276 bytes long — the stated exclusion; for a plain file these are printable name characters), and a byte >= 128
occurs within the first 256 (the record type byte 128/130/132 at offset 4 or 16). -/
structure LisHead (b : Bytes) : Prop where
  first_zero : b.head? = some 0
  bytes : ∀ i, 8 ≤ i → i < 12 → byteAt b i < 256
  b4 : byteAt b 4 ≠ 86
  b16 : byteAt b 16 ≠ 86
  not_bit : ¬ word288 b
  high : ∃ i, i < 256 ∧ 128 ≤ byteAt b i

/-- **LIS, relative to the deep test** (`_partial`: the physical-record scan + `FileIndexer` is the abstract `lisT`;
what is proved is that nothing earlier in the generated order claims a file with a LIS head, so the answer is exactly
what the LIS test says — `LIS`, `LISt`, `LIStr` or nothing.  Missing for the full statement "every valid LIS file is
identified as LIS/LISt/LIStr": `lisT b ≠ none` for files written by `File.FileWrite`; that part is exercised by the
oracle on generated files.) -/
theorem lis_family_identified_partial (lisT : Bytes → LisRes) (datP : Bytes → Bool) (b : Bytes) (h : LisHead b) :
    identify lisT datP b = (lisT b).code := by
  obtain ⟨h0, hbytes, h4, h16, hnb, hhi⟩ := h
  cases b with
  | nil => simp at h0
  | cons c r =>
    have hc : c = 0 := by simpa using h0
    subst hc
    rw [identify_skip_magic lisT datP 0 r (by unfold notMagicFirst; omega)]
    have hbit := bit_fail (0 :: r) (thirdWord_ne' _ hbytes hnb)
    have hlas : ∀ pfx, lasTest pfx (0 :: r) = "" := fun pfx =>
      las_fail pfx (0 :: r) 0 r (by simp [List.dropWhile, isWs]) (by decide) (by decide)
    have hv1 := rp66v1Test_fail (0 :: r) h4
    have ht := rp66v1Tif_fail (0 :: r) h16
    have htr := rp66v1TifR_fail (0 :: r) h16
    have hv2 := rp66v2_fail (0 :: r) h4
    obtain ⟨ih, hih, hih2⟩ := hhi
    obtain ⟨ha256, hall⟩ := high_byteAt_not_ascii (0 :: r) ih hih hih2
    have hdat : datTest datP (0 :: r) = "" := by simp [datTest, hall]
    have hsegy := segy_fail_zero r
    have hver : ∀ sigs extra ret, (∀ sig ∈ sigs, sig.head? ≠ some 0 ∧ sig ≠ []) → lisVerTest sigs extra ret (0 :: r) = "" :=
      fun sigs extra ret hs => lisVer_fail sigs extra ret 0 r (by decide) hs
    have hascii : asciiTest 256 "ASCII" (0 :: r) = "" := by
      unfold asciiTest; rw [ha256]; rfl
    simp only [tests, List.filter, isMagic, Bool.not_true, Bool.not_false, firstMatch, runTest, hbit, hlas, hv1, ht, htr, hv2,
      hdat, hsegy, hascii]
    rw [hver _ _ _ (by decide)]
    by_cases hc : (lisT (0 :: r)).code = ""
    · simp [hc]
    · simp [hc]

/-- plain LIS -/
theorem lis_identified_partial (lisT : Bytes → LisRes) (datP : Bytes → Bool) (b : Bytes) (h : LisHead b) (hl : lisT b = .lis) :
    identify lisT datP b = "LIS" := by rw [lis_family_identified_partial lisT datP b h, hl]; rfl

/-- LIS with TIF markers (first record not exactly 276 bytes: `LisHead.not_bit`) -/
theorem list_identified_partial (lisT : Bytes → LisRes) (datP : Bytes → Bool) (b : Bytes) (h : LisHead b) (hl : lisT b = .list) :
    identify lisT datP b = "LISt" := by rw [lis_family_identified_partial lisT datP b h, hl]; rfl

/-- LIS with reversed TIF markers -/
theorem listr_identified_partial (lisT : Bytes → LisRes) (datP : Bytes → Bool) (b : Bytes) (h : LisHead b) (hl : lisT b = .listr) :
    identify lisT datP b = "LIStr" := by rw [lis_family_identified_partial lisT datP b h, hl]; rfl

/-- a plain file header record (PR length 62, type 128, name `RUNOne.lis`, filler NUL) has a LIS head -/
example : LisHead [0, 62, 0, 0, 128, 0, 82, 85, 78, 79, 110, 101, 46, 108, 105, 115, 0, 0, 83, 117] :=
  ⟨by decide, by decide, by decide, by decide, by decide, ⟨4, by decide, by decide⟩⟩

/-- a TIF-marked reel header (next = 144) has a LIS head -/
example : LisHead [0, 0, 0, 0, 0, 0, 0, 0, 144, 0, 0, 0, 0, 132, 0, 0, 132, 0, 83, 69] :=
  ⟨by decide, by decide, by decide, by decide, by decide, ⟨16, by decide, by decide⟩⟩


/-- **LIS — every file of the C05 encoder that begins with a reel/tape/file header** (`TD.C05.encode`, proved to be what
`File.FileWrite` writes: `TD.C05.writer_layout`).  For every valid layout — any trailer options, TIF off / normal /
reversed, any maximum physical record length (without TIF markers: one that leaves at least 13 payload bytes in the
first physical record, so that the header's first name field is not cut) — every header record `r0`
(`LisHeaderRec`: type 128/130/132, 58 or 128 bytes, printable name bytes, filler at offset 12) and every list of further
records `rs` (any content, any size):
(a) PROVED: no earlier test of the generated order claims the file (`LisHead` derived from the encoder's bytes; the
    276-byte TIF exclusion is vacuous here because a header record gives a first physical record of at most 138 bytes);
(b) ASSUMED, as hypothesis `hdeep`: the deep test `_lis` answers the layout's code on this file.  `_lis` runs
    `file_read_with_best_physical_record_pad_settings` (six pad settings, `keepGoing=True`, 100 records) and
    `FileIndexer.FileIndex`; the C05 reader model covers `keepGoing=False, pad_modulo=0` and the C06 index model its own
    record stream, so composing `read_refines`/`index_lists_all` would not be a statement about what `_lis` executes.
    (b) is exercised on every run by the oracle on files written by `File.FileWrite` in all these layouts.
Then the file is identified as `LIS` / `LISt` / `LIStr` according to its TIF mode. -/
theorem lis_identified_c05 (lisT : Bytes → LisRes) (datP : Bytes → Bool) (L : TD.C05.Layout) (hL : L.Valid)
    (r0 : Bytes) (rs : List Bytes) (hhdr : LisHeaderRec r0) (hmp : L.tif = .off → 13 ≤ L.maxPayload)
    (hdeep : lisT (TD.C05.encode L (r0 :: rs)) = lisCodeOf L.tif) :
    identify lisT datP (TD.C05.encode L (r0 :: rs)) = (lisCodeOf L.tif).code := by
  obtain ⟨h1, h2, h3, h4, h5, h6⟩ := lisHead_encode L hL r0 rs hhdr hmp
  rw [lis_family_identified_partial lisT datP _ ⟨h1, h2, h3, h4, h5, h6⟩, hdeep]

/-- (a) alone: on such a file the answer is exactly what the deep test says -/
theorem lis_encoded_not_shadowed (lisT : Bytes → LisRes) (datP : Bytes → Bool) (L : TD.C05.Layout) (hL : L.Valid)
    (r0 : Bytes) (rs : List Bytes) (hhdr : LisHeaderRec r0) (hmp : L.tif = .off → 13 ≤ L.maxPayload) :
    identify lisT datP (TD.C05.encode L (r0 :: rs)) = (lisT (TD.C05.encode L (r0 :: rs))).code := by
  obtain ⟨h1, h2, h3, h4, h5, h6⟩ := lisHead_encode L hL r0 rs hhdr hmp
  exact lis_family_identified_partial lisT datP _ ⟨h1, h2, h3, h4, h5, h6⟩

/-- a header record is `type :: attribute :: payload`, its first physical record is short: the reversed-TIF exclusion of
C05 (first `next` word 0x100 / 0x10000) cannot occur -/
theorem lisHeader_shape (L : TD.C05.Layout) (r0 : Bytes) (rs : List Bytes) (h : LisHeaderRec r0) :
    (∃ t a payload, r0 = t :: a :: payload ∧ (t = 128 ∨ t = 130 ∨ t = 132)) ∧
    (TD.C05.firstNext L (r0 :: rs) ≠ 0x100 ∧ TD.C05.firstNext L (r0 :: rs) ≠ 0x10000) := by
  have hlen : 58 ≤ r0.length ∧ r0.length ≤ 128 := by rcases h.len with e | e <;> omega
  constructor
  · rcases r0 with _ | ⟨t, _ | ⟨a, payload⟩⟩
    · simp at hlen
    · simp at hlen
    · exact ⟨t, a, payload, rfl, by simpa using h.typ⟩
  · have hprt : L.prtLen ≤ 6 := by unfold TD.C05.Layout.prtLen; split <;> split <;> split <;> omega
    have hcl : (r0.take L.maxPayload).length ≤ 128 := by rw [List.length_take]; omega
    have e : TD.C05.firstNext L (r0 :: rs) = 12 + (4 + (r0.take L.maxPayload).length + L.prtLen) := rfl
    rw [e]
    constructor <;> omega

/-- **LIS — the deep test proved** for files of the C05 encoder (`TD.C05.encode`, = what `File.FileWrite` writes) that begin
with a reel/tape/file header, with `lisTest` the concrete `_lis` as it is in /repo after 80d49da (`LisTest.lean`): two
rounds (`pr_limit` 100, then the whole file); in each, every pad option that read at least one physical record is tried,
best count first, ties in dict order — `FileRead(keepGoing=True, option)`, `FileIndex` — options that raise or give an
empty index are skipped, the first non-empty index returns the code of the file's TIF state.
For every valid layout (trailer options, TIF off / normal / reversed, maximum PR length; without TIF at least 13 payload
bytes in the first PR), every header record `r0` and all further non-empty records `rs` the file is identified as
`LIS` / `LISt` / `LIStr` according to its TIF mode, whatever the DAT trial parse says.
The argument: in the whole-file round the file's own option (no padding) counts all its physical records
(`TD.C05.scan_counts_records`), a non-zero count, so it is among the options tried (`mem_lisTried`) and indexing with it
succeeds; whichever option returns first — in either round — gives the same code, because the TIF state is read from the
first 12 bytes, not from the pad option (`lis_answer_is_tif_state`).  No condition on the pad-option scan is left.
What remains assumed, exactly:
* `hidx` building the index over the records does not raise (`TD.C06.fileIndex … = .ok es`; record contents decide this: a
        type-64 record must be a parseable DFSR, a table record must start with a component block, …); non-emptiness of
        the index then FOLLOWS from the header record (`TD.C06.index_lists_all`);
* `hsz` the file is shorter than 2^32 − 24 bytes (TIF words);
* the shape of the header record (`LisHeaderRec`) and, without TIF markers, 13 payload bytes in the first physical record
  (both only for "no earlier test claims the file").
Not covered: files with PAD bytes after their physical records — `TD.C05.encode` writes none; they are exercised by the
oracle, the `lis-deep` correspondence stream and the kernel-evaluated examples of `ExamplesPad.lean`.
Modelling assumption: `lisTest` obtains the records from the reader by `readLrBytes(-1); tellLr()`; `FileIndex` uses other
reads of the same records — equal on these files by `read_refines` (every history). -/
theorem lis_identified (datP : Bytes → Bool) (L : TD.C05.Layout) (hL : L.Valid)
    (r0 : Bytes) (rs : List Bytes) (hhdr : LisHeaderRec r0) (hmp : L.tif = .off → 13 ≤ L.maxPayload)
    (hr : ∀ r ∈ rs, r ≠ []) (hsz : TD.C05.fileSize L (r0 :: rs) + 24 < 4294967296)
    (es : List TD.C06.Entry) (hidx : TD.C06.fileIndex (posRecs L (r0 :: rs) 0 (r0 :: rs).length) = .ok es) :
    identify lisTest datP (TD.C05.encode L (r0 :: rs)) = (lisCodeOf L.tif).code := by
  obtain ⟨⟨t, a, payload, hr0, ht⟩, hfn⟩ := lisHeader_shape L r0 rs hhdr
  have hr' : ∀ r ∈ r0 :: rs, r ≠ [] := by
    intro r hm
    rcases List.mem_cons.mp hm with e | e
    · rw [e, hr0]; simp
    · exact hr r e
  have hes : es ≠ [] := by
    have hp : posRecs L (r0 :: rs) 0 (r0 :: rs).length =
        (TD.C05.tellOf L (r0 :: rs) 0, t :: a :: payload) :: posRecs L (r0 :: rs) 1 rs.length := by
      simp [posRecs, TD.C05.recAt, hr0]
    rw [hp] at hidx
    exact fileIndex_nonempty _ t a payload _ es ht hidx
  have hdeep := lisTest_encode L (r0 :: rs) hL hr' (by simp) (fun _ => hfn) hsz es hidx hes
  exact lis_identified_c05 lisTest datP L hL r0 rs hhdr hmp hdeep

/-- for EVERY byte string: if the deep test answers at all, it answers the code of the file's TIF state — independent of
which round and which pad option produced the index -/
theorem lis_answer_is_tif_state (b : Bytes) : lisTest b = .none ∨ lisTest b = tifCode b := lisTest_flavour b

/-! the hypotheses of `lis_identified` are satisfiable: a TIF-marked file header + one comment record -/
def exHdr : List Nat := [128, 0, 82, 85, 78, 79, 110, 101, 46, 108, 105, 115, 0, 0] ++ List.replicate 44 32
def exLay : TD.C05.Layout := ⟨1024, false, none, false, .le⟩
def exRest : List (List Nat) := [[232, 0, 1, 2, 3]]

set_option maxRecDepth 100000 in
example (es : List TD.C06.Entry) (h : TD.C06.fileIndex (posRecs exLay (exHdr :: exRest) 0 2) = .ok es) :
    identify lisTest (fun _ => false) (TD.C05.encode exLay (exHdr :: exRest)) = "LISt" :=
  lis_identified _ exLay (by decide) exHdr exRest ⟨Or.inl (by simp [exHdr]), by decide, by decide, by decide⟩
    (by intro h; cases h) (by decide) (by decide) es h

set_option maxRecDepth 100000 in
/-- … and building the index of these two records succeeds; the concrete deep test evaluates to `LISt` -/
example : (TD.C06.fileIndex (posRecs exLay (exHdr :: exRest) 0 2)).toOption.isSome = true ∧
    lisTest (TD.C05.encode exLay (exHdr :: exRest)) = .list := by decide +kernel

/-- a file header record (`RUNOne.lis`, NUL filler) is a `LisHeaderRec` -/
example : LisHeaderRec ([128, 0, 82, 85, 78, 79, 110, 101, 46, 108, 105, 115, 0, 0] ++ List.replicate 44 32) :=
  ⟨Or.inl (by simp), by decide, by decide, by decide⟩

/-! ## Recognition: BIT -/

/-- **BIT**: a file that begins with a TIF marker (type 0, back 0, next 288 in either byte order) followed by a complete
276-byte description block is identified as `BIT`, whatever the block holds and whatever follows. -/
theorem bit_identified (lisT : Bytes → LisRes) (datP : Bytes → Bool) (w blk rest : Bytes)
    (hw : w = [32, 1, 0, 0] ∨ w = [0, 0, 1, 32]) (hblk : blk.length = 276) :
    identify lisT datP ([0, 0, 0, 0, 0, 0, 0, 0] ++ w ++ blk ++ rest) = "BIT" := by
  have key : ∀ t : Bytes, t.length = 12 → tifInitial t ≠ .empty → tifThirdWord t = 288 →
      bitTest 12 288 276 (t ++ blk ++ rest) = "BIT" := by
    intro t ht h1 h2
    unfold bitTest
    have e1 : (t ++ blk ++ rest).take 12 = t := by
      rw [List.append_assoc, List.take_left' ht]
    have e2 : (t ++ blk ++ rest).drop 12 = blk ++ rest := by
      rw [List.append_assoc, List.drop_left' ht]
    have e3 : ((blk ++ rest).take 276).length = 276 := by
      simp [List.length_take, hblk]
    have e4 : ¬ ((t ++ blk ++ rest).length < 12) := by simp [ht]
    rw [e1, e2, e3, if_neg e4, if_neg h1, h2]
    rfl
  rcases hw with rfl | rfl
  · have := key [0, 0, 0, 0, 0, 0, 0, 0, 32, 1, 0, 0] rfl (by decide) (by decide)
    simp only [List.cons_append, List.nil_append] at this ⊢
    rw [identify_skip_magic lisT datP 0 _ (by unfold notMagicFirst; omega)]
    simp only [tests, List.filter, isMagic, Bool.not_true, Bool.not_false, firstMatch, runTest, this]
    rfl
  · have := key [0, 0, 0, 0, 0, 0, 0, 0, 0, 0, 1, 32] rfl (by decide) (by decide)
    simp only [List.cons_append, List.nil_append] at this ⊢
    rw [identify_skip_magic lisT datP 0 _ (by unfold notMagicFirst; omega)]
    simp only [tests, List.filter, isMagic, Bool.not_true, Bool.not_false, firstMatch, runTest, this]
    rfl

example : ([32, 1, 0, 0] : Bytes) = [32, 1, 0, 0] ∨ ([32, 1, 0, 0] : Bytes) = [0, 0, 1, 32] := Or.inl rfl
example : (List.replicate 276 65 : Bytes).length = 276 := List.length_replicate ..


/-- **BIT — every file of the C13 encoder.**  For every non-empty list of well-formed log passes (any description, any
1…20 channels, any number of data blocks and frames, any values) whose first header has the documented 8-byte tail
(so that the description block is the documented 276 bytes), `TD.C13.Spec.encode` gives a file that is identified as
`BIT` — independent of content and size, and of what the deep tests would say. -/
theorem bit_identified_c13 (lisT : Bytes → LisRes) (datP : Bytes → Bool) (p : TD.C13.Spec.PassC) (ps : List TD.C13.Spec.PassC)
    (h : p.wf) (htail : p.tail.length = 8) :
    identify lisT datP (TD.C13.Spec.encode (p :: ps)) = "BIT" := by
  obtain ⟨rest, hr⟩ := bit_encode_shape p ps h htail
  rw [hr]
  exact bit_identified lisT datP [32, 1, 0, 0] (TD.C13.Spec.headerBytes p) rest (Or.inl rfl) (headerBytes_length p h htail)

example : identify (fun _ => .none) (fun _ => false) (TD.C13.Spec.encode [TD.C13.exPass]) = "BIT" ∨ TD.C13.exPass.tail.length ≠ 8 := by
  by_cases h : TD.C13.exPass.tail.length = 8
  · exact Or.inl (bit_identified_c13 _ _ _ _ TD.C13.exPass_wf h)
  · exact Or.inr h

/-! ## Recognition: RP66V1 -/

/-- a positive decimal number right-justified in `w` characters, padded with blanks and/or zeros -/
def PadNumField (w : Nat) (f : Bytes) : Prop :=
  f.length = w ∧ ∃ pad d ds, f = pad ++ d :: ds ∧ (∀ c ∈ pad, c = 32 ∨ c = 48) ∧ (49 ≤ d ∧ d ≤ 57) ∧ (∀ c ∈ ds, 48 ≤ c ∧ c ≤ 57)

/-- the fields of a storage unit label (RP66V1 section 2.3.2) -/
structure SUL where
  seq : Bytes          -- storage unit sequence number, 4 characters
  v1 : Nat             -- DLIS version `V1.` + two digits
  v2 : Nat
  maxlen : Bytes       -- maximum record length, 5 characters
  sid : Bytes          -- storage set identifier, 60 characters

def SUL.Conformant (s : SUL) : Prop :=
  PadNumField 4 s.seq ∧ (48 ≤ s.v1 ∧ s.v1 ≤ 57) ∧ (48 ≤ s.v2 ∧ s.v2 ≤ 57) ∧ PadNumField 5 s.maxlen ∧
  s.sid.length = 60 ∧ ∀ c ∈ s.sid, (9 ≤ c ∧ c ≤ 13) ∨ (32 ≤ c ∧ c ≤ 126)

/-- the 80 bytes of the label -/
def SUL.encode (s : SUL) : Bytes :=
  s.seq ++ ([86, 49, 46, s.v1, s.v2] ++ ([82, 69, 67, 79, 82, 68] ++ (s.maxlen ++ s.sid)))

theorem SUL.encode_length (s : SUL) (h : s.Conformant) : s.encode.length = 80 := by
  obtain ⟨⟨h1, _⟩, _, _, ⟨h4, _⟩, h5, _⟩ := h
  simp [SUL.encode, h1, h4, h5]

theorem sul_rp66v1Bytes (s : SUL) (h : s.Conformant) : rp66v1Bytes s.encode = "RP66V1" := by
  have hlen := s.encode_length h
  obtain ⟨⟨h1, pad1, d1, ds1, e1, hp1, hd1, hds1⟩, hv1, hv2, ⟨h4, pad4, d4, ds4, e4, hp4, hd4, hds4⟩, h5, hpr⟩ := h
  have f1 : slice s.encode 0 4 = s.seq := by
    have := slice_append_prefix s.seq ([86, 49, 46, s.v1, s.v2] ++ ([82, 69, 67, 79, 82, 68] ++ (s.maxlen ++ s.sid)))
    rwa [h1] at this
  have f2 : slice s.encode 4 9 = [86, 49, 46, s.v1, s.v2] := by
    have := slice_append_skip s.seq ([86, 49, 46, s.v1, s.v2] ++ ([82, 69, 67, 79, 82, 68] ++ (s.maxlen ++ s.sid))) 0 5
    rw [h1] at this
    rw [show SUL.encode s = s.seq ++ ([86, 49, 46, s.v1, s.v2] ++ ([82, 69, 67, 79, 82, 68] ++ (s.maxlen ++ s.sid))) from rfl, this]
    simp [slice]
  have f3 : slice s.encode 9 15 = [82, 69, 67, 79, 82, 68] := by
    have := slice_append_skip s.seq ([86, 49, 46, s.v1, s.v2] ++ ([82, 69, 67, 79, 82, 68] ++ (s.maxlen ++ s.sid))) 5 11
    rw [h1] at this
    rw [show SUL.encode s = s.seq ++ ([86, 49, 46, s.v1, s.v2] ++ ([82, 69, 67, 79, 82, 68] ++ (s.maxlen ++ s.sid))) from rfl, this]
    simp [slice]
  have f4 : slice s.encode 15 20 = s.maxlen := by
    have := slice_append_skip s.seq ([86, 49, 46, s.v1, s.v2] ++ ([82, 69, 67, 79, 82, 68] ++ (s.maxlen ++ s.sid))) 11 16
    rw [h1] at this
    rw [show SUL.encode s = s.seq ++ ([86, 49, 46, s.v1, s.v2] ++ ([82, 69, 67, 79, 82, 68] ++ (s.maxlen ++ s.sid))) from rfl, this]
    have := slice_append_prefix s.maxlen s.sid
    rw [h4] at this
    simpa [slice] using this
  have f5 : slice s.encode 20 80 = s.sid := by
    have := slice_append_skip s.seq ([86, 49, 46, s.v1, s.v2] ++ ([82, 69, 67, 79, 82, 68] ++ (s.maxlen ++ s.sid))) 16 76
    rw [h1] at this
    rw [show SUL.encode s = s.seq ++ ([86, 49, 46, s.v1, s.v2] ++ ([82, 69, 67, 79, 82, 68] ++ (s.maxlen ++ s.sid))) from rfl, this]
    have h45 : slice (s.maxlen ++ s.sid) 5 65 = s.sid := by
      have := slice_append_skip s.maxlen s.sid 0 60
      rw [h4] at this
      rw [this]; simp [slice, ← h5]
    simpa [slice] using h45
  have m1 : shapeMatch reV1_c1 s.seq = true := by
    simp only [reV1_c1, shapeMatch]; rw [e1]; exact dollar_of _ _ (padNumCore_spec pad1 d1 ds1 hp1 hd1 hds1)
  have m2 : shapeMatch reV1_c2 [86, 49, 46, s.v1, s.v2] = true := by
    simp only [reV1_c2, shapeMatch]; apply dollar_of
    simp [verCore, isDigit, hv1, hv2]
  have m3 : shapeMatch reV1_c3 [82, 69, 67, 79, 82, 68] = true := by decide
  have m4 : shapeMatch reV1_c4 s.maxlen = true := by
    simp only [reV1_c4, shapeMatch]; rw [e4]; exact dollar_of _ _ (padNumCore_spec pad4 d4 ds4 hp4 hd4 hds4)
  have m5 : allPrintable s.sid = true := by
    simp only [allPrintable, List.all_eq_true]
    intro c hc
    rcases hpr c hc with hh | hh
    · exact printable_range c (by omega) (Or.inl hh)
    · exact printable_range c (by omega) (Or.inr hh)
  unfold rp66v1Bytes
  rw [f1, f2, f3, f4, f5, m1, m2, m3, m4, m5, hlen, h5]
  decide

/-- **RP66V1**: a file that begins with *any* conformant storage unit label is identified as `RP66V1`, regardless of
what follows the label (records, layout, content, size) and of what the deep tests would say. -/
theorem rp66_identified (lisT : Bytes → LisRes) (datP : Bytes → Bool) (s : SUL) (h : s.Conformant) (rest : Bytes) :
    identify lisT datP (s.encode ++ rest) = "RP66V1" := by
  have hv := sul_rp66v1Bytes s h
  have hlen := s.encode_length h
  have htake : (s.encode ++ rest).take 80 = s.encode := List.take_left' hlen
  obtain ⟨⟨h1, pad1, d1, ds1, e1, hp1, hd1, hds1⟩, hv1, hv2, _, _, _⟩ := h
  -- the first non-blank byte is `0` or a digit: no LAS
  have hlas : ∀ pfx, lasTest pfx (s.encode ++ rest) = "" := by
    intro pfx
    obtain ⟨c, r, hc, hc1, hc2⟩ := dropWhile_pad pad1 d1
      (ds1 ++ ([86, 49, 46, s.v1, s.v2] ++ ([82, 69, 67, 79, 82, 68] ++ (s.maxlen ++ s.sid))) ++ rest) hp1 hd1
    have e : s.encode ++ rest = pad1 ++ d1 :: (ds1 ++ ([86, 49, 46, s.v1, s.v2] ++ ([82, 69, 67, 79, 82, 68] ++ (s.maxlen ++ s.sid))) ++ rest) := by
      simp [SUL.encode, e1]
    rw [e]
    exact las_fail pfx _ c r hc (by omega) (by omega)
  -- bytes 0..11
  obtain ⟨a0, a1, a2, a3, hseq⟩ : ∃ a0 a1 a2 a3, s.seq = [a0, a1, a2, a3] := by
    rcases hs : s.seq with _ | ⟨a0, _ | ⟨a1, _ | ⟨a2, _ | ⟨a3, _ | ⟨a4, t⟩⟩⟩⟩⟩ <;> simp [hs] at h1
    exact ⟨a0, a1, a2, a3, rfl⟩
  have ha0 : a0 = 32 ∨ (48 ≤ a0 ∧ a0 ≤ 57) := by
    rw [hseq] at e1
    cases pad1 with
    | nil => simp at e1; omega
    | cons x p => simp at e1; rcases hp1 x (by simp) with hx | hx <;> omega
  have hb : s.encode ++ rest = a0 :: a1 :: a2 :: a3 :: 86 :: 49 :: 46 :: s.v1 :: s.v2 :: 82 :: 69 :: 67 :: 79 :: 82 :: 68 :: (s.maxlen ++ s.sid ++ rest) := by
    simp [SUL.encode, hseq]
  have hbit : bitTest 12 288 276 (s.encode ++ rest) = "" := by
    apply bit_fail
    rw [hb]
    simp only [tifThirdWord, le32, be32, byteAt, List.getD_cons_succ, List.getD_cons_zero]
    split <;> omega
  rw [hb] at hlas hbit htake ⊢
  rw [identify_skip_magic lisT datP a0 _ (by unfold notMagicFirst; omega)]
  simp only [tests, List.filter, isMagic, Bool.not_true, Bool.not_false, firstMatch, runTest, hbit, hlas, htake, hv]
  rfl

/-- **RP66V1 — every file of the C01 encoder.**  For every conformant storage unit label as written (`SULW`: any
sequence number with `0`/blank fill, any `V1.dd`, any maximum record length with fill) whose 60 identifier bytes are
printable ASCII (C01's conformance allows any bytes there; `_rp66v1_bytes` insists on `string.printable`), every list
of logical records and every layout (segmentation, padding, checksums, visible record packing),
`TD.C01.encode sul recs ℓ` is identified as `RP66V1`. -/
theorem rp66_identified_c01 (lisT : Bytes → LisRes) (datP : Bytes → Bool) (sul : TD.C01.SULW) (recs : List TD.C01.LR)
    (ℓ : TD.C01.Layout) (hs : sul.conformant = true)
    (hid : ∀ c ∈ sul.ident, (9 ≤ c ∧ c ≤ 13) ∨ (32 ≤ c ∧ c ≤ 126)) :
    identify lisT datP (TD.C01.encode sul recs ℓ) = "RP66V1" := by
  obtain ⟨h1, hf1, hl1, ⟨a, b, hv, ha, hb⟩, h20, _, hf2, hl2, hidl⟩ := sul.conformant_iff hs
  obtain ⟨_, hdig1, hhead1⟩ := TD.C01.decDigits_spec sul.seq
  obtain ⟨d1, t1, e1, hd1a, hd1b⟩ := hhead1 h1
  obtain ⟨_, hdig2, hhead2⟩ := TD.C01.decDigits_spec sul.maxLen
  obtain ⟨d2, t2, e2, hd2a, hd2b⟩ := hhead2 (by omega)
  let s : SUL := ⟨sul.seqFill ++ TD.C01.decDigits sul.seq, a, b, sul.maxFill ++ TD.C01.decDigits sul.maxLen, sul.ident⟩
  have hconf : s.Conformant := by
    refine ⟨⟨by simp [s, hl1], sul.seqFill, d1, t1, by simp [s, e1], c01_fill _ hf1, ⟨hd1a, hd1b⟩, ?_⟩, c01_digit a ha, c01_digit b hb,
      ⟨by simp [s, hl2], sul.maxFill, d2, t2, by simp [s, e2], c01_fill _ hf2, ⟨hd2a, hd2b⟩, ?_⟩, hidl, hid⟩
    · intro c hc; exact c01_digit c (hdig1 c (by rw [e1]; simp [hc]))
    · intro c hc; exact c01_digit c (hdig2 c (by rw [e2]; simp [hc]))
  have henc : TD.C01.encode sul recs ℓ = s.encode ++ (TD.C01.cutAll recs ℓ.recs).flatMap TD.C01.TSeg.bytes := by
    simp [TD.C01.encode, TD.C01.encodeSUL, SUL.encode, s, hv, TD.C01.recordWord]
  rw [henc]
  exact rp66_identified lisT datP s hconf _

/-- the C01 example file (padding, checksum, trailing length, encryption, three visible records) -/
example : identify (fun _ => .none) (fun _ => false) (TD.C01.encode TD.C01.exSul TD.C01.exRecs TD.C01.exLayout) = "RP66V1" :=
  rp66_identified_c01 _ _ _ _ _ (by decide) (by decide)

/-- `   1V1.00RECORD 8192Default Storage Set…` is conformant -/
example : SUL.Conformant ⟨[32, 32, 32, 49], 48, 48, [32, 56, 49, 57, 50], List.replicate 60 32⟩ :=
  ⟨⟨rfl, [32, 32, 32], 49, [], rfl, by decide, by decide, by decide⟩, by decide, by decide,
   ⟨rfl, [32], 56, [49, 57, 50], rfl, by decide, by decide, by decide⟩, List.length_replicate .., by
     intro c hc; rw [List.mem_replicate] at hc; omega⟩

/-- sequence number `0010` and maximum record length `04096` (the forms of defect F4) are conformant too -/
example : PadNumField 4 [48, 48, 49, 48] ∧ PadNumField 5 [48, 52, 48, 57, 54] :=
  ⟨⟨rfl, [48, 48], 49, [48], rfl, by decide, by decide, by decide⟩, ⟨rfl, [48], 52, [48, 57, 54], rfl, by decide, by decide, by decide⟩⟩


/-! ## Recognition: DAT -/

/-- **DAT, relative to the trial parse** (`_partial`: `DAT_parser.can_parse_file` is the abstract `datP`).  A printable
ASCII text of at least 12 bytes that starts with a channel mnemonic character (`A-Z0-9`), whose fifth byte is not `V`
(its first line does not imitate a storage unit label: `0001V1 00RECORD …` would be taken for RP66V1, which comes first
in the table) and which the DAT trial parse accepts, is identified as `DAT`: no earlier test of the generated order
claims it, and the later `ASCII` test does not get a chance.
Missing for the full statement "every valid DAT file is identified as DAT": `datP b = true` for generated DAT texts
(exercised by the oracle). -/
theorem dat_identified_partial (lisT : Bytes → LisRes) (datP : Bytes → Bool) (c0 c1 c2 c3 : Nat) (r : Bytes)
    (htok : (65 ≤ c0 ∧ c0 ≤ 90) ∨ (48 ≤ c0 ∧ c0 ≤ 57))
    (hp : Printable (c0 :: c1 :: c2 :: c3 :: r)) (hlen : 12 ≤ (c0 :: c1 :: c2 :: c3 :: r).length)
    (h4 : byteAt (c0 :: c1 :: c2 :: c3 :: r) 4 ≠ 86)
    (hdat : datP (c0 :: c1 :: c2 :: c3 :: r) = true) :
    identify lisT datP (c0 :: c1 :: c2 :: c3 :: r) = "DAT" := by
  have hc3 := hp c3 (by simp)
  rw [identify_skip_magic4 lisT datP c0 c1 c2 c3 r (by omega) (by omega)]
  generalize hb : c0 :: c1 :: c2 :: c3 :: r = b at *
  have hby : ∀ i, i < 12 → 9 ≤ byteAt b i ∧ byteAt b i ≤ 126 := by
    intro i hi
    have := hp _ (byteAt_mem b i (by omega))
    omega
  have h8 := hby 8 (by omega); have h9 := hby 9 (by omega); have h10 := hby 10 (by omega); have h11 := hby 11 (by omega)
  have hbytes : ∀ x ∈ b, x < 256 := fun x hx => by have := hp x hx; omega
  have hbit := bit_fail b (thirdWord_ne b hbytes (by unfold word288; omega))
  have hws : isWs c0 = false := by simp [isWs]; omega
  have hlas : ∀ pfx, lasTest pfx b = "" := fun pfx =>
    las_fail pfx b c0 (c1 :: c2 :: c3 :: r) (by rw [← hb]; simp [List.dropWhile, hws]) (by omega) (by omega)
  have hv1 := rp66v1Test_fail b h4
  have ht := rp66v1Tif_fail_next b (by omega)
  have htr := rp66v1TifR_fail_next b (by omega)
  have hv2 := rp66v2_fail b h4
  have hall : b.all (fun c => decide (c < 128)) = true := by
    rw [List.all_eq_true]; intro x hx; have := hp x hx; simp; omega
  have hd : datTest datP b = "DAT" := by simp [datTest, hall, hdat]
  simp only [tests, List.filter, isMagic, Bool.not_true, Bool.not_false, firstMatch, runTest, hbit, hlas, hv1, ht, htr, hv2, hd]
  rfl

/-- `UTIM Unix Time sec` starts a DAT text: printable, 12 bytes or more, fifth byte a blank -/
example : Printable [85, 84, 73, 77, 32, 85, 110, 105, 120, 32, 84, 105, 109, 101] ∧
    byteAt [85, 84, 73, 77, 32, 85, 110, 105, 120, 32, 84, 105, 109, 101] 4 ≠ 86 := by
  constructor
  · unfold Printable; decide
  · decide


/-- **DAT text, any leading blanks, any length** (relative to the trial parse `datP`): a printable ASCII text whose first
non-blank byte is a channel mnemonic character, whose fifth byte is not `V`, and which the trial parse accepts is `DAT`. -/
theorem dat_text_identified (lisT : Bytes → LisRes) (datP : Bytes → Bool) (b : Bytes) (c : Nat) (r : Bytes)
    (hp : Printable b) (hd : b.dropWhile isWs = c :: r) (hc : (65 ≤ c ∧ c ≤ 90) ∨ (48 ≤ c ∧ c ≤ 57))
    (h4 : byteAt b 4 ≠ 86) (hdat : datP b = true) : identify lisT datP b = "DAT" := by
  have hhead : ∀ x, b.head? = some x → isWs x = true ∨ x = c := by
    intro x hx
    cases b with
    | nil => simp at hx
    | cons y t =>
      have : y = x := by simpa using hx
      subst this
      by_cases hw : isWs y = true
      · exact Or.inl hw
      · right
        have hw' : isWs y = false := by simpa using hw
        have := hd
        rw [List.dropWhile_cons_of_neg (by simp [hw'])] at this
        exact (List.cons.inj this).1
  have h60 : b.head? ≠ some 60 := by
    intro h; rcases hhead 60 h with h' | h'
    · simp [isWs] at h'
    · omega
  have h37 : b.head? ≠ some 37 := by
    intro h; rcases hhead 37 h with h' | h'
    · simp [isWs] at h'
    · omega
  rw [identify_skip_magic_pr lisT datP b hp h60 h37]
  have hbit := bit_fail_printable b hp
  have hlas : ∀ pfx, lasTest pfx b = "" := fun pfx => las_fail pfx b c r hd (by omega) (by omega)
  have hv1 := rp66v1Test_fail b h4
  have ht := rp66v1Tif_fail_printable b hp
  have htr := rp66v1TifR_fail_printable b hp
  have hv2 := rp66v2_fail b h4
  have hall : b.all (fun c => decide (c < 128)) = true := by
    rw [List.all_eq_true]; intro x hx; have := hp x hx; simp; omega
  have hdt : datTest datP b = "DAT" := by simp [datTest, hall, hdat]
  simp only [tests, List.filter, isMagic, Bool.not_true, Bool.not_false, firstMatch, runTest, hbit, hlas, hv1, ht, htr, hv2, hdt]
  rfl

/-- **DAT — every file of the C14 printer, in every layout.**  For every well-formed DAT content `f` (declarations in any
order, `UTIM DATE TIME` + at least one further channel, rows) with at least one data row, printed by `TD.C14.Spec.print`
in *any* layout (blanks around and between tokens, leading blanks, either date spelling, optional final newline), the
file is identified as `DAT` — with the trial parse being the C14 model of `DAT_parser.can_parse_file`
(`datParse`, proved to accept the file: `canParse_print`) and whatever the LIS deep test would say.
The one hypothesis beyond well-formedness: the fifth byte of the file is not `V`.  It excludes texts whose first line
imitates a storage unit label — a *well-formed* DAT file that declares a channel named `1V1` as
`   1V1 00RECORD 8192 … ` (60 more printable bytes) is identified as `RP66V1` by the code, because `_rp66v1` comes
first and `.` in `V1.` matches any character (confirmed on the implementation; see notes).  The hypothesis holds e.g.
whenever the file starts with `UTIM` (`dat_identified_utim_first`). -/
theorem dat_identified (lisT : Bytes → LisRes) (f : TD.C14.Spec.File) (hwf : f.wf) (hrows : f.rows ≠ [])
    (h4 : byteAt (TD.C14.Spec.print f) 4 ≠ 86) :
    identify lisT datParse (TD.C14.Spec.print f) = "DAT" := by
  obtain ⟨lead, a, W, hpr, hblank, ha⟩ := print_head f hwf
  have ha' : (65 ≤ a ∧ a ≤ 90) ∨ (48 ≤ a ∧ a ≤ 57) := by
    simpa [TD.C14.isUpperDigit] using ha
  have hws : isWs a = false := by simp [isWs]; omega
  exact dat_text_identified lisT datParse _ a W (print_printable f hwf)
    (by rw [hpr]; exact dropWhile_blank_prefix lead a W hblank hws) ha' h4 (datParse_print f hwf hrows)

/-- the usual case: the first line declares `UTIM` without leading blanks — byte 4 is the separator after it -/
theorem dat_identified_utim_first (lisT : Bytes → LisRes) (f : TD.C14.Spec.File) (hwf : f.wf) (hrows : f.rows ≠ [])
    (rest : TD.C14.Str) (hstart : TD.C14.Spec.print f = 85 :: 84 :: 73 :: 77 :: rest) (hsep : rest.head? ≠ some 86) :
    identify lisT datParse (TD.C14.Spec.print f) = "DAT" := by
  apply dat_identified lisT f hwf hrows
  rw [hstart]
  cases rest with
  | nil => simp [byteAt]
  | cons x t => simpa [byteAt] using hsep

/-- the C14 example file (declarations out of order, tabs, both date spellings) is identified as DAT -/
example : identify (fun _ => .none) datParse (TD.C14.Spec.print TD.C14.exFile) = "DAT" :=
  dat_identified _ TD.C14.exFile TD.C14.exFile_wf (by decide) (by decide)

/-! ## Recognition: LAS -/

/-- **LAS 1.2 / 2.0 / 3.0, at the level of the line scanner** (`_partial`).  If the first two non-empty lines of the
file (after cutting `#` comments and stripping) are a `~V…` line and a version line `VERS . <number> : …` whose number
starts with `1.2`, `2.0` or `3.0`, then the file is identified as `LAS1.2`, `LAS2.0`, `LAS3.0` respectively: no
magic-number test and no BIT test claims it first (bytes 8..11 of a text do not spell the word 288), and an earlier LAS
version does not shadow a later one.
Missing for the full statement "every `print c ℓ` of the LAS writer/layout family is identified": the hypotheses are
stated with the model's own `lasLines`/`versGroup` (the transcription of the loop of `_las` and of
`RE_LAS_VERSION_LINE`) rather than with an independent printer of LAS layouts; the printer side is exercised by the
oracle (generated layouts) and the `example`s below evaluate the whole chain on concrete texts. -/
theorem las_identified_partial (lisT : Bytes → LisRes) (datP : Bytes → Bool) (b l0 l1 : Bytes) (ls : List Bytes) (d pfx : Bytes)
    (hb : ∀ x ∈ b, x < 256) (hnb : ¬ word288 b)
    (hl : lasLines b = l0 :: l1 :: ls) (h0 : l0.take 2 = [126, 86]) (hv : versGroup l1 = some d)
    (hp : pfx = [49, 46, 50] ∨ pfx = [50, 46, 48] ∨ pfx = [51, 46, 48]) (hd : d.take 3 = pfx) :
    identify lisT datP b = "LAS" ++ codeOfBytes pfx := by
  have heval : ∀ q : Bytes, lasTest q b = if d.take q.length == q then "LAS" ++ codeOfBytes q else "" := by
    intro q
    unfold lasTest
    rw [hl]
    simp only [h0, hv]
    simp
  cases b with
  | nil => simp [lasLines, splitNl, lasLine, strip, stripEnd] at hl
  | cons c0 r =>
    have hc0 : isWs c0 = true ∨ c0 = 35 ∨ c0 = 126 := by
      by_cases hws : isWs c0 = true
      · exact Or.inl hws
      · by_cases h35 : c0 = 35
        · exact Or.inr (Or.inl h35)
        · right; right
          have hws' : isWs c0 = false := by simpa using hws
          obtain ⟨u, ls', hh⟩ := lasLines_head (c0 :: r) c0 r (by simp [List.dropWhile, hws']) h35
          rw [hl] at hh
          have : l0 = c0 :: u := (List.cons.inj hh).1
          rw [this] at h0
          cases u <;> simp at h0 <;> omega
    have hmag : notMagicFirst c0 := by
      unfold notMagicFirst
      rcases hc0 with h | h | h
      · simp [isWs] at h; omega
      · omega
      · omega
    rw [identify_skip_magic lisT datP c0 r hmag]
    have hbit := bit_fail (c0 :: r) (thirdWord_ne _ hb hnb)
    simp only [tests, List.filter, isMagic, Bool.not_true, Bool.not_false, firstMatch, runTest, hbit, heval]
    rcases hp with rfl | rfl | rfl
    · simp [hd]
    · simp [hd]
    · simp [hd]

theorem las12_identified_partial (lisT : Bytes → LisRes) (datP : Bytes → Bool) (b l0 l1 : Bytes) (ls : List Bytes) (d : Bytes)
    (hb : ∀ x ∈ b, x < 256) (hnb : ¬ word288 b)
    (hl : lasLines b = l0 :: l1 :: ls) (h0 : l0.take 2 = [126, 86]) (hv : versGroup l1 = some d) (hd : d.take 3 = [49, 46, 50]) :
    identify lisT datP b = "LAS1.2" :=
  las_identified_partial lisT datP b l0 l1 ls d _ hb hnb hl h0 hv (Or.inl rfl) hd

theorem las20_identified_partial (lisT : Bytes → LisRes) (datP : Bytes → Bool) (b l0 l1 : Bytes) (ls : List Bytes) (d : Bytes)
    (hb : ∀ x ∈ b, x < 256) (hnb : ¬ word288 b)
    (hl : lasLines b = l0 :: l1 :: ls) (h0 : l0.take 2 = [126, 86]) (hv : versGroup l1 = some d) (hd : d.take 3 = [50, 46, 48]) :
    identify lisT datP b = "LAS2.0" :=
  las_identified_partial lisT datP b l0 l1 ls d _ hb hnb hl h0 hv (Or.inr (Or.inl rfl)) hd

/-- `# c\n~Version\n VERS .   2.0  : x\n` : comment line first, blanks around the dot and the colon -/
example : identify (fun _ => .none) (fun _ => false)
    [35, 32, 99, 10, 126, 86, 101, 114, 115, 105, 111, 110, 10, 32, 86, 69, 82, 83, 32, 46, 32, 32, 32, 50, 46, 48, 32, 32, 58, 32, 120, 10] = "LAS2.0" := by
  decide

/-- `~V\r\nVERS.\t1.20:\r\n` -/
example : identify (fun _ => .none) (fun _ => false)
    [126, 86, 13, 10, 86, 69, 82, 83, 46, 9, 49, 46, 50, 48, 58, 13, 10] = "LAS1.2" := by
  decide

/-- the hypotheses of `las20_identified_partial` are satisfiable -/
example : lasLines [126, 86, 10, 86, 69, 82, 83, 46, 32, 50, 46, 48, 58] = [[126, 86], [86, 69, 82, 83, 46, 32, 50, 46, 48, 58]] ∧
    versGroup [86, 69, 82, 83, 46, 32, 50, 46, 48, 58] = some [50, 46, 48] := by
  decide

end TD.C20
