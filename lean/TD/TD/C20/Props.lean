import TD.C20.Model
namespace TD.C20
theorem placeholder : True := trivial
end TD.C20
