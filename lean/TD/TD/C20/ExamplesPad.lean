/-
C20 — three padded LIS files of the input classes of the defects repaired in /repo (7ad9eab, 80d49da), evaluated by the kernel on the
concrete deep test `lisTest` (built by `./check C20` through EXTRA_LEAN_TARGETS; ≈ 1 min the first time).
`TD.C05.encode` writes no PAD bytes, so `lis_identified` does not speak about these files.
-/
import TD.C20.LisTest
namespace TD.C20

def exHdrRec : List Nat := [128, 0, 82, 85, 78, 79, 110, 101, 46, 108, 105, 115, 0, 0] ++ List.replicate 44 32

/-- shape of replay C20-0-11: PR(62) file header | PR(7) + 1 PAD | PR(1280) | PR(7) + 1 PAD, null padding to even
positions.  Every pad option but (4, non-null) "reads 4 PRs" — with pad 0 the third header is mis-read as length 5. -/
def exPadTie : List Nat :=
  [0, 62, 0, 0] ++ exHdrRec ++ [0, 7, 0, 0, 232, 0, 32, 0] ++ ([5, 0, 0, 0, 232, 0] ++ List.replicate 1274 32) ++ [0, 7, 0, 0, 232, 0, 1, 0]

set_option maxRecDepth 1000000 in
/-- a tie in which the first options fail: (0, False) and (0, True) are tried first and give no index (the code before the
repair stopped there and answered ''); the third tied option (2, False) gives the index -/
example : (TD.C05.scanAll true exPadTie 100).map (·.2) = [4, 4, 4, 4, 4, 0] ∧
    lisTried exPadTie 100 = [(0, false), (0, true), (2, false), (2, true), (4, false)] ∧
    lisTryOption exPadTie (0, false) = none ∧ lisTryOption exPadTie (0, true) = none ∧
    lisTryOption exPadTie (2, false) = some .lis ∧ lisTest exPadTie = .lis := by decide +kernel

/-- shape of replay C20-33-0: record-number trailer, null padding to multiples of 4; the header and the next 100 physical
records need no PAD bytes, the 102nd is 10 bytes long and is followed by 2 PAD bytes. -/
def exPadLate : List Nat :=
  [0, 64, 2, 0] ++ exHdrRec ++ [0, 0] ++
  (List.range 100).flatMap (fun i => [0, 12, 2, 0, 232, 0, 1, 2, 3, 4, 0, i + 1]) ++
  [0, 10, 2, 0, 232, 0, 1, 2, 0, 101, 0, 0] ++ [0, 12, 2, 0, 232, 0, 1, 2, 3, 4, 0, 102]

set_option maxRecDepth 1000000 in
/-- a tie at the 100-record limit that breaks later: all six options count 100, over the whole file only pad 4 reads
all 103 records; the first four tied options fail and (4, False) gives the index in the first round -/
example : (TD.C05.scanAll true exPadLate 100).map (·.2) = [100, 100, 100, 100, 100, 100] ∧
    (TD.C05.scanAll true exPadLate 0).map (·.2) = [0, 0, 0, 0, 103, 103] ∧
    lisTryOption exPadLate (0, false) = none ∧ lisTryOption exPadLate (2, true) = none ∧
    lisTryOption exPadLate (4, false) = some .lis ∧ lisTest exPadLate = .lis := by decide +kernel

/-- the over-count reproducer (finding C20-lis-padded-wrong-option-overcounts, repaired by 80d49da):
PR(62) file header | PR(7) + 1 PAD | PR(1537) + 1 PAD | PR(7) + 1 PAD.  Read with pad 0 the mis-aligned third header is a plausible
6-byte record and the scan counts FIVE "records"; the file's own option (pad 2) counts the true four. -/
def exPadOver : List Nat :=
  [0, 62, 0, 0] ++ exHdrRec ++ [0, 7, 0, 0, 232, 0, 32, 0] ++ ([6, 1, 0, 0, 232, 0] ++ List.replicate 1531 32 ++ [0]) ++ [0, 7, 0, 0, 232, 0, 1, 0]

set_option maxRecDepth 1000000 in
/-- the wrong options count more and are tried first, give no index, and the file's own option — not among the best —
is still tried and gives the index -/
example : (TD.C05.scanAll true exPadOver 100).map (·.2) = [5, 5, 4, 4, 4, 0] ∧
    lisTried exPadOver 100 = [(0, false), (0, true), (2, false), (2, true), (4, false)] ∧
    lisTryOption exPadOver (0, false) = none ∧ lisTryOption exPadOver (0, true) = none ∧
    lisTryOption exPadOver (2, false) = some .lis ∧ lisTest exPadOver = .lis := by decide +kernel

end TD.C20
