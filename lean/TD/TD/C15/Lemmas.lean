import TD.C15.Model
import Mathlib.Tactic.Ring
import Mathlib.Tactic.Linarith
import Mathlib.Data.List.Sort
import Mathlib.Data.List.Range

namespace TD.C15

/-! Helper lemmas for C15 (range arithmetic, the Sample loop invariant). -/

theorem rangeLen_pos_step {lo hi st : Int} (h : 0 < st) :
    rangeLen lo hi st = if lo < hi then ((hi - lo - 1) / st + 1).toNat else 0 := by
  unfold rangeLen; simp [h]

theorem mem_rangeList_pos {lo hi st : Int} (hst : 0 < st) (i : Int) :
    i ∈ rangeList lo hi st ↔ lo ≤ i ∧ i < hi ∧ (i - lo) % st = 0 := by
  unfold rangeList
  rw [rangeLen_pos_step hst]
  simp only [List.mem_map, List.mem_range]
  constructor
  · rintro ⟨k, hk, rfl⟩
    split at hk
    · rename_i hlt
      have hq : 0 ≤ (hi - lo - 1) / st := Int.ediv_nonneg (by omega) (by omega)
      have hk' : (k : Int) ≤ (hi - lo - 1) / st := by omega
      have : (k : Int) * st ≤ hi - lo - 1 := by
        calc (k : Int) * st ≤ ((hi - lo - 1) / st) * st := by
              exact Int.mul_le_mul_of_nonneg_right hk' (by omega)
          _ ≤ hi - lo - 1 := Int.ediv_mul_le _ (by omega)
      refine ⟨?_, by omega, ?_⟩
      · have : 0 ≤ (k : Int) * st := Int.mul_nonneg (by omega) (by omega)
        omega
      · have : lo + (k : Int) * st - lo = (k : Int) * st := by ring
        rw [this]; exact Int.mul_emod_left _ _
    · omega
  · rintro ⟨h1, h2, h3⟩
    have hlt : lo < hi := by omega
    simp only [hlt, if_true]
    have hdvd : st ∣ (i - lo) := Int.dvd_of_emod_eq_zero h3
    obtain ⟨q, hq⟩ := hdvd
    have hq0 : 0 ≤ q := by
      by_contra hneg
      have : q ≤ -1 := by omega
      have : st * q ≤ st * (-1) := Int.mul_le_mul_of_nonneg_left this (by omega)
      omega
    refine ⟨q.toNat, ?_, ?_⟩
    · have hqle : q ≤ (hi - lo - 1) / st := by
        rw [Int.le_ediv_iff_mul_le hst]
        have : q * st = i - lo := by rw [hq]; ring
        omega
      omega
    · have : ((q.toNat : Nat) : Int) = q := Int.toNat_of_nonneg hq0
      rw [this]
      have : q * st = i - lo := by rw [hq]; ring
      omega

theorem rangeList_pairwise_pos {lo hi st : Int} (hst : 0 < st) :
    (rangeList lo hi st).Pairwise (· < ·) := by
  unfold rangeList
  rw [List.pairwise_map]
  refine List.Pairwise.imp ?_ (List.pairwise_lt_range)
  intro a b hab
  have : (a : Int) * st < (b : Int) * st := by
    apply Int.mul_lt_mul_of_pos_right _ hst
    exact_mod_cast hab
  omega

theorem rangeList_length (lo hi st : Int) : (rangeList lo hi st).length = rangeLen lo hi st := by
  simp [rangeList]

/-! ### Sample loop -/

/-- closed form -/
def sampleSpec (n s : Nat) : List Nat :=
  if s ≥ n then List.range n else (List.range s).map (fun k => k * n / s)

theorem loop_inv (n s : Nat) (hs : 0 < s) (hsn : s < n) :
    ∀ (fuel k index rem : Nat), index * s + rem = k * n → rem < s → k ≤ s → s - k ≤ fuel →
      sampleLoop n s fuel index rem = ((List.range (s - k)).map (fun j => (k + j) * n / s)) := by
  intro fuel
  induction fuel with
  | zero =>
    intro k index rem h1 h2 h3 h4
    have : s - k = 0 := by omega
    simp [sampleLoop, this]
  | succ fuel ih =>
    intro k index rem h1 h2 h3 h4
    have hidx : index = k * n / s := by
      have : k * n = s * index + rem := by rw [← h1, Nat.mul_comm]
      rw [this, Nat.mul_add_div hs, Nat.div_eq_of_lt h2]; simp
    by_cases hk : k = s
    · subst hk
      have : ¬ index < n := by
        rw [hidx, Nat.mul_div_cancel_left _ hs]; omega
      simp [sampleLoop, this]
    · have hklt : k < s := by omega
      have hlt : index < n := by
        rw [hidx]
        apply Nat.div_lt_of_lt_mul
        exact Nat.mul_lt_mul_of_pos_right hklt (by omega)
      unfold sampleLoop
      simp only [hlt, if_true]
      have hrec := ih (k+1) (index + n / s + (rem + n % s) / s) ((rem + n % s) % s) ?_ (Nat.mod_lt _ hs) (by omega) (by omega)
      · rw [hrec]
        have : s - k = (s - (k+1)) + 1 := by omega
        rw [this, List.range_succ_eq_map]
        simp only [List.map_cons, List.map_map, Nat.add_zero]
        refine List.cons_eq_cons.mpr ⟨hidx, ?_⟩
        apply List.map_congr_left
        intro j _
        simp only [Function.comp]
        congr 2; omega
      · -- invariant
        have hn : n = s * (n / s) + n % s := (Nat.div_add_mod n s).symm
        have hr : rem + n % s = s * ((rem + n % s) / s) + (rem + n % s) % s := (Nat.div_add_mod _ s).symm
        calc (index + n / s + (rem + n % s) / s) * s + (rem + n % s) % s
            = index * s + (s * (n / s)) + (s * ((rem + n % s) / s) + (rem + n % s) % s) := by
              rw [Nat.add_mul, Nat.add_mul, Nat.mul_comm (n / s) s, Nat.mul_comm ((rem + n % s) / s) s]; omega
          _ = index * s + (s * (n / s)) + (rem + n % s) := by rw [← hr]
          _ = (index * s + rem) + (s * (n / s) + n % s) := by omega
          _ = k * n + n := by rw [h1, ← hn]
          _ = (k + 1) * n := by rw [Nat.add_mul]; simp

end TD.C15
