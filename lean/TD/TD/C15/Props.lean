import TD.C15.Lemmas
import TD.C15.ParseLemmas

/-!
# C15 — Frame slice and sample selectors select what they say

Property theorems only.  The model (`TD.C15.Model`) transcribes `TotalDepth/common/Slice.py`; it is tied to the
Python source by the correspondence run of `./check C15`.
-/
namespace TD.C15

/-- Specification of Python slicing for a positive step, stated independently of CPython's branchy
`PySlice_AdjustIndices`: a bound `a` (or the default when absent) is taken relative to the end when negative and then
clamped into `[0, n]`. -/
def pyBound (a : Option Int) (dflt : Int) (n : Nat) : Int :=
  match a with
  | none => dflt
  | some a => max 0 (min (n : Int) (if a < 0 then a + n else a))

/-- The set of positions Python's `xs[start:stop:step]` picks from a sequence of length `n` (positive step). -/
def pySelected (start stop : Option Int) (st : Int) (n : Nat) (i : Int) : Prop :=
  pyBound start 0 n ≤ i ∧ i < pyBound stop n n ∧ (i - pyBound start 0 n) % st = 0

/-- The adjusted bounds computed by the code are the clamped bounds of the specification. -/
theorem slice_adjust_spec (start stop step : Option Int) (n : Nat) (hst : 0 < step.getD 1) :
    sliceAdjust start stop step n = .ok (pyBound start 0 n, pyBound stop n n, step.getD 1) := by
  unfold sliceAdjust pyBound
  have h0 : ¬ (step.getD 1 = 0) := by omega
  simp only [h0, if_false, hst, if_true]
  congr 2
  · cases start with
    | none => rfl
    | some a => simp only; split <;> split <;> omega
  · congr 1
    cases stop with
    | none => rfl
    | some a => simp only; split <;> split <;> omega

/-- **Slice, membership**: an index is generated iff Python slicing selects it (every n, start, stop, step ≥ 1). -/
theorem slice_indices_mem_iff (start stop step : Option Int) (n : Nat) (hst : 0 < step.getD 1) :
    ∃ l, sliceIndices start stop step n = .ok l ∧
      (∀ i, i ∈ l ↔ pySelected start stop (step.getD 1) n i) ∧
      l.Pairwise (· < ·) ∧ (∀ i ∈ l, 0 ≤ i ∧ i < n) := by
  refine ⟨rangeList (pyBound start 0 n) (pyBound stop n n) (step.getD 1), ?_, ?_, ?_, ?_⟩
  · unfold sliceIndices; rw [slice_adjust_spec _ _ _ _ hst]
  · intro i; exact mem_rangeList_pos hst i
  · exact rangeList_pairwise_pos hst
  · intro i hi
    have := (mem_rangeList_pos hst i).1 hi
    have hb0 : 0 ≤ pyBound start 0 n := by
      unfold pyBound; cases start <;> simp
    have hb1 : pyBound stop n n ≤ n := by
      unfold pyBound; cases stop <;> simp <;> try omega
    omega

/-- **Slice, as a list**: the generated index list *is* the increasing enumeration of the selected positions. -/
theorem slice_indices_eq_python (start stop step : Option Int) (n : Nat) (hst : 0 < step.getD 1) :
    sliceIndices start stop step n =
      .ok (((List.range n).map (fun (k : Nat) => (k : Int))).filter
            (fun i => decide (pyBound start 0 n ≤ i ∧ i < pyBound stop n n ∧ (i - pyBound start 0 n) % (step.getD 1) = 0))) := by
  obtain ⟨l, hl, hmem, hsorted, hbnd⟩ := slice_indices_mem_iff start stop step n hst
  rw [hl]; congr 1
  refine List.Perm.eq_of_pairwise (le := (· < ·)) (fun a b _ _ h1 h2 => by omega) hsorted ?_ ?_
  · apply List.Pairwise.filter
    rw [List.pairwise_map]
    exact List.pairwise_lt_range.imp (fun h => by exact_mod_cast h)
  · apply (List.perm_ext_iff_of_nodup ?_ ?_).2
    · intro i
      rw [hmem i]
      simp only [List.mem_filter, List.mem_map, List.mem_range, decide_eq_true_eq]
      constructor
      · intro h
        have hb := hbnd i ((hmem i).2 h)
        exact ⟨⟨i.toNat, by omega, by omega⟩, h⟩
      · intro h; exact h.2
    · exact hsorted.imp (fun h => ne_of_lt h)
    · apply List.Nodup.filter
      apply List.Nodup.map (fun a b h => by exact_mod_cast h) (List.nodup_range)

/-- **Slice, reports agree**: count, first and step are consistent with the generated list. -/
theorem slice_reports_agree (start stop step : Option Int) (n : Nat) (hst : 0 < step.getD 1) :
    ∃ l, sliceIndices start stop step n = .ok l ∧
      sliceCount start stop step n = .ok l.length ∧
      sliceStep start stop step n = .ok (step.getD 1) ∧
      (∀ f, sliceFirst start stop step n = .ok f → ∀ x ∈ l.head?, x = f) ∧
      (∀ k (hk : k + 1 < l.length), l[k+1] - l[k] = step.getD 1) := by
  refine ⟨rangeList (pyBound start 0 n) (pyBound stop n n) (step.getD 1), ?_, ?_, ?_, ?_, ?_⟩
  · unfold sliceIndices; rw [slice_adjust_spec _ _ _ _ hst]
  · unfold sliceCount sliceIndices; rw [slice_adjust_spec _ _ _ _ hst]
  · unfold sliceStep; rw [slice_adjust_spec _ _ _ _ hst]
  · intro f hf x hx
    unfold sliceFirst at hf; rw [slice_adjust_spec _ _ _ _ hst] at hf
    simp only [Except.ok.injEq] at hf
    subst hf
    unfold rangeList at hx
    cases hlen : rangeLen (pyBound start 0 n) (pyBound stop n n) (step.getD 1) with
    | zero => rw [hlen] at hx; simp at hx
    | succ m => rw [hlen] at hx; simp [List.range_succ_eq_map] at hx; omega
  · intro k hk
    simp only [rangeList, List.getElem_map, List.getElem_range]
    push_cast; ring

/-- A zero step is refused (Python raises `ValueError`), never a selection. -/
theorem slice_zero_step_rejected (start stop : Option Int) (n : Nat) :
    sliceIndices start stop (some 0) n = .error .valueError := by
  simp [sliceIndices, sliceAdjust]

/-! ## Sample -/

/-- **Sample, closed form**: the loop of `Sample.gen_indices` yields `⌊k·n/N⌋` for `k = 0 … N−1` when `N < n`,
and every index when `N ≥ n`. -/
theorem sample_eq_spec (n s : Nat) (hs : 0 < s) : sampleIndices n s = sampleSpec n s := by
  unfold sampleIndices sampleSpec
  split
  · rfl
  · rename_i h
    have := loop_inv n s hs (by omega) n 0 0 0 (by simp) hs (by omega) (by omega)
    simpa using this

/-- **Sample, count**: exactly `min(N, n)` indices, and `count()` reports that number. -/
theorem sample_count (n s : Nat) (hs : 0 < s) :
    (sampleIndices n s).length = min s n ∧ sampleCount n s = (sampleIndices n s).length := by
  rw [sample_eq_spec n s hs]; unfold sampleSpec sampleCount
  split <;> simp <;> omega

/-- **Sample, shape**: strictly increasing, begins with 0 (when n > 0), inside the sequence, and consecutive gaps
are `⌊n/N⌋` or `⌊n/N⌋+1` (so they differ by at most one). -/
theorem sample_shape (n s : Nat) (hs : 0 < s) :
    (sampleIndices n s).Pairwise (· < ·) ∧
    (0 < n → (sampleIndices n s).head? = some 0) ∧
    (∀ i ∈ sampleIndices n s, i < n) ∧
    (∀ k (hk : k + 1 < (sampleIndices n s).length),
        let g := (sampleIndices n s)[k+1] - (sampleIndices n s)[k]
        let q := if s ≥ n then 1 else n / s
        g = q ∨ g = q + 1) := by
  simp only [sample_eq_spec n s hs]; unfold sampleSpec
  by_cases h : s ≥ n
  · simp only [h, if_true]
    refine ⟨List.pairwise_lt_range, ?_, ?_, ?_⟩
    · intro hn
      cases n with
      | zero => omega
      | succ m => simp [List.range_succ_eq_map]
    · intro i hi; exact List.mem_range.1 hi
    · intro k hk; simp
  · simp only [h, if_false]
    have hsn : s < n := by omega
    have key : ∀ k, (k + 1) * n / s = k * n / s + n / s ∨ (k + 1) * n / s = k * n / s + n / s + 1 := by
      intro k
      have e : (k + 1) * n = k * n + n := by ring
      have h1 := Nat.div_add_mod (k * n) s
      have h2 := Nat.div_add_mod n s
      have h3 := Nat.div_add_mod ((k+1) * n) s
      have m1 := Nat.mod_lt (k * n) hs
      have m2 := Nat.mod_lt n hs
      have m3 := Nat.mod_lt ((k+1) * n) hs
      -- (k+1)n = s*(a+b) + (r1+r2), 0 ≤ r1+r2 < 2s
      have : s * ((k + 1) * n / s) + (k + 1) * n % s = s * (k * n / s + n / s) + (k * n % s + n % s) := by
        rw [h3, e, Nat.mul_add]; omega
      by_cases hc : k * n % s + n % s < s
      · left
        have : s * ((k + 1) * n / s) = s * (k * n / s + n / s) ∨ True := Or.inr trivial
        by_contra hne
        rcases Nat.lt_or_gt_of_ne hne with hlt | hgt
        · have : s * ((k + 1) * n / s + 1) ≤ s * (k * n / s + n / s) := Nat.mul_le_mul_left _ hlt
          rw [Nat.mul_add] at this; omega
        · have : s * (k * n / s + n / s + 1) ≤ s * ((k + 1) * n / s) := Nat.mul_le_mul_left _ hgt
          rw [Nat.mul_add] at this; omega
      · right
        by_contra hne
        rcases Nat.lt_or_gt_of_ne hne with hlt | hgt
        · have : s * ((k + 1) * n / s + 1) ≤ s * (k * n / s + n / s + 1) := Nat.mul_le_mul_left _ hlt
          rw [Nat.mul_add, Nat.mul_add] at this; omega
        · have : s * (k * n / s + n / s + 1 + 1) ≤ s * ((k + 1) * n / s) := Nat.mul_le_mul_left _ hgt
          rw [Nat.mul_add, Nat.mul_add] at this; omega
    have hq : 1 ≤ n / s := Nat.div_pos (by omega) hs
    have mono : ∀ a b, a < b → a * n / s < b * n / s := by
      intro a b hab
      induction b with
      | zero => omega
      | succ b ih =>
        rcases Nat.lt_succ_iff_lt_or_eq.1 hab with h' | h'
        · have := ih h'; rcases key b with e | e <;> omega
        · subst h'; rcases key a with e | e <;> omega
    refine ⟨?_, ?_, ?_, ?_⟩
    · rw [List.pairwise_map]
      exact List.pairwise_lt_range.imp (fun {a b} hab => mono a b hab)
    · intro _
      cases s with
      | zero => omega
      | succ m => simp [List.range_succ_eq_map]
    · intro i hi
      simp only [List.mem_map, List.mem_range] at hi
      obtain ⟨k, hk, rfl⟩ := hi
      apply Nat.div_lt_of_lt_mul
      exact Nat.mul_lt_mul_of_pos_right hk (by omega)
    · intro k hk
      simp only [List.getElem_map, List.getElem_range]
      rcases key k with e | e <;> omega

/-! ## Option strings -/

/-- A string without a comma whose integer value is below one is rejected (sample size must be ≥ 1). -/
theorem parse_rejects_small_sample (cs : List Char) (v : Int) (hc : cs.contains ',' = false)
    (hv : pyInt cs = some v) (hlt : v < 1) : parseSelector cs = .error .valueError := by
  have hc' : ¬ ',' ∈ cs := by simpa using hc
  simp [parseSelector, hc', hv, hlt]

/-- A string without a comma that is not an integer is rejected. -/
theorem parse_rejects_non_integer (cs : List Char) (hc : cs.contains ',' = false)
    (hv : pyInt cs = none) : parseSelector cs = .error .valueError := by
  have hc' : ¬ ',' ∈ cs := by simpa using hc
  simp [parseSelector, hc', hv]

/-- A comma separated string is accepted only with exactly three parts, each absent/`None`/an integer. -/
theorem parse_slice_iff (cs : List Char) (hc : cs.contains ',' = true) (sel : Selector) :
    parseSelector cs = .ok sel ↔
      ∃ a b c, partsAll (splitOnComma cs) = .ok [a, b, c] ∧ sel = .slice a b c := by
  unfold parseSelector
  simp only [hc, if_true]
  constructor
  · intro h
    split at h
    · simp at h
    · rename_i a b c heq; exact ⟨a, b, c, heq, by simpa using h.symm⟩
    · simp at h
  · rintro ⟨a, b, c, h, rfl⟩
    rw [h]

/-- Accepted sample strings denote the integer they spell. -/
theorem parse_sample_iff (cs : List Char) (hc : cs.contains ',' = false) (sel : Selector) :
    parseSelector cs = .ok sel ↔ ∃ v : Int, pyInt cs = some v ∧ 1 ≤ v ∧ sel = .sample v.toNat := by
  have hc' : ¬ ',' ∈ cs := by simpa using hc
  unfold parseSelector
  simp only [List.contains_eq_mem, hc', decide_false, Bool.false_eq_true, if_false]
  constructor
  · intro h
    cases hv : pyInt cs with
    | none => simp [hv] at h
    | some v =>
      simp only [hv] at h
      split at h
      · simp at h
      · exact ⟨v, rfl, by omega, by simpa using h.symm⟩
  · rintro ⟨v, hv, h1, rfl⟩
    have : ¬ v < 1 := by omega
    simp [hv, this]

/-- **Option string round trip (slice)**: the canonical text of a slice selector — each part the decimal integer,
or absent printed as the empty string or as `None` (any of the 8 choices) — parses to the selector it denotes. -/
theorem parse_print_slice (a b c : Option Int) (ua ub uc : Bool) :
    parseSelector (partChars ua a ++ ',' :: (partChars ub b ++ ',' :: partChars uc c)) = .ok (.slice a b c) := by
  have hc : ',' ∈ partChars ua a ++ ',' :: (partChars ub b ++ ',' :: partChars uc c) := by simp
  unfold parseSelector
  simp only [List.contains_eq_mem, hc, decide_true, if_true]
  rw [splitOnComma_three _ _ _ (partChars_no_comma ua a) (partChars_no_comma ub b) (partChars_no_comma uc c)]
  simp [partsAll, convertPart_partChars]

/-- **Option string round trip (sample)**: the decimal text of `N ≥ 1` parses to `Sample(N)`. -/
theorem parse_print_sample (n : Nat) (hn : 1 ≤ n) :
    parseSelector (Nat.toDigits 10 n) = .ok (.sample n) := by
  have hi : intChars (n : Int) = Nat.toDigits 10 n := by
    have : ¬ ((n : Int) < 0) := by omega
    simp [intChars, this]
  have hc : ¬ ',' ∈ Nat.toDigits 10 n := by
    have := intChars_no_comma (n : Int)
    rwa [hi] at this
  have hp : pyInt (Nat.toDigits 10 n) = some (n : Int) := by
    have := pyInt_intChars (n : Int)
    rwa [hi] at this
  unfold parseSelector
  simp only [List.contains_eq_mem, hc, decide_false, Bool.false_eq_true, if_false, hp]
  have : ¬ ((n : Int) < 1) := by omega
  simp [this]

/-! ## Non-vacuity: the hypotheses are met by concrete, non-trivial instances. -/

example : sliceIndices (some 4) (some 10) (some 2) 20 = .ok [4, 6, 8] := by decide
example : sliceIndices (some (-7)) none (some 3) 12 = .ok [5, 8, 11] := by decide
example : sampleIndices 12 7 = [0, 1, 3, 5, 6, 8, 10] := by decide
example : parseSelector "40,-1,4".toList = .ok (.slice (some 40) (some (-1)) (some 4)) := by decide
example : parseSelector ",,".toList = .ok (.slice none none none) := by decide
example : parseSelector "64".toList = .ok (.sample 64) := by decide
example : parseSelector "1,2".toList = .error .valueError := by decide
example : parseSelector "0".toList = .error .valueError := by decide

end TD.C15
