import TD.C15.Model

/-! Lemmas for the option-string printer/parser round trip (core Lean only). -/
namespace TD.C15

/-- canonical text of an integer as Python's `str(int)` prints it -/
def intChars (v : Int) : List Char :=
  if v < 0 then '-' :: Nat.toDigits 10 v.natAbs else Nat.toDigits 10 v.natAbs

/-- a part of a slice option: absent is printed as `""` or `"None"` (either is accepted) -/
def partChars (useNone : Bool) : Option Int → List Char
  | none => if useNone then "None".toList else []
  | some v => intChars v

theorem digitsVal_digits (l : List Char) (a : Nat) (h : ∀ c ∈ l, c.isDigit = true) :
    digitsVal l (some a) false = some (Nat.ofDigitChars 10 l a) := by
  induction l generalizing a with
  | nil => simp [digitsVal]
  | cons c cs ih =>
    have hc : c.isDigit = true := h c (by simp)
    simp only [digitsVal, hc, if_true, Option.getD_some]
    rw [ih _ (fun d hd => h d (by simp [hd])), Nat.ofDigitChars_cons, Nat.mul_comm]

theorem digitsVal_digits_none (l : List Char) (hne : l ≠ []) (h : ∀ c ∈ l, c.isDigit = true) :
    digitsVal l none false = some (Nat.ofDigitChars 10 l 0) := by
  cases l with
  | nil => exact absurd rfl hne
  | cons c cs =>
    have hc : c.isDigit = true := h c (by simp)
    simp only [digitsVal, hc, if_true, Option.getD_none]
    rw [digitsVal_digits _ _ (fun d hd => h d (by simp [hd])), Nat.ofDigitChars_cons]

theorem digitsVal_toDigits (n : Nat) : digitsVal (Nat.toDigits 10 n) none false = some n := by
  rw [digitsVal_digits_none _ Nat.toDigits_ne_nil
    (fun c hc => Nat.isDigit_of_mem_toDigits (by decide) (by decide) hc)]
  simp

theorem isDigit_not_ws (c : Char) (h : c.isDigit = true) : isPyWs c = false := by
  simp only [Char.isDigit, Bool.and_eq_true, decide_eq_true_eq] at h
  have h1 : 48 ≤ c.val := h.1
  simp only [isPyWs, Bool.or_eq_false_iff, decide_eq_false_iff_not]
  refine ⟨⟨⟨⟨⟨⟨⟨⟨⟨?_, ?_⟩, ?_⟩, ?_⟩, ?_⟩, ?_⟩, ?_⟩, ?_⟩, ?_⟩, ?_⟩ <;> (intro he; subst he; revert h1; decide)

theorem dropWhile_of_head_false {p : Char → Bool} : ∀ (l : List Char), (∀ c ∈ l.head?, p c = false) → l.dropWhile p = l
  | [], _ => rfl
  | c :: cs, h => by simp [List.dropWhile, h c (by simp)]

theorem stripWs_id (l : List Char) (hh : ∀ c ∈ l.head?, isPyWs c = false) (hl : ∀ c ∈ l.getLast?, isPyWs c = false) :
    stripWs l = l := by
  unfold stripWs
  rw [dropWhile_of_head_false l hh, dropWhile_of_head_false l.reverse (by simpa using hl)]
  simp

theorem toDigits_head_last_not_ws (n : Nat) :
    (∀ c ∈ (Nat.toDigits 10 n).head?, isPyWs c = false) ∧ (∀ c ∈ (Nat.toDigits 10 n).getLast?, isPyWs c = false) := by
  constructor
  · intro c hc
    exact isDigit_not_ws c (Nat.isDigit_of_mem_toDigits (by decide) (by decide) (List.mem_of_mem_head? hc))
  · intro c hc
    exact isDigit_not_ws c (Nat.isDigit_of_mem_toDigits (by decide) (by decide) (List.mem_of_mem_getLast? hc))

theorem pyInt_intChars (v : Int) : pyInt (intChars v) = some v := by
  unfold intChars
  have hd := toDigits_head_last_not_ws v.natAbs
  have hne : Nat.toDigits 10 v.natAbs ≠ [] := Nat.toDigits_ne_nil
  split
  · rename_i hneg
    have hs : stripWs ('-' :: Nat.toDigits 10 v.natAbs) = '-' :: Nat.toDigits 10 v.natAbs := by
      apply stripWs_id
      · intro c hc; simp at hc; subst hc; decide
      · intro c hc
        rw [List.getLast?_cons_of_ne_nil hne] at hc
        exact hd.2 c hc
    unfold pyInt; rw [hs]
    simp only [digitsVal_toDigits, Option.map_some]
    have := Int.ofNat_natAbs_of_nonpos (Int.le_of_lt hneg)
    congr 1; simp only [Int.ofNat_eq_natCast]; omega
  · rename_i hpos
    have hs : stripWs (Nat.toDigits 10 v.natAbs) = Nat.toDigits 10 v.natAbs := stripWs_id _ hd.1 hd.2
    have hval : (digitsVal (Nat.toDigits 10 v.natAbs) none false).map Int.ofNat = some v := by
      rw [digitsVal_toDigits]
      have := Int.natAbs_of_nonneg (Int.not_lt.1 hpos)
      simp only [Option.map_some, Int.ofNat_eq_natCast]; congr 1
    unfold pyInt; rw [hs]
    cases hcs : Nat.toDigits 10 v.natAbs with
    | nil => exact absurd hcs hne
    | cons c cs =>
      have hc : c.isDigit = true :=
        Nat.isDigit_of_mem_toDigits (b := 10) (n := v.natAbs) (by decide) (by decide) (by rw [hcs]; simp)
      have hplus : c ≠ '+' := by intro h; subst h; revert hc; decide
      have hminus : c ≠ '-' := by intro h; subst h; revert hc; decide
      rw [hcs] at hval
      split
      · rename_i r heq; simp at heq; exact absurd heq.1 hplus
      · rename_i r heq; simp at heq; exact absurd heq.1 hminus
      · exact hval

theorem intChars_no_comma (v : Int) : ',' ∉ intChars v := by
  unfold intChars
  have : ',' ∉ Nat.toDigits 10 v.natAbs := by
    intro h
    have := Nat.isDigit_of_mem_toDigits (b := 10) (by decide) (by decide) h
    revert this; decide
  split
  · intro h; simp at h; exact this h
  · exact this

theorem partChars_no_comma (u : Bool) (a : Option Int) : ',' ∉ partChars u a := by
  cases a with
  | none => unfold partChars; cases u <;> decide
  | some v => exact intChars_no_comma v

theorem intChars_ne_nil (v : Int) : intChars v ≠ [] := by
  unfold intChars; split
  · simp
  · exact Nat.toDigits_ne_nil

theorem convertPart_partChars (u : Bool) (a : Option Int) : convertPart (partChars u a) = .ok a := by
  cases a with
  | none =>
    cases u
    · simp [partChars, convertPart, stripWs]
    · have h1 : stripWs ['N', 'o', 'n', 'e'] = ['N', 'o', 'n', 'e'] := by decide
      simp [partChars, convertPart, h1]
  | some v =>
    have hp := pyInt_intChars v
    -- stripWs of the canonical text is itself (pyInt strips again, idempotent on this text)
    have hs : stripWs (intChars v) = intChars v := by
      have hd := toDigits_head_last_not_ws v.natAbs
      have hne : Nat.toDigits 10 v.natAbs ≠ [] := Nat.toDigits_ne_nil
      unfold intChars; split
      · apply stripWs_id
        · intro c hc; simp at hc; subst hc; decide
        · intro c hc; rw [List.getLast?_cons_of_ne_nil hne] at hc; exact hd.2 c hc
      · exact stripWs_id _ hd.1 hd.2
    have hne : intChars v ≠ [] := intChars_ne_nil v
    have hnone : intChars v ≠ ['N', 'o', 'n', 'e'] := by
      unfold intChars; split
      · intro h; simp at h
      · intro h
        have : 'N' ∈ Nat.toDigits 10 v.natAbs := by rw [h]; simp
        have := Nat.isDigit_of_mem_toDigits (b := 10) (by decide) (by decide) this
        revert this; decide
    simp only [partChars, convertPart, hs, hp]
    simp [hne, hnone]

theorem splitOnComma_go_no_comma (l cur : List Char) (h : ',' ∉ l) :
    splitOnComma.go l cur = [cur.reverse ++ l] := by
  induction l generalizing cur with
  | nil => simp [splitOnComma.go]
  | cons c cs ih =>
    have hc : c ≠ ',' := by intro e; subst e; simp at h
    have hcs : ',' ∉ cs := by intro e; exact h (by simp [e])
    simp only [splitOnComma.go, hc, if_false]
    rw [ih _ hcs]; simp

theorem splitOnComma_go_append (l r cur : List Char) (h : ',' ∉ l) :
    splitOnComma.go (l ++ ',' :: r) cur = (cur.reverse ++ l) :: splitOnComma.go r [] := by
  induction l generalizing cur with
  | nil => simp [splitOnComma.go]
  | cons c cs ih =>
    have hc : c ≠ ',' := by intro e; subst e; simp at h
    have hcs : ',' ∉ cs := by intro e; exact h (by simp [e])
    simp only [List.cons_append, splitOnComma.go, hc, if_false]
    rw [ih _ hcs]; simp

theorem splitOnComma_three (p q r : List Char) (hp : ',' ∉ p) (hq : ',' ∉ q) (hr : ',' ∉ r) :
    splitOnComma (p ++ ',' :: (q ++ ',' :: r)) = [p, q, r] := by
  unfold splitOnComma
  rw [splitOnComma_go_append _ _ _ hp, splitOnComma_go_append _ _ _ hq, splitOnComma_go_no_comma _ _ hr]
  simp

end TD.C15
