/-
C15 — model of `TotalDepth/common/Slice.py` (Slice, Sample, create_slice_or_sample).
Core Lean only (no Mathlib) so that the driver starts fast.

Python `int` is `Int`; a sequence length is `Nat`.  A Python exception is `Except Err`.
-/
namespace TD.C15

inductive Err where
  | valueError | typeError
  deriving Repr, DecidableEq

/-- `slice(start, stop, step).indices(n)` — CPython `PySlice_Unpack` + `PySlice_AdjustIndices`.
`step = 0` raises `ValueError`. -/
def sliceAdjust (start stop step : Option Int) (n : Nat) : Except Err (Int × Int × Int) :=
  let st : Int := step.getD 1
  if st = 0 then .error .valueError else
  let len : Int := n
  if st > 0 then
    let s := match start with
      | none => 0
      | some a => if a < 0 then (if a + len < 0 then 0 else a + len) else (if a ≥ len then len else a)
    let e := match stop with
      | none => len
      | some a => if a < 0 then (if a + len < 0 then 0 else a + len) else (if a ≥ len then len else a)
    .ok (s, e, st)
  else
    let s := match start with
      | none => len - 1
      | some a => if a < 0 then (if a + len < 0 then -1 else a + len) else (if a ≥ len then len - 1 else a)
    let e := match stop with
      | none => -1
      | some a => if a < 0 then (if a + len < 0 then -1 else a + len) else (if a ≥ len then len - 1 else a)
    .ok (s, e, st)

/-- `len(range(lo, hi, step))` as CPython computes it. -/
def rangeLen (lo hi step : Int) : Nat :=
  if step > 0 then (if lo < hi then ((hi - lo - 1) / step + 1).toNat else 0)
  else if step < 0 then (if hi < lo then ((lo - hi - 1) / (-step) + 1).toNat else 0)
  else 0

/-- `list(range(lo, hi, step))`. -/
def rangeList (lo hi step : Int) : List Int :=
  (List.range (rangeLen lo hi step)).map (fun (i : Nat) => lo + (i : Int) * step)

/-- `Slice.indices(length)` / `list(Slice.gen_indices(length))`. -/
def sliceIndices (start stop step : Option Int) (n : Nat) : Except Err (List Int) :=
  match sliceAdjust start stop step n with
  | .error e => .error e
  | .ok (s, e, st) => .ok (rangeList s e st)

/-- `Slice.first(length)`. -/
def sliceFirst (start stop step : Option Int) (n : Nat) : Except Err Int :=
  match sliceAdjust start stop step n with
  | .error e => .error e
  | .ok (s, _, _) => .ok s

/-- `Slice.step(length)`. -/
def sliceStep (start stop step : Option Int) (n : Nat) : Except Err Int :=
  match sliceAdjust start stop step n with
  | .error e => .error e
  | .ok (_, _, st) => .ok st

/-- `Slice.count(length)` is `len(list(gen_indices))`. -/
def sliceCount (start stop step : Option Int) (n : Nat) : Except Err Nat :=
  match sliceIndices start stop step n with
  | .error e => .error e
  | .ok l => .ok l.length

/-- `Slice.last(length)` exactly as coded (it is *not* the last selected index in general; C11/F11). -/
def sliceLast (start stop step : Option Int) (n : Nat) : Except Err Int :=
  match sliceAdjust start stop step n with
  | .error e => .error e
  | .ok (_, e, st) => if (n : Int) < e then .ok ((n : Int) - 1) else .ok (st * (Int.fdiv e st) - 1)   -- Python `//` is floor division

/-! ### Sample -/

/-- The `while index < length` loop of `Sample.gen_indices`, with fuel. -/
def sampleLoop (n s : Nat) : Nat → Nat → Nat → List Nat
  | 0, _, _ => []
  | fuel+1, index, rem =>
    if index < n then
      let rem' := rem + n % s
      index :: sampleLoop n s fuel (index + n / s + rem' / s) (rem' % s)
    else []

/-- `Sample(s).indices(n)`.  (`s ≥ 1` is enforced by the constructor.) -/
def sampleIndices (n s : Nat) : List Nat :=
  if s ≥ n then List.range n else sampleLoop n s n 0 0

def sampleCount (n s : Nat) : Nat := if n ≤ s then n else s
def sampleFirst (_n _s : Nat) : Nat := 0
def sampleStep (n s : Nat) : Nat := if s ≥ n then 1 else n / s

/-! ### Option-string parser `create_slice_or_sample` -/

/-- The selector denoted by an option string. -/
inductive Selector where
  | slice (start stop step : Option Int)
  | sample (n : Nat)
  deriving Repr, DecidableEq

def isPyWs (c : Char) : Bool :=
  c = ' ' || c = '\t' || c = '\n' || c = '\r' || c = '\x0b' || c = '\x0c' || c = '\x1c' || c = '\x1d' || c = '\x1e' || c = '\x1f'

def stripWs (cs : List Char) : List Char :=
  ((cs.dropWhile isPyWs).reverse.dropWhile isPyWs).reverse

/-- digits with optional single underscores between digits (Python ≥ 3.6 integer literal rule used by `int()`). -/
def digitsVal : List Char → Option Nat → Bool → Option Nat
  | [], acc, prevUnderscore => if prevUnderscore then none else acc
  | c :: cs, acc, prevUnderscore =>
    if c.isDigit then digitsVal cs (some ((acc.getD 0) * 10 + (c.toNat - '0'.toNat))) false
    else if c = '_' then
      (match acc with
       | none => none
       | some a => if prevUnderscore then none else digitsVal cs (some a) true)
    else none

/-- Python `int(str)` on an ASCII string (base 10). -/
def pyInt (cs : List Char) : Option Int :=
  match stripWs cs with
  | '+' :: r => (digitsVal r none false).map Int.ofNat
  | '-' :: r => (digitsVal r none false).map (fun v => - Int.ofNat v)
  | r => (digitsVal r none false).map Int.ofNat

def splitOnComma (cs : List Char) : List (List Char) :=
  let rec go : List Char → List Char → List (List Char)
    | [], cur => [cur.reverse]
    | c :: r, cur => if c = ',' then cur.reverse :: go r [] else go r (c :: cur)
  go cs []

/-- `convert(p.strip())` : `'None'`/`''` → None, else `int(...)`. -/
def convertPart (cs : List Char) : Except Err (Option Int) :=
  let t := stripWs cs
  if t = [] ∨ t = "None".toList then .ok none
  else match pyInt t with
    | some v => .ok (some v)
    | none => .error .valueError

def partsAll : List (List Char) → Except Err (List (Option Int))
  | [] => .ok []
  | p :: ps => match convertPart p with
    | .error e => .error e
    | .ok v => match partsAll ps with
      | .error e => .error e
      | .ok vs => .ok (v :: vs)

/-- `create_slice_or_sample(slice_string)`. -/
def parseSelector (cs : List Char) : Except Err Selector :=
  if cs.contains ',' then
    match partsAll (splitOnComma cs) with
    | .error e => .error e
    | .ok [a, b, c] => .ok (.slice a b c)
    | .ok _ => .error .valueError
  else
    match pyInt cs with
    | none => .error .valueError
    | some v => if v < 1 then .error .valueError else .ok (.sample v.toNat)

end TD.C15
