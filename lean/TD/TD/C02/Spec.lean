/-
C02 — specification side: where the encoder of C01 puts every segment (positions follow from the layout alone), the
index entries a conformant file must have, the visible records that hold a record, and the slice a fetch must return.
Core Lean only.
-/
import TD.C01.Spec

namespace TD.C02
open TD.C01

/-- position data of one flat segment: the visible record (position, length) that contains it and the position of its
segment header -/
structure SegPos where
  vrPos : Nat
  vrLen : Nat
  lrshPos : Nat
  deriving DecidableEq, Repr

/-- positions of the flat segments; `pos` = file position where the next segment (or its visible record header)
starts, `(vp, vl)` = the visible record in hand -/
def segTable : Nat → Nat → Nat → List TSeg → List SegPos
  | _, _, _, [] => []
  | pos, vp, vl, s :: ss =>
    match s.d.vr with
    | some L => ⟨pos, L, pos + 4⟩ :: segTable (pos + 4 + s.d.segLen) pos L ss
    | none => ⟨vp, vl, pos⟩ :: segTable (pos + s.d.segLen) vp vl ss

/-- an index entry as the standard defines it: positions of the visible record and of the first segment of the record,
the first segment's attribute byte, the record type, and the summed body length of its segments (pad bytes included) -/
structure PosSpec where
  vrPos : Nat
  lrshPos : Nat
  attr : Nat
  type : Nat
  ldLen : Nat
  deriving DecidableEq, Repr

/-- group the flat segments into records: one entry per `last` segment, described by the record's first segment -/
def collectPos : List (TSeg × SegPos) → Option (PosSpec) → List PosSpec
  | [], _ => []
  | (s, p) :: ss, cur =>
    let c : PosSpec := match cur with
      | some c => c
      | none => ⟨p.vrPos, p.lrshPos, attrByte s.eflr s.first s.last s.d, s.type, 0⟩
    let c' := { c with ldLen := c.ldLen + (s.d.n + s.d.padBytes.length) }
    if s.last then c' :: collectPos ss none else collectPos ss (some c')

def flatWithPos (recs : List LR) (ℓ : Layout) : List (TSeg × SegPos) :=
  let segs := cutAll recs ℓ.recs
  segs.zip (segTable 80 0 0 segs)

def specPositionsS (recs : List LR) (ℓ : Layout) : List PosSpec := collectPos (flatWithPos recs ℓ) none

/-- per record: the byte interval [lo, hi) covered by the visible records that hold its segments -/
def collectSpans : List (TSeg × SegPos) → Option (Nat × Nat) → List (Nat × Nat)
  | [], _ => []
  | (s, p) :: ss, cur =>
    let lo := match cur with
      | some c => c.1
      | none => p.vrPos
    let c' := (lo, p.vrPos + p.vrLen)
    if s.last then c' :: collectSpans ss none else collectSpans ss (some c')

def specSpans (recs : List LR) (ℓ : Layout) : List (Nat × Nat) := collectSpans (flatWithPos recs ℓ) none

/-- where the reader stands after a prefix of flat segments: (position of what follows, visible record in hand) -/
def walkEnd : Nat → Nat → Nat → List TSeg → Nat × Nat × Nat
  | pos, vp, vl, [] => (pos, vp, vl)
  | pos, vp, vl, s :: ss =>
    match s.d.vr with
    | some L => walkEnd (pos + 4 + s.d.segLen) pos L ss
    | none => walkEnd (pos + s.d.segLen) vp vl ss

/-- (visible record position, segment header position) of a segment with descriptor `d` that follows the flat
prefix `pre` in a file -/
def entryAfter (pre : List TSeg) (d : SegDesc) : Nat × Nat :=
  let w := walkEnd 80 0 0 pre
  match d.vr with
  | some _ => (w.1, w.1 + 4)
  | none => (w.2.1, w.1)

/-- announced length of the visible record that contains that segment -/
def entryVrLen (pre : List TSeg) (d : SegDesc) : Nat :=
  match d.vr with
  | some L => L
  | none => (walkEnd 80 0 0 pre).2.2

/-- index position of the record written after the records `rpre` (laid out by `lpre`) whose first segment has
descriptor `d` -/
def recEntry (rpre : List LR) (lpre : List (List SegDesc)) (d : SegDesc) : Nat × Nat :=
  entryAfter (cutAll rpre lpre) d

/-- end of the visible record that holds the last segment of the record starting the list; `e` = end of the visible
record in hand, `p` = position of the current segment header -/
def recEnd : Nat → Nat → List TSeg → Nat
  | e, _, [] => e
  | e, p, s :: ss =>
    if s.last then e
    else match ss with
      | [] => e
      | s' :: _ =>
        match s'.d.vr with
        | some L => recEnd (p + s.d.segLen + L) (p + s.d.segLen + 4) ss
        | none => recEnd e (p + s.d.segLen) ss

/-- the slice `get_file_logical_data(…, offset, length)` must return: `payload[offset:offset+length]`, everything from
`offset` when `length < 0` -/
def sliceSpec (payload : Bytes) (off : Nat) (len : Int) : Bytes :=
  if len < 0 then payload.drop off else (payload.drop off).take len.toNat

end TD.C02
