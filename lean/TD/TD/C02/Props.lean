/-
C02 — the RP66V1 index gives random access identical to the sequential read.

Subject: the model `TD.C02` (Model.lean: `iterPositions`, `getLogicalDataSt`/`fetch`/`runHist`) of
`pFile.FileRead.iter_logical_record_positions` / `get_file_logical_data` / `pIndex.LogicalRecordIndex`, tied to the code
by the correspondence run of `harness/props/c02.py`.  Specification: the C01 encoder and layout conformance, the
positions that follow from the layout (`recEntry`, Spec.lean) and `sliceSpec`.
-/
import TD.C02.Lemmas
import TD.C02.Scan
import TD.C02.ObjLemmas
import TD.C01.Props

namespace TD.C02
open TD.C01

/-- **History independence.**  Whatever state earlier fetches (or anything else) left the reader object in — file
cursor, visible record and segment header objects — and for every sequence of fetches, the k-th result is the result
of that fetch alone.  (`runHist` threads the mutable reader state from fetch to fetch; `fetch` starts from a fresh
reader.)  Holds for every file, conformant or not, and for failing fetches too. -/
theorem get_stateless (b : Bytes) (st : RState) (hist : List Req) : runHist b st hist = hist.map (fetch b) :=
  runHist_eq b hist st

/-- **A fetch with (offset, length) returns exactly that slice of the record's payload** — for every record of every
conformant file (the record `r`, laid out by `d :: ds`, anywhere in the file: after any records `rpre`, before any
`rpost`), every `offset ≥ 0` and every `length` (`length < 0` ⇒ everything from `offset`), including ranges spanning
several segments and visible records and ranges beyond the end.  `recEntry` is the (visible record position, first
segment position) pair that follows from the layout (`positions_encode`: it is the index entry). -/
theorem get_slice (sul : SULW) (rpre rpost : List LR) (r : LR) (lpre lpost : List (List SegDesc)) (d : SegDesc)
    (ds : List SegDesc) (hlen : lpre.length = rpre.length) (hs : sul.conformant = true)
    (hc : (Layout.mk (lpre ++ (d :: ds) :: lpost)).conformant (rpre ++ r :: rpost) = true) (off : Nat) (len : Int) :
    (fetch (encode sul (rpre ++ r :: rpost) ⟨lpre ++ (d :: ds) :: lpost⟩)
        ⟨(recEntry rpre lpre d).1, (recEntry rpre lpre d).2, off, len⟩).map (·.out)
      = .ok (sliceSpec r.payload off len) := by
  unfold Layout.conformant at hc
  simp only [Bool.and_eq_true] at hc
  have hW := segsWF_cutAll _ _ 0 hc.1 hc.2
  unfold encode
  simp only []
  rw [cutAll_append rpre lpre r (d :: ds) rpost lpost hlen] at hW ⊢
  have hcr : cutRec r true (d :: ds) r.payload = ⟨r.eflr, r.type, true, ds.isEmpty, d, r.payload.take d.n⟩ ::
      cutRec r false ds (r.payload.drop d.n) := rfl
  have hlast : ∃ x ∈ cutRec r true (d :: ds) r.payload ++ cutAll rpost lpost, x.last = true := by
    obtain ⟨x, hx, hl⟩ := exists_last_cutRec r (d :: ds) true r.payload (by simp)
    exact ⟨x, List.mem_append_left _ hx, hl⟩
  have hrd := recData_cutRec r (cutAll rpost lpost) (d :: ds) true r.payload (by simp)
  rw [hcr, List.cons_append] at hW hlast hrd ⊢
  obtain ⟨res, habs, hf, _⟩ := fetch_flat sul (cutAll rpre lpre) _ _ hs hW hlast off len
  unfold recEntry
  rw [hf]
  simp only [Except.map]
  rw [absLoop_out off len _ _ _ _ res habs, hrd]
  -- the cuts add up to the whole payload
  have hsum := recsOK_mid_sum rpre lpre r (d :: ds) rpost lpost hlen hc.1
  rw [hsum, List.take_length]

/-- **A fetch touches only the bytes of the visible records that hold the record**: every read `(position, count)`
made by the fetch lies between the start of the visible record holding the record's first segment and the end of the
visible record holding its last segment (these visible records are contiguous; `recEnd` follows the layout). -/
theorem touched_subset (sul : SULW) (rpre rpost : List LR) (r : LR) (lpre lpost : List (List SegDesc)) (d : SegDesc)
    (ds : List SegDesc) (hlen : lpre.length = rpre.length) (hs : sul.conformant = true)
    (hc : (Layout.mk (lpre ++ (d :: ds) :: lpost)).conformant (rpre ++ r :: rpost) = true) (off : Nat) (len : Int) :
    ∃ f, fetch (encode sul (rpre ++ r :: rpost) ⟨lpre ++ (d :: ds) :: lpost⟩)
        ⟨(recEntry rpre lpre d).1, (recEntry rpre lpre d).2, off, len⟩ = .ok f ∧
      ∀ t ∈ f.touched, (recEntry rpre lpre d).1 ≤ t.1 ∧
        t.1 + t.2 ≤ recEnd ((recEntry rpre lpre d).1 + entryVrLen (cutAll rpre lpre) d) (recEntry rpre lpre d).2
          (cutRec r true (d :: ds) r.payload ++ cutAll rpost lpost) := by
  unfold Layout.conformant at hc
  simp only [Bool.and_eq_true] at hc
  have hW := segsWF_cutAll _ _ 0 hc.1 hc.2
  unfold encode
  simp only []
  rw [cutAll_append rpre lpre r (d :: ds) rpost lpost hlen] at hW ⊢
  have hcr : cutRec r true (d :: ds) r.payload = ⟨r.eflr, r.type, true, ds.isEmpty, d, r.payload.take d.n⟩ ::
      cutRec r false ds (r.payload.drop d.n) := rfl
  have hlast : ∃ x ∈ cutRec r true (d :: ds) r.payload ++ cutAll rpost lpost, x.last = true := by
    obtain ⟨x, hx, hl⟩ := exists_last_cutRec r (d :: ds) true r.payload (by simp)
    exact ⟨x, List.mem_append_left _ hx, hl⟩
  rw [hcr, List.cons_append] at hW hlast ⊢
  obtain ⟨res, habs, hf, r', g1, g2, g3, g4, g5⟩ := fetch_flat sul (cutAll rpre lpre) _ _ hs hW hlast off len
  unfold recEntry
  refine ⟨_, hf, ?_⟩
  dsimp only at g1 g2 g3 g4 g5 habs
  exact absLoop_touched _ _ _ _ _ ⟨_, _⟩ _ _ res r' _ g1 g2 g5 (Nat.le_refl _) (touched_init _ _ _ _ _ g1 g2 g3 g4) habs

/-- **Fetching a whole record by its index entry gives exactly what the sequential read yields for it**: the payload
written (`iter_encode` of C01 says the sequential read yields the records written). -/
theorem get_full_eq_iter (sul : SULW) (rpre rpost : List LR) (r : LR) (lpre lpost : List (List SegDesc)) (d : SegDesc)
    (ds : List SegDesc) (hlen : lpre.length = rpre.length) (hs : sul.conformant = true)
    (hc : (Layout.mk (lpre ++ (d :: ds) :: lpost)).conformant (rpre ++ r :: rpost) = true) :
    (fetch (encode sul (rpre ++ r :: rpost) ⟨lpre ++ (d :: ds) :: lpost⟩)
        ⟨(recEntry rpre lpre d).1, (recEntry rpre lpre d).2, 0, -1⟩).map (·.out) = .ok r.payload
    ∧ iterLogicalRecords (encode sul (rpre ++ r :: rpost) ⟨lpre ++ (d :: ds) :: lpost⟩) = .ok (rpre ++ r :: rpost) := by
  refine ⟨?_, iter_encode sul _ _ hs (by simp) hc⟩
  have := get_slice sul rpre rpost r lpre lpost d ds hlen hs hc 0 (-1)
  simpa [sliceSpec] using this

/-- **The index has one entry per logical record with the record's true type, kind (attribute byte of its first
segment), file positions and body length**: the position scan of a conformant file (`LogicalRecordIndex._enter`)
yields exactly the entries that follow from the layout (`specPositionsS`: positions from `segTable`, grouped per record
by `collectPos`), and ends without error. -/
theorem positions_encode (sul : SULW) (recs : List LR) (ℓ : Layout) (hs : sul.conformant = true) (hne : recs ≠ [])
    (hc : ℓ.conformant recs = true) :
    iterPositions (encode sul recs ℓ) = .ok ((specPositionsS recs ℓ).map PosSpec.toDesc) := by
  unfold iterPositions
  rw [iterPositionsSt_encode sul recs ℓ hs hne hc]

/-- **One entry per record**: the specification list (hence, by `positions_encode`, the index) has exactly as many
entries as there are logical records. -/
theorem positions_count (recs : List LR) (ℓ : Layout) (hc : ℓ.conformant recs = true) :
    (specPositionsS recs ℓ).length = recs.length := by
  unfold Layout.conformant at hc
  simp only [Bool.and_eq_true] at hc
  obtain ⟨E, hE, hEq⟩ := collectPos_cutAll recs ℓ.recs (segTable 80 0 0 (cutAll recs ℓ.recs)) [] hc.1
    (by rw [segTable_length])
  unfold specPositionsS flatWithPos
  simp only [List.append_nil, collectPos] at hEq
  rw [hEq, hE]

/-- **Entry k describes record k**: the entry at the index of record `r` carries the positions `recEntry` at which
`get_slice` / `touched_subset` fetch, the attribute byte of the record's first segment (kind = `r.eflr`, first, not
last unless it is the only segment, flags of `d`), the record's type and the summed body length of its segments.
With `positions_encode` this closes the chain index entry → fetch → payload slice. -/
theorem positions_entry (rpre rpost : List LR) (r : LR) (lpre lpost : List (List SegDesc)) (d : SegDesc)
    (ds : List SegDesc) (hlen : lpre.length = rpre.length)
    (hc : (Layout.mk (lpre ++ (d :: ds) :: lpost)).conformant (rpre ++ r :: rpost) = true) :
    (specPositionsS (rpre ++ r :: rpost) ⟨lpre ++ (d :: ds) :: lpost⟩)[rpre.length]? =
      some ⟨(recEntry rpre lpre d).1, (recEntry rpre lpre d).2, attrByte r.eflr true ds.isEmpty d, r.type,
        0 + ((d :: ds).map (fun x => x.n + x.padBytes.length)).sum⟩ := by
  unfold Layout.conformant at hc
  simp only [Bool.and_eq_true] at hc
  exact positions_entry_flat rpre rpost r lpre lpost d ds hlen hc.1

example : (specPositionsS exRecs exLayout).map (fun c => (c.vrPos, c.lrshPos))
    = [recEntry [] [] ⟨10, 2, 0, none, false, false, false, some 40⟩,
       recEntry (exRecs.take 1) (exLayout.recs.take 1) ⟨3, 9, 0, none, false, false, false, none⟩,
       recEntry (exRecs.take 2) (exLayout.recs.take 2) ⟨0, 12, 1, none, false, false, false, some 36⟩,
       recEntry (exRecs.take 3) (exLayout.recs.take 3) ⟨12, 3, 0, none, false, true, true, none⟩] := by decide +kernel

example : iterPositionsSt (encode exSul exRecs exLayout)
    = ((specPositionsS exRecs exLayout).map fun c => ⟨c.vrPos, c.lrshPos, c.attr, c.type, (c.ldLen : Int)⟩, none) := by
  decide +kernel

example : (specPositionsS exRecs exLayout).map (fun c => (c.vrPos, c.lrshPos, c.type, c.ldLen))
    = [(80, 84, 0, 34), (120, 140, 5, 12), (156, 160, 127, 12), (156, 176, 3, 12)] := by decide +kernel

/-! ### the index OBJECT through histories of enter / fetch / exit / re-enter / pickle / re-scan, two objects on one file -/

/-- **Everything an index object answers is a function of the file bytes alone.**  For every file, every history of
operations on one or two `LogicalRecordIndex` objects sharing one file object (enter, exit, re-enter, fetches, pickle
round trip, re-scanning and sequential iteration on the same `FileRead`), whatever the cursor and the reader objects
held before and whatever a scan leaves in them (`k`): the outputs are those of the state-free run `runPure2`, in which
a fetch is `fetch b` on a fresh reader and the only memory is which entries list an object currently holds. -/
theorem obj_history_pure (k : Bytes → RState → RState) (b : Bytes) (ops : List (Bool × Op)) (cur : Nat) (sA sB : IdxSt) :
    runObj2 k b cur sA sB ops = runPure2 b (sA.entries, sA.entered) (sB.entries, sB.entered) ops :=
  runObj2_pure k b ops cur sA sB

/-- **Re-indexing gives the same list**: `_enter` leaves exactly the scan of the bytes in the index, whatever the
object held before (entries of an earlier enter, of an unpickled index, anything) — one entry per logical record, not
an accumulation. -/
theorem reindex_pure (k : Bytes → RState → RState) (b : Bytes) (st : IdxSt) (P : List PosDesc)
    (hP : iterPositions b = .ok P) :
    (stepObj k b st .enter).1 = .entered P ∧ (stepObj k b st .enter).2.entries = P := by
  unfold iterPositions at hP
  unfold stepObj
  cases h : iterPositionsSt b with
  | mk l e =>
    rw [h] at hP
    cases e with
    | none => simp only [Except.ok.injEq] at hP; subst hP; simp
    | some x => simp at hP

/-- The entries an object holds at any point of any history are either none or exactly the scan of the bytes. -/
theorem obj_entries_good (k : Bytes → RState → RState) (b : Bytes) (st : IdxSt) (op : Op)
    (h : GoodEntries b st.entries) : GoodEntries b (stepObj k b st op).2.entries := by
  have h1 := (stepObj_pure k b st op).2
  have h2 := stepPure_good b (st.entries, st.entered) op h
  rw [← h1] at h2
  exact h2

/-- **On a conformant file every enter in every history reports one entry per record**: the n-th output of any
history whose n-th operation is an enter (first enter, re-enter after exit, enter of an unpickled populated index,
enter of the second object) is the list that follows from the layout, of length `recs.length`. -/
theorem reindex_encode (k : Bytes → RState → RState) (sul : SULW) (recs : List LR) (ℓ : Layout)
    (hs : sul.conformant = true) (hne : recs ≠ []) (hc : ℓ.conformant recs = true)
    (ops : List (Bool × Op)) (cur : Nat) (sA sB : IdxSt) (n : Nat) (j : Bool) (hn : ops[n]? = some (j, .enter)) :
    (runObj2 k (encode sul recs ℓ) cur sA sB ops)[n]? = some (.entered ((specPositionsS recs ℓ).map PosSpec.toDesc))
    ∧ ((specPositionsS recs ℓ).map PosSpec.toDesc).length = recs.length := by
  refine ⟨?_, by rw [List.length_map, positions_count recs ℓ hc]⟩
  rw [obj_history_pure]
  exact runPure2_enter _ _ (iterPositionsSt_encode sul recs ℓ hs hne hc) ops _ _ n j hn

/-- **Several objects alive at once do not see each other.**  For any number of index / reader objects, each with
its own file object (the same bytes or different files), and every interleaving of their operations: the answers an
object gives are exactly those of the state-free run of ITS OWN operations on ITS OWN file — the operations of the other
objects are no-ops for it, wherever their fetches land.  (The model keeps the reader state per object, as the code does
with instance attributes; a lazily consumed generator's j-th item is the j-th element of the complete result —
`TD.C01.reader_history_pure` with `truncate` — so stepping it between other objects' fetches changes nothing.)  State
shared between objects (a class-level visible record, a module-level cache, a default-argument list) falsifies this
statement; the harness exercises it in the `multi` stream. -/
theorem multi_object_pure (k : Bytes → RState → RState) (files : Nat → Bytes) (sts : Nat → IdxSt)
    (ops : List (Nat × Op)) (i : Nat) :
    outsOf i (runObjN k files sts ops) = runPure1 (files i) ((sts i).entries, (sts i).entered) (opsOf i ops) :=
  runObjN_project k files i ops sts

/-- three objects on two files, interleaved: each one's answers are those of its own history (kernel evaluation) -/
example : outsOf 1 (runObjN (fun _ rs => rs) (fun i => if i = 2 then encode exSul [⟨false, 9, [7, 7]⟩]
        ⟨[[⟨2, 10, 0, none, false, false, false, some 20⟩]]⟩ else encode exSul exRecs exLayout)
      (fun _ => ⟨[], default, false⟩)
      [(0, .enter), (1, .enter), (2, .enter), (0, .fetch 3 0 (-1)), (1, .fetch 1 0 (-1)), (2, .fetch 0 0 (-1)), (1, .iter)])
    = runPure1 (encode exSul exRecs exLayout) ([], false) [.enter, .fetch 1 0 (-1), .iter] := by decide +kernel

/-- enter, fetch, exit, re-enter, pickle, enter, fetch on the example file, second object interleaved: evaluated by
the kernel on the stateful model -/
example : (runObj2 (fun _ rs => rs) (encode exSul exRecs exLayout) 7 ⟨[], default, false⟩ ⟨[], default, false⟩
      [(false, .enter), (false, .fetch 1 0 (-1)), (false, .exit), (false, .fetch 0 0 (-1)), (false, .enter),
       (true, .enter), (false, .pickle), (false, .enter), (true, .fetch 3 2 5), (false, .fetch 3 2 5)]).map
      (fun o => match o with
        | .entered l => (l.length, [])
        | .fetched f => (0, f.out)
        | .error _ => (999, [])
        | _ => (0, []))
    = [(4, []), (0, [1, 2, 3]), (0, []), (999, []), (4, []), (4, []), (0, []), (4, []), (0, [255, 255, 255, 255, 255]),
       (0, [255, 255, 255, 255, 255])] := by decide +kernel

/-! ### the hypotheses are satisfiable, and the theorems bite on a concrete multi-segment record -/

/-- record 0 of the example (30 bytes in 3 segments over 2 visible records): entry (80, 84) -/
example : recEntry [] [] ⟨10, 2, 0, none, false, false, false, some 40⟩ = (80, 84) := by decide
example : (Layout.mk ([] ++ exLayout.recs)).conformant ([] ++ exRecs) = true := by decide
/-- a slice spanning all three segments, evaluated by the kernel on the model -/
example : (fetch (encode exSul exRecs exLayout) ⟨80, 84, 7, 20⟩).toOption.map (·.out) = some ((List.range 30).drop 7 |>.take 20) := by
  decide +kernel
/-- beyond the end / negative length -/
example : (fetch (encode exSul exRecs exLayout) ⟨80, 84, 25, 100⟩).toOption.map (·.out) = some [25, 26, 27, 28, 29] := by
  decide +kernel
example : (fetch (encode exSul exRecs exLayout) ⟨80, 84, 28, -1⟩).toOption.map (·.out) = some [28, 29] := by decide +kernel
/-- its reads stay inside visible records 1 and 2 (bytes 80 … 156) -/
example : (fetch (encode exSul exRecs exLayout) ⟨80, 84, 0, -1⟩).toOption.map (·.touched)
    = some [(80, 4), (84, 4), (88, 12), (100, 4), (104, 12), (120, 4), (124, 4), (128, 10)] := by decide +kernel
/-- a history with repetitions in any order equals the independent fetches -/
example : (runHist (encode exSul exRecs exLayout) ⟨999, ⟨1, 2⟩, ⟨3, 4, 5, 6⟩⟩
      [⟨156, 176, 0, -1⟩, ⟨80, 84, 3, 4⟩, ⟨156, 176, 0, -1⟩]).map Except.toOption
    = ([⟨156, 176, 0, -1⟩, ⟨80, 84, 3, 4⟩, ⟨156, 176, 0, -1⟩].map (fetch (encode exSul exRecs exLayout))).map Except.toOption := by
  decide +kernel

end TD.C02
