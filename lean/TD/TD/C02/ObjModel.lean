/-
C02 — the index *object*: `pIndex.LogicalRecordIndex` (`_enter`, `_exit`, `__getstate__`/`__setstate__`,
`get_file_logical_data`) with its `FileRead`, driven through histories of enter / fetch / exit / re-enter / pickle
round trip / re-scan / sequential iteration, one or two index objects sharing one file object (one cursor).
Core Lean only.

What `_enter` does to the reader state (cursor, visible record and segment header objects after the scan) is not
modelled in detail: it is an arbitrary function `k` of the bytes and the previous state, and every theorem holds
for every `k` (each fetch and each scan begins with absolute seeks — `get_stateless`).
-/
import TD.C02.Model

namespace TD.C02
open TD.C01

inductive Op where
  | enter                                  -- `idx._enter()` (`with idx:`)
  | exit                                   -- `idx._exit()`
  | fetch (i : Nat) (off len : Int)        -- `idx.get_file_logical_data(i, off, len)`
  | rescan                                 -- `list(idx.rp66v1_file.iter_logical_record_positions())`
  | iter                                   -- `list(idx.rp66v1_file.iter_logical_records())`
  | pickle                                 -- `idx = pickle.loads(pickle.dumps(idx))`
  deriving DecidableEq, Repr

/-- `lr_pos_desc`, the reader state of `rp66v1_file`, and whether that `FileRead` has been entered -/
structure IdxSt where
  entries : List PosDesc
  rs : RState
  entered : Bool
  deriving DecidableEq, Repr

inductive Out where
  | entered (l : List PosDesc)                       -- `_enter` succeeded; the entries the index now holds
  | done
  | fetched (f : Fetched)
  | scanned (l : List PosDesc) (e : Option Err)
  | iterated (l : List LR) (e : Option Err)
  | error (e : Err)
  deriving DecidableEq, Repr

/-- one operation on one index object; `k` = what a scan leaves in the reader state -/
def stepObj (k : Bytes → RState → RState) (b : Bytes) (st : IdxSt) : Op → Out × IdxSt
  | .enter =>
    match iterPositionsSt b with
    | (l, none) => (.entered l, ⟨l, k b st.rs, true⟩)              -- `self.lr_pos_desc = list(...)`: ASSIGNMENT
    | (_, some e) => (.error e, { st with rs := k b st.rs })         -- `list()` raised: nothing assigned
  | .exit => (.done, ⟨[], { st.rs with cur := 0 }, st.entered⟩)     -- `file.seek(0)`; `self.lr_pos_desc = []`
  | .fetch i off len =>
    match st.entries[i]? with
    | none => (.error .index, st)                                   -- `self.lr_pos_desc[index]`
    | some p =>
      if !st.entered then (.error .attribute, st)                   -- `self.file` / `self.visible_record` is None
      else
        match getLogicalDataSt b p.vrPos p.lrshPos off len st.rs with
        | (.ok f, rs') => (.fetched f, { st with rs := rs' })
        | (.error e, rs') => (.error e, { st with rs := rs' })
  | .rescan =>
    if !st.entered then (.error .attribute, st)
    else let r := iterPositionsSt b; (.scanned r.1 r.2, { st with rs := k b st.rs })
  | .iter =>
    if !st.entered then (.error .attribute, st)
    else let r := iterLR b; (.iterated r.1 r.2, { st with rs := k b st.rs })
  | .pickle => (.done, ⟨st.entries, default, false⟩)                -- state without `rp66v1_file`; fresh `FileRead(path)`

/-- two index objects over ONE file object: the cursor is shared, everything else is per object.
`(false, op)` addresses the first object, `(true, op)` the second. -/
def runObj2 (k : Bytes → RState → RState) (b : Bytes) : Nat → IdxSt → IdxSt → List (Bool × Op) → List Out
  | _, _, _, [] => []
  | cur, sA, sB, (false, op) :: ops =>
    let r := stepObj k b { sA with rs := { sA.rs with cur := cur } } op
    r.1 :: runObj2 k b r.2.rs.cur r.2 sB ops
  | cur, sA, sB, (true, op) :: ops =>
    let r := stepObj k b { sB with rs := { sB.rs with cur := cur } } op
    r.1 :: runObj2 k b r.2.rs.cur sA r.2 ops

/-- the same history with no reader state at all: only which entries each object holds and whether its reader has
been entered; fetches are `fetch b` (a fresh reader each time) -/
def stepPure (b : Bytes) (e : List PosDesc × Bool) : Op → Out × (List PosDesc × Bool)
  | .enter =>
    match iterPositionsSt b with
    | (l, none) => (.entered l, (l, true))
    | (_, some er) => (.error er, e)
  | .exit => (.done, ([], e.2))
  | .fetch i off len =>
    match e.1[i]? with
    | none => (.error .index, e)
    | some p =>
      if !e.2 then (.error .attribute, e)
      else
        match fetch b ⟨p.vrPos, p.lrshPos, off, len⟩ with
        | .ok f => (.fetched f, e)
        | .error er => (.error er, e)
  | .rescan => if !e.2 then (.error .attribute, e) else (.scanned (iterPositionsSt b).1 (iterPositionsSt b).2, e)
  | .iter => if !e.2 then (.error .attribute, e) else (.iterated (iterLR b).1 (iterLR b).2, e)
  | .pickle => (.done, (e.1, false))

def runPure2 (b : Bytes) : (List PosDesc × Bool) → (List PosDesc × Bool) → List (Bool × Op) → List Out
  | _, _, [] => []
  | eA, eB, (false, op) :: ops => (stepPure b eA op).1 :: runPure2 b (stepPure b eA op).2 eB ops
  | eA, eB, (true, op) :: ops => (stepPure b eB op).1 :: runPure2 b eA (stepPure b eB op).2 ops

/-! ### any number of objects, each on its own file object (its own cursor), alive at once -/

def updAt {α : Type} (f : Nat → α) (i : Nat) (a : α) : Nat → α := fun j => if j = i then a else f j

/-- a history over SEVERAL index objects: object `i` reads `files i`; an operation on object `i` is `stepObj` on that
object's state and touches no other object's state.  The output carries the object it belongs to. -/
def runObjN (k : Bytes → RState → RState) (files : Nat → Bytes) : (Nat → IdxSt) → List (Nat × Op) → List (Nat × Out)
  | _, [] => []
  | sts, (i, op) :: ops =>
    let r := stepObj k (files i) (sts i) op
    (i, r.1) :: runObjN k files (updAt sts i r.2) ops

/-- ONE object on its own, state-free (the single-object instance of `runPure2`) -/
def runPure1 (b : Bytes) : (List PosDesc × Bool) → List Op → List Out
  | _, [] => []
  | e, op :: ops => (stepPure b e op).1 :: runPure1 b (stepPure b e op).2 ops

/-- the operations of a history that address object `i` / the outputs that belong to it -/
def opsOf (i : Nat) (ops : List (Nat × Op)) : List Op := ops.filterMap fun x => if x.1 = i then some x.2 else none
def outsOf (i : Nat) (outs : List (Nat × Out)) : List Out := outs.filterMap fun x => if x.1 = i then some x.2 else none

end TD.C02
