/-
C02 — model of the RP66V1 index: `FileRead.iter_logical_record_positions` (with `iter_visible_records` and
`iter_LRSHs_for_visible_record`), `FileRead.get_file_logical_data`, `pIndex.LogicalRecordIndex` (which is a list of
the positions plus a call to `get_file_logical_data`).  Index.py / File.py re-export pIndex / pFile (cIndex.py and
cFile.py are empty).  Core Lean only.

The header / body readers (`readVR`, `readLRSH`, `lrPosCheck`, `readFull`, `seekNext`) are the C01 model's.
Here the *mutable reader state* — file cursor, `self.visible_record`, `self.logical_record_segment_header` — is threaded
explicitly through every fetch (`RState`), so that history independence is a statement about the model and not an
artefact of leaving the state out.
-/
import TD.C01.Model

namespace TD.C02
open TD.C01

/-! ### position scan -/

/-- `LRPosDesc`: (vr_position, lrsh_position) + (attributes of the first segment, its type, total logical data length
(pad bytes included, as the code counts them)) -/
structure PosDesc where
  vrPos : Nat
  lrshPos : Nat
  attr : Nat
  type : Nat
  ldLen : Int
  deriving DecidableEq, Repr

/-- loop variables of `iter_logical_record_positions` -/
structure ScanSt where
  prevLast : Bool
  first : Option (VR × LRSH)
  ldl : Int
  deriving DecidableEq, Repr

/-- the body of the double `for` loop for one yielded segment header -/
def posStep (st : ScanSt) (vr : VR) (h : LRSH) : Except Err (ScanSt × Option PosDesc) :=
  if h.isFirst && !st.prevLast then .error .lrshSeq
  else if st.prevLast && !h.isFirst then .error .lrshSeq
  else
    let first := if h.isFirst then some (vr, h) else st.first
    let ldl0 : Int := if h.isFirst then 0 else st.ldl
    match first with
    | none => .error .assertion          -- `assert logical_data_length is not None` (unreachable after the two tests)
    | some (vf, hf) =>
      let ldl := ldl0 + h.dataLen
      if h.isLast then
        match lrPosCheck vf hf with        -- LogicalRecordPosition(vr_first, lrsh_first)
        | .error e => .error e
        | .ok () => .ok (⟨true, none, 0⟩, some ⟨vf.pos, hf.pos, hf.attr, hf.type, ldl⟩)
      else .ok (⟨false, some (vf, hf), ldl⟩, none)

/-- resumption of `iter_visible_records`: `seek(vr.position); read_next()`; `ExceptionVisibleRecordEOF` ends the
iteration.  The next `iter_LRSHs_for_visible_record` re-reads that header and starts at `position + 4`. -/
def nextVR (b : Bytes) (vr : VR) : Except Err (Option (VR × Nat)) :=
  match readVR b vr.nextPos with
  | .error .vrEOF => .ok none
  | .error e => .error e
  | .ok vr' => .ok (some (vr', vr'.pos + 4))

/-- both loops, one iteration per segment header read at `p` inside visible record `vr` -/
def scanGo (b : Bytes) : Nat → VR → Nat → ScanSt → List PosDesc × Option Err
  | 0, _, _, _ => ([], some .fuel)
  | f + 1, vr, p, st =>
    match readLRSH b p with
    | .error _ =>                          -- ExceptionLogicalRecordSegmentHeaderEOF: `pass`, next visible record
      match nextVR b vr with
      | .error e => ([], some e)
      | .ok none => ([], none)
      | .ok (some (vr', p')) => scanGo b f vr' p' st
    | .ok h =>
      match posStep st vr h with
      | .error e => ([], some e)
      | .ok (st', out) =>
        match (if h.nextPos = vr.nextPos then nextVR b vr else .ok (some (vr, h.nextPos))) with
        | .error e => (out.toList, some e)
        | .ok none => (out.toList, none)
        | .ok (some (vr', p')) =>
          let (rs, e) := scanGo b f vr' p' st'
          (out.toList ++ rs, e)

/-- `LogicalRecordIndex._enter`: `FileRead._enter` then `list(iter_logical_record_positions())` (here: the entries
yielded and how the generator ended) -/
def iterPositionsSt (b : Bytes) : List PosDesc × Option Err :=
  match sulParse (b.take 80) with
  | none => ([], some .fileRead)
  | some _ =>
    match readVR b 80 with
    | .error e => ([], some e)
    | .ok vr =>
      match readLRSH b 84 with
      | .error e => ([], some e)
      | .ok h =>
        if !h.isFirst then ([], some .fileRead)
        else scanGo b (b.length + 3) vr 84 ⟨true, none, 0⟩

def iterPositions (b : Bytes) : Except Err (List PosDesc) :=
  match iterPositionsSt b with
  | (l, none) => .ok l
  | (_, some e) => .error e

/-! ### random access -/

/-- the mutable state of a `FileRead`: file cursor, `visible_record`, `logical_record_segment_header` -/
structure RState where
  cur : Nat
  vr : VR
  h : LRSH
  deriving DecidableEq, Repr

instance : Inhabited RState := ⟨⟨0, ⟨0, 0⟩, ⟨0, 0, 0, 0⟩⟩⟩

/-- `self.visible_record.read(self.file)` at the cursor (a failed read leaves the object unchanged) -/
def vrRead (b : Bytes) (st : RState) : Except Err Unit × RState :=
  match readVR b st.cur with
  | .ok vr => (.ok (), { st with vr := vr, cur := st.cur + 4 })
  | .error e => (.error e, { st with cur := min b.length (st.cur + 4) })

/-- `self.logical_record_segment_header.read(self.file)` at the cursor -/
def lrshRead (b : Bytes) (st : RState) : Except Err Unit × RState :=
  match readLRSH b st.cur with
  | .ok h => (.ok (), { st with h := h, cur := st.cur + 4 })
  | .error e => (.error e, { st with cur := min b.length (st.cur + 4) })

/-- `_read_full_logical_data` with its `assert tell == position + HEAD_LENGTH` -/
def readFullSt (b : Bytes) (st : RState) : Except Err Bytes × RState :=
  if st.cur ≠ st.h.pos + 4 then (.error .assertion, st)
  else (readFull b st.vr st.h, { st with cur := st.cur + (rawBody b st.h).length })

/-- `_seek_and_read_next_logical_record_segment_header` on the state -/
def seekNextSt (b : Bytes) (st : RState) : Except Err Unit × RState :=
  match seekNext b st.vr st.h with
  | .ok (vr', h') => (.ok (), ⟨h'.pos + 4, vr', h'⟩)
  | .error e =>
    let vr' := if st.h.nextPos = st.vr.nextPos then
        (match readVR b st.h.nextPos with
         | .ok v => v
         | .error _ => st.vr)
      else st.vr
    (.error e, { st with vr := vr', cur := min b.length (st.h.nextPos + 8) })

/-- Python `l[i:j]` (step 1) for arbitrary integers -/
def pySlice (l : Bytes) (i j : Int) : Bytes :=
  let n : Int := l.length
  let adj (k : Int) : Int := if k < 0 then (if k + n < 0 then 0 else k + n) else (if k > n then n else k)
  let i' := adj i
  let j' := adj j
  (l.drop i'.toNat).take (j' - i').toNat

/-- what one fetch returns: the bytes and the list of reads `(position, bytes returned)` it made -/
structure Fetched where
  out : Bytes
  touched : List (Nat × Nat)
  deriving DecidableEq, Repr

structure LoopSt where
  out : Bytes
  bytesRead : Nat
  ldi : Nat
  touched : List (Nat × Nat)
  deriving DecidableEq, Repr

/-- reads of one `_seek_and_read_next…`: a visible record header when hopping, then the segment header -/
def hdrReads (st : RState) : List (Nat × Nat) :=
  if st.h.nextPos = st.vr.nextPos then [(st.h.nextPos, 4), (st.h.nextPos + 4, 4)] else [(st.h.nextPos, 4)]

/-- the `while True` loop of `get_file_logical_data` -/
def getLoop (b : Bytes) (off len : Int) (allBytes : Bool) : Nat → RState → LoopSt → Except Err LoopSt × RState
  | 0, st, _ => (.error .fuel, st)
  | f + 1, st, a =>
    let rd : Except Err LoopSt × RState :=
      if allBytes || (a.bytesRead : Int) ≠ len then
        match readFullSt b st with
        | (.error e, st') => (.error e, st')
        | (.ok by_, st') =>
          let tr := a.touched ++ [(st.cur, (rawBody b st.h).length)]
          if allBytes then (.ok { a with out := a.out ++ by_, touched := tr }, st')
          else
            let indexFrom : Int := max 0 (off - a.ldi)
            let indexTo : Int := if len ≥ 0 then indexFrom + (len - a.bytesRead) else by_.length
            let sl := pySlice by_ indexFrom indexTo
            (.ok ⟨a.out ++ sl, a.bytesRead + sl.length, a.ldi + by_.length, tr⟩, st')
      else (.ok a, st)
    match rd with
    | (.error e, st') => (.error e, st')
    | (.ok a', st') =>
      if st'.h.isLast then (.ok a', st')
      else
        match seekNextSt b st' with
        | (.error e, st'') => (.error e, st'')
        | (.ok (), st'') => getLoop b off len allBytes f st'' { a' with touched := a'.touched ++ hdrReads st' }

/-- `FileRead.get_file_logical_data(position, offset, length)` from reader state `st` -/
def getLogicalDataSt (b : Bytes) (vrPos lrshPos : Nat) (off len : Int) (st : RState) : Except Err Fetched × RState :=
  if off < 0 then (.error .fileRead, st) else
  match vrRead b { st with cur := vrPos } with               -- seek(vr_position); visible_record.read
  | (.error e, st1) => (.error e, st1)
  | (.ok (), st1) =>
    match lrshRead b { st1 with cur := lrshPos } with         -- seek(lrsh_position); lrsh.read
    | (.error e, st2) => (.error e, st2)
    | (.ok (), st2) =>
      match lrPosCheck st2.vr st2.h with                       -- FileLogicalData(vr, lrsh)
      | .error e => (.error e, st2)
      | .ok () =>
        match getLoop b off len (off == 0 && len < 0) (b.length + 1) st2 ⟨[], 0, 0, [(vrPos, 4), (lrshPos, 4)]⟩ with
        | (.error e, st3) => (.error e, st3)
        | (.ok a, st3) => (.ok ⟨a.out, a.touched⟩, st3)

/-- a fetch request as the index user makes it -/
structure Req where
  vrPos : Nat
  lrshPos : Nat
  off : Int
  len : Int
  deriving DecidableEq, Repr

/-- the result of a fetch on a freshly opened reader -/
def fetch (b : Bytes) (q : Req) : Except Err Fetched := (getLogicalDataSt b q.vrPos q.lrshPos q.off q.len default).1

/-- `getLogicalData b p off len`: the fetch by itself -/
def getLogicalData (b : Bytes) (p : PosDesc) (off len : Int) : Except Err Fetched := fetch b ⟨p.vrPos, p.lrshPos, off, len⟩

/-- a history of fetches on ONE reader object, the state left by each fetch being the state the next one starts in -/
def runHist (b : Bytes) : RState → List Req → List (Except Err Fetched)
  | _, [] => []
  | st, q :: qs =>
    let (r, st') := getLogicalDataSt b q.vrPos q.lrshPos q.off q.len st
    r :: runHist b st' qs

end TD.C02
