/-
C02 — the position scan on encoded files (`positions_encode`).
-/
import TD.C02.Lemmas

namespace TD.C02
open TD.C01

/-- first flags exactly at record starts -/
def seqOK : Bool → List TSeg → Prop
  | _, [] => True
  | nf, s :: ss => s.first = nf ∧ seqOK s.last ss

def PosSpec.toDesc (c : PosSpec) : PosDesc := ⟨c.vrPos, c.lrshPos, c.attr, c.type, (c.ldLen : Int)⟩

def nextCur (cur : Option PosSpec) (vr : VR) (h : LRSH) (s : TSeg) : PosSpec :=
  match cur with
  | some c => ⟨c.vrPos, c.lrshPos, c.attr, c.type, c.ldLen + (s.d.n + s.d.padBytes.length)⟩
  | none => ⟨vr.pos, h.pos, attrByte s.eflr s.first s.last s.d, s.type, 0 + (s.d.n + s.d.padBytes.length)⟩

theorem collectPos_cons (s : TSeg) (vr : VR) (h : LRSH) (rest : List (TSeg × SegPos)) (cur : Option PosSpec) :
    collectPos ((s, ⟨vr.pos, vr.len, h.pos⟩) :: rest) cur =
      if s.last then nextCur cur vr h s :: collectPos rest none else collectPos rest (some (nextCur cur vr h s)) := by
  cases cur <;> rfl

def stRel (st : ScanSt) (cur : Option PosSpec) : Prop :=
  match cur with
  | none => st = ⟨true, none, 0⟩
  | some c => ∃ vf hf, st = ⟨false, some (vf, hf), (c.ldLen : Int)⟩ ∧ vf.pos = c.vrPos ∧ hf.pos = c.lrshPos ∧
      hf.attr = c.attr ∧ hf.type = c.type ∧ lrPosCheck vf hf = .ok ()

theorem posStep_enc {b : Bytes} {h : LRSH} {s : TSeg} {tail : Bytes} {vr : VR} {r : Nat} {st : ScanSt}
    {cur : Option PosSpec} (A : AtSeg b h s tail) (I : Inv vr h r) (h16 : 16 ≤ s.d.segLen)
    (hfirst : s.first = st.prevLast) (R : stRel st cur) :
    ∃ st', posStep st vr h = .ok (st', if s.last then some (nextCur cur vr h s).toDesc else none) ∧
      st'.prevLast = s.last ∧ stRel st' (if s.last then none else some (nextCur cur vr h s)) := by
  have hpc := lrPosCheck_ok vr h r I.p1 I.p2 I.p3 I.p4 I.p5 (by rw [A.len]; exact h16)
  unfold posStep
  rw [isFirst_enc A.attr, isLast_enc A.attr, dataLen_enc A]
  cases cur with
  | none =>
    simp only [stRel] at R
    subst R
    simp only [] at hfirst
    simp only [hfirst, Bool.not_true, Bool.and_false, Bool.false_eq_true, if_false, if_true, hpc]
    cases hl : s.last
    · refine ⟨⟨false, some (vr, h), (0 : Int) + ((s.d.n + s.d.padBytes.length : Nat) : Int)⟩, rfl, rfl, ?_⟩
      simp only [Bool.false_eq_true, if_false, stRel, nextCur]
      exact ⟨vr, h, by simp, rfl, rfl, A.attr.trans (by rw [hfirst, hl]), A.type, hpc⟩
    · refine ⟨⟨true, none, 0⟩, ?_, rfl, by simp [stRel]⟩
      simp only [if_true, PosSpec.toDesc, nextCur, A.attr, A.type, hfirst, hl]
      simp
  | some c =>
    obtain ⟨vf, hf, rfl, h1, h2, h3, h4, h5⟩ := R
    simp only [] at hfirst
    simp only [hfirst, Bool.false_and, Bool.false_eq_true, if_false, h5]
    cases hl : s.last
    · refine ⟨⟨false, some (vf, hf), (c.ldLen : Int) + ((s.d.n + s.d.padBytes.length : Nat) : Int)⟩, rfl, rfl, ?_⟩
      simp only [Bool.false_eq_true, if_false, stRel, nextCur]
      exact ⟨vf, hf, by simp, h1, h2, h3, h4, h5⟩
    · refine ⟨⟨true, none, 0⟩, ?_, rfl, by simp [stRel]⟩
      simp only [if_true, PosSpec.toDesc, nextCur, h1, h2, h3, h4]
      simp

theorem drop_nil_of_le (b : Bytes) (p q : Nat) (h : b.drop p = []) (hq : p ≤ q) : b.drop q = [] := by
  rw [List.drop_eq_nil_iff] at h ⊢; omega

theorem readVR_of_seekNext {b : Bytes} {vr vr' : VR} {h h' : LRSH} (hc : h.nextPos = vr.nextPos)
    (hs : seekNext b vr h = .ok (vr', h')) : readVR b vr.nextPos = .ok vr' := by
  unfold seekNext at hs
  rw [if_pos hc] at hs
  rw [← hc]
  cases hx : readVR b h.nextPos with
  | error e => rw [hx] at hs; simp at hs
  | ok v =>
    rw [hx] at hs
    simp only [] at hs
    cases hy : readLRSH b (h.nextPos + 4) with
    | error e => rw [hy] at hs; simp at hs
    | ok hh => rw [hy] at hs; simp only [Except.ok.injEq, Prod.mk.injEq] at hs; rw [hs.1]

theorem scanGo_flat (b : Bytes) :
    ∀ (ss : List TSeg) (s : TSeg) (fuel : Nat) (vr : VR) (h : LRSH) (st : ScanSt) (cur : Option PosSpec) (r : Nat),
      ss.length + 1 < fuel → readLRSH b h.pos = .ok h → AtSeg b h s (ss.flatMap TSeg.bytes) → Inv vr h r →
      16 ≤ s.d.segLen → segsWF r s.last ss → seqOK st.prevLast (s :: ss) → stRel st cur →
      scanGo b fuel vr h.pos st =
        ((collectPos ((s, ⟨vr.pos, vr.len, h.pos⟩) :: ss.zip (segTable (h.pos + s.d.segLen) vr.pos vr.len ss)) cur).map
          PosSpec.toDesc, none) := by
  intro ss
  induction ss with
  | nil =>
    intro s fuel vr h st cur r hfuel hrd A I h16 _ hseq R
    obtain ⟨f, rfl⟩ : ∃ f, fuel = f + 2 := ⟨fuel - 2, by simp at hfuel; omega⟩
    obtain ⟨st', hps, _, _⟩ := posStep_enc A I h16 hseq.1 R
    have hd : b.drop h.nextPos = [] := by simpa using drop_next A
    have hd2 : b.drop vr.nextPos = [] := by
      apply drop_nil_of_le b _ _ hd
      unfold LRSH.nextPos VR.nextPos; have := I.p5; omega
    have hnv : nextVR b vr = .ok none := by unfold nextVR; rw [readVR_nil b _ hd2]
    rw [collectPos_cons]
    unfold scanGo
    simp only [hrd, hps, hnv]
    by_cases hc : h.nextPos = vr.nextPos
    · simp only [hc, if_true, List.zip_nil_right, collectPos]
      cases s.last <;> simp [collectPos]
    · simp only [hc, if_false]
      unfold scanGo
      simp only [readLRSH_nil b _ hd, hnv, List.zip_nil_right, collectPos]
      cases s.last <;> simp [collectPos]
  | cons s' ss ih =>
    intro s fuel vr h st cur r hfuel hrd A I h16 W hseq R
    obtain ⟨f, rfl⟩ : ∃ f, fuel = f + 1 := ⟨fuel - 1, by omega⟩
    rw [List.flatMap_cons] at A
    obtain ⟨st', hps, hpl, R'⟩ := posStep_enc A I h16 hseq.1 R
    obtain ⟨vr', h', r', hs, A', I', h16', _, W', hvp, hhop⟩ := seekNext_cons A I W
    obtain ⟨h'', hrd'', hpos'', A''⟩ := atSeg_of_drop b h'.pos s' _ A'.drop A'.dlen
    have I'' : Inv vr' h'' r' := by
      have := A'.len; have := A''.len
      exact ⟨I'.p1, by rw [hpos'']; exact I'.p2, I'.p3, I'.p4, by rw [hpos'']; have := I'.p5; omega⟩
    have hrd3 : readLRSH b h''.pos = .ok h'' := by rw [hpos'']; exact hrd''
    have hfu : ss.length + 1 < f := by simp at hfuel; omega
    have hseq' : seqOK st'.prevLast (s' :: ss) := by rw [hpl]; exact hseq.2
    have hnp : h.nextPos = h.pos + s.d.segLen := by unfold LRSH.nextPos; rw [A.len]
    have key := ih s' f vr' h'' st' (if s.last then none else some (nextCur cur vr h s)) r' hfu hrd3 A'' I'' h16' W' hseq' R'
    rw [collectPos_cons]
    unfold scanGo
    simp only [hrd, hps]
    cases hv : s'.d.vr with
    | some L =>
      rw [hv] at hvp hhop
      simp only [Prod.mk.injEq] at hvp
      have hc : h.nextPos = vr.nextPos := hhop.mpr rfl
      have hnv : nextVR b vr = .ok (some (vr', vr'.pos + 4)) := by
        unfold nextVR; rw [readVR_of_seekNext hc hs]
      have hp4 : vr'.pos + 4 = h''.pos := by rw [hpos'', hvp.2, hvp.1]
      have e1 : h.pos + s.d.segLen = vr'.pos := by rw [hvp.1, hnp]
      have e2 : L = vr'.len := by rw [hvp.1]
      have e3 : h.pos + s.d.segLen + 4 = h''.pos := by rw [hpos'', hvp.2, hnp]
      simp only [hc, if_true, hnv]
      simp only [hp4, key, segTable, hv, List.zip_cons_cons, e1, e2, e3]
      cases s.last <;> simp [collectPos]
    | none =>
      rw [hv] at hvp hhop
      simp only [Prod.mk.injEq] at hvp
      have hc : ¬ h.nextPos = vr.nextPos := by intro hc; simpa using hhop.mp hc
      have hp4 : h.nextPos = h''.pos := by rw [hpos'', hvp.2]
      have e3 : h.pos + s.d.segLen = h''.pos := by rw [hpos'', hvp.2, hnp]
      rw [hvp.1] at key
      simp only [hc, if_false]
      simp only [hp4, key, segTable, hv, List.zip_cons_cons, e3]
      cases s.last <;> simp [collectPos]

theorem seqOK_cutRec (rc : LR) (rest : List TSeg) (hrest : seqOK true rest) :
    ∀ (ds : List SegDesc) (f : Bool) (data : Bytes), ds ≠ [] → seqOK f (cutRec rc f ds data ++ rest) := by
  intro ds
  induction ds with
  | nil => intro f data h; exact absurd rfl h
  | cons d ds' ih =>
    intro f data _
    cases ds' with
    | nil => exact ⟨rfl, by simpa [cutRec] using hrest⟩
    | cons d2 ds'' => exact ⟨rfl, ih false (data.drop d.n) (by simp)⟩

theorem seqOK_cutAll : ∀ (recs : List LR) (dss : List (List SegDesc)), recsOK recs dss = true →
    seqOK true (cutAll recs dss) := by
  intro recs
  induction recs with
  | nil => intro dss _; cases dss <;> simp [cutAll, seqOK]
  | cons rc rs ih =>
    intro dss h
    cases dss with
    | nil => simp [recsOK] at h
    | cons ds dss =>
      simp only [recsOK, recOK, Bool.and_eq_true, Bool.not_eq_true'] at h
      obtain ⟨⟨⟨⟨⟨hne, _⟩, _⟩, _⟩, _⟩, hrest⟩ := h
      have hne' : ds ≠ [] := by intro h0; simp [h0] at hne
      exact seqOK_cutRec rc _ (ih dss hrest) ds true rc.payload hne'

theorem iterPositionsSt_flat (sul : SULW) (segs : List TSeg) (hs : sul.conformant = true) (hne : segs ≠ [])
    (W : segsWF 0 true segs) (Q : seqOK true segs) :
    iterPositionsSt (encodeSUL sul ++ segs.flatMap TSeg.bytes)
      = ((collectPos (segs.zip (segTable 80 0 0 segs)) none).map PosSpec.toDesc, none) := by
  have hlen := encodeSUL_length sul hs
  cases segs with
  | nil => exact absurd rfl hne
  | cons s ss =>
    obtain ⟨hn, h16, hf, hm⟩ := W
    cases hv : s.d.vr with
    | none => rw [hv] at hm; exact absurd rfl hm.1
    | some L =>
      rw [hv] at hm
      obtain ⟨_, hL1, hL2, hL3, hW⟩ := hm
      generalize hb : encodeSUL sul ++ (s :: ss).flatMap TSeg.bytes = b
      have ht : b.take 80 = encodeSUL sul := by rw [← hb]; exact List.take_left' hlen
      have hd80 : b.drop 80 = vrHeader (some L) ++ (s.lrsBytes ++ ss.flatMap TSeg.bytes) := by
        rw [← hb, List.drop_left' hlen, List.flatMap_cons, TSeg.bytes, hv, List.append_assoc]
      have hd84 : b.drop 84 = s.lrsBytes ++ ss.flatMap TSeg.bytes := by
        rw [show (84 : Nat) = 80 + 4 from rfl, drop_add', hd80]; exact List.drop_left' rfl
      obtain ⟨h, hh, hpos, A⟩ := atSeg_of_drop b 84 s _ hd84 hn
      have hfirst : h.isFirst = true := by rw [isFirst_enc A.attr]; exact hf rfl
      have I : Inv ⟨80, L⟩ h (L - (4 + s.d.segLen)) := by
        have := A.len
        constructor <;> simp only [hpos] <;> omega
      have hfuel : ss.length + 1 < b.length + 3 := by
        have := length_le_flatMap_bytes ss
        rw [← hb]; simp only [List.length_append, List.flatMap_cons]; omega
      have key := scanGo_flat b ss s (b.length + 3) ⟨80, L⟩ h ⟨true, none, 0⟩ none _ hfuel (by rw [hpos]; exact hh) A I
        h16 hW Q rfl
      unfold iterPositionsSt
      rw [ht, sulParse_enc sul hs]
      simp only [readVR_enc b 80 L _ hL1 hL2 hd80, hh, hfirst, Bool.not_true, Bool.false_eq_true, if_false]
      rw [hpos] at key
      rw [key]
      simp only [segTable, hv, List.zip_cons_cons]

theorem iterPositionsSt_encode (sul : SULW) (recs : List LR) (ℓ : Layout) (hs : sul.conformant = true) (hne : recs ≠ [])
    (hc : ℓ.conformant recs = true) :
    iterPositionsSt (encode sul recs ℓ) = ((specPositionsS recs ℓ).map PosSpec.toDesc, none) := by
  unfold Layout.conformant at hc
  simp only [Bool.and_eq_true] at hc
  have hcut : cutAll recs ℓ.recs ≠ [] := by
    intro h0
    have := collect_cutAll recs ℓ.recs hc.1
    rw [h0] at this
    exact hne (by simpa [collect] using this.symm)
  unfold encode specPositionsS flatWithPos
  exact iterPositionsSt_flat sul _ hs hcut (segsWF_cutAll recs ℓ.recs 0 hc.1 hc.2) (seqOK_cutAll recs ℓ.recs hc.1)

/-! ### entry k of the specification list is `recEntry` of record k -/

theorem segTable_append : ∀ (A B : List TSeg) (pos vp vl : Nat),
    segTable pos vp vl (A ++ B) = segTable pos vp vl A ++
      segTable (walkEnd pos vp vl A).1 (walkEnd pos vp vl A).2.1 (walkEnd pos vp vl A).2.2 B := by
  intro A
  induction A with
  | nil => intro B pos vp vl; rfl
  | cons x xs ih =>
    intro B pos vp vl
    simp only [List.cons_append, segTable, walkEnd]
    cases x.d.vr with
    | some L => simp only [ih, List.cons_append]
    | none => simp only [ih, List.cons_append]

theorem segTable_length : ∀ (A : List TSeg) (pos vp vl : Nat), (segTable pos vp vl A).length = A.length := by
  intro A
  induction A with
  | nil => intro pos vp vl; rfl
  | cons x xs ih =>
    intro pos vp vl
    simp only [segTable]
    cases x.d.vr <;> simp [ih]

theorem cutRec_length (r : LR) : ∀ (ds : List SegDesc) (f : Bool) (data : Bytes), (cutRec r f ds data).length = ds.length := by
  intro ds
  induction ds with
  | nil => intro f data; rfl
  | cons d ds ih => intro f data; simp [cutRec, ih]

theorem collectPos_none_cons (s : TSeg) (t : SegPos) (X : List (TSeg × SegPos)) :
    collectPos ((s, t) :: X) none =
      collectPos ((s, t) :: X) (some ⟨t.vrPos, t.lrshPos, attrByte s.eflr s.first s.last s.d, s.type, 0⟩) := by
  simp only [collectPos]

theorem collectPos_cutRec (r : LR) (Y : List (TSeg × SegPos)) :
    ∀ (ds : List SegDesc) (f : Bool) (data : Bytes) (tbl : List SegPos) (c : PosSpec), ds ≠ [] →
      tbl.length = ds.length →
      collectPos ((cutRec r f ds data).zip tbl ++ Y) (some c) =
        ⟨c.vrPos, c.lrshPos, c.attr, c.type, c.ldLen + (ds.map (fun d => d.n + d.padBytes.length)).sum⟩ ::
          collectPos Y none := by
  intro ds
  induction ds with
  | nil => intro f data tbl c h; exact absurd rfl h
  | cons d ds' ih =>
    intro f data tbl c _ hl
    cases tbl with
    | nil => simp at hl
    | cons t tbl' =>
      cases ds' with
      | nil =>
        have : tbl' = [] := by simpa using hl
        subst this
        simp [cutRec, collectPos]
      | cons d2 ds'' =>
        have hc : cutRec r f (d :: d2 :: ds'') data = ⟨r.eflr, r.type, f, false, d, data.take d.n⟩ ::
            cutRec r false (d2 :: ds'') (data.drop d.n) := rfl
        rw [hc, List.zip_cons_cons, List.cons_append]
        simp only [collectPos, Bool.false_eq_true, if_false]
        rw [ih false (data.drop d.n) tbl' _ (by simp) (by simpa using hl)]
        simp only [List.map_cons, List.sum_cons, Nat.add_assoc]

theorem collectPos_cutAll : ∀ (recs : List LR) (dss : List (List SegDesc)) (tbl : List SegPos) (Y : List (TSeg × SegPos)),
    recsOK recs dss = true → tbl.length = (cutAll recs dss).length →
    ∃ E, E.length = recs.length ∧ collectPos ((cutAll recs dss).zip tbl ++ Y) none = E ++ collectPos Y none := by
  intro recs
  induction recs with
  | nil => intro dss tbl Y _ _; cases dss <;> exact ⟨[], rfl, by simp [cutAll]⟩
  | cons rc rs ih =>
    intro dss tbl Y h hl
    cases dss with
    | nil => simp [recsOK] at h
    | cons ds dss =>
      simp only [recsOK, recOK, Bool.and_eq_true, Bool.not_eq_true'] at h
      obtain ⟨⟨⟨⟨⟨hne, _⟩, _⟩, _⟩, _⟩, hrest⟩ := h
      have hne' : ds ≠ [] := by intro h0; simp [h0] at hne
      simp only [cutAll, List.length_append, cutRec_length] at hl
      have hsplit : tbl = tbl.take ds.length ++ tbl.drop ds.length := (List.take_append_drop _ _).symm
      have hl1 : (tbl.take ds.length).length = ds.length := by simp; omega
      have hl2 : (tbl.drop ds.length).length = (cutAll rs dss).length := by simp; omega
      obtain ⟨E, hE, hEq⟩ := ih dss (tbl.drop ds.length) Y hrest hl2
      simp only [cutAll]
      rw [hsplit, List.zip_append (l₁ := cutRec rc true ds rc.payload) (l₂ := tbl.take ds.length)
        (by rw [cutRec_length, hl1]), List.append_assoc]
      cases hds : ds with
      | nil => exact absurd hds hne'
      | cons d ds' =>
        cases htk : tbl.take (d :: ds').length with
        | nil => rw [hds, htk] at hl1; simp at hl1
        | cons t tk =>
          have hc : cutRec rc true (d :: ds') rc.payload = ⟨rc.eflr, rc.type, true, ds'.isEmpty, d, rc.payload.take d.n⟩ ::
              cutRec rc false ds' (rc.payload.drop d.n) := rfl
          have := collectPos_cutRec rc ((cutAll rs dss).zip (tbl.drop (d :: ds').length) ++ Y) (d :: ds') true rc.payload
            (t :: tk) ⟨t.vrPos, t.lrshPos, attrByte rc.eflr true ds'.isEmpty d, rc.type, 0⟩ (by simp)
            (by rw [← htk, ← hds]; exact hl1)
          rw [hc, List.zip_cons_cons, List.cons_append] at this ⊢
          rw [collectPos_none_cons, this]
          rw [hds] at hEq
          exact ⟨_ :: E, by simp [hE], by rw [hEq]; rfl⟩

theorem recsOK_append : ∀ (rpre : List LR) (lpre : List (List SegDesc)) (X : List LR) (Y : List (List SegDesc)),
    lpre.length = rpre.length → recsOK (rpre ++ X) (lpre ++ Y) = true → recsOK rpre lpre = true ∧ recsOK X Y = true := by
  intro rpre
  induction rpre with
  | nil => intro lpre X Y hl h; cases lpre with
    | nil => exact ⟨rfl, h⟩
    | cons _ _ => simp at hl
  | cons x xs ih =>
    intro lpre X Y hl h
    cases lpre with
    | nil => simp at hl
    | cons l ls =>
      simp only [List.cons_append, recsOK, Bool.and_eq_true] at h ⊢
      obtain ⟨h1, h2⟩ := ih ls X Y (by simpa using hl) h.2
      exact ⟨⟨h.1, h1⟩, h2⟩

theorem positions_entry_flat (rpre rpost : List LR) (r : LR) (lpre lpost : List (List SegDesc)) (d : SegDesc)
    (ds : List SegDesc) (hlen : lpre.length = rpre.length)
    (hc : recsOK (rpre ++ r :: rpost) (lpre ++ (d :: ds) :: lpost) = true) :
    (specPositionsS (rpre ++ r :: rpost) ⟨lpre ++ (d :: ds) :: lpost⟩)[rpre.length]? =
      some ⟨(recEntry rpre lpre d).1, (recEntry rpre lpre d).2, attrByte r.eflr true ds.isEmpty d, r.type,
        0 + ((d :: ds).map (fun x => x.n + x.padBytes.length)).sum⟩ := by
  obtain ⟨hP, _⟩ := recsOK_append rpre lpre _ _ hlen hc
  unfold specPositionsS flatWithPos
  simp only []
  rw [cutAll_append rpre lpre r (d :: ds) rpost lpost hlen, segTable_append]
  generalize hw : walkEnd 80 0 0 (cutAll rpre lpre) = w
  rw [List.zip_append (l₁ := cutAll rpre lpre) (l₂ := segTable 80 0 0 (cutAll rpre lpre)) (by rw [segTable_length])]
  obtain ⟨E, hE, hEq⟩ := collectPos_cutAll rpre lpre (segTable 80 0 0 (cutAll rpre lpre))
    ((cutRec r true (d :: ds) r.payload ++ cutAll rpost lpost).zip
      (segTable w.1 w.2.1 w.2.2 (cutRec r true (d :: ds) r.payload ++ cutAll rpost lpost))) hP (by rw [segTable_length])
  rw [hEq, List.getElem?_append_right (by omega), hE, Nat.sub_self]
  -- the record's own segments
  rw [segTable_append]
  rw [List.zip_append (l₁ := cutRec r true (d :: ds) r.payload)
    (l₂ := segTable w.1 w.2.1 w.2.2 (cutRec r true (d :: ds) r.payload)) (by rw [segTable_length])]
  have hc0 : cutRec r true (d :: ds) r.payload = ⟨r.eflr, r.type, true, ds.isEmpty, d, r.payload.take d.n⟩ ::
      cutRec r false ds (r.payload.drop d.n) := rfl
  generalize hY : (cutAll rpost lpost).zip _ = Y
  have hent : recEntry rpre lpre d = (match d.vr with
      | some _ => (w.1, w.1 + 4)
      | none => (w.2.1, w.1)) := by
    unfold recEntry entryAfter; rw [hw]; rfl
  cases hv : d.vr with
  | some L =>
    rw [hv] at hent
    have htab : segTable w.1 w.2.1 w.2.2 (cutRec r true (d :: ds) r.payload) =
        ⟨w.1, L, w.1 + 4⟩ :: segTable (w.1 + 4 + d.segLen) w.1 L (cutRec r false ds (r.payload.drop d.n)) := by
      rw [hc0]; simp only [segTable, hv]
    have := collectPos_cutRec r Y (d :: ds) true r.payload
      (⟨w.1, L, w.1 + 4⟩ :: segTable (w.1 + 4 + d.segLen) w.1 L (cutRec r false ds (r.payload.drop d.n)))
      ⟨w.1, w.1 + 4, attrByte r.eflr true ds.isEmpty d, r.type, 0⟩ (by simp)
      (by simp [segTable_length, cutRec_length])
    rw [htab]
    rw [hc0, List.zip_cons_cons, List.cons_append] at this ⊢
    rw [collectPos_none_cons, this, hent]
    rfl
  | none =>
    rw [hv] at hent
    have htab : segTable w.1 w.2.1 w.2.2 (cutRec r true (d :: ds) r.payload) =
        ⟨w.2.1, w.2.2, w.1⟩ :: segTable (w.1 + d.segLen) w.2.1 w.2.2 (cutRec r false ds (r.payload.drop d.n)) := by
      rw [hc0]; simp only [segTable, hv]
    have := collectPos_cutRec r Y (d :: ds) true r.payload
      (⟨w.2.1, w.2.2, w.1⟩ :: segTable (w.1 + d.segLen) w.2.1 w.2.2 (cutRec r false ds (r.payload.drop d.n)))
      ⟨w.2.1, w.1, attrByte r.eflr true ds.isEmpty d, r.type, 0⟩ (by simp)
      (by simp [segTable_length, cutRec_length])
    rw [htab]
    rw [hc0, List.zip_cons_cons, List.cons_append] at this ⊢
    rw [collectPos_none_cons, this, hent]
    rfl

end TD.C02
