/-
C02 — helper lemmas: state independence of a fetch, the accumulate/slice loop over the flat segment list.
-/
import TD.C01.Lemmas
import TD.C02.Model
import TD.C02.Spec

namespace TD.C02
open TD.C01

/-! ### a fetch does not depend on the state the reader is in -/

theorem getLD_result_indep (b : Bytes) (vrPos lrshPos : Nat) (off len : Int) (st st' : RState) :
    (getLogicalDataSt b vrPos lrshPos off len st).1 = (getLogicalDataSt b vrPos lrshPos off len st').1 := by
  unfold getLogicalDataSt
  by_cases ho : off < 0
  · simp [ho]
  · simp only [ho, if_false]
    unfold vrRead
    simp only []
    cases hv : readVR b vrPos with
    | error e => rfl
    | ok vr =>
      simp only []
      unfold lrshRead
      simp only []
      cases hh : readLRSH b lrshPos with
      | error e => rfl
      | ok h => rfl

theorem runHist_eq (b : Bytes) : ∀ (hist : List Req) (st : RState), runHist b st hist = hist.map (fetch b) := by
  intro hist
  induction hist with
  | nil => intro st; rfl
  | cons q qs ih =>
    intro st
    simp only [runHist, List.map_cons, ih]
    congr 1
    exact getLD_result_indep b q.vrPos q.lrshPos q.off q.len st default

/-! ### the accumulate / slice loop -/

/-- one pass of the loop body for a segment whose stripped body is `data`; `rd` = the read it makes -/
def absRead (off len : Int) (all : Bool) (a : LoopSt) (data : Bytes) (rd : Nat × Nat) : LoopSt :=
  if all || (a.bytesRead : Int) ≠ len then
    if all then { a with out := a.out ++ data, touched := a.touched ++ [rd] }
    else
      let indexFrom : Int := max 0 (off - a.ldi)
      let indexTo : Int := if len ≥ 0 then indexFrom + (len - a.bytesRead) else data.length
      let sl := pySlice data indexFrom indexTo
      ⟨a.out ++ sl, a.bytesRead + sl.length, a.ldi + data.length, a.touched ++ [rd]⟩
  else a

/-- the loop over the flat segments of one record, positions tracked from the layout -/
def absLoop (off len : Int) (all : Bool) : VR → Nat → List TSeg → LoopSt → Option LoopSt
  | _, _, [], _ => none
  | vr, p, s :: ss, a =>
    let a' := absRead off len all a s.data (p + 4, s.d.n + s.d.padBytes.length)
    if s.last then some a'
    else
      let np := p + s.d.segLen
      match ss with
      | [] => none
      | s' :: _ =>
        match s'.d.vr with
        | some L => absLoop off len all ⟨np, L⟩ (np + 4) ss { a' with touched := a'.touched ++ [(np, 4), (np + 4, 4)] }
        | none => absLoop off len all vr np ss { a' with touched := a'.touched ++ [(np, 4)] }

theorem getLoop_step (b : Bytes) (off len : Int) (all : Bool) (f : Nat) (st : RState) (a : LoopSt) (data : Bytes)
    (hcur : st.cur = st.h.pos + 4) (hrf : readFull b st.vr st.h = .ok data) :
    (getLoop b off len all (f + 1) st a).1 =
      (let a' := absRead off len all a data (st.h.pos + 4, (rawBody b st.h).length)
       if st.h.isLast then .ok a'
       else match seekNext b st.vr st.h with
         | .ok (vr', h') => (getLoop b off len all f ⟨h'.pos + 4, vr', h'⟩ { a' with touched := a'.touched ++ hdrReads st }).1
         | .error e => .error e) := by
  conv => lhs; unfold getLoop
  unfold readFullSt
  simp only [hcur, ne_eq, not_true_eq_false, if_false, hrf]
  by_cases hc : (all || decide (¬ (a.bytesRead : Int) = len)) = true
  · simp only [hc, if_true]
    cases all
    · simp only [Bool.false_eq_true, if_false]
      unfold absRead
      simp only [ne_eq, hc, if_true, Bool.false_eq_true, if_false]
      cases hl : st.h.isLast
      · simp only [Bool.false_eq_true, if_false]
        unfold seekNextSt hdrReads
        simp only []
        cases seekNext b st.vr st.h with
        | error e => rfl
        | ok p => rfl
      · simp
    · simp only [if_true]
      unfold absRead
      simp only [ne_eq, hc, if_true]
      cases hl : st.h.isLast
      · simp only [Bool.false_eq_true, if_false]
        unfold seekNextSt hdrReads
        simp only []
        cases seekNext b st.vr st.h with
        | error e => rfl
        | ok p => rfl
      · simp
  · simp only [hc, Bool.false_eq_true, if_false]
    unfold absRead
    simp only [ne_eq, hc, Bool.false_eq_true, if_false]
    cases hl : st.h.isLast
    · simp only [Bool.false_eq_true, if_false]
      unfold seekNextSt hdrReads
      simp only []
      cases seekNext b st.vr st.h with
      | error e => rfl
      | ok p => rfl
    · simp

theorem rawBody_length_enc {b h s tail} (A : AtSeg b h s tail) : (rawBody b h).length = s.d.n + s.d.padBytes.length := by
  rw [rawBody_enc A]; simp [A.dlen]

theorem getLoop_flat (b : Bytes) (off len : Int) (all : Bool) :
    ∀ (ss : List TSeg) (s : TSeg) (fuel : Nat) (st : RState) (a : LoopSt) (r : Nat) (res : LoopSt),
      ss.length < fuel → AtSeg b st.h s (ss.flatMap TSeg.bytes) → Inv st.vr st.h r → st.cur = st.h.pos + 4 →
      segsWF r s.last ss → absLoop off len all st.vr st.h.pos (s :: ss) a = some res →
      (getLoop b off len all fuel st a).1 = .ok res := by
  intro ss
  induction ss with
  | nil =>
    intro s fuel st a r res hfuel A I hcur W habs
    obtain ⟨f, rfl⟩ : ∃ f, fuel = f + 1 := ⟨fuel - 1, by omega⟩
    rw [getLoop_step b off len all f st a s.data hcur (readFull_enc st.vr A), isLast_enc A.attr,
      rawBody_length_enc A]
    simp only [absLoop] at habs
    cases hl : s.last
    · simp [hl] at habs
    · simp only [hl, if_true, Option.some.injEq] at habs
      simp [habs]
  | cons s' ss ih =>
    intro s fuel st a r res hfuel A I hcur W habs
    obtain ⟨f, rfl⟩ : ∃ f, fuel = f + 1 := ⟨fuel - 1, by simp at hfuel; omega⟩
    rw [List.flatMap_cons] at A
    obtain ⟨vr', h', r', hs, A', I', h16', hf', W', hvp, hhop⟩ := seekNext_cons A I W
    have hfu : ss.length < f := by simp at hfuel; omega
    rw [getLoop_step b off len all f st a s.data hcur (readFull_enc st.vr A), isLast_enc A.attr,
      rawBody_length_enc A]
    simp only [absLoop] at habs
    cases hl : s.last
    · simp only [hl, Bool.false_eq_true, if_false] at habs ⊢
      simp only [hs]
      have hnp : st.h.nextPos = st.h.pos + s.d.segLen := by unfold LRSH.nextPos; rw [A.len]
      cases hv : s'.d.vr with
      | some L =>
        rw [hv] at habs hvp hhop
        simp only [Prod.mk.injEq] at hvp
        have hh : hdrReads st = [(st.h.pos + s.d.segLen, 4), (st.h.pos + s.d.segLen + 4, 4)] := by
          unfold hdrReads; rw [if_pos (hhop.mpr rfl), hnp]
        rw [hh]
        apply ih s' f ⟨h'.pos + 4, vr', h'⟩ _ r' res hfu A' I' rfl W'
        simp only [hvp.1, hvp.2, hnp]
        exact habs
      | none =>
        rw [hv] at habs hvp hhop
        simp only [Prod.mk.injEq] at hvp
        have hh : hdrReads st = [(st.h.pos + s.d.segLen, 4)] := by
          unfold hdrReads; rw [if_neg (by intro hc; simpa using hhop.mp hc), hnp]
        rw [hh]
        apply ih s' f ⟨h'.pos + 4, vr', h'⟩ _ r' res hfu A' I' rfl W'
        simp only [hvp.1, hvp.2, hnp]
        exact habs
    · simp only [hl, if_true, Option.some.injEq] at habs
      simp [habs]

/-! ### what the loop accumulates -/

/-- the payload bytes of the record that starts the list: data up to and including the first `last` segment -/
def recData : List TSeg → Bytes
  | [] => []
  | s :: ss => if s.last then s.data else s.data ++ recData ss

theorem pySlice_nonneg (l : Bytes) (i k : Nat) : pySlice l (i : Int) ((i : Int) + (k : Int)) = (l.drop i).take k := by
  unfold pySlice
  simp only []
  have h1 : ¬ ((i : Int) < 0) := by omega
  have h2 : ¬ ((i : Int) + (k : Int) < 0) := by omega
  simp only [h1, h2, if_false]
  by_cases hi : (i : Int) > (l.length : Int)
  · have hj : (i : Int) + (k : Int) > (l.length : Int) := by omega
    simp only [hi, hj, if_true]
    have : l.drop i = [] := List.drop_eq_nil_of_le (by omega)
    simp [this]
  · simp only [hi, if_false]
    by_cases hj : (i : Int) + (k : Int) > (l.length : Int)
    · simp only [hj, if_true, Int.toNat_natCast]
      rw [List.take_of_length_le (by simp <;> omega), List.take_of_length_le (by simp <;> omega)]
    · simp only [hj, if_false, Int.toNat_natCast]
      congr 1
      omega

theorem pySlice_to_end (l : Bytes) (i : Nat) : pySlice l (i : Int) (l.length : Int) = l.drop i := by
  unfold pySlice
  simp only []
  have h1 : ¬ ((i : Int) < 0) := by omega
  have h2 : ¬ ((l.length : Int) < 0) := by omega
  have h3 : ¬ ((l.length : Int) > (l.length : Int)) := by omega
  simp only [h1, h2, h3, if_false]
  by_cases hi : (i : Int) > (l.length : Int)
  · simp only [hi, if_true]
    have : l.drop i = [] := List.drop_eq_nil_of_le (by omega)
    simp [this]
  · simp only [hi, if_false, Int.toNat_natCast]
    rw [List.take_of_length_le (by simp <;> omega)]

/-- loop invariant after the segments whose data concatenate to `Q` -/
def InvL (off : Nat) (len : Int) (all : Bool) (Q : Bytes) (a : LoopSt) : Prop :=
  if all then a.out = Q
  else if len < 0 then a.out = Q.drop off ∧ a.ldi = Q.length
  else a.out = (Q.drop off).take len.toNat ∧ a.bytesRead = a.out.length ∧ (a.bytesRead = len.toNat ∨ a.ldi = Q.length)

theorem max0_sub (off q : Nat) : max (0 : Int) ((off : Int) - (q : Int)) = ((off - q : Nat) : Int) := by omega

theorem absRead_inv (off : Nat) (len : Int) (all : Bool) (Q : Bytes) (a : LoopSt) (data : Bytes) (rd : Nat × Nat)
    (h : InvL off len all Q a) : InvL off len all (Q ++ data) (absRead (off : Int) len all a data rd) := by
  unfold InvL at h ⊢
  unfold absRead
  cases all
  · simp only [Bool.false_eq_true, if_false, Bool.false_or, ne_eq, decide_eq_true_eq] at h ⊢
    by_cases hl : len < 0
    · simp only [hl, if_true] at h ⊢
      have hne : ¬ ((a.bytesRead : Int) = len) := by omega
      have hge : ¬ (len ≥ 0) := by omega
      simp only [hne, not_false_eq_true, if_true, hge, if_false, h.2, max0_sub, pySlice_to_end]
      refine ⟨?_, by simp⟩
      rw [h.1, List.drop_append]
    · simp only [hl, if_false] at h ⊢
      obtain ⟨ho, hb, hd⟩ := h
      obtain ⟨L, rfl⟩ : ∃ L : Nat, len = (L : Int) := ⟨len.toNat, by omega⟩
      simp only [Int.toNat_natCast] at ho hd ⊢
      by_cases hne : (a.bytesRead : Int) = (L : Int)
      · simp only [hne, not_true_eq_false, if_false]
        have hbl : a.bytesRead = L := by omega
        refine ⟨?_, hb, Or.inl hbl⟩
        have hlen : L ≤ (Q.drop off).length := by
          have : a.out.length = L := by omega
          rw [ho, List.length_take] at this; omega
        rw [ho, List.drop_append, List.take_append_of_le_length hlen]
      · simp only [hne, not_false_eq_true, if_true]
        have hq : a.ldi = Q.length := by
          rcases hd with hd | hd
          · omega
          · exact hd
        have hge : (L : Int) ≥ 0 := by omega
        simp only [hge, if_true, hq, max0_sub]
        have hk : (L : Int) - (a.bytesRead : Int) = ((L - a.bytesRead : Nat) : Int) := by
          have : a.bytesRead ≤ L := by rw [hb, ho, List.length_take]; omega
          omega
        rw [hk, pySlice_nonneg]
        refine ⟨?_, by simp [hb], Or.inr (by simp)⟩
        rw [ho, List.drop_append, List.take_append, hb, ho]
        congr 2
        rw [List.length_take]
        omega
  · simp only [if_true, Bool.true_or] at h ⊢
    rw [h]

theorem absLoop_inv (off : Nat) (len : Int) (all : Bool) :
    ∀ (segs : List TSeg) (vr : VR) (p : Nat) (a res : LoopSt) (Q : Bytes), InvL off len all Q a →
      absLoop (off : Int) len all vr p segs a = some res → InvL off len all (Q ++ recData segs) res := by
  intro segs
  induction segs with
  | nil => intro vr p a res Q _ h; simp [absLoop] at h
  | cons s ss ih =>
    intro vr p a res Q hI h
    have h1 := absRead_inv off len all Q a s.data (p + 4, s.d.n + s.d.padBytes.length) hI
    simp only [absLoop] at h
    cases hl : s.last
    · simp only [hl, Bool.false_eq_true, if_false] at h
      simp only [recData, hl, Bool.false_eq_true, if_false, ← List.append_assoc]
      cases ss with
      | nil => simp at h
      | cons s' ss' =>
        simp only [] at h
        have hI' : ∀ t, InvL off len all (Q ++ s.data)
            { absRead (off : Int) len all a s.data (p + 4, s.d.n + s.d.padBytes.length) with touched := t } := by
          intro t; unfold InvL at h1 ⊢; exact h1
        cases hv : s'.d.vr with
        | some L => rw [hv] at h; exact ih _ _ _ _ _ (hI' _) h
        | none => rw [hv] at h; exact ih _ _ _ _ _ (hI' _) h
    · simp only [hl, if_true, Option.some.injEq] at h
      simp only [recData, hl, if_true]
      rw [← h]; exact h1

theorem absLoop_out (off : Nat) (len : Int) (segs : List TSeg) (vr : VR) (p : Nat) (t0 : List (Nat × Nat)) (res : LoopSt)
    (h : absLoop (off : Int) len ((off : Int) == 0 && decide (len < 0)) vr p segs ⟨[], 0, 0, t0⟩ = some res) :
    res.out = sliceSpec (recData segs) off len := by
  have hI : InvL off len ((off : Int) == 0 && decide (len < 0)) [] ⟨[], 0, 0, t0⟩ := by
    unfold InvL; simp
  have := absLoop_inv off len _ segs vr p _ res [] hI h
  unfold InvL at this
  unfold sliceSpec
  simp only [List.nil_append] at this
  by_cases hall : ((off : Int) == 0 && decide (len < 0)) = true
  · simp only [hall, if_true] at this
    simp only [Bool.and_eq_true, beq_iff_eq, decide_eq_true_eq] at hall
    have : off = 0 := by omega
    simp [*]
  · simp only [hall, Bool.false_eq_true, if_false] at this
    by_cases hl : len < 0
    · simp only [hl, if_true] at this ⊢; exact this.1
    · simp only [hl, if_false] at this ⊢; exact this.1

/-! ### navigating to a segment of an encoded file -/

structure Walk (b : Bytes) (pos vp vl r : Nat) (segs : List TSeg) (nf : Bool) : Prop where
  drop : b.drop pos = segs.flatMap TSeg.bytes
  wf : segsWF r nf segs
  vrIn : r ≠ 0 → readVR b vp = .ok ⟨vp, vl⟩ ∧ vp + vl = pos + r ∧ 80 ≤ vp ∧ vp + 4 ≤ pos ∧ 20 ≤ vl ∧ vl ≤ 16384
  pos80 : 80 ≤ pos

theorem bytes_length (s : TSeg) (hn : s.data.length = s.d.n) :
    s.bytes.length = (match s.d.vr with | some _ => 4 | none => 0) + s.d.segLen := by
  unfold TSeg.bytes
  rw [List.length_append, lrsBytes_length s hn]
  cases s.d.vr <;> rfl

theorem Walk.step {b pos vp vl r x rest nf} (w : Walk b pos vp vl r (x :: rest) nf) :
    ∃ r', Walk b (walkEnd pos vp vl [x]).1 (walkEnd pos vp vl [x]).2.1 (walkEnd pos vp vl [x]).2.2 r' rest x.last := by
  obtain ⟨hn, h16, hf, hm⟩ := w.wf
  have hd := w.drop
  rw [List.flatMap_cons] at hd
  have hbl := bytes_length x hn
  unfold walkEnd
  cases hv : x.d.vr with
  | some L =>
    rw [hv] at hm hbl
    obtain ⟨hr, hL1, hL2, hL3, hW⟩ := hm
    simp only [walkEnd]
    refine ⟨L - (4 + x.d.segLen), ?_, hW, ?_, by have := w.pos80; omega⟩
    · rw [show pos + 4 + x.d.segLen = pos + (4 + x.d.segLen) by omega, drop_add', hd]
      exact List.drop_left' hbl
    · intro _
      refine ⟨readVR_enc b pos L (x.lrsBytes ++ rest.flatMap TSeg.bytes) hL1 hL2 ?_, by omega, w.pos80, by omega, hL1, hL2⟩
      rw [hd, TSeg.bytes, hv, List.append_assoc]
  | none =>
    rw [hv] at hm hbl
    obtain ⟨hr, hle, hW⟩ := hm
    simp only [walkEnd]
    refine ⟨r - x.d.segLen, ?_, hW, ?_, by have := w.pos80; omega⟩
    · rw [drop_add', hd]
      exact List.drop_left' (by simpa using hbl)
    · intro _
      obtain ⟨h1, h2, h3, h4, h5, h6⟩ := w.vrIn hr
      exact ⟨h1, by omega, h3, by omega, h5, h6⟩

theorem walkEnd_cons (pos vp vl : Nat) (x : TSeg) (rest : List TSeg) :
    walkEnd pos vp vl (x :: rest) =
      walkEnd (walkEnd pos vp vl [x]).1 (walkEnd pos vp vl [x]).2.1 (walkEnd pos vp vl [x]).2.2 rest := by
  simp only [walkEnd]
  cases x.d.vr <;> rfl

theorem Walk.head {b pos vp vl r s post nf} (w : Walk b pos vp vl r (s :: post) nf) :
    let e : Nat × Nat × Nat := match s.d.vr with
      | some L => (pos, L, pos + 4)
      | none => (vp, vl, pos)
    readVR b e.1 = .ok ⟨e.1, e.2.1⟩ ∧ ∃ h r', readLRSH b e.2.2 = .ok h ∧ h.pos = e.2.2 ∧
      AtSeg b h s (post.flatMap TSeg.bytes) ∧ Inv ⟨e.1, e.2.1⟩ h r' ∧ 16 ≤ s.d.segLen ∧ segsWF r' s.last post := by
  obtain ⟨hn, h16, hf, hm⟩ := w.wf
  have hd := w.drop
  rw [List.flatMap_cons, TSeg.bytes] at hd
  cases hv : s.d.vr with
  | some L =>
    rw [hv] at hm hd
    obtain ⟨hr, hL1, hL2, hL3, hW⟩ := hm
    simp only []
    have hd4 : b.drop (pos + 4) = s.lrsBytes ++ post.flatMap TSeg.bytes := by
      rw [drop_add', hd, List.append_assoc]; exact List.drop_left' rfl
    obtain ⟨h, hh, hpos, A⟩ := atSeg_of_drop b _ s _ hd4 hn
    refine ⟨readVR_enc b pos L _ hL1 hL2 (by rw [hd, List.append_assoc]), h, L - (4 + s.d.segLen), hh, hpos, A, ?_, h16, hW⟩
    have := A.len; have := w.pos80
    constructor <;> simp only [hpos] <;> omega
  | none =>
    rw [hv] at hm hd
    obtain ⟨hr, hle, hW⟩ := hm
    simp only []
    obtain ⟨h1, h2, h3, h4, h5, h6⟩ := w.vrIn hr
    obtain ⟨h, hh, hpos, A⟩ := atSeg_of_drop b pos s _ (by simpa [vrHeader] using hd) hn
    refine ⟨h1, h, r - s.d.segLen, hh, hpos, A, ?_, h16, hW⟩
    have := A.len
    constructor <;> simp only [hpos] <;> omega

theorem Walk.nav {b s post} : ∀ (pre : List TSeg) (pos vp vl r : Nat) (nf : Bool),
    Walk b pos vp vl r (pre ++ s :: post) nf →
    ∃ r' nf', Walk b (walkEnd pos vp vl pre).1 (walkEnd pos vp vl pre).2.1 (walkEnd pos vp vl pre).2.2 r' (s :: post) nf' := by
  intro pre
  induction pre with
  | nil => intro pos vp vl r nf w; exact ⟨r, nf, w⟩
  | cons x pre ih =>
    intro pos vp vl r nf w
    obtain ⟨r1, w1⟩ := Walk.step w
    rw [walkEnd_cons]
    exact ih _ _ _ _ _ w1

theorem Walk.start (sul : SULW) (segs : List TSeg) (hs : sul.conformant = true) (W : segsWF 0 true segs) :
    Walk (encodeSUL sul ++ segs.flatMap TSeg.bytes) 80 0 0 0 segs true :=
  ⟨List.drop_left' (encodeSUL_length sul hs), W, fun h => absurd rfl h, Nat.le_refl _⟩

/-! ### the record's segments inside the flat list -/

theorem cutAll_append : ∀ (rpre : List LR) (lpre : List (List SegDesc)) (r : LR) (ds : List SegDesc)
    (rpost : List LR) (lpost : List (List SegDesc)), lpre.length = rpre.length →
    cutAll (rpre ++ r :: rpost) (lpre ++ ds :: lpost) = cutAll rpre lpre ++ (cutRec r true ds r.payload ++ cutAll rpost lpost) := by
  intro rpre
  induction rpre with
  | nil => intro lpre r ds rpost lpost h; cases lpre <;> simp_all [cutAll]
  | cons x xs ih =>
    intro lpre r ds rpost lpost h
    cases lpre with
    | nil => simp at h
    | cons l ls =>
      simp only [List.cons_append, cutAll, List.append_assoc]
      rw [ih ls r ds rpost lpost (by simpa using h)]

theorem recData_cutRec (r : LR) (post : List TSeg) : ∀ (ds : List SegDesc) (f : Bool) (data : Bytes), ds ≠ [] →
    recData (cutRec r f ds data ++ post) = data.take (ds.map (·.n)).sum := by
  intro ds
  induction ds with
  | nil => intro f data h; exact absurd rfl h
  | cons d ds' ih =>
    intro f data _
    cases ds' with
    | nil => simp [cutRec, recData]
    | cons d2 ds'' =>
      have hc : cutRec r f (d :: d2 :: ds'') data = ⟨r.eflr, r.type, f, false, d, data.take d.n⟩ ::
          cutRec r false (d2 :: ds'') (data.drop d.n) := rfl
      rw [hc, List.cons_append]
      simp only [recData, Bool.false_eq_true, if_false]
      rw [ih false (data.drop d.n) (by simp)]
      simp only [List.map_cons, List.sum_cons]
      rw [List.take_add (i := d.n)]

theorem exists_last_cutRec (r : LR) : ∀ (ds : List SegDesc) (f : Bool) (data : Bytes), ds ≠ [] →
    ∃ s ∈ cutRec r f ds data, s.last = true := by
  intro ds
  induction ds with
  | nil => intro f data h; exact absurd rfl h
  | cons d ds' ih =>
    intro f data _
    cases ds' with
    | nil => exact ⟨⟨r.eflr, r.type, f, true, d, data.take d.n⟩, by simp [cutRec], rfl⟩
    | cons d2 ds'' =>
      obtain ⟨s, hs, hl⟩ := ih false (data.drop d.n) (by simp)
      exact ⟨s, by simp only [cutRec, List.mem_cons] at hs ⊢; right; exact hs, hl⟩

theorem absLoop_some (off len : Int) (all : Bool) : ∀ (segs : List TSeg), (∃ s ∈ segs, s.last = true) →
    ∀ (vr : VR) (p : Nat) (a : LoopSt), ∃ res, absLoop off len all vr p segs a = some res := by
  intro segs
  induction segs with
  | nil => intro h; obtain ⟨s, hs, _⟩ := h; simp at hs
  | cons s ss ih =>
    intro h vr p a
    simp only [absLoop]
    cases hl : s.last
    · simp only [Bool.false_eq_true, if_false]
      obtain ⟨x, hx, hxl⟩ := h
      have hx' : x ∈ ss := by
        rcases List.mem_cons.mp hx with rfl | h'
        · rw [hl] at hxl; exact absurd hxl (by simp)
        · exact h'
      cases ss with
      | nil => simp at hx'
      | cons s' ss' =>
        simp only []
        cases s'.d.vr with
        | some L => exact ih ⟨x, hx', hxl⟩ _ _ _
        | none => exact ih ⟨x, hx', hxl⟩ _ _ _
    · exact ⟨absRead off len all a s.data (p + 4, s.d.n + s.d.padBytes.length), by simp⟩

theorem recsOK_mid_sum : ∀ (rpre : List LR) (lpre : List (List SegDesc)) (r : LR) (ds : List SegDesc)
    (rpost : List LR) (lpost : List (List SegDesc)), lpre.length = rpre.length →
    recsOK (rpre ++ r :: rpost) (lpre ++ ds :: lpost) = true → (ds.map (·.n)).sum = r.payload.length := by
  intro rpre
  induction rpre with
  | nil =>
    intro lpre r ds rpost lpost hlen h
    cases lpre with
    | nil => simp only [List.nil_append, recsOK, recOK, Bool.and_eq_true, beq_iff_eq] at h; exact h.1.1.1.1.2
    | cons _ _ => simp at hlen
  | cons x xs ih =>
    intro lpre r ds rpost lpost hlen h
    cases lpre with
    | nil => simp at hlen
    | cons l ls =>
      simp only [List.cons_append, recsOK, Bool.and_eq_true] at h
      exact ih ls r ds rpost lpost (by simpa using hlen) h.2

/-! ### the reads of the loop stay inside the visible records of the record -/

theorem absRead_touched (off len : Int) (all : Bool) (a : LoopSt) (data : Bytes) (rd : Nat × Nat) :
    ∀ t ∈ (absRead off len all a data rd).touched, t ∈ a.touched ∨ t = rd := by
  intro t ht
  unfold absRead at ht
  split at ht
  · split at ht
    · simp only [List.mem_append, List.mem_singleton] at ht; exact ht
    · simp only [List.mem_append, List.mem_singleton] at ht; exact ht
  · exact Or.inl ht

theorem segLen_ge (d : SegDesc) : 4 + d.n + d.padBytes.length ≤ d.segLen := by
  unfold SegDesc.segLen; omega

theorem absLoop_touched (off len : Int) (all : Bool) :
    ∀ (ss : List TSeg) (s : TSeg) (vr : VR) (p : Nat) (a res : LoopSt) (r lo : Nat),
      vr.pos + 4 ≤ p → vr.pos + vr.len = p + s.d.segLen + r → segsWF r s.last ss → lo ≤ vr.pos →
      (∀ t ∈ a.touched, lo ≤ t.1 ∧ t.1 + t.2 ≤ vr.pos + vr.len) →
      absLoop off len all vr p (s :: ss) a = some res →
      ∀ t ∈ res.touched, lo ≤ t.1 ∧ t.1 + t.2 ≤ recEnd (vr.pos + vr.len) p (s :: ss) := by
  intro ss
  induction ss with
  | nil =>
    intro s vr p a res r lo h1 h2 W hlo ha habs t ht
    simp only [absLoop] at habs
    have hsl := segLen_ge s.d
    cases hl : s.last
    · simp [hl] at habs
    · simp only [hl, if_true, Option.some.injEq] at habs
      subst habs
      simp only [recEnd, hl, if_true]
      rcases absRead_touched _ _ _ _ _ _ t ht with h | h
      · exact ha t h
      · subst h; simp only []; omega
  | cons s' ss' ih =>
    intro s vr p a res r lo h1 h2 W hlo ha habs t ht
    simp only [absLoop] at habs
    have hsl := segLen_ge s.d
    have hrd : ∀ t ∈ (absRead off len all a s.data (p + 4, s.d.n + s.d.padBytes.length)).touched,
        lo ≤ t.1 ∧ t.1 + t.2 ≤ vr.pos + vr.len := by
      intro t ht
      rcases absRead_touched _ _ _ _ _ _ t ht with h | h
      · exact ha t h
      · subst h; simp only []; omega
    cases hl : s.last
    · simp only [hl, Bool.false_eq_true, if_false] at habs
      simp only [recEnd, hl, Bool.false_eq_true, if_false]
      obtain ⟨hn, h16, hf, hm⟩ := W
      cases hv : s'.d.vr with
      | some L =>
        rw [hv] at habs hm
        simp only [] at habs ⊢
        obtain ⟨hr, hL1, hL2, hL3, hW⟩ := hm
        refine ih s' ⟨p + s.d.segLen, L⟩ (p + s.d.segLen + 4) _ res (L - (4 + s'.d.segLen)) lo (by simp)
          (by simp only []; omega) hW (by simp only []; omega) ?_ habs t ht
        intro t ht
        simp only [List.mem_append, List.mem_cons, List.not_mem_nil, or_false] at ht
        rcases ht with h | h | h
        · have := hrd t h; simp only []; omega
        · subst h; simp only []; omega
        · subst h; simp only []; omega
      | none =>
        rw [hv] at habs hm
        simp only [] at habs ⊢
        obtain ⟨hr, hle, hW⟩ := hm
        refine ih s' vr (p + s.d.segLen) _ res (r - s'.d.segLen) lo (by omega) (by omega) hW hlo ?_ habs t ht
        intro t ht
        simp only [List.mem_append, List.mem_cons, List.not_mem_nil, or_false] at ht
        rcases ht with h | h
        · exact hrd t h
        · subst h; simp only []; omega
    · simp only [hl, if_true, Option.some.injEq] at habs
      subst habs
      simp only [recEnd, hl, if_true]
      exact hrd t ht

theorem touched_init (e1 e2 vl seg r' : Nat) (g1 : e1 + 4 ≤ e2) (g2 : e1 + vl = e2 + seg + r') (g3 : 16 ≤ seg)
    (g4 : 20 ≤ vl) :
    ∀ t ∈ [(e1, 4), (e2, 4)], e1 ≤ t.1 ∧ t.1 + t.2 ≤ (VR.mk e1 vl).pos + (VR.mk e1 vl).len := by
  intro t ht
  simp only [List.mem_cons, List.not_mem_nil, or_false] at ht
  rcases ht with h | h <;> subst h <;> dsimp only <;> omega

/-! ### a fetch on an encoded file -/

theorem fetch_flat (sul : SULW) (pre post : List TSeg) (s : TSeg) (hs : sul.conformant = true)
    (W : segsWF 0 true (pre ++ s :: post)) (hlast : ∃ x ∈ s :: post, x.last = true) (off : Nat) (len : Int) :
    ∃ res, absLoop (off : Int) len ((off : Int) == 0 && decide (len < 0)) ⟨(entryAfter pre s.d).1, entryVrLen pre s.d⟩
          (entryAfter pre s.d).2 (s :: post) ⟨[], 0, 0, [((entryAfter pre s.d).1, 4), ((entryAfter pre s.d).2, 4)]⟩ = some res ∧
      fetch (encodeSUL sul ++ (pre ++ s :: post).flatMap TSeg.bytes) ⟨(entryAfter pre s.d).1, (entryAfter pre s.d).2, off, len⟩
        = .ok ⟨res.out, res.touched⟩ ∧
      ∃ r', (entryAfter pre s.d).1 + 4 ≤ (entryAfter pre s.d).2 ∧
        (entryAfter pre s.d).1 + entryVrLen pre s.d = (entryAfter pre s.d).2 + s.d.segLen + r' ∧ 16 ≤ s.d.segLen ∧
        20 ≤ entryVrLen pre s.d ∧
        segsWF r' s.last post := by
  generalize hb : encodeSUL sul ++ (pre ++ s :: post).flatMap TSeg.bytes = b
  have w0 : Walk b 80 0 0 0 (pre ++ s :: post) true := hb ▸ Walk.start sul _ hs W
  obtain ⟨r1, nf1, w1⟩ := Walk.nav pre 80 0 0 0 true w0
  have hh := Walk.head w1
  -- the entry computed by the specification is the one the walk arrives at
  have he : (entryAfter pre s.d) = (match s.d.vr with
      | some _ => ((walkEnd 80 0 0 pre).1, (walkEnd 80 0 0 pre).1 + 4)
      | none => ((walkEnd 80 0 0 pre).2.1, (walkEnd 80 0 0 pre).1)) := rfl
  cases hv : s.d.vr with
  | some L =>
    rw [hv] at hh he
    simp only [] at hh he
    obtain ⟨hvr, h, r', hh', hpos, A, I, h16, W'⟩ := hh
    rw [he]
    simp only []
    obtain ⟨res, hres⟩ := absLoop_some (off : Int) len ((off : Int) == 0 && decide (len < 0)) (s :: post) hlast
      ⟨(walkEnd 80 0 0 pre).1, L⟩ ((walkEnd 80 0 0 pre).1 + 4)
      ⟨[], 0, 0, [((walkEnd 80 0 0 pre).1, 4), ((walkEnd 80 0 0 pre).1 + 4, 4)]⟩
    have hgeo : ∃ r', (walkEnd 80 0 0 pre).1 + 4 ≤ (walkEnd 80 0 0 pre).1 + 4 ∧
        (walkEnd 80 0 0 pre).1 + L = (walkEnd 80 0 0 pre).1 + 4 + s.d.segLen + r' ∧ 16 ≤ s.d.segLen ∧ 20 ≤ L ∧
        segsWF r' s.last post := by
      have h5 := I.p5; have h3 := I.p3; have hl := A.len
      simp only [hpos] at h5 h3
      exact ⟨r', Nat.le_refl _, by omega, h16, h3, W'⟩
    have hvl : entryVrLen pre s.d = L := by unfold entryVrLen; rw [hv]
    rw [hvl]
    refine ⟨res, hres, ?_, hgeo⟩
    have hfuel : post.length < b.length + 1 := by
      have h1 := length_le_flatMap_bytes post
      have h2 : (b.drop h.pos).length ≤ b.length := by simp
      rw [A.drop, List.length_append] at h2; omega
    have hpc := lrPosCheck_ok ⟨(walkEnd 80 0 0 pre).1, L⟩ h r' I.p1 I.p2 I.p3 I.p4 I.p5 (by rw [A.len]; exact h16)
    have hloop := getLoop_flat b (off : Int) len ((off : Int) == 0 && decide (len < 0)) post s (b.length + 1)
      ⟨(walkEnd 80 0 0 pre).1 + 4 + 4, ⟨(walkEnd 80 0 0 pre).1, L⟩, h⟩ _ r' res hfuel A I (by simp [hpos]) W'
      (by simpa [hpos] using hres)
    unfold fetch getLogicalDataSt vrRead lrshRead
    have hoff : ¬ ((off : Int) < 0) := by omega
    simp only [hoff, if_false, hvr, hh', hpc]
    revert hloop
    generalize getLoop b (off : Int) len ((off : Int) == 0 && decide (len < 0)) (b.length + 1) _ _ = g
    intro hloop
    obtain ⟨g1, g2⟩ := g
    simp only [] at hloop
    subst hloop
    rfl
  | none =>
    rw [hv] at hh he
    simp only [] at hh he
    obtain ⟨hvr, h, r', hh', hpos, A, I, h16, W'⟩ := hh
    rw [he]
    simp only []
    obtain ⟨res, hres⟩ := absLoop_some (off : Int) len ((off : Int) == 0 && decide (len < 0)) (s :: post) hlast
      ⟨(walkEnd 80 0 0 pre).2.1, (walkEnd 80 0 0 pre).2.2⟩ ((walkEnd 80 0 0 pre).1)
      ⟨[], 0, 0, [((walkEnd 80 0 0 pre).2.1, 4), ((walkEnd 80 0 0 pre).1, 4)]⟩
    have hgeo : ∃ r', (walkEnd 80 0 0 pre).2.1 + 4 ≤ (walkEnd 80 0 0 pre).1 ∧
        (walkEnd 80 0 0 pre).2.1 + (walkEnd 80 0 0 pre).2.2 = (walkEnd 80 0 0 pre).1 + s.d.segLen + r' ∧ 16 ≤ s.d.segLen ∧
        20 ≤ (walkEnd 80 0 0 pre).2.2 ∧ segsWF r' s.last post := by
      have h5 := I.p5; have h3 := I.p3; have h2 := I.p2; have hl := A.len
      simp only [hpos] at h5 h3 h2
      exact ⟨r', h2, by omega, h16, h3, W'⟩
    have hvl : entryVrLen pre s.d = (walkEnd 80 0 0 pre).2.2 := by unfold entryVrLen; rw [hv]
    rw [hvl]
    refine ⟨res, hres, ?_, hgeo⟩
    have hfuel : post.length < b.length + 1 := by
      have h1 := length_le_flatMap_bytes post
      have h2 : (b.drop h.pos).length ≤ b.length := by simp
      rw [A.drop, List.length_append] at h2; omega
    have hpc := lrPosCheck_ok ⟨(walkEnd 80 0 0 pre).2.1, (walkEnd 80 0 0 pre).2.2⟩ h r' I.p1 I.p2 I.p3 I.p4 I.p5
      (by rw [A.len]; exact h16)
    have hloop := getLoop_flat b (off : Int) len ((off : Int) == 0 && decide (len < 0)) post s (b.length + 1)
      ⟨(walkEnd 80 0 0 pre).1 + 4, ⟨(walkEnd 80 0 0 pre).2.1, (walkEnd 80 0 0 pre).2.2⟩, h⟩ _ r' res hfuel A I
      (by simp [hpos]) W' (by simpa [hpos] using hres)
    unfold fetch getLogicalDataSt vrRead lrshRead
    have hoff : ¬ ((off : Int) < 0) := by omega
    simp only [hoff, if_false, hvr, hh', hpc]
    revert hloop
    generalize getLoop b (off : Int) len ((off : Int) == 0 && decide (len < 0)) (b.length + 1) _ _ = g
    intro hloop
    obtain ⟨g1, g2⟩ := g
    simp only [] at hloop
    subst hloop
    rfl

end TD.C02
