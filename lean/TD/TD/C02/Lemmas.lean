/-
C02 — helper lemmas: state independence of a fetch, the accumulate/slice loop over the flat segment list.
-/
import TD.C01.Lemmas
import TD.C02.Model
import TD.C02.Spec

namespace TD.C02
open TD.C01

/-! ### a fetch does not depend on the state the reader is in -/

theorem getLD_result_indep (b : Bytes) (vrPos lrshPos : Nat) (off len : Int) (st st' : RState) :
    (getLogicalDataSt b vrPos lrshPos off len st).1 = (getLogicalDataSt b vrPos lrshPos off len st').1 := by
  unfold getLogicalDataSt
  by_cases ho : off < 0
  · simp [ho]
  · simp only [ho, if_false]
    unfold vrRead
    simp only []
    cases hv : readVR b vrPos with
    | error e => rfl
    | ok vr =>
      simp only []
      unfold lrshRead
      simp only []
      cases hh : readLRSH b lrshPos with
      | error e => rfl
      | ok h => rfl

theorem runHist_eq (b : Bytes) : ∀ (hist : List Req) (st : RState), runHist b st hist = hist.map (fetch b) := by
  intro hist
  induction hist with
  | nil => intro st; rfl
  | cons q qs ih =>
    intro st
    simp only [runHist, List.map_cons, ih]
    congr 1
    exact getLD_result_indep b q.vrPos q.lrshPos q.off q.len st default

/-! ### the accumulate / slice loop -/

/-- one pass of the loop body for a segment whose stripped body is `data`; `rd` = the read it makes -/
def absRead (off len : Int) (all : Bool) (a : LoopSt) (data : Bytes) (rd : Nat × Nat) : LoopSt :=
  if all || (a.bytesRead : Int) ≠ len then
    if all then { a with out := a.out ++ data, touched := a.touched ++ [rd] }
    else
      let indexFrom : Int := max 0 (off - a.ldi)
      let indexTo : Int := if len ≥ 0 then indexFrom + (len - a.bytesRead) else data.length
      let sl := pySlice data indexFrom indexTo
      ⟨a.out ++ sl, a.bytesRead + sl.length, a.ldi + data.length, a.touched ++ [rd]⟩
  else a

/-- the loop over the flat segments of one record, positions tracked from the layout -/
def absLoop (off len : Int) (all : Bool) : VR → Nat → List TSeg → LoopSt → Option LoopSt
  | _, _, [], _ => none
  | vr, p, s :: ss, a =>
    let a' := absRead off len all a s.data (p + 4, s.d.n + s.d.padBytes.length)
    if s.last then some a'
    else
      let np := p + s.d.segLen
      match ss with
      | [] => none
      | s' :: _ =>
        match s'.d.vr with
        | some L => absLoop off len all ⟨np, L⟩ (np + 4) ss { a' with touched := a'.touched ++ [(np, 4), (np + 4, 4)] }
        | none => absLoop off len all vr np ss { a' with touched := a'.touched ++ [(np, 4)] }

theorem getLoop_step (b : Bytes) (off len : Int) (all : Bool) (f : Nat) (st : RState) (a : LoopSt) (data : Bytes)
    (hcur : st.cur = st.h.pos + 4) (hrf : readFull b st.vr st.h = .ok data) :
    (getLoop b off len all (f + 1) st a).1 =
      (let a' := absRead off len all a data (st.h.pos + 4, (rawBody b st.h).length)
       if st.h.isLast then .ok a'
       else match seekNext b st.vr st.h with
         | .ok (vr', h') => (getLoop b off len all f ⟨h'.pos + 4, vr', h'⟩ { a' with touched := a'.touched ++ hdrReads st }).1
         | .error e => .error e) := by
  conv => lhs; unfold getLoop
  unfold readFullSt
  simp only [hcur, ne_eq, not_true_eq_false, if_false, hrf]
  by_cases hc : (all || decide (¬ (a.bytesRead : Int) = len)) = true
  · simp only [hc, if_true]
    cases all
    · simp only [Bool.false_eq_true, if_false]
      unfold absRead
      simp only [ne_eq, hc, if_true, Bool.false_eq_true, if_false]
      cases hl : st.h.isLast
      · simp only [Bool.false_eq_true, if_false]
        unfold seekNextSt hdrReads
        simp only []
        cases seekNext b st.vr st.h with
        | error e => rfl
        | ok p => rfl
      · simp
    · simp only [if_true]
      unfold absRead
      simp only [ne_eq, hc, if_true]
      cases hl : st.h.isLast
      · simp only [Bool.false_eq_true, if_false]
        unfold seekNextSt hdrReads
        simp only []
        cases seekNext b st.vr st.h with
        | error e => rfl
        | ok p => rfl
      · simp
  · simp only [hc, Bool.false_eq_true, if_false]
    unfold absRead
    simp only [ne_eq, hc, Bool.false_eq_true, if_false]
    cases hl : st.h.isLast
    · simp only [Bool.false_eq_true, if_false]
      unfold seekNextSt hdrReads
      simp only []
      cases seekNext b st.vr st.h with
      | error e => rfl
      | ok p => rfl
    · simp

theorem rawBody_length_enc {b h s tail} (A : AtSeg b h s tail) : (rawBody b h).length = s.d.n + s.d.padBytes.length := by
  rw [rawBody_enc A]; simp [A.dlen]

theorem getLoop_flat (b : Bytes) (off len : Int) (all : Bool) :
    ∀ (ss : List TSeg) (s : TSeg) (fuel : Nat) (st : RState) (a : LoopSt) (r : Nat) (res : LoopSt),
      ss.length < fuel → AtSeg b st.h s (ss.flatMap TSeg.bytes) → Inv st.vr st.h r → st.cur = st.h.pos + 4 →
      segsWF r s.last ss → absLoop off len all st.vr st.h.pos (s :: ss) a = some res →
      (getLoop b off len all fuel st a).1 = .ok res := by
  intro ss
  induction ss with
  | nil =>
    intro s fuel st a r res hfuel A I hcur W habs
    obtain ⟨f, rfl⟩ : ∃ f, fuel = f + 1 := ⟨fuel - 1, by omega⟩
    rw [getLoop_step b off len all f st a s.data hcur (readFull_enc st.vr A), isLast_enc A.attr,
      rawBody_length_enc A]
    simp only [absLoop] at habs
    cases hl : s.last
    · simp [hl] at habs
    · simp only [hl, if_true, Option.some.injEq] at habs
      simp [habs]
  | cons s' ss ih =>
    intro s fuel st a r res hfuel A I hcur W habs
    obtain ⟨f, rfl⟩ : ∃ f, fuel = f + 1 := ⟨fuel - 1, by simp at hfuel; omega⟩
    rw [List.flatMap_cons] at A
    obtain ⟨vr', h', r', hs, A', I', h16', hf', W', hvp, hhop⟩ := seekNext_cons A I W
    have hfu : ss.length < f := by simp at hfuel; omega
    rw [getLoop_step b off len all f st a s.data hcur (readFull_enc st.vr A), isLast_enc A.attr,
      rawBody_length_enc A]
    simp only [absLoop] at habs
    cases hl : s.last
    · simp only [hl, Bool.false_eq_true, if_false] at habs ⊢
      simp only [hs]
      have hnp : st.h.nextPos = st.h.pos + s.d.segLen := by unfold LRSH.nextPos; rw [A.len]
      cases hv : s'.d.vr with
      | some L =>
        rw [hv] at habs hvp hhop
        simp only [Prod.mk.injEq] at hvp
        have hh : hdrReads st = [(st.h.pos + s.d.segLen, 4), (st.h.pos + s.d.segLen + 4, 4)] := by
          unfold hdrReads; rw [if_pos (hhop.mpr rfl), hnp]
        rw [hh]
        apply ih s' f ⟨h'.pos + 4, vr', h'⟩ _ r' res hfu A' I' rfl W'
        simp only [hvp.1, hvp.2, hnp]
        exact habs
      | none =>
        rw [hv] at habs hvp hhop
        simp only [Prod.mk.injEq] at hvp
        have hh : hdrReads st = [(st.h.pos + s.d.segLen, 4)] := by
          unfold hdrReads; rw [if_neg (by intro hc; simpa using hhop.mp hc), hnp]
        rw [hh]
        apply ih s' f ⟨h'.pos + 4, vr', h'⟩ _ r' res hfu A' I' rfl W'
        simp only [hvp.1, hvp.2, hnp]
        exact habs
    · simp only [hl, if_true, Option.some.injEq] at habs
      simp [habs]

/-! ### what the loop accumulates -/

/-- the payload bytes of the record that starts the list: data up to and including the first `last` segment -/
def recData : List TSeg → Bytes
  | [] => []
  | s :: ss => if s.last then s.data else s.data ++ recData ss

theorem pySlice_nonneg (l : Bytes) (i k : Nat) : pySlice l (i : Int) ((i : Int) + (k : Int)) = (l.drop i).take k := by
  unfold pySlice
  simp only []
  have h1 : ¬ ((i : Int) < 0) := by omega
  have h2 : ¬ ((i : Int) + (k : Int) < 0) := by omega
  simp only [h1, h2, if_false]
  by_cases hi : (i : Int) > (l.length : Int)
  · have hj : (i : Int) + (k : Int) > (l.length : Int) := by omega
    simp only [hi, hj, if_true]
    have : l.drop i = [] := List.drop_eq_nil_of_le (by omega)
    simp [this]
  · simp only [hi, if_false]
    by_cases hj : (i : Int) + (k : Int) > (l.length : Int)
    · simp only [hj, if_true, Int.toNat_natCast]
      rw [List.take_of_length_le (by simp <;> omega), List.take_of_length_le (by simp <;> omega)]
    · simp only [hj, if_false, Int.toNat_natCast]
      congr 1
      omega

theorem pySlice_to_end (l : Bytes) (i : Nat) : pySlice l (i : Int) (l.length : Int) = l.drop i := by
  unfold pySlice
  simp only []
  have h1 : ¬ ((i : Int) < 0) := by omega
  have h2 : ¬ ((l.length : Int) < 0) := by omega
  have h3 : ¬ ((l.length : Int) > (l.length : Int)) := by omega
  simp only [h1, h2, h3, if_false]
  by_cases hi : (i : Int) > (l.length : Int)
  · simp only [hi, if_true]
    have : l.drop i = [] := List.drop_eq_nil_of_le (by omega)
    simp [this]
  · simp only [hi, if_false, Int.toNat_natCast]
    rw [List.take_of_length_le (by simp <;> omega)]

/-- loop invariant after the segments whose data concatenate to `Q` -/
def InvL (off : Nat) (len : Int) (all : Bool) (Q : Bytes) (a : LoopSt) : Prop :=
  if all then a.out = Q
  else if len < 0 then a.out = Q.drop off ∧ a.ldi = Q.length
  else a.out = (Q.drop off).take len.toNat ∧ a.bytesRead = a.out.length ∧ (a.bytesRead = len.toNat ∨ a.ldi = Q.length)

theorem max0_sub (off q : Nat) : max (0 : Int) ((off : Int) - (q : Int)) = ((off - q : Nat) : Int) := by omega

theorem absRead_inv (off : Nat) (len : Int) (all : Bool) (Q : Bytes) (a : LoopSt) (data : Bytes) (rd : Nat × Nat)
    (h : InvL off len all Q a) : InvL off len all (Q ++ data) (absRead (off : Int) len all a data rd) := by
  unfold InvL at h ⊢
  unfold absRead
  cases all
  · simp only [Bool.false_eq_true, if_false, Bool.false_or, ne_eq, decide_eq_true_eq] at h ⊢
    by_cases hl : len < 0
    · simp only [hl, if_true] at h ⊢
      have hne : ¬ ((a.bytesRead : Int) = len) := by omega
      have hge : ¬ (len ≥ 0) := by omega
      simp only [hne, not_false_eq_true, if_true, hge, if_false, h.2, max0_sub, pySlice_to_end]
      refine ⟨?_, by simp⟩
      rw [h.1, List.drop_append]
    · simp only [hl, if_false] at h ⊢
      obtain ⟨ho, hb, hd⟩ := h
      obtain ⟨L, rfl⟩ : ∃ L : Nat, len = (L : Int) := ⟨len.toNat, by omega⟩
      simp only [Int.toNat_natCast] at ho hd ⊢
      by_cases hne : (a.bytesRead : Int) = (L : Int)
      · simp only [hne, not_true_eq_false, if_false]
        have hbl : a.bytesRead = L := by omega
        refine ⟨?_, hb, Or.inl hbl⟩
        have hlen : L ≤ (Q.drop off).length := by
          have : a.out.length = L := by omega
          rw [ho, List.length_take] at this; omega
        rw [ho, List.drop_append, List.take_append_of_le_length hlen]
      · simp only [hne, not_false_eq_true, if_true]
        have hq : a.ldi = Q.length := by
          rcases hd with hd | hd
          · omega
          · exact hd
        have hge : (L : Int) ≥ 0 := by omega
        simp only [hge, if_true, hq, max0_sub]
        have hk : (L : Int) - (a.bytesRead : Int) = ((L - a.bytesRead : Nat) : Int) := by
          have : a.bytesRead ≤ L := by rw [hb, ho, List.length_take]; omega
          omega
        rw [hk, pySlice_nonneg]
        refine ⟨?_, by simp [hb], Or.inr (by simp)⟩
        rw [ho, List.drop_append, List.take_append, hb, ho]
        congr 2
        rw [List.length_take]
        omega
  · simp only [if_true, Bool.true_or] at h ⊢
    rw [h]

theorem absLoop_inv (off : Nat) (len : Int) (all : Bool) :
    ∀ (segs : List TSeg) (vr : VR) (p : Nat) (a res : LoopSt) (Q : Bytes), InvL off len all Q a →
      absLoop (off : Int) len all vr p segs a = some res → InvL off len all (Q ++ recData segs) res := by
  intro segs
  induction segs with
  | nil => intro vr p a res Q _ h; simp [absLoop] at h
  | cons s ss ih =>
    intro vr p a res Q hI h
    have h1 := absRead_inv off len all Q a s.data (p + 4, s.d.n + s.d.padBytes.length) hI
    simp only [absLoop] at h
    cases hl : s.last
    · simp only [hl, Bool.false_eq_true, if_false] at h
      simp only [recData, hl, Bool.false_eq_true, if_false, ← List.append_assoc]
      cases ss with
      | nil => simp at h
      | cons s' ss' =>
        simp only [] at h
        have hI' : ∀ t, InvL off len all (Q ++ s.data)
            { absRead (off : Int) len all a s.data (p + 4, s.d.n + s.d.padBytes.length) with touched := t } := by
          intro t; unfold InvL at h1 ⊢; exact h1
        cases hv : s'.d.vr with
        | some L => rw [hv] at h; exact ih _ _ _ _ _ (hI' _) h
        | none => rw [hv] at h; exact ih _ _ _ _ _ (hI' _) h
    · simp only [hl, if_true, Option.some.injEq] at h
      simp only [recData, hl, if_true]
      rw [← h]; exact h1

theorem absLoop_out (off : Nat) (len : Int) (segs : List TSeg) (vr : VR) (p : Nat) (t0 : List (Nat × Nat)) (res : LoopSt)
    (h : absLoop (off : Int) len ((off : Int) == 0 && decide (len < 0)) vr p segs ⟨[], 0, 0, t0⟩ = some res) :
    res.out = sliceSpec (recData segs) off len := by
  have hI : InvL off len ((off : Int) == 0 && decide (len < 0)) [] ⟨[], 0, 0, t0⟩ := by
    unfold InvL; simp
  have := absLoop_inv off len _ segs vr p _ res [] hI h
  unfold InvL at this
  unfold sliceSpec
  simp only [List.nil_append] at this
  by_cases hall : ((off : Int) == 0 && decide (len < 0)) = true
  · simp only [hall, if_true] at this
    simp only [Bool.and_eq_true, beq_iff_eq, decide_eq_true_eq] at hall
    have : off = 0 := by omega
    simp [*]
  · simp only [hall, Bool.false_eq_true, if_false] at this
    by_cases hl : len < 0
    · simp only [hl, if_true] at this ⊢; exact this.1
    · simp only [hl, if_false] at this ⊢; exact this.1

end TD.C02
