/-
C02 — object-level histories are a function of the file bytes alone.
-/
import TD.C02.ObjModel
import TD.C02.Lemmas

namespace TD.C02
open TD.C01

theorem stepObj_pure (k : Bytes → RState → RState) (b : Bytes) (st : IdxSt) (op : Op) :
    (stepObj k b st op).1 = (stepPure b (st.entries, st.entered) op).1 ∧
    ((stepObj k b st op).2.entries, (stepObj k b st op).2.entered) = (stepPure b (st.entries, st.entered) op).2 := by
  cases op with
  | enter =>
    simp only [stepObj, stepPure]
    cases h : iterPositionsSt b with
    | mk l e => cases e <;> simp
  | exit => simp [stepObj, stepPure]
  | fetch i off len =>
    simp only [stepObj, stepPure]
    cases hi : st.entries[i]? with
    | none => simp
    | some p =>
      simp only []
      cases he : st.entered
      · simp [he]
      · simp only [Bool.not_true, Bool.false_eq_true, if_false]
        have hind := getLD_result_indep b p.vrPos p.lrshPos off len st.rs default
        unfold fetch
        simp only []
        rw [← hind]
        cases hg : getLogicalDataSt b p.vrPos p.lrshPos off len st.rs with
        | mk r rs' => cases r <;> simp [he]
  | rescan =>
    simp only [stepObj, stepPure]
    cases he : st.entered <;> simp [he]
  | iter =>
    simp only [stepObj, stepPure]
    cases he : st.entered <;> simp [he]
  | pickle => simp [stepObj, stepPure]

theorem runObj2_pure (k : Bytes → RState → RState) (b : Bytes) :
    ∀ (ops : List (Bool × Op)) (cur : Nat) (sA sB : IdxSt),
      runObj2 k b cur sA sB ops = runPure2 b (sA.entries, sA.entered) (sB.entries, sB.entered) ops := by
  intro ops
  induction ops with
  | nil => intro cur sA sB; rfl
  | cons x xs ih =>
    intro cur sA sB
    obtain ⟨j, op⟩ := x
    cases j
    · have h := stepObj_pure k b { sA with rs := { sA.rs with cur := cur } } op
      simp only [runObj2, runPure2]
      rw [ih, h.1]
      simp only [] at h
      rw [← h.2]
    · have h := stepObj_pure k b { sB with rs := { sB.rs with cur := cur } } op
      simp only [runObj2, runPure2]
      rw [ih, h.1]
      simp only [] at h
      rw [← h.2]

/-- the entries an index object can hold: none, or exactly the scan of the bytes -/
def GoodEntries (b : Bytes) (e : List PosDesc) : Prop := e = [] ∨ ((iterPositionsSt b).2 = none ∧ e = (iterPositionsSt b).1)

theorem stepPure_good (b : Bytes) (e : List PosDesc × Bool) (op : Op) (h : GoodEntries b e.1) :
    GoodEntries b (stepPure b e op).2.1 := by
  cases op with
  | enter =>
    simp only [stepPure]
    cases hs : iterPositionsSt b with
    | mk l er =>
      cases er with
      | none => right; simp [hs]
      | some x => simpa [hs] using h
  | exit => left; rfl
  | fetch i off len =>
    simp only [stepPure]
    cases e.1[i]? with
    | none => exact h
    | some p =>
      simp only []
      cases e.2
      · exact h
      · simp only [Bool.not_true, Bool.false_eq_true, if_false]
        cases fetch b ⟨p.vrPos, p.lrshPos, off, len⟩ <;> exact h
  | rescan => simp only [stepPure]; cases e.2 <;> exact h
  | iter => simp only [stepPure]; cases e.2 <;> exact h
  | pickle => exact h

theorem runPure2_enter (b : Bytes) (P : List PosDesc) (hP : iterPositionsSt b = (P, none)) :
    ∀ (ops : List (Bool × Op)) (eA eB : List PosDesc × Bool) (n : Nat) (j : Bool),
      ops[n]? = some (j, .enter) → (runPure2 b eA eB ops)[n]? = some (.entered P) := by
  intro ops
  induction ops with
  | nil => intro eA eB n j h; simp at h
  | cons x xs ih =>
    intro eA eB n j h
    obtain ⟨jx, op⟩ := x
    cases n with
    | zero =>
      simp only [List.getElem?_cons_zero, Option.some.injEq, Prod.mk.injEq] at h
      obtain ⟨rfl, rfl⟩ := h
      cases jx <;> simp [runPure2, stepPure, hP]
    | succ m =>
      simp only [List.getElem?_cons_succ] at h
      cases jx <;> simp only [runPure2, List.getElem?_cons_succ] <;> exact ih _ _ m j h

theorem runObjN_project (k : Bytes → RState → RState) (files : Nat → Bytes) (i : Nat) :
    ∀ (ops : List (Nat × Op)) (sts : Nat → IdxSt),
      outsOf i (runObjN k files sts ops) = runPure1 (files i) ((sts i).entries, (sts i).entered) (opsOf i ops) := by
  intro ops
  induction ops with
  | nil => intro sts; rfl
  | cons x xs ih =>
    intro sts
    obtain ⟨j, op⟩ := x
    by_cases hj : j = i
    · subst hj
      have h := stepObj_pure k (files j) (sts j) op
      simp only [runObjN, outsOf, opsOf, List.filterMap_cons, if_true, runPure1]
      rw [h.1]
      congr 1
      have := ih (updAt sts j (stepObj k (files j) (sts j) op).2)
      simp only [outsOf, opsOf, updAt, if_true] at this
      rw [this, ← h.2]
    · simp only [runObjN, outsOf, opsOf, List.filterMap_cons, hj, if_false]
      have := ih (updAt sts j (stepObj k (files j) (sts j) op).2)
      simp only [outsOf, opsOf, updAt] at this
      rw [this]
      have hij : ¬ i = j := fun h => hj h.symm
      simp [hij]

end TD.C02
