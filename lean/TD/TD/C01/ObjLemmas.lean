/-
C01 — reader-object histories: every method's result is a function of the file bytes alone.
-/
import TD.C01.ObjModel
import TD.C01.Lemmas

namespace TD.C01

theorem recsR_indep (b : Bytes) (st st' : RSt) : recsR b st = recsR b st' := by
  unfold recsR vrReadR
  simp only []
  cases readVR b 80 with
  | error e => rfl
  | ok vr =>
    simp only []
    unfold lrshReadR
    cases readLRSH b (80 + 4) with
    | error e => rfl
    | ok h => rfl

theorem vrsR_indep (b : Bytes) (st st' : RSt) : vrsR b st = vrsR b st' := by
  unfold vrsR vrReadR
  simp only []
  cases readVR b 80 with
  | error e => rfl
  | ok vr => rfl

theorem lrshsR_indep (b : Bytes) (st st' : RSt) (vp vl : Nat) : lrshsR b st vp vl = lrshsR b st' vp vl := by
  unfold lrshsR vrReadR
  simp only []
  cases readVR b vp with
  | error e => rfl
  | ok vr => rfl

theorem outR_indep (b : Bytes) (st st' : RSt) (op : ROp) : outR b st op = outR b st' op := by
  cases op with
  | recs k => simp only [outR, recsR_indep b st st']
  | vrs k => simp only [outR, vrsR_indep b st st']
  | lrshs vp vl k => simp only [outR, lrshsR_indep b st st' vp vl]
  | other j => rfl

theorem runR_pure (kf : Bytes → RSt → ROp → RSt) (b : Bytes) :
    ∀ (ops : List ROp) (st : RSt), runR kf b st ops = ops.map (outR b default) := by
  intro ops
  induction ops with
  | nil => intro st; rfl
  | cons op ops ih =>
    intro st
    simp only [runR, List.map_cons, ih, outR_indep b st default op]

/-- on an encoded conformant file the method is the sequential read of `iter_encode` -/
theorem recsR_encode (sul : SULW) (recs : List LR) (ℓ : Layout) (hs : sul.conformant = true) (hne : recs ≠ [])
    (hc : ℓ.conformant recs = true) (st : RSt) : recsR (encode sul recs ℓ) st = (recs, none) := by
  have h := iterLR_encode sul recs ℓ hs hne hc
  generalize encode sul recs ℓ = b at h
  unfold iterLR at h
  unfold recsR vrReadR lrshReadR
  simp only []
  cases hsul : sulParse (b.take 80) with
  | none => rw [hsul] at h; simp at h
  | some s =>
    rw [hsul] at h
    simp only [] at h
    cases hv : readVR b 80 with
    | error e => rw [hv] at h; simp at h
    | ok vr =>
      rw [hv] at h
      simp only [] at h ⊢
      cases hh : readLRSH b 84 with
      | error e => rw [hh] at h; simp at h
      | ok hd =>
        rw [hh] at h
        simp only [] at h ⊢
        cases hf : hd.isFirst
        · rw [hf] at h; simp at h
        · rw [hf] at h
          simpa using h

end TD.C01
