/-
C01 — DLIS/RP66V1 logical records are reassembled exactly from any physical layout; storage unit label.

Subject: the model `TD.C01.iterLR` / `sulParse` (Model.lean) of `TotalDepth/RP66V1/core/pFile.py`, tied to the code by
the correspondence run of `harness/props/c01.py`.  Specification: the independent encoder `TD.C01.encode` and the
decidable `Layout.conformant`, `SULW.conformant` (Spec.lean).
-/
import TD.C01.Lemmas
import TD.C01.Wf
import TD.C01.ObjLemmas

namespace TD.C01

/-- **Sequential read of any conformant file yields exactly the records written.**
For every storage unit label, every non-empty list of logical records and every conformant layout (any cut of the
payloads into segments of even length ≥ 16 with any combination of padding / checksum / trailing length /
encryption flags, any packing of the segments into visible records of length 20…16384), the model of
`FileRead.iter_logical_records()` returns the records — kind, type and payload, in order — and stops without error.

`recs ≠ []` is needed because the code rejects a label-only file (`iter_encode_empty` below; TODO in `_enter`). -/
theorem iter_encode (sul : SULW) (recs : List LR) (ℓ : Layout) (hs : sul.conformant = true) (hne : recs ≠ [])
    (hc : ℓ.conformant recs = true) : iterLogicalRecords (encode sul recs ℓ) = .ok recs := by
  unfold iterLogicalRecords
  rw [iterLR_encode sul recs ℓ hs hne hc]

/-- The same with the generator's final state explicit: all records are yielded and the iteration ends normally. -/
theorem iter_encode_state (sul : SULW) (recs : List LR) (ℓ : Layout) (hs : sul.conformant = true) (hne : recs ≠ [])
    (hc : ℓ.conformant recs = true) : iterLR (encode sul recs ℓ) = (recs, none) :=
  iterLR_encode sul recs ℓ hs hne hc

/-- **Any conformant storage unit label is accepted and its fields are reported as written** (any sequence number
1…9999 with '0'/' ' fill, any `V1.dd`, any maximum record length 20…16384 with fill, any 60 identifier bytes). -/
theorem sul_roundtrip (s : SULW) (h : s.conformant = true) :
    sulParse (encodeSUL s) = some ⟨s.seq, s.ver, recordWord, s.maxLen, s.ident⟩ :=
  sulParse_enc s h

/-- `FileRead.sul` of an encoded file is the label that was written. -/
theorem file_sul_encode (sul : SULW) (recs : List LR) (ℓ : Layout) (hs : sul.conformant = true) :
    fileSul (encode sul recs ℓ) = some ⟨sul.seq, sul.ver, recordWord, sul.maxLen, sul.ident⟩ := by
  unfold fileSul encode
  rw [List.take_left' (encodeSUL_length sul hs)]
  exact sulParse_enc sul hs

/-- **Nothing added, nothing dropped**: the number of records read equals the number of segments marked `first` in the
file (and the number of records written). -/
theorem iter_nothing_added (sul : SULW) (recs : List LR) (ℓ : Layout) (hs : sul.conformant = true) (hne : recs ≠ [])
    (hc : ℓ.conformant recs = true) :
    ∃ out, iterLogicalRecords (encode sul recs ℓ) = .ok out ∧
      out.length = ((cutAll recs ℓ.recs).filter (·.first)).length ∧ out.length = recs.length := by
  refine ⟨recs, iter_encode sul recs ℓ hs hne hc, ?_, rfl⟩
  unfold Layout.conformant at hc
  simp only [Bool.and_eq_true] at hc
  rw [count_first_cutAll recs ℓ.recs hc.1]

/-- The specification encoder emits a byte string: every element of the encoded file is < 256 (so the file the
theorems speak about is a real file; the harness additionally compares it byte for byte with an independent Python
encoder on every run). -/
theorem encode_bytes (sul : SULW) (recs : List LR) (ℓ : Layout) (hs : sul.conformant = true)
    (hc : ℓ.conformant recs = true) : ∀ x ∈ encode sul recs ℓ, x < 256 :=
  encode_lt sul recs ℓ hs hc

/-- Informational (not part of the property): a label-only file — zero logical records — is rejected by the code
as it is (`FileRead._enter` reads a visible record unconditionally). -/
theorem iter_encode_empty (sul : SULW) (hs : sul.conformant = true) :
    iterLR (encode sul [] ⟨[]⟩) = ([], some .vrEOF) := by
  have hlen := encodeSUL_length sul hs
  have e : encode sul [] ⟨[]⟩ = encodeSUL sul := by simp [encode, cutAll]
  have hd : (encodeSUL sul).drop 80 = [] := by rw [List.drop_eq_nil_iff]; omega
  unfold iterLR
  rw [e, List.take_of_length_le (by omega), sulParse_enc sul hs]
  simp only [readVR_nil _ 80 hd]

/-! ### the reader OBJECT through histories of its generator methods -/

/-- **Every method of a reader object answers as a function of the file bytes alone.**  For every file, every history
of `iter_logical_records` / `iter_visible_records` / `iter_LRSHs_for_visible_record` calls on ONE `FileRead`, each
consumed completely or abandoned after any number of items, interleaved with any other method (`other`: random-access
fetches, position scans, validation, exit and re-enter — whatever they leave in the reader), and whatever an
(abandoned) generator leaves in the cursor / visible record / segment header objects (`kf`): the k-th result is the
result of that call on a fresh reader. -/
theorem reader_history_pure (kf : Bytes → RSt → ROp → RSt) (b : Bytes) (st : RSt) (ops : List ROp) :
    runR kf b st ops = ops.map (outR b default) :=
  runR_pure kf b ops st

/-- **After any history a full sequential read yields exactly the records written**: on a conformant file the n-th
result of ANY history whose n-th operation is a complete `iter_logical_records()` is the list of records written. -/
theorem reader_recs_encode (kf : Bytes → RSt → ROp → RSt) (sul : SULW) (recs : List LR) (ℓ : Layout)
    (hs : sul.conformant = true) (hne : recs ≠ []) (hc : ℓ.conformant recs = true) (st : RSt) (ops : List ROp) (n : Nat)
    (hn : ops[n]? = some (.recs none)) :
    (runR kf (encode sul recs ℓ) st ops)[n]? = some (.recs recs none) := by
  rw [reader_history_pure, List.getElem?_map, hn]
  simp [outR, truncate, recsR_encode sul recs ℓ hs hne hc]

/-! ### the hypotheses are satisfiable — padding + checksum + trailing length + encryption, 3 visible records -/

def exSul : SULW := ⟨10, [32, 32], [86, 49, 46, 48, 48], 8192, [48], List.replicate 60 65⟩

def exRecs : List LR :=
  [⟨true, 0, List.range 30⟩,            -- 30 payload bytes in 3 segments across 2 visible records
   ⟨false, 5, [1, 2, 3]⟩,               -- short record: 9 pad bytes
   ⟨false, 127, []⟩,                    -- empty payload: pad only
   ⟨true, 3, List.replicate 12 255⟩]    -- encrypted, exact fit

def exLayout : Layout := ⟨[
  [⟨10, 2, 0, none, false, false, false, some 40⟩,               -- VR 1 (40): 16 + 20
   ⟨12, 0, 0, some (170, 187), true, false, false, none⟩,
   ⟨8, 2, 7, some (1, 2), false, false, false, some 36⟩],        -- VR 2 (36): 16 + 16
  [⟨3, 9, 0, none, false, false, false, none⟩],
  [⟨0, 12, 1, none, false, false, false, some 36⟩,               -- VR 3 (36): 16 + 16
  ],
  [⟨12, 3, 0, none, false, true, true, none⟩]]⟩

example : exSul.conformant = true := by decide
example : exLayout.conformant exRecs = true := by decide
example : exRecs ≠ [] := by decide
/-- the concrete file is read back by the model (evaluated by the kernel, independently of the theorem) -/
example : iterLR (encode exSul exRecs exLayout) = (exRecs, none) := by decide +kernel
example : (encode exSul exRecs exLayout).length = 80 + 40 + 36 + 36 := by decide +kernel

/-- a non-conformant layout is recognised as such (visible record length does not match its segments) -/
example : (Layout.mk [[⟨3, 9, 0, none, false, false, false, some 22⟩]]).conformant [⟨false, 5, [1, 2, 3]⟩] = false := by
  decide

/-- visible records walked past the first one, an abandoned sequential read, another method, then a full read:
evaluated by the kernel on the stateful model of the example file -/
example : (runR (fun _ _ _ => ⟨150, ⟨120, 36⟩, ⟨160, 16, 1, 127⟩⟩) (encode exSul exRecs exLayout) default
      [.vrs none, .recs (some 2), .lrshs 120 36 none, .other ⟨7, ⟨156, 36⟩, ⟨176, 16, 0, 3⟩⟩, .recs none]).map
      (fun o => match o with
        | .recs l e => (l.length, e.isSome)
        | .vrs l e => (l.length, e.isSome)
        | .lrshs l e => (l.length, e.isSome)
        | .none => (0, false))
    = [(3, false), (2, false), (2, false), (0, false), (4, false)] := by decide +kernel

end TD.C01
