/-
C01 — the reader OBJECT: one `FileRead` (already entered) driven through a history of its generator methods
`iter_visible_records`, `iter_LRSHs_for_visible_record`, `iter_logical_records`, each consumed fully or abandoned after
`k` items, interleaved with any other method (`other`: get_file_logical_data, iter_logical_record_positions,
validate_positions, exit / re-enter — anything that leaves the reader's cursor / visible record / segment header in
some state).  The mutable state (cursor, `visible_record`, `logical_record_segment_header`) is threaded explicitly and
every method is written as the code is: it starts by seeking to an absolute position and re-reading the headers into
the reader's objects.  What a (possibly abandoned) generator leaves in the state is an arbitrary function `kf`;
every theorem holds for every `kf`.  Core Lean only.
-/
import TD.C01.Model

namespace TD.C01

structure RSt where
  cur : Nat
  vr : VR
  h : LRSH
  deriving DecidableEq, Repr

instance : Inhabited RSt := ⟨⟨0, ⟨0, 0⟩, ⟨0, 0, 0, 0⟩⟩⟩

/-- `self.visible_record.read(self.file)` at the cursor -/
def vrReadR (b : Bytes) (st : RSt) : Except Err RSt :=
  match readVR b st.cur with
  | .ok vr => .ok { st with vr := vr, cur := st.cur + 4 }
  | .error e => .error e

/-- `self.logical_record_segment_header.read(self.file)` at the cursor -/
def lrshReadR (b : Bytes) (st : RSt) : Except Err RSt :=
  match readLRSH b st.cur with
  | .ok h => .ok { st with h := h, cur := st.cur + 4 }
  | .error e => .error e

/-- `islice(generator, k)` / the whole generator: the items seen and the exception seen -/
def truncate {α : Type} (k : Option Nat) (r : List α × Option Err) : List α × Option Err :=
  match k with
  | none => r
  | some k => if k ≤ r.1.length then (r.1.take k, none) else r

/-- `iter_logical_records()`: `_set_file_and_read_first_logical_record_segment_header` (seek(80), read the visible
record, read the segment header, assert it is a first one) and the loop of `iterGo` on the objects just read -/
def recsR (b : Bytes) (st : RSt) : List LR × Option Err :=
  match vrReadR b { st with cur := 80 } with
  | .error e => ([], some e)
  | .ok s1 =>
    match lrshReadR b s1 with
    | .error e => ([], some e)
    | .ok s2 => if !s2.h.isFirst then ([], some .assertion) else iterGo b (b.length + 1) s2.vr s2.h none

/-- the `while True` of `iter_visible_records`: yield a copy, `seek(position)`, `read_next()` -/
def vrsGo (b : Bytes) : Nat → VR → List VR × Option Err
  | 0, _ => ([], some .fuel)
  | f + 1, vr =>
    match readVR b vr.nextPos with
    | .error .vrEOF => ([vr], none)
    | .error e => ([vr], some e)
    | .ok vr' => let r := vrsGo b f vr'; (vr :: r.1, r.2)

/-- `iter_visible_records()`: `_set_file_and_read_first_visible_record` (outside the `try`), then the loop -/
def vrsR (b : Bytes) (st : RSt) : List VR × Option Err :=
  match vrReadR b { st with cur := 80 } with
  | .error e => ([], some e)
  | .ok s1 => vrsGo b (b.length + 1) s1.vr

/-- the loop of `iter_LRSHs_for_visible_record` with the file at `p` -/
def lrshsGo (b : Bytes) (vr : VR) : Nat → Nat → List LRSH × Option Err
  | 0, _ => ([], some .fuel)
  | f + 1, p =>
    match readLRSH b p with
    | .error _ => ([], none)                            -- ExceptionLogicalRecordSegmentHeaderEOF: pass
    | .ok h =>
      if h.nextPos = vr.nextPos then ([h], none)
      else let r := lrshsGo b vr f h.nextPos; (h :: r.1, r.2)

/-- `iter_LRSHs_for_visible_record(vr_given)`: seek(vr_given.position), read, `assert self.visible_record == vr_given` -/
def lrshsR (b : Bytes) (st : RSt) (vp vl : Nat) : List LRSH × Option Err :=
  match vrReadR b { st with cur := vp } with
  | .error e => ([], some e)
  | .ok s1 => if s1.vr ≠ ⟨vp, vl⟩ then ([], some .assertion) else lrshsGo b s1.vr (b.length + 3) s1.cur

inductive ROp where
  | recs (k : Option Nat)
  | vrs (k : Option Nat)
  | lrshs (vp vl : Nat) (k : Option Nat)
  | other (junk : RSt)          -- any other method: leaves the reader in state `junk`
  deriving DecidableEq, Repr

inductive ROut where
  | recs (l : List LR) (e : Option Err)
  | vrs (l : List VR) (e : Option Err)
  | lrshs (l : List LRSH) (e : Option Err)
  | none
  deriving DecidableEq, Repr

/-- what one method call on a reader in state `st` returns -/
def outR (b : Bytes) (st : RSt) : ROp → ROut
  | .recs k => let r := truncate k (recsR b st); .recs r.1 r.2
  | .vrs k => let r := truncate k (vrsR b st); .vrs r.1 r.2
  | .lrshs vp vl k => let r := truncate k (lrshsR b st vp vl); .lrshs r.1 r.2
  | .other _ => .none

/-- a history on ONE reader object -/
def runR (kf : Bytes → RSt → ROp → RSt) (b : Bytes) : RSt → List ROp → List ROut
  | _, [] => []
  | st, op :: ops =>
    let st' := match op with
      | .other junk => junk
      | _ => kf b st op
    outR b st op :: runR kf b st' ops

end TD.C01
