/-
C01 — independent specification of the RP66V1 (DLIS) physical format: abstract logical records, a *layout*
(how the records are cut into logical record segments and how the segments are packed into visible records),
a decidable conformance predicate and the encoder `encode : SULW → List LR → Layout → Bytes`.

Core Lean only (the driver links this file).  Bytes are `Nat` (< 256 by conformance) in a `List`.

Reference: RP66 V1 section 2.2.2.1 (logical record segment: 4-byte header = length(2, big endian), attributes(1), type(1);
body; trailer = pad bytes, checksum(2), trailing length(2)), section 2.3.6 (visible record: length(2), 0xFF, 0x01),
section 2.3.2 (storage unit label, 80 bytes).
-/
namespace TD.C01

abbrev Bytes := List Nat

/-- An abstract logical record: kind (explicitly / indirectly formatted), type code, payload. -/
structure LR where
  eflr : Bool
  type : Nat
  payload : Bytes
  deriving DecidableEq, Repr

/-- How one logical record segment is written.
* `n`     number of payload bytes carried by this segment
* `pad`   0 = no padding (attribute bit 0 clear); `p ≥ 1` = attribute bit set and `p` pad bytes, the last one holding `p`
* `fill`  value of the other `p-1` pad bytes
* `chk`   the two checksum bytes when the checksum attribute is set
* `trl`   trailing length present
* `enc`   encrypted: the payload bytes are opaque cipher text.  Pad bytes of an encrypted segment are *inside* the
          cipher text, i.e. part of the `n` payload bytes as far as this layer is concerned, so none are appended here
          (the attribute bit is still set when `pad > 0`)
* `pkt`   encryption-packet attribute bit (the packet itself is part of the payload at this layer)
* `vr`    `some L`: this segment is the first one of a visible record whose header announces length `L`
-/
structure SegDesc where
  n : Nat
  pad : Nat
  fill : Nat
  chk : Option (Nat × Nat)
  trl : Bool
  enc : Bool
  pkt : Bool
  vr : Option Nat
  deriving DecidableEq, Repr

/-- one list of segment descriptors per logical record -/
structure Layout where
  recs : List (List SegDesc)
  deriving DecidableEq, Repr

/-- big-endian 16 bit -/
def u16 (n : Nat) : Bytes := [n / 256, n % 256]

def SegDesc.padBytes (d : SegDesc) : Bytes :=
  if d.pad = 0 ∨ d.enc = true then [] else List.replicate (d.pad - 1) d.fill ++ [d.pad]

def SegDesc.chkBytes (d : SegDesc) : Bytes :=
  match d.chk with
  | some (a, b) => [a, b]
  | none => []

/-- total length of the segment (header + payload + pad + checksum + trailing length) -/
def SegDesc.segLen (d : SegDesc) : Nat :=
  4 + d.n + d.padBytes.length + d.chkBytes.length + (if d.trl then 2 else 0)

def SegDesc.trlBytes (d : SegDesc) : Bytes := if d.trl then u16 d.segLen else []

/-- the attribute byte, RP66V1 figure 2-3: bit 8 (0x80) explicit formatting, 0x40 has predecessor, 0x20 has successor,
0x10 encrypted, 0x08 encryption packet, 0x04 checksum, 0x02 trailing length, 0x01 padding -/
def attrByte (eflr first last : Bool) (d : SegDesc) : Nat :=
  (if eflr then 128 else 0) + (if first then 0 else 64) + (if last then 0 else 32) + (if d.enc then 16 else 0)
  + (if d.pkt then 8 else 0) + (if d.chk.isSome then 4 else 0) + (if d.trl then 2 else 0) + (if d.pad = 0 then 0 else 1)

/-- A segment of the flat list the file consists of: the record's kind/type, position in the record, descriptor and
the payload bytes it carries. -/
structure TSeg where
  eflr : Bool
  type : Nat
  first : Bool
  last : Bool
  d : SegDesc
  data : Bytes
  deriving DecidableEq, Repr

def vrHeader : Option Nat → Bytes
  | some L => u16 L ++ [255, 1]
  | none => []

/-- segment header + body + trailer (without a visible record header) -/
def TSeg.lrsBytes (s : TSeg) : Bytes :=
  u16 s.d.segLen ++ [attrByte s.eflr s.first s.last s.d, s.type] ++ (s.data ++ s.d.padBytes ++ (s.d.chkBytes ++ s.d.trlBytes))

def TSeg.bytes (s : TSeg) : Bytes := vrHeader s.d.vr ++ s.lrsBytes

/-- cut one record's payload into its segments -/
def cutRec (r : LR) : Bool → List SegDesc → Bytes → List TSeg
  | _, [], _ => []
  | first, d :: ds, data => ⟨r.eflr, r.type, first, ds.isEmpty, d, data.take d.n⟩ :: cutRec r false ds (data.drop d.n)

def cutAll : List LR → List (List SegDesc) → List TSeg
  | r :: rs, ds :: dss => cutRec r true ds r.payload ++ cutAll rs dss
  | _, _ => []

/-! ### Storage unit label -/

/-- decimal digits (ASCII), most significant first -/
def decDigitsAux : Nat → Nat → Bytes → Bytes
  | 0, _, acc => acc
  | f + 1, n, acc => if n < 10 then (48 + n) :: acc else decDigitsAux f (n / 10) ((48 + n % 10) :: acc)

def decDigits (n : Nat) : Bytes := decDigitsAux (n + 1) n []

/-- A storage unit label as written: the two numbers with their leading fill characters ('0' or ' '), the version
text `V1.dd`, and the 60 identifier bytes. -/
structure SULW where
  seq : Nat
  seqFill : Bytes
  ver : Bytes
  maxLen : Nat
  maxFill : Bytes
  ident : Bytes
  deriving DecidableEq, Repr

def recordWord : Bytes := [82, 69, 67, 79, 82, 68]   -- "RECORD"

def encodeSUL (s : SULW) : Bytes :=
  s.seqFill ++ decDigits s.seq ++ s.ver ++ recordWord ++ (s.maxFill ++ decDigits s.maxLen) ++ s.ident

def isFill (c : Nat) : Bool := c == 48 || c == 32
def isDigit (c : Nat) : Bool := 48 ≤ c && c ≤ 57

def SULW.conformant (s : SULW) : Bool :=
  1 ≤ s.seq && s.seqFill.all isFill && s.seqFill.length + (decDigits s.seq).length == 4
  && (match s.ver with
      | [86, 49, 46, a, b] => isDigit a && isDigit b     -- "V1." d d
      | _ => false)
  && 20 ≤ s.maxLen && s.maxLen ≤ 16384 && s.maxFill.all isFill && s.maxFill.length + (decDigits s.maxLen).length == 5
  && s.ident.length == 60 && s.ident.all (· < 256)

/-! ### Conformance of a layout -/

def SegDesc.ok (d : SegDesc) : Bool :=
  d.pad < 256 && d.fill < 256
  && (match d.chk with | some (a, b) => a < 256 && b < 256 | none => true)
  && (!d.pkt || d.enc)
  && 16 ≤ d.segLen && d.segLen % 2 == 0

/-- visible record packing: `r` = bytes still announced by the visible record in hand.  A segment with `vr = some L`
must come exactly when the previous visible record is full, `L` is 20…16384, and the segments that follow up to the
next visible record fill it exactly. -/
def vrOK : Nat → List SegDesc → Bool
  | r, [] => r == 0
  | r, d :: ds =>
    match d.vr with
    | some L => r == 0 && 20 ≤ L && L ≤ 16384 && 4 + d.segLen ≤ L && vrOK (L - (4 + d.segLen)) ds
    | none => r != 0 && d.segLen ≤ r && vrOK (r - d.segLen) ds

def recOK (r : LR) (ds : List SegDesc) : Bool :=
  !ds.isEmpty && (ds.map (·.n)).sum == r.payload.length && r.type < 256 && r.payload.all (· < 256) && ds.all SegDesc.ok

def recsOK : List LR → List (List SegDesc) → Bool
  | [], [] => true
  | r :: rs, ds :: dss => recOK r ds && recsOK rs dss
  | _, _ => false

/-- The layout is a standard-conformant way of writing `recs`. -/
def Layout.conformant (ℓ : Layout) (recs : List LR) : Bool :=
  recsOK recs ℓ.recs && vrOK 0 ℓ.recs.flatten

/-- The file: storage unit label, then every segment (those that start a visible record preceded by its header). -/
def encode (sul : SULW) (recs : List LR) (ℓ : Layout) : Bytes :=
  encodeSUL sul ++ (cutAll recs ℓ.recs).flatMap TSeg.bytes

end TD.C01
