/-
C01 — helper lemmas: attribute bits, header reads of encoder output, one-segment read, the flat segment walk.
-/
import TD.C01.Model
import TD.C01.Spec
import TD.C01.RegexLemmas

namespace TD.C01

/-! ### attribute bits -/

/-- the attribute byte from its eight bits -/
def attrBits (b7 b6 b5 b4 b3 b2 b1 b0 : Bool) : Nat :=
  (if b7 then 128 else 0) + (if b6 then 64 else 0) + (if b5 then 32 else 0) + (if b4 then 16 else 0)
  + (if b3 then 8 else 0) + (if b2 then 4 else 0) + (if b1 then 2 else 0) + (if b0 then 1 else 0)

theorem attrByte_eq (e f l : Bool) (d : SegDesc) :
    attrByte e f l d = attrBits e (!f) (!l) d.enc d.pkt d.chk.isSome d.trl (decide (d.pad ≠ 0)) := by
  unfold attrByte attrBits
  cases f <;> cases l <;> by_cases hp : d.pad = 0 <;> simp [hp]

theorem attrBits_7 (b7 b6 b5 b4 b3 b2 b1 b0 : Bool) : (attrBits b7 b6 b5 b4 b3 b2 b1 b0 &&& 0x80 != 0) = b7 := by
  cases b7 <;> cases b6 <;> cases b5 <;> cases b4 <;> cases b3 <;> cases b2 <;> cases b1 <;> cases b0 <;> rfl
theorem attrBits_6 (b7 b6 b5 b4 b3 b2 b1 b0 : Bool) : (attrBits b7 b6 b5 b4 b3 b2 b1 b0 &&& 0x40 == 0) = !b6 := by
  cases b7 <;> cases b6 <;> cases b5 <;> cases b4 <;> cases b3 <;> cases b2 <;> cases b1 <;> cases b0 <;> rfl
theorem attrBits_5 (b7 b6 b5 b4 b3 b2 b1 b0 : Bool) : (attrBits b7 b6 b5 b4 b3 b2 b1 b0 &&& 0x20 == 0) = !b5 := by
  cases b7 <;> cases b6 <;> cases b5 <;> cases b4 <;> cases b3 <;> cases b2 <;> cases b1 <;> cases b0 <;> rfl
theorem attrBits_4 (b7 b6 b5 b4 b3 b2 b1 b0 : Bool) : (attrBits b7 b6 b5 b4 b3 b2 b1 b0 &&& 0x10 != 0) = b4 := by
  cases b7 <;> cases b6 <;> cases b5 <;> cases b4 <;> cases b3 <;> cases b2 <;> cases b1 <;> cases b0 <;> rfl
theorem attrBits_2 (b7 b6 b5 b4 b3 b2 b1 b0 : Bool) : (attrBits b7 b6 b5 b4 b3 b2 b1 b0 &&& 0x04 != 0) = b2 := by
  cases b7 <;> cases b6 <;> cases b5 <;> cases b4 <;> cases b3 <;> cases b2 <;> cases b1 <;> cases b0 <;> rfl
theorem attrBits_1 (b7 b6 b5 b4 b3 b2 b1 b0 : Bool) : (attrBits b7 b6 b5 b4 b3 b2 b1 b0 &&& 0x02 != 0) = b1 := by
  cases b7 <;> cases b6 <;> cases b5 <;> cases b4 <;> cases b3 <;> cases b2 <;> cases b1 <;> cases b0 <;> rfl
theorem attrBits_0 (b7 b6 b5 b4 b3 b2 b1 b0 : Bool) : (attrBits b7 b6 b5 b4 b3 b2 b1 b0 &&& 0x01 != 0) = b0 := by
  cases b7 <;> cases b6 <;> cases b5 <;> cases b4 <;> cases b3 <;> cases b2 <;> cases b1 <;> cases b0 <;> rfl

section hdr
variable {h : LRSH} {e f l : Bool} {d : SegDesc} (ha : h.attr = attrByte e f l d)
include ha

theorem isEflr_enc : h.isEflr = e := by unfold LRSH.isEflr; rw [ha, attrByte_eq, attrBits_7]
theorem isFirst_enc : h.isFirst = f := by unfold LRSH.isFirst; rw [ha, attrByte_eq, attrBits_6]; simp
theorem isLast_enc : h.isLast = l := by unfold LRSH.isLast; rw [ha, attrByte_eq, attrBits_5]; simp
theorem isEncrypted_enc : h.isEncrypted = d.enc := by unfold LRSH.isEncrypted; rw [ha, attrByte_eq, attrBits_4]
theorem hasChecksum_enc : h.hasChecksum = d.chk.isSome := by unfold LRSH.hasChecksum; rw [ha, attrByte_eq, attrBits_2]
theorem hasTrailingLength_enc : h.hasTrailingLength = d.trl := by
  unfold LRSH.hasTrailingLength; rw [ha, attrByte_eq, attrBits_1]
theorem hasPadBytes_enc : h.hasPadBytes = decide (d.pad ≠ 0) := by
  unfold LRSH.hasPadBytes; rw [ha, attrByte_eq, attrBits_0]

end hdr

/-! ### lengths -/

theorem u16_length (n : Nat) : (u16 n).length = 2 := rfl

theorem chkBytes_length (d : SegDesc) : d.chkBytes.length = if d.chk.isSome then 2 else 0 := by
  unfold SegDesc.chkBytes
  cases d.chk with
  | none => rfl
  | some p => rfl

theorem trlBytes_length (d : SegDesc) : d.trlBytes.length = if d.trl then 2 else 0 := by
  unfold SegDesc.trlBytes
  cases d.trl <;> simp [u16_length]

theorem lrsBytes_length (s : TSeg) (hn : s.data.length = s.d.n) : s.lrsBytes.length = s.d.segLen := by
  unfold TSeg.lrsBytes SegDesc.segLen
  simp only [List.length_append, u16_length, trlBytes_length, List.length_cons, List.length_nil, hn]
  omega

/-! ### header reads -/

theorem u16_val (n : Nat) : n / 256 * 256 + n % 256 = n := by omega

theorem readLRSH_enc (b : Bytes) (pos L a t : Nat) (rest : Bytes)
    (hd : b.drop pos = u16 L ++ [a, t] ++ rest) : readLRSH b pos = .ok ⟨pos, L, a, t⟩ := by
  unfold readLRSH
  rw [hd]
  simp [u16, u16_val]

theorem readVR_enc (b : Bytes) (pos L : Nat) (rest : Bytes) (h1 : 20 ≤ L) (h2 : L ≤ 16384)
    (hd : b.drop pos = vrHeader (some L) ++ rest) : readVR b pos = .ok ⟨pos, L⟩ := by
  unfold readVR
  rw [hd]
  simp only [vrHeader, u16, List.cons_append, List.nil_append, u16_val]
  rw [if_neg (by decide), if_neg (by omega), if_neg (by omega)]

theorem readVR_nil (b : Bytes) (pos : Nat) (hd : b.drop pos = []) : readVR b pos = .error .vrEOF := by
  unfold readVR; rw [hd]

theorem readLRSH_nil (b : Bytes) (pos : Nat) (hd : b.drop pos = []) : readLRSH b pos = .error .lrshEOF := by
  unfold readLRSH; rw [hd]

theorem drop_add' (b : Bytes) (p k : Nat) : b.drop (p + k) = (b.drop p).drop k := by
  rw [List.drop_drop]

/-! ### reading one segment -/

theorem lrPosCheck_ok (vr : VR) (h : LRSH) (r : Nat) (h1 : 80 ≤ vr.pos) (h2 : vr.pos + 4 ≤ h.pos) (h3 : 20 ≤ vr.len)
    (h4 : vr.len ≤ 16384) (h5 : vr.pos + vr.len = h.pos + h.len + r) (h6 : 16 ≤ h.len) :
    lrPosCheck vr h = .ok () := by
  unfold lrPosCheck
  rw [if_neg (by omega), if_neg (by omega), if_neg (by omega), if_neg (by omega), if_neg (by omega),
    if_neg (by omega), if_neg (by omega), if_neg (by omega)]

theorem padBytes_strip (d : SegDesc) (data : Bytes) (hp : d.pad ≠ 0) (he : d.enc = false) :
    stripPad (data ++ d.padBytes) = .ok data := by
  have hpb : d.padBytes = List.replicate (d.pad - 1) d.fill ++ [d.pad] := by
    unfold SegDesc.padBytes; simp [hp, he]
  unfold stripPad
  rw [hpb, ← List.append_assoc, List.getLast?_append]
  simp only [List.getLast?_singleton, Option.some_or]
  rw [if_neg (by simp; omega), if_neg hp]
  congr 1
  have : (data ++ List.replicate (d.pad - 1) d.fill ++ [d.pad]).length - d.pad = data.length := by
    simp; omega
  rw [this, List.append_assoc, List.take_left']
  rfl

/-- the hypotheses tying a header in hand to the segment `s` whose bytes are at `h.pos` -/
structure AtSeg (b : Bytes) (h : LRSH) (s : TSeg) (tail : Bytes) : Prop where
  drop : b.drop h.pos = s.lrsBytes ++ tail
  len : h.len = s.d.segLen
  attr : h.attr = attrByte s.eflr s.first s.last s.d
  type : h.type = s.type
  dlen : s.data.length = s.d.n

theorem dataLen_enc {b h s tail} (A : AtSeg b h s tail) : h.dataLen = ((s.d.n + s.d.padBytes.length : Nat) : Int) := by
  unfold LRSH.dataLen
  rw [hasChecksum_enc A.attr, hasTrailingLength_enc A.attr, A.len]
  unfold SegDesc.segLen
  rw [chkBytes_length]
  cases s.d.chk.isSome <;> cases s.d.trl <;> simp <;> omega

theorem rawBody_enc {b h s tail} (A : AtSeg b h s tail) : rawBody b h = s.data ++ s.d.padBytes := by
  unfold rawBody
  rw [dataLen_enc A, if_neg (by omega), drop_add', A.drop]
  unfold TSeg.lrsBytes
  have h4 : (u16 s.d.segLen ++ [attrByte s.eflr s.first s.last s.d, s.type]).length = 4 := rfl
  rw [List.append_assoc, List.drop_left' h4, Int.toNat_natCast, List.append_assoc, List.take_left']
  simp [A.dlen]

theorem readFull_enc {b h s tail} (vr : VR) (A : AtSeg b h s tail) : readFull b vr h = .ok s.data := by
  unfold readFull
  simp only [rawBody_enc A]
  rw [if_neg (by rw [dataLen_enc A]; simp [A.dlen])]
  unfold LRSH.mustStripPadding
  rw [hasPadBytes_enc A.attr, isEncrypted_enc A.attr]
  by_cases hp : s.d.pad = 0
  · have : s.d.padBytes = [] := by unfold SegDesc.padBytes; simp [hp]
    simp [hp, this]
  · cases he : s.d.enc
    · simp [hp, padBytes_strip s.d s.data hp he]
    · have : s.d.padBytes = [] := by unfold SegDesc.padBytes; simp [he]
      simp [this]

theorem drop_next {b h s tail} (A : AtSeg b h s tail) : b.drop h.nextPos = tail := by
  unfold LRSH.nextPos
  rw [drop_add', A.drop, A.len, List.drop_left' (lrsBytes_length s A.dlen)]

/-! ### the flat segment walk -/

/-- what the reader needs of the remaining flat segment list: `r` = bytes left in the visible record in hand,
`nf` = the previous segment was a last one (so the next must be marked first) -/
def segsWF : Nat → Bool → List TSeg → Prop
  | _, _, [] => True
  | r, nf, s :: ss =>
    s.data.length = s.d.n ∧ 16 ≤ s.d.segLen ∧ (nf = true → s.first = true) ∧
    (match s.d.vr with
     | some L => r = 0 ∧ 20 ≤ L ∧ L ≤ 16384 ∧ 4 + s.d.segLen ≤ L ∧ segsWF (L - (4 + s.d.segLen)) s.last ss
     | none => r ≠ 0 ∧ s.d.segLen ≤ r ∧ segsWF (r - s.d.segLen) s.last ss)

/-- the records a flat segment list denotes (a trailing unfinished record is dropped, as the reader does) -/
def collect : List TSeg → Option (Bool × Nat × Bytes) → List LR
  | [], _ => []
  | s :: ss, cur =>
    let p := match cur with
      | some p => p
      | none => (s.eflr, s.type, [])
    if s.last then ⟨p.1, p.2.1, p.2.2 ++ s.data⟩ :: collect ss none
    else collect ss (some (p.1, p.2.1, p.2.2 ++ s.data))

structure Inv (vr : VR) (h : LRSH) (r : Nat) : Prop where
  p1 : 80 ≤ vr.pos
  p2 : vr.pos + 4 ≤ h.pos
  p3 : 20 ≤ vr.len
  p4 : vr.len ≤ 16384
  p5 : vr.pos + vr.len = h.pos + h.len + r

theorem lrsBytes_split (s : TSeg) : ∃ rest, s.lrsBytes = u16 s.d.segLen ++ [attrByte s.eflr s.first s.last s.d, s.type] ++ rest :=
  ⟨_, rfl⟩

theorem atSeg_of_drop (b : Bytes) (pos : Nat) (s : TSeg) (tail : Bytes) (hd : b.drop pos = s.lrsBytes ++ tail)
    (hn : s.data.length = s.d.n) :
    ∃ h', readLRSH b pos = .ok h' ∧ h'.pos = pos ∧ AtSeg b h' s tail := by
  obtain ⟨rest, hr⟩ := lrsBytes_split s
  refine ⟨⟨pos, s.d.segLen, attrByte s.eflr s.first s.last s.d, s.type⟩, ?_, rfl, ⟨hd, rfl, rfl, rfl, hn⟩⟩
  apply readLRSH_enc b pos _ _ _ (rest ++ tail)
  rw [hd, hr, List.append_assoc]

theorem seekNext_nil {b : Bytes} {vr : VR} {h : LRSH} {s : TSeg} (A : AtSeg b h s []) :
    ∃ e, seekNext b vr h = .error e ∧ endOf e = none := by
  have hd := drop_next A
  unfold seekNext
  by_cases hc : h.nextPos = vr.nextPos
  · refine ⟨.vrEOF, ?_, rfl⟩
    simp only [hc, if_true]
    rw [readVR_nil b _ (hc ▸ hd)]
  · refine ⟨.lrshEOF, ?_, rfl⟩
    simp only [hc, if_false]
    rw [readLRSH_nil b _ hd]

theorem seekNext_cons {b : Bytes} {vr : VR} {h : LRSH} {s s' : TSeg} {ss : List TSeg} {tail : Bytes} {r : Nat} {nf : Bool}
    (A : AtSeg b h s (s'.bytes ++ tail)) (I : Inv vr h r) (W : segsWF r nf (s' :: ss)) :
    ∃ vr' h' r', seekNext b vr h = .ok (vr', h') ∧ AtSeg b h' s' tail ∧ Inv vr' h' r' ∧ 16 ≤ s'.d.segLen
      ∧ (nf = true → s'.first = true) ∧ segsWF r' s'.last ss
      ∧ (vr', h'.pos) = (match s'.d.vr with
          | some L => (⟨h.nextPos, L⟩, h.nextPos + 4)
          | none => (vr, h.nextPos))
      ∧ (h.nextPos = vr.nextPos ↔ s'.d.vr.isSome = true) := by
  have hd := drop_next A
  obtain ⟨hn, h16, hf, hm⟩ := W
  unfold TSeg.bytes at hd
  unfold seekNext
  cases hv : s'.d.vr with
  | some L =>
    rw [hv] at hm hd
    obtain ⟨hr, hL1, hL2, hL3, hW⟩ := hm
    have hnp : h.nextPos = vr.nextPos := by unfold LRSH.nextPos VR.nextPos; have := I.p5; omega
    rw [if_pos hnp, readVR_enc b h.nextPos L (s'.lrsBytes ++ tail) hL1 hL2 (by rw [hd, List.append_assoc])]
    have hd4 : b.drop (h.nextPos + 4) = s'.lrsBytes ++ tail := by
      rw [drop_add', hd, List.append_assoc]
      exact List.drop_left' rfl
    obtain ⟨h', hh', hpos, A'⟩ := atSeg_of_drop b _ s' tail hd4 hn
    refine ⟨⟨h.nextPos, L⟩, h', L - (4 + s'.d.segLen), by simp only [hh'], A', ?_, h16, hf, hW, by simp [hpos],
      by simp [hnp]⟩
    have := I.p1; have := I.p2; have hl := A'.len
    have hpos' : h'.pos = h.pos + h.len + 4 := hpos
    constructor <;> simp only [] <;> omega
  | none =>
    rw [hv] at hm hd
    obtain ⟨hr, hle, hW⟩ := hm
    have hnp : h.nextPos ≠ vr.nextPos := by unfold LRSH.nextPos VR.nextPos; have := I.p5; omega
    rw [if_neg hnp]
    obtain ⟨h', hh', hpos, A'⟩ := atSeg_of_drop b _ s' tail (by simpa [vrHeader] using hd) hn
    refine ⟨vr, h', r - s'.d.segLen, by simp only [hh'], A', ?_, h16, hf, hW, by simp [hpos], by simp [hnp]⟩
    have := I.p1; have := I.p2; have := I.p3; have := I.p4; have := I.p5; have hl := A'.len
    have hpos' : h'.pos = h.pos + h.len := hpos
    constructor <;> omega

theorem iterGo_flat (b : Bytes) :
    ∀ (ss : List TSeg) (s : TSeg) (fuel : Nat) (vr : VR) (h : LRSH) (cur : Option (Bool × Nat × Bytes)) (r : Nat),
      ss.length < fuel → AtSeg b h s (ss.flatMap TSeg.bytes) → Inv vr h r → 16 ≤ s.d.segLen →
      segsWF r s.last ss →
      iterGo b fuel vr h cur = (collect (s :: ss) cur, none) := by
  intro ss
  induction ss with
  | nil =>
    intro s fuel vr h cur r hfuel A I h16 _
    obtain ⟨f, rfl⟩ : ∃ f, fuel = f + 1 := ⟨fuel - 1, by omega⟩
    obtain ⟨e, he, hee⟩ := seekNext_nil (vr := vr) (by simpa using A)
    have hpc := lrPosCheck_ok vr h r I.p1 I.p2 I.p3 I.p4 I.p5 (by rw [A.len]; exact h16)
    unfold iterGo
    simp only [hpc, readFull_enc vr A, isLast_enc A.attr, isEflr_enc A.attr, A.type, he, hee, collect]
    cases cur <;> cases s.last <;> simp
  | cons s' ss ih =>
    intro s fuel vr h cur r hfuel A I h16 W
    obtain ⟨f, rfl⟩ : ∃ f, fuel = f + 1 := ⟨fuel - 1, by simp at hfuel; omega⟩
    rw [List.flatMap_cons] at A
    obtain ⟨vr', h', r', hs, A', I', h16', hf', W', _, _⟩ := seekNext_cons A I W
    have hpc := lrPosCheck_ok vr h r I.p1 I.p2 I.p3 I.p4 I.p5 (by rw [A.len]; exact h16)
    have hfu : ss.length < f := by simp at hfuel; omega
    unfold iterGo
    simp only [hpc, readFull_enc vr A, isLast_enc A.attr, isEflr_enc A.attr, A.type, hs]
    cases hl : s.last
    · -- not the last segment of its record: continue with the accumulator
      cases cur with
      | none =>
        simp only [ih s' f vr' h' _ r' hfu A' I' h16' W']
        simp [collect, hl]
      | some p =>
        simp only [ih s' f vr' h' _ r' hfu A' I' h16' W']
        simp [collect, hl]
    · have hfirst : h'.isFirst = true := by rw [isFirst_enc A'.attr]; exact hf' hl
      cases cur with
      | none =>
        simp only [hfirst, ih s' f vr' h' none r' hfu A' I' h16' W']
        simp [collect, hl]
      | some p =>
        simp only [hfirst, ih s' f vr' h' none r' hfu A' I' h16' W']
        simp [collect, hl]

/-! ### from records + layout to the flat list -/

theorem collect_none_cons (s : TSeg) (ss : List TSeg) :
    collect (s :: ss) none = collect (s :: ss) (some (s.eflr, s.type, [])) := by
  simp [collect]

theorem collect_cutRec (r : LR) (rest : List TSeg) (e : Bool) (t : Nat) :
    ∀ (ds : List SegDesc) (f : Bool) (data acc : Bytes), ds ≠ [] →
      collect (cutRec r f ds data ++ rest) (some (e, t, acc))
        = ⟨e, t, acc ++ data.take (ds.map (·.n)).sum⟩ :: collect rest none := by
  intro ds
  induction ds with
  | nil => intro f data acc h; exact absurd rfl h
  | cons d ds' ih =>
    intro f data acc _
    cases ds' with
    | nil => simp [cutRec, collect]
    | cons d2 ds'' =>
      have hc : cutRec r f (d :: d2 :: ds'') data = ⟨r.eflr, r.type, f, false, d, data.take d.n⟩ ::
          cutRec r false (d2 :: ds'') (data.drop d.n) := rfl
      rw [hc, List.cons_append]
      have hcol : ∀ (s : TSeg) (X : List TSeg) (p : Bool × Nat × Bytes), s.last = false →
          collect (s :: X) (some p) = collect X (some (p.1, p.2.1, p.2.2 ++ s.data)) := by
        intro s X p hl; simp [collect, hl]
      rw [hcol _ _ _ rfl, ih false (data.drop d.n) (acc ++ data.take d.n) (by simp)]
      simp only [List.map_cons, List.sum_cons, List.append_assoc]
      rw [List.take_add (i := d.n)]

theorem collect_cutAll : ∀ (recs : List LR) (dss : List (List SegDesc)), recsOK recs dss = true →
    collect (cutAll recs dss) none = recs := by
  intro recs
  induction recs with
  | nil => intro dss _; cases dss <;> simp [cutAll, collect]
  | cons r rs ih =>
    intro dss h
    cases dss with
    | nil => simp [recsOK] at h
    | cons ds dss =>
      simp only [recsOK, recOK, Bool.and_eq_true, Bool.not_eq_true', beq_iff_eq] at h
      obtain ⟨⟨⟨⟨⟨hne, hsum⟩, _⟩, _⟩, _⟩, hrest⟩ := h
      have hne' : ds ≠ [] := by intro h0; simp [h0] at hne
      unfold cutAll
      cases ds with
      | nil => exact absurd rfl hne'
      | cons d ds' =>
        have hc : cutRec r true (d :: ds') r.payload = ⟨r.eflr, r.type, true, ds'.isEmpty, d, r.payload.take d.n⟩ ::
            cutRec r false ds' (r.payload.drop d.n) := rfl
        have h2 := collect_cutRec r (cutAll rs dss) r.eflr r.type (d :: ds') true r.payload [] (by simp)
        rw [hc] at h2 ⊢
        rw [List.cons_append, collect_none_cons]
        rw [List.cons_append] at h2
        rw [h2, ih dss hrest, hsum]
        simp

theorem segsWF_cutRec (rc : LR) (restD : List SegDesc) (restS : List TSeg)
    (hrest : ∀ r', vrOK r' restD = true → segsWF r' true restS) :
    ∀ (ds : List SegDesc) (r : Nat) (nf f : Bool) (data : Bytes), ds ≠ [] → (nf = true → f = true) →
      data.length = (ds.map (·.n)).sum → ds.all SegDesc.ok = true → vrOK r (ds ++ restD) = true →
      segsWF r nf (cutRec rc f ds data ++ restS) := by
  intro ds
  induction ds with
  | nil => intro r nf f data h; exact absurd rfl h
  | cons d ds' ih =>
    intro r nf f data _ hnf hlen hall hvr
    simp only [List.all_cons, Bool.and_eq_true] at hall
    obtain ⟨hok, hall'⟩ := hall
    have h16 : 16 ≤ d.segLen := by
      unfold SegDesc.ok at hok; simp only [Bool.and_eq_true, decide_eq_true_eq] at hok; exact hok.1.2
    simp only [List.map_cons, List.sum_cons] at hlen
    have key : ∀ r2, vrOK r2 (ds' ++ restD) = true →
        segsWF r2 ds'.isEmpty (cutRec rc false ds' (data.drop d.n) ++ restS) := by
      intro r2 h2
      cases ds' with
      | nil => simpa [cutRec] using hrest r2 (by simpa using h2)
      | cons d2 ds'' =>
        exact ih r2 _ false (data.drop d.n) (by simp) (by simp) (by simp at hlen ⊢; omega) hall' h2
    simp only [cutRec, List.cons_append, segsWF]
    refine ⟨by simp; omega, h16, hnf, ?_⟩
    simp only [List.cons_append, vrOK] at hvr
    cases hv : d.vr with
    | some L =>
      simp only [hv, Bool.and_eq_true, beq_iff_eq, decide_eq_true_eq] at hvr ⊢
      obtain ⟨⟨⟨⟨h0, h1⟩, h2⟩, h3⟩, h4⟩ := hvr
      exact ⟨h0, h1, h2, h3, key _ h4⟩
    | none =>
      simp only [hv, Bool.and_eq_true, bne_iff_ne, ne_eq, decide_eq_true_eq] at hvr ⊢
      obtain ⟨⟨h0, h1⟩, h2⟩ := hvr
      exact ⟨h0, h1, key _ h2⟩

theorem segsWF_cutAll : ∀ (recs : List LR) (dss : List (List SegDesc)) (r : Nat), recsOK recs dss = true →
    vrOK r dss.flatten = true → segsWF r true (cutAll recs dss) := by
  intro recs
  induction recs with
  | nil => intro dss r _ _; cases dss <;> simp [cutAll, segsWF]
  | cons rc rs ih =>
    intro dss r h hv
    cases dss with
    | nil => simp [recsOK] at h
    | cons ds dss =>
      simp only [recsOK, recOK, Bool.and_eq_true, Bool.not_eq_true', beq_iff_eq] at h
      obtain ⟨⟨⟨⟨⟨hne, hsum⟩, _⟩, _⟩, hall⟩, hrest⟩ := h
      have hne' : ds ≠ [] := by intro h0; simp [h0] at hne
      unfold cutAll
      rw [List.flatten_cons] at hv
      exact segsWF_cutRec rc dss.flatten (cutAll rs dss) (fun r' h' => ih dss r' hrest h') ds r true true rc.payload
        hne' (fun _ => rfl) hsum.symm hall hv

theorem length_le_flatMap_bytes : ∀ (ss : List TSeg), ss.length ≤ (ss.flatMap TSeg.bytes).length := by
  intro ss
  induction ss with
  | nil => simp
  | cons s ss ih =>
    simp only [List.flatMap_cons, List.length_cons, List.length_append]
    have : 1 ≤ s.bytes.length := by
      unfold TSeg.bytes TSeg.lrsBytes u16
      simp only [List.length_append, List.length_cons]
      omega
    omega

/-! ### storage unit label -/

theorem decDigitsAux_spec : ∀ (f n : Nat) (acc : Bytes), n < f →
    ∃ ds, decDigitsAux f n acc = ds ++ acc ∧
      (∀ a, ds.foldl (fun a d => a * 10 + (d - 48)) a = a * 10 ^ ds.length + n) ∧
      (∀ c ∈ ds, mDigit c = true) ∧ (1 ≤ n → ∃ d t, ds = d :: t ∧ 49 ≤ d ∧ d ≤ 57) := by
  intro f
  induction f with
  | zero => intro n acc h; omega
  | succ f ih =>
    intro n acc hn
    unfold decDigitsAux
    by_cases h10 : n < 10
    · refine ⟨[48 + n], by simp [h10], ?_, ?_, ?_⟩
      · intro a; simp
      · intro c hc; simp at hc; subst hc; simp [mDigit]; omega
      · intro h1; exact ⟨48 + n, [], rfl, by omega, by omega⟩
    · obtain ⟨ds, h1, h2, h3, h4⟩ := ih (n / 10) ((48 + n % 10) :: acc) (by omega)
      refine ⟨ds ++ [48 + n % 10], by simp [h10, h1], ?_, ?_, ?_⟩
      · intro a
        rw [List.foldl_append, h2]
        simp only [List.foldl_cons, List.foldl_nil, List.length_append, List.length_cons, List.length_nil]
        rw [Nat.pow_succ, ← Nat.mul_assoc, Nat.add_mul]
        omega
      · intro c hc
        rcases List.mem_append.mp hc with hc | hc
        · exact h3 c hc
        · simp at hc; subst hc; simp [mDigit]; omega
      · intro _
        obtain ⟨d, t, hd, hd1, hd2⟩ := h4 (by omega)
        exact ⟨d, t ++ [48 + n % 10], by simp [hd], hd1, hd2⟩

theorem decDigits_spec (n : Nat) :
    ofDec (decDigits n) = n ∧ (∀ c ∈ decDigits n, mDigit c = true) ∧
      (1 ≤ n → ∃ d t, decDigits n = d :: t ∧ 49 ≤ d ∧ d ≤ 57) := by
  obtain ⟨ds, h1, h2, h3, h4⟩ := decDigitsAux_spec (n + 1) n [] (by omega)
  unfold decDigits ofDec
  rw [h1, List.append_nil]
  exact ⟨by rw [h2]; simp, h3, h4⟩

/-- the expressions found in the source are the ones the roundtrip is proved for -/
theorem gen_seq : Gen.C01Sul.reSeqItems = itemsNum := by decide
theorem gen_maxLen : Gen.C01Sul.reMaxLenItems = itemsNum := by decide
theorem gen_version : Gen.C01Sul.reVersionItems = itemsVersion := by decide
theorem gen_structure : Gen.C01Sul.reStructureItems = itemsStructure := by decide
theorem gen_size : Gen.C01Sul.size = 80 := by decide

theorem matchNum_enc (fill : Bytes) (n : Nat) (hf : fill.all isFill = true) (hn : 1 ≤ n) :
    reMatch itemsNum (fill ++ decDigits n) = some (decDigits n) := by
  obtain ⟨_, hdig, hhead⟩ := decDigits_spec n
  obtain ⟨d, t, hdt, h1, h2⟩ := hhead hn
  rw [hdt] at hdig ⊢
  exact reMatch_num fill d t (fun y hy => List.all_eq_true.mp hf y hy) h1 h2
    (fun y hy => hdig y (by simp [hy]))

theorem five_split (A B C D E : Bytes) (hA : A.length = 4) (hB : B.length = 5) (hC : C.length = 6) (hD : D.length = 5) :
    let X := A ++ B ++ C ++ D ++ E
    X.take 4 = A ∧ (X.drop 4).take 5 = B ∧ (X.drop 9).take 6 = C ∧ (X.drop 15).take 5 = D ∧ X.drop 20 = E := by
  intro X
  have hX : X = A ++ (B ++ (C ++ (D ++ E))) := by simp [X, List.append_assoc]
  have d4 : X.drop 4 = B ++ (C ++ (D ++ E)) := by rw [hX]; exact List.drop_left' hA
  have d9 : X.drop 9 = C ++ (D ++ E) := by
    rw [show (9 : Nat) = 4 + 5 from rfl, drop_add', d4]; exact List.drop_left' hB
  have d15 : X.drop 15 = D ++ E := by
    rw [show (15 : Nat) = 9 + 6 from rfl, drop_add', d9]; exact List.drop_left' hC
  have d20 : X.drop 20 = E := by
    rw [show (20 : Nat) = 15 + 5 from rfl, drop_add', d15]; exact List.drop_left' hD
  refine ⟨by rw [hX]; exact List.take_left' hA, by rw [d4]; exact List.take_left' hB,
    by rw [d9]; exact List.take_left' hC, by rw [d15]; exact List.take_left' hD, d20⟩


theorem SULW.conformant_iff (s : SULW) (h : s.conformant = true) :
    1 ≤ s.seq ∧ s.seqFill.all isFill = true ∧ s.seqFill.length + (decDigits s.seq).length = 4 ∧
    (∃ a b, s.ver = [86, 49, 46, a, b] ∧ mDigit a = true ∧ mDigit b = true) ∧
    20 ≤ s.maxLen ∧ s.maxLen ≤ 16384 ∧ s.maxFill.all isFill = true ∧
    s.maxFill.length + (decDigits s.maxLen).length = 5 ∧ s.ident.length = 60 := by
  unfold SULW.conformant at h
  simp only [Bool.and_eq_true, decide_eq_true_eq, beq_iff_eq] at h
  obtain ⟨⟨⟨⟨⟨⟨⟨⟨⟨h1, h2⟩, h3⟩, h4⟩, h5⟩, h6⟩, h7⟩, h8⟩, h9⟩, _⟩ := h
  refine ⟨h1, h2, h3, ?_, h5, h6, h7, h8, h9⟩
  split at h4
  · rename_i a b hv
    simp only [Bool.and_eq_true] at h4
    exact ⟨a, b, hv, h4.1, h4.2⟩
  · exact absurd h4 (by simp)

theorem encodeSUL_length (s : SULW) (h : s.conformant = true) : (encodeSUL s).length = 80 := by
  obtain ⟨_, _, h3, ⟨a, b, hv, _, _⟩, _, _, _, h8, h9⟩ := s.conformant_iff h
  unfold encodeSUL recordWord
  simp only [List.length_append, hv, List.length_cons, List.length_nil, h9]
  omega

theorem sulParse_enc (s : SULW) (h : s.conformant = true) :
    sulParse (encodeSUL s) = some ⟨s.seq, s.ver, recordWord, s.maxLen, s.ident⟩ := by
  have hlen := encodeSUL_length s h
  obtain ⟨h1, h2, h3, ⟨a, b, hv, ha, hb⟩, h5, _, h7, h8, _⟩ := s.conformant_iff h
  obtain ⟨t4, t5, t6, t7, t8⟩ := five_split (s.seqFill ++ decDigits s.seq) s.ver recordWord
    (s.maxFill ++ decDigits s.maxLen) s.ident (by simpa using h3) (by simp [hv]) rfl (by simpa using h8)
  have e : encodeSUL s = s.seqFill ++ decDigits s.seq ++ s.ver ++ recordWord ++ (s.maxFill ++ decDigits s.maxLen) ++ s.ident := rfl
  unfold sulParse
  rw [gen_size, gen_seq, gen_maxLen, gen_version, gen_structure, e]
  rw [e] at hlen
  simp only [hlen, ne_eq, not_true_eq_false, if_false] at t4 t5 t6 t7 t8 ⊢
  rw [t4, t5, t6, t7, t8, matchNum_enc _ _ h2 h1, matchNum_enc _ _ h7 (by omega)]
  have hsv : reMatch itemsVersion s.ver = some s.ver := by rw [hv]; exact reMatch_version a b ha hb
  simp only [hsv, show reMatch itemsStructure recordWord = some recordWord from reMatch_structure,
    (decDigits_spec s.seq).1, (decDigits_spec s.maxLen).1]

/-! ### counting first segments -/

theorem filter_first_cutRec_false (r : LR) : ∀ (ds : List SegDesc) (data : Bytes),
    (cutRec r false ds data).filter (·.first) = [] := by
  intro ds
  induction ds with
  | nil => intro data; rfl
  | cons d ds ih => intro data; simp [cutRec, ih]

theorem count_first_cutAll : ∀ (recs : List LR) (dss : List (List SegDesc)), recsOK recs dss = true →
    ((cutAll recs dss).filter (·.first)).length = recs.length := by
  intro recs
  induction recs with
  | nil => intro dss _; cases dss <;> simp [cutAll]
  | cons r rs ih =>
    intro dss h
    cases dss with
    | nil => simp [recsOK] at h
    | cons ds dss =>
      simp only [recsOK, recOK, Bool.and_eq_true, Bool.not_eq_true'] at h
      obtain ⟨⟨⟨⟨⟨hne, _⟩, _⟩, _⟩, _⟩, hrest⟩ := h
      cases ds with
      | nil => simp at hne
      | cons d ds' =>
        simp [cutAll, cutRec, filter_first_cutRec_false, ih dss hrest]

/-! ### the whole file -/

theorem iterLR_flat (sul : SULW) (segs : List TSeg) (hs : sul.conformant = true) (hne : segs ≠ [])
    (W : segsWF 0 true segs) :
    iterLR (encodeSUL sul ++ segs.flatMap TSeg.bytes) = (collect segs none, none) := by
  have hlen := encodeSUL_length sul hs
  cases segs with
  | nil => exact absurd rfl hne
  | cons s ss =>
    obtain ⟨hn, h16, hf, hm⟩ := W
    cases hv : s.d.vr with
    | none => rw [hv] at hm; exact absurd rfl hm.1
    | some L =>
      rw [hv] at hm
      obtain ⟨_, hL1, hL2, hL3, hW⟩ := hm
      generalize hb : encodeSUL sul ++ (s :: ss).flatMap TSeg.bytes = b
      have ht : b.take 80 = encodeSUL sul := by rw [← hb]; exact List.take_left' hlen
      have hd80 : b.drop 80 = vrHeader (some L) ++ (s.lrsBytes ++ ss.flatMap TSeg.bytes) := by
        rw [← hb, List.drop_left' hlen, List.flatMap_cons, TSeg.bytes, hv, List.append_assoc]
      have hd84 : b.drop 84 = s.lrsBytes ++ ss.flatMap TSeg.bytes := by
        rw [show (84 : Nat) = 80 + 4 from rfl, drop_add', hd80]; exact List.drop_left' rfl
      obtain ⟨h, hh, hpos, A⟩ := atSeg_of_drop b 84 s _ hd84 hn
      have hfirst : h.isFirst = true := by rw [isFirst_enc A.attr]; exact hf rfl
      have I : Inv ⟨80, L⟩ h (L - (4 + s.d.segLen)) := by
        have := A.len
        constructor <;> simp only [hpos] <;> omega
      have hfuel : ss.length < b.length + 1 := by
        have := length_le_flatMap_bytes ss
        rw [← hb]; simp only [List.length_append, List.flatMap_cons]; omega
      unfold iterLR
      rw [ht, sulParse_enc sul hs]
      simp only [readVR_enc b 80 L _ hL1 hL2 hd80, hh, hfirst, Bool.not_true, Bool.false_eq_true, if_false]
      exact iterGo_flat b ss s _ _ h none _ hfuel A I h16 hW

theorem iterLR_encode (sul : SULW) (recs : List LR) (ℓ : Layout) (hs : sul.conformant = true) (hne : recs ≠ [])
    (hc : ℓ.conformant recs = true) : iterLR (encode sul recs ℓ) = (recs, none) := by
  unfold Layout.conformant at hc
  simp only [Bool.and_eq_true] at hc
  have hcut : cutAll recs ℓ.recs ≠ [] := by
    intro h0
    have := collect_cutAll recs ℓ.recs hc.1
    rw [h0] at this
    exact hne (by simpa [collect] using this.symm)
  unfold encode
  rw [iterLR_flat sul _ hs hcut (segsWF_cutAll recs ℓ.recs 0 hc.1 hc.2), collect_cutAll recs ℓ.recs hc.1]

end TD.C01
