/-
C01 — the encoder emits bytes: every element of `encode sul recs ℓ` is < 256 for conformant input.
-/
import TD.C01.Lemmas

namespace TD.C01

theorem attrBits_lt (b7 b6 b5 b4 b3 b2 b1 b0 : Bool) : attrBits b7 b6 b5 b4 b3 b2 b1 b0 < 256 := by
  cases b7 <;> cases b6 <;> cases b5 <;> cases b4 <;> cases b3 <;> cases b2 <;> cases b1 <;> cases b0 <;> decide

theorem u16_lt (n : Nat) (h : n < 65536) : ∀ x ∈ u16 n, x < 256 := by
  intro x hx
  simp only [u16, List.mem_cons, List.not_mem_nil, or_false] at hx
  rcases hx with rfl | rfl <;> omega

theorem vrOK_bounds : ∀ (ds : List SegDesc) (r : Nat), r ≤ 16384 → vrOK r ds = true →
    ∀ d ∈ ds, d.segLen ≤ 16384 ∧ (∀ L, d.vr = some L → L ≤ 16384) := by
  intro ds
  induction ds with
  | nil => intro r _ _ d hd; simp at hd
  | cons x xs ih =>
    intro r hr hv d hd
    simp only [vrOK] at hv
    cases hx : x.vr with
    | some L =>
      simp only [hx, Bool.and_eq_true, beq_iff_eq, decide_eq_true_eq] at hv
      obtain ⟨⟨⟨⟨_, _⟩, h2⟩, h3⟩, h4⟩ := hv
      rcases List.mem_cons.mp hd with rfl | hd'
      · exact ⟨by omega, fun L' hL' => by rw [hx] at hL'; cases hL'; exact h2⟩
      · exact ih _ (by omega) h4 d hd'
    | none =>
      simp only [hx, Bool.and_eq_true, bne_iff_ne, ne_eq, decide_eq_true_eq] at hv
      obtain ⟨⟨_, h1⟩, h2⟩ := hv
      rcases List.mem_cons.mp hd with rfl | hd'
      · exact ⟨by omega, fun L' hL' => by rw [hx] at hL'; cases hL'⟩
      · exact ih _ (by omega) h2 d hd'

/-- what is needed of a flat segment for its bytes to be bytes -/
def TSeg.small (s : TSeg) : Prop :=
  s.d.ok = true ∧ s.type < 256 ∧ (∀ x ∈ s.data, x < 256) ∧ s.d.segLen ≤ 16384 ∧ (∀ L, s.d.vr = some L → L ≤ 16384)

theorem TSeg.bytes_lt (s : TSeg) (h : s.small) : ∀ x ∈ s.bytes, x < 256 := by
  obtain ⟨hok, ht, hdata, hsl, hvr⟩ := h
  unfold SegDesc.ok at hok
  simp only [Bool.and_eq_true, decide_eq_true_eq] at hok
  obtain ⟨⟨⟨⟨⟨hpad, hfill⟩, hchk⟩, _⟩, _⟩, _⟩ := hok
  intro x hx
  unfold TSeg.bytes TSeg.lrsBytes at hx
  simp only [List.mem_append, List.mem_cons, List.not_mem_nil, or_false] at hx
  rcases hx with hx | (hx | hx | hx) | (hx | hx) | hx | hx
  · cases hv : s.d.vr with
    | none => rw [hv] at hx; simp [vrHeader] at hx
    | some L =>
      rw [hv] at hx
      simp only [vrHeader, List.mem_append, List.mem_cons, List.not_mem_nil, or_false] at hx
      rcases hx with hx | rfl | rfl
      · exact u16_lt L (by have := hvr L hv; omega) x hx
      · decide
      · decide
  · exact u16_lt _ (by omega) x hx
  · subst hx; rw [attrByte_eq]; exact attrBits_lt _ _ _ _ _ _ _ _
  · subst hx; exact ht
  · exact hdata x hx
  · unfold SegDesc.padBytes at hx
    split at hx
    · simp at hx
    · simp only [List.mem_append, List.mem_replicate, List.mem_singleton] at hx
      rcases hx with ⟨_, rfl⟩ | rfl
      · exact hfill
      · exact hpad
  · unfold SegDesc.chkBytes at hx
    cases hc : s.d.chk with
    | none => rw [hc] at hx; simp at hx
    | some p =>
      obtain ⟨a, b⟩ := p
      rw [hc] at hx hchk
      simp only [Bool.and_eq_true, decide_eq_true_eq] at hchk
      simp only [List.mem_cons, List.not_mem_nil, or_false] at hx
      rcases hx with rfl | rfl
      · exact hchk.1
      · exact hchk.2
  · unfold SegDesc.trlBytes at hx
    split at hx
    · exact u16_lt _ (by omega) x hx
    · simp at hx

theorem cutRec_mem (r : LR) : ∀ (ds : List SegDesc) (f : Bool) (data : Bytes) (s : TSeg), s ∈ cutRec r f ds data →
    s.d ∈ ds ∧ s.type = r.type ∧ (∀ x ∈ s.data, x ∈ data) := by
  intro ds
  induction ds with
  | nil => intro f data s h; simp [cutRec] at h
  | cons d ds ih =>
    intro f data s h
    simp only [cutRec, List.mem_cons] at h
    rcases h with rfl | h
    · exact ⟨by simp, rfl, fun x hx => List.mem_of_mem_take hx⟩
    · obtain ⟨h1, h2, h3⟩ := ih false (data.drop d.n) s h
      exact ⟨by simp [h1], h2, fun x hx => List.mem_of_mem_drop (h3 x hx)⟩

theorem cutAll_small : ∀ (recs : List LR) (dss : List (List SegDesc)), recsOK recs dss = true →
    (∀ d ∈ dss.flatten, d.segLen ≤ 16384 ∧ (∀ L, d.vr = some L → L ≤ 16384)) →
    ∀ s ∈ cutAll recs dss, s.small := by
  intro recs
  induction recs with
  | nil => intro dss _ _ s hs; cases dss <;> simp [cutAll] at hs
  | cons rc rs ih =>
    intro dss h hb s hs
    cases dss with
    | nil => simp [recsOK] at h
    | cons ds dss =>
      simp only [recsOK, recOK, Bool.and_eq_true, decide_eq_true_eq, List.all_eq_true] at h
      obtain ⟨⟨⟨⟨⟨_, _⟩, ht⟩, hp⟩, hall⟩, hrest⟩ := h
      simp only [cutAll, List.mem_append] at hs
      rcases hs with hs | hs
      · obtain ⟨h1, h2, h3⟩ := cutRec_mem rc ds true rc.payload s hs
        have hbd := hb s.d (by simp [h1])
        exact ⟨hall _ h1, by rw [h2]; exact ht, fun x hx => hp x (h3 x hx), hbd.1, hbd.2⟩
      · exact ih dss hrest (fun d hd => hb d (by simp [hd])) s hs

theorem encodeSUL_lt (s : SULW) (h : s.conformant = true) : ∀ x ∈ encodeSUL s, x < 256 := by
  have hid : s.ident.all (· < 256) = true := by
    unfold SULW.conformant at h
    simp only [Bool.and_eq_true] at h
    exact h.2
  obtain ⟨_, h2, _, ⟨a, b, hv, ha, hb⟩, _, _, h7, _, _⟩ := s.conformant_iff h
  have hfill : ∀ (l : Bytes), l.all isFill = true → ∀ x ∈ l, x < 256 := by
    intro l hl x hx
    have := List.all_eq_true.mp hl x hx
    simp only [isFill, Bool.or_eq_true, beq_iff_eq] at this
    omega
  have hdig : ∀ n, ∀ x ∈ decDigits n, x < 256 := by
    intro n x hx
    have := (decDigits_spec n).2.1 x hx
    simp only [mDigit, Bool.and_eq_true, decide_eq_true_eq] at this
    omega
  intro x hx
  unfold encodeSUL at hx
  simp only [List.mem_append] at hx
  rcases hx with ((((hx | hx) | hx) | hx) | (hx | hx)) | hx
  · exact hfill _ h2 x hx
  · exact hdig _ x hx
  · rw [hv] at hx
    simp only [mDigit, Bool.and_eq_true, decide_eq_true_eq] at ha hb
    simp only [List.mem_cons, List.not_mem_nil, or_false] at hx
    rcases hx with rfl | rfl | rfl | rfl | rfl <;> omega
  · simp only [recordWord, List.mem_cons, List.not_mem_nil, or_false] at hx
    rcases hx with rfl | rfl | rfl | rfl | rfl | rfl <;> decide
  · exact hfill _ h7 x hx
  · exact hdig _ x hx
  · have := List.all_eq_true.mp hid x hx
    simpa using this

theorem encode_lt (sul : SULW) (recs : List LR) (ℓ : Layout) (hs : sul.conformant = true)
    (hc : ℓ.conformant recs = true) : ∀ x ∈ encode sul recs ℓ, x < 256 := by
  unfold Layout.conformant at hc
  simp only [Bool.and_eq_true] at hc
  have hsm := cutAll_small recs ℓ.recs hc.1 (vrOK_bounds _ 0 (by omega) hc.2)
  intro x hx
  unfold encode at hx
  rcases List.mem_append.mp hx with hx | hx
  · exact encodeSUL_lt sul hs x hx
  · obtain ⟨s, hs1, hs2⟩ := List.mem_flatMap.mp hx
    exact TSeg.bytes_lt s (hsm s hs1) x hs2

end TD.C01
