/-
C01 — the label expressions (as item lists) match what the specification encoder writes.
-/
import TD.C01.Regex

namespace TD.C01

def clsFill : Cls := ⟨[(32, 32), (48, 48)], false⟩      -- [0 ]  (ranges in the translator's canonical order)
def clsNZ : Cls := ⟨[(49, 57)], false⟩                  -- [1-9]
def clsD : Cls := ⟨[(48, 57)], false⟩                   -- [0-9] and \d
def clsAny : Cls := ⟨[(10, 10)], true⟩                  -- .
def clsLit (c : Nat) : Cls := ⟨[(c, c)], false⟩

/-- `^[0 ]*([1-9][0-9]*)$` -/
def itemsNum : List RItem := [.bol, .star clsFill, .gopen, .one clsNZ, .star clsD, .gclose, .eol]
/-- `^(V1.\d\d)$` -/
def itemsVersion : List RItem :=
  [.bol, .gopen, .one (clsLit 86), .one (clsLit 49), .one clsAny, .one clsD, .one clsD, .gclose, .eol]
/-- `^(RECORD)$` -/
def itemsStructure : List RItem :=
  [.bol, .gopen, .one (clsLit 82), .one (clsLit 69), .one (clsLit 67), .one (clsLit 79), .one (clsLit 82), .one (clsLit 68),
   .gclose, .eol]

theorem clsFill_has (x : Nat) : clsFill.has x = (x == 48 || x == 32) := by
  unfold Cls.has clsFill
  by_cases h1 : x = 48
  · subst h1; rfl
  · by_cases h2 : x = 32
    · subst h2; rfl
    · have : (x == 48) = false := by simp [h1]
      have : (x == 32) = false := by simp [h2]
      simp [*]
      omega

theorem clsD_has (x : Nat) : clsD.has x = (decide (48 ≤ x) && decide (x ≤ 57)) := by
  simp [Cls.has, clsD]

theorem clsNZ_has (x : Nat) : clsNZ.has x = (decide (49 ≤ x) && decide (x ≤ 57)) := by
  simp [Cls.has, clsNZ]

theorem starRems_skip (c : Cls) (x : Nat) (t : List Nat) (hx : c.has x = false) :
    ∀ (pre : List Nat), (∀ y ∈ pre, c.has y = true) → ∃ more, starRems c (pre ++ x :: t) = (x :: t) :: more := by
  intro pre
  induction pre with
  | nil => intro _; exact ⟨[], by simp [starRems, hx]⟩
  | cons y ys ih =>
    intro h
    obtain ⟨more, hm⟩ := ih (fun z hz => h z (by simp [hz]))
    refine ⟨more ++ [y :: (ys ++ x :: t)], ?_⟩
    simp [starRems, h y (by simp), hm]

theorem starRems_all (c : Cls) : ∀ (t : List Nat), (∀ y ∈ t, c.has y = true) → ∃ more, starRems c t = [] :: more := by
  intro t
  induction t with
  | nil => intro _; exact ⟨[], rfl⟩
  | cons y ys ih =>
    intro h
    obtain ⟨more, hm⟩ := ih (fun z hz => h z (by simp [hz]))
    exact ⟨more ++ [y :: ys], by simp [starRems, h y (by simp), hm]⟩

theorem head?_flatMap_cons {α β : Type} (g : α → List β) (a : α) (l : List α) (b : β) (rest : List β)
    (h : g a = b :: rest) : ((a :: l).flatMap g).head? = some b := by
  simp [List.flatMap_cons, h]

/-- the number expression on `fill ++ digits` captures the digits -/
theorem reMatch_num (fill : List Nat) (d : Nat) (t : List Nat) (hf : ∀ y ∈ fill, (y == 48 || y == 32) = true)
    (hd1 : 49 ≤ d) (hd2 : d ≤ 57) (ht : ∀ y ∈ t, (decide (48 ≤ y) && decide (y ≤ 57)) = true) :
    reMatch itemsNum (fill ++ d :: t) = some (d :: t) := by
  have hdF : clsFill.has d = false := by rw [clsFill_has]; simp; omega
  obtain ⟨more1, h1⟩ := starRems_skip clsFill d t hdF fill (fun y hy => by rw [clsFill_has]; exact hf y hy)
  obtain ⟨more2, h2⟩ := starRems_all clsD t (fun y hy => by rw [clsD_has]; exact ht y hy)
  have hNZ : clsNZ.has d = true := by rw [clsNZ_has]; simp; omega
  unfold reMatch
  have key : (matchItems (fill ++ d :: t) itemsNum (fill ++ d :: t) none none).head?
      = some ([], some fill.length, some (fill ++ d :: t).length) := by
    simp only [itemsNum, matchItems, if_true, h1]
    apply head?_flatMap_cons
    simp only [matchItems, hNZ, if_true, h2, List.flatMap_cons]
    simp
    rfl
  rw [key]
  simp

theorem reMatch_version (a b : Nat) (ha : (decide (48 ≤ a) && decide (a ≤ 57)) = true)
    (hb : (decide (48 ≤ b) && decide (b ≤ 57)) = true) :
    reMatch itemsVersion [86, 49, 46, a, b] = some [86, 49, 46, a, b] := by
  have h1 : (clsLit 86).has 86 = true := by decide
  have h2 : (clsLit 49).has 49 = true := by decide
  have h3 : clsAny.has 46 = true := by decide
  have h4 : clsD.has a = true := by rw [clsD_has]; exact ha
  have h5 : clsD.has b = true := by rw [clsD_has]; exact hb
  unfold reMatch
  simp [itemsVersion, matchItems, h1, h2, h3, h4, h5]

theorem reMatch_structure : reMatch itemsStructure [82, 69, 67, 79, 82, 68] = some [82, 69, 67, 79, 82, 68] := by
  decide

end TD.C01
