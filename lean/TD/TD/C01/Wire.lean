/-
C01/C02 — text (de)serialisation shared by the two drivers: labels, records + layouts, error names.  Core Lean only.
-/
import TD.Common.Proto
import TD.C01.Model
import TD.C01.Spec
open TD TD.C01 TD.Proto

namespace TD.C01.Drv

def errName : Err → String
  | .vrEOF => "ExceptionVisibleRecordEOF"
  | .vr => "ExceptionVisibleRecord"
  | .lrshEOF => "ExceptionLogicalRecordSegmentHeaderEOF"
  | .lrsh => "ExceptionLogicalRecordSegmentHeader"
  | .fileRead => "ExceptionFileRead"
  | .fileReadEOF => "ExceptionFileReadEOF"
  | .value => "ValueError"
  | .assertion => "AssertionError"
  | .index => "IndexError"
  | .lrshSeq => "ExceptionLogicalRecordSegmentHeaderSequence"
  | .fuel => "MODEL-FUEL"
  | .regexChanged => "MODEL-REGEX"
  | .attribute => "AttributeError"

def bool01 (s : String) : Option Bool :=
  if s = "1" then some true else if s = "0" then some false else none

def parseSeg (s : String) : Option SegDesc :=
  match s.splitOn ":" with
  | [n, pad, fill, chk, trl, enc, pkt, vr] => do
    let n ← n.toNat?
    let pad ← pad.toNat?
    let fill ← fill.toNat?
    let chk ← (if chk = "N" then some none else
      match unhex chk with
      | some [a, b] => some (some (a, b))
      | _ => none)
    let trl ← bool01 trl
    let enc ← bool01 enc
    let pkt ← bool01 pkt
    let vr ← (if vr = "N" then some none else vr.toNat?.map some)
    pure ⟨n, pad, fill, chk, trl, enc, pkt, vr⟩
  | _ => none

def parseRec (s : String) : Option (LR × List SegDesc) :=
  match s.splitOn "," with
  | [k, t, p, segs] => do
    let e ← (if k = "E" then some true else if k = "I" then some false else none)
    let t ← t.toNat?
    let p ← unhex p
    let ds ← (segs.splitOn "/").mapM parseSeg
    pure (⟨e, t, p⟩, ds)
  | _ => none

def parseRecs (s : String) : Option (List LR × Layout) :=
  if s = "-" then some ([], ⟨[]⟩) else do
    let l ← (s.splitOn ";").mapM parseRec
    pure (l.map (·.1), ⟨l.map (·.2)⟩)

def parseSul (s : String) : Option SULW :=
  match s.splitOn ":" with
  | [seq, sf, ver, ml, mf, ident] => do
    let seq ← seq.toNat?
    let sf ← unhex sf
    let ver ← unhex ver
    let ml ← ml.toNat?
    let mf ← unhex mf
    let ident ← unhex ident
    pure ⟨seq, sf, ver, ml, mf, ident⟩
  | _ => none

def showLR (r : LR) : String := s!"{if r.eflr then "E" else "I"},{r.type},{hex r.payload}"

def showRecs (rs : List LR) : String := if rs.isEmpty then "-" else ";".intercalate (rs.map showLR)

def b01 (b : Bool) : String := if b then "1" else "0"

end TD.C01.Drv
