/-
C01 — a small backtracking matcher for the subset of Python `re` (bytes patterns, no flags) used by the storage unit
label fields: `^`, `$`, literals, `.`, `\d`, character sets with ranges, greedy `*` / `+` on a single character
class, one capturing group.  `harness/props/c01.py translate()` parses the expressions found in the source with
`re._parser` and writes them as `List RItem` into `TD/Gen/C01Sul.lean`; the model interprets that data, so a changed
expression changes the model (and the theorems about it), not a test vector.  Core Lean only.
-/
namespace TD.C01

/-- a character class: union of inclusive ranges, possibly negated (`.` is the negation of `\n`) -/
structure Cls where
  ranges : List (Nat × Nat)
  neg : Bool
  deriving DecidableEq, Repr

def Cls.has (c : Cls) (x : Nat) : Bool := (c.ranges.any fun r => r.1 ≤ x && x ≤ r.2) != c.neg

inductive RItem where
  | bol                    -- `^`
  | eol                    -- `$` (no MULTILINE: at the end, or before a final newline)
  | gopen                  -- `(` of group 1
  | gclose                 -- `)`
  | one (c : Cls)          -- one character of the class
  | star (c : Cls)         -- greedy `*` of the class (`+` is `one` then `star`)
  | unsupported            -- anything the translator does not handle: never matches
  deriving DecidableEq, Repr

/-- remainders after a greedy `c*`, in backtracking order (longest match first) -/
def starRems (c : Cls) : List Nat → List (List Nat)
  | [] => [[]]
  | x :: t => if c.has x then starRems c t ++ [x :: t] else [x :: t]

/-- all matches of `items` against a prefix of `s`, in priority order: (rest, group start, group end) as offsets
into `full` -/
def matchItems (full : List Nat) : List RItem → List Nat → Option Nat → Option Nat →
    List (List Nat × Option Nat × Option Nat)
  | [], s, g0, g1 => [(s, g0, g1)]
  | .bol :: r, s, g0, g1 => if s.length = full.length then matchItems full r s g0 g1 else []
  | .eol :: r, s, g0, g1 => if s = [] ∨ s = [10] then matchItems full r s g0 g1 else []
  | .gopen :: r, s, _, g1 => matchItems full r s (some (full.length - s.length)) g1
  | .gclose :: r, s, g0, _ => matchItems full r s g0 (some (full.length - s.length))
  | .one c :: r, s, g0, g1 =>
    match s with
    | x :: t => if c.has x then matchItems full r t g0 g1 else []
    | [] => []
  | .star c :: r, s, g0, g1 => (starRems c s).flatMap fun s' => matchItems full r s' g0 g1
  | .unsupported :: _, _, _, _ => []

/-- `re.match(pattern, f)` → `group(1)` (the first match in backtracking order) -/
def reMatch (items : List RItem) (f : List Nat) : Option (List Nat) :=
  match (matchItems f items f none none).head? with
  | some (_, some a, some b) => some ((f.drop a).take (b - a))
  | _ => none

end TD.C01
