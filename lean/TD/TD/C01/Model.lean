/-
C01 — model of `TotalDepth/RP66V1/core/pFile.py` as it is in the repository (File.py re-exports it; cFile.py is
empty): `StorageUnitLabel.__init__`, `VisibleRecord._read`, `LogicalRecordSegmentHeader._read`,
`LogicalRecordPosition.__init__`, `FileRead._enter`, `_read_full_logical_data`,
`_seek_and_read_next_logical_record_segment_header`, `iter_logical_records`.

Core Lean only.  The file is a `List Nat` (bytes); `fobj.seek(p); fobj.read(n)` of `io.BytesIO` is
`(b.drop p).take n` (short reads at EOF, `read(negative)` = everything that is left).  The file cursor is not a
separate state component here: every read in these functions happens at a position that the code has just
established (`tell()` after reading a 4-byte header at `p` is `p+4`; the `assert tell == position + HEAD_LENGTH`
in `_read_full_logical_data` documents exactly that).  C02 threads the mutable reader state explicitly.

Python exceptions are `Err`; the generator `iter_logical_records` yields records and then either stops
(`none`) or raises (`some e`): `iterLR : Bytes → List LR × Option Err`.
-/
import TD.C01.Spec
import TD.C01.Regex
import TD.Gen.C01Sul

namespace TD.C01

inductive Err where
  | vrEOF         -- ExceptionVisibleRecordEOF
  | vr            -- ExceptionVisibleRecord (version word / length out of 20..16384)
  | lrshEOF       -- ExceptionLogicalRecordSegmentHeaderEOF
  | lrsh          -- ExceptionLogicalRecordSegmentHeader (segment after a last one is not marked first)
  | fileRead      -- ExceptionFileRead (label not accepted, very first segment not first, negative offset)
  | fileReadEOF   -- ExceptionFileReadEOF (segment body shorter than announced)
  | value         -- ValueError (LogicalRecordPosition)
  | assertion     -- AssertionError
  | index         -- IndexError (`by[-1]` on an empty body)
  | lrshSeq       -- ExceptionLogicalRecordSegmentHeaderSequence (C02, position scan)
  | fuel          -- model only: loop fuel exhausted (unreachable: fuel = file length + 1, every segment read advances ≥ 4)
  | regexChanged  -- model only (unused since the expressions are interpreted from the generated data)
  | attribute     -- AttributeError (C02: a reader object used before it was ever entered)
  deriving DecidableEq, Repr

/-! ### Storage unit label -/

def mDigit (c : Nat) : Bool := 48 ≤ c && c ≤ 57           -- an ASCII digit

/-- `int(b'123')` for ASCII digits -/
def ofDec (ds : Bytes) : Nat := ds.foldl (fun a d => a * 10 + (d - 48)) 0

structure SUL where
  seq : Nat
  version : Bytes
  structure_ : Bytes
  maxLen : Nat
  ident : Bytes
  deriving DecidableEq, Repr

/-- `StorageUnitLabel.__init__(by)`; every failure is `ExceptionStorageUnitLabel`.  The four `re.match` calls are
`reMatch` on the expressions found in the source (`TD.Gen.C01Sul`, regenerated on every run), `SIZE` likewise; the
slices `by[:4]`, `by[4:9]`, `by[9:15]`, `by[15:20]`, `by[20:]` are transcribed.  (The TIF test
`by[14:] == TIF_FILE_PREFIX` compares 66 bytes with 14 and is never true.) -/
def sulParse (by_ : Bytes) : Option SUL :=
  if by_.length ≠ Gen.C01Sul.size then none else
  match reMatch Gen.C01Sul.reSeqItems (by_.take 4) with
  | none => none
  | some g1 =>
    match reMatch Gen.C01Sul.reVersionItems ((by_.drop 4).take 5) with
    | none => none
    | some v =>
      match reMatch Gen.C01Sul.reStructureItems ((by_.drop 9).take 6) with
      | none => none
      | some st =>
        match reMatch Gen.C01Sul.reMaxLenItems ((by_.drop 15).take 5) with
        | none => none
        | some g2 => some ⟨ofDec g1, v, st, ofDec g2, by_.drop 20⟩

/-! ### Visible record and segment headers -/

structure VR where
  pos : Nat
  len : Nat
  deriving DecidableEq, Repr

structure LRSH where
  pos : Nat
  len : Nat
  attr : Nat
  type : Nat
  deriving DecidableEq, Repr

def LRSH.isEflr (h : LRSH) : Bool := h.attr &&& 0x80 != 0
def LRSH.isFirst (h : LRSH) : Bool := h.attr &&& 0x40 == 0
def LRSH.isLast (h : LRSH) : Bool := h.attr &&& 0x20 == 0
def LRSH.isEncrypted (h : LRSH) : Bool := h.attr &&& 0x10 != 0
def LRSH.hasChecksum (h : LRSH) : Bool := h.attr &&& 0x04 != 0
def LRSH.hasTrailingLength (h : LRSH) : Bool := h.attr &&& 0x02 != 0
def LRSH.hasPadBytes (h : LRSH) : Bool := h.attr &&& 0x01 != 0
def LRSH.mustStripPadding (h : LRSH) : Bool := h.hasPadBytes && !h.isEncrypted
def LRSH.nextPos (h : LRSH) : Nat := h.pos + h.len
def VR.nextPos (v : VR) : Nat := v.pos + v.len

/-- `logical_data_length` (may be negative for a nonsense length) -/
def LRSH.dataLen (h : LRSH) : Int :=
  (h.len : Int) - 4 - (if h.hasChecksum then 2 else 0) - (if h.hasTrailingLength then 2 else 0)

/-- `VisibleRecord._read` with the file positioned at `pos` -/
def readVR (b : Bytes) (pos : Nat) : Except Err VR :=
  match b.drop pos with
  | l0 :: l1 :: v0 :: v1 :: _ =>
    let length := l0 * 256 + l1
    let version := v0 * 256 + v1
    if version ≠ 0xff01 then .error .vr
    else if length < 20 then .error .vr
    else if length > 16384 then .error .vr
    else .ok ⟨pos, length⟩
  | _ => .error .vrEOF

/-- `LogicalRecordSegmentHeader._read` with the file positioned at `pos` -/
def readLRSH (b : Bytes) (pos : Nat) : Except Err LRSH :=
  match b.drop pos with
  | l0 :: l1 :: a :: t :: _ => .ok ⟨pos, l0 * 256 + l1, a, t⟩
  | _ => .error .lrshEOF

/-- `LogicalRecordPosition.__init__(vr, lrsh)`: checks in source order -/
def lrPosCheck (vr : VR) (h : LRSH) : Except Err Unit :=
  if vr.pos < 80 then .error .value
  else if ¬ (vr.len ≥ 16) then .error .assertion
  else if ¬ (vr.len ≤ 16384) then .error .assertion
  else if ¬ (h.pos ≥ 84) then .error .assertion
  else if ¬ (h.pos + 16 ≤ vr.pos + vr.len) then .error .assertion
  else if h.len < 16 then .error .value
  else if h.len + 4 > vr.len then .error .value
  else if ¬ (vr.pos + 4 ≤ h.pos) then .error .assertion
  else .ok ()

/-- the bytes `self.file.read(logical_data_length)` returns with the file at `h.pos + 4` -/
def rawBody (b : Bytes) (h : LRSH) : Bytes :=
  if h.dataLen < 0 then b.drop (h.pos + 4) else (b.drop (h.pos + 4)).take h.dataLen.toNat

/-- `by[:-pad_len]` after `pad_len = by[-1]` and the two asserts -/
def stripPad (by_ : Bytes) : Except Err Bytes :=
  match by_.getLast? with
  | none => .error .index
  | some pad =>
    if by_.length < pad then .error .assertion
    else if pad = 0 then .ok []                      -- `by[:-0]` is `by[:0]`
    else .ok (by_.take (by_.length - pad))

/-- `FileRead._read_full_logical_data` -/
def readFull (b : Bytes) (vr : VR) (h : LRSH) : Except Err Bytes :=
  let by_ := rawBody b h
  if (by_.length : Int) ≠ h.dataLen then
    match lrPosCheck vr h with
    | .error e => .error e
    | .ok () => .error .fileReadEOF
  else if h.mustStripPadding then stripPad by_
  else .ok by_

/-- `FileRead._seek_and_read_next_logical_record_segment_header` -/
def seekNext (b : Bytes) (vr : VR) (h : LRSH) : Except Err (VR × LRSH) :=
  let np := h.nextPos
  if np = vr.nextPos then
    match readVR b np with                 -- `visible_record.read_next`: seek(next_position), read
    | .error e => .error e
    | .ok vr' =>
      match readLRSH b (np + 4) with
      | .error e => .error e
      | .ok h' => .ok (vr', h')
  else
    match readLRSH b np with
    | .error e => .error e
    | .ok h' => .ok (vr, h')

/-- the `except (ExceptionVisibleRecordEOF, ExceptionLogicalRecordSegmentHeaderEOF): pass` of the generators -/
def endOf (e : Err) : Option Err :=
  match e with
  | .vrEOF => none
  | .lrshEOF => none
  | e => some e

/-- The `while True` loop of `iter_logical_records`, one iteration per logical record *segment*.
`cur = none`: `h` is the first segment header of a new logical record (a `FileLogicalData` is constructed);
`cur = some (eflr, type, acc)`: inside the inner `while not is_last` loop. -/
def iterGo (b : Bytes) : Nat → VR → LRSH → Option (Bool × Nat × Bytes) → List LR × Option Err
  | 0, _, _, _ => ([], some .fuel)
  | f + 1, vr, h, cur =>
    let start : Except Err (Bool × Nat × Bytes) :=
      match cur with
      | some p => .ok p
      | none =>
        match lrPosCheck vr h with
        | .error e => .error e
        | .ok () => .ok (h.isEflr, h.type, [])
    match start with
    | .error e => ([], some e)
    | .ok (e, t, acc) =>
      match readFull b vr h with
      | .error er => ([], some er)
      | .ok by_ =>
        if h.isLast then
          -- seal, yield, then seek to the next segment which must be a first one
          match seekNext b vr h with
          | .error er => ([⟨e, t, acc ++ by_⟩], endOf er)
          | .ok (vr', h') =>
            if h'.isFirst then
              let (rs, st) := iterGo b f vr' h' none
              (⟨e, t, acc ++ by_⟩ :: rs, st)
            else ([⟨e, t, acc ++ by_⟩], some .lrsh)
        else
          match seekNext b vr h with
          | .error er => ([], endOf er)
          | .ok (vr', h') => iterGo b f vr' h' (some (e, t, acc ++ by_))

/-- `with FileRead(io.BytesIO(b)) as f: list(f.iter_logical_records())` — `_enter` (label, first visible record,
first segment header which must be a first segment), then `_set_file_and_read_first_logical_record_segment_header`
(re-reads the same two headers) and the loop. -/
def iterLR (b : Bytes) : List LR × Option Err :=
  match sulParse (b.take 80) with
  | none => ([], some .fileRead)
  | some _ =>
    match readVR b 80 with
    | .error e => ([], some e)
    | .ok vr =>
      match readLRSH b 84 with
      | .error e => ([], some e)
      | .ok h =>
        if !h.isFirst then ([], some .fileRead)
        else iterGo b (b.length + 1) vr h none

def iterLogicalRecords (b : Bytes) : Except Err (List LR) :=
  match iterLR b with
  | (rs, none) => .ok rs
  | (_, some e) => .error e

/-- `FileRead.sul` after `_enter` -/
def fileSul (b : Bytes) : Option SUL := sulParse (b.take 80)

end TD.C01
