import TD.C18.Stream
import TD.C18.Rle
import TD.C18.RleDoc
import TD.C18.Tree
import TD.C18.RleFloat

/-!
# C18 — generated XML/XHTML/SVG is well-formed and carries the data unchanged

Property theorems only.  `TD.C18.Model` transcribes `util/XmlWrite.py` (and the RLE attribute writer of
`RP66V1/IndexXML.py` with the integer core of `common/Rle.py`); the specification side is the XML 1.0
recogniser/decoder `parse` / `wellFormed` / `decodeText` / `decodeAttr` of the same file (a character-level machine
that follows the productions of XML 1.0; it is tied to lxml and expat by the correspondence run of `./check C18`).

Hypotheses used below (defined in `TD.C18.Stream`):
* `OpOk op` — what the caller owes for one call: element/attribute names are XML Names (the writer does not escape
  them), attribute keys are distinct (a Python dict), attribute values and `characters()` strings consist of
  characters XML can represent (`xmlChar`), `literal()` text is plain character data; nothing is required of
  `comment()` text; a `pI()` string is an ASCII PI target alone or followed by one blank and arbitrary data (`PiOk`);
  `charactersWithBr` is not covered by the theorems.
* `shape d rd ops` — the calls make exactly one document element (XML requires it).
-/
namespace TD.C18

/-- **Character data round trip.**  A string made of characters XML can represent ([2] Char), written by
`XmlStream._encode` (i.e. by `characters()`), is read back unchanged by the specification decoder. -/
theorem encode_decodes (s : Str) (h : ∀ c ∈ s, xmlChar c = true) :
    decodeText (encode s).toList = some s := by
  simp only [encode, String.toList_ofList]
  exact decodeText_encodeL s h

example : (∀ c ∈ "a<b>&\"'\t\n\r é€😀".toList, xmlChar c = true) := by decide

/-- **Attribute value round trip.**  The same inside a double-quoted attribute value: TAB, LF and CR survive
(they are written as character references, which attribute-value normalisation leaves alone), quotes and markup too. -/
theorem encode_decodes_attr (s : Str) (h : ∀ c ∈ s, xmlChar c = true) :
    decodeAttr (encode s).toList = some s := by
  simp only [encode, String.toList_ofList]
  exact decodeAttr_encodeL s h

example : decodeAttr (encode "a\tb\nc\rd\"e'f<g".toList).toList = some "a\tb\nc\rd\"e'f<g".toList := by decide

/-- **Element round trip** (the data clause at document level).  `with XmlStream(f) as x: with Element(x, n, attrs):
x.characters(s)` writes a document which the specification parser accepts and decodes to exactly one element `n`
carrying the attributes (in sorted key order, values unchanged) and the character data `s` unchanged — for every
name, every attribute dictionary and every string of XML-representable characters. -/
theorem element_decodes (n : Str) (as : List (Str × Str)) (s : Str)
    (hn : validName n = true)
    (has : ∀ kv ∈ as, validName kv.1 = true ∧ ∀ c ∈ kv.2, xmlChar c = true)
    (hnd : (as.map (·.1)).Nodup) (hs : ∀ c ∈ s, xmlChar c = true) :
    (document .xml "utf-8".toList [.start n as, .chars s, .stop n]).toOption.bind parse
      = some (.start n (sortAttrs as) :: (s.map Event.chr ++ [.stop n])) := by
  rw [element_doc]
  exact element_parse n as s hn has hnd hs

example : (document .xml "utf-8".toList [.start "Channel".toList [("units".toList, "0.1 in<\"µ\">".toList), ("I".toList, "A&B\t".toList)],
      .chars "x < y".toList, .stop "Channel".toList]).toOption.bind parse
    = some (.start "Channel".toList [("I".toList, "A&B\t".toList), ("units".toList, "0.1 in<\"µ\">".toList)]
        :: ("x < y".toList.map Event.chr ++ [.stop "Channel".toList])) := by decide

/-- **Well-formedness of everything `XmlStream` writes.**  Any sequence of `startElement` / `characters` /
`literal` / `comment` / `pI` / `endElement` / `xmlSpacePreserve` calls that does not raise, respects `OpOk` and makes one
document element — with whatever is still open closed by `__exit__` — is a well-formed XML document
(nesting invariant by induction over the call list; indentation included). -/
theorem stream_wellformed (ops : List Op) (doc : Str)
    (hdoc : document .xml "utf-8".toList ops = .ok doc)
    (hok : ∀ op ∈ ops, OpOk op) (hshape : shape 0 false ops = true) :
    wellFormed doc = true := by
  simp only [document, enter] at hdoc
  cases hr : runW {} ops with
  | error e => rw [hr] at hdoc; cases hdoc
  | ok r =>
    obtain ⟨w1, c1⟩ := r
    rw [hr] at hdoc
    simp only at hdoc
    cases hdoc
    obtain ⟨p1, r1, i1, fin⟩ := sim_run ops inv_init hr hok hshape
    obtain ⟨p2, r2, acc⟩ := sim_closeAll w1.elemStk.length w1 p1 i1 (Nat.le_refl _) fin
    unfold wellFormed parse
    rw [List.append_assoc, stripDecl_header]
    simp only
    rw [runM_append_of r1]
    unfold exitChunk
    rw [r2]
    simp [acc]

/-- a non-trivial call sequence meeting the hypotheses: nested elements, escaped attribute and text, a comment,
an element left open for `__exit__` -/
example :
    let ops : List Op := [.start "a".toList [("k".toList, "<\"&'>\t".toList)], .start "b".toList [], .chars "x&y".toList,
      .stop "b".toList, .comment " note -- any--thing- ".toList, .start "c".toList [("z".toList, "é".toList), ("y".toList, [])]]
    (∀ op ∈ ops, OpOk op) ∧ shape 0 false ops = true ∧ (document .xml "utf-8".toList ops).toOption.map wellFormed = some true := by
  refine ⟨?_, by decide, by decide⟩
  intro op hop
  simp only [List.mem_cons, List.not_mem_nil, or_false] at hop
  rcases hop with rfl | rfl | rfl | rfl | rfl | rfl
  · exact ⟨by decide, by decide, by decide⟩
  · exact ⟨by decide, by decide, by decide⟩
  · show ∀ c ∈ _, _; decide
  · trivial
  · trivial
  · exact ⟨by decide, by decide, by decide⟩

/-- a processing instruction with hostile data meets `PiOk`, and the document is well-formed -/
example : PiOk "xml-stylesheet href=\"a?>b\" <&>".toList ∧
    (document .xml "utf-8".toList [.start ['a'] [], .pi "xml-stylesheet href=\"a?>b\" <&>".toList, .pi "tgt".toList]).toOption.map wellFormed = some true :=
  ⟨⟨"xml-stylesheet".toList, "href=\"a?>b\" <&>".toList, by decide, by decide, Or.inr (by decide)⟩, by decide⟩

/-- **Whole-tree data preservation.**  Under the hypotheses of `stream_wellformed`, the specification parser decodes
the document to the events the calls asked for (`specEvents ops`: for every `startElement` the name with the
attributes in key order and their values unchanged, for every `characters`/`literal` its characters, for every
`comment` its text, for every `pI` its target (PI data is written entity-encoded, which a parser does not decode:
nothing is claimed about it), for every `endElement` — and for everything `__exit__` closes — the end tag), **with nothing
changed** except what `PadRev` allows: a run "newline + spaces" immediately before a start tag or an end tag, and only
where neither that element nor any enclosing element has character data so far (indentation never enters mixed
content).  Both lists are compared most-recent-first (`.reverse`), which is how the relation is built up. -/
theorem stream_decodes (ops : List Op) (doc : Str)
    (hdoc : document .xml "utf-8".toList ops = .ok doc)
    (hok : ∀ op ∈ ops, OpOk op) (hshape : shape 0 false ops = true) :
    ∃ evs, parse doc = some evs ∧ PadRev [] (specEvents ops).reverse evs.reverse :=
  stream_decodes_aux ops doc hdoc hok hshape

/-- what `specEvents` and the parser give on a small nested sequence: the only differences are the indentation
before `<b>` and before `</a>` (element `a` has no character data); nothing is inserted inside `b` after `x&y` -/
example :
    let ops : List Op := [.start "a".toList [("k".toList, "<\"&".toList)], .start "b".toList [], .chars "x&y".toList,
      .start "c".toList [], .stop "c".toList]
    specEvents ops = [.start "a".toList [("k".toList, "<\"&".toList)], .start "b".toList [], .chr 'x', .chr '&', .chr 'y',
      .start "c".toList [], .stop "c".toList, .stop "b".toList, .stop "a".toList] ∧
    (document .xml "utf-8".toList ops).toOption.bind parse =
      some [.start "a".toList [("k".toList, "<\"&".toList)], .chr '\n', .chr ' ', .chr ' ', .start "b".toList [], .chr 'x', .chr '&', .chr 'y',
      .start "c".toList [], .stop "c".toList, .stop "b".toList, .chr '\n', .stop "a".toList] := by
  decide

/-- **The same for `XhtmlStream`** (XML declaration, DOCTYPE, and the `html` element opened by `__enter__`):
the calls are made inside `html`, hence `shape 1`. -/
theorem xhtml_stream_wellformed (ops : List Op) (doc : Str)
    (hdoc : document .xhtml "utf-8".toList ops = .ok doc)
    (hok : ∀ op ∈ ops, OpOk op) (hshape : shape 1 false ops = true) :
    wellFormed doc = true := by
  simp only [document, enter] at hdoc
  obtain ⟨p0, r0, i0, rd0⟩ := xhtml_enter
  cases hr : runW (startElement {} "html".toList xhtmlRootAttrs).1 ops with
  | error e => rw [hr] at hdoc; cases hdoc
  | ok r =>
    obtain ⟨w1, c1⟩ := r
    rw [hr] at hdoc
    simp only at hdoc
    cases hdoc
    have hl : (startElement {} "html".toList xhtmlRootAttrs).1.elemStk.length = 1 := rfl
    obtain ⟨p1, r1, i1, fin⟩ := sim_run ops i0 hr hok (by rw [hl, rd0]; exact hshape)
    obtain ⟨p2, r2, acc⟩ := sim_closeAll w1.elemStk.length w1 p1 i1 (Nat.le_refl _) fin
    unfold wellFormed parse
    rw [List.append_assoc, List.append_assoc, List.append_assoc, stripDecl_header]
    simp only
    rw [← List.append_assoc, runM_append_of r0, runM_append_of r1]
    unfold exitChunk
    rw [r2]
    simp [acc]

example : (document .xhtml "utf-8".toList [.start "body".toList [], .start "p".toList [("class".toList, "a\"b".toList)],
    .chars "1 < 2".toList]).toOption.map wellFormed = some true := by decide

/-- **F13 (known finding), the negation witness.**  For a character XML cannot represent the writer emits a numeric
character reference to it, which no XML 1.0 document may contain: the text is rejected both as character data and
as an attribute value, and a whole document holding it is not well-formed.  So the clause "strings with other
characters never make the document unparseable" is false for the code as it is. -/
theorem encode_illegal_ref :
    encode [Char.ofNat 1] = "&#001;" ∧
    decodeText (encode [Char.ofNat 1]).toList = none ∧
    decodeAttr (encode [Char.ofNat 1]).toList = none ∧
    (document .xml "utf-8".toList [.start ['a'] [(['k'], [Char.ofNat 1])], .stop ['a']]).toOption.map wellFormed = some false ∧
    (document .xml "utf-8".toList [.start ['a'] [], .chars [Char.ofNat 0xFFFE], .stop ['a']]).toOption.map wellFormed = some false := by
  decide

/-- **Comments (former finding F20, repaired in `XmlStream.comment`).**  Whatever string is passed to `comment()` —
double hyphens, a trailing hyphen, markup, even characters XML cannot represent (they become literal `&#NNN;` text,
harmless inside a comment) — the text the writer puts between `<!--` and `-->` is a legal comment body ([15]: made of
XML characters, no `--`, no `-` before the closing `-->`), and the recogniser reads the whole comment from character
data back to character data.  No hypothesis on the string. -/
theorem comment_wellformed (s : Str) :
    (cOk 0 (commentText s) = true ∧ ∀ x ∈ commentText s, xmlChar x = true) ∧
    ∀ (stk : List Str) (rd : Bool) (evs : List Event), ∃ evs',
      runM ⟨.content, stk, rd, evs⟩ ("<!--".toList ++ commentText s ++ "-->".toList) = some ⟨.content, stk, rd, evs'⟩ :=
  ⟨commentText_ok s, fun stk rd evs => run_comment s stk rd evs⟩

/-- **The repair loop reaches its fixpoint.**  For every string the text `comment()` puts between `<!--` and `-->`
(`_encode`, then `while '--' in text: text = text.replace('--', '- -')`, then a blank after a final `-`) contains no
`--` and does not end in `-`.  `'--' in text` is `hasDD`, `text.endswith('-')` is `endsDash`; no bound on the string,
on the number or on the length of the hyphen runs (two rounds of the loop always suffice: `hasDD_fixDD`). -/
theorem comment_text_no_double_hyphen (s : Str) :
    hasDD (commentText s) = false ∧ endsDash (commentText s) = false :=
  commentText_no_double_hyphen s

/-- why it must be a loop: `str.replace` is non-overlapping, so ONE pass leaves a `--` behind for every run of three or
more hyphens (`'---' -> '- --'`, `'----' -> '- -- -'`), whereas the loop gives `- - -`, `- - - -`; and the trailing
blank is needed on top of it -/
example : replaceDD "---".toList = "- --".toList ∧ hasDD (replaceDD "---".toList) = true ∧
    replaceDD "----".toList = "- -- -".toList ∧ hasDD (replaceDD "----".toList) = true ∧
    hasDD (replaceDD "a-----b".toList) = true ∧
    commentText "---".toList = "- - - ".toList ∧ commentText "a----b".toList = "a- - - -b".toList ∧
    commentText "--------".toList = "- - - - - - - - ".toList ∧
    endsDash (fixDD 5 "x--".toList) = true := by decide

/-- the strings of the former finding are now written as well-formed documents -/
example :
    (document .xml "utf-8".toList [.start ['a'] [], .comment " a -- b ".toList, .stop ['a']]).toOption.map wellFormed = some true ∧
    (document .xml "utf-8".toList [.start ['a'] [], .comment "DEPT-".toList, .stop ['a']]).toOption.map wellFormed = some true ∧
    (document .xml "utf-8".toList [.start ['a'] [], .comment "-----".toList, .stop ['a']]).toOption.map wellFormed = some true ∧
    commentText " a -- b ".toList = " a - - b ".toList ∧ commentText "-----".toList = "- - - - - ".toList ∧
    commentText "x-".toList = "x- ".toList := by
  decide

/-- **RLE, values.**  The run-length items built by `create_rle` (integer branch of `RLEItem.add`) yield, by the
repeated addition of `RLEItem.values()`, exactly the list that was encoded — every integer list. -/
theorem rle_values_roundtrip (xs : List Int) : (rleCreate xs).flatMap RItem.values = xs :=
  rleCreate_values xs

/-- **RLE through XML.**  Writing each item as `datum` / `stride` / `repeat` attribute strings the way
`IndexXML.xml_rle_write` does (decimal, or `0x…` hexadecimal for file positions) and expanding the strings again
with the closed form `datum + i·stride, i = 0..repeat` gives back the encoded list: every integer list, both
notations.  (With `hex` a negative number is written `0x-5`, as Python's `f'0x{v:x}'` does; the reader of this
specification accepts that form.  Float X axes are outside this theorem: oracle only.) -/
theorem rle_xml_roundtrip (hex : Bool) (xs : List Int) :
    expand ((rleCreate xs).map (rleAttrs hex)) = some xs :=
  expand_rleCreate hex xs

/-- **The RLE element of the XML index is well-formed**: the calls `xml_rle_write` makes for any integer list (any
element name that is an XML Name, both notations) satisfy the hypotheses of `stream_wellformed`. -/
theorem rle_document_wellformed (hex : Bool) (elem : Str) (helem : validName elem = true) (xs : List Int) (doc : Str)
    (hdoc : document .xml "utf-8".toList (rleOps hex elem (rleCreate xs)) = .ok doc) :
    wellFormed doc = true :=
  stream_wellformed _ doc hdoc (rleOps_ok hex elem helem _) (rleOps_shape hex elem _)

example : (document .xml "utf-8".toList (rleOps true "LRSH".toList (rleCreate [80, 128, 176, 300]))).toOption.map wellFormed = some true := by
  decide

/-- **Float X axis — partial.**  Full statement wanted: for every list of finite floats the `<Xaxis>` entries expand
to the X values held in memory up to the rounding of the float operations involved (`4·eps·max|x|`, count exact).
Proved here, over exact rationals (the `F` model of `TD.C16`, float rounding not modelled) with the predicate
`math.isclose(v, expected, rel_tol=tol)` as coded in `RLEItem.add`: the number of expanded values is exact and every
expanded value `y` is within `tol · max(|x|, |y|)` of the value `x` that was added — with `tol = eps = 2⁻⁵²` (what the
code passes) that is below the rounding allowance.  The rounding part is checked by the oracle on the real code. -/
theorem rle_float_expand_within (tol : Rat) (htol : 0 ≤ tol) (xs : List Rat) :
    List.Forall₂ (fun x y => |x - y| ≤ tol * max |x| |y|) xs (TD.C16.F.rleValues (TD.C16.F.create (iscloseQ tol) xs)) ∧
    TD.C16.F.numValues (TD.C16.F.create (iscloseQ tol) xs) = xs.length :=
  float_expand_within tol htol xs

/-- **Why the tolerance matters** (the class of change the bound guards against): with `rel_tol = eps` a value that is
off the grid by a relative 1e-10 starts a new run and is reproduced exactly; with `math.isclose`'s default
`rel_tol = 1e-9` it is absorbed and the entries expand to the grid value instead of the X value that was indexed. -/
theorem rle_float_tolerance_witness :
    TD.C16.F.rleValues (TD.C16.F.create (iscloseQ (1 / 4503599627370496)) [100, 101, 102, 103 + 103 / 10000000000, 104])
      = [100, 101, 102, 103 + 103 / 10000000000, 104] ∧
    TD.C16.F.rleValues (TD.C16.F.create (iscloseQ (1 / 1000000000)) [100, 101, 102, 103 + 103 / 10000000000, 104])
      = [100, 101, 102, 103, 104] := by
  decide +kernel

example : (rleCreate [1, 2, 3, 7, 5, 3, 1]).map (fun it => (it.datum, it.stride, it.repeat_)) = [(1, 1, 2), (7, -2, 3)] := by decide
example : (rleCreate [80, 128, 176, 300]).map (rleAttrs true) =
    [[("datum".toList, "0x50".toList), ("stride".toList, "0x30".toList), ("repeat".toList, "2".toList)],
     [("datum".toList, "0x12c".toList), ("stride".toList, "0x0".toList), ("repeat".toList, "0".toList)]] := by decide

end TD.C18
