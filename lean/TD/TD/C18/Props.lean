import TD.C18.Stream
import TD.C18.Rle
import TD.C18.RleDoc

/-!
# C18 — generated XML/XHTML/SVG is well-formed and carries the data unchanged

Property theorems only.  `TD.C18.Model` transcribes `util/XmlWrite.py` (and the RLE attribute writer of
`RP66V1/IndexXML.py` with the integer core of `common/Rle.py`); the specification side is the XML 1.0
recogniser/decoder `parse` / `wellFormed` / `decodeText` / `decodeAttr` of the same file (a character-level machine
that follows the productions of XML 1.0; it is tied to lxml and expat by the correspondence run of `./check C18`).

Hypotheses used below (defined in `TD.C18.Stream`):
* `OpOk op` — what the caller owes for one call: element/attribute names are XML Names (the writer does not escape
  them), attribute keys are distinct (a Python dict), attribute values and `characters()` strings consist of
  characters XML can represent (`xmlChar`), `literal()` text is plain character data, `comment()` text contains no
  `--` and does not end in `-` (`commentOk`); `pI` and `charactersWithBr` are not covered by the theorems.
* `shape d rd ops` — the calls make exactly one document element (XML requires it).
-/
namespace TD.C18

/-- **Character data round trip.**  A string made of characters XML can represent ([2] Char), written by
`XmlStream._encode` (i.e. by `characters()`), is read back unchanged by the specification decoder. -/
theorem encode_decodes (s : Str) (h : ∀ c ∈ s, xmlChar c = true) :
    decodeText (encode s).toList = some s := by
  simp only [encode, String.toList_ofList]
  exact decodeText_encodeL s h

example : (∀ c ∈ "a<b>&\"'\t\n\r é€😀".toList, xmlChar c = true) := by decide

/-- **Attribute value round trip.**  The same inside a double-quoted attribute value: TAB, LF and CR survive
(they are written as character references, which attribute-value normalisation leaves alone), quotes and markup too. -/
theorem encode_decodes_attr (s : Str) (h : ∀ c ∈ s, xmlChar c = true) :
    decodeAttr (encode s).toList = some s := by
  simp only [encode, String.toList_ofList]
  exact decodeAttr_encodeL s h

example : decodeAttr (encode "a\tb\nc\rd\"e'f<g".toList).toList = some "a\tb\nc\rd\"e'f<g".toList := by decide

/-- **Element round trip** (the data clause at document level).  `with XmlStream(f) as x: with Element(x, n, attrs):
x.characters(s)` writes a document which the specification parser accepts and decodes to exactly one element `n`
carrying the attributes (in sorted key order, values unchanged) and the character data `s` unchanged — for every
name, every attribute dictionary and every string of XML-representable characters. -/
theorem element_decodes (n : Str) (as : List (Str × Str)) (s : Str)
    (hn : validName n = true)
    (has : ∀ kv ∈ as, validName kv.1 = true ∧ ∀ c ∈ kv.2, xmlChar c = true)
    (hnd : (as.map (·.1)).Nodup) (hs : ∀ c ∈ s, xmlChar c = true) :
    (document .xml "utf-8".toList [.start n as, .chars s, .stop n]).toOption.bind parse
      = some (.start n (sortAttrs as) :: (s.map Event.chr ++ [.stop n])) := by
  rw [element_doc]
  exact element_parse n as s hn has hnd hs

example : (document .xml "utf-8".toList [.start "Channel".toList [("units".toList, "0.1 in<\"µ\">".toList), ("I".toList, "A&B\t".toList)],
      .chars "x < y".toList, .stop "Channel".toList]).toOption.bind parse
    = some (.start "Channel".toList [("I".toList, "A&B\t".toList), ("units".toList, "0.1 in<\"µ\">".toList)]
        :: ("x < y".toList.map Event.chr ++ [.stop "Channel".toList])) := by decide

/-- **Well-formedness of everything `XmlStream` writes.**  Any sequence of `startElement` / `characters` /
`literal` / `comment` / `endElement` / `xmlSpacePreserve` calls that does not raise, respects `OpOk` and makes one
document element — with whatever is still open closed by `__exit__` — is a well-formed XML document
(nesting invariant by induction over the call list; indentation included). -/
theorem stream_wellformed (ops : List Op) (doc : Str)
    (hdoc : document .xml "utf-8".toList ops = .ok doc)
    (hok : ∀ op ∈ ops, OpOk op) (hshape : shape 0 false ops = true) :
    wellFormed doc = true := by
  simp only [document, enter] at hdoc
  cases hr : runW {} ops with
  | error e => rw [hr] at hdoc; cases hdoc
  | ok r =>
    obtain ⟨w1, c1⟩ := r
    rw [hr] at hdoc
    simp only at hdoc
    cases hdoc
    obtain ⟨p1, r1, i1, fin⟩ := sim_run ops inv_init hr hok hshape
    obtain ⟨p2, r2, acc⟩ := sim_closeAll w1.elemStk.length w1 p1 i1 (Nat.le_refl _) fin
    unfold wellFormed parse
    rw [List.append_assoc, stripDecl_header]
    simp only
    rw [runM_append_of r1]
    unfold exitChunk
    rw [r2]
    simp [acc]

/-- a non-trivial call sequence meeting the hypotheses: nested elements, escaped attribute and text, a comment,
an element left open for `__exit__` -/
example :
    let ops : List Op := [.start "a".toList [("k".toList, "<\"&'>\t".toList)], .start "b".toList [], .chars "x&y".toList,
      .stop "b".toList, .comment " note - ok ".toList, .start "c".toList [("z".toList, "é".toList), ("y".toList, [])]]
    (∀ op ∈ ops, OpOk op) ∧ shape 0 false ops = true ∧ (document .xml "utf-8".toList ops).toOption.map wellFormed = some true := by
  refine ⟨?_, by decide, by decide⟩
  intro op hop
  simp only [List.mem_cons, List.not_mem_nil, or_false] at hop
  rcases hop with rfl | rfl | rfl | rfl | rfl | rfl
  · exact ⟨by decide, by decide, by decide⟩
  · exact ⟨by decide, by decide, by decide⟩
  · show ∀ c ∈ _, _; decide
  · trivial
  · show commentOk _ = true; decide
  · exact ⟨by decide, by decide, by decide⟩

/-- **The same for `XhtmlStream`** (XML declaration, DOCTYPE, and the `html` element opened by `__enter__`):
the calls are made inside `html`, hence `shape 1`. -/
theorem xhtml_stream_wellformed (ops : List Op) (doc : Str)
    (hdoc : document .xhtml "utf-8".toList ops = .ok doc)
    (hok : ∀ op ∈ ops, OpOk op) (hshape : shape 1 false ops = true) :
    wellFormed doc = true := by
  simp only [document, enter] at hdoc
  obtain ⟨p0, r0, i0, rd0⟩ := xhtml_enter
  cases hr : runW (startElement {} "html".toList xhtmlRootAttrs).1 ops with
  | error e => rw [hr] at hdoc; cases hdoc
  | ok r =>
    obtain ⟨w1, c1⟩ := r
    rw [hr] at hdoc
    simp only at hdoc
    cases hdoc
    have hl : (startElement {} "html".toList xhtmlRootAttrs).1.elemStk.length = 1 := rfl
    obtain ⟨p1, r1, i1, fin⟩ := sim_run ops i0 hr hok (by rw [hl, rd0]; exact hshape)
    obtain ⟨p2, r2, acc⟩ := sim_closeAll w1.elemStk.length w1 p1 i1 (Nat.le_refl _) fin
    unfold wellFormed parse
    rw [List.append_assoc, List.append_assoc, List.append_assoc, stripDecl_header]
    simp only
    rw [← List.append_assoc, runM_append_of r0, runM_append_of r1]
    unfold exitChunk
    rw [r2]
    simp [acc]

example : (document .xhtml "utf-8".toList [.start "body".toList [], .start "p".toList [("class".toList, "a\"b".toList)],
    .chars "1 < 2".toList]).toOption.map wellFormed = some true := by decide

/-- **F13 (known finding), the negation witness.**  For a character XML cannot represent the writer emits a numeric
character reference to it, which no XML 1.0 document may contain: the text is rejected both as character data and
as an attribute value, and a whole document holding it is not well-formed.  So the clause "strings with other
characters never make the document unparseable" is false for the code as it is. -/
theorem encode_illegal_ref :
    encode [Char.ofNat 1] = "&#001;" ∧
    decodeText (encode [Char.ofNat 1]).toList = none ∧
    decodeAttr (encode [Char.ofNat 1]).toList = none ∧
    (document .xml "utf-8".toList [.start ['a'] [(['k'], [Char.ofNat 1])], .stop ['a']]).toOption.map wellFormed = some false ∧
    (document .xml "utf-8".toList [.start ['a'] [], .chars [Char.ofNat 0xFFFE], .stop ['a']]).toOption.map wellFormed = some false := by
  decide

/-- **F20 (known finding), the negation witness.**  `comment()` only `_encode`s its text: a double hyphen (or a
trailing hyphen) goes out unchanged and the document is not well-formed ([15] Comment), although every other call
is as `stream_wellformed` requires.  (Control characters, in contrast, are harmless inside a comment.) -/
theorem comment_double_hyphen_illformed :
    commentOk " a -- b ".toList = false ∧
    (document .xml "utf-8".toList [.start ['a'] [], .comment " a -- b ".toList, .stop ['a']]).toOption.map wellFormed = some false ∧
    (document .xml "utf-8".toList [.start ['a'] [], .comment "DEPT-".toList, .stop ['a']]).toOption.map wellFormed = some false ∧
    (document .xml "utf-8".toList [.start ['a'] [], .comment [Char.ofNat 1, '-', 'x'], .stop ['a']]).toOption.map wellFormed = some true := by
  decide

/-- **RLE, values.**  The run-length items built by `create_rle` (integer branch of `RLEItem.add`) yield, by the
repeated addition of `RLEItem.values()`, exactly the list that was encoded — every integer list. -/
theorem rle_values_roundtrip (xs : List Int) : (rleCreate xs).flatMap RItem.values = xs :=
  rleCreate_values xs

/-- **RLE through XML.**  Writing each item as `datum` / `stride` / `repeat` attribute strings the way
`IndexXML.xml_rle_write` does (decimal, or `0x…` hexadecimal for file positions) and expanding the strings again
with the closed form `datum + i·stride, i = 0..repeat` gives back the encoded list: every integer list, both
notations.  (With `hex` a negative number is written `0x-5`, as Python's `f'0x{v:x}'` does; the reader of this
specification accepts that form.  Float X axes are outside this theorem: oracle only.) -/
theorem rle_xml_roundtrip (hex : Bool) (xs : List Int) :
    expand ((rleCreate xs).map (rleAttrs hex)) = some xs :=
  expand_rleCreate hex xs

/-- **The RLE element of the XML index is well-formed**: the calls `xml_rle_write` makes for any integer list (any
element name that is an XML Name, both notations) satisfy the hypotheses of `stream_wellformed`. -/
theorem rle_document_wellformed (hex : Bool) (elem : Str) (helem : validName elem = true) (xs : List Int) (doc : Str)
    (hdoc : document .xml "utf-8".toList (rleOps hex elem (rleCreate xs)) = .ok doc) :
    wellFormed doc = true :=
  stream_wellformed _ doc hdoc (rleOps_ok hex elem helem _) (rleOps_shape hex elem _)

example : (document .xml "utf-8".toList (rleOps true "LRSH".toList (rleCreate [80, 128, 176, 300]))).toOption.map wellFormed = some true := by
  decide

example : (rleCreate [1, 2, 3, 7, 5, 3, 1]).map (fun it => (it.datum, it.stride, it.repeat_)) = [(1, 1, 2), (7, -2, 3)] := by decide
example : (rleCreate [80, 128, 176, 300]).map (rleAttrs true) =
    [[("datum".toList, "0x50".toList), ("stride".toList, "0x30".toList), ("repeat".toList, "2".toList)],
     [("datum".toList, "0x12c".toList), ("stride".toList, "0x0".toList), ("repeat".toList, "0".toList)]] := by decide

end TD.C18
