import TD.C18.Lemmas

/-!
# C18 — generated XML/XHTML/SVG is well-formed and carries the data unchanged

Property theorems only.  `TD.C18.Model` transcribes `util/XmlWrite.py` (and the RLE attribute writer of
`RP66V1/IndexXML.py`); the specification side is the XML 1.0 recogniser/decoder `parse`/`decodeText`/`decodeAttr`
of the same file (tied to lxml and expat by the correspondence run of `./check C18`).
-/
namespace TD.C18

/-- **Character data round trip.**  A string made of characters XML can represent ([2] Char), written by
`XmlStream._encode` (i.e. by `characters()`), is read back unchanged by the specification decoder. -/
theorem encode_decodes (s : Str) (h : ∀ c ∈ s, xmlChar c = true) :
    decodeText (encode s).toList = some s := by
  simp only [encode, String.toList_ofList]
  exact decodeText_encodeL s h

example : (∀ c ∈ "a<b>&\"'\t\n\r é€😀".toList, xmlChar c = true) := by decide

/-- **Attribute value round trip.**  The same inside a double-quoted attribute value: TAB, LF and CR survive
(they are written as character references, which attribute-value normalisation leaves alone), quotes and markup too. -/
theorem encode_decodes_attr (s : Str) (h : ∀ c ∈ s, xmlChar c = true) :
    decodeAttr (encode s).toList = some s := by
  simp only [encode, String.toList_ofList]
  exact decodeAttr_encodeL s h

example : decodeAttr (encode "a\tb\nc\rd\"e'f<g".toList).toList = some "a\tb\nc\rd\"e'f<g".toList := by decide

/-- **F13 (known finding), the negation witness.**  For a character XML cannot represent the writer emits a numeric
character reference to it, which no XML 1.0 document may contain: the text is rejected both as character data and
as an attribute value, and a whole document holding it is not well-formed.  So the clause "strings with other
characters never make the document unparseable" is false for the code as it is. -/
theorem encode_illegal_ref :
    encode [Char.ofNat 1] = "&#001;" ∧
    decodeText (encode [Char.ofNat 1]).toList = none ∧
    decodeAttr (encode [Char.ofNat 1]).toList = none ∧
    (document .xml "utf-8".toList [.start ['a'] [(['k'], [Char.ofNat 1])], .stop ['a']]).toOption.map wellFormed = some false ∧
    (document .xml "utf-8".toList [.start ['a'] [], .chars [Char.ofNat 0xFFFE], .stop ['a']]).toOption.map wellFormed = some false := by
  decide

end TD.C18
