import TD.C16.Props
import Mathlib.Algebra.Order.AbsoluteValue.Basic
/-!
C18 — the float X axis of the XML index: the run-length model over exact rationals of `TD.C16` (namespace `F`,
`math.isclose` as a parameter) instantiated with `math.isclose(v, expected, rel_tol=tol)` (`abs_tol = 0`).
Float rounding itself is not modelled (see C16); the oracle of `./check C18` checks the explicit rounding bound
`4·eps·max|x|` on the real code.
-/
namespace TD.C18

open TD.C16

/-- `math.isclose(a, b, rel_tol=tol)` over exact rationals: `abs(a-b) <= tol * max(abs(a), abs(b))` -/
def iscloseQ (tol : Rat) (a b : Rat) : Bool := decide (|a - b| ≤ tol * max |a| |b|)

theorem rel_iscloseQ {tol : Rat} (htol : 0 ≤ tol) {x y : Rat} (h : F.Rel (iscloseQ tol) x y) :
    |x - y| ≤ tol * max |x| |y| := by
  rcases h with h | h
  · subst h
    simp only [sub_self, abs_zero]
    exact mul_nonneg htol (le_trans (abs_nonneg x) (le_max_left _ _))
  · simpa [iscloseQ] using h

theorem forall2_within {tol : Rat} (htol : 0 ≤ tol) {xs ys : List Rat} (h : List.Forall₂ (F.Rel (iscloseQ tol)) xs ys) :
    List.Forall₂ (fun x y => |x - y| ≤ tol * max |x| |y|) xs ys := by
  induction h with
  | nil => exact List.Forall₂.nil
  | cons hab _ ih => exact List.Forall₂.cons (rel_iscloseQ htol hab) ih

theorem float_expand_within (tol : Rat) (htol : 0 ≤ tol) (xs : List Rat) :
    List.Forall₂ (fun x y => |x - y| ≤ tol * max |x| |y|) xs (F.rleValues (F.create (iscloseQ tol) xs)) ∧
    F.numValues (F.create (iscloseQ tol) xs) = xs.length :=
  ⟨forall2_within htol (float_values_close_partial (iscloseQ tol) xs).1, (float_values_close_partial (iscloseQ tol) xs).2⟩

end TD.C18
