import TD.C18.Stream
import TD.C18.Rle
/-! The calls of `IndexXML.xml_rle_write` meet the hypotheses of `stream_wellformed`. -/
namespace TD.C18

theorem hexDigitChar_xml {k : Nat} (h : k < 16) : xmlChar (hexDigitChar k) = true := by
  have : ∀ k, k < 16 → xmlChar (hexDigitChar k) = true := by decide
  exact this k h

theorem hexAux_xml (f n : Nat) : ∀ c ∈ hexAux f n, xmlChar c = true := by
  induction f generalizing n with
  | zero => simp [hexAux]
  | succ f ih =>
    unfold hexAux
    split
    · intro c hc; simp at hc; subst hc; exact hexDigitChar_xml (by omega)
    · intro c hc
      simp only [List.mem_append, List.mem_singleton] at hc
      rcases hc with hc | hc
      · exact ih _ c hc
      · subst hc; exact hexDigitChar_xml (by omega)

theorem decimal_xml (n : Nat) : ∀ c ∈ decimal n, xmlChar c = true :=
  fun c hc => (digit_safe (decimal_digits n c hc)).1

theorem showInt_xml (v : Int) : ∀ c ∈ showInt v, xmlChar c = true := by
  intro c hc
  unfold showInt at hc
  split at hc
  · simp only [List.mem_cons] at hc
    rcases hc with rfl | hc
    · decide
    · exact decimal_xml _ c hc
  · exact decimal_xml _ c hc

theorem showHexInt_xml (v : Int) : ∀ c ∈ showHexInt v, xmlChar c = true := by
  intro c hc
  unfold showHexInt at hc
  simp only [List.mem_cons] at hc
  rcases hc with rfl | rfl | hc
  · decide
  · decide
  · split at hc
    · simp only [List.mem_cons] at hc
      rcases hc with rfl | hc
      · decide
      · exact hexAux_xml _ _ c hc
    · exact hexAux_xml _ _ c hc

theorem rleAttrs_ok (hex : Bool) (it : RItem) : OpOk (.start "RLE".toList (rleAttrs hex it)) := by
  refine ⟨by decide, ?_, by simp [rleAttrs]⟩
  intro kv hkv
  simp only [rleAttrs, List.mem_cons, List.not_mem_nil, or_false] at hkv
  rcases hkv with rfl | rfl | rfl
  · refine ⟨by show validName "datum".toList = true; decide, ?_⟩
    cases hex
    · exact showInt_xml _
    · exact showHexInt_xml _
  · refine ⟨by show validName "stride".toList = true; decide, ?_⟩
    cases hex
    · exact showInt_xml _
    · exact showHexInt_xml _
  · exact ⟨by show validName "repeat".toList = true; decide, decimal_xml _⟩

theorem rleOps_ok (hex : Bool) (elem : Str) (helem : validName elem = true) (items : List RItem) :
    ∀ op ∈ rleOps hex elem items, OpOk op := by
  intro op hop
  simp only [rleOps, List.mem_append, List.mem_cons, List.not_mem_nil, or_false, List.mem_flatMap] at hop
  rcases hop with (rfl | ⟨it, _, rfl | rfl⟩) | rfl
  · refine ⟨helem, ?_, by simp⟩
    intro kv hkv
    simp only [List.mem_cons, List.not_mem_nil, or_false] at hkv
    rcases hkv with rfl | rfl
    · exact ⟨by show validName "count".toList = true; decide, decimal_xml _⟩
    · exact ⟨by show validName "rle_len".toList = true; decide, decimal_xml _⟩
  · exact rleAttrs_ok hex it
  · trivial
  · trivial

theorem shape_items (hex : Bool) (items : List RItem) (d : Nat) (rd : Bool) (rest : List Op) :
    shape (d + 1) rd (items.flatMap (fun it => [.start "RLE".toList (rleAttrs hex it), .stop "RLE".toList]) ++ rest)
      = shape (d + 1) rd rest := by
  induction items with
  | nil => simp
  | cons it r ih =>
    simp only [List.flatMap_cons, List.cons_append, List.nil_append, shape]
    simp only [Nat.add_one_sub_one]
    have : (rd || d + 1 + 1 == 1) = rd := by simp
    rw [this]
    simpa using ih

theorem rleOps_shape (hex : Bool) (elem : Str) (items : List RItem) : shape 0 false (rleOps hex elem items) = true := by
  unfold rleOps
  simp only [List.cons_append, List.nil_append, shape]
  rw [shape_items]
  simp [shape]

end TD.C18
