import TD.Gen.C18Entities
/-
C18 — model of `TotalDepth/util/XmlWrite.py` (XmlStream / XhtmlStream / Element) as it is coded, of the RLE part of
`RP66V1/IndexXML.py` (`xml_rle_write`) with the integer core of `common/Rle.py`, and a small XML 1.0
recogniser/decoder (the *specification parser*, see `TD.C18.Spec` section below).

Core Lean only.  Strings are `List Char` (`Str`); a Lean `Char` is a Unicode scalar value, so lone surrogates
(which a Python `str` may hold) are outside the model and are exercised by the oracle only.
-/
namespace TD.C18

abbrev Str := List Char

inductive Err where
  | endElement      -- ExceptionXmlEndElement
  | assertion       -- AssertionError (`_flipIndent` on an empty stack)
  | xmlError        -- ExceptionXml (`xmlSpacePreserve` on an empty stack)
  deriving Repr, DecidableEq

/-! ## `XmlStream._encode` -/

def digitChar (n : Nat) : Char := Char.ofNat (48 + n)

/-- `f'{n:03d}'` for `n < 1000` (used only for `n < 32`). -/
def pad3 (n : Nat) : Str := [digitChar (n / 100), digitChar (n / 10 % 10), digitChar (n % 10)]

/-- `str(n)`: decimal digits, most significant first (fuel = `n + 1` is always enough). -/
def decimalAux : Nat → Nat → Str
  | 0, _ => []
  | f + 1, n => if n < 10 then [digitChar n] else decimalAux f (n / 10) ++ [digitChar (n % 10)]

def decimal (n : Nat) : Str := decimalAux (n + 1) n

/-- `ENTITY_MAP[c]` (`none` = `KeyError`). -/
def entityOf (c : Char) : Option Str := entityMap.lookup c

/-- One iteration of the loop of `_encode`: entity map first; otherwise `ord(c) < ord(' ')` gives `&#%03d;`;
otherwise `c.encode('ascii', 'xmlcharrefreplace')` (ASCII stays, everything else becomes `&#<decimal>;`). -/
def encodeChar (c : Char) : Str :=
  match entityOf c with
  | some e => e
  | none =>
    if c.toNat < 32 then ['&', '#'] ++ pad3 c.toNat ++ [';']
    else if c.toNat < 128 then [c]
    else ['&', '#'] ++ decimal c.toNat ++ [';']

def encodeL (s : Str) : Str := s.flatMap encodeChar

/-- `XmlStream._encode(theStr)`. -/
def encode (s : Str) : String := String.ofList (encodeL s)

/-! ## The element stack automaton (`startElement` … `__exit__`) -/

/-- Python `str` ordering (code point lexicographic), used by `sorted(attrs.keys())`. -/
def leStr : Str → Str → Bool
  | [], _ => true
  | _ :: _, [] => false
  | a :: as, b :: bs => if a.toNat < b.toNat then true else if b.toNat < a.toNat then false else leStr as bs

def insertAttr (kv : Str × Str) : List (Str × Str) → List (Str × Str)
  | [] => [kv]
  | x :: xs => if leStr kv.1 x.1 then kv :: x :: xs else x :: insertAttr kv xs

/-- attributes in `sorted(attrs.keys())` order (keys of a dict are distinct, so stability is immaterial). -/
def sortAttrs : List (Str × Str) → List (Str × Str)
  | [] => []
  | x :: xs => insertAttr x (sortAttrs xs)

inductive Op where
  | start (name : Str) (attrs : List (Str × Str))
  | chars (s : Str)
  | literal (s : Str)
  | comment (s : Str)
  | pi (s : Str)
  | stop (name : Str)
  | spacePreserve
  | charsBr (s : Str)        -- XhtmlStream.charactersWithBr
  deriving Repr

structure WState where
  elemStk : List Str := []        -- top of the Python list is the head
  inElem : Bool := false
  canIndentStk : List Bool := []
  deriving Repr

def WState.canIndent (w : WState) : Bool := w.canIndentStk.all id

/-- `_indent()` (offset 0). -/
def WState.indent (w : WState) : Str :=
  if w.canIndent then '\n' :: List.replicate (2 * w.elemStk.length) ' ' else []

/-- `_closeElemIfOpen()`. -/
def WState.closeIfOpen (w : WState) : WState × Str :=
  if w.inElem then ({ w with inElem := false }, ['>']) else (w, [])

/-- `_flipIndent(b)` — `assert(len(self._canIndentStk) > 0)`. -/
def WState.flipIndent (w : WState) (b : Bool) : Except Err WState :=
  match w.canIndentStk with
  | [] => .error .assertion
  | _ :: r => .ok { w with canIndentStk := b :: r }

def attrStr (kv : Str × Str) : Str := ' ' :: kv.1 ++ ['=', '"'] ++ encodeL kv.2 ++ ['"']

def startChunk (name : Str) (attrs : List (Str × Str)) : Str :=
  '<' :: name ++ (sortAttrs attrs).flatMap attrStr

def startElement (w : WState) (name : Str) (attrs : List (Str × Str)) : WState × Str :=
  let (w1, c1) := w.closeIfOpen
  let c2 := w1.indent
  ({ elemStk := name :: w1.elemStk, inElem := true, canIndentStk := true :: w1.canIndentStk },
   c1 ++ c2 ++ startChunk name attrs)

def endElement (w : WState) (name : Str) : Except Err (WState × Str) :=
  match w.elemStk with
  | [] => .error .endElement
  | top :: rest =>
    if name ≠ top then .error .endElement else
    let w1 : WState := { w with elemStk := rest }
    if w.inElem then
      .ok ({ w1 with inElem := false, canIndentStk := w.canIndentStk.tail }, ['/', '>'])
    else
      -- `_indent()` runs with the element already popped from `_elemStk` but its flag still on `_canIndentStk`
      .ok ({ w1 with canIndentStk := w.canIndentStk.tail }, w1.indent ++ ['<', '/'] ++ top ++ ['>'])

/-- The `characters` / `<br/>` expansion of `charactersWithBr`: the primitive calls it makes, in order. -/
def brOps : Nat → Str → List Op
  | 0, _ => []
  | fuel + 1, s =>
    if s.isEmpty then [] else
    match s.span (· ≠ '\n') with
    | (pre, []) => [.chars pre]
    | (pre, _ :: post) => .chars pre :: .start ['b', 'r'] [] :: .stop ['b', 'r'] :: brOps fuel post

/-- a sequence of primitive calls (no `charsBr` inside, by construction of `brOps`) -/
def runPrim (w : WState) : List Op → Except Err (WState × Str)
  | [] => .ok (w, [])
  | .chars s :: ops =>
    let (w1, c1) := w.closeIfOpen
    match w1.flipIndent false with
    | .error e => .error e
    | .ok w2 => match runPrim w2 ops with
      | .error e => .error e
      | .ok (w3, c3) => .ok (w3, c1 ++ encodeL s ++ c3)
  | .start name attrs :: ops =>
    let (w1, c1) := startElement w name attrs
    match runPrim w1 ops with
    | .error e => .error e
    | .ok (w3, c3) => .ok (w3, c1 ++ c3)
  | .stop name :: ops =>
    match endElement w name with
    | .error e => .error e
    | .ok (w1, c1) => match runPrim w1 ops with
      | .error e => .error e
      | .ok (w3, c3) => .ok (w3, c1 ++ c3)
  | _ :: _ => .error .assertion   -- unreachable: brOps only yields chars/start/stop

/-- one call on the stream: the new state and the text written (or the exception) -/
def stepW (w : WState) : Op → Except Err (WState × Str)
  | .start name attrs => .ok (startElement w name attrs)
  | .chars s =>
    let (w1, c1) := w.closeIfOpen
    match w1.flipIndent false with       -- the write happens first, then the assertion; an error discards the text
    | .error e => .error e
    | .ok w2 => .ok (w2, c1 ++ encodeL s)
  | .literal s =>
    let (w1, c1) := w.closeIfOpen
    match w1.flipIndent false with
    | .error e => .error e
    | .ok w2 => .ok (w2, c1 ++ s)
  | .comment s =>
    let (w1, c1) := w.closeIfOpen
    .ok (w1, c1 ++ ['<', '!', '-', '-'] ++ encodeL s ++ ['-', '-', '>'])
  | .pi s =>
    let (w1, c1) := w.closeIfOpen
    match w1.flipIndent false with
    | .error e => .error e
    | .ok w2 => .ok (w2, c1 ++ ['<', '?'] ++ encodeL s ++ ['?', '>'])
  | .stop name => endElement w name
  | .spacePreserve =>
    match w.canIndentStk with
    | [] => .error .xmlError
    | _ :: r => .ok ({ w with canIndentStk := false :: r }, [])
  | .charsBr s => runPrim w (brOps (s.length + 1) s)

/-- a sequence of calls -/
def runW (w : WState) : List Op → Except Err (WState × Str)
  | [] => .ok (w, [])
  | op :: ops =>
    match stepW w op with
    | .error e => .error e
    | .ok (w1, c1) =>
      match runW w1 ops with
      | .error e => .error e
      | .ok (w2, c2) => .ok (w2, c1 ++ c2)

/-- `__exit__`: `while len(self._elemStk): self.endElement(self._elemStk[-1])`, then a newline. -/
def closeAll : Nat → WState → Str
  | 0, _ => ['\n']
  | fuel + 1, w =>
    match w.elemStk with
    | [] => ['\n']
    | top :: _ =>
      match endElement w top with
      | .error _ => ['\n']       -- cannot happen: the name is the top of the stack
      | .ok (w1, c1) => c1 ++ closeAll fuel w1

def exitChunk (w : WState) : Str := closeAll w.elemStk.length w

/-- `XmlStream.__enter__`: `<?xml version='1.0' encoding="%s"?>`. -/
def xmlHeader (enc : Str) : Str :=
  "<?xml version='1.0' encoding=\"".toList ++ enc ++ "\"?>".toList

def xhtmlDoctype : Str :=
  "\n<!DOCTYPE html PUBLIC \"-//W3C//DTD XHTML 1.0 Strict//EN\" \"http://www.w3.org/TR/xhtml1/DTD/xhtml1-strict.dtd\">".toList

def xhtmlRootAttrs : List (Str × Str) :=
  [("xmlns".toList, "http://www.w3.org/1999/xhtml".toList), ("xml:lang".toList, "en".toList), ("lang".toList, "en".toList)]

inductive Kind where
  | xml | xhtml
  deriving Repr, DecidableEq

/-- state and text after `__enter__` -/
def enter (k : Kind) (enc : Str) : WState × Str :=
  match k with
  | .xml => ({}, xmlHeader enc)
  | .xhtml =>
    let (w, c) := startElement {} "html".toList xhtmlRootAttrs
    (w, xmlHeader enc ++ xhtmlDoctype ++ c)

/-- The whole text of `with XmlStream(f) as x: <ops>` when no call raises. -/
def document (k : Kind) (enc : Str) (ops : List Op) : Except Err Str :=
  let (w0, c0) := enter k enc
  match runW w0 ops with
  | .error e => .error e
  | .ok (w1, c1) => .ok (c0 ++ c1 ++ exitChunk w1)

/-! ## The specification parser: XML 1.0 recogniser/decoder for the fragment the writer emits

A character-at-a-time machine with an element stack.  It is **sound but deliberately not complete**: it rejects a few
well-formed constructs the writer never produces (a raw `>` or CR in character data, CDATA sections, an internal DTD
subset, comments/PIs before the DOCTYPE, references to entities other than the five predefined ones); everything it
accepts is well-formed XML 1.0 (without namespaces) and the events it reports are those a conforming parser reports.
Productions cited are those of XML 1.0 (Fifth Edition). -/

/-- [2] Char -/
def isXmlCharN (n : Nat) : Bool :=
  n = 9 || n = 10 || n = 13 || (32 ≤ n && n ≤ 0xD7FF) || (0xE000 ≤ n && n ≤ 0xFFFD) || (0x10000 ≤ n && n ≤ 0x10FFFF)

def xmlChar (c : Char) : Bool := isXmlCharN c.toNat

/-- [3] S -/
def isS (c : Char) : Bool := c = ' ' || c = '\t' || c = '\n' || c = '\r'

/-- [4] NameStartChar -/
def nameStartN (n : Nat) : Bool :=
  n = 58 || (65 ≤ n && n ≤ 90) || n = 95 || (97 ≤ n && n ≤ 122) || (0xC0 ≤ n && n ≤ 0xD6) || (0xD8 ≤ n && n ≤ 0xF6)
  || (0xF8 ≤ n && n ≤ 0x2FF) || (0x370 ≤ n && n ≤ 0x37D) || (0x37F ≤ n && n ≤ 0x1FFF) || (0x200C ≤ n && n ≤ 0x200D)
  || (0x2070 ≤ n && n ≤ 0x218F) || (0x2C00 ≤ n && n ≤ 0x2FEF) || (0x3001 ≤ n && n ≤ 0xD7FF)
  || (0xF900 ≤ n && n ≤ 0xFDCF) || (0xFDF0 ≤ n && n ≤ 0xFFFD) || (0x10000 ≤ n && n ≤ 0xEFFFF)

/-- [4a] NameChar -/
def nameCharN (n : Nat) : Bool :=
  nameStartN n || n = 45 || n = 46 || (48 ≤ n && n ≤ 57) || n = 0xB7 || (0x300 ≤ n && n ≤ 0x36F) || (0x203F ≤ n && n ≤ 0x2040)

def nameStart (c : Char) : Bool := nameStartN c.toNat
def nameChar (c : Char) : Bool := nameCharN c.toNat

/-- [5] Name -/
def validName : Str → Bool
  | [] => false
  | c :: r => nameStart c && r.all nameChar

inductive Event where
  | start (name : Str) (attrs : List (Str × Str))
  | chr (c : Char)                      -- one character of character data (after reference decoding)
  | stop (name : Str)
  | comment (s : Str)
  | pi (target data : Str)
  | doctype (body : Str)                -- the text between `<!` and `>` of the document type declaration
  deriving Repr, DecidableEq

inductive Mode where
  | content
  | lt
  | stag (acc : Str)
  | tagWS (name : Str) (attrs : List (Str × Str))
  | attrName (name : Str) (attrs : List (Str × Str)) (acc : Str)
  | attrNameWS (name : Str) (attrs : List (Str × Str)) (an : Str)
  | attrEq (name : Str) (attrs : List (Str × Str)) (an : Str)
  | attrVal (name : Str) (attrs : List (Str × Str)) (an : Str) (q : Char) (acc : Str)
  | attrRef (name : Str) (attrs : List (Str × Str)) (an : Str) (q : Char) (acc : Str) (r : Str)
  | afterAttr (name : Str) (attrs : List (Str × Str))
  | emptyClose (name : Str) (attrs : List (Str × Str))
  | etag (acc : Str)
  | etagWS (name : Str)
  | ref (r : Str)
  | bang
  | bang1
  | comment (acc : Str) (dashes : Nat)
  | piTarget (acc : Str)
  | piWS (target : Str)
  | piData (target : Str) (acc : Str) (q : Bool)
  | piClose (target : Str)
  | doctype (acc : Str) (q : Option Char)
  deriving Repr, DecidableEq

structure PState where
  mode : Mode := .content
  stack : List Str := []          -- open elements, innermost first
  rootDone : Bool := false        -- the document element has been closed
  evs : List Event := []          -- events so far, most recent first
  deriving Repr, DecidableEq

def isDigit (c : Char) : Bool := 48 ≤ c.toNat && c.toNat ≤ 57

def parseDecAux : Str → Nat → Option Nat
  | [], acc => some acc
  | c :: r, acc => if isDigit c then parseDecAux r (acc * 10 + (c.toNat - 48)) else none

def parseDec (l : Str) : Option Nat := if l.isEmpty then none else parseDecAux l 0

def hexVal (c : Char) : Option Nat :=
  if isDigit c then some (c.toNat - 48)
  else if 97 ≤ c.toNat && c.toNat ≤ 102 then some (c.toNat - 87)
  else if 65 ≤ c.toNat && c.toNat ≤ 70 then some (c.toNat - 55)
  else none

def parseHexAux : Str → Nat → Option Nat
  | [], acc => some acc
  | c :: r, acc => match hexVal c with
    | some d => parseHexAux r (acc * 16 + d)
    | none => none

def parseHex (l : Str) : Option Nat := if l.isEmpty then none else parseHexAux l 0

/-- a character reference is legal only for a code point matching [2] Char (WFC: Legal Character) -/
def charOfCode (n : Nat) : Option Char := if isXmlCharN n then some (Char.ofNat n) else none

/-- [66] CharRef and [68] EntityRef restricted to the predefined entities (4.6); `r` is the text between `&` and `;`. -/
def decodeRef (r : Str) : Option Char :=
  match r with
  | '#' :: 'x' :: h => (parseHex h).bind charOfCode
  | '#' :: d => (parseDec d).bind charOfCode
  | ['l', 't'] => some '<'
  | ['g', 't'] => some '>'
  | ['a', 'm', 'p'] => some '&'
  | ['a', 'p', 'o', 's'] => some '\''
  | ['q', 'u', 'o', 't'] => some '"'
  | _ => none

def refChar (c : Char) : Bool := c = '#' || nameChar c

def lower (c : Char) : Char := if 65 ≤ c.toNat && c.toNat ≤ 90 then Char.ofNat (c.toNat + 32) else c

/-- [17] PITarget: a Name other than (('X'|'x')('M'|'m')('L'|'l')) -/
def validTarget (t : Str) : Bool := validName t && t.map lower ≠ ['x', 'm', 'l']

/-! ### Prolog: XMLDecl [23] and doctypedecl [28] (external identifiers only) -/

def skipS : Str → Str
  | [] => []
  | c :: r => if isS c then skipS r else c :: r

/-- drop a literal prefix -/
def dropLit : Str → Str → Option Str
  | [], s => some s
  | _ :: _, [] => none
  | a :: as, b :: bs => if a = b then dropLit as bs else none

/-- split at the first occurrence of the two characters `a b` -/
def splitAt2 (a b : Char) : Str → Option (Str × Str)
  | [] => none
  | [_] => none
  | x :: y :: r =>
    if x = a && y = b then some ([], r)
    else match splitAt2 a b (y :: r) with
      | some (pre, post) => some (x :: pre, post)
      | none => none

/-- a quoted literal whose content satisfies `ok`: returns (content, rest) -/
def quoted (ok : Char → Bool) : Str → Option (Str × Str)
  | q :: r =>
    if q = '"' || q = '\'' then
      let body := r.takeWhile (· ≠ q)
      match r.dropWhile (· ≠ q) with
      | _ :: rest => if body.all ok then some (body, rest) else none
      | [] => none
    else none
  | [] => none

/-- `S? '=' S?` [25] -/
def eqSign (s : Str) : Option Str :=
  match skipS s with
  | '=' :: r => some (skipS r)
  | _ => none

def isAlpha (c : Char) : Bool := (65 ≤ c.toNat && c.toNat ≤ 90) || (97 ≤ c.toNat && c.toNat ≤ 122)

/-- [26] VersionNum ::= '1.' [0-9]+ -/
def versionNumOk : Str → Bool
  | '1' :: '.' :: d :: r => isDigit d && r.all isDigit
  | _ => false

/-- [81] EncName -/
def encNameOk : Str → Bool
  | c :: r => isAlpha c && r.all (fun c => isAlpha c || isDigit c || c = '.' || c = '_' || c = '-')
  | [] => false

/-- the text between `<?xml` and `?>` : VersionInfo EncodingDecl? SDDecl? S? -/
def xmlDeclOk (d : Str) : Bool :=
  match d with
  | c :: r =>
    if !isS c then false else
    match dropLit "version".toList (skipS r) with
    | none => false
    | some r1 => match eqSign r1 with
      | none => false
      | some r2 => match quoted (fun _ => true) r2 with
        | none => false
        | some (v, r3) =>
          if !versionNumOk v then false else
          -- optional encoding
          let afterEnc : Option Str :=
            match r3 with
            | c3 :: _ =>
              if isS c3 then
                match dropLit "encoding".toList (skipS r3) with
                | some r4 => match eqSign r4 with
                  | some r5 => match quoted (fun _ => true) r5 with
                    | some (e, r6) => if encNameOk e then some r6 else none
                    | none => none
                  | none => none
                | none => some r3
              else some r3
            | [] => some r3
          match afterEnc with
          | none => false
          | some r7 =>
            match r7 with
            | c7 :: _ =>
              if isS c7 then
                match dropLit "standalone".toList (skipS r7) with
                | some r8 => match eqSign r8 with
                  | some r9 => match quoted (fun _ => true) r9 with
                    | some (sd, r10) => (sd = "yes".toList || sd = "no".toList) && (skipS r10).isEmpty
                    | none => false
                  | none => false
                | none => (skipS r7).isEmpty
              else false
            | [] => true
  | [] => false

/-- remove the XML declaration, if there is one -/
def stripDecl (doc : Str) : Option Str :=
  match doc with
  | '<' :: '?' :: 'x' :: 'm' :: 'l' :: c :: rest =>
    if isS c then
      match splitAt2 '?' '>' (c :: rest) with
      | some (d, rest') => if xmlDeclOk d then some rest' else none
      | none => none
    else some doc
  | _ => some doc

/-- [13] PubidChar -/
def pubidChar (c : Char) : Bool :=
  c = ' ' || c = '\r' || c = '\n' || isAlpha c || isDigit c || "-'()+,./:=?;!*#@$_%".toList.contains c

/-- the text between `<!` and `>` of a document type declaration [28], external identifiers only:
`DOCTYPE S Name (S ExternalID)? S?` -/
def doctypeBodyOk (body : Str) : Bool :=
  match dropLit "DOCTYPE".toList body with
  | none => false
  | some r =>
    match r with
    | [] => false
    | c :: _ =>
      if !isS c then false else
      let r1 := skipS r
      let name := r1.takeWhile nameChar
      let r2 := r1.dropWhile nameChar
      if !validName name then false else
      match r2 with
      | [] => true
      | c2 :: _ =>
        if !isS c2 then false else
        let r3 := skipS r2
        if r3.isEmpty then true else
        let sysPart (r : Str) : Bool :=
          match quoted (fun _ => true) r with
          | some (_, r') => (skipS r').isEmpty
          | none => false
        match dropLit "SYSTEM".toList r3 with
        | some r4 => (match r4 with
          | c4 :: _ => isS c4 && sysPart (skipS r4)
          | [] => false)
        | none =>
          match dropLit "PUBLIC".toList r3 with
          | some r4 => (match r4 with
            | c4 :: _ =>
              if !isS c4 then false else
              match quoted pubidChar (skipS r4) with
              | some (_, r5) => (match r5 with
                | c5 :: _ => isS c5 && sysPart (skipS r5)
                | [] => false)
              | none => false
            | [] => false)
          | none => false

/-- `>` of a start tag [40] -/
def openTag (s : PState) (name : Str) (attrs : List (Str × Str)) : PState :=
  { mode := .content, stack := name :: s.stack, rootDone := s.rootDone, evs := .start name attrs :: s.evs }

/-- `/>` of an empty-element tag [44] -/
def emptyTag (s : PState) (name : Str) (attrs : List (Str × Str)) : PState :=
  { mode := .content, stack := s.stack, rootDone := s.rootDone || s.stack.isEmpty,
    evs := .stop name :: .start name attrs :: s.evs }

/-- end tag [42]; WFC: Element Type Match -/
def closeTag (s : PState) (name : Str) : Option PState :=
  match s.stack with
  | [] => none
  | top :: rest =>
    if top = name then some { mode := .content, stack := rest, rootDone := s.rootDone || rest.isEmpty, evs := .stop name :: s.evs }
    else none

def step (s : PState) (c : Char) : Option PState :=
  match s.mode with
  | .content =>
    if c = '<' then some { s with mode := .lt }
    else if s.stack.isEmpty then (if isS c then some s else none)        -- [27] Misc outside the document element
    else if c = '&' then some { s with mode := .ref [] }
    else if c = '>' || c = '\r' then none                                -- (sound subset, see above)
    else if xmlChar c then some { s with evs := .chr c :: s.evs }        -- [14] CharData
    else none
  | .lt =>
    if c = '/' then (if s.stack.isEmpty then none else some { s with mode := .etag [] })
    else if c = '!' then some { s with mode := .bang }
    else if c = '?' then some { s with mode := .piTarget [] }
    else if nameStart c then
      (if s.stack.isEmpty && s.rootDone then none                        -- [1] exactly one document element
       else some { s with mode := .stag [c] })
    else none
  | .stag acc =>
    if nameChar c then some { s with mode := .stag (c :: acc) }
    else if isS c then some { s with mode := .tagWS acc.reverse [] }
    else if c = '>' then some (openTag s acc.reverse [])
    else if c = '/' then some { s with mode := .emptyClose acc.reverse [] }
    else none
  | .tagWS n as =>
    if isS c then some s
    else if nameStart c then some { s with mode := .attrName n as [c] }
    else if c = '>' then some (openTag s n as)
    else if c = '/' then some { s with mode := .emptyClose n as }
    else none
  | .attrName n as acc =>
    if nameChar c then some { s with mode := .attrName n as (c :: acc) }
    else if as.any (fun kv => kv.1 = acc.reverse) then none              -- WFC: Unique Att Spec
    else if c = '=' then some { s with mode := .attrEq n as acc.reverse }
    else if isS c then some { s with mode := .attrNameWS n as acc.reverse }
    else none
  | .attrNameWS n as an =>
    if isS c then some s
    else if c = '=' then some { s with mode := .attrEq n as an }
    else none
  | .attrEq n as an =>
    if isS c then some s
    else if c = '"' || c = '\'' then some { s with mode := .attrVal n as an c [] }
    else none
  | .attrVal n as an q acc =>
    if c = q then some { s with mode := .afterAttr n (as ++ [(an, acc.reverse)]) }
    else if c = '<' || c = '\r' then none                                -- WFC: No < in Attribute Values
    else if c = '&' then some { s with mode := .attrRef n as an q acc [] }
    else if c = '\t' || c = '\n' then some { s with mode := .attrVal n as an q (' ' :: acc) }   -- 3.3.3 normalisation
    else if xmlChar c then some { s with mode := .attrVal n as an q (c :: acc) }
    else none
  | .attrRef n as an q acc r =>
    if c = ';' then
      match decodeRef r.reverse with
      | some d => some { s with mode := .attrVal n as an q (d :: acc) }  -- a referenced character is not normalised
      | none => none
    else if refChar c then some { s with mode := .attrRef n as an q acc (c :: r) }
    else none
  | .afterAttr n as =>
    if isS c then some { s with mode := .tagWS n as }
    else if c = '>' then some (openTag s n as)
    else if c = '/' then some { s with mode := .emptyClose n as }
    else none
  | .emptyClose n as => if c = '>' then some (emptyTag s n as) else none
  | .etag acc =>
    if nameChar c then some { s with mode := .etag (c :: acc) }
    else if isS c then some { s with mode := .etagWS acc.reverse }
    else if c = '>' then closeTag s acc.reverse
    else none
  | .etagWS n =>
    if isS c then some s
    else if c = '>' then closeTag s n
    else none
  | .ref r =>
    if c = ';' then
      match decodeRef r.reverse with
      | some d => some { s with mode := .content, evs := .chr d :: s.evs }
      | none => none
    else if refChar c then some { s with mode := .ref (c :: r) }
    else none
  | .bang =>
    if c = '-' then some { s with mode := .bang1 }
    else if c = 'D' then
      -- [22] prolog: at most one doctypedecl, before the document element (and, here, before any comment or PI)
      (if s.stack.isEmpty && !s.rootDone && s.evs.isEmpty then some { s with mode := .doctype ['D'] none } else none)
    else none
  | .doctype acc q =>
    match q with
    | some qc =>
      if c = qc then some { s with mode := .doctype (c :: acc) none }
      else if xmlChar c then some { s with mode := .doctype (c :: acc) (some qc) } else none
    | none =>
      if c = '>' then
        (if doctypeBodyOk acc.reverse then some { s with mode := .content, evs := .doctype acc.reverse :: s.evs } else none)
      else if c = '<' || c = '[' then none                              -- no internal subset (sound subset)
      else if c = '"' || c = '\'' then some { s with mode := .doctype (c :: acc) (some c) }
      else if xmlChar c then some { s with mode := .doctype (c :: acc) none } else none
  | .bang1 => if c = '-' then some { s with mode := .comment [] 0 } else none
  | .comment acc d =>                                                    -- [15] Comment
    match d with
    | 0 => if c = '-' then some { s with mode := .comment acc 1 }
           else if xmlChar c then some { s with mode := .comment (c :: acc) 0 } else none
    | 1 => if c = '-' then some { s with mode := .comment acc 2 }
           else if xmlChar c then some { s with mode := .comment (c :: '-' :: acc) 0 } else none
    | _ => if c = '>' then some { s with mode := .content, evs := .comment acc.reverse :: s.evs } else none
  | .piTarget acc =>                                                     -- [16] PI
    if nameChar c then some { s with mode := .piTarget (c :: acc) }
    else if !validTarget acc.reverse then none
    else if isS c then some { s with mode := .piWS acc.reverse }
    else if c = '?' then some { s with mode := .piClose acc.reverse }     -- `<?target?>`
    else none
  | .piClose t => if c = '>' then some { s with mode := .content, evs := .pi t [] :: s.evs } else none
  | .piWS t =>
    if isS c then some s
    else if c = '?' then some { s with mode := .piData t [] true }
    else if xmlChar c then some { s with mode := .piData t [c] false }
    else none
  | .piData t acc q =>
    if q then
      (if c = '>' then some { s with mode := .content, evs := .pi t acc.reverse :: s.evs }
       else if c = '?' then some { s with mode := .piData t ('?' :: acc) true }
       else if xmlChar c then some { s with mode := .piData t (c :: '?' :: acc) false }
       else none)
    else
      (if c = '?' then some { s with mode := .piData t acc true }
       else if xmlChar c then some { s with mode := .piData t (c :: acc) false }
       else none)

def runM (s : PState) : Str → Option PState
  | [] => some s
  | c :: r => match step s c with
    | some s' => runM s' r
    | none => none

def accepting (s : PState) : Bool := s.mode = .content && s.stack.isEmpty && s.rootDone

/-- the decoder: events in document order, or `none` when the text is not well-formed (in the fragment) -/
def parse (doc : Str) : Option (List Event) :=
  match stripDecl doc with
  | none => none
  | some body => match runM {} body with
    | none => none
    | some s => if accepting s then some s.evs.reverse else none

def wellFormed (doc : Str) : Bool := (parse doc).isSome

/-- decoder for a piece of character data: wrap it in an element and read the characters back -/
def decodeText (t : Str) : Option Str :=
  match runM { stack := [['a']] } t with
  | some s =>
    if s.mode = .content && s.stack = [['a']] then
      s.evs.reverse.mapM (fun e => match e with | .chr c => some c | _ => none)
    else none
  | none => none

/-- decoder for the text between the quotes of a double-quoted attribute value -/
def decodeAttr (t : Str) : Option Str :=
  match runM { mode := .attrVal ['a'] [] ['k'] '"' [] } (t ++ ['"']) with
  | some s => match s.mode with
    | .afterAttr _ [(_, v)] => some v
    | _ => none
  | none => none

/-! ## Run-length items (integer core of `common/Rle.py`) and their XML attributes (`IndexXML.xml_rle_write`) -/

structure RItem where
  datum : Int
  stride : Int := 0
  repeat_ : Nat := 0
  deriving Repr, DecidableEq

/-- `RLEItem.add` (integer branch): `some` = absorbed -/
def RItem.add (it : RItem) (v : Int) : Option RItem :=
  if it.repeat_ = 0 then some { it with stride := v - it.datum, repeat_ := 1 }
  else if v = it.datum + it.stride * ((it.repeat_ : Int) + 1) then some { it with repeat_ := it.repeat_ + 1 }
  else none

/-- `RLE.add` on the item list kept most-recent-first -/
def rleAddRev (items : List RItem) (v : Int) : List RItem :=
  match items with
  | [] => [{ datum := v }]
  | it :: rest => match it.add v with
    | some it' => it' :: rest
    | none => { datum := v } :: it :: rest

/-- `create_rle(values).rle_items` -/
def rleCreate (xs : List Int) : List RItem := (xs.foldl rleAddRev []).reverse

/-- `RLEItem.values()` : repeated addition of the stride -/
def valuesFrom (v stride : Int) : Nat → List Int
  | 0 => []
  | n + 1 => (v + stride) :: valuesFrom (v + stride) stride n

def RItem.values (it : RItem) : List Int := it.datum :: valuesFrom it.datum it.stride it.repeat_

def hexDigitChar (n : Nat) : Char := if n < 10 then Char.ofNat (48 + n) else Char.ofNat (87 + n)

def hexAux : Nat → Nat → Str
  | 0, _ => []
  | f + 1, n => if n < 16 then [hexDigitChar n] else hexAux f (n / 16) ++ [hexDigitChar (n % 16)]

/-- `f'{n:x}'` for `n ≥ 0` -/
def hexNat (n : Nat) : Str := hexAux (n + 1) n

/-- `f'{v}'` -/
def showInt (v : Int) : Str := if v < 0 then '-' :: decimal v.natAbs else decimal v.natAbs

/-- `f'0x{v:x}'` (Python puts the sign after the prefix: `0x-5`) -/
def showHexInt (v : Int) : Str := '0' :: 'x' :: (if v < 0 then '-' :: hexNat v.natAbs else hexNat v.natAbs)

/-- the attribute dictionary of one `<RLE …/>` element -/
def rleAttrs (hex : Bool) (it : RItem) : List (Str × Str) :=
  [("datum".toList, if hex then showHexInt it.datum else showInt it.datum),
   ("stride".toList, if hex then showHexInt it.stride else showInt it.stride),
   ("repeat".toList, decimal it.repeat_)]

/-- the calls `xml_rle_write` makes -/
def rleOps (hex : Bool) (elem : Str) (items : List RItem) : List Op :=
  [.start elem [("count".toList, decimal (items.map (fun it => it.repeat_ + 1)).sum), ("rle_len".toList, decimal items.length)]]
  ++ items.flatMap (fun it => [.start "RLE".toList (rleAttrs hex it), .stop "RLE".toList])
  ++ [.stop elem]

/-- reader side (specification): integer literal, decimal or `0x` hexadecimal, with the sign where the writer puts it -/
def readInt (s : Str) : Option Int :=
  match s with
  | '0' :: 'x' :: '-' :: h => (parseHex h).map (fun (n : Nat) => -(n : Int))
  | '0' :: 'x' :: h => (parseHex h).map (fun (n : Nat) => (n : Int))
  | '-' :: d => (parseDec d).map (fun (n : Nat) => -(n : Int))
  | d => (parseDec d).map (fun (n : Nat) => (n : Int))

/-- closed-form expansion of one `<RLE datum stride repeat/>` (specification) -/
def expandItem (attrs : List (Str × Str)) : Option (List Int) :=
  match attrs.lookup "datum".toList, attrs.lookup "stride".toList, attrs.lookup "repeat".toList with
  | some d, some s, some r =>
    match readInt d, readInt s, parseDec r with
    | some d, some s, some r => some ((List.range (r + 1)).map (fun (i : Nat) => d + s * (i : Int)))
    | _, _, _ => none
  | _, _, _ => none

def expand (items : List (List (Str × Str))) : Option (List Int) :=
  (items.mapM expandItem).map List.flatten

end TD.C18
