import TD.C18.Lemmas
/-!
Simulation lemmas for C18: the recogniser of `TD.C18.Model` run over the text written by each call of the
element-stack automaton.
-/
namespace TD.C18

/-! ### micro-lemmas: pieces of markup -/

theorem nameChar_not_special {c : Char} (h : nameChar c = true) :
    c ≠ '>' ∧ c ≠ '/' ∧ c ≠ '=' ∧ c ≠ ' ' ∧ isS c = false := by
  refine ⟨?_, ?_, ?_, ?_, ?_⟩
  · intro e; subst e; revert h; decide
  · intro e; subst e; revert h; decide
  · intro e; subst e; revert h; decide
  · intro e; subst e; revert h; decide
  · cases hs : isS c with
    | false => rfl
    | true =>
      simp [isS] at hs
      rcases hs with ((e | e) | e) | e <;> (subst e; revert h; decide)

theorem run_stag_name (n acc : Str) (stk : List Str) (rd : Bool) (evs : List Event) (hn : ∀ c ∈ n, nameChar c = true) :
    runM ⟨.stag acc, stk, rd, evs⟩ n = some ⟨.stag (n.reverse ++ acc), stk, rd, evs⟩ := by
  induction n generalizing acc with
  | nil => simp [runM]
  | cons c r ih =>
    simp only [runM, step, hn c (by simp), if_true]
    rw [ih _ (fun c hc => hn c (by simp [hc]))]; simp

theorem run_etag_name (n acc : Str) (stk : List Str) (rd : Bool) (evs : List Event) (hn : ∀ c ∈ n, nameChar c = true) :
    runM ⟨.etag acc, stk, rd, evs⟩ n = some ⟨.etag (n.reverse ++ acc), stk, rd, evs⟩ := by
  induction n generalizing acc with
  | nil => simp [runM]
  | cons c r ih =>
    simp only [runM, step, hn c (by simp), if_true]
    rw [ih _ (fun c hc => hn c (by simp [hc]))]; simp

theorem run_attrName (k acc n : Str) (as : List (Str × Str)) (stk : List Str) (rd : Bool) (evs : List Event)
    (hk : ∀ c ∈ k, nameChar c = true) :
    runM ⟨.attrName n as acc, stk, rd, evs⟩ k = some ⟨.attrName n as (k.reverse ++ acc), stk, rd, evs⟩ := by
  induction k generalizing acc with
  | nil => simp [runM]
  | cons c r ih =>
    simp only [runM, step, hk c (by simp), if_true]
    rw [ih _ (fun c hc => hk c (by simp [hc]))]; simp

theorem validName_cons {c : Char} {r : Str} (h : validName (c :: r) = true) :
    nameStart c = true ∧ ∀ x ∈ r, nameChar x = true := by
  simp [validName] at h; exact h

theorem nameStart_nameChar {c : Char} (h : nameStart c = true) : nameChar c = true := by
  simp [nameChar, nameCharN, nameStart] at *; simp [h]

theorem nameStart_not_special {c : Char} (h : nameStart c = true) :
    c ≠ '/' ∧ c ≠ '!' ∧ c ≠ '?' ∧ c ≠ '>' ∧ isS c = false := by
  have h2 := nameChar_not_special (nameStart_nameChar h)
  refine ⟨h2.2.1, ?_, ?_, h2.1, h2.2.2.2.2⟩
  · intro e; subst e; revert h; decide
  · intro e; subst e; revert h; decide

/-- `<name` from content: the start-tag name -/
theorem run_lt_name (n : Str) (hn : validName n = true) (stk : List Str) (rd : Bool) (evs : List Event)
    (hroot : (stk.isEmpty && rd) = false) :
    runM ⟨.content, stk, rd, evs⟩ ('<' :: n) = some ⟨.stag n.reverse, stk, rd, evs⟩ := by
  cases n with
  | nil => simp [validName] at hn
  | cons c r =>
    obtain ⟨hs, hr⟩ := validName_cons hn
    obtain ⟨h1, h2, h3, _, _⟩ := nameStart_not_special hs
    have e1 : runM ⟨.content, stk, rd, evs⟩ ['<', c] = some ⟨.stag [c], stk, rd, evs⟩ := by
      simp [runM, step, h1, h2, h3, hs, hroot]
    have : '<' :: c :: r = ['<', c] ++ r := rfl
    rw [this, runM_append_of e1, run_stag_name _ _ _ _ _ hr]; simp

/-- one attribute ` k="v"` from inside a start tag -/
theorem run_attr (k v n : Str) (as : List (Str × Str)) (stk : List Str) (rd : Bool) (evs : List Event) (m : Mode)
    (hm : m = .stag n.reverse ∧ as = [] ∨ m = .afterAttr n as)
    (hk : validName k = true) (hv : ∀ c ∈ v, xmlChar c = true) (hu : as.any (fun kv => kv.1 = k) = false) :
    runM ⟨m, stk, rd, evs⟩ (attrStr (k, v)) = some ⟨.afterAttr n (as ++ [(k, v)]), stk, rd, evs⟩ := by
  cases k with
  | nil => simp [validName] at hk
  | cons c r =>
    obtain ⟨hs, hr⟩ := validName_cons hk
    obtain ⟨h1, _, _, h4, h5⟩ := nameStart_not_special hs
    have e1 : runM ⟨m, stk, rd, evs⟩ [' ', c] = some ⟨.attrName n as [c], stk, rd, evs⟩ := by
      rcases hm with ⟨rfl, rfl⟩ | rfl
      · simp [runM, step, hs, h5, show nameChar ' ' = false by decide, show isS ' ' = true by decide]
      · simp [runM, step, hs, h5, show isS ' ' = true by decide]
    have e2 : runM ⟨.attrName n as (r.reverse ++ [c]), stk, rd, evs⟩ ['=', '"'] = some ⟨.attrVal n as (c :: r) '"' [], stk, rd, evs⟩ := by
      simp [runM, step, show nameChar '=' = false by decide, show isS '"' = false by decide, hu]
    have e3 : runM ⟨.attrVal n as (c :: r) '"' (v.reverse ++ []), stk, rd, evs⟩ ['"'] = some ⟨.afterAttr n (as ++ [(c :: r, v)]), stk, rd, evs⟩ := by
      simp [runM, step]
    have : attrStr (c :: r, v) = [' ', c] ++ (r ++ (['=', '"'] ++ (encodeL v ++ ['"']))) := by simp [attrStr]
    rw [this, runM_append_of e1, runM_append_of (run_attrName _ _ _ _ _ _ _ hr), runM_append_of e2,
      runM_append_of (run_encodeL_attr v hv _ _ _ _ _ _ _), e3]

/-- the mode inside a start tag after the name and the attributes `as` -/
def tagMode (n : Str) (as : List (Str × Str)) : Mode :=
  if as.isEmpty then .stag n.reverse else .afterAttr n as

theorem tagMode_cases (n : Str) (as : List (Str × Str)) :
    tagMode n as = .stag n.reverse ∧ as = [] ∨ tagMode n as = .afterAttr n as := by
  cases as <;> simp [tagMode]

theorem run_attrs (l : List (Str × Str)) (n : Str) (as : List (Str × Str)) (stk : List Str) (rd : Bool) (evs : List Event)
    (hk : ∀ kv ∈ l, validName kv.1 = true) (hv : ∀ kv ∈ l, ∀ c ∈ kv.2, xmlChar c = true)
    (hu : ((as ++ l).map (·.1)).Nodup) :
    runM ⟨tagMode n as, stk, rd, evs⟩ (l.flatMap attrStr) = some ⟨tagMode n (as ++ l), stk, rd, evs⟩ := by
  induction l generalizing as with
  | nil => simp [runM]
  | cons kv t ih =>
    obtain ⟨k, v⟩ := kv
    have hany : as.any (fun kv => kv.1 = k) = false := by
      rw [List.any_eq_false]
      intro x hx hxe
      simp only [decide_eq_true_eq] at hxe
      simp only [List.map_append, List.map_cons] at hu
      have := (List.nodup_append.1 hu).2.2 x.1 (List.mem_map_of_mem hx) k (by simp)
      exact this hxe
    simp only [List.flatMap_cons]
    rw [runM_append_of (run_attr k v n as stk rd evs _ (tagMode_cases n as) (hk (k, v) (by simp)) (hv (k, v) (by simp)) hany)]
    have h2 : tagMode n (as ++ [(k, v)]) = .afterAttr n (as ++ [(k, v)]) := by simp [tagMode]
    rw [← h2, ih (as ++ [(k, v)]) (fun kv h => hk kv (by simp [h])) (fun kv h => hv kv (by simp [h])) (by simpa using hu)]
    simp

/-- `>` closing a start tag -/
theorem run_open (n : Str) (as : List (Str × Str)) (stk : List Str) (rd : Bool) (evs : List Event) :
    runM ⟨tagMode n as, stk, rd, evs⟩ ['>'] = some ⟨.content, n :: stk, rd, .start n as :: evs⟩ := by
  rcases tagMode_cases n as with ⟨h, rfl⟩ | h <;> rw [h] <;>
    simp [runM, step, openTag, show nameChar '>' = false by decide, show isS '>' = false by decide]

/-- `/>` closing an empty-element tag -/
theorem run_empty (n : Str) (as : List (Str × Str)) (stk : List Str) (rd : Bool) (evs : List Event) :
    runM ⟨tagMode n as, stk, rd, evs⟩ ['/', '>'] = some ⟨.content, stk, rd || stk.isEmpty, .stop n :: .start n as :: evs⟩ := by
  rcases tagMode_cases n as with ⟨h, rfl⟩ | h <;> rw [h] <;>
    simp [runM, step, emptyTag, show nameChar '/' = false by decide, show isS '/' = false by decide]

/-- `</name>` -/
theorem run_etag (n : Str) (hn : validName n = true) (stk : List Str) (rd : Bool) (evs : List Event) :
    runM ⟨.content, n :: stk, rd, evs⟩ (['<', '/'] ++ n ++ ['>']) = some ⟨.content, stk, rd || stk.isEmpty, .stop n :: evs⟩ := by
  have hall : ∀ c ∈ n, nameChar c = true := by
    cases n with
    | nil => simp [validName] at hn
    | cons c r =>
      obtain ⟨hs, hr⟩ := validName_cons hn
      intro x hx; simp at hx; rcases hx with rfl | hx
      · exact nameStart_nameChar hs
      · exact hr x hx
  have e1 : runM ⟨.content, n :: stk, rd, evs⟩ ['<', '/'] = some ⟨.etag [], n :: stk, rd, evs⟩ := by
    simp [runM, step]
  rw [List.append_assoc, runM_append_of e1, runM_append_of (run_etag_name n [] _ _ _ hall)]
  simp [runM, step, closeTag, show nameChar '>' = false by decide, show isS '>' = false by decide]

/-- indentation: newline and spaces are accepted in content, inside or outside the document element -/
theorem run_ws (ws : Str) (hws : ∀ c ∈ ws, c = '\n' ∨ c = ' ') (stk : List Str) (rd : Bool) (evs : List Event) :
    ∃ evs', runM ⟨.content, stk, rd, evs⟩ ws = some ⟨.content, stk, rd, evs'⟩ := by
  induction ws generalizing evs with
  | nil => exact ⟨evs, rfl⟩
  | cons c r ih =>
    have hr := fun c h => hws c (List.mem_cons_of_mem _ h)
    cases stk with
    | nil =>
      have : runM ⟨.content, [], rd, evs⟩ [c] = some ⟨.content, [], rd, evs⟩ := by
        rcases hws c (by simp) with rfl | rfl <;> rfl
      obtain ⟨e', he⟩ := ih hr evs
      exact ⟨e', by rw [show c :: r = [c] ++ r from rfl, runM_append_of this, he]⟩
    | cons a stk =>
      have : runM ⟨.content, a :: stk, rd, evs⟩ [c] = some ⟨.content, a :: stk, rd, .chr c :: evs⟩ := by
        rcases hws c (by simp) with rfl | rfl <;> rfl
      obtain ⟨e', he⟩ := ih hr (.chr c :: evs)
      exact ⟨e', by rw [show c :: r = [c] ++ r from rfl, runM_append_of this, he]⟩

/-- text that `literal()` may write: plain character data -/
def plainChar (c : Char) : Bool := xmlChar c && c != '<' && c != '&' && c != '>' && c != '\r'

theorem run_plain (s : Str) (hs : ∀ c ∈ s, plainChar c = true) (a : Str) (stk : List Str) (rd : Bool) (evs : List Event) :
    runM ⟨.content, a :: stk, rd, evs⟩ s = some ⟨.content, a :: stk, rd, (s.map Event.chr).reverse ++ evs⟩ := by
  induction s generalizing evs with
  | nil => simp [runM]
  | cons c r ih =>
    have hc := hs c (by simp)
    simp [plainChar] at hc
    obtain ⟨⟨⟨⟨h1, h2⟩, h3⟩, h4⟩, h5⟩ := hc
    have : runM ⟨.content, a :: stk, rd, evs⟩ [c] = some ⟨.content, a :: stk, rd, .chr c :: evs⟩ := by
      simp [runM, step, h1, h2, h3, h4, h5]
    rw [show c :: r = [c] ++ r from rfl, runM_append_of this, ih (fun c h => hs c (by simp [h]))]
    simp

/-! ### comments: the `--` repair of `XmlStream.comment` -/

/-- no run of three dashes, given `k` dashes immediately before -/
def ok3 : Nat → Str → Bool
  | _, [] => true
  | k, c :: r => if c = '-' then (decide (k < 2) && ok3 (k + 1) r) else ok3 0 r

/-- no run of two dashes, given `k` dashes immediately before -/
def ok2 : Nat → Str → Bool
  | _, [] => true
  | k, c :: r => if c = '-' then (decide (k < 1) && ok2 (k + 1) r) else ok2 0 r

theorem replaceDD_head (t : Str) : (replaceDD t).head? = t.head? := by
  unfold replaceDD
  split <;> simp

theorem ok3_nondash (k : Nat) (l : Str) (h : l.head? ≠ some '-') : ok3 k l = ok3 0 l := by
  cases l with
  | nil => simp [ok3]
  | cons x r =>
    have hx : x ≠ '-' := by intro e; subst e; simp at h
    simp [ok3, hx]

theorem ok2_nondash (k : Nat) (l : Str) (h : l.head? ≠ some '-') : ok2 k l = ok2 0 l := by
  cases l with
  | nil => simp [ok2]
  | cons x r =>
    have hx : x ≠ '-' := by intro e; subst e; simp at h
    simp [ok2, hx]

theorem ok3_mono (l : Str) : ok3 1 l = true → ok3 0 l = true := by
  cases l with
  | nil => simp [ok3]
  | cons x r =>
    by_cases hx : x = '-'
    · subst hx
      simp only [ok3, if_true]
      intro h
      simp at h ⊢
      cases r with
      | nil => simp [ok3]
      | cons y r' =>
        by_cases hy : y = '-'
        · subst hy; simp [ok3] at h
        · simp [ok3, hy] at h ⊢; exact h
    · simp [ok3, hx]

/-- after one `replace('--', '- -')` there is no run of three dashes (even after one more dash before it) -/
theorem ok3_replaceDD (t : Str) : ok3 1 (replaceDD t) = true := by
  induction t using replaceDD.induct with
  | case1 r ih =>
    simp only [replaceDD]
    simp [ok3, ih]
  | case2 c r hnot ih =>
    rw [replaceDD]
    · by_cases hc : c = '-'
      · subst hc
        have hr : r.head? ≠ some '-' := by
          intro e
          cases r with
          | nil => simp at e
          | cons y r' => simp at e; subst e; exact hnot r' rfl rfl
        have hh : (replaceDD r).head? ≠ some '-' := by rw [replaceDD_head]; exact hr
        simp only [ok3, if_true]
        rw [ok3_nondash 2 _ hh]
        simp [ok3_mono _ ih]
      · simp [ok3, hc, ok3_mono _ ih]
    · exact hnot
  | case3 => simp [replaceDD, ok3]

theorem ok3_two {r : Str} (h : ok3 2 r = true) : r.head? ≠ some '-' ∧ ok3 0 r = true := by
  cases r with
  | nil => simp [ok3]
  | cons y r' =>
    by_cases hy : y = '-'
    · subst hy; simp [ok3] at h
    · refine ⟨by simp [hy], ?_⟩; simpa [ok3, hy] using h

/-- a second `replace` leaves no `--` at all -/
theorem ok2_replaceDD (t : Str) : ok3 0 t = true → ok2 0 (replaceDD t) = true := by
  induction t using replaceDD.induct with
  | case1 r ih =>
    intro h
    have h2 : ok3 2 r = true := by simpa [ok3] using h
    obtain ⟨hh, h0⟩ := ok3_two h2
    have hh' : (replaceDD r).head? ≠ some '-' := by rw [replaceDD_head]; exact hh
    simp only [replaceDD]
    simp [ok2]
    rw [ok2_nondash 1 _ hh']
    exact ih h0
  | case2 c r hnot ih =>
    intro h
    rw [replaceDD]
    · by_cases hc : c = '-'
      · subst hc
        have hr : r.head? ≠ some '-' := by
          intro e
          cases r with
          | nil => simp at e
          | cons y r' => simp at e; subst e; exact hnot r' rfl rfl
        have hh : (replaceDD r).head? ≠ some '-' := by rw [replaceDD_head]; exact hr
        have h1 : ok3 1 r = true := by simpa [ok3] using h
        rw [ok3_nondash 1 _ hr] at h1
        simp only [ok2, if_true]
        rw [ok2_nondash 1 _ hh]
        simp [ih h1]
      · have h0 : ok3 0 r = true := by simpa [ok3, hc] using h
        simp [ok2, hc, ih h0]
    · exact hnot
  | case3 => intro _; simp [replaceDD, ok2]

theorem ok2_hasDD (u : Str) : ok2 0 u = !hasDD u := by
  induction u using hasDD.induct with
  | case1 r => simp [hasDD, ok2]
  | case2 c r hnot ih =>
    rw [hasDD]
    · by_cases hc : c = '-'
      · subst hc
        have hr : r.head? ≠ some '-' := by
          intro e
          cases r with
          | nil => simp at e
          | cons y r' => simp at e; subst e; exact hnot r' rfl rfl
        simp only [ok2, if_true]
        rw [ok2_nondash 1 _ hr]
        simp [ih]
      · simp [ok2, hc, ih]
    · exact hnot
  | case3 => simp [hasDD, ok2]

theorem hasDD_replace_twice (t : Str) : hasDD (replaceDD (replaceDD t)) = false := by
  have h := ok2_replaceDD (replaceDD t) (ok3_mono _ (ok3_replaceDD t))
  rw [ok2_hasDD] at h
  simpa using h

/-- the `while` loop ends with no `--` left (two rounds always suffice) -/
theorem hasDD_fixDD (f : Nat) (t : Str) : hasDD (fixDD (f + 2) t) = false := by
  simp only [fixDD]
  by_cases h0 : hasDD t = true
  · rw [if_pos h0]
    by_cases h1 : hasDD (replaceDD t) = true
    · rw [if_pos h1]
      have h2 := hasDD_replace_twice t
      cases f with
      | zero => simpa [fixDD] using h2
      | succ f => simp [fixDD, h2]
    · rw [if_neg h1]; simpa using h1
  · rw [if_neg h0]; simpa using h0

theorem mem_replaceDD (t : Str) : ∀ c ∈ replaceDD t, c ∈ t ∨ c = ' ' := by
  induction t using replaceDD.induct with
  | case1 r ih =>
    intro c hc
    simp only [replaceDD, List.mem_cons] at hc
    rcases hc with rfl | rfl | rfl | hc
    · simp
    · simp
    · simp
    · rcases ih c hc with h | h
      · left; simp [h]
      · right; exact h
  | case2 c r hnot ih =>
    intro x hx
    rw [replaceDD] at hx
    · simp only [List.mem_cons] at hx
      rcases hx with rfl | hx
      · simp
      · rcases ih x hx with h | h
        · left; simp [h]
        · right; exact h
    · exact hnot
  | case3 => simp [replaceDD]

theorem mem_fixDD (f : Nat) (t : Str) : ∀ c ∈ fixDD f t, c ∈ t ∨ c = ' ' := by
  induction f generalizing t with
  | zero => intro c hc; left; simpa [fixDD] using hc
  | succ f ih =>
    intro c hc
    simp only [fixDD] at hc
    split at hc
    · rcases ih _ c hc with h | h
      · exact mem_replaceDD t c h
      · right; exact h
    · left; exact hc

theorem digit_safe {x : Char} (h : isDigit x = true) : xmlChar x = true ∧ x ≠ '-' := by
  simp [isDigit] at h
  constructor
  · simp [xmlChar, isXmlCharN]; omega
  · intro e; subst e; revert h; decide

theorem digitChar_safe {k : Nat} (h : k < 10) : xmlChar (digitChar k) = true ∧ digitChar k ≠ '-' :=
  digit_safe (isDigit_digitChar h)

theorem encodeChar_safe (c : Char) (hc : c ≠ '-') :
    encodeChar c ≠ [] ∧ ∀ x ∈ encodeChar c, xmlChar x = true ∧ x ≠ '-' := by
  by_cases h1 : c = '<'; · subst h1; decide
  by_cases h2 : c = '>'; · subst h2; decide
  by_cases h3 : c = '&'; · subst h3; decide
  by_cases h4 : c = '\''; · subst h4; decide
  by_cases h5 : c = '"'; · subst h5; decide
  unfold encodeChar; rw [entityOf_none h1 h2 h3 h4 h5]; simp only
  have amp : xmlChar '&' = true ∧ '&' ≠ '-' := by decide
  have hash : xmlChar '#' = true ∧ '#' ≠ '-' := by decide
  have semi : xmlChar ';' = true ∧ ';' ≠ '-' := by decide
  by_cases hlt : c.toNat < 32
  · rw [if_pos hlt]
    refine ⟨by simp, ?_⟩
    intro x hx
    simp only [pad3, List.cons_append, List.nil_append, List.mem_cons, List.not_mem_nil, or_false] at hx
    rcases hx with rfl | rfl | rfl | rfl | rfl | rfl
    · exact amp
    · exact hash
    · exact digitChar_safe (by omega)
    · exact digitChar_safe (by omega)
    · exact digitChar_safe (by omega)
    · exact semi
  · rw [if_neg hlt]
    by_cases h128 : c.toNat < 128
    · rw [if_pos h128]
      refine ⟨by simp, ?_⟩
      intro x hx; simp at hx; subst hx
      refine ⟨?_, hc⟩
      simp [xmlChar, isXmlCharN]; omega
    · rw [if_neg h128]
      refine ⟨by simp, ?_⟩
      intro x hx
      simp only [List.cons_append, List.nil_append, List.mem_cons, List.mem_append, List.not_mem_nil, or_false] at hx
      rcases hx with rfl | rfl | hx | rfl
      · exact amp
      · exact hash
      · exact digit_safe (decimal_digits _ x hx)
      · exact semi

/-- comment text a parser accepts [15]: no `--`, not ending in `-` (`d` = a `-` has just been read) -/
def cOk : Nat → Str → Bool
  | d, [] => d == 0
  | d, c :: r => if c = '-' then (d == 0 && cOk 1 r) else cOk 0 r

theorem cOk_of_ok2 (u : Str) : ∀ d, d ≤ 1 → ok2 d u = true →
    cOk d (u ++ [' ']) = true ∧ ((if u = [] then d = 0 else endsDash u = false) → cOk d u = true) := by
  induction u with
  | nil =>
    intro d _ _
    refine ⟨by simp [cOk], ?_⟩
    intro h; simp at h; simp [cOk, h]
  | cons c r ih =>
    intro d hd h
    by_cases hc : c = '-'
    · subst hc
      simp only [ok2, if_true, Bool.and_eq_true, decide_eq_true_eq] at h
      obtain ⟨hd0, h1⟩ := h
      have hd0' : d = 0 := by omega
      subst hd0'
      obtain ⟨a, b⟩ := ih 1 (by omega) h1
      refine ⟨by simp [cOk, a], ?_⟩
      intro he
      simp only [List.cons_ne_nil, if_false] at he
      simp only [cOk, if_true, beq_self_eq_true, Bool.true_and]
      apply b
      cases r with
      | nil => simp [endsDash] at he
      | cons y r' => simp [endsDash] at he ⊢; exact he
    · simp only [ok2, hc, if_false] at h
      obtain ⟨a, b⟩ := ih 0 (by omega) h
      refine ⟨by simp [cOk, hc, a], ?_⟩
      intro he
      simp only [List.cons_ne_nil, if_false] at he
      simp only [cOk, hc, if_false]
      apply b
      cases r with
      | nil => simp
      | cons y r' => simp [endsDash] at he ⊢; exact he

theorem encodeL_xml (s : Str) : ∀ x ∈ encodeL s, xmlChar x = true := by
  intro x hx
  simp only [encodeL, List.mem_flatMap] at hx
  obtain ⟨c, _, hxc⟩ := hx
  by_cases hc : c = '-'
  · subst hc
    have e : encodeChar '-' = ['-'] := by decide
    rw [e] at hxc; simp at hxc; subst hxc; decide
  · exact ((encodeChar_safe c hc).2 x hxc).1

theorem commentText_ok (s : Str) : cOk 0 (commentText s) = true ∧ ∀ x ∈ commentText s, xmlChar x = true := by
  have hdd := hasDD_fixDD (encodeL s).length (encodeL s)
  have h2 : ok2 0 (fixDD ((encodeL s).length + 2) (encodeL s)) = true := by rw [ok2_hasDD, hdd]; rfl
  have hx : ∀ x ∈ fixDD ((encodeL s).length + 2) (encodeL s), xmlChar x = true := by
    intro x hx
    rcases mem_fixDD _ _ x hx with h | h
    · exact encodeL_xml s x h
    · subst h; decide
  obtain ⟨a, b⟩ := cOk_of_ok2 _ 0 (by omega) h2
  unfold commentText
  simp only
  split
  · refine ⟨a, ?_⟩
    intro x hx'
    simp only [List.mem_append, List.mem_singleton] at hx'
    rcases hx' with h | h
    · exact hx x h
    · subst h; decide
  · rename_i he
    refine ⟨b ?_, hx⟩
    split
    · rfl
    · simpa using he

theorem ok2_of_cOk (u : Str) : ∀ d, cOk d u = true → ok2 d u = true := by
  induction u with
  | nil => intro d _; simp [ok2]
  | cons c r ih =>
    intro d h
    by_cases hc : c = '-'
    · subst hc
      simp [cOk] at h
      obtain ⟨rfl, h⟩ := h
      simp [ok2, ih 1 h]
    · simp [cOk, hc] at h
      simp [ok2, hc, ih 0 h]

theorem endsDash_of_cOk (u : Str) : ∀ d, cOk d u = true → endsDash u = false := by
  induction u with
  | nil => intro d _; rfl
  | cons c r ih =>
    intro d h
    cases r with
    | nil =>
      by_cases hc : c = '-'
      · subst hc; simp [cOk] at h
      · simp [endsDash, hc]
    | cons y r' =>
      simp only [endsDash]
      by_cases hc : c = '-'
      · subst hc
        simp only [cOk, if_true, Bool.and_eq_true] at h
        exact ih 1 h.2
      · simp only [cOk, hc, if_false] at h
        exact ih 0 h

/-- the text `comment()` writes contains no `--` and does not end in `-` — every string, no bound -/
theorem commentText_no_double_hyphen (s : Str) : hasDD (commentText s) = false ∧ endsDash (commentText s) = false := by
  obtain ⟨hok, _⟩ := commentText_ok s
  refine ⟨?_, endsDash_of_cOk _ 0 hok⟩
  have := ok2_of_cOk _ 0 hok
  rw [ok2_hasDD] at this
  simpa using this

theorem run_comment_text (u acc : Str) (d : Nat) (hd : d ≤ 1) (stk : List Str) (rd : Bool) (evs : List Event)
    (h : cOk d u = true) (hx : ∀ x ∈ u, xmlChar x = true) :
    ∃ acc', runM ⟨.comment acc d, stk, rd, evs⟩ u = some ⟨.comment acc' 0, stk, rd, evs⟩ := by
  induction u generalizing acc d with
  | nil => simp [cOk] at h; subst h; exact ⟨acc, rfl⟩
  | cons c r ih =>
    have hxc := hx c (by simp)
    have hxr : ∀ x ∈ r, xmlChar x = true := fun x hm => hx x (by simp [hm])
    by_cases hc : c = '-'
    · subst hc
      simp [cOk] at h
      obtain ⟨rfl, h⟩ := h
      have : runM ⟨.comment acc 0, stk, rd, evs⟩ ['-'] = some ⟨.comment acc 1, stk, rd, evs⟩ := rfl
      obtain ⟨a', ha⟩ := ih acc 1 (by omega) h hxr
      exact ⟨a', by rw [show '-' :: r = ['-'] ++ r from rfl, runM_append_of this]; exact ha⟩
    · simp [cOk, hc] at h
      have hd' : d = 0 ∨ d = 1 := by omega
      rcases hd' with rfl | rfl
      · have : runM ⟨.comment acc 0, stk, rd, evs⟩ [c] = some ⟨.comment (c :: acc) 0, stk, rd, evs⟩ := by
          simp [runM, step, hxc, hc]
        obtain ⟨a', ha⟩ := ih (c :: acc) 0 (by omega) h hxr
        exact ⟨a', by rw [show c :: r = [c] ++ r from rfl, runM_append_of this]; exact ha⟩
      · have : runM ⟨.comment acc 1, stk, rd, evs⟩ [c] = some ⟨.comment (c :: '-' :: acc) 0, stk, rd, evs⟩ := by
          simp [runM, step, hxc, hc]
        obtain ⟨a', ha⟩ := ih (c :: '-' :: acc) 0 (by omega) h hxr
        exact ⟨a', by rw [show c :: r = [c] ++ r from rfl, runM_append_of this]; exact ha⟩

/-- `<!--text-->` from content: the comment `XmlStream.comment` writes is accepted, whatever the string -/
theorem run_comment (s : Str) (stk : List Str) (rd : Bool) (evs : List Event) :
    ∃ evs', runM ⟨.content, stk, rd, evs⟩ (['<', '!', '-', '-'] ++ commentText s ++ ['-', '-', '>']) = some ⟨.content, stk, rd, evs'⟩ := by
  have e1 : runM ⟨.content, stk, rd, evs⟩ ['<', '!', '-', '-'] = some ⟨.comment [] 0, stk, rd, evs⟩ := rfl
  obtain ⟨hok, hx⟩ := commentText_ok s
  obtain ⟨a', ha⟩ := run_comment_text (commentText s) [] 0 (by omega) stk rd evs hok hx
  refine ⟨.comment a'.reverse :: evs, ?_⟩
  rw [List.append_assoc, runM_append_of e1, runM_append_of ha]
  rfl

/-! ### attribute sorting -/

theorem insertAttr_perm (x : Str × Str) (l : List (Str × Str)) : (insertAttr x l).Perm (x :: l) := by
  induction l with
  | nil => simp [insertAttr]
  | cons y t ih =>
    simp only [insertAttr]
    split
    · exact List.Perm.refl _
    · exact (List.Perm.cons y ih).trans (List.Perm.swap x y t)

theorem sortAttrs_perm (l : List (Str × Str)) : (sortAttrs l).Perm l := by
  induction l with
  | nil => simp [sortAttrs]
  | cons x t ih =>
    simp only [sortAttrs]
    exact (insertAttr_perm x _).trans (List.Perm.cons x ih)

/-! ### processing instructions -/

theorem encodeChar_no_gt (c : Char) : ∀ x ∈ encodeChar c, x ≠ '>' := by
  by_cases h1 : c = '<'; · subst h1; decide
  by_cases h2 : c = '>'; · subst h2; decide
  by_cases h3 : c = '&'; · subst h3; decide
  by_cases h4 : c = '\''; · subst h4; decide
  by_cases h5 : c = '"'; · subst h5; decide
  unfold encodeChar; rw [entityOf_none h1 h2 h3 h4 h5]; simp only
  have dg : ∀ x, isDigit x = true → x ≠ '>' := by
    intro x hx e; subst e; revert hx; decide
  by_cases hlt : c.toNat < 32
  · rw [if_pos hlt]
    intro x hx
    simp only [pad3, List.cons_append, List.nil_append, List.mem_cons, List.not_mem_nil, or_false] at hx
    rcases hx with rfl | rfl | rfl | rfl | rfl | rfl
    · decide
    · decide
    · exact dg _ (isDigit_digitChar (by omega))
    · exact dg _ (isDigit_digitChar (by omega))
    · exact dg _ (isDigit_digitChar (by omega))
    · decide
  · rw [if_neg hlt]
    by_cases h128 : c.toNat < 128
    · rw [if_pos h128]; intro x hx; simp at hx; subst hx; exact h2
    · rw [if_neg h128]
      intro x hx
      simp only [List.cons_append, List.nil_append, List.mem_cons, List.mem_append, List.not_mem_nil, or_false] at hx
      rcases hx with rfl | rfl | hx | rfl
      · decide
      · decide
      · exact dg _ (decimal_digits _ x hx)
      · decide

theorem encodeL_no_gt (s : Str) : ∀ x ∈ encodeL s, x ≠ '>' := by
  intro x hx
  simp only [encodeL, List.mem_flatMap] at hx
  obtain ⟨c, _, hxc⟩ := hx
  exact encodeChar_no_gt c x hxc

/-- an ASCII name character is written as itself -/
theorem encodeChar_asciiName {c : Char} (hn : nameChar c = true) (ha : c.toNat < 128) : encodeChar c = [c] := by
  have hr : 45 ≤ c.toNat ∧ c.toNat ≠ 60 ∧ c.toNat ≠ 62 := by
    simp [nameChar, nameCharN, nameStartN] at hn; omega
  have h1 : c ≠ '<' := by intro e; subst e; exact hr.2.1 (by decide)
  have h2 : c ≠ '>' := by intro e; subst e; exact hr.2.2 (by decide)
  have h3 : c ≠ '&' := by intro e; subst e; revert hn; decide
  have h4 : c ≠ '\'' := by intro e; subst e; revert hn; decide
  have h5 : c ≠ '"' := by intro e; subst e; revert hn; decide
  unfold encodeChar; rw [entityOf_none h1 h2 h3 h4 h5]; simp only
  rw [if_neg (by omega), if_pos ha]

theorem encodeL_asciiName (t : Str) (hn : ∀ c ∈ t, nameChar c = true) (ha : ∀ c ∈ t, c.toNat < 128) : encodeL t = t := by
  induction t with
  | nil => rfl
  | cons c r ih =>
    simp only [encodeL, List.flatMap_cons]
    rw [encodeChar_asciiName (hn c (by simp)) (ha c (by simp))]
    have := ih (fun x hx => hn x (by simp [hx])) (fun x hx => ha x (by simp [hx]))
    simp only [encodeL] at this
    rw [this]; rfl

theorem run_piTarget (n acc : Str) (stk : List Str) (rd : Bool) (evs : List Event) (hn : ∀ c ∈ n, nameChar c = true) :
    runM ⟨.piTarget acc, stk, rd, evs⟩ n = some ⟨.piTarget (n.reverse ++ acc), stk, rd, evs⟩ := by
  induction n generalizing acc with
  | nil => simp [runM]
  | cons c r ih =>
    simp only [runM, step, hn c (by simp), if_true]
    rw [ih _ (fun c hc => hn c (by simp [hc]))]; simp

theorem run_piData (t : Str) (l : Str) (hl : ∀ x ∈ l, xmlChar x = true ∧ x ≠ '>') : ∀ (acc : Str) (q : Bool),
    ∃ d, ∀ (stk : List Str) (rd : Bool) (evs : List Event),
      runM ⟨.piData t acc q, stk, rd, evs⟩ (l ++ ['?', '>']) = some ⟨.content, stk, rd, .pi t d :: evs⟩ := by
  induction l with
  | nil =>
    intro acc q
    cases q
    · exact ⟨acc.reverse, fun stk rd evs => by simp [runM, step]⟩
    · exact ⟨('?' :: acc).reverse, fun stk rd evs => by simp [runM, step]⟩
  | cons c r ih =>
    intro acc q
    obtain ⟨hx, hg⟩ := hl c (by simp)
    have hr : ∀ x ∈ r, xmlChar x = true ∧ x ≠ '>' := fun x h => hl x (by simp [h])
    by_cases hc : c = '?'
    · subst hc
      cases q
      · obtain ⟨d, hd⟩ := ih hr acc true
        exact ⟨d, fun stk rd evs => by
          have : runM ⟨.piData t acc false, stk, rd, evs⟩ ['?'] = some ⟨.piData t acc true, stk, rd, evs⟩ := by simp [runM, step]
          rw [show '?' :: r ++ ['?', '>'] = ['?'] ++ (r ++ ['?', '>']) from rfl, runM_append_of this]; exact hd stk rd evs⟩
      · obtain ⟨d, hd⟩ := ih hr ('?' :: acc) true
        exact ⟨d, fun stk rd evs => by
          have : runM ⟨.piData t acc true, stk, rd, evs⟩ ['?'] = some ⟨.piData t ('?' :: acc) true, stk, rd, evs⟩ := by simp [runM, step]
          rw [show '?' :: r ++ ['?', '>'] = ['?'] ++ (r ++ ['?', '>']) from rfl, runM_append_of this]; exact hd stk rd evs⟩
    · cases q
      · obtain ⟨d, hd⟩ := ih hr (c :: acc) false
        exact ⟨d, fun stk rd evs => by
          have : runM ⟨.piData t acc false, stk, rd, evs⟩ [c] = some ⟨.piData t (c :: acc) false, stk, rd, evs⟩ := by
            simp [runM, step, hc, hx]
          rw [show c :: r ++ ['?', '>'] = [c] ++ (r ++ ['?', '>']) from rfl, runM_append_of this]; exact hd stk rd evs⟩
      · obtain ⟨d, hd⟩ := ih hr (c :: '?' :: acc) false
        exact ⟨d, fun stk rd evs => by
          have : runM ⟨.piData t acc true, stk, rd, evs⟩ [c] = some ⟨.piData t (c :: '?' :: acc) false, stk, rd, evs⟩ := by
            simp [runM, step, hc, hx, hg]
          rw [show c :: r ++ ['?', '>'] = [c] ++ (r ++ ['?', '>']) from rfl, runM_append_of this]; exact hd stk rd evs⟩

theorem run_piWS (t : Str) (l : Str) (hl : ∀ x ∈ l, xmlChar x = true ∧ x ≠ '>') :
    ∃ d, ∀ (stk : List Str) (rd : Bool) (evs : List Event),
      runM ⟨.piWS t, stk, rd, evs⟩ (l ++ ['?', '>']) = some ⟨.content, stk, rd, .pi t d :: evs⟩ := by
  induction l with
  | nil => exact ⟨[], fun stk rd evs => by simp [runM, step, show isS '?' = false by decide]⟩
  | cons c r ih =>
    obtain ⟨hx, hg⟩ := hl c (by simp)
    have hr : ∀ x ∈ r, xmlChar x = true ∧ x ≠ '>' := fun x h => hl x (by simp [h])
    by_cases hs : isS c = true
    · obtain ⟨d, hd⟩ := ih hr
      exact ⟨d, fun stk rd evs => by
        have : runM ⟨.piWS t, stk, rd, evs⟩ [c] = some ⟨.piWS t, stk, rd, evs⟩ := by simp [runM, step, hs]
        rw [show c :: r ++ ['?', '>'] = [c] ++ (r ++ ['?', '>']) from rfl, runM_append_of this]; exact hd stk rd evs⟩
    · by_cases hc : c = '?'
      · subst hc
        obtain ⟨d, hd⟩ := run_piData t r hr [] true
        exact ⟨d, fun stk rd evs => by
          have : runM ⟨.piWS t, stk, rd, evs⟩ ['?'] = some ⟨.piData t [] true, stk, rd, evs⟩ := by simp [runM, step, hs]
          rw [show '?' :: r ++ ['?', '>'] = ['?'] ++ (r ++ ['?', '>']) from rfl, runM_append_of this]; exact hd stk rd evs⟩
      · obtain ⟨d, hd⟩ := run_piData t r hr [c] false
        exact ⟨d, fun stk rd evs => by
          have : runM ⟨.piWS t, stk, rd, evs⟩ [c] = some ⟨.piData t [c] false, stk, rd, evs⟩ := by simp [runM, step, hs, hc, hx]
          rw [show c :: r ++ ['?', '>'] = [c] ++ (r ++ ['?', '>']) from rfl, runM_append_of this]; exact hd stk rd evs⟩

/-- what the caller owes for `pI(s)`: `s` is an ASCII PI target (a Name other than `xml`; the writer would turn a
non-ASCII name character into a reference), alone or followed by one blank and arbitrary data -/
def PiOk (s : Str) : Prop :=
  ∃ t d, validTarget t = true ∧ (∀ c ∈ t, c.toNat < 128) ∧ (s = t ∨ s = t ++ ' ' :: d)

/-- `<?target data?>` from content: accepted, and the target is reported unchanged -/
theorem run_pi (s : Str) (h : PiOk s) :
    ∃ t d', (∀ c ∈ t, c ≠ ' ') ∧ (s = t ∨ ∃ d, s = t ++ ' ' :: d) ∧ ∀ (stk : List Str) (rd : Bool) (evs : List Event),
      runM ⟨.content, stk, rd, evs⟩ (['<', '?'] ++ encodeL s ++ ['?', '>']) = some ⟨.content, stk, rd, .pi t d' :: evs⟩ := by
  obtain ⟨t, d, hv, ha, hs⟩ := h
  have hvn : validName t = true := by simp [validTarget] at hv; exact hv.1
  have hall : ∀ c ∈ t, nameChar c = true := by
    cases t with
    | nil => simp [validName] at hvn
    | cons c r =>
      obtain ⟨hs', hr⟩ := validName_cons hvn
      intro x hx; simp at hx; rcases hx with rfl | hx
      · exact nameStart_nameChar hs'
      · exact hr x hx
  have hsp : ∀ c ∈ t, c ≠ ' ' := fun c hc => (nameChar_not_special (hall c hc)).2.2.2.1
  have e1 : ∀ stk rd evs, runM ⟨.content, stk, rd, evs⟩ ['<', '?'] = some ⟨.piTarget [], stk, rd, evs⟩ := fun _ _ _ => rfl
  have et := encodeL_asciiName t hall ha
  rcases hs with hs | hs
  · refine ⟨t, [], hsp, Or.inl hs, fun stk rd evs => ?_⟩
    rw [hs, et, List.append_assoc, runM_append_of (e1 stk rd evs), runM_append_of (run_piTarget t [] stk rd evs hall)]
    simp [runM, step, hv, show nameChar '?' = false by decide, show isS '?' = false by decide]
  · have hl : ∀ x ∈ encodeL d, xmlChar x = true ∧ x ≠ '>' := fun x hx => ⟨encodeL_xml d x hx, encodeL_no_gt d x hx⟩
    obtain ⟨d', hd'⟩ := run_piWS t (encodeL d) hl
    refine ⟨t, d', hsp, Or.inr ⟨d, hs⟩, fun stk rd evs => ?_⟩
    have esp : encodeL (t ++ ' ' :: d) = t ++ ' ' :: encodeL d := by
      simp only [encodeL, List.flatMap_append, List.flatMap_cons]
      have := et; simp only [encodeL] at this; rw [this]
      rfl
    have e2 : runM ⟨.piTarget (t.reverse ++ []), stk, rd, evs⟩ [' '] = some ⟨.piWS t, stk, rd, evs⟩ := by
      simp [runM, step, hv, show nameChar ' ' = false by decide, show isS ' ' = true by decide]
    rw [hs, esp, List.append_assoc, runM_append_of (e1 stk rd evs)]
    rw [show (t ++ ' ' :: encodeL d) ++ ['?', '>'] = t ++ ([' '] ++ (encodeL d ++ ['?', '>'])) by simp]
    rw [runM_append_of (run_piTarget t [] stk rd evs hall), runM_append_of e2]
    exact hd' stk rd evs

/-! ### hypotheses and invariant -/

/-- what the caller must respect for one call (the writer does not escape names, and `literal` writes raw text) -/
def OpOk : Op → Prop
  | .start n as => validName n = true ∧ (∀ kv ∈ as, validName kv.1 = true ∧ ∀ c ∈ kv.2, xmlChar c = true) ∧ (as.map (·.1)).Nodup
  | .chars s => ∀ c ∈ s, xmlChar c = true
  | .literal s => ∀ c ∈ s, plainChar c = true
  | .comment _ => True
  | .stop _ => True
  | .spacePreserve => True
  | .pi s => PiOk s
  | .charsBr _ => False

/-- exactly one document element: no start tag at depth 0 once the document element is closed, and at the end
either something is still open (closed by `__exit__`) or the document element has been closed -/
def shape : Nat → Bool → List Op → Bool
  | d, rd, [] => decide (0 < d) || rd
  | d, rd, .start _ _ :: r => !(d == 0 && rd) && shape (d + 1) rd r
  | d, rd, .stop _ :: r => shape (d - 1) (rd || d == 1) r
  | d, rd, _ :: r => shape d rd r

structure Inv (w : WState) (p : PState) : Prop where
  names : ∀ n ∈ w.elemStk, validName n = true
  len : w.canIndentStk.length = w.elemStk.length
  opn : w.inElem = true → ∃ name rest as, w.elemStk = name :: rest ∧ p.stack = rest ∧ p.mode = tagMode name as
  cls : w.inElem = false → p.mode = .content ∧ p.stack = w.elemStk

theorem indent_ws (w : WState) : ∀ c ∈ w.indent, c = '\n' ∨ c = ' ' := by
  intro c hc
  unfold WState.indent at hc
  split at hc
  · simp at hc
    rcases hc with rfl | ⟨_, rfl⟩ <;> simp
  · simp at hc

theorem sim_ws {p : PState} {ws : Str} (hm : p.mode = .content) (hws : ∀ c ∈ ws, c = '\n' ∨ c = ' ') :
    ∃ p', runM p ws = some p' ∧ p'.mode = .content ∧ p'.stack = p.stack ∧ p'.rootDone = p.rootDone := by
  obtain ⟨mode, stk, rd, evs⟩ := p
  simp only at hm; subst hm
  obtain ⟨e', he⟩ := run_ws ws hws stk rd evs
  exact ⟨_, he, rfl, rfl, rfl⟩

theorem sim_close {w : WState} {p : PState} (h : Inv w p) :
    ∃ p1, runM p w.closeIfOpen.2 = some p1 ∧ Inv w.closeIfOpen.1 p1 ∧ p1.rootDone = p.rootDone ∧
      p1.mode = .content ∧ p1.stack = w.elemStk ∧ w.closeIfOpen.1 = { w with inElem := false } := by
  obtain ⟨mode, stk, rd, evs⟩ := p
  unfold WState.closeIfOpen
  by_cases hi : w.inElem = true
  · obtain ⟨name, rest, as, h1, h2, h3⟩ := h.opn hi
    simp only at h2 h3; subst h2 h3
    simp only [hi, if_true]
    refine ⟨_, run_open name as stk rd evs, ⟨h.names, h.len, by simp, fun _ => ⟨rfl, by simp [h1]⟩⟩, rfl, rfl, h1.symm, trivial⟩
  · have hi' : w.inElem = false := by simpa using hi
    obtain ⟨h1, h2⟩ := h.cls hi'
    simp only at h1 h2; subst h1 h2
    simp only [hi', Bool.false_eq_true, if_false]
    refine ⟨_, rfl, ?_, rfl, rfl, rfl, ?_⟩
    · exact h
    · cases w; simp_all

theorem Inv.transfer {w w' : WState} {p p' : PState} (h : Inv w p) (h1 : w'.elemStk = w.elemStk) (h2 : w'.inElem = w.inElem)
    (h3 : w'.canIndentStk.length = w.canIndentStk.length) (h4 : p'.mode = p.mode) (h5 : p'.stack = p.stack) : Inv w' p' :=
  ⟨by rw [h1]; exact h.names, by rw [h3, h1]; exact h.len,
   fun hi => by rw [h1, h4, h5]; exact h.opn (by rw [← h2]; exact hi),
   fun hi => by rw [h1, h4, h5]; exact h.cls (by rw [← h2]; exact hi)⟩

theorem flip_ok {w w2 : WState} {b : Bool} (h : w.flipIndent b = .ok w2) :
    w2.elemStk = w.elemStk ∧ w2.inElem = w.inElem ∧ w2.canIndentStk.length = w.canIndentStk.length ∧ w.canIndentStk ≠ [] := by
  unfold WState.flipIndent at h
  split at h
  · cases h
  · rename_i x r hr
    cases h
    simp [hr]

theorem startElement_eq (w : WState) (n : Str) (as : List (Str × Str)) :
    startElement w n as =
      ({ elemStk := n :: w.closeIfOpen.1.elemStk, inElem := true, canIndentStk := true :: w.closeIfOpen.1.canIndentStk },
       w.closeIfOpen.2 ++ w.closeIfOpen.1.indent ++ startChunk n as) := rfl

theorem sim_start {w : WState} {p : PState} (h : Inv w p) (n : Str) (as : List (Str × Str)) (hok : OpOk (.start n as))
    (hroot : w.elemStk = [] → p.rootDone = false) :
    ∃ p', runM p (startElement w n as).2 = some p' ∧ Inv (startElement w n as).1 p' ∧ p'.rootDone = p.rootDone := by
  obtain ⟨hn, has, hnd⟩ := hok
  obtain ⟨p1, r1, i1, rd1, m1, s1, w1e⟩ := sim_close h
  obtain ⟨p2, r2, m2, s2, rd2⟩ := sim_ws m1 (indent_ws w.closeIfOpen.1)
  obtain ⟨mode2, stk2, rdd, evs2⟩ := p2
  simp only at m2 s2 rd2; subst m2
  have hr : (stk2.isEmpty && rdd) = false := by
    rw [s2, s1, rd2, rd1]
    cases he : w.elemStk with
    | nil => simp [hroot he]
    | cons a b => simp
  have hperm := sortAttrs_perm as
  have hk : ∀ kv ∈ sortAttrs as, validName kv.1 = true := fun kv hkv => (has kv (hperm.mem_iff.1 hkv)).1
  have hv : ∀ kv ∈ sortAttrs as, ∀ c ∈ kv.2, xmlChar c = true := fun kv hkv => (has kv (hperm.mem_iff.1 hkv)).2
  have hu : (List.map (fun (x : Str × Str) => x.1) ([] ++ sortAttrs as)).Nodup := by
    simp only [List.nil_append]
    exact ((hperm.map _).nodup_iff).2 hnd
  have r3 := run_lt_name n hn stk2 rdd evs2 hr
  have r4 := run_attrs (sortAttrs as) n [] stk2 rdd evs2 hk hv hu
  have ht : tagMode n [] = .stag n.reverse := by simp [tagMode]
  rw [ht] at r4
  rw [startElement_eq]
  refine ⟨⟨tagMode n ([] ++ sortAttrs as), stk2, rdd, evs2⟩, ?_, ?_, ?_⟩
  · simp only
    rw [List.append_assoc, runM_append_of r1, runM_append_of r2]
    have : startChunk n as = ('<' :: n) ++ (sortAttrs as).flatMap attrStr := by simp [startChunk]
    rw [this, runM_append_of r3, r4]
  · refine ⟨?_, ?_, ?_, ?_⟩
    · intro x hx
      simp only [List.mem_cons] at hx
      rcases hx with rfl | hx
      · exact hn
      · exact i1.names x hx
    · simp [i1.len]
    · intro _
      refine ⟨n, w.closeIfOpen.1.elemStk, [] ++ sortAttrs as, rfl, ?_, rfl⟩
      simp only; rw [s2, s1, w1e]
    · intro hc; simp at hc
  · simp only; rw [rd2, rd1]

theorem sim_stop {w w' : WState} {p : PState} {name chunk : Str} (h : Inv w p) (hs : endElement w name = .ok (w', chunk)) :
    ∃ p', runM p chunk = some p' ∧ Inv w' p' ∧ p'.rootDone = (p.rootDone || w'.elemStk.isEmpty) ∧
      w'.elemStk.length + 1 = w.elemStk.length := by
  obtain ⟨mode, stk, rd, evs⟩ := p
  unfold endElement at hs
  split at hs
  · cases hs
  · rename_i top rest hstk
    split at hs
    · cases hs
    · by_cases hi : w.inElem = true
      · simp only [hi, if_true] at hs
        cases hs
        obtain ⟨nm, rs, as, e1, e2, e3⟩ := h.opn hi
        rw [hstk] at e1; cases e1
        simp only at e2 e3; subst e2 e3
        refine ⟨⟨.content, stk, rd || stk.isEmpty, .stop top :: .start top as :: evs⟩, run_empty top as stk rd evs,
          ⟨?_, ?_, ?_, ?_⟩, rfl, by simp [hstk]⟩
        · intro x hx; exact h.names x (by rw [hstk]; simp at hx ⊢; exact Or.inr hx)
        · have := h.len; rw [hstk] at this; simp at this ⊢; omega
        · intro hc; simp at hc
        · intro _; exact ⟨rfl, rfl⟩
      · have hi' : w.inElem = false := by simpa using hi
        simp only [hi', Bool.false_eq_true, if_false] at hs
        cases hs
        obtain ⟨e1, e2⟩ := h.cls hi'
        simp only at e1 e2; subst e1; rw [hstk] at e2; subst e2
        have hn : validName top = true := h.names top (by rw [hstk]; simp)
        obtain ⟨p2, r2, m2, s2, rd2⟩ := sim_ws (p := ⟨.content, top :: rest, rd, evs⟩) rfl
          (indent_ws ⟨rest, false, w.canIndentStk⟩)
        obtain ⟨mode2, stk2, rdd, evs2⟩ := p2
        simp only at m2 s2 rd2; subst m2 s2 rd2
        refine ⟨⟨.content, rest, rdd || rest.isEmpty, .stop top :: evs2⟩, ?_, ⟨?_, ?_, ?_, ?_⟩, rfl, by simp [hstk]⟩
        · rw [List.append_assoc, List.append_assoc, runM_append_of r2]
          have := run_etag top hn rest rdd evs2
          simpa [List.append_assoc] using this
        · intro x hx; exact h.names x (by rw [hstk]; simp at hx ⊢; exact Or.inr hx)
        · have := h.len; rw [hstk] at this; simp at this ⊢; omega
        · intro hc; simp at hc
        · intro _; exact ⟨rfl, rfl⟩

/-- text written after `_closeElemIfOpen()` inside an element, followed by `_flipIndent(False)` -/
theorem sim_text {w w2 : WState} {p : PState} (h : Inv w p) (hf : w.closeIfOpen.1.flipIndent false = .ok w2)
    (txt : Str)
    (hrun : ∀ a stk rd evs, ∃ evs', runM ⟨.content, a :: stk, rd, evs⟩ txt = some ⟨.content, a :: stk, rd, evs'⟩) :
    ∃ p', runM p (w.closeIfOpen.2 ++ txt) = some p' ∧ Inv w2 p' ∧ p'.rootDone = p.rootDone ∧ w2.elemStk = w.elemStk := by
  obtain ⟨p1, r1, i1, rd1, m1, s1, w1e⟩ := sim_close h
  obtain ⟨f1, f2, f3, f4⟩ := flip_ok hf
  obtain ⟨mode1, stk1, rdd, evs1⟩ := p1
  simp only at m1 s1 rd1; subst m1
  have hne : w.elemStk ≠ [] := by
    intro he
    have := i1.len
    rw [w1e] at this f4
    simp only at this f4
    rw [he] at this
    exact f4 (List.length_eq_zero_iff.1 this)
  cases hstk : w.elemStk with
  | nil => exact absurd hstk hne
  | cons a stk =>
    rw [hstk] at s1; subst s1
    obtain ⟨evs', r2⟩ := hrun a stk rdd evs1
    refine ⟨_, by rw [runM_append_of r1]; exact r2, ?_, rd1, ?_⟩
    · exact i1.transfer f1 f2 f3 rfl rfl
    · rw [f1, w1e]; exact hstk

theorem sim_step {w w' : WState} {p : PState} {op : Op} {chunk : Str} (h : Inv w p) (hs : stepW w op = .ok (w', chunk))
    (hok : OpOk op) (hroot : ∀ n as, op = .start n as → w.elemStk = [] → p.rootDone = false) :
    ∃ p', runM p chunk = some p' ∧ Inv w' p' ∧
      p'.rootDone = (p.rootDone || (match op with | .stop _ => w'.elemStk.isEmpty | _ => false)) ∧
      w'.elemStk.length = (match op with | .start _ _ => w.elemStk.length + 1 | .stop _ => w.elemStk.length - 1 | _ => w.elemStk.length) ∧
      (∀ n, op = .stop n → 0 < w.elemStk.length) := by
  cases op with
  | start n as =>
    have e : startElement w n as = (w', chunk) := Except.ok.inj hs
    have e1 : w' = (startElement w n as).1 := by rw [e]
    have e2 : chunk = (startElement w n as).2 := by rw [e]
    subst e1 e2
    obtain ⟨p', r, i, rd⟩ := sim_start h n as hok (hroot n as rfl)
    refine ⟨p', r, i, by simp [rd], ?_, by simp⟩
    obtain ⟨_, _, _, _, _, _, w1e⟩ := sim_close h
    simp only [startElement_eq, w1e, List.length_cons]
  | stop name =>
    simp only [stepW] at hs
    obtain ⟨p', r, i, rd, l⟩ := sim_stop h hs
    exact ⟨p', r, i, rd, by simp only; omega, fun _ _ => by omega⟩
  | chars s =>
    have hs' : (match w.closeIfOpen.1.flipIndent false with
        | .error e => .error e
        | .ok w2 => .ok (w2, w.closeIfOpen.2 ++ encodeL s)) = Except.ok (w', chunk) := hs
    cases hf : w.closeIfOpen.1.flipIndent false with
    | error e => rw [hf] at hs'; cases hs'
    | ok w2 =>
      rw [hf] at hs'; cases hs'
      obtain ⟨p', r, i, rd, l⟩ := sim_text h hf (encodeL s) (fun a stk rd evs => ⟨_, run_encodeL_content s hok a stk rd evs⟩)
      exact ⟨p', r, i, by simp [rd], by simp [l], by simp⟩
  | literal s =>
    have hs' : (match w.closeIfOpen.1.flipIndent false with
        | .error e => .error e
        | .ok w2 => .ok (w2, w.closeIfOpen.2 ++ s)) = Except.ok (w', chunk) := hs
    cases hf : w.closeIfOpen.1.flipIndent false with
    | error e => rw [hf] at hs'; cases hs'
    | ok w2 =>
      rw [hf] at hs'; cases hs'
      obtain ⟨p', r, i, rd, l⟩ := sim_text h hf s (fun a stk rd evs => ⟨_, run_plain s hok a stk rd evs⟩)
      exact ⟨p', r, i, by simp [rd], by simp [l], by simp⟩
  | comment s =>
    have hs' : Except.ok (w.closeIfOpen.1, w.closeIfOpen.2 ++ ['<', '!', '-', '-'] ++ commentText s ++ ['-', '-', '>']) = Except.ok (w', chunk) := hs
    cases hs'
    obtain ⟨p1, r1, i1, rd1, m1, s1, w1e⟩ := sim_close h
    obtain ⟨mode1, stk1, rdd, evs1⟩ := p1
    simp only at m1 s1 rd1; subst m1
    obtain ⟨evs', r2⟩ := run_comment s stk1 rdd evs1
    refine ⟨⟨.content, stk1, rdd, evs'⟩, ?_, ?_, by simp [rd1], by simp [w1e], by simp⟩
    · rw [List.append_assoc, List.append_assoc, runM_append_of r1]
      simpa [List.append_assoc] using r2
    · exact i1.transfer rfl rfl rfl rfl rfl
  | spacePreserve =>
    simp only [stepW] at hs
    split at hs
    · cases hs
    · rename_i x r hr
      cases hs
      refine ⟨p, rfl, h.transfer rfl rfl (by simp [hr]) rfl rfl, by simp, rfl, by simp⟩
  | pi s =>
    have hs' : (match w.closeIfOpen.1.flipIndent false with
        | .error e => .error e
        | .ok w2 => .ok (w2, w.closeIfOpen.2 ++ ['<', '?'] ++ encodeL s ++ ['?', '>'])) = Except.ok (w', chunk) := hs
    cases hf : w.closeIfOpen.1.flipIndent false with
    | error e => rw [hf] at hs'; cases hs'
    | ok w2 =>
      rw [hf] at hs'; cases hs'
      obtain ⟨t, d', _, _, hrun⟩ := run_pi s hok
      obtain ⟨p', r, i, rd, l⟩ := sim_text h hf (['<', '?'] ++ encodeL s ++ ['?', '>'])
        (fun a stk rd evs => ⟨_, hrun (a :: stk) rd evs⟩)
      exact ⟨p', by simpa [List.append_assoc] using r, i, by simp [rd], by simp [l], by simp⟩
  | charsBr s => exact absurd hok (by simp [OpOk])

theorem sim_run (ops : List Op) : ∀ {w w' : WState} {p : PState} {chunk : Str}, Inv w p → runW w ops = .ok (w', chunk) →
    (∀ op ∈ ops, OpOk op) → shape w.elemStk.length p.rootDone ops = true →
    ∃ p', runM p chunk = some p' ∧ Inv w' p' ∧ (0 < w'.elemStk.length ∨ p'.rootDone = true) := by
  induction ops with
  | nil =>
    intro w w' p chunk h hr _ hsh
    simp only [runW] at hr
    cases hr
    refine ⟨p, rfl, h, ?_⟩
    simp [shape] at hsh
    exact hsh
  | cons op r ih =>
    intro w w' p chunk h hr hok hsh
    simp only [runW] at hr
    cases hst : stepW w op with
    | error e => rw [hst] at hr; cases hr
    | ok r1 =>
      obtain ⟨w1, c1⟩ := r1
      rw [hst] at hr
      simp only at hr
      cases hrr : runW w1 r with
      | error e => rw [hrr] at hr; cases hr
      | ok r2 =>
        obtain ⟨w2, c2⟩ := r2
        rw [hrr] at hr
        simp only at hr
        cases hr
        have hroot : ∀ n as, op = .start n as → w.elemStk = [] → p.rootDone = false := by
          intro n as e he
          subst e
          simp [shape, he] at hsh
          exact hsh.1
        obtain ⟨p1, r1, i1, rd1, l1, pos1⟩ := sim_step h hst (hok op (by simp)) hroot
        have hsh1 : shape w1.elemStk.length p1.rootDone r = true := by
          cases op with
          | start n as => simp [shape] at hsh; simp only at l1 rd1; rw [l1, rd1]; simpa using hsh.2
          | stop n =>
            simp only [shape] at hsh; simp only at l1 rd1
            have hp := pos1 n rfl
            rw [l1, rd1]
            have : w1.elemStk.isEmpty = (w.elemStk.length == 1) := by
              cases hw1 : w1.elemStk with
              | nil => simp [hw1] at l1; simp; omega
              | cons a b => simp [hw1] at l1; simp; omega
            rw [this]; exact hsh
          | chars s => simp only [shape] at hsh; simp only at l1 rd1; rw [l1, rd1]; simpa using hsh
          | literal s => simp only [shape] at hsh; simp only at l1 rd1; rw [l1, rd1]; simpa using hsh
          | comment s => simp only [shape] at hsh; simp only at l1 rd1; rw [l1, rd1]; simpa using hsh
          | pi s => simp only [shape] at hsh; simp only at l1 rd1; rw [l1, rd1]; simpa using hsh
          | spacePreserve => simp only [shape] at hsh; simp only at l1 rd1; rw [l1, rd1]; simpa using hsh
          | charsBr s => simp only [shape] at hsh; simp only at l1 rd1; rw [l1, rd1]; simpa using hsh
        obtain ⟨p2, r2, i2, fin⟩ := ih i1 hrr (fun o ho => hok o (by simp [ho])) hsh1
        exact ⟨p2, by rw [runM_append_of r1]; exact r2, i2, fin⟩

theorem endElement_top_ok {w : WState} {top : Str} {rest : List Str} (h : w.elemStk = top :: rest) :
    ∃ r, endElement w top = .ok r := by
  unfold endElement
  rw [h]
  simp only [ne_eq, not_true_eq_false, if_false]
  split <;> exact ⟨_, rfl⟩

theorem sim_closeAll (fuel : Nat) : ∀ (w : WState) (p : PState), Inv w p → w.elemStk.length ≤ fuel →
    (0 < w.elemStk.length ∨ p.rootDone = true) → ∃ p', runM p (closeAll fuel w) = some p' ∧ accepting p' = true := by
  have base : ∀ (w : WState) (p : PState), Inv w p → w.elemStk = [] → (0 < w.elemStk.length ∨ p.rootDone = true) →
      ∃ p', runM p ['\n'] = some p' ∧ accepting p' = true := by
    intro w p h he hd
    have hi : w.inElem = false := by
      cases hie : w.inElem with
      | false => rfl
      | true =>
        obtain ⟨_, _, _, e, _⟩ := h.opn hie
        rw [he] at e; cases e
    obtain ⟨m, s⟩ := h.cls hi
    obtain ⟨mode, stk, rd, evs⟩ := p
    simp only at m s hd; subst m; rw [he] at s; subst s
    rw [he] at hd
    simp at hd; subst hd
    exact ⟨_, rfl, rfl⟩
  induction fuel with
  | zero =>
    intro w p h hl hd
    have he : w.elemStk = [] := List.length_eq_zero_iff.1 (by omega)
    simp only [closeAll]
    exact base w p h he hd
  | succ fuel ih =>
    intro w p h hl hd
    simp only [closeAll]
    cases hstk : w.elemStk with
    | nil => simp only; exact base w p h hstk hd
    | cons top rest =>
      simp only
      obtain ⟨⟨w1, c1⟩, he⟩ := endElement_top_ok hstk
      rw [he]
      simp only
      obtain ⟨p1, r1, i1, rd1, l1⟩ := sim_stop h he
      have hd1 : 0 < w1.elemStk.length ∨ p1.rootDone = true := by
        cases hw1 : w1.elemStk with
        | nil => right; rw [rd1, hw1]; simp
        | cons a b => left; simp
      obtain ⟨p2, r2, acc⟩ := ih w1 p1 i1 (by omega) hd1
      exact ⟨p2, by rw [runM_append_of r1]; exact r2, acc⟩

theorem stripDecl_header (rest : Str) : stripDecl (xmlHeader "utf-8".toList ++ rest) = some rest := by
  rfl

theorem inv_init : Inv {} {} :=
  ⟨by simp, by simp, by simp, fun _ => ⟨rfl, rfl⟩⟩

theorem xhtml_enter : ∃ p0, runM {} (xhtmlDoctype ++ (startElement {} "html".toList xhtmlRootAttrs).2) = some p0 ∧
    Inv (startElement {} "html".toList xhtmlRootAttrs).1 p0 ∧ p0.rootDone = false := by
  have e0 : runM {} xhtmlDoctype = some ⟨.content, [], false, [.doctype xhtmlDoctype.tail.tail.tail.dropLast]⟩ := by decide
  have i0 : Inv {} ⟨.content, [], false, [.doctype xhtmlDoctype.tail.tail.tail.dropLast]⟩ :=
    ⟨by simp, by simp, by simp, fun _ => ⟨rfl, rfl⟩⟩
  have hok : OpOk (.start "html".toList xhtmlRootAttrs) := ⟨by decide, by decide, by decide⟩
  obtain ⟨p', r, i, rd⟩ := sim_start i0 "html".toList xhtmlRootAttrs hok (fun _ => rfl)
  exact ⟨p', by rw [runM_append_of e0]; exact r, i, rd⟩

theorem element_doc (n : Str) (as : List (Str × Str)) (s : Str) :
    document .xml "utf-8".toList [.start n as, .chars s, .stop n] =
      .ok (xmlHeader "utf-8".toList ++ (['\n'] ++ (('<' :: n) ++ ((sortAttrs as).flatMap attrStr ++ (['>'] ++ (encodeL s ++ ((['<', '/'] ++ n ++ ['>']) ++ ['\n']))))))) := by
  simp [document, enter, runW, stepW, startElement, endElement, WState.closeIfOpen, WState.flipIndent, WState.indent,
    WState.canIndent, exitChunk, closeAll, startChunk]

theorem element_parse (n : Str) (as : List (Str × Str)) (s : Str)
    (hn : validName n = true)
    (has : ∀ kv ∈ as, validName kv.1 = true ∧ ∀ c ∈ kv.2, xmlChar c = true)
    (hnd : (as.map (·.1)).Nodup) (hs : ∀ c ∈ s, xmlChar c = true) :
    parse (xmlHeader "utf-8".toList ++ (['\n'] ++ (('<' :: n) ++ ((sortAttrs as).flatMap attrStr ++ (['>'] ++ (encodeL s ++ ((['<', '/'] ++ n ++ ['>']) ++ ['\n'])))))))
      = some (.start n (sortAttrs as) :: (s.map Event.chr ++ [.stop n])) := by
  have hperm := sortAttrs_perm as
  have hk : ∀ kv ∈ sortAttrs as, validName kv.1 = true := fun kv hkv => (has kv (hperm.mem_iff.1 hkv)).1
  have hv : ∀ kv ∈ sortAttrs as, ∀ c ∈ kv.2, xmlChar c = true := fun kv hkv => (has kv (hperm.mem_iff.1 hkv)).2
  have hu : (List.map (fun (x : Str × Str) => x.1) ([] ++ sortAttrs as)).Nodup := by
    simp only [List.nil_append]
    exact ((hperm.map _).nodup_iff).2 hnd
  have e0 : runM {} ['\n'] = some ⟨.content, [], false, []⟩ := rfl
  have e1 := run_lt_name n hn [] false [] rfl
  have e2 := run_attrs (sortAttrs as) n [] [] false [] hk hv hu
  have ht : tagMode n [] = .stag n.reverse := by simp [tagMode]
  rw [ht] at e2
  have e3 := run_open n ([] ++ sortAttrs as) [] false []
  have e4 := run_encodeL_content s hs n [] false [.start n ([] ++ sortAttrs as)]
  have e5 := run_etag n hn [] false ((s.map Event.chr).reverse ++ [.start n ([] ++ sortAttrs as)])
  have e6 : ∀ evs, runM ⟨.content, [], true, evs⟩ ['\n'] = some ⟨.content, [], true, evs⟩ := fun _ => rfl
  unfold parse
  rw [stripDecl_header]
  simp only
  rw [runM_append_of e0, runM_append_of e1, runM_append_of e2, runM_append_of e3, runM_append_of e4, runM_append_of e5]
  simp only [Bool.false_or, List.isEmpty_nil]
  rw [e6]
  simp [accepting]

end TD.C18
