import TD.C18.Lemmas
/-!
Simulation lemmas for C18: the recogniser of `TD.C18.Model` run over the text written by each call of the
element-stack automaton.
-/
namespace TD.C18

/-! ### micro-lemmas: pieces of markup -/

theorem nameChar_not_special {c : Char} (h : nameChar c = true) :
    c ≠ '>' ∧ c ≠ '/' ∧ c ≠ '=' ∧ c ≠ ' ' ∧ isS c = false := by
  refine ⟨?_, ?_, ?_, ?_, ?_⟩
  · intro e; subst e; revert h; decide
  · intro e; subst e; revert h; decide
  · intro e; subst e; revert h; decide
  · intro e; subst e; revert h; decide
  · cases hs : isS c with
    | false => rfl
    | true =>
      simp [isS] at hs
      rcases hs with ((e | e) | e) | e <;> (subst e; revert h; decide)

theorem run_stag_name (n acc : Str) (stk : List Str) (rd : Bool) (evs : List Event) (hn : ∀ c ∈ n, nameChar c = true) :
    runM ⟨.stag acc, stk, rd, evs⟩ n = some ⟨.stag (n.reverse ++ acc), stk, rd, evs⟩ := by
  induction n generalizing acc with
  | nil => simp [runM]
  | cons c r ih =>
    simp only [runM, step, hn c (by simp), if_true]
    rw [ih _ (fun c hc => hn c (by simp [hc]))]; simp

theorem run_etag_name (n acc : Str) (stk : List Str) (rd : Bool) (evs : List Event) (hn : ∀ c ∈ n, nameChar c = true) :
    runM ⟨.etag acc, stk, rd, evs⟩ n = some ⟨.etag (n.reverse ++ acc), stk, rd, evs⟩ := by
  induction n generalizing acc with
  | nil => simp [runM]
  | cons c r ih =>
    simp only [runM, step, hn c (by simp), if_true]
    rw [ih _ (fun c hc => hn c (by simp [hc]))]; simp

theorem run_attrName (k acc n : Str) (as : List (Str × Str)) (stk : List Str) (rd : Bool) (evs : List Event)
    (hk : ∀ c ∈ k, nameChar c = true) :
    runM ⟨.attrName n as acc, stk, rd, evs⟩ k = some ⟨.attrName n as (k.reverse ++ acc), stk, rd, evs⟩ := by
  induction k generalizing acc with
  | nil => simp [runM]
  | cons c r ih =>
    simp only [runM, step, hk c (by simp), if_true]
    rw [ih _ (fun c hc => hk c (by simp [hc]))]; simp

theorem validName_cons {c : Char} {r : Str} (h : validName (c :: r) = true) :
    nameStart c = true ∧ ∀ x ∈ r, nameChar x = true := by
  simp [validName] at h; exact h

theorem nameStart_nameChar {c : Char} (h : nameStart c = true) : nameChar c = true := by
  simp [nameChar, nameCharN, nameStart] at *; simp [h]

theorem nameStart_not_special {c : Char} (h : nameStart c = true) :
    c ≠ '/' ∧ c ≠ '!' ∧ c ≠ '?' ∧ c ≠ '>' ∧ isS c = false := by
  have h2 := nameChar_not_special (nameStart_nameChar h)
  refine ⟨h2.2.1, ?_, ?_, h2.1, h2.2.2.2.2⟩
  · intro e; subst e; revert h; decide
  · intro e; subst e; revert h; decide

/-- `<name` from content: the start-tag name -/
theorem run_lt_name (n : Str) (hn : validName n = true) (stk : List Str) (rd : Bool) (evs : List Event)
    (hroot : (stk.isEmpty && rd) = false) :
    runM ⟨.content, stk, rd, evs⟩ ('<' :: n) = some ⟨.stag n.reverse, stk, rd, evs⟩ := by
  cases n with
  | nil => simp [validName] at hn
  | cons c r =>
    obtain ⟨hs, hr⟩ := validName_cons hn
    obtain ⟨h1, h2, h3, _, _⟩ := nameStart_not_special hs
    have e1 : runM ⟨.content, stk, rd, evs⟩ ['<', c] = some ⟨.stag [c], stk, rd, evs⟩ := by
      simp [runM, step, h1, h2, h3, hs, hroot]
    have : '<' :: c :: r = ['<', c] ++ r := rfl
    rw [this, runM_append_of e1, run_stag_name _ _ _ _ _ hr]; simp

/-- one attribute ` k="v"` from inside a start tag -/
theorem run_attr (k v n : Str) (as : List (Str × Str)) (stk : List Str) (rd : Bool) (evs : List Event) (m : Mode)
    (hm : m = .stag n.reverse ∧ as = [] ∨ m = .afterAttr n as)
    (hk : validName k = true) (hv : ∀ c ∈ v, xmlChar c = true) (hu : as.any (fun kv => kv.1 = k) = false) :
    runM ⟨m, stk, rd, evs⟩ (attrStr (k, v)) = some ⟨.afterAttr n (as ++ [(k, v)]), stk, rd, evs⟩ := by
  cases k with
  | nil => simp [validName] at hk
  | cons c r =>
    obtain ⟨hs, hr⟩ := validName_cons hk
    obtain ⟨h1, _, _, h4, h5⟩ := nameStart_not_special hs
    have e1 : runM ⟨m, stk, rd, evs⟩ [' ', c] = some ⟨.attrName n as [c], stk, rd, evs⟩ := by
      rcases hm with ⟨rfl, rfl⟩ | rfl
      · simp [runM, step, hs, h5, show nameChar ' ' = false by decide, show isS ' ' = true by decide]
      · simp [runM, step, hs, h5, show isS ' ' = true by decide]
    have e2 : runM ⟨.attrName n as (r.reverse ++ [c]), stk, rd, evs⟩ ['=', '"'] = some ⟨.attrVal n as (c :: r) '"' [], stk, rd, evs⟩ := by
      simp [runM, step, show nameChar '=' = false by decide, show isS '"' = false by decide, hu]
    have e3 : runM ⟨.attrVal n as (c :: r) '"' (v.reverse ++ []), stk, rd, evs⟩ ['"'] = some ⟨.afterAttr n (as ++ [(c :: r, v)]), stk, rd, evs⟩ := by
      simp [runM, step]
    have : attrStr (c :: r, v) = [' ', c] ++ (r ++ (['=', '"'] ++ (encodeL v ++ ['"']))) := by simp [attrStr]
    rw [this, runM_append_of e1, runM_append_of (run_attrName _ _ _ _ _ _ _ hr), runM_append_of e2,
      runM_append_of (run_encodeL_attr v hv _ _ _ _ _ _ _), e3]

/-- the mode inside a start tag after the name and the attributes `as` -/
def tagMode (n : Str) (as : List (Str × Str)) : Mode :=
  if as.isEmpty then .stag n.reverse else .afterAttr n as

theorem tagMode_cases (n : Str) (as : List (Str × Str)) :
    tagMode n as = .stag n.reverse ∧ as = [] ∨ tagMode n as = .afterAttr n as := by
  cases as <;> simp [tagMode]

theorem run_attrs (l : List (Str × Str)) (n : Str) (as : List (Str × Str)) (stk : List Str) (rd : Bool) (evs : List Event)
    (hk : ∀ kv ∈ l, validName kv.1 = true) (hv : ∀ kv ∈ l, ∀ c ∈ kv.2, xmlChar c = true)
    (hu : ((as ++ l).map (·.1)).Nodup) :
    runM ⟨tagMode n as, stk, rd, evs⟩ (l.flatMap attrStr) = some ⟨tagMode n (as ++ l), stk, rd, evs⟩ := by
  induction l generalizing as with
  | nil => simp [runM]
  | cons kv t ih =>
    obtain ⟨k, v⟩ := kv
    have hany : as.any (fun kv => kv.1 = k) = false := by
      rw [List.any_eq_false]
      intro x hx hxe
      simp only [decide_eq_true_eq] at hxe
      simp only [List.map_append, List.map_cons] at hu
      have := (List.nodup_append.1 hu).2.2 x.1 (List.mem_map_of_mem hx) k (by simp)
      exact this hxe
    simp only [List.flatMap_cons]
    rw [runM_append_of (run_attr k v n as stk rd evs _ (tagMode_cases n as) (hk (k, v) (by simp)) (hv (k, v) (by simp)) hany)]
    have h2 : tagMode n (as ++ [(k, v)]) = .afterAttr n (as ++ [(k, v)]) := by simp [tagMode]
    rw [← h2, ih (as ++ [(k, v)]) (fun kv h => hk kv (by simp [h])) (fun kv h => hv kv (by simp [h])) (by simpa using hu)]
    simp

/-- `>` closing a start tag -/
theorem run_open (n : Str) (as : List (Str × Str)) (stk : List Str) (rd : Bool) (evs : List Event) :
    runM ⟨tagMode n as, stk, rd, evs⟩ ['>'] = some ⟨.content, n :: stk, rd, .start n as :: evs⟩ := by
  rcases tagMode_cases n as with ⟨h, rfl⟩ | h <;> rw [h] <;>
    simp [runM, step, openTag, show nameChar '>' = false by decide, show isS '>' = false by decide]

/-- `/>` closing an empty-element tag -/
theorem run_empty (n : Str) (as : List (Str × Str)) (stk : List Str) (rd : Bool) (evs : List Event) :
    runM ⟨tagMode n as, stk, rd, evs⟩ ['/', '>'] = some ⟨.content, stk, rd || stk.isEmpty, .stop n :: .start n as :: evs⟩ := by
  rcases tagMode_cases n as with ⟨h, rfl⟩ | h <;> rw [h] <;>
    simp [runM, step, emptyTag, show nameChar '/' = false by decide, show isS '/' = false by decide]

/-- `</name>` -/
theorem run_etag (n : Str) (hn : validName n = true) (stk : List Str) (rd : Bool) (evs : List Event) :
    runM ⟨.content, n :: stk, rd, evs⟩ (['<', '/'] ++ n ++ ['>']) = some ⟨.content, stk, rd || stk.isEmpty, .stop n :: evs⟩ := by
  have hall : ∀ c ∈ n, nameChar c = true := by
    cases n with
    | nil => simp [validName] at hn
    | cons c r =>
      obtain ⟨hs, hr⟩ := validName_cons hn
      intro x hx; simp at hx; rcases hx with rfl | hx
      · exact nameStart_nameChar hs
      · exact hr x hx
  have e1 : runM ⟨.content, n :: stk, rd, evs⟩ ['<', '/'] = some ⟨.etag [], n :: stk, rd, evs⟩ := by
    simp [runM, step]
  rw [List.append_assoc, runM_append_of e1, runM_append_of (run_etag_name n [] _ _ _ hall)]
  simp [runM, step, closeTag, show nameChar '>' = false by decide, show isS '>' = false by decide]

/-- indentation: newline and spaces are accepted in content, inside or outside the document element -/
theorem run_ws (ws : Str) (hws : ∀ c ∈ ws, c = '\n' ∨ c = ' ') (stk : List Str) (rd : Bool) (evs : List Event) :
    ∃ evs', runM ⟨.content, stk, rd, evs⟩ ws = some ⟨.content, stk, rd, evs'⟩ := by
  induction ws generalizing evs with
  | nil => exact ⟨evs, rfl⟩
  | cons c r ih =>
    have hr := fun c h => hws c (List.mem_cons_of_mem _ h)
    cases stk with
    | nil =>
      have : runM ⟨.content, [], rd, evs⟩ [c] = some ⟨.content, [], rd, evs⟩ := by
        rcases hws c (by simp) with rfl | rfl <;> rfl
      obtain ⟨e', he⟩ := ih hr evs
      exact ⟨e', by rw [show c :: r = [c] ++ r from rfl, runM_append_of this, he]⟩
    | cons a stk =>
      have : runM ⟨.content, a :: stk, rd, evs⟩ [c] = some ⟨.content, a :: stk, rd, .chr c :: evs⟩ := by
        rcases hws c (by simp) with rfl | rfl <;> rfl
      obtain ⟨e', he⟩ := ih hr (.chr c :: evs)
      exact ⟨e', by rw [show c :: r = [c] ++ r from rfl, runM_append_of this, he]⟩

/-- text that `literal()` may write: plain character data -/
def plainChar (c : Char) : Bool := xmlChar c && c != '<' && c != '&' && c != '>' && c != '\r'

theorem run_plain (s : Str) (hs : ∀ c ∈ s, plainChar c = true) (a : Str) (stk : List Str) (rd : Bool) (evs : List Event) :
    runM ⟨.content, a :: stk, rd, evs⟩ s = some ⟨.content, a :: stk, rd, (s.map Event.chr).reverse ++ evs⟩ := by
  induction s generalizing evs with
  | nil => simp [runM]
  | cons c r ih =>
    have hc := hs c (by simp)
    simp [plainChar] at hc
    obtain ⟨⟨⟨⟨h1, h2⟩, h3⟩, h4⟩, h5⟩ := hc
    have : runM ⟨.content, a :: stk, rd, evs⟩ [c] = some ⟨.content, a :: stk, rd, .chr c :: evs⟩ := by
      simp [runM, step, h1, h2, h3, h4, h5]
    rw [show c :: r = [c] ++ r from rfl, runM_append_of this, ih (fun c h => hs c (by simp [h]))]
    simp

/-! ### comments -/

/-- comment text the writer can emit safely [15]: no `--`, not ending in `-` (`d` = a `-` has just been written) -/
def cOk : Nat → Str → Bool
  | d, [] => d == 0
  | d, c :: r => if c = '-' then (d == 0 && cOk 1 r) else cOk 0 r

def commentOk (s : Str) : Bool := cOk 0 s

theorem digit_safe {x : Char} (h : isDigit x = true) : xmlChar x = true ∧ x ≠ '-' := by
  simp [isDigit] at h
  constructor
  · simp [xmlChar, isXmlCharN]; omega
  · intro e; subst e; revert h; decide

theorem digitChar_safe {k : Nat} (h : k < 10) : xmlChar (digitChar k) = true ∧ digitChar k ≠ '-' :=
  digit_safe (isDigit_digitChar h)

theorem encodeChar_safe (c : Char) (hc : c ≠ '-') :
    encodeChar c ≠ [] ∧ ∀ x ∈ encodeChar c, xmlChar x = true ∧ x ≠ '-' := by
  by_cases h1 : c = '<'; · subst h1; decide
  by_cases h2 : c = '>'; · subst h2; decide
  by_cases h3 : c = '&'; · subst h3; decide
  by_cases h4 : c = '\''; · subst h4; decide
  by_cases h5 : c = '"'; · subst h5; decide
  unfold encodeChar; rw [entityOf_none h1 h2 h3 h4 h5]; simp only
  have amp : xmlChar '&' = true ∧ '&' ≠ '-' := by decide
  have hash : xmlChar '#' = true ∧ '#' ≠ '-' := by decide
  have semi : xmlChar ';' = true ∧ ';' ≠ '-' := by decide
  by_cases hlt : c.toNat < 32
  · rw [if_pos hlt]
    refine ⟨by simp, ?_⟩
    intro x hx
    simp only [pad3, List.cons_append, List.nil_append, List.mem_cons, List.not_mem_nil, or_false] at hx
    rcases hx with rfl | rfl | rfl | rfl | rfl | rfl
    · exact amp
    · exact hash
    · exact digitChar_safe (by omega)
    · exact digitChar_safe (by omega)
    · exact digitChar_safe (by omega)
    · exact semi
  · rw [if_neg hlt]
    by_cases h128 : c.toNat < 128
    · rw [if_pos h128]
      refine ⟨by simp, ?_⟩
      intro x hx; simp at hx; subst hx
      refine ⟨?_, hc⟩
      simp [xmlChar, isXmlCharN]; omega
    · rw [if_neg h128]
      refine ⟨by simp, ?_⟩
      intro x hx
      simp only [List.cons_append, List.nil_append, List.mem_cons, List.mem_append, List.not_mem_nil, or_false] at hx
      rcases hx with rfl | rfl | hx | rfl
      · exact amp
      · exact hash
      · exact digit_safe (decimal_digits _ x hx)
      · exact semi

theorem run_comment_safe0 (l acc : Str) (stk : List Str) (rd : Bool) (evs : List Event)
    (h : ∀ x ∈ l, xmlChar x = true ∧ x ≠ '-') :
    ∃ acc', runM ⟨.comment acc 0, stk, rd, evs⟩ l = some ⟨.comment acc' 0, stk, rd, evs⟩ := by
  induction l generalizing acc with
  | nil => exact ⟨acc, rfl⟩
  | cons x r ih =>
    obtain ⟨hx1, hx2⟩ := h x (by simp)
    have : runM ⟨.comment acc 0, stk, rd, evs⟩ [x] = some ⟨.comment (x :: acc) 0, stk, rd, evs⟩ := by
      simp [runM, step, hx1, hx2]
    obtain ⟨a', ha⟩ := ih (x :: acc) (fun y hy => h y (by simp [hy]))
    exact ⟨a', by rw [show x :: r = [x] ++ r from rfl, runM_append_of this, ha]⟩

theorem run_comment_safe (l acc : Str) (d : Nat) (hd : d ≤ 1) (stk : List Str) (rd : Bool) (evs : List Event)
    (hne : l ≠ []) (h : ∀ x ∈ l, xmlChar x = true ∧ x ≠ '-') :
    ∃ acc', runM ⟨.comment acc d, stk, rd, evs⟩ l = some ⟨.comment acc' 0, stk, rd, evs⟩ := by
  cases l with
  | nil => exact absurd rfl hne
  | cons x r =>
    obtain ⟨hx1, hx2⟩ := h x (by simp)
    have hd' : d = 0 ∨ d = 1 := by omega
    rcases hd' with rfl | rfl
    · exact run_comment_safe0 _ _ _ _ _ h
    · have : runM ⟨.comment acc 1, stk, rd, evs⟩ [x] = some ⟨.comment (x :: '-' :: acc) 0, stk, rd, evs⟩ := by
        simp [runM, step, hx1, hx2]
      obtain ⟨a', ha⟩ := run_comment_safe0 r (x :: '-' :: acc) stk rd evs (fun y hy => h y (by simp [hy]))
      exact ⟨a', by rw [show x :: r = [x] ++ r from rfl, runM_append_of this, ha]⟩

theorem run_comment_enc (s acc : Str) (d : Nat) (hd : d ≤ 1) (stk : List Str) (rd : Bool) (evs : List Event)
    (h : cOk d s = true) :
    ∃ acc', runM ⟨.comment acc d, stk, rd, evs⟩ (encodeL s) = some ⟨.comment acc' 0, stk, rd, evs⟩ := by
  induction s generalizing acc d with
  | nil =>
    simp [cOk] at h; subst h; exact ⟨acc, rfl⟩
  | cons c r ih =>
    simp only [encodeL, List.flatMap_cons]
    by_cases hc : c = '-'
    · subst hc
      simp [cOk] at h
      obtain ⟨rfl, h⟩ := h
      have e : encodeChar '-' = ['-'] := by decide
      have : runM ⟨.comment acc 0, stk, rd, evs⟩ ['-'] = some ⟨.comment acc 1, stk, rd, evs⟩ := rfl
      obtain ⟨a', ha⟩ := ih acc 1 (by omega) h
      exact ⟨a', by rw [e, runM_append_of this]; exact ha⟩
    · simp [cOk, hc] at h
      obtain ⟨hne, hsafe⟩ := encodeChar_safe c hc
      obtain ⟨a1, h1⟩ := run_comment_safe (encodeChar c) acc d hd stk rd evs hne hsafe
      obtain ⟨a', ha⟩ := ih a1 0 (by omega) h
      exact ⟨a', by rw [runM_append_of h1]; exact ha⟩

/-- `<!--text-->` from content -/
theorem run_comment (s : Str) (hs : commentOk s = true) (stk : List Str) (rd : Bool) (evs : List Event) :
    ∃ evs', runM ⟨.content, stk, rd, evs⟩ (['<', '!', '-', '-'] ++ encodeL s ++ ['-', '-', '>']) = some ⟨.content, stk, rd, evs'⟩ := by
  have e1 : runM ⟨.content, stk, rd, evs⟩ ['<', '!', '-', '-'] = some ⟨.comment [] 0, stk, rd, evs⟩ := rfl
  obtain ⟨a', ha⟩ := run_comment_enc s [] 0 (by omega) stk rd evs hs
  refine ⟨.comment a'.reverse :: evs, ?_⟩
  rw [List.append_assoc, runM_append_of e1, runM_append_of ha]
  rfl

/-! ### attribute sorting -/

theorem insertAttr_perm (x : Str × Str) (l : List (Str × Str)) : (insertAttr x l).Perm (x :: l) := by
  induction l with
  | nil => simp [insertAttr]
  | cons y t ih =>
    simp only [insertAttr]
    split
    · exact List.Perm.refl _
    · exact (List.Perm.cons y ih).trans (List.Perm.swap x y t)

theorem sortAttrs_perm (l : List (Str × Str)) : (sortAttrs l).Perm l := by
  induction l with
  | nil => simp [sortAttrs]
  | cons x t ih =>
    simp only [sortAttrs]
    exact (insertAttr_perm x _).trans (List.Perm.cons x ih)

/-! ### hypotheses and invariant -/

/-- what the caller must respect for one call (the writer does not escape names, and `literal` writes raw text) -/
def OpOk : Op → Prop
  | .start n as => validName n = true ∧ (∀ kv ∈ as, validName kv.1 = true ∧ ∀ c ∈ kv.2, xmlChar c = true) ∧ (as.map (·.1)).Nodup
  | .chars s => ∀ c ∈ s, xmlChar c = true
  | .literal s => ∀ c ∈ s, plainChar c = true
  | .comment s => commentOk s = true
  | .stop _ => True
  | .spacePreserve => True
  | .pi _ => False
  | .charsBr _ => False

/-- exactly one document element: no start tag at depth 0 once the document element is closed, and at the end
either something is still open (closed by `__exit__`) or the document element has been closed -/
def shape : Nat → Bool → List Op → Bool
  | d, rd, [] => decide (0 < d) || rd
  | d, rd, .start _ _ :: r => !(d == 0 && rd) && shape (d + 1) rd r
  | d, rd, .stop _ :: r => shape (d - 1) (rd || d == 1) r
  | d, rd, _ :: r => shape d rd r

structure Inv (w : WState) (p : PState) : Prop where
  names : ∀ n ∈ w.elemStk, validName n = true
  len : w.canIndentStk.length = w.elemStk.length
  opn : w.inElem = true → ∃ name rest as, w.elemStk = name :: rest ∧ p.stack = rest ∧ p.mode = tagMode name as
  cls : w.inElem = false → p.mode = .content ∧ p.stack = w.elemStk

theorem indent_ws (w : WState) : ∀ c ∈ w.indent, c = '\n' ∨ c = ' ' := by
  intro c hc
  unfold WState.indent at hc
  split at hc
  · simp at hc
    rcases hc with rfl | ⟨_, rfl⟩ <;> simp
  · simp at hc

theorem sim_ws {p : PState} {ws : Str} (hm : p.mode = .content) (hws : ∀ c ∈ ws, c = '\n' ∨ c = ' ') :
    ∃ p', runM p ws = some p' ∧ p'.mode = .content ∧ p'.stack = p.stack ∧ p'.rootDone = p.rootDone := by
  obtain ⟨mode, stk, rd, evs⟩ := p
  simp only at hm; subst hm
  obtain ⟨e', he⟩ := run_ws ws hws stk rd evs
  exact ⟨_, he, rfl, rfl, rfl⟩

theorem sim_close {w : WState} {p : PState} (h : Inv w p) :
    ∃ p1, runM p w.closeIfOpen.2 = some p1 ∧ Inv w.closeIfOpen.1 p1 ∧ p1.rootDone = p.rootDone ∧
      p1.mode = .content ∧ p1.stack = w.elemStk ∧ w.closeIfOpen.1 = { w with inElem := false } := by
  obtain ⟨mode, stk, rd, evs⟩ := p
  unfold WState.closeIfOpen
  by_cases hi : w.inElem = true
  · obtain ⟨name, rest, as, h1, h2, h3⟩ := h.opn hi
    simp only at h2 h3; subst h2 h3
    simp only [hi, if_true]
    refine ⟨_, run_open name as stk rd evs, ⟨h.names, h.len, by simp, fun _ => ⟨rfl, by simp [h1]⟩⟩, rfl, rfl, h1.symm, trivial⟩
  · have hi' : w.inElem = false := by simpa using hi
    obtain ⟨h1, h2⟩ := h.cls hi'
    simp only at h1 h2; subst h1 h2
    simp only [hi', Bool.false_eq_true, if_false]
    refine ⟨_, rfl, ?_, rfl, rfl, rfl, ?_⟩
    · exact h
    · cases w; simp_all

theorem Inv.transfer {w w' : WState} {p p' : PState} (h : Inv w p) (h1 : w'.elemStk = w.elemStk) (h2 : w'.inElem = w.inElem)
    (h3 : w'.canIndentStk.length = w.canIndentStk.length) (h4 : p'.mode = p.mode) (h5 : p'.stack = p.stack) : Inv w' p' :=
  ⟨by rw [h1]; exact h.names, by rw [h3, h1]; exact h.len,
   fun hi => by rw [h1, h4, h5]; exact h.opn (by rw [← h2]; exact hi),
   fun hi => by rw [h1, h4, h5]; exact h.cls (by rw [← h2]; exact hi)⟩

theorem flip_ok {w w2 : WState} {b : Bool} (h : w.flipIndent b = .ok w2) :
    w2.elemStk = w.elemStk ∧ w2.inElem = w.inElem ∧ w2.canIndentStk.length = w.canIndentStk.length ∧ w.canIndentStk ≠ [] := by
  unfold WState.flipIndent at h
  split at h
  · cases h
  · rename_i x r hr
    cases h
    simp [hr]

theorem startElement_eq (w : WState) (n : Str) (as : List (Str × Str)) :
    startElement w n as =
      ({ elemStk := n :: w.closeIfOpen.1.elemStk, inElem := true, canIndentStk := true :: w.closeIfOpen.1.canIndentStk },
       w.closeIfOpen.2 ++ w.closeIfOpen.1.indent ++ startChunk n as) := rfl

theorem sim_start {w : WState} {p : PState} (h : Inv w p) (n : Str) (as : List (Str × Str)) (hok : OpOk (.start n as))
    (hroot : w.elemStk = [] → p.rootDone = false) :
    ∃ p', runM p (startElement w n as).2 = some p' ∧ Inv (startElement w n as).1 p' ∧ p'.rootDone = p.rootDone := by
  obtain ⟨hn, has, hnd⟩ := hok
  obtain ⟨p1, r1, i1, rd1, m1, s1, w1e⟩ := sim_close h
  obtain ⟨p2, r2, m2, s2, rd2⟩ := sim_ws m1 (indent_ws w.closeIfOpen.1)
  obtain ⟨mode2, stk2, rdd, evs2⟩ := p2
  simp only at m2 s2 rd2; subst m2
  have hr : (stk2.isEmpty && rdd) = false := by
    rw [s2, s1, rd2, rd1]
    cases he : w.elemStk with
    | nil => simp [hroot he]
    | cons a b => simp
  have hperm := sortAttrs_perm as
  have hk : ∀ kv ∈ sortAttrs as, validName kv.1 = true := fun kv hkv => (has kv (hperm.mem_iff.1 hkv)).1
  have hv : ∀ kv ∈ sortAttrs as, ∀ c ∈ kv.2, xmlChar c = true := fun kv hkv => (has kv (hperm.mem_iff.1 hkv)).2
  have hu : (List.map (fun (x : Str × Str) => x.1) ([] ++ sortAttrs as)).Nodup := by
    simp only [List.nil_append]
    exact ((hperm.map _).nodup_iff).2 hnd
  have r3 := run_lt_name n hn stk2 rdd evs2 hr
  have r4 := run_attrs (sortAttrs as) n [] stk2 rdd evs2 hk hv hu
  have ht : tagMode n [] = .stag n.reverse := by simp [tagMode]
  rw [ht] at r4
  rw [startElement_eq]
  refine ⟨⟨tagMode n ([] ++ sortAttrs as), stk2, rdd, evs2⟩, ?_, ?_, ?_⟩
  · simp only
    rw [List.append_assoc, runM_append_of r1, runM_append_of r2]
    have : startChunk n as = ('<' :: n) ++ (sortAttrs as).flatMap attrStr := by simp [startChunk]
    rw [this, runM_append_of r3, r4]
  · refine ⟨?_, ?_, ?_, ?_⟩
    · intro x hx
      simp only [List.mem_cons] at hx
      rcases hx with rfl | hx
      · exact hn
      · exact i1.names x hx
    · simp [i1.len]
    · intro _
      refine ⟨n, w.closeIfOpen.1.elemStk, [] ++ sortAttrs as, rfl, ?_, rfl⟩
      simp only; rw [s2, s1, w1e]
    · intro hc; simp at hc
  · simp only; rw [rd2, rd1]

theorem sim_stop {w w' : WState} {p : PState} {name chunk : Str} (h : Inv w p) (hs : endElement w name = .ok (w', chunk)) :
    ∃ p', runM p chunk = some p' ∧ Inv w' p' ∧ p'.rootDone = (p.rootDone || w'.elemStk.isEmpty) ∧
      w'.elemStk.length + 1 = w.elemStk.length := by
  obtain ⟨mode, stk, rd, evs⟩ := p
  unfold endElement at hs
  split at hs
  · cases hs
  · rename_i top rest hstk
    split at hs
    · cases hs
    · by_cases hi : w.inElem = true
      · simp only [hi, if_true] at hs
        cases hs
        obtain ⟨nm, rs, as, e1, e2, e3⟩ := h.opn hi
        rw [hstk] at e1; cases e1
        simp only at e2 e3; subst e2 e3
        refine ⟨⟨.content, stk, rd || stk.isEmpty, .stop top :: .start top as :: evs⟩, run_empty top as stk rd evs,
          ⟨?_, ?_, ?_, ?_⟩, rfl, by simp [hstk]⟩
        · intro x hx; exact h.names x (by rw [hstk]; simp at hx ⊢; exact Or.inr hx)
        · have := h.len; rw [hstk] at this; simp at this ⊢; omega
        · intro hc; simp at hc
        · intro _; exact ⟨rfl, rfl⟩
      · have hi' : w.inElem = false := by simpa using hi
        simp only [hi', Bool.false_eq_true, if_false] at hs
        cases hs
        obtain ⟨e1, e2⟩ := h.cls hi'
        simp only at e1 e2; subst e1; rw [hstk] at e2; subst e2
        have hn : validName top = true := h.names top (by rw [hstk]; simp)
        obtain ⟨p2, r2, m2, s2, rd2⟩ := sim_ws (p := ⟨.content, top :: rest, rd, evs⟩) rfl
          (indent_ws ⟨rest, false, w.canIndentStk⟩)
        obtain ⟨mode2, stk2, rdd, evs2⟩ := p2
        simp only at m2 s2 rd2; subst m2 s2 rd2
        refine ⟨⟨.content, rest, rdd || rest.isEmpty, .stop top :: evs2⟩, ?_, ⟨?_, ?_, ?_, ?_⟩, rfl, by simp [hstk]⟩
        · rw [List.append_assoc, List.append_assoc, runM_append_of r2]
          have := run_etag top hn rest rdd evs2
          simpa [List.append_assoc] using this
        · intro x hx; exact h.names x (by rw [hstk]; simp at hx ⊢; exact Or.inr hx)
        · have := h.len; rw [hstk] at this; simp at this ⊢; omega
        · intro hc; simp at hc
        · intro _; exact ⟨rfl, rfl⟩

/-- text written after `_closeElemIfOpen()` inside an element, followed by `_flipIndent(False)` -/
theorem sim_text {w w2 : WState} {p : PState} (h : Inv w p) (hf : w.closeIfOpen.1.flipIndent false = .ok w2)
    (txt : Str)
    (hrun : ∀ a stk rd evs, ∃ evs', runM ⟨.content, a :: stk, rd, evs⟩ txt = some ⟨.content, a :: stk, rd, evs'⟩) :
    ∃ p', runM p (w.closeIfOpen.2 ++ txt) = some p' ∧ Inv w2 p' ∧ p'.rootDone = p.rootDone ∧ w2.elemStk = w.elemStk := by
  obtain ⟨p1, r1, i1, rd1, m1, s1, w1e⟩ := sim_close h
  obtain ⟨f1, f2, f3, f4⟩ := flip_ok hf
  obtain ⟨mode1, stk1, rdd, evs1⟩ := p1
  simp only at m1 s1 rd1; subst m1
  have hne : w.elemStk ≠ [] := by
    intro he
    have := i1.len
    rw [w1e] at this f4
    simp only at this f4
    rw [he] at this
    exact f4 (List.length_eq_zero_iff.1 this)
  cases hstk : w.elemStk with
  | nil => exact absurd hstk hne
  | cons a stk =>
    rw [hstk] at s1; subst s1
    obtain ⟨evs', r2⟩ := hrun a stk rdd evs1
    refine ⟨_, by rw [runM_append_of r1]; exact r2, ?_, rd1, ?_⟩
    · exact i1.transfer f1 f2 f3 rfl rfl
    · rw [f1, w1e]; exact hstk

theorem sim_step {w w' : WState} {p : PState} {op : Op} {chunk : Str} (h : Inv w p) (hs : stepW w op = .ok (w', chunk))
    (hok : OpOk op) (hroot : ∀ n as, op = .start n as → w.elemStk = [] → p.rootDone = false) :
    ∃ p', runM p chunk = some p' ∧ Inv w' p' ∧
      p'.rootDone = (p.rootDone || (match op with | .stop _ => w'.elemStk.isEmpty | _ => false)) ∧
      w'.elemStk.length = (match op with | .start _ _ => w.elemStk.length + 1 | .stop _ => w.elemStk.length - 1 | _ => w.elemStk.length) ∧
      (∀ n, op = .stop n → 0 < w.elemStk.length) := by
  cases op with
  | start n as =>
    have e : startElement w n as = (w', chunk) := Except.ok.inj hs
    have e1 : w' = (startElement w n as).1 := by rw [e]
    have e2 : chunk = (startElement w n as).2 := by rw [e]
    subst e1 e2
    obtain ⟨p', r, i, rd⟩ := sim_start h n as hok (hroot n as rfl)
    refine ⟨p', r, i, by simp [rd], ?_, by simp⟩
    obtain ⟨_, _, _, _, _, _, w1e⟩ := sim_close h
    simp only [startElement_eq, w1e, List.length_cons]
  | stop name =>
    simp only [stepW] at hs
    obtain ⟨p', r, i, rd, l⟩ := sim_stop h hs
    exact ⟨p', r, i, rd, by simp only; omega, fun _ _ => by omega⟩
  | chars s =>
    have hs' : (match w.closeIfOpen.1.flipIndent false with
        | .error e => .error e
        | .ok w2 => .ok (w2, w.closeIfOpen.2 ++ encodeL s)) = Except.ok (w', chunk) := hs
    cases hf : w.closeIfOpen.1.flipIndent false with
    | error e => rw [hf] at hs'; cases hs'
    | ok w2 =>
      rw [hf] at hs'; cases hs'
      obtain ⟨p', r, i, rd, l⟩ := sim_text h hf (encodeL s) (fun a stk rd evs => ⟨_, run_encodeL_content s hok a stk rd evs⟩)
      exact ⟨p', r, i, by simp [rd], by simp [l], by simp⟩
  | literal s =>
    have hs' : (match w.closeIfOpen.1.flipIndent false with
        | .error e => .error e
        | .ok w2 => .ok (w2, w.closeIfOpen.2 ++ s)) = Except.ok (w', chunk) := hs
    cases hf : w.closeIfOpen.1.flipIndent false with
    | error e => rw [hf] at hs'; cases hs'
    | ok w2 =>
      rw [hf] at hs'; cases hs'
      obtain ⟨p', r, i, rd, l⟩ := sim_text h hf s (fun a stk rd evs => ⟨_, run_plain s hok a stk rd evs⟩)
      exact ⟨p', r, i, by simp [rd], by simp [l], by simp⟩
  | comment s =>
    have hs' : Except.ok (w.closeIfOpen.1, w.closeIfOpen.2 ++ ['<', '!', '-', '-'] ++ encodeL s ++ ['-', '-', '>']) = Except.ok (w', chunk) := hs
    cases hs'
    obtain ⟨p1, r1, i1, rd1, m1, s1, w1e⟩ := sim_close h
    obtain ⟨mode1, stk1, rdd, evs1⟩ := p1
    simp only at m1 s1 rd1; subst m1
    obtain ⟨evs', r2⟩ := run_comment s hok stk1 rdd evs1
    refine ⟨⟨.content, stk1, rdd, evs'⟩, ?_, ?_, by simp [rd1], by simp [w1e], by simp⟩
    · rw [List.append_assoc, List.append_assoc, runM_append_of r1]
      simpa [List.append_assoc] using r2
    · exact i1.transfer rfl rfl rfl rfl rfl
  | spacePreserve =>
    simp only [stepW] at hs
    split at hs
    · cases hs
    · rename_i x r hr
      cases hs
      refine ⟨p, rfl, h.transfer rfl rfl (by simp [hr]) rfl rfl, by simp, rfl, by simp⟩
  | pi s => exact absurd hok (by simp [OpOk])
  | charsBr s => exact absurd hok (by simp [OpOk])

theorem sim_run (ops : List Op) : ∀ {w w' : WState} {p : PState} {chunk : Str}, Inv w p → runW w ops = .ok (w', chunk) →
    (∀ op ∈ ops, OpOk op) → shape w.elemStk.length p.rootDone ops = true →
    ∃ p', runM p chunk = some p' ∧ Inv w' p' ∧ (0 < w'.elemStk.length ∨ p'.rootDone = true) := by
  induction ops with
  | nil =>
    intro w w' p chunk h hr _ hsh
    simp only [runW] at hr
    cases hr
    refine ⟨p, rfl, h, ?_⟩
    simp [shape] at hsh
    exact hsh
  | cons op r ih =>
    intro w w' p chunk h hr hok hsh
    simp only [runW] at hr
    cases hst : stepW w op with
    | error e => rw [hst] at hr; cases hr
    | ok r1 =>
      obtain ⟨w1, c1⟩ := r1
      rw [hst] at hr
      simp only at hr
      cases hrr : runW w1 r with
      | error e => rw [hrr] at hr; cases hr
      | ok r2 =>
        obtain ⟨w2, c2⟩ := r2
        rw [hrr] at hr
        simp only at hr
        cases hr
        have hroot : ∀ n as, op = .start n as → w.elemStk = [] → p.rootDone = false := by
          intro n as e he
          subst e
          simp [shape, he] at hsh
          exact hsh.1
        obtain ⟨p1, r1, i1, rd1, l1, pos1⟩ := sim_step h hst (hok op (by simp)) hroot
        have hsh1 : shape w1.elemStk.length p1.rootDone r = true := by
          cases op with
          | start n as => simp [shape] at hsh; simp only at l1 rd1; rw [l1, rd1]; simpa using hsh.2
          | stop n =>
            simp only [shape] at hsh; simp only at l1 rd1
            have hp := pos1 n rfl
            rw [l1, rd1]
            have : w1.elemStk.isEmpty = (w.elemStk.length == 1) := by
              cases hw1 : w1.elemStk with
              | nil => simp [hw1] at l1; simp; omega
              | cons a b => simp [hw1] at l1; simp; omega
            rw [this]; exact hsh
          | chars s => simp only [shape] at hsh; simp only at l1 rd1; rw [l1, rd1]; simpa using hsh
          | literal s => simp only [shape] at hsh; simp only at l1 rd1; rw [l1, rd1]; simpa using hsh
          | comment s => simp only [shape] at hsh; simp only at l1 rd1; rw [l1, rd1]; simpa using hsh
          | pi s => simp only [shape] at hsh; simp only at l1 rd1; rw [l1, rd1]; simpa using hsh
          | spacePreserve => simp only [shape] at hsh; simp only at l1 rd1; rw [l1, rd1]; simpa using hsh
          | charsBr s => simp only [shape] at hsh; simp only at l1 rd1; rw [l1, rd1]; simpa using hsh
        obtain ⟨p2, r2, i2, fin⟩ := ih i1 hrr (fun o ho => hok o (by simp [ho])) hsh1
        exact ⟨p2, by rw [runM_append_of r1]; exact r2, i2, fin⟩

theorem endElement_top_ok {w : WState} {top : Str} {rest : List Str} (h : w.elemStk = top :: rest) :
    ∃ r, endElement w top = .ok r := by
  unfold endElement
  rw [h]
  simp only [ne_eq, not_true_eq_false, if_false]
  split <;> exact ⟨_, rfl⟩

theorem sim_closeAll (fuel : Nat) : ∀ (w : WState) (p : PState), Inv w p → w.elemStk.length ≤ fuel →
    (0 < w.elemStk.length ∨ p.rootDone = true) → ∃ p', runM p (closeAll fuel w) = some p' ∧ accepting p' = true := by
  have base : ∀ (w : WState) (p : PState), Inv w p → w.elemStk = [] → (0 < w.elemStk.length ∨ p.rootDone = true) →
      ∃ p', runM p ['\n'] = some p' ∧ accepting p' = true := by
    intro w p h he hd
    have hi : w.inElem = false := by
      cases hie : w.inElem with
      | false => rfl
      | true =>
        obtain ⟨_, _, _, e, _⟩ := h.opn hie
        rw [he] at e; cases e
    obtain ⟨m, s⟩ := h.cls hi
    obtain ⟨mode, stk, rd, evs⟩ := p
    simp only at m s hd; subst m; rw [he] at s; subst s
    rw [he] at hd
    simp at hd; subst hd
    exact ⟨_, rfl, rfl⟩
  induction fuel with
  | zero =>
    intro w p h hl hd
    have he : w.elemStk = [] := List.length_eq_zero_iff.1 (by omega)
    simp only [closeAll]
    exact base w p h he hd
  | succ fuel ih =>
    intro w p h hl hd
    simp only [closeAll]
    cases hstk : w.elemStk with
    | nil => simp only; exact base w p h hstk hd
    | cons top rest =>
      simp only
      obtain ⟨⟨w1, c1⟩, he⟩ := endElement_top_ok hstk
      rw [he]
      simp only
      obtain ⟨p1, r1, i1, rd1, l1⟩ := sim_stop h he
      have hd1 : 0 < w1.elemStk.length ∨ p1.rootDone = true := by
        cases hw1 : w1.elemStk with
        | nil => right; rw [rd1, hw1]; simp
        | cons a b => left; simp
      obtain ⟨p2, r2, acc⟩ := ih w1 p1 i1 (by omega) hd1
      exact ⟨p2, by rw [runM_append_of r1]; exact r2, acc⟩

theorem stripDecl_header (rest : Str) : stripDecl (xmlHeader "utf-8".toList ++ rest) = some rest := by
  rfl

theorem inv_init : Inv {} {} :=
  ⟨by simp, by simp, by simp, fun _ => ⟨rfl, rfl⟩⟩

theorem xhtml_enter : ∃ p0, runM {} (xhtmlDoctype ++ (startElement {} "html".toList xhtmlRootAttrs).2) = some p0 ∧
    Inv (startElement {} "html".toList xhtmlRootAttrs).1 p0 ∧ p0.rootDone = false := by
  have e0 : runM {} xhtmlDoctype = some ⟨.content, [], false, [.doctype xhtmlDoctype.tail.tail.tail.dropLast]⟩ := by decide
  have i0 : Inv {} ⟨.content, [], false, [.doctype xhtmlDoctype.tail.tail.tail.dropLast]⟩ :=
    ⟨by simp, by simp, by simp, fun _ => ⟨rfl, rfl⟩⟩
  have hok : OpOk (.start "html".toList xhtmlRootAttrs) := ⟨by decide, by decide, by decide⟩
  obtain ⟨p', r, i, rd⟩ := sim_start i0 "html".toList xhtmlRootAttrs hok (fun _ => rfl)
  exact ⟨p', by rw [runM_append_of e0]; exact r, i, rd⟩

theorem element_doc (n : Str) (as : List (Str × Str)) (s : Str) :
    document .xml "utf-8".toList [.start n as, .chars s, .stop n] =
      .ok (xmlHeader "utf-8".toList ++ (['\n'] ++ (('<' :: n) ++ ((sortAttrs as).flatMap attrStr ++ (['>'] ++ (encodeL s ++ ((['<', '/'] ++ n ++ ['>']) ++ ['\n']))))))) := by
  simp [document, enter, runW, stepW, startElement, endElement, WState.closeIfOpen, WState.flipIndent, WState.indent,
    WState.canIndent, exitChunk, closeAll, startChunk]

theorem element_parse (n : Str) (as : List (Str × Str)) (s : Str)
    (hn : validName n = true)
    (has : ∀ kv ∈ as, validName kv.1 = true ∧ ∀ c ∈ kv.2, xmlChar c = true)
    (hnd : (as.map (·.1)).Nodup) (hs : ∀ c ∈ s, xmlChar c = true) :
    parse (xmlHeader "utf-8".toList ++ (['\n'] ++ (('<' :: n) ++ ((sortAttrs as).flatMap attrStr ++ (['>'] ++ (encodeL s ++ ((['<', '/'] ++ n ++ ['>']) ++ ['\n'])))))))
      = some (.start n (sortAttrs as) :: (s.map Event.chr ++ [.stop n])) := by
  have hperm := sortAttrs_perm as
  have hk : ∀ kv ∈ sortAttrs as, validName kv.1 = true := fun kv hkv => (has kv (hperm.mem_iff.1 hkv)).1
  have hv : ∀ kv ∈ sortAttrs as, ∀ c ∈ kv.2, xmlChar c = true := fun kv hkv => (has kv (hperm.mem_iff.1 hkv)).2
  have hu : (List.map (fun (x : Str × Str) => x.1) ([] ++ sortAttrs as)).Nodup := by
    simp only [List.nil_append]
    exact ((hperm.map _).nodup_iff).2 hnd
  have e0 : runM {} ['\n'] = some ⟨.content, [], false, []⟩ := rfl
  have e1 := run_lt_name n hn [] false [] rfl
  have e2 := run_attrs (sortAttrs as) n [] [] false [] hk hv hu
  have ht : tagMode n [] = .stag n.reverse := by simp [tagMode]
  rw [ht] at e2
  have e3 := run_open n ([] ++ sortAttrs as) [] false []
  have e4 := run_encodeL_content s hs n [] false [.start n ([] ++ sortAttrs as)]
  have e5 := run_etag n hn [] false ((s.map Event.chr).reverse ++ [.start n ([] ++ sortAttrs as)])
  have e6 : ∀ evs, runM ⟨.content, [], true, evs⟩ ['\n'] = some ⟨.content, [], true, evs⟩ := fun _ => rfl
  unfold parse
  rw [stripDecl_header]
  simp only
  rw [runM_append_of e0, runM_append_of e1, runM_append_of e2, runM_append_of e3, runM_append_of e4, runM_append_of e5]
  simp only [Bool.false_or, List.isEmpty_nil]
  rw [e6]
  simp [accepting]

end TD.C18
