import TD.C18.Model
/-!
Helper lemmas for C18: decimal/character-reference round trip, the per-character simulation of the recogniser on
`_encode` output, the per-call simulation lemmas of the element-stack automaton, the RLE round trip.
-/
namespace TD.C18

theorem runM_append (s : PState) (a b : Str) :
    runM s (a ++ b) = (runM s a).bind (fun s' => runM s' b) := by
  induction a generalizing s with
  | nil => simp [runM]
  | cons c r ih =>
    simp only [List.cons_append, runM]
    cases h : step s c with
    | none => simp
    | some s' => simp [ih]

/-- running in two stages -/
theorem runM_append_of {s s' : PState} {a b : Str} (h : runM s a = some s') :
    runM s (a ++ b) = runM s' b := by
  rw [runM_append, h]; rfl

theorem toNat_digitChar {n : Nat} (h : n < 10) : (digitChar n).toNat = 48 + n := by
  have : ∀ n, n < 10 → (digitChar n).toNat = 48 + n := by decide
  exact this n h

theorem isDigit_digitChar {n : Nat} (h : n < 10) : isDigit (digitChar n) = true := by
  have : ∀ n, n < 10 → isDigit (digitChar n) = true := by decide
  exact this n h

theorem parseDecAux_snoc (l : Str) (c : Char) (acc : Nat) :
    parseDecAux (l ++ [c]) acc = (parseDecAux l acc).bind (fun a => if isDigit c then some (a * 10 + (c.toNat - 48)) else none) := by
  induction l generalizing acc with
  | nil => simp [parseDecAux]
  | cons d r ih =>
    simp only [List.cons_append, parseDecAux]
    split
    · exact ih _
    · simp

theorem decimalAux_ne_nil (f n : Nat) : decimalAux (f + 1) n ≠ [] := by
  unfold decimalAux; split <;> simp

theorem decimalAux_digits (f n : Nat) : ∀ c ∈ decimalAux f n, isDigit c = true := by
  induction f generalizing n with
  | zero => simp [decimalAux]
  | succ f ih =>
    unfold decimalAux
    split
    · intro c hc; simp at hc; subst hc; exact isDigit_digitChar (by omega)
    · intro c hc
      simp only [List.mem_append, List.mem_singleton] at hc
      rcases hc with hc | hc
      · exact ih _ c hc
      · subst hc; exact isDigit_digitChar (by omega)

theorem parseDecAux_decimalAux (f n : Nat) (h : n < f) : parseDecAux (decimalAux f n) 0 = some n := by
  induction f generalizing n with
  | zero => omega
  | succ f ih =>
    unfold decimalAux
    split
    · rename_i h10
      simp [parseDecAux, isDigit_digitChar h10, toNat_digitChar h10]
    · rename_i h10
      rw [parseDecAux_snoc, ih (n / 10) (by omega)]
      have hm : n % 10 < 10 := by omega
      simp [isDigit_digitChar hm, toNat_digitChar hm]
      omega

theorem parseDec_decimal (n : Nat) : parseDec (decimal n) = some n := by
  unfold parseDec decimal
  have := decimalAux_ne_nil n n
  cases h : decimalAux (n + 1) n with
  | nil => exact absurd h this
  | cons d r =>
    have := parseDecAux_decimalAux (n + 1) n (by omega)
    rw [h] at this
    simpa using this

theorem decimal_digits (n : Nat) : ∀ c ∈ decimal n, isDigit c = true := decimalAux_digits _ _

theorem decodeRef_hash_digits (l : Str) (hne : l ≠ []) (hd : ∀ c ∈ l, isDigit c = true) :
    decodeRef ('#' :: l) = (parseDec l).bind charOfCode := by
  cases l with
  | nil => exact absurd rfl hne
  | cons d r =>
    have hdx : d ≠ 'x' := by
      intro h; subst h; have := hd 'x' (by simp); revert this; decide
    unfold decodeRef
    split
    · rename_i h; simp at h; exact absurd h.1 hdx
    · rename_i h; simp at h; rw [h]
    all_goals (rename_i h; first | (simp at h; done) | (rename_i h2 _ _ _ _; exact absurd rfl (h2 _)))

theorem decodeRef_decimal (n : Nat) : decodeRef ('#' :: decimal n) = charOfCode n := by
  rw [decodeRef_hash_digits _ _ (decimal_digits n), parseDec_decimal]; rfl
  unfold decimal; exact decimalAux_ne_nil _ _

theorem entityOf_none {c : Char} (h1 : c ≠ '<') (h2 : c ≠ '>') (h3 : c ≠ '&') (h4 : c ≠ '\'') (h5 : c ≠ '"') :
    entityOf c = none := by
  have e1 : (c == Char.ofNat 60) = false := by simpa using h1
  have e2 : (c == Char.ofNat 62) = false := by simpa using h2
  have e3 : (c == Char.ofNat 38) = false := by simpa using h3
  have e4 : (c == Char.ofNat 39) = false := by simpa using h4
  have e5 : (c == Char.ofNat 34) = false := by simpa using h5
  simp [entityOf, entityMap, List.lookup, e1, e2, e3, e4, e5]

theorem xmlChar_lt32 {c : Char} (hc : xmlChar c = true) (h : c.toNat < 32) : c = '\t' ∨ c = '\n' ∨ c = '\r' := by
  have : c.toNat = 9 ∨ c.toNat = 10 ∨ c.toNat = 13 := by
    simp [xmlChar, isXmlCharN] at hc; omega
  rcases this with h | h | h
  · left; exact Char.toNat_inj.1 h
  · right; left; exact Char.toNat_inj.1 h
  · right; right; exact Char.toNat_inj.1 h

theorem run_ref_digits (l r : Str) (stk : List Str) (rd : Bool) (evs : List Event) (hd : ∀ c ∈ l, isDigit c = true) :
    runM ⟨.ref r, stk, rd, evs⟩ l = some ⟨.ref (l.reverse ++ r), stk, rd, evs⟩ := by
  induction l generalizing r with
  | nil => simp [runM]
  | cons d t ih =>
    have hdd := hd d (by simp)
    have h1 : d ≠ ';' := by intro h; subst h; revert hdd; decide
    have h2 : refChar d = true := by
      simp [isDigit] at hdd
      simp [refChar, nameChar, nameCharN]; omega
    simp only [runM, step, h1, if_false, h2, if_true]
    rw [ih _ (fun c hc => hd c (by simp [hc]))]
    simp

theorem run_encodeChar_content (c : Char) (hc : xmlChar c = true) (a : Str) (stk : List Str) (rd : Bool) (evs : List Event) :
    runM ⟨.content, a :: stk, rd, evs⟩ (encodeChar c) = some ⟨.content, a :: stk, rd, .chr c :: evs⟩ := by
  by_cases h1 : c = '<'; · subst h1; rfl
  by_cases h2 : c = '>'; · subst h2; rfl
  by_cases h3 : c = '&'; · subst h3; rfl
  by_cases h4 : c = '\''; · subst h4; rfl
  by_cases h5 : c = '"'; · subst h5; rfl
  unfold encodeChar; rw [entityOf_none h1 h2 h3 h4 h5]; simp only
  by_cases hlt : c.toNat < 32
  · rcases xmlChar_lt32 hc hlt with rfl | rfl | rfl <;> rfl
  · rw [if_neg hlt]
    have hr : c ≠ '\r' := by intro h; subst h; exact hlt (by decide)
    by_cases h128 : c.toNat < 128
    · rw [if_pos h128]
      simp [runM, step, h1, h2, h3, hr, hc]
    · rw [if_neg h128]
      have e1 : runM ⟨.content, a :: stk, rd, evs⟩ ['&', '#'] = some ⟨.ref ['#'], a :: stk, rd, evs⟩ := rfl
      rw [List.append_assoc, runM_append_of e1, runM_append_of (run_ref_digits _ _ _ _ _ (decimal_digits _))]
      simp only [runM, step, if_true, List.reverse_append, List.reverse_reverse, List.reverse_cons, List.reverse_nil, List.nil_append, List.singleton_append]
      rw [decodeRef_decimal]
      simp [charOfCode, show isXmlCharN c.toNat = true from hc]

theorem run_attrRef_digits (l r : Str) (n : Str) (as : List (Str × Str)) (an : Str) (q : Char) (acc : Str)
    (stk : List Str) (rd : Bool) (evs : List Event) (hd : ∀ c ∈ l, isDigit c = true) :
    runM ⟨.attrRef n as an q acc r, stk, rd, evs⟩ l = some ⟨.attrRef n as an q acc (l.reverse ++ r), stk, rd, evs⟩ := by
  induction l generalizing r with
  | nil => simp [runM]
  | cons d t ih =>
    have hdd := hd d (by simp)
    have h1 : d ≠ ';' := by intro h; subst h; revert hdd; decide
    have h2 : refChar d = true := by
      simp [isDigit] at hdd
      simp [refChar, nameChar, nameCharN]; omega
    simp only [runM, step, h1, if_false, h2, if_true]
    rw [ih _ (fun c hc => hd c (by simp [hc]))]
    simp

theorem run_encodeChar_attr (c : Char) (hc : xmlChar c = true) (n : Str) (as : List (Str × Str)) (an : Str) (acc : Str)
    (stk : List Str) (rd : Bool) (evs : List Event) :
    runM ⟨.attrVal n as an '"' acc, stk, rd, evs⟩ (encodeChar c) = some ⟨.attrVal n as an '"' (c :: acc), stk, rd, evs⟩ := by
  by_cases h1 : c = '<'; · subst h1; rfl
  by_cases h2 : c = '>'; · subst h2; rfl
  by_cases h3 : c = '&'; · subst h3; rfl
  by_cases h4 : c = '\''; · subst h4; rfl
  by_cases h5 : c = '"'; · subst h5; rfl
  unfold encodeChar; rw [entityOf_none h1 h2 h3 h4 h5]; simp only
  by_cases hlt : c.toNat < 32
  · rcases xmlChar_lt32 hc hlt with rfl | rfl | rfl <;> rfl
  · rw [if_neg hlt]
    have hr : c ≠ '\r' := by intro h; subst h; exact hlt (by decide)
    have ht : c ≠ '\t' := by intro h; subst h; exact hlt (by decide)
    have hn : c ≠ '\n' := by intro h; subst h; exact hlt (by decide)
    by_cases h128 : c.toNat < 128
    · rw [if_pos h128]
      simp [runM, step, h1, h3, h5, hr, ht, hn, hc]
    · rw [if_neg h128]
      have e1 : runM ⟨.attrVal n as an '"' acc, stk, rd, evs⟩ ['&', '#'] = some ⟨.attrRef n as an '"' acc ['#'], stk, rd, evs⟩ := rfl
      rw [List.append_assoc, runM_append_of e1, runM_append_of (run_attrRef_digits _ _ _ _ _ _ _ _ _ _ (decimal_digits _))]
      simp only [runM, step, if_true, List.reverse_append, List.reverse_reverse, List.reverse_cons, List.reverse_nil, List.nil_append, List.singleton_append]
      rw [decodeRef_decimal]
      simp [charOfCode, show isXmlCharN c.toNat = true from hc]

theorem run_encodeL_content (s : Str) (hs : ∀ c ∈ s, xmlChar c = true) (a : Str) (stk : List Str) (rd : Bool) (evs : List Event) :
    runM ⟨.content, a :: stk, rd, evs⟩ (encodeL s) = some ⟨.content, a :: stk, rd, (s.map Event.chr).reverse ++ evs⟩ := by
  induction s generalizing evs with
  | nil => simp [encodeL, runM]
  | cons c r ih =>
    simp only [encodeL, List.flatMap_cons]
    rw [runM_append_of (run_encodeChar_content c (hs c (by simp)) a stk rd evs)]
    have := ih (fun c hc => hs c (by simp [hc])) (.chr c :: evs)
    simp only [encodeL] at this
    rw [this]; simp

theorem run_encodeL_attr (s : Str) (hs : ∀ c ∈ s, xmlChar c = true) (n : Str) (as : List (Str × Str)) (an : Str) (acc : Str)
    (stk : List Str) (rd : Bool) (evs : List Event) :
    runM ⟨.attrVal n as an '"' acc, stk, rd, evs⟩ (encodeL s) = some ⟨.attrVal n as an '"' (s.reverse ++ acc), stk, rd, evs⟩ := by
  induction s generalizing acc with
  | nil => simp [encodeL, runM]
  | cons c r ih =>
    simp only [encodeL, List.flatMap_cons]
    rw [runM_append_of (run_encodeChar_attr c (hs c (by simp)) n as an acc stk rd evs)]
    have := ih (fun c hc => hs c (by simp [hc])) (c :: acc)
    simp only [encodeL] at this
    rw [this]; simp

theorem decodeText_encodeL (s : Str) (hs : ∀ c ∈ s, xmlChar c = true) : decodeText (encodeL s) = some s := by
  unfold decodeText
  have := run_encodeL_content s hs ['a'] [] false []
  simp only [List.append_nil] at this
  rw [show ({ stack := [['a']] } : PState) = ⟨.content, [['a']], false, []⟩ from rfl, this]
  simp
  clear this hs
  induction s with
  | nil => simp
  | cons c r ih => simp [List.mapM_cons, ih]

theorem decodeAttr_encodeL (s : Str) (hs : ∀ c ∈ s, xmlChar c = true) : decodeAttr (encodeL s) = some s := by
  unfold decodeAttr
  rw [show ({ mode := .attrVal ['a'] [] ['k'] '"' [] } : PState) = ⟨.attrVal ['a'] [] ['k'] '"' [], [], false, []⟩ from rfl,
    runM_append_of (run_encodeL_attr s hs _ _ _ _ _ _ _)]
  simp [runM, step]

end TD.C18
