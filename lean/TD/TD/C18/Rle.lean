import TD.C18.Lemmas
import Mathlib.Tactic.Ring
/-! RLE lemmas for C18 (integer run-length items and their XML attributes). -/
namespace TD.C18

/-! ### RLE: values of the created items -/

theorem valuesFrom_succ (v s : Int) (n : Nat) :
    valuesFrom v s (n + 1) = valuesFrom v s n ++ [v + s * ((n : Int) + 1)] := by
  induction n generalizing v with
  | zero => simp [valuesFrom]
  | succ n ih =>
    rw [valuesFrom, ih (v + s)]
    simp only [valuesFrom, List.cons_append, List.cons.injEq, true_and]
    congr 2
    push_cast; ring

theorem add_values {it it' : RItem} {v : Int} (h : it.add v = some it') : it'.values = it.values ++ [v] := by
  unfold RItem.add at h
  split at h
  · rename_i h0
    cases h
    simp [RItem.values, valuesFrom, h0]
  · split at h
    · rename_i h0 hv
      cases h
      simp only [RItem.values]
      rw [valuesFrom_succ]
      simp [hv]
    · cases h

def valsRev (items : List RItem) : List Int := items.reverse.flatMap RItem.values

theorem valsRev_add (items : List RItem) (v : Int) : valsRev (rleAddRev items v) = valsRev items ++ [v] := by
  unfold rleAddRev
  cases items with
  | nil => simp [valsRev, RItem.values, valuesFrom]
  | cons it rest =>
    simp only
    cases h : it.add v with
    | some it' =>
      simp only [valsRev, List.reverse_cons, List.flatMap_append, List.flatMap_cons, List.flatMap_nil, List.append_nil]
      rw [add_values h, List.append_assoc]
    | none =>
      simp [valsRev, RItem.values, valuesFrom]

theorem valsRev_foldl (xs : List Int) (items : List RItem) :
    valsRev (xs.foldl rleAddRev items) = valsRev items ++ xs := by
  induction xs generalizing items with
  | nil => simp
  | cons x r ih => simp only [List.foldl_cons]; rw [ih, valsRev_add]; simp

theorem rleCreate_values (xs : List Int) : (rleCreate xs).flatMap RItem.values = xs := by
  have := valsRev_foldl xs []
  simpa [valsRev, rleCreate] using this

/-! ### closed form -/

theorem range_closed (d s : Int) (r : Nat) :
    (List.range (r + 1)).map (fun (i : Nat) => d + s * (i : Int)) = d :: valuesFrom d s r := by
  induction r with
  | zero => simp [valuesFrom]
  | succ r ih =>
    rw [List.range_succ, List.map_append, ih, valuesFrom_succ]
    simp

/-! ### hexadecimal -/

theorem hexVal_hexDigitChar {n : Nat} (h : n < 16) : hexVal (hexDigitChar n) = some n := by
  have : ∀ n, n < 16 → hexVal (hexDigitChar n) = some n := by decide
  exact this n h

theorem parseHexAux_snoc (l : Str) (c : Char) (acc : Nat) :
    parseHexAux (l ++ [c]) acc = (parseHexAux l acc).bind (fun a => (hexVal c).map (fun d => a * 16 + d)) := by
  induction l generalizing acc with
  | nil => simp [parseHexAux]; cases hexVal c <;> simp
  | cons d r ih =>
    simp only [List.cons_append, parseHexAux]
    cases hexVal d with
    | none => simp
    | some x => exact ih _

theorem parseHexAux_hexAux (f n : Nat) (h : n < f) : parseHexAux (hexAux f n) 0 = some n := by
  induction f generalizing n with
  | zero => omega
  | succ f ih =>
    unfold hexAux
    split
    · rename_i h16
      simp [parseHexAux, hexVal_hexDigitChar h16]
    · rename_i h16
      rw [parseHexAux_snoc, ih (n / 16) (by omega)]
      have hm : n % 16 < 16 := by omega
      simp [hexVal_hexDigitChar hm]
      omega

theorem hexAux_ne_nil (f n : Nat) : hexAux (f + 1) n ≠ [] := by
  unfold hexAux; split <;> simp

theorem parseHex_hexNat (n : Nat) : parseHex (hexNat n) = some n := by
  unfold parseHex hexNat
  have := hexAux_ne_nil n n
  cases h : hexAux (n + 1) n with
  | nil => exact absurd h this
  | cons d r =>
    have := parseHexAux_hexAux (n + 1) n (by omega)
    rw [h] at this
    simpa using this

theorem hexAux_head (f n : Nat) : ∀ c, (hexAux (f + 1) n).head? = some c → hexVal c ≠ none := by
  induction f generalizing n with
  | zero =>
    intro c hc
    unfold hexAux at hc
    split at hc
    · rename_i h16; simp at hc; subst hc; rw [hexVal_hexDigitChar h16]; simp
    · rename_i h16; simp [hexAux] at hc; subst hc; rw [hexVal_hexDigitChar (by omega)]; simp
  | succ f ih =>
    intro c hc
    unfold hexAux at hc
    split at hc
    · rename_i h16; simp at hc; subst hc; rw [hexVal_hexDigitChar h16]; simp
    · have hne := hexAux_ne_nil f (n / 16)
      cases hh : hexAux (f + 1) (n / 16) with
      | nil => exact absurd hh hne
      | cons a b =>
        rw [hh] at hc; simp at hc; subst hc
        exact ih (n / 16) a (by rw [hh]; rfl)

theorem readInt_showHexInt (v : Int) : readInt (showHexInt v) = some v := by
  unfold showHexInt
  by_cases hv : v < 0
  · simp only [hv, if_true]
    simp only [readInt, parseHex_hexNat, Option.map_some]
    congr 1; omega
  · simp only [hv, if_false]
    have hne := hexAux_ne_nil v.natAbs v.natAbs
    cases hh : hexNat v.natAbs with
    | nil => unfold hexNat at hh; exact absurd hh hne
    | cons a b =>
      have ha : a ≠ '-' := by
        intro e; subst e
        have := hexAux_head v.natAbs v.natAbs '-' (by unfold hexNat at hh; rw [hh]; rfl)
        exact this (by decide)
      have hp := parseHex_hexNat v.natAbs
      rw [hh] at hp
      unfold readInt
      split
      · rename_i h; simp at h; exact absurd h.1 ha
      · rename_i h; simp at h; obtain ⟨rfl, rfl⟩ := h; rw [hp]; simp; omega
      · rename_i h; simp at h
      · exfalso; rename_i h1 h2 h3; first | exact h1 _ rfl | exact h2 _ rfl

theorem readInt_showInt (v : Int) : readInt (showInt v) = some v := by
  unfold showInt
  by_cases hv : v < 0
  · simp only [hv, if_true]
    simp only [readInt, parseDec_decimal, Option.map_some]
    congr 1; omega
  · simp only [hv, if_false]
    have hd := decimal_digits v.natAbs
    have hp := parseDec_decimal v.natAbs
    have hne : decimal v.natAbs ≠ [] := by unfold decimal; exact decimalAux_ne_nil _ _
    cases hh : decimal v.natAbs with
    | nil => exact absurd hh hne
    | cons a b =>
      rw [hh] at hd hp
      have ha : a ≠ '-' := by intro e; subst e; have := hd '-' (by simp); revert this; decide
      unfold readInt
      split
      · rename_i h; simp at h
        have := hd 'x' (by rw [h.2]; simp); exact absurd this (by decide)
      · rename_i h; simp at h
        have := hd 'x' (by rw [h.2]; simp); exact absurd this (by decide)
      · rename_i h; simp at h; exact absurd h.1 ha
      · rw [hp]; simp; omega

theorem expandItem_attrs (hex : Bool) (it : RItem) : expandItem (rleAttrs hex it) = some it.values := by
  have l1 : (rleAttrs hex it).lookup "datum".toList = some (if hex then showHexInt it.datum else showInt it.datum) := by
    simp [rleAttrs]
  have l2 : (rleAttrs hex it).lookup "stride".toList = some (if hex then showHexInt it.stride else showInt it.stride) := by
    simp [rleAttrs, List.lookup]
  have l3 : (rleAttrs hex it).lookup "repeat".toList = some (decimal it.repeat_) := by
    simp [rleAttrs, List.lookup]
  unfold expandItem
  rw [l1, l2, l3]
  cases hex
  · simp only [Bool.false_eq_true, if_false, readInt_showInt, parseDec_decimal, range_closed, RItem.values]
  · simp only [if_true, readInt_showHexInt, parseDec_decimal, range_closed, RItem.values]

theorem mapM_expand (hex : Bool) (items : List RItem) :
    (items.map (rleAttrs hex)).mapM expandItem = some (items.map RItem.values) := by
  induction items with
  | nil => simp
  | cons it r ih => simp [List.mapM_cons, expandItem_attrs, ih]

theorem expand_rleCreate (hex : Bool) (xs : List Int) : expand ((rleCreate xs).map (rleAttrs hex)) = some xs := by
  unfold expand
  rw [mapM_expand]
  simp only [Option.map_some]
  congr 1
  rw [← List.flatMap_def] 
  exact rleCreate_values xs

end TD.C18
