import TD.C18.Stream
/-!
C18, whole-tree data preservation: the simulation of `TD.C18.Stream` with exact event bookkeeping.  `specEvents` is
what a call sequence asks for; `PadRev` says how the parsed events may differ from it (indentation only, and only
outside mixed content).
-/
namespace TD.C18

/-! ### exact event bookkeeping -/

/-- indentation: exact events (none outside the document element) -/
theorem run_ws_exact (ws : Str) (hws : ∀ c ∈ ws, c = '\n' ∨ c = ' ') (stk : List Str) (rd : Bool) (evs : List Event) :
    runM ⟨.content, stk, rd, evs⟩ ws = some ⟨.content, stk, rd, if stk.isEmpty then evs else (ws.map Event.chr).reverse ++ evs⟩ := by
  induction ws generalizing evs with
  | nil => cases stk <;> simp [runM]
  | cons c r ih =>
    have hr := fun c h => hws c (List.mem_cons_of_mem _ h)
    cases stk with
    | nil =>
      have : runM ⟨.content, [], rd, evs⟩ [c] = some ⟨.content, [], rd, evs⟩ := by
        rcases hws c (by simp) with rfl | rfl <;> rfl
      rw [show c :: r = [c] ++ r from rfl, runM_append_of this, ih hr]; simp
    | cons a stk =>
      have : runM ⟨.content, a :: stk, rd, evs⟩ [c] = some ⟨.content, a :: stk, rd, .chr c :: evs⟩ := by
        rcases hws c (by simp) with rfl | rfl <;> rfl
      rw [show c :: r = [c] ++ r from rfl, runM_append_of this, ih hr]; simp

theorem run_comment_text_exact (u acc : Str) (d : Nat) (hd : d ≤ 1) (stk : List Str) (rd : Bool) (evs : List Event)
    (h : cOk d u = true) (hx : ∀ x ∈ u, xmlChar x = true) :
    runM ⟨.comment acc d, stk, rd, evs⟩ u = some ⟨.comment (u.reverse ++ (if d = 1 then '-' :: acc else acc)) 0, stk, rd, evs⟩ := by
  induction u generalizing acc d with
  | nil => simp [cOk] at h; subst h; simp [runM]
  | cons c r ih =>
    have hxc := hx c (by simp)
    have hxr : ∀ x ∈ r, xmlChar x = true := fun x hm => hx x (by simp [hm])
    by_cases hc : c = '-'
    · subst hc
      simp [cOk] at h
      obtain ⟨rfl, h⟩ := h
      have : runM ⟨.comment acc 0, stk, rd, evs⟩ ['-'] = some ⟨.comment acc 1, stk, rd, evs⟩ := rfl
      rw [show '-' :: r = ['-'] ++ r from rfl, runM_append_of this, ih acc 1 (by omega) h hxr]
      simp
    · simp [cOk, hc] at h
      have hd' : d = 0 ∨ d = 1 := by omega
      rcases hd' with rfl | rfl
      · have : runM ⟨.comment acc 0, stk, rd, evs⟩ [c] = some ⟨.comment (c :: acc) 0, stk, rd, evs⟩ := by
          simp [runM, step, hxc, hc]
        rw [show c :: r = [c] ++ r from rfl, runM_append_of this, ih (c :: acc) 0 (by omega) h hxr]
        simp
      · have : runM ⟨.comment acc 1, stk, rd, evs⟩ [c] = some ⟨.comment (c :: '-' :: acc) 0, stk, rd, evs⟩ := by
          simp [runM, step, hxc, hc]
        rw [show c :: r = [c] ++ r from rfl, runM_append_of this, ih (c :: '-' :: acc) 0 (by omega) h hxr]
        simp

/-- the comment is read back as exactly the text the writer put between `<!--` and `-->` -/
theorem run_comment_exact (s : Str) (stk : List Str) (rd : Bool) (evs : List Event) :
    runM ⟨.content, stk, rd, evs⟩ (['<', '!', '-', '-'] ++ commentText s ++ ['-', '-', '>']) =
      some ⟨.content, stk, rd, .comment (commentText s) :: evs⟩ := by
  have e1 : runM ⟨.content, stk, rd, evs⟩ ['<', '!', '-', '-'] = some ⟨.comment [] 0, stk, rd, evs⟩ := rfl
  obtain ⟨hok, hx⟩ := commentText_ok s
  have ha := run_comment_text_exact (commentText s) [] 0 (by omega) stk rd evs hok hx
  rw [List.append_assoc, runM_append_of e1, runM_append_of ha]
  simp [runM, step]

/-! ### the specification of "the data, unchanged" for a whole call sequence -/

/-- what the calls ask for, independently of how the writer lays the text out; most recent event first -/
structure SpecSt where
  stk : List Str := []
  rev : List Event := []

def notBlank (c : Char) : Bool := c != ' '

def specStep (st : SpecSt) : Op → SpecSt
  | .start n as => ⟨n :: st.stk, .start n (sortAttrs as) :: st.rev⟩
  | .stop n => ⟨st.stk.tail, .stop n :: st.rev⟩
  | .chars s => ⟨st.stk, (s.map Event.chr).reverse ++ st.rev⟩
  | .literal s => ⟨st.stk, (s.map Event.chr).reverse ++ st.rev⟩
  | .comment s => ⟨st.stk, .comment (commentText s) :: st.rev⟩
  | .pi s => ⟨st.stk, .pi (s.takeWhile notBlank) [] :: st.rev⟩    -- the target; nothing is claimed about PI data
  | _ => st

/-- `__exit__`: whatever is open is closed, innermost first -/
def specClose : List Str → List Event → List Event
  | [], rev => rev
  | top :: rest, rev => specClose rest (.stop top :: rev)

/-- the events the calls `ops` ask for, in document order -/
def specEvents (ops : List Op) : List Event :=
  let st := ops.foldl specStep {}
  (specClose st.stk st.rev).reverse

/-- reversed indentation run: spaces, then the newline that started it -/
def IsIndentRev (ws : List Event) : Prop := ∃ k, ws = List.replicate k (Event.chr ' ') ++ [Event.chr '\n']

def AllFalse (m : List Bool) : Prop := ∀ b ∈ m, b = false

/-- `PadRev m spec parsed` (both most-recent-first): `parsed` is `spec` with nothing changed except that an
indentation run (newline + spaces) may stand immediately before a start tag or an end tag, and only where neither the
element concerned nor any enclosing element has character data so far.  `m` = per open element (innermost first):
has it character data? -/
inductive PadRev : List Bool → List Event → List Event → Prop
  | nil : PadRev [] [] []
  | start {m s p} (n : Str) (a : List (Str × Str)) (ws : List Event) :
      PadRev m s p → (ws = [] ∨ (IsIndentRev ws ∧ AllFalse m)) →
      PadRev (false :: m) (.start n a :: s) (.start n a :: (ws ++ p))
  | stop {b m s p} (n : Str) (ws : List Event) :
      PadRev (b :: m) s p → (ws = [] ∨ (IsIndentRev ws ∧ AllFalse (b :: m))) →
      PadRev m (.stop n :: s) (.stop n :: (ws ++ p))
  | chr {b m s p} (c : Char) : PadRev (b :: m) s p → PadRev (true :: m) (.chr c :: s) (.chr c :: p)
  | comment {m s p} (t : Str) : PadRev m s p → PadRev m (.comment t :: s) (.comment t :: p)
  | pi {m s p} (t d d' : Str) : PadRev m s p → PadRev m (.pi t d :: s) (.pi t d' :: p)

theorem PadRev.chrs {b : Bool} {m : List Bool} {s p : List Event} (h : PadRev (b :: m) s p) (cs : Str) :
    ∃ b', PadRev (b' :: m) ((cs.map Event.chr).reverse ++ s) ((cs.map Event.chr).reverse ++ p) := by
  induction cs generalizing b s p with
  | nil => exact ⟨b, by simpa using h⟩
  | cons c r ih =>
    obtain ⟨b', hb⟩ := ih (PadRev.chr c h)
    exact ⟨b', by simpa using hb⟩

/-- writer flag false wherever the element has character data -/
inductive FlagsRel : List Bool → List Bool → Prop
  | nil : FlagsRel [] []
  | cons {a b : Bool} {l1 l2 : List Bool} : (a = true → b = false) → FlagsRel l1 l2 → FlagsRel (a :: l1) (b :: l2)

theorem FlagsRel.allFalse {m ws : List Bool} (h : FlagsRel m ws) (hall : ws.all id = true) : AllFalse m := by
  induction h with
  | nil => intro b hb; cases hb
  | cons hab _ ih =>
    simp only [List.all_cons, Bool.and_eq_true, id] at hall
    intro x hx
    simp only [List.mem_cons] at hx
    rcases hx with rfl | hx
    · cases hx' : x with
      | false => rfl
      | true => have := hab hx'; rw [hall.1] at this; cases this
    · exact ih hall.2 x hx

theorem indent_events (w : WState) :
    (w.indent.map Event.chr).reverse = [] ∧ w.indent = [] ∨
    (IsIndentRev (w.indent.map Event.chr).reverse ∧ w.canIndentStk.all id = true) := by
  unfold WState.indent WState.canIndent
  split
  · rename_i h
    right
    refine ⟨⟨2 * w.elemStk.length, ?_⟩, h⟩
    simp
  · left; simp

/-- the invariant with events: `st` is what the calls so far ask for -/
structure InvE (w : WState) (p : PState) (st : SpecSt) : Prop where
  inv : Inv w p
  stk : st.stk = w.elemStk
  cls : w.inElem = false → ∃ m, FlagsRel m w.canIndentStk ∧ PadRev m st.rev p.evs
  opn : w.inElem = true → ∃ name as s' ws p0 m' wb cr rest, w.elemStk = name :: rest ∧ p.stack = rest ∧
      st.rev = .start name as :: s' ∧ p.mode = tagMode name as ∧
      p.evs = ws ++ p0 ∧ (ws = [] ∨ (IsIndentRev ws ∧ AllFalse m')) ∧ PadRev m' s' p0 ∧
      w.canIndentStk = wb :: cr ∧ FlagsRel m' cr

theorem closeIfOpen_fields (w : WState) :
    w.closeIfOpen.1.elemStk = w.elemStk ∧ w.closeIfOpen.1.canIndentStk = w.canIndentStk ∧ w.closeIfOpen.1.inElem = false := by
  unfold WState.closeIfOpen
  split
  · simp
  · rename_i h; simp at h; simp [h]

theorem simE_close {w : WState} {p : PState} {st : SpecSt} (h : InvE w p st) :
    ∃ evs1 m, runM p w.closeIfOpen.2 = some ⟨.content, w.elemStk, p.rootDone, evs1⟩ ∧
      FlagsRel m w.canIndentStk ∧ PadRev m st.rev evs1 := by
  obtain ⟨mode, stk, rd, evs⟩ := p
  by_cases hi : w.inElem = true
  · obtain ⟨name, as, s', ws, p0, m', wb, cr, rest, f1, f2, e1, e2, e3, e4, e5, e6, e7⟩ := h.opn hi
    simp only at e2 e3 f2; subst e2 e3 f2
    have hc : w.closeIfOpen.2 = ['>'] := by unfold WState.closeIfOpen; simp [hi]
    refine ⟨.start name as :: (ws ++ p0), false :: m', ?_, ?_, ?_⟩
    · rw [hc, f1]; exact run_open name as stk rd (ws ++ p0)
    · rw [e6]; exact FlagsRel.cons (by simp) e7
    · rw [e1]; exact PadRev.start name as ws e5 e4
  · have hi' : w.inElem = false := by simpa using hi
    obtain ⟨m, hm, hp⟩ := h.cls hi'
    obtain ⟨h1, h2⟩ := h.inv.cls hi'
    simp only at h1 h2 hp; subst h1 h2
    have hc : w.closeIfOpen.2 = [] := by unfold WState.closeIfOpen; simp [hi']
    exact ⟨evs, m, by rw [hc]; rfl, hm, hp⟩

theorem indent_step (w1 : WState) (m : List Bool) (hm : FlagsRel m w1.canIndentStk) (stk : List Str) (rd : Bool) (evs : List Event) :
    ∃ wsE, runM ⟨.content, stk, rd, evs⟩ w1.indent = some ⟨.content, stk, rd, wsE ++ evs⟩ ∧
      (wsE = [] ∨ (IsIndentRev wsE ∧ AllFalse m)) := by
  have hrun := run_ws_exact w1.indent (indent_ws w1) stk rd evs
  cases stk with
  | nil => exact ⟨[], by simpa using hrun, Or.inl rfl⟩
  | cons a stk =>
    refine ⟨(w1.indent.map Event.chr).reverse, by simpa using hrun, ?_⟩
    rcases indent_events w1 with ⟨h, _⟩ | ⟨h1, h2⟩
    · exact Or.inl h
    · exact Or.inr ⟨h1, hm.allFalse h2⟩

theorem simE_start {w : WState} {p : PState} {st : SpecSt} (h : InvE w p st) (n : Str) (as : List (Str × Str))
    (hok : OpOk (.start n as)) (hroot : w.elemStk = [] → p.rootDone = false) :
    ∃ p', runM p (startElement w n as).2 = some p' ∧ InvE (startElement w n as).1 p' (specStep st (.start n as)) := by
  obtain ⟨p'', r'', i'', _⟩ := sim_start h.inv n as hok hroot
  obtain ⟨hn, has, hnd⟩ := hok
  obtain ⟨evs1, m, r1, hm, hp⟩ := simE_close h
  obtain ⟨c1, c2, c3⟩ := closeIfOpen_fields w
  obtain ⟨wsE, r2, hws⟩ := indent_step w.closeIfOpen.1 m (by rw [c2]; exact hm) w.elemStk p.rootDone evs1
  have hr : (w.elemStk.isEmpty && p.rootDone) = false := by
    cases he : w.elemStk with
    | nil => simp [hroot he]
    | cons a b => simp
  have hperm := sortAttrs_perm as
  have hk : ∀ kv ∈ sortAttrs as, validName kv.1 = true := fun kv hkv => (has kv (hperm.mem_iff.1 hkv)).1
  have hv : ∀ kv ∈ sortAttrs as, ∀ c ∈ kv.2, xmlChar c = true := fun kv hkv => (has kv (hperm.mem_iff.1 hkv)).2
  have hu : (List.map (fun (x : Str × Str) => x.1) ([] ++ sortAttrs as)).Nodup := by
    simp only [List.nil_append]
    exact ((hperm.map _).nodup_iff).2 hnd
  have r3 := run_lt_name n hn w.elemStk p.rootDone (wsE ++ evs1) hr
  have r4 := run_attrs (sortAttrs as) n [] w.elemStk p.rootDone (wsE ++ evs1) hk hv hu
  have ht : tagMode n [] = .stag n.reverse := by simp [tagMode]
  rw [ht] at r4
  have hrun : runM p (startElement w n as).2 = some ⟨tagMode n (sortAttrs as), w.elemStk, p.rootDone, wsE ++ evs1⟩ := by
    rw [startElement_eq]
    simp only
    rw [List.append_assoc, runM_append_of r1, runM_append_of r2]
    have : startChunk n as = ('<' :: n) ++ (sortAttrs as).flatMap attrStr := by simp [startChunk]
    rw [this, runM_append_of r3, r4]; simp
  have hpe : p'' = ⟨tagMode n (sortAttrs as), w.elemStk, p.rootDone, wsE ++ evs1⟩ := by
    rw [r''] at hrun; exact Option.some.inj hrun
  subst hpe
  refine ⟨_, hrun, ⟨i'', ?_, ?_, ?_⟩⟩
  · rw [startElement_eq]; simp [specStep, h.stk, c1]
  · intro hc; rw [startElement_eq] at hc; simp at hc
  · intro _
    refine ⟨n, sortAttrs as, st.rev, wsE, evs1, m, true, w.canIndentStk, w.elemStk, ?_, rfl, rfl, rfl, rfl, hws, hp, ?_, hm⟩
    · rw [startElement_eq]; simp [c1]
    · rw [startElement_eq]; simp [c2]

theorem simE_stop {w w' : WState} {p : PState} {st : SpecSt} {name chunk : Str} (h : InvE w p st)
    (hs : endElement w name = .ok (w', chunk)) :
    ∃ p', runM p chunk = some p' ∧ InvE w' p' (specStep st (.stop name)) := by
  obtain ⟨p'', r'', i'', _, _⟩ := sim_stop h.inv hs
  obtain ⟨mode, stk, rd, evs⟩ := p
  unfold endElement at hs
  split at hs
  · cases hs
  · rename_i top rest hstk
    split at hs
    · cases hs
    · rename_i hname
      have hname : name = top := by simpa using hname
      subst hname
      by_cases hi : w.inElem = true
      · simp only [hi, if_true] at hs
        cases hs
        obtain ⟨nm, as, s', ws, p0, m', wb, cr, rest', f1, f2, e1, e2, e3, e4, e5, e6, e7⟩ := h.opn hi
        rw [hstk] at f1; cases f1
        simp only at e2 e3 f2; subst e2 e3 f2
        have hrun := run_empty name as stk rd (ws ++ p0)
        have hpe : p'' = ⟨.content, stk, rd || stk.isEmpty, .stop name :: .start name as :: (ws ++ p0)⟩ := by
          rw [r''] at hrun; exact Option.some.inj hrun
        subst hpe
        refine ⟨_, hrun, ⟨i'', ?_, ?_, ?_⟩⟩
        · simp [specStep, h.stk, hstk]
        · intro _
          refine ⟨m', by simpa [e6] using e7, ?_⟩
          simp only [specStep, e1]
          have := PadRev.stop name [] (PadRev.start name as ws e5 e4) (Or.inl rfl)
          simpa using this
        · intro hc; simp at hc
      · have hi' : w.inElem = false := by simpa using hi
        simp only [hi', Bool.false_eq_true, if_false] at hs
        cases hs
        obtain ⟨m, hm, hp⟩ := h.cls hi'
        obtain ⟨e1, e2⟩ := h.inv.cls hi'
        simp only at e1 e2 hp; subst e1; rw [hstk] at e2; subst e2
        have hn : validName name = true := h.inv.names name (by rw [hstk]; simp)
        obtain ⟨wsE, r2, hws⟩ := indent_step ⟨rest, false, w.canIndentStk⟩ m hm (name :: rest) rd evs
        -- the flag list is not empty
        have hlen := h.inv.len
        rw [hstk] at hlen
        obtain ⟨wb, tl, hc⟩ : ∃ wb tl, w.canIndentStk = wb :: tl := by
          cases hcs : w.canIndentStk with
          | nil => rw [hcs] at hlen; simp at hlen
          | cons a b => exact ⟨a, b, rfl⟩
        have hm' := hm
        rw [hc] at hm'
        cases hm' with
        | cons hab htl =>
          rename_i b m0
          have hrun : runM ⟨.content, name :: rest, rd, evs⟩
              ((⟨rest, false, w.canIndentStk⟩ : WState).indent ++ ['<', '/'] ++ name ++ ['>']) =
              some ⟨.content, rest, rd || rest.isEmpty, .stop name :: (wsE ++ evs)⟩ := by
            rw [List.append_assoc, List.append_assoc, runM_append_of r2]
            have := run_etag name hn rest rd (wsE ++ evs)
            simpa [List.append_assoc] using this
          have hpe : p'' = ⟨.content, rest, rd || rest.isEmpty, .stop name :: (wsE ++ evs)⟩ := by
            rw [r''] at hrun; exact Option.some.inj hrun
          subst hpe
          refine ⟨_, hrun, ⟨i'', ?_, ?_, ?_⟩⟩
          · simp [specStep, h.stk, hstk]
          · intro _
            refine ⟨m0, by simpa [hc] using htl, ?_⟩
            simp only [specStep]
            exact PadRev.stop name wsE hp hws
          · intro hcc; simp at hcc

/-- something written after `_closeElemIfOpen()` inside an element, followed by `_flipIndent(False)` -/
theorem simE_text {w w2 : WState} {p : PState} {st : SpecSt} (h : InvE w p st)
    (hf : w.closeIfOpen.1.flipIndent false = .ok w2) (txt : Str) (ne sne : List Event)
    (hrun : ∀ a stk rd evs, runM ⟨.content, a :: stk, rd, evs⟩ txt = some ⟨.content, a :: stk, rd, ne ++ evs⟩)
    (hpad : ∀ (b : Bool) (m : List Bool) (s p : List Event), PadRev (b :: m) s p → ∃ b', PadRev (b' :: m) (sne ++ s) (ne ++ p))
    (i2 : ∀ p', runM p (w.closeIfOpen.2 ++ txt) = some p' → Inv w2 p') :
    ∃ p', runM p (w.closeIfOpen.2 ++ txt) = some p' ∧ InvE w2 p' ⟨st.stk, sne ++ st.rev⟩ := by
  obtain ⟨evs1, m, r1, hm, hp⟩ := simE_close h
  obtain ⟨c1, c2, c3⟩ := closeIfOpen_fields w
  obtain ⟨f1, f2, f3, f4⟩ := flip_ok hf
  -- the flip only succeeds inside an element
  unfold WState.flipIndent at hf
  rw [c2] at hf f4
  cases hcs : w.canIndentStk with
  | nil => exact absurd hcs f4
  | cons wb tl =>
    rw [hcs] at hf hm
    simp only at hf
    cases hf
    cases hm with
    | cons hab htl =>
      rename_i b m0
      have hlen := h.inv.len
      rw [hcs] at hlen
      cases hstk : w.elemStk with
      | nil => rw [hstk] at hlen; simp at hlen
      | cons a stk =>
        rw [hstk] at r1
        have r2 := hrun a stk p.rootDone evs1
        have hrun' : runM p (w.closeIfOpen.2 ++ txt) = some ⟨.content, a :: stk, p.rootDone, ne ++ evs1⟩ := by
          rw [runM_append_of r1]; exact r2
        obtain ⟨b', hb'⟩ := hpad b m0 _ _ hp
        refine ⟨_, hrun', ⟨i2 _ hrun', ?_, ?_, ?_⟩⟩
        · simp [h.stk, c1]
        · intro _
          exact ⟨b' :: m0, FlagsRel.cons (fun _ => rfl) htl, hb'⟩
        · intro hc; simp [c3] at hc

theorem takeWhile_target (t d : Str) (ht : ∀ c ∈ t, c ≠ ' ') :
    t.takeWhile notBlank = t ∧ (t ++ ' ' :: d).takeWhile notBlank = t := by
  induction t with
  | nil => exact ⟨rfl, by simp [notBlank]⟩
  | cons c r ih =>
    have hc : notBlank c = true := by simp [notBlank, ht c (by simp)]
    obtain ⟨a, b⟩ := ih (fun x hx => ht x (by simp [hx]))
    exact ⟨by simp only [List.takeWhile_cons, hc, if_true, a],
           by simp only [List.cons_append, List.takeWhile_cons, hc, if_true, b]⟩

theorem simE_step {w w' : WState} {p : PState} {st : SpecSt} {op : Op} {chunk : Str} (h : InvE w p st)
    (hs : stepW w op = .ok (w', chunk)) (hok : OpOk op)
    (hroot : ∀ n as, op = .start n as → w.elemStk = [] → p.rootDone = false) :
    ∃ p', runM p chunk = some p' ∧ InvE w' p' (specStep st op) := by
  obtain ⟨p'', r'', i'', _⟩ := sim_step h.inv hs hok hroot
  cases op with
  | start n as =>
    have e : startElement w n as = (w', chunk) := Except.ok.inj hs
    have e1 : w' = (startElement w n as).1 := by rw [e]
    have e2 : chunk = (startElement w n as).2 := by rw [e]
    subst e1 e2
    exact simE_start h n as hok (hroot n as rfl)
  | stop name => exact simE_stop h hs
  | chars s =>
    have hs' : (match w.closeIfOpen.1.flipIndent false with
        | .error e => .error e
        | .ok w2 => .ok (w2, w.closeIfOpen.2 ++ encodeL s)) = Except.ok (w', chunk) := hs
    cases hf : w.closeIfOpen.1.flipIndent false with
    | error e => rw [hf] at hs'; cases hs'
    | ok w2 =>
      rw [hf] at hs'; cases hs'
      exact simE_text h hf (encodeL s) _ _ (fun a stk rd evs => run_encodeL_content s hok a stk rd evs)
        (fun _ _ _ _ hp => hp.chrs s) (fun p' hp' => by rw [r''] at hp'; cases hp'; exact i'')
  | literal s =>
    have hs' : (match w.closeIfOpen.1.flipIndent false with
        | .error e => .error e
        | .ok w2 => .ok (w2, w.closeIfOpen.2 ++ s)) = Except.ok (w', chunk) := hs
    cases hf : w.closeIfOpen.1.flipIndent false with
    | error e => rw [hf] at hs'; cases hs'
    | ok w2 =>
      rw [hf] at hs'; cases hs'
      exact simE_text h hf s _ _ (fun a stk rd evs => run_plain s hok a stk rd evs)
        (fun _ _ _ _ hp => hp.chrs s) (fun p' hp' => by rw [r''] at hp'; cases hp'; exact i'')
  | comment s =>
    have hs' : Except.ok (w.closeIfOpen.1, w.closeIfOpen.2 ++ ['<', '!', '-', '-'] ++ commentText s ++ ['-', '-', '>']) = Except.ok (w', chunk) := hs
    cases hs'
    obtain ⟨evs1, m, r1, hm, hp⟩ := simE_close h
    obtain ⟨c1, c2, c3⟩ := closeIfOpen_fields w
    have r2 := run_comment_exact s w.elemStk p.rootDone evs1
    have hrun : runM p (w.closeIfOpen.2 ++ ['<', '!', '-', '-'] ++ commentText s ++ ['-', '-', '>']) =
        some ⟨.content, w.elemStk, p.rootDone, .comment (commentText s) :: evs1⟩ := by
      rw [List.append_assoc, List.append_assoc, runM_append_of r1]
      simpa [List.append_assoc] using r2
    have hpe : p'' = ⟨.content, w.elemStk, p.rootDone, .comment (commentText s) :: evs1⟩ := by
      rw [r''] at hrun; exact Option.some.inj hrun
    subst hpe
    refine ⟨_, hrun, ⟨i'', ?_, ?_, ?_⟩⟩
    · simp [specStep, h.stk, c1]
    · intro _
      exact ⟨m, by rw [c2]; exact hm, PadRev.comment _ hp⟩
    · intro hc; simp [c3] at hc
  | spacePreserve =>
    simp only [stepW] at hs
    split at hs
    · cases hs
    · rename_i x r hr
      cases hs
      have hpe : p'' = p := by simp [runM] at r''; exact r''.symm
      subst hpe
      refine ⟨p'', rfl, ⟨i'', by simpa [specStep] using h.stk, ?_, ?_⟩⟩
      · intro hi
        obtain ⟨m, hm, hp⟩ := h.cls hi
        rw [hr] at hm
        cases hm with
        | cons hab htl => exact ⟨_, FlagsRel.cons (fun _ => rfl) htl, by simpa [specStep] using hp⟩
      · intro hi
        obtain ⟨nm, as, s', ws, p0, m', wb, cr, rest', f1, f2, e1, e2, e3, e4, e5, e6, e7⟩ := h.opn hi
        -- an open start tag has its flag `true` on top: xmlSpacePreserve sets it to false; the pending tag is unaffected
        rw [hr] at e6; cases e6
        exact ⟨nm, as, s', ws, p0, m', false, r, rest', f1, f2, by simpa [specStep] using e1, e2, e3, e4, e5, rfl, e7⟩
  | pi s =>
    have hs' : (match w.closeIfOpen.1.flipIndent false with
        | .error e => .error e
        | .ok w2 => .ok (w2, w.closeIfOpen.2 ++ ['<', '?'] ++ encodeL s ++ ['?', '>'])) = Except.ok (w', chunk) := hs
    cases hf : w.closeIfOpen.1.flipIndent false with
    | error e => rw [hf] at hs'; cases hs'
    | ok w2 =>
      rw [hf] at hs'; cases hs'
      obtain ⟨t, d', hsp, hst, hrun⟩ := run_pi s hok
      have htk : s.takeWhile notBlank = t := by
        rcases hst with e | ⟨d, e⟩
        · rw [e]; exact (takeWhile_target t [] hsp).1
        · rw [e]; exact (takeWhile_target t d hsp).2
      have r''' : runM p (w.closeIfOpen.2 ++ (['<', '?'] ++ encodeL s ++ ['?', '>'])) = some p'' := by
        simpa [List.append_assoc] using r''
      obtain ⟨p', rp, ep⟩ := simE_text h hf (['<', '?'] ++ encodeL s ++ ['?', '>']) [.pi t d'] [.pi t []]
        (fun a stk rd evs => by simpa using hrun (a :: stk) rd evs)
        (fun b m s p hp => ⟨b, by simpa using PadRev.pi t [] d' hp⟩)
        (fun p' hp' => by rw [r'''] at hp'; cases hp'; exact i'')
      exact ⟨p', by simpa [List.append_assoc] using rp, by simpa [specStep, htk] using ep⟩
  | charsBr s => exact absurd hok (by simp [OpOk])

theorem simE_run (ops : List Op) : ∀ {w w' : WState} {p : PState} {st : SpecSt} {chunk : Str}, InvE w p st →
    runW w ops = .ok (w', chunk) → (∀ op ∈ ops, OpOk op) → shape w.elemStk.length p.rootDone ops = true →
    ∃ p', runM p chunk = some p' ∧ InvE w' p' (ops.foldl specStep st) := by
  induction ops with
  | nil =>
    intro w w' p st chunk h hr _ _
    simp only [runW] at hr
    cases hr
    exact ⟨p, rfl, h⟩
  | cons op r ih =>
    intro w w' p st chunk h hr hok hsh
    simp only [runW] at hr
    cases hst : stepW w op with
    | error e => rw [hst] at hr; cases hr
    | ok r1 =>
      obtain ⟨w1, c1⟩ := r1
      rw [hst] at hr
      simp only at hr
      cases hrr : runW w1 r with
      | error e => rw [hrr] at hr; cases hr
      | ok r2 =>
        obtain ⟨w2, c2⟩ := r2
        rw [hrr] at hr
        simp only at hr
        cases hr
        have hroot : ∀ n as, op = .start n as → w.elemStk = [] → p.rootDone = false := by
          intro n as e he
          subst e
          simp [shape, he] at hsh
          exact hsh.1
        obtain ⟨p1, r1, i1, rd1, l1, pos1⟩ := sim_step h.inv hst (hok op (by simp)) hroot
        obtain ⟨p1', r1', e1⟩ := simE_step h hst (hok op (by simp)) hroot
        have hpe : p1' = p1 := by rw [r1] at r1'; exact (Option.some.inj r1').symm
        subst hpe
        have hsh1 : shape w1.elemStk.length p1'.rootDone r = true := by
          cases op with
          | start n as => simp [shape] at hsh; simp only at l1 rd1; rw [l1, rd1]; simpa using hsh.2
          | stop n =>
            simp only [shape] at hsh; simp only at l1 rd1
            have hp := pos1 n rfl
            rw [l1, rd1]
            have : w1.elemStk.isEmpty = (w.elemStk.length == 1) := by
              cases hw1 : w1.elemStk with
              | nil => simp [hw1] at l1; simp; omega
              | cons a b => simp [hw1] at l1; simp; omega
            rw [this]; exact hsh
          | chars s => simp only [shape] at hsh; simp only at l1 rd1; rw [l1, rd1]; simpa using hsh
          | literal s => simp only [shape] at hsh; simp only at l1 rd1; rw [l1, rd1]; simpa using hsh
          | comment s => simp only [shape] at hsh; simp only at l1 rd1; rw [l1, rd1]; simpa using hsh
          | pi s => simp only [shape] at hsh; simp only at l1 rd1; rw [l1, rd1]; simpa using hsh
          | spacePreserve => simp only [shape] at hsh; simp only at l1 rd1; rw [l1, rd1]; simpa using hsh
          | charsBr s => simp only [shape] at hsh; simp only at l1 rd1; rw [l1, rd1]; simpa using hsh
        obtain ⟨p2, r2, e2⟩ := ih e1 hrr (fun o ho => hok o (by simp [ho])) hsh1
        exact ⟨p2, by rw [runM_append_of r1]; exact r2, by simpa using e2⟩

theorem simE_closeAll (fuel : Nat) : ∀ (w : WState) (p : PState) (st : SpecSt), InvE w p st → w.elemStk.length ≤ fuel →
    ∃ p', runM p (closeAll fuel w) = some p' ∧ PadRev [] (specClose st.stk st.rev) p'.evs := by
  have base : ∀ (w : WState) (p : PState) (st : SpecSt), InvE w p st → w.elemStk = [] →
      ∃ p', runM p ['\n'] = some p' ∧ PadRev [] (specClose st.stk st.rev) p'.evs := by
    intro w p st h he
    have hi : w.inElem = false := by
      cases hie : w.inElem with
      | false => rfl
      | true =>
        obtain ⟨_, _, _, e, _⟩ := h.inv.opn hie
        rw [he] at e; cases e
    obtain ⟨mo, s⟩ := h.inv.cls hi
    obtain ⟨m, hm, hp⟩ := h.cls hi
    have hl := h.inv.len
    rw [he] at hl
    have hc : w.canIndentStk = [] := List.length_eq_zero_iff.1 hl
    rw [hc] at hm
    cases hm
    obtain ⟨mode, stk, rd, evs⟩ := p
    simp only at mo s hp; subst mo; rw [he] at s; subst s
    refine ⟨⟨.content, [], rd, evs⟩, rfl, ?_⟩
    rw [h.stk, he]; exact hp
  induction fuel with
  | zero =>
    intro w p st h hl
    have he : w.elemStk = [] := List.length_eq_zero_iff.1 (by omega)
    simp only [closeAll]
    exact base w p st h he
  | succ fuel ih =>
    intro w p st h hl
    simp only [closeAll]
    cases hstk : w.elemStk with
    | nil => simp only; exact base w p st h hstk
    | cons top rest =>
      simp only
      obtain ⟨⟨w1, c1⟩, he⟩ := endElement_top_ok hstk
      rw [he]
      simp only
      obtain ⟨_, _, _, _, l1⟩ := sim_stop h.inv he
      obtain ⟨p1, r1, e1⟩ := simE_stop h he
      obtain ⟨p2, r2, hp2⟩ := ih w1 p1 _ e1 (by omega)
      refine ⟨p2, by rw [runM_append_of r1]; exact r2, ?_⟩
      have : st.stk = top :: rest := by rw [h.stk, hstk]
      rw [this]
      simpa [specStep, specClose, this] using hp2

theorem invE_init : InvE {} {} {} :=
  ⟨inv_init, rfl, fun _ => ⟨[], FlagsRel.nil, PadRev.nil⟩, fun h => by simp at h⟩

theorem stream_decodes_aux (ops : List Op) (doc : Str)
    (hdoc : document .xml "utf-8".toList ops = .ok doc)
    (hok : ∀ op ∈ ops, OpOk op) (hshape : shape 0 false ops = true) :
    ∃ evs, parse doc = some evs ∧ PadRev [] (specEvents ops).reverse evs.reverse := by
  simp only [document, enter] at hdoc
  cases hr : runW {} ops with
  | error e => rw [hr] at hdoc; cases hdoc
  | ok r =>
    obtain ⟨w1, c1⟩ := r
    rw [hr] at hdoc
    simp only at hdoc
    cases hdoc
    obtain ⟨p1, r1, i1, fin⟩ := sim_run ops inv_init hr hok hshape
    obtain ⟨p2, r2, acc⟩ := sim_closeAll w1.elemStk.length w1 p1 i1 (Nat.le_refl _) fin
    obtain ⟨p1', r1', e1⟩ := simE_run ops invE_init hr hok hshape
    have hpe : p1' = p1 := by rw [r1] at r1'; exact (Option.some.inj r1').symm
    subst hpe
    obtain ⟨p2', r2', hp2⟩ := simE_closeAll w1.elemStk.length w1 p1' _ e1 (Nat.le_refl _)
    have hpe2 : p2' = p2 := by rw [r2] at r2'; exact (Option.some.inj r2').symm
    subst hpe2
    refine ⟨p2'.evs.reverse, ?_, ?_⟩
    · unfold parse
      rw [List.append_assoc, stripDecl_header]
      simp only
      rw [runM_append_of r1]
      unfold exitChunk
      rw [r2]
      simp [acc]
    · simpa [specEvents] using hp2

end TD.C18
