import TD.C12.Lemmas

/-!
# C12 — batch conversion isolates bad files and is independent of job scheduling

The theorems are about the abstract batch of `Model.lean`: `conv` is an arbitrary *total* function (hypothesis
"nothing escapes `single_*_to_las`" — a Lean function cannot raise), a schedule is any interleaving of the tasks'
event sequences on `k` workers.  What the theorems do **not** cover — OS process scheduling, pool start-up,
pickling of arguments/results, the two hypotheses themselves for the real converters — is exercised by the plugin
(`harness/props/c12.py`); the property is therefore "partial" at proof level.
-/
namespace TD.C12

section Batch
set_option linter.unusedSectionVars false
variable {P B R O T : Type} [DecidableEq P] [DecidableEq O]
variable (conv : P × B → R × List (O × T))

/-- **Schedule independence.**  If no two tasks write the same output path (and the input paths are distinct), then
every valid schedule on any number `k` of workers leaves the same results dict and the same output tree as the
sequential loop. -/
theorem schedule_independent (tasks : List (P × B)) (hd : OutputsDisjoint conv tasks) (hp : PathsDistinct tasks)
    (k : Nat) (σ : List Ev) (hv : validSched k (nOutsOf conv tasks) σ = true) :
    StateEquiv (runSched conv σ tasks) (sequential conv tasks) := by
  constructor
  · intro p
    by_cases h : p ∈ tasks.map Prod.fst
    · obtain ⟨t, ht, rfl⟩ := List.mem_map.mp h
      obtain ⟨i, hi, rfl⟩ := List.mem_iff_getElem.mp ht
      rw [results_get conv tasks hv hp i hi, seq_results_get conv tasks hp _ (List.getElem_mem hi)]
    · rw [results_get_none conv tasks σ p h, seq_results_get_none conv tasks p h]
  · intro o
    by_cases h : ∃ t ∈ tasks, o ∈ akeys (conv t).2
    · obtain ⟨t, ht, ho⟩ := h
      obtain ⟨i, hi, rfl⟩ := List.mem_iff_getElem.mp ht
      rw [tree_get_owner conv tasks hv hd i hi o ho, seq_tree_get_owner conv tasks hd _ (List.getElem_mem hi) o ho]
    · have hno : ∀ t ∈ tasks, o ∉ akeys (conv t).2 := fun t ht ho => h ⟨t, ht, ho⟩
      rw [tree_get_none conv tasks σ o hno, seq_tree_get_none conv tasks o hno]

/-- any two valid schedules, on any numbers of workers, agree -/
theorem schedules_agree (tasks : List (P × B)) (hd : OutputsDisjoint conv tasks) (hp : PathsDistinct tasks)
    (k k' : Nat) (σ σ' : List Ev) (hv : validSched k (nOutsOf conv tasks) σ = true)
    (hv' : validSched k' (nOutsOf conv tasks) σ' = true) :
    StateEquiv (runSched conv σ tasks) (runSched conv σ' tasks) := by
  have h1 := schedule_independent conv tasks hd hp k σ hv
  have h2 := schedule_independent conv tasks hd hp k' σ' hv'
  exact ⟨fun p => (h1.1 p).trans (h2.1 p).symm, fun o => (h1.2 o).trans (h2.2 o).symm⟩

/-- The sequential loop walks the directory alphabetically, the pool is fed in size order: the order of the tasks
does not matter either. -/
theorem order_independent (tasks tasks' : List (P × B)) (hperm : tasks.Perm tasks')
    (hd : OutputsDisjoint conv tasks) (hp : PathsDistinct tasks) :
    StateEquiv (sequential conv tasks) (sequential conv tasks') := by
  have hd' : OutputsDisjoint conv tasks' :=
    (hperm.pairwise_iff (R := fun a b => ∀ o, o ∈ akeys (conv a).2 → o ∉ akeys (conv b).2)
      (fun {x y} h o hy hx => h o hx hy)).mp hd
  have hp' : PathsDistinct tasks' := (hperm.map Prod.fst).nodup_iff.mp hp
  constructor
  · intro p
    by_cases h : p ∈ tasks.map Prod.fst
    · obtain ⟨t, ht, rfl⟩ := List.mem_map.mp h
      rw [seq_results_get conv tasks hp t ht, seq_results_get conv tasks' hp' t (hperm.mem_iff.mp ht)]
    · have h' : p ∉ tasks'.map Prod.fst := fun hm => h ((hperm.map Prod.fst).mem_iff.mpr hm)
      rw [seq_results_get_none conv tasks p h, seq_results_get_none conv tasks' p h']
  · intro o
    by_cases h : ∃ t ∈ tasks, o ∈ akeys (conv t).2
    · obtain ⟨t, ht, ho⟩ := h
      rw [seq_tree_get_owner conv tasks hd t ht o ho, seq_tree_get_owner conv tasks' hd' t (hperm.mem_iff.mp ht) o ho]
    · have hno : ∀ t ∈ tasks, o ∉ akeys (conv t).2 := fun t ht ho => h ⟨t, ht, ho⟩
      have hno' : ∀ t ∈ tasks', o ∉ akeys (conv t).2 := fun t ht => hno t (hperm.mem_iff.mpr ht)
      rw [seq_tree_get_none conv tasks o hno, seq_tree_get_none conv tasks' o hno']

/-- **One result per input file**: the keys of the results dict are exactly the input paths, each once. -/
theorem one_result_per_file (tasks : List (P × B)) (hp : PathsDistinct tasks)
    (k : Nat) (σ : List Ev) (hv : validSched k (nOutsOf conv tasks) σ = true) :
    (akeys (runSched conv σ tasks).results).Perm (tasks.map Prod.fst) := by
  have hn : (akeys (runSched conv σ tasks).results).Nodup := by
    rw [runSched_results]; exact nodup_akeys_asetAll [] _ (by simp [akeys])
  apply (List.perm_ext_iff_of_nodup hn hp).mpr
  intro p
  rw [mem_akeys_iff]
  constructor
  · intro h
    by_cases hm : p ∈ tasks.map Prod.fst
    · exact hm
    · rw [results_get_none conv tasks σ p hm] at h; simp at h
  · intro hm
    obtain ⟨t, ht, rfl⟩ := List.mem_map.mp hm
    obtain ⟨i, hi, rfl⟩ := List.mem_iff_getElem.mp ht
    rw [results_get conv tasks hv hp i hi]; rfl

/-- **Isolation** (for a total `conv`): as many results as files, and the result recorded for a file is
`(conv file).1` — a function of that file's path and bytes alone, whatever the other files are, wherever the file
stands in the order, whatever the schedule. -/
theorem isolation (tasks : List (P × B)) (hp : PathsDistinct tasks)
    (k : Nat) (σ : List Ev) (hv : validSched k (nOutsOf conv tasks) σ = true) :
    (runSched conv σ tasks).results.length = tasks.length ∧
    ∀ t ∈ tasks, aget (runSched conv σ tasks).results t.1 = some (conv t).1 := by
  constructor
  · have := (one_result_per_file conv tasks hp k σ hv).length_eq
    simpa [akeys] using this
  · intro t ht
    obtain ⟨i, hi, rfl⟩ := List.mem_iff_getElem.mp ht
    exact results_get conv tasks hv hp i hi

/-- the result of a file is the same in any two batches that contain it (other files replaced, damaged, added, removed) -/
theorem result_depends_only_on_file (tasks tasks' : List (P × B)) (hp : PathsDistinct tasks) (hp' : PathsDistinct tasks')
    (k k' : Nat) (σ σ' : List Ev) (hv : validSched k (nOutsOf conv tasks) σ = true)
    (hv' : validSched k' (nOutsOf conv tasks') σ' = true) (t : P × B) (ht : t ∈ tasks) (ht' : t ∈ tasks') :
    aget (runSched conv σ tasks).results t.1 = aget (runSched conv σ' tasks').results t.1 := by
  rw [(isolation conv tasks hp k σ hv).2 t ht, (isolation conv tasks' hp' k' σ' hv').2 t ht']

/-- **Sibling outputs are not altered**: every output path of a file holds, after the batch, exactly what converting
that file on its own into an empty directory puts there. -/
theorem outputs_as_alone (tasks : List (P × B)) (hd : OutputsDisjoint conv tasks)
    (k : Nat) (σ : List Ev) (hv : validSched k (nOutsOf conv tasks) σ = true)
    (t : P × B) (ht : t ∈ tasks) (o : O) (ho : o ∈ akeys (conv t).2) :
    aget (runSched conv σ tasks).tree o = aget (alone conv t).tree o := by
  obtain ⟨i, hi, rfl⟩ := List.mem_iff_getElem.mp ht
  rw [tree_get_owner conv tasks hv hd i hi o ho]
  unfold alone
  rw [seq_tree_get_owner conv [tasks[i]] (by simp [OutputsDisjoint]) tasks[i] (by simp) o ho]

/-- **Outputs depend only on the file itself** (its full path and bytes): in any two batches that contain the file —
other files added, removed, damaged, same-named files in other sub-directories, other order, other worker count,
other schedule — every output path of the file ends up with the same content. -/
theorem outputs_depend_only_on_file (tasks tasks' : List (P × B))
    (hd : OutputsDisjoint conv tasks) (hd' : OutputsDisjoint conv tasks')
    (k k' : Nat) (σ σ' : List Ev) (hv : validSched k (nOutsOf conv tasks) σ = true)
    (hv' : validSched k' (nOutsOf conv tasks') σ' = true) (t : P × B) (ht : t ∈ tasks) (ht' : t ∈ tasks')
    (o : O) (ho : o ∈ akeys (conv t).2) :
    aget (runSched conv σ tasks).tree o = aget (runSched conv σ' tasks').tree o := by
  rw [outputs_as_alone conv tasks hd k σ hv t ht o ho, outputs_as_alone conv tasks' hd' k' σ' hv' t ht' o ho]

/-- **Options are not state.**  If no file conversion changes the options it is given (`(step o t).2 = o`), the loop that
threads the options through the files is exactly the batch of the per-file function with the SAME options for every
file — so all the theorems above apply with `conv := fun t => (step opt t).1`, and the caller's options come back unchanged. -/
theorem options_not_threaded {Opt : Type} (step : Opt → P × B → (R × List (O × T)) × Opt) (opt : Opt)
    (hpure : ∀ o t, (step o t).2 = o) (tasks : List (P × B)) :
    sequentialThreaded step opt tasks = (sequential (fun t => (step opt t).1) tasks, opt) := by
  unfold sequentialThreaded sequential
  generalize (State.init : State P R O T) = s0
  induction tasks generalizing s0 with
  | nil => rfl
  | cons t r ih =>
    simp only [List.foldl_cons]
    rw [hpure opt t]
    exact ih _

/-- ... and the batch creates nothing else: a path present in the tree is an output path of one of the files -/
theorem tree_only_outputs (tasks : List (P × B)) (σ : List Ev) (o : O)
    (h : o ∈ akeys (runSched conv σ tasks).tree) : ∃ t ∈ tasks, o ∈ akeys (conv t).2 := by
  refine Classical.byContradiction fun hne => ?_
  have hno : ∀ t ∈ tasks, o ∉ akeys (conv t).2 := fun t ht ho => hne ⟨t, ht, ho⟩
  have := (mem_akeys_iff _ o).mp h
  rw [tree_get_none conv tasks σ o hno] at this
  simp at this

/-- **Nothing missing, nothing extra**: the set of paths in the final tree is exactly the union of the output paths of the
files (each of which holds the stand-alone content by `outputs_as_alone`). -/
theorem tree_keys_exact (tasks : List (P × B)) (hd : OutputsDisjoint conv tasks)
    (k : Nat) (σ : List Ev) (hv : validSched k (nOutsOf conv tasks) σ = true) (o : O) :
    o ∈ akeys (runSched conv σ tasks).tree ↔ ∃ t ∈ tasks, o ∈ akeys (conv t).2 := by
  constructor
  · exact tree_only_outputs conv tasks σ o
  · rintro ⟨t, ht, ho⟩
    rw [mem_akeys_iff, outputs_as_alone conv tasks hd k σ hv t ht o ho]
    unfold alone
    rw [seq_tree_get_owner conv [t] (by simp [OutputsDisjoint]) t (by simp) o ho]
    unfold lastWrite
    exact (mem_akeys_iff _ o).mp (by simpa [akeys] using ho)

/-- Output-path disjointness follows from an injective naming rule: if every output path of a task is
`nm (key t) i` for a naming function that is injective in the key, and the keys of the tasks are distinct. -/
theorem outputsDisjoint_of_naming {κ ι : Type} (tasks : List (P × B)) (key : P × B → κ) (nm : κ → ι → O)
    (hinj : ∀ a b i j, nm a i = nm b j → a = b)
    (hkeys : (tasks.map key).Nodup)
    (hout : ∀ t ∈ tasks, ∀ o ∈ akeys (conv t).2, ∃ i, o = nm (key t) i) :
    OutputsDisjoint conv tasks := by
  have hpw : tasks.Pairwise (fun a b => key a ≠ key b) := List.pairwise_map.mp hkeys
  unfold OutputsDisjoint
  refine (List.Pairwise.and_mem.mp hpw).imp ?_
  intro a b ⟨ha, hb, hab⟩ o hoa hob
  obtain ⟨i, hi⟩ := hout a ha o hoa
  obtain ⟨j, hj⟩ := hout b hb o hob
  exact hab (hinj _ _ i j (hi.symm.trans hj))

end Batch

/-! ## hypotheses are satisfiable; the theorem is not vacuous; F14 -/

/-- a small concrete conversion: file `n` writes `n % 3` outputs `(10 n + j, n)` -/
def exConv : Nat × Nat → Nat × List (Nat × Nat) :=
  fun t => (t.2, (List.range (t.1 % 3)).map (fun j => (10 * t.1 + j, t.2)))

def exTasks : List (Nat × Nat) := [(1, 7), (2, 8), (3, 9), (5, 4)]

/-- an interleaved schedule of `exTasks` on 2 workers -/
def exSched : List Ev :=
  [.start 1, .start 0, .write 1 0, .write 0 0, .finish 0, .start 2, .write 1 1, .finish 2, .finish 1, .start 3,
   .write 3 0, .write 3 1, .finish 3]

example : validSched 2 (nOutsOf exConv exTasks) exSched = true := by decide
example : validSched 1 (nOutsOf exConv exTasks) exSched = false := by decide
example : validSched 1 (nOutsOf exConv exTasks) (seqSchedule (nOutsOf exConv exTasks)) = true := by decide
example : PathsDistinct exTasks := by decide
example : OutputsDisjoint exConv exTasks := by decide
example : (runSched exConv exSched exTasks).tree = [(20, 8), (10, 7), (21, 8), (50, 4), (51, 4)] := by decide
example : (sequential exConv exTasks).tree = [(10, 7), (20, 8), (21, 8), (50, 4), (51, 4)] := by decide

/-- **F14 at batch level**: when two tasks write the same output path the schedule decides what the file holds
(the hypothesis `OutputsDisjoint` of `schedule_independent` cannot be dropped). -/
def f14Conv : Nat × Nat → Nat × List (Nat × Nat) := fun t => (t.2, [(0, t.2)])

theorem f14_schedule_dependent :
    validSched 2 (nOutsOf f14Conv [(1, 1), (2, 2)]) [.start 0, .start 1, .write 0 0, .write 1 0, .finish 0, .finish 1] = true ∧
    validSched 2 (nOutsOf f14Conv [(1, 1), (2, 2)]) [.start 0, .start 1, .write 1 0, .write 0 0, .finish 0, .finish 1] = true ∧
    aget (runSched f14Conv [.start 0, .start 1, .write 0 0, .write 1 0, .finish 0, .finish 1] [(1, 1), (2, 2)]).tree 0 ≠
    aget (runSched f14Conv [.start 0, .start 1, .write 1 0, .write 0 0, .finish 0, .finish 1] [(1, 1), (2, 2)]).tree 0 := by
  decide

/-- the hypothesis of `options_not_threaded` cannot be dropped: a conversion that narrows the requested channel set in
place (options = list of requested channels, a file keeps only those it records and hands the narrowed list on) makes the
second file's result differ from its result under the original options. -/
def narrowStep : List Nat → Nat × List Nat → (List Nat × List (Nat × Nat)) × List Nat :=
  fun req t => ((req.filter (· ∈ t.2), []), req.filter (· ∈ t.2))

theorem options_threaded_counterexample :
    aget (sequentialThreaded narrowStep [1, 2] [(10, [1]), (20, [1, 2])]).1.results 20 = some [1] ∧
    aget (sequential (fun t => (narrowStep [1, 2] t).1) [(10, [1]), (20, [1, 2])]).results 20 = some [1, 2] := by
  decide

/-! ## output naming -/

/-- LIS: `f'{path_out}_{i}.las'` is injective in (path_out, i). -/
theorem lis_out_path_injective (p p' : Str) (i i' : Nat) (h : lisOut p i = lisOut p' i') : p = p' ∧ i = i' := by
  unfold lisOut at h
  have h1 : (p ++ '_' :: dec i) ++ dotLas = (p' ++ '_' :: dec i') ++ dotLas := by simpa using h
  have h2 := (List.append_left_inj dotLas).mp h1
  have h3 := split_at_last h2 (underscore_not_mem_dec i) (underscore_not_mem_dec i')
  exact ⟨h3.1, dec_inj h3.2⟩

/-- BIT: `f'{path_out}_{f:04d}.las'` is injective in (path_out, f). -/
theorem bit_out_path_injective (p p' : Str) (f f' : Nat) (h : bitOut p f = bitOut p' f') : p = p' ∧ f = f' := by
  unfold bitOut at h
  have h1 : (p ++ '_' :: pad4 f) ++ dotLas = (p' ++ '_' :: pad4 f') ++ dotLas := by simpa using h
  have h2 := (List.append_left_inj dotLas).mp h1
  have h3 := split_at_last h2 (underscore_not_mem_pad4 f) (underscore_not_mem_pad4 f')
  exact ⟨h3.1, pad4_inj h3.2⟩

/-- RP66V1, one input file: `las_file_name` is injective in (logical file index, frame array ident). -/
theorem rp_out_path_injective_same_file (p : Str) (lf lf' : Nat) (id id' : List Nat) (x : Str)
    (h : lasFileName p lf id = .ok x) (h' : lasFileName p lf' id' = .ok x) : lf = lf' ∧ id = id' := by
  unfold lasFileName at h h'
  cases hd : asciiDecode id with
  | error e => simp [hd] at h
  | ok s =>
    cases hd' : asciiDecode id' with
    | error e => simp [hd'] at h'
    | ok s' =>
      simp only [hd, hd', Except.ok.injEq] at h h'
      have hj := join_inj (rpName_head _ lf s (slash_not_mem_stem p)) (rpName_head _ lf' s' (slash_not_mem_stem p))
        (h.trans h'.symm)
      have := rpName_inj_same_stem hj
      refine ⟨this.1, ?_⟩
      rw [← this.2] at hd'
      exact asciiDecode_inj hd hd'

/-- the explicit no-collision hypothesis for two RP66V1 inputs in one directory: their stems (name minus extension)
differ and neither stem followed by '_' is a prefix of the other. -/
def NoStemCollision (s s' : Str) : Prop := s ≠ s' ∧ ¬ (s ++ ['_']) <+: s' ∧ ¬ (s' ++ ['_']) <+: s

instance (s s' : Str) : Decidable (NoStemCollision s s') := by
  unfold NoStemCollision; exact inferInstance

/-- RP66V1, two input files of one directory: under `NoStemCollision` they never produce the same output path. -/
theorem rp_out_path_injective (p p' : Str) (lf lf' : Nat) (id id' : List Nat) (x x' : Str)
    (hdir : dirname p = dirname p')
    (hns : NoStemCollision (stemOfName (basename p)) (stemOfName (basename p')))
    (h : lasFileName p lf id = .ok x) (h' : lasFileName p' lf' id' = .ok x') : x ≠ x' := by
  unfold lasFileName at h h'
  cases hd : asciiDecode id with
  | error e => simp [hd] at h
  | ok s =>
    cases hd' : asciiDecode id' with
    | error e => simp [hd'] at h'
    | ok s' =>
      simp only [hd, hd', Except.ok.injEq] at h h'
      intro hx
      rw [← h, ← h', hdir] at hx
      have hj := join_inj (rpName_head _ lf s (slash_not_mem_stem p)) (rpName_head _ lf' s' (slash_not_mem_stem p')) hx
      rcases rpName_stem_prefix hj with e | e | e
      · exact hns.1 e
      · exact hns.2.1 e
      · exact hns.2.2 e

example : NoStemCollision (stemOfName (basename "out/a.dlis".toList)) (stemOfName (basename "out/b.DLIS".toList)) := by
  decide

/-- **F14**: two RP66V1 inputs of one directory whose names differ only in the extension (`b.dlis`, `b.DLIS`) are
given the same output path — the hypothesis of `rp_out_path_injective` fails and so does `OutputsDisjoint`. -/
theorem f14_same_output_path :
    lasFileName "out/b.dlis".toList 0 [53, 48] = lasFileName "out/b.DLIS".toList 0 [53, 48] ∧
    lasFileName "out/b.dlis".toList 0 [53, 48] = .ok "out/b_0_50.las".toList ∧
    ¬ NoStemCollision (stemOfName (basename "out/b.dlis".toList)) (stemOfName (basename "out/b.DLIS".toList)) := by
  decide +kernel

/-- the second way `NoStemCollision` can fail: stems `a` and `a_0` collide when a frame array ident looks like
`<digits>_<rest>` (logical file 0 / frame `1_X` of `a` and logical file 1 / frame `X` of `a_0`). -/
theorem rp_stem_underscore_collision :
    lasFileName "out/a.dlis".toList 0 [49, 95, 88] = lasFileName "out/a_0.dlis".toList 1 [88] := by
  decide +kernel

/-- the LIS and BIT rules keep the input extension, so the F14 pair is kept apart -/
example : lisOut "out/b.lis".toList 0 ≠ lisOut "out/b.LIS".toList 0 := by decide
example : bitOut "out/b.bit".toList 0 = "out/b.bit_0000.las".toList := by decide

/-- same-named files in different sub-directories are different tasks with different output directories -/
example : walkPath "in".toList "out".toList ["RUN_1".toList, "MAIN.dlis".toList]
    = ("in/RUN_1/MAIN.dlis".toList, "out/RUN_1/MAIN.dlis".toList) := by decide +kernel
example : (walkPath "in".toList "out".toList ["RUN_1".toList, "MAIN.dlis".toList]).2
    ≠ (walkPath "in".toList "out".toList ["RUN_2".toList, "MAIN.dlis".toList]).2 := by decide +kernel

end TD.C12
