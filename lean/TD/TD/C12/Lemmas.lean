import TD.C12.Model

/-! Helper lemmas for C12: association lists, the write-sequence view of a schedule, string splitting. -/
namespace TD.C12

section AList
variable {κ ν : Type} [DecidableEq κ]

theorem aget_append (a b : List (κ × ν)) (k : κ) : aget (a ++ b) k = (aget a k).or (aget b k) := by
  induction a with
  | nil => simp [aget]
  | cons x r ih =>
    obtain ⟨k', v⟩ := x
    by_cases h : k' = k <;> simp [aget, h, ih]

theorem aget_aset (m : List (κ × ν)) (k k' : κ) (v : ν) :
    aget (aset m k v) k' = if k = k' then some v else aget m k' := by
  induction m with
  | nil => simp [aget, aset]
  | cons x r ih =>
    obtain ⟨k0, v0⟩ := x
    by_cases h : k0 = k
    · subst h
      by_cases h2 : k0 = k' <;> simp [aget, aset, h2]
    · by_cases h2 : k0 = k'
      · subst h2
        simp [aget, aset, h, Ne.symm h]
      · simp [aget, aset, h, h2, ih]

theorem akeys_aset (m : List (κ × ν)) (k : κ) (v : ν) :
    akeys (aset m k v) = if k ∈ akeys m then akeys m else akeys m ++ [k] := by
  induction m with
  | nil => simp [akeys, aset]
  | cons x r ih =>
    obtain ⟨k0, v0⟩ := x
    by_cases h : k0 = k
    · subst h; simp [akeys, aset]
    · have ih' := ih
      simp only [akeys] at ih'
      by_cases h2 : k ∈ r.map Prod.fst
      · simp [akeys, aset, h, Ne.symm h, h2, ih']
      · simp [akeys, aset, h, Ne.symm h, h2, ih']

theorem nodup_akeys_aset (m : List (κ × ν)) (k : κ) (v : ν) (h : (akeys m).Nodup) :
    (akeys (aset m k v)).Nodup := by
  rw [akeys_aset]
  split
  · exact h
  · rename_i hk
    exact List.nodup_append.mpr ⟨h, by simp, by
      intro a ha b hb
      simp at hb; subst hb
      intro hab; subst hab; exact hk ha⟩

theorem aget_eq_none_of_not_mem (m : List (κ × ν)) (k : κ) (h : k ∉ akeys m) : aget m k = none := by
  induction m with
  | nil => simp [aget]
  | cons x r ih =>
    obtain ⟨k0, v0⟩ := x
    simp only [akeys, List.map_cons, List.mem_cons, not_or] at h
    have h1 : ¬ k0 = k := fun e => h.1 e.symm
    simp only [aget, h1, if_false]
    exact ih h.2

theorem aget_isSome_of_mem (m : List (κ × ν)) (k : κ) (h : k ∈ akeys m) : (aget m k).isSome := by
  induction m with
  | nil => simp [akeys] at h
  | cons x r ih =>
    obtain ⟨k0, v0⟩ := x
    by_cases h1 : k0 = k
    · simp [aget, h1]
    · simp only [akeys, List.map_cons, List.mem_cons] at h
      rcases h with h | h
      · exact absurd h.symm h1
      · simp only [aget, h1, if_false]; exact ih h

theorem mem_akeys_iff (m : List (κ × ν)) (k : κ) : k ∈ akeys m ↔ (aget m k).isSome := by
  constructor
  · exact aget_isSome_of_mem m k
  · intro h
    by_cases hk : k ∈ akeys m
    · exact hk
    · rw [aget_eq_none_of_not_mem m k hk] at h; simp at h

/-- `aget` only looks at the entries with the key asked for -/
theorem aget_filter (l : List (κ × ν)) (k : κ) (p : κ × ν → Bool) (h : ∀ x ∈ l, x.1 = k → p x = true) :
    aget (l.filter p) k = aget l k := by
  induction l with
  | nil => simp [aget]
  | cons x r ih =>
    have ihr := ih (fun y hy => h y (List.mem_cons_of_mem _ hy))
    obtain ⟨k0, v0⟩ := x
    by_cases hk : k0 = k
    · subst hk
      have := h (k0, v0) (List.mem_cons_self) rfl
      simp [this, aget]
    · by_cases hp : p (k0, v0) = true
      · simp [hp, aget, hk, ihr]
      · simp [hp, aget, hk, ihr]

/-- if every entry for `k` carries `v` and there is one, the lookup gives `v` -/
theorem aget_eq_some_of_forall (l : List (κ × ν)) (k : κ) (v : ν)
    (hall : ∀ x ∈ l, x.1 = k → x.2 = v) (hex : ∃ x ∈ l, x.1 = k) : aget l k = some v := by
  induction l with
  | nil => obtain ⟨x, hx, _⟩ := hex; simp at hx
  | cons x r ih =>
    obtain ⟨k0, v0⟩ := x
    by_cases hk : k0 = k
    · have := hall (k0, v0) List.mem_cons_self hk
      simp at this
      simp [aget, hk, this]
    · simp only [aget, hk, if_false]
      apply ih (fun y hy => hall y (List.mem_cons_of_mem _ hy))
      obtain ⟨y, hy, hyk⟩ := hex
      rcases List.mem_cons.mp hy with e | hy'
      · subst e; exact absurd hyk hk
      · exact ⟨y, hy', hyk⟩

theorem aget_asetAll (ws m : List (κ × ν)) (k : κ) :
    aget (asetAll m ws) k = (lastWrite ws k).or (aget m k) := by
  induction ws generalizing m with
  | nil => simp [asetAll, lastWrite, aget]
  | cons w r ih =>
    have : asetAll m (w :: r) = asetAll (aset m w.1 w.2) r := rfl
    rw [this, ih]
    simp only [lastWrite, List.reverse_cons, aget_append, aget_aset]
    obtain ⟨k0, v0⟩ := w
    by_cases hk : k0 = k
    · simp [aget, hk]
    · simp [aget, hk]

theorem asetAll_append (m a b : List (κ × ν)) : asetAll m (a ++ b) = asetAll (asetAll m a) b := by
  simp [asetAll, List.foldl_append]

/-- the last write to `k` is determined by the sub-sequence of writes to `k` -/
theorem lastWrite_congr (a b : List (κ × ν)) (k : κ)
    (h : a.filter (fun x => decide (x.1 = k)) = b.filter (fun x => decide (x.1 = k))) :
    lastWrite a k = lastWrite b k := by
  unfold lastWrite
  rw [← aget_filter a.reverse k (fun x => decide (x.1 = k)) (by intro x _ hx; simp [hx]),
      ← aget_filter b.reverse k (fun x => decide (x.1 = k)) (by intro x _ hx; simp [hx])]
  rw [List.filter_reverse, List.filter_reverse, h]

theorem lastWrite_eq_none (a : List (κ × ν)) (k : κ) (h : k ∉ akeys a) : lastWrite a k = none := by
  unfold lastWrite
  apply aget_eq_none_of_not_mem
  simpa [akeys] using h

theorem nodup_akeys_asetAll (m ws : List (κ × ν)) (h : (akeys m).Nodup) : (akeys (asetAll m ws)).Nodup := by
  induction ws generalizing m with
  | nil => exact h
  | cons w r ih => exact ih _ (nodup_akeys_aset m w.1 w.2 h)

end AList

/-! ### generic list facts -/

theorem filter_filterMap_restrict {α β : Type} (l : List α) (f : α → Option β) (p : β → Bool) (q : α → Bool)
    (h : ∀ a ∈ l, ∀ b, f a = some b → p b = true → q a = true) :
    (l.filterMap f).filter p = ((l.filter q).filterMap f).filter p := by
  induction l with
  | nil => rfl
  | cons a r ih =>
    have ihr := ih (fun a' ha' => h a' (List.mem_cons_of_mem _ ha'))
    by_cases hq : q a = true
    · cases hf : f a with
      | none => simp [hf, hq, ihr]
      | some b => simp [List.filter_cons, hf, hq, ihr]
    · cases hf : f a with
      | none => simp [hf, hq, ihr]
      | some b =>
        have hp : ¬ p b = true := fun hp => hq (h a List.mem_cons_self b hf hp)
        simp [hf, hq, hp, ihr]

theorem map_getElem?_range {α : Type} (l : List α) :
    (List.range l.length).map (fun j => l[j]?) = l.map some := by
  apply List.ext_getElem
  · simp
  · intro i h1 h2
    simp at h1
    simp [h1]

theorem filterMap_getElem?_range {α : Type} (l : List α) :
    (List.range l.length).filterMap (fun j => l[j]?) = l := by
  have h : (List.range l.length).filterMap (fun j => l[j]?)
      = ((List.range l.length).map (fun j => l[j]?)).filterMap id := by
    rw [List.filterMap_map]; rfl
  rw [h, map_getElem?_range, List.filterMap_map]
  simp

end TD.C12

namespace TD.C12

/-! ### the batch as a sequence of writes -/
section Batch
variable {P B R O T : Type} [DecidableEq P] [DecidableEq O]
variable (conv : P × B → R × List (O × T)) (tasks : List (P × B))

theorem foldl_stepEv (σ : List Ev) (s : State P R O T) :
    (σ.foldl (stepEv conv tasks) s).tree = asetAll s.tree (σ.filterMap (evWrite conv tasks)) ∧
    (σ.foldl (stepEv conv tasks) s).results = asetAll s.results (σ.filterMap (evResult conv tasks)) := by
  induction σ generalizing s with
  | nil => simp [asetAll]
  | cons e r ih =>
    rw [List.foldl_cons]
    obtain ⟨h1, h2⟩ := ih (stepEv conv tasks s e)
    rw [h1, h2]
    cases hw : evWrite conv tasks e <;> cases hr : evResult conv tasks e <;>
      simp [stepEv, hw, hr, asetAll]

theorem runSched_tree (σ : List Ev) :
    (runSched conv σ tasks).tree = asetAll [] (σ.filterMap (evWrite conv tasks)) :=
  (foldl_stepEv conv tasks σ State.init).1

theorem runSched_results (σ : List Ev) :
    (runSched conv σ tasks).results = asetAll [] (σ.filterMap (evResult conv tasks)) :=
  (foldl_stepEv conv tasks σ State.init).2

theorem foldl_sequential (s : State P R O T) :
    (tasks.foldl (fun s t => (⟨aset s.results t.1 (conv t).1, asetAll s.tree (conv t).2⟩ : State P R O T)) s).tree
      = asetAll s.tree (tasks.flatMap (fun t => (conv t).2)) ∧
    (tasks.foldl (fun s t => (⟨aset s.results t.1 (conv t).1, asetAll s.tree (conv t).2⟩ : State P R O T)) s).results
      = asetAll s.results (tasks.map (fun t => (t.1, (conv t).1))) := by
  induction tasks generalizing s with
  | nil => simp [asetAll]
  | cons t r ih =>
    rw [List.foldl_cons]
    obtain ⟨h1, h2⟩ := ih ⟨aset s.results t.1 (conv t).1, asetAll s.tree (conv t).2⟩
    rw [h1, h2]
    simp [List.flatMap_cons, asetAll]

theorem sequential_tree :
    (sequential conv tasks).tree = asetAll [] (tasks.flatMap (fun t => (conv t).2)) :=
  (foldl_sequential conv tasks State.init).1

theorem sequential_results :
    (sequential conv tasks).results = asetAll [] (tasks.map (fun t => (t.1, (conv t).1))) :=
  (foldl_sequential conv tasks State.init).2

end Batch

/-! ### reading `validSched` -/

theorem valid_inRange {k : Nat} {nOuts : List Nat} {σ : List Ev} (h : validSched k nOuts σ = true) :
    ∀ e ∈ σ, e.task < nOuts.length := by
  simp only [validSched, Bool.and_eq_true, List.all_eq_true, decide_eq_true_eq] at h
  exact h.1.1

theorem valid_proj {k : Nat} {nOuts : List Nat} {σ : List Ev} (h : validSched k nOuts σ = true)
    (i : Nat) (hi : i < nOuts.length) :
    σ.filter (fun e => e.task == i) = taskEvents i (nOuts.getD i 0) := by
  simp only [validSched, Bool.and_eq_true, List.all_eq_true, decide_eq_true_eq] at h
  have := h.1.2 i (by simpa using hi)
  exact eq_of_beq this

theorem valid_workers {k : Nat} {nOuts : List Nat} {σ : List Ev} (h : validSched k nOuts σ = true) :
    workersOK k σ 0 = true := by
  simp only [validSched, Bool.and_eq_true] at h
  exact h.2

section Batch
set_option linter.unusedSectionVars false
variable {P B R O T : Type} [DecidableEq P] [DecidableEq O]
variable (conv : P × B → R × List (O × T)) (tasks : List (P × B))

theorem nOutsOf_getD (i : Nat) (hi : i < tasks.length) :
    (nOutsOf conv tasks).getD i 0 = (conv tasks[i]).2.length := by
  simp [nOutsOf, List.getD, hi]

theorem writes_taskEvents (i : Nat) (hi : i < tasks.length) :
    (taskEvents i (conv tasks[i]).2.length).filterMap (evWrite conv tasks) = (conv tasks[i]).2 := by
  have h : ∀ j, evWrite conv tasks (Ev.write i j) = (conv tasks[i]).2[j]? := by
    intro j; simp [evWrite, hi]
  simp only [taskEvents, List.filterMap_cons, List.filterMap_append, List.filterMap_map, evWrite,
    List.filterMap_nil, List.append_nil]
  have : (List.range (conv tasks[i]).2.length).filterMap (evWrite conv tasks ∘ Ev.write i)
      = (List.range (conv tasks[i]).2.length).filterMap (fun j => (conv tasks[i]).2[j]?) := by
    have hf : (evWrite conv tasks ∘ Ev.write i) = (fun j => (conv tasks[i]).2[j]?) := funext h
    rw [hf]
  rw [this, filterMap_getElem?_range]

/-- an event that writes `b` belongs to a task that has `b` among its outputs -/
theorem evWrite_some {e : Ev} {b : O × T} (h : evWrite conv tasks e = some b) :
    ∃ (hi : e.task < tasks.length), b ∈ (conv tasks[e.task]).2 := by
  cases e with
  | start i => simp [evWrite] at h
  | finish i => simp [evWrite] at h
  | write i j =>
    simp only [evWrite] at h
    cases ht : tasks[i]? with
    | none => simp [ht] at h
    | some t =>
      obtain ⟨hi, hti⟩ := List.getElem?_eq_some_iff.mp ht
      simp only [ht, Option.bind_some] at h
      refine ⟨hi, ?_⟩
      simp only [Ev.task]
      rw [hti]
      exact List.mem_of_getElem? h

theorem evResult_some {e : Ev} {x : P × R} (h : evResult conv tasks e = some x) :
    ∃ (hi : e.task < tasks.length), e = Ev.finish e.task ∧ x = (tasks[e.task].1, (conv tasks[e.task]).1) := by
  cases e with
  | start i => simp [evResult] at h
  | write i j => simp [evResult] at h
  | finish i =>
    simp only [evResult] at h
    cases ht : tasks[i]? with
    | none => simp [ht] at h
    | some t =>
      obtain ⟨hi, hti⟩ := List.getElem?_eq_some_iff.mp ht
      simp only [ht, Option.map_some, Option.some.injEq] at h
      refine ⟨hi, rfl, ?_⟩
      simp only [Ev.task]
      rw [hti]; exact h.symm

theorem mem_akeys_of_mem {κ ν : Type} {l : List (κ × ν)} {b : κ × ν} (h : b ∈ l) : b.1 ∈ akeys l :=
  List.mem_map_of_mem h

theorem owner_unique (hd : OutputsDisjoint conv tasks) {i j : Nat} (hi : i < tasks.length) (hj : j < tasks.length)
    {o : O} (h1 : o ∈ akeys (conv tasks[i]).2) (h2 : o ∈ akeys (conv tasks[j]).2) : i = j := by
  have hp := List.pairwise_iff_getElem.mp hd
  rcases Nat.lt_trichotomy i j with h | h | h
  · exact absurd h2 (hp i j hi hj h o h1)
  · exact h
  · exact absurd h1 (hp j i hj hi h o h2)

/-- **key lemma**: under a valid schedule the writes to an output path owned by task `i` are exactly task `i`'s own
writes to it, in task `i`'s own order. -/
theorem writes_to_owned {k : Nat} {σ : List Ev} (hv : validSched k (nOutsOf conv tasks) σ = true)
    (hd : OutputsDisjoint conv tasks) (i : Nat) (hi : i < tasks.length) (o : O)
    (ho : o ∈ akeys (conv tasks[i]).2) :
    (σ.filterMap (evWrite conv tasks)).filter (fun x => decide (x.1 = o))
      = (conv tasks[i]).2.filter (fun x => decide (x.1 = o)) := by
  have hlen : (nOutsOf conv tasks).length = tasks.length := by simp [nOutsOf]
  rw [filter_filterMap_restrict σ (evWrite conv tasks) (fun x => decide (x.1 = o)) (fun e => e.task == i)]
  · rw [valid_proj hv i (by rw [hlen]; exact hi), nOutsOf_getD conv tasks i hi, writes_taskEvents conv tasks i hi]
  · intro e _ b hb hbo
    obtain ⟨hi', hmem⟩ := evWrite_some conv tasks hb
    have hbo' : b.1 = o := by simpa using hbo
    have : o ∈ akeys (conv tasks[e.task]).2 := hbo' ▸ mem_akeys_of_mem hmem
    have := owner_unique conv tasks hd hi' hi this ho
    simp [this]

theorem tree_get_owner {k : Nat} {σ : List Ev} (hv : validSched k (nOutsOf conv tasks) σ = true)
    (hd : OutputsDisjoint conv tasks) (i : Nat) (hi : i < tasks.length) (o : O)
    (ho : o ∈ akeys (conv tasks[i]).2) :
    aget (runSched conv σ tasks).tree o = lastWrite (conv tasks[i]).2 o := by
  rw [runSched_tree, aget_asetAll]
  simp only [aget, Option.or_none]
  exact lastWrite_congr _ _ o (writes_to_owned conv tasks hv hd i hi o ho)

theorem tree_get_none (σ : List Ev) (o : O) (hno : ∀ t ∈ tasks, o ∉ akeys (conv t).2) :
    aget (runSched conv σ tasks).tree o = none := by
  rw [runSched_tree, aget_asetAll]
  simp only [aget, Option.or_none]
  apply lastWrite_eq_none
  intro hmem
  obtain ⟨b, hb, hbo⟩ := List.mem_map.mp hmem
  obtain ⟨e, _, he⟩ := List.mem_filterMap.mp hb
  obtain ⟨hi', hm⟩ := evWrite_some conv tasks he
  exact hno tasks[e.task] (List.getElem_mem hi') (hbo ▸ mem_akeys_of_mem hm)

/-! sequential loop -/

theorem filter_flatMap_nil (r : List (P × B)) (o : O) (h : ∀ b ∈ r, o ∉ akeys (conv b).2) :
    (r.flatMap (fun t => (conv t).2)).filter (fun x => decide (x.1 = o)) = [] := by
  rw [List.filter_eq_nil_iff]
  intro x hx hxo
  obtain ⟨t, ht, hxt⟩ := List.mem_flatMap.mp hx
  have : x.1 = o := by simpa using hxo
  exact h t ht (this ▸ mem_akeys_of_mem hxt)

theorem filter_outs_nil (t : P × B) (o : O) (h : o ∉ akeys (conv t).2) :
    (conv t).2.filter (fun x => decide (x.1 = o)) = [] := by
  rw [List.filter_eq_nil_iff]
  intro x hx hxo
  have : x.1 = o := by simpa using hxo
  exact h (this ▸ mem_akeys_of_mem hx)

theorem seq_writes_to_owned (hd : OutputsDisjoint conv tasks) (t : P × B) (ht : t ∈ tasks) (o : O)
    (ho : o ∈ akeys (conv t).2) :
    (tasks.flatMap (fun t => (conv t).2)).filter (fun x => decide (x.1 = o))
      = (conv t).2.filter (fun x => decide (x.1 = o)) := by
  induction tasks with
  | nil => simp at ht
  | cons a r ih =>
    have hp := List.pairwise_cons.mp hd
    rw [List.flatMap_cons, List.filter_append]
    rcases List.mem_cons.mp ht with e | htr
    · subst e
      rw [filter_flatMap_nil conv r o (fun b hb => hp.1 b hb o ho), List.append_nil]
    · have hna : o ∉ akeys (conv a).2 := fun ha => hp.1 t htr o ha ho
      rw [filter_outs_nil conv a o hna, List.nil_append]
      exact ih hp.2 htr

theorem seq_tree_get_owner (hd : OutputsDisjoint conv tasks) (t : P × B) (ht : t ∈ tasks) (o : O)
    (ho : o ∈ akeys (conv t).2) :
    aget (sequential conv tasks).tree o = lastWrite (conv t).2 o := by
  rw [sequential_tree, aget_asetAll]
  simp only [aget, Option.or_none]
  exact lastWrite_congr _ _ o (seq_writes_to_owned conv tasks hd t ht o ho)

theorem seq_tree_get_none (o : O) (hno : ∀ t ∈ tasks, o ∉ akeys (conv t).2) :
    aget (sequential conv tasks).tree o = none := by
  rw [sequential_tree, aget_asetAll]
  simp only [aget, Option.or_none]
  apply lastWrite_eq_none
  intro hmem
  obtain ⟨b, hb, hbo⟩ := List.mem_map.mp hmem
  obtain ⟨t, ht, hbt⟩ := List.mem_flatMap.mp hb
  exact hno t ht (hbo ▸ mem_akeys_of_mem hbt)

/-! results -/

theorem path_index_unique (hp : PathsDistinct tasks) {i j : Nat} (hi : i < tasks.length) (hj : j < tasks.length)
    (h : tasks[i].1 = tasks[j].1) : i = j := by
  have hn : (tasks.map Prod.fst).Nodup := hp
  have hi' : i < (tasks.map Prod.fst).length := by simpa using hi
  have hj' : j < (tasks.map Prod.fst).length := by simpa using hj
  have : (tasks.map Prod.fst)[i] = (tasks.map Prod.fst)[j] := by simpa using h
  exact (List.getElem_inj (h₀ := hi') (h₁ := hj') hn).mp this

theorem results_get {k : Nat} {σ : List Ev} (hv : validSched k (nOutsOf conv tasks) σ = true)
    (hp : PathsDistinct tasks) (i : Nat) (hi : i < tasks.length) :
    aget (runSched conv σ tasks).results tasks[i].1 = some (conv tasks[i]).1 := by
  have hlen : (nOutsOf conv tasks).length = tasks.length := by simp [nOutsOf]
  rw [runSched_results, aget_asetAll]
  have : lastWrite (σ.filterMap (evResult conv tasks)) tasks[i].1 = some (conv tasks[i]).1 := by
    unfold lastWrite
    apply aget_eq_some_of_forall
    · intro x hx hxk
      obtain ⟨e, _, he⟩ := List.mem_filterMap.mp (List.mem_reverse.mp hx)
      obtain ⟨hi', _, hxe⟩ := evResult_some conv tasks he
      have hij : e.task = i := path_index_unique tasks hp hi' hi (by rw [hxe] at hxk; exact hxk)
      subst hij
      rw [hxe]
    · refine ⟨(tasks[i].1, (conv tasks[i]).1), ?_, rfl⟩
      apply List.mem_reverse.mpr
      apply List.mem_filterMap.mpr
      refine ⟨Ev.finish i, ?_, by simp [evResult, hi]⟩
      have hpj := valid_proj hv i (by rw [hlen]; exact hi)
      have : Ev.finish i ∈ taskEvents i ((nOutsOf conv tasks).getD i 0) := by simp [taskEvents]
      rw [← hpj] at this
      exact (List.mem_filter.mp this).1
  rw [this]; rfl

theorem results_get_none (σ : List Ev) (p : P) (hp : p ∉ tasks.map Prod.fst) :
    aget (runSched conv σ tasks).results p = none := by
  rw [runSched_results, aget_asetAll]
  simp only [aget, Option.or_none]
  apply lastWrite_eq_none
  intro hmem
  obtain ⟨x, hx, hxp⟩ := List.mem_map.mp hmem
  obtain ⟨e, _, he⟩ := List.mem_filterMap.mp hx
  obtain ⟨hi', _, hxe⟩ := evResult_some conv tasks he
  apply hp
  rw [← hxp, hxe]
  exact List.mem_map_of_mem (f := Prod.fst) (List.getElem_mem hi')

theorem seq_results_get (hp : PathsDistinct tasks) (t : P × B) (ht : t ∈ tasks) :
    aget (sequential conv tasks).results t.1 = some (conv t).1 := by
  rw [sequential_results, aget_asetAll]
  have : lastWrite (tasks.map (fun t => (t.1, (conv t).1))) t.1 = some (conv t).1 := by
    unfold lastWrite
    apply aget_eq_some_of_forall
    · intro x hx hxk
      obtain ⟨t', ht', hxt⟩ := List.mem_map.mp (List.mem_reverse.mp hx)
      obtain ⟨i, hi, hti⟩ := List.mem_iff_getElem.mp ht
      obtain ⟨j, hj, htj⟩ := List.mem_iff_getElem.mp ht'
      have hij : j = i := path_index_unique tasks hp hj hi (by rw [htj, hti, ← hxk, ← hxt])
      subst hij
      rw [← hxt, ← htj, hti]
    · exact ⟨(t.1, (conv t).1), List.mem_reverse.mpr (List.mem_map_of_mem (f := fun t => (t.1, (conv t).1)) ht), rfl⟩
  rw [this]; rfl

theorem seq_results_get_none (p : P) (hp : p ∉ tasks.map Prod.fst) :
    aget (sequential conv tasks).results p = none := by
  rw [sequential_results, aget_asetAll]
  simp only [aget, Option.or_none]
  apply lastWrite_eq_none
  intro hmem
  apply hp
  simpa [akeys, List.map_map] using hmem

end Batch
end TD.C12

namespace TD.C12

/-! ### strings: splitting at a separator, decimal numerals, posixpath facts -/

theorem split_at_first {α : Type} {c : α} {a a' b b' : List α} (h : a ++ c :: b = a' ++ c :: b')
    (ha : c ∉ a) (ha' : c ∉ a') : a = a' ∧ b = b' := by
  induction a generalizing a' with
  | nil =>
    cases a' with
    | nil => simpa using h
    | cons x r =>
      simp only [List.nil_append, List.cons_append, List.cons.injEq] at h
      exact absurd (h.1 ▸ List.mem_cons_self) ha'
  | cons y s ih =>
    cases a' with
    | nil =>
      simp only [List.nil_append, List.cons_append, List.cons.injEq] at h
      exact absurd (h.1 ▸ List.mem_cons_self) ha
    | cons x r =>
      simp only [List.cons_append, List.cons.injEq] at h
      have := ih h.2 (fun hm => ha (List.mem_cons_of_mem _ hm)) (fun hm => ha' (List.mem_cons_of_mem _ hm))
      exact ⟨by rw [h.1, this.1], this.2⟩

theorem split_at_last {α : Type} {c : α} {a a' b b' : List α} (h : a ++ c :: b = a' ++ c :: b')
    (hb : c ∉ b) (hb' : c ∉ b') : a = a' ∧ b = b' := by
  have h' := congrArg List.reverse h
  simp only [List.reverse_append, List.reverse_cons, List.append_assoc, List.singleton_append] at h'
  have := split_at_first h' (by simpa using hb) (by simpa using hb')
  exact ⟨List.reverse_inj.mp this.2, List.reverse_inj.mp this.1⟩

theorem dec_inj {n m : Nat} (h : dec n = dec m) : n = m := by
  have := congrArg (fun l => Nat.ofDigitChars 10 l 0) h
  simpa [dec] using this

theorem underscore_not_mem_dec (n : Nat) : '_' ∉ dec n := by
  simp [dec]

theorem pad4_inj {n m : Nat} (h : pad4 n = pad4 m) : n = m := by
  have := congrArg (fun l => Nat.ofDigitChars 10 l 0) h
  simpa [pad4, dec, Nat.ofDigitChars_append] using this

theorem underscore_not_mem_pad4 (n : Nat) : '_' ∉ pad4 n := by
  simp [pad4, dec, List.mem_replicate]

theorem underscore_not_mem_dotLas : '_' ∉ dotLas := by decide

theorem mem_takeWhile_sat {α : Type} {p : α → Bool} {l : List α} {x : α} (h : x ∈ l.takeWhile p) : p x = true := by
  induction l with
  | nil => simp at h
  | cons a r ih =>
    rw [List.takeWhile_cons] at h
    split at h
    · rcases List.mem_cons.mp h with e | h'
      · subst e; assumption
      · exact ih h'
    · simp at h

theorem slash_not_mem_basename (p : Str) : '/' ∉ basename p := by
  intro h
  have h' : '/' ∈ p.reverse.takeWhile (· != '/') := by simpa [basename] using h
  have := mem_takeWhile_sat h'
  simp at this

theorem mem_stemOfName {n : Str} {c : Char} (h : c ∈ stemOfName n) : c ∈ n := by
  unfold stemOfName at h
  split at h
  · simp only at h
    split at h
    · exact h
    · have h1 := List.mem_reverse.mp h
      have h2 := List.mem_of_mem_drop h1
      have h3 := (List.dropWhile_sublist _).mem h2
      exact List.mem_reverse.mp h3
  · exact h

theorem slash_not_mem_stem (p : Str) : '/' ∉ stemOfName (basename p) :=
  fun h => slash_not_mem_basename p (mem_stemOfName h)

/-- `join d` is injective on names that do not start with '/' -/
theorem join_inj {d a b : Str} (ha : a.head? ≠ some '/') (hb : b.head? ≠ some '/') (h : join d a = join d b) :
    a = b := by
  unfold join at h
  simp only [ha, hb, if_false] at h
  split at h
  · exact (List.append_right_inj d).mp h
  · have := (List.append_right_inj d).mp h
    simpa using this

theorem rpName_head (s : Str) (lf : Nat) (id : Str) (hs : '/' ∉ s) : (rpName s lf id).head? ≠ some '/' := by
  cases s with
  | nil => simp [rpName]
  | cons c r =>
    simp only [rpName, List.cons_append, List.head?_cons, ne_eq, Option.some.injEq]
    intro hc; exact hs (hc ▸ List.mem_cons_self)

theorem rpName_inj_same_stem {s : Str} {lf lf' : Nat} {id id' : Str}
    (h : rpName s lf id = rpName s lf' id') : lf = lf' ∧ id = id' := by
  unfold rpName at h
  have h1 := (List.append_right_inj s).mp h
  simp only [List.cons.injEq, true_and] at h1
  have h2 := split_at_first h1 (underscore_not_mem_dec lf) (underscore_not_mem_dec lf')
  exact ⟨dec_inj h2.1, (List.append_left_inj dotLas).mp h2.2⟩

theorem rpName_stem_prefix {s s' : Str} {lf lf' : Nat} {id id' : Str}
    (h : rpName s lf id = rpName s' lf' id') :
    s = s' ∨ (s ++ ['_']) <+: s' ∨ (s' ++ ['_']) <+: s := by
  unfold rpName at h
  rcases List.append_eq_append_iff.mp h with ⟨a, h1, h2⟩ | ⟨c, h1, h2⟩
  · cases a with
    | nil => left; simpa using h1.symm
    | cons x r =>
      right; left
      simp only [List.cons_append, List.cons.injEq] at h2
      rw [h1, ← h2.1]
      exact ⟨r, by simp⟩
  · cases c with
    | nil => left; simpa using h1
    | cons x r =>
      right; right
      simp only [List.cons_append, List.cons.injEq] at h2
      rw [h1, ← h2.1]
      exact ⟨r, by simp⟩

theorem ascii_roundtrip : ∀ a : Fin 128, (Char.ofNat a.val).toNat = a.val := by decide

theorem asciiDecode_inj {a b : List Nat} {s : Str} (ha : asciiDecode a = .ok s) (hb : asciiDecode b = .ok s) :
    a = b := by
  unfold asciiDecode at ha hb
  split at ha <;> try (simp at ha; done)
  split at hb <;> try (simp at hb; done)
  rename_i h1 h2
  simp only [Except.ok.injEq] at ha hb
  have hh : a.map Char.ofNat = b.map Char.ofNat := by rw [ha, hb]
  have hm := congrArg (List.map Char.toNat) hh
  simp only [List.map_map] at hm
  have fix : ∀ l : List Nat, l.all (· < 128) = true → l.map (Char.toNat ∘ Char.ofNat) = l := by
    intro l hl
    induction l with
    | nil => rfl
    | cons x r ih =>
      simp only [List.all_cons, Bool.and_eq_true, decide_eq_true_eq] at hl
      simp only [List.map_cons, Function.comp, ih hl.2]
      rw [ascii_roundtrip ⟨x, hl.1⟩]
  rw [fix a h1, fix b h2] at hm
  exact hm

end TD.C12
