/-
C12 — model of batch conversion to LAS
(`LAS/core/WriteLAS.py` convert_dir_or_file_to_las / convert_dir_or_file_to_las_multiprocessing,
 `util/DirWalk.py` dirWalk, the output naming of `RP66V1/ToLAS.py`, `LIS/ToLAS.py`, `BIT/ToLAS.py`).
Core Lean only (no Mathlib): the driver imports this file.

Two layers:

* **names** — the output paths are computed from the input *path* alone.  `posixpath` (`basename`, `dirname`,
  `splitext`, `join`) is transcribed on `List Char`; on top of it the three naming rules exactly as coded:
  RP66V1 `las_file_name` (drops the input extension: F14), LIS `f'{path_out}_{i}.las'`, BIT `f'{path_out}_{f:04d}.las'`,
  and `dirWalk`'s pairing/ordering of input and output paths.
* **batch** — a file conversion is an abstract *pure* function `conv : P × B → R × List (O × T)` (input path and
  bytes ↦ result tuple and the list of (output path, text) it writes, in writing order).  The batch state is the
  results dict and the output tree, both association lists with Python-`dict` update semantics.  A schedule is a
  list of events `start i / write i j / finish i`; `runSched` folds the events over the state; `validSched k` says the
  schedule is an interleaving of the tasks' own event sequences with at most `k` tasks in flight (k pool workers).
  `sequential` is the plain `for` loop of `convert_dir_or_file_to_las`.
-/
namespace TD.C12

abbrev Str := List Char

/-! ## association lists with Python `dict` update semantics (`d[k] = v` keeps the position of an existing key) -/
section AList
variable {κ ν : Type} [DecidableEq κ]

def aget : List (κ × ν) → κ → Option ν
  | [], _ => none
  | (k', v) :: r, k => if k' = k then some v else aget r k

def aset : List (κ × ν) → κ → ν → List (κ × ν)
  | [], k, v => [(k, v)]
  | (k', v') :: r, k, v => if k' = k then (k', v) :: r else (k', v') :: aset r k v

def akeys (m : List (κ × ν)) : List κ := m.map Prod.fst

/-- apply a sequence of writes -/
def asetAll (m : List (κ × ν)) (ws : List (κ × ν)) : List (κ × ν) := ws.foldl (fun m w => aset m w.1 w.2) m

/-- the value written last to `k` in the write sequence `ws` -/
def lastWrite (ws : List (κ × ν)) (k : κ) : Option ν := aget ws.reverse k
end AList

/-! ## posixpath on character lists -/

/-- `str(n)` / `f'{n}'` for a non-negative int -/
def dec (n : Nat) : Str := Nat.toDigits 10 n

/-- `f'{n:04d}'` for a non-negative int -/
def pad4 (n : Nat) : Str := List.replicate (4 - (dec n).length) '0' ++ dec n

/-- `posixpath.basename` : everything after the last '/' -/
def basename (p : Str) : Str := (p.reverse.takeWhile (· != '/')).reverse

/-- `p[:p.rfind('/')+1]` -/
def headOf (p : Str) : Str := (p.reverse.dropWhile (· != '/')).reverse

def rstripSlash (p : Str) : Str := (p.reverse.dropWhile (· == '/')).reverse

/-- `posixpath.dirname` -/
def dirname (p : Str) : Str :=
  let h := headOf p
  if h ≠ [] ∧ ¬ (h.all (· == '/')) then rstripSlash h else h

/-- `posixpath.join(a, b)` for two components -/
def join (a b : Str) : Str :=
  if b.head? = some '/' then b
  else if a = [] ∨ a.getLast? = some '/' then a ++ b
  else a ++ '/' :: b

/-- `posixpath.splitext(n)[0]` for a name without '/' (it is only called on `basename(..)`):
split at the last dot unless everything before it is dots. -/
def stemOfName (n : Str) : Str :=
  if '.' ∈ n then
    let s := ((n.reverse.dropWhile (· != '.')).drop 1).reverse
    if s.all (· == '.') then n else s
  else n

inductive Err where
  | unicodeDecode
  deriving Repr, DecidableEq

deriving instance DecidableEq for Except

/-- `bytes.decode('ascii')` -/
def asciiDecode (bs : List Nat) : Except Err Str :=
  if bs.all (· < 128) then .ok (bs.map Char.ofNat) else .error .unicodeDecode

def dotLas : Str := ['.', 'l', 'a', 's']

/-- file-name part of RP66V1 `las_file_name`: `stem + f'_{lf}_{ident}' + '.las'` -/
def rpName (stem : Str) (lf : Nat) (ident : Str) : Str := stem ++ ('_' :: (dec lf ++ ('_' :: (ident ++ dotLas))))

/-- `RP66V1/ToLAS.py las_file_name(path_out, logical_file_index, frame_array_ident)`.
The extension of `path_out` (which is `dir_out/<input file name>`) is dropped: F14. -/
def lasFileName (pathOut : Str) (lf : Nat) (ident : List Nat) : Except Err Str :=
  let stem := stemOfName (basename pathOut)
  match asciiDecode ident with
  | .error e => .error e
  | .ok id => .ok (join (dirname pathOut) (rpName stem lf id))

/-- `LIS/ToLAS.py write_las_file`: `f'{path_out}_{logical_file_index}.las'` -/
def lisOut (pathOut : Str) (i : Nat) : Str := pathOut ++ ('_' :: (dec i ++ dotLas))

/-- `BIT/ToLAS.py single_bit_path_to_las_path`: `f'{path_out}_{f:04d}.las'` -/
def bitOut (pathOut : Str) (f : Nat) : Str := pathOut ++ ('_' :: (pad4 f ++ dotLas))

/-- `dirWalk`: one (input path, output path) per directory entry; `if theOut:` else `''`. -/
def walkPair (dirIn dirOut name : Str) : Str × Str :=
  (join dirIn name, if dirOut = [] then [] else join dirOut name)

/-- recursive `dirWalk`: a file at relative path `c₁/c₂/…/name` below `dirIn` — every level applies `walkPair`
(`fp = join(theIn, n)`, `out_path = join(theOut, n)` if `theOut` else `''`), so the (input, output) pair of a task is a
function of its full relative path: two files with the same *name* in different sub-directories are different tasks
with different output directories. -/
def walkPath (dirIn dirOut : Str) : List Str → Str × Str
  | [] => (dirIn, dirOut)
  | c :: r => walkPath (walkPair dirIn dirOut c).1 (walkPair dirIn dirOut c).2 r

/-- Python `str` ordering (code points, lexicographic); `true` when `a ≤ b`. -/
def strLe : Str → Str → Bool
  | [], _ => true
  | _ :: _, [] => false
  | a :: r, b :: s => if a.toNat < b.toNat then true else if b.toNat < a.toNat then false else strLe r s

/-- `sorted(os.listdir(d))` (`bigFirst=False`, the sequential order) -/
def orderSeq (names : List Str) : List Str := names.mergeSort (fun a b => strLe a b)

/-- `sorted((size, name) ...)` (`gen_big_first`: ascending size, then name — the pool's submission order) -/
def orderPool (sized : List (Nat × Str)) : List Str :=
  (sized.mergeSort (fun a b => a.1 < b.1 || (a.1 == b.1 && strLe a.2 b.2))).map Prod.snd

/-! ## the abstract batch -/

/-- events of a schedule: a worker takes task `i`; the `j`-th output file of task `i` is written (closed);
the result of task `i` is recorded and its worker is free again. -/
inductive Ev where
  | start (i : Nat)
  | write (i j : Nat)
  | finish (i : Nat)
  deriving Repr, DecidableEq

def Ev.task : Ev → Nat
  | .start i => i
  | .write i _ => i
  | .finish i => i

structure State (P R O T : Type) where
  results : List (P × R)
  tree : List (O × T)

section Batch
variable {P B R O T : Type} [DecidableEq P] [DecidableEq O]

def State.init : State P R O T := ⟨[], []⟩

/-- what an event writes into the output tree -/
def evWrite (conv : P × B → R × List (O × T)) (tasks : List (P × B)) : Ev → Option (O × T)
  | .write i j => (tasks[i]?).bind (fun t => (conv t).2[j]?)
  | _ => none

/-- what an event records in the results dict -/
def evResult (conv : P × B → R × List (O × T)) (tasks : List (P × B)) : Ev → Option (P × R)
  | .finish i => (tasks[i]?).map (fun t => (t.1, (conv t).1))
  | _ => none

def stepEv (conv : P × B → R × List (O × T)) (tasks : List (P × B)) (s : State P R O T) (e : Ev) : State P R O T :=
  let s1 : State P R O T := match evWrite conv tasks e with
    | some w => { s with tree := aset s.tree w.1 w.2 }
    | none => s
  match evResult conv tasks e with
  | some r => { s1 with results := aset s1.results r.1 r.2 }
  | none => s1

/-- run a schedule -/
def runSched (conv : P × B → R × List (O × T)) (σ : List Ev) (tasks : List (P × B)) : State P R O T :=
  σ.foldl (stepEv conv tasks) State.init

/-- the `for` loop of `convert_dir_or_file_to_las`: each file converted to completion in turn -/
def sequential (conv : P × B → R × List (O × T)) (tasks : List (P × B)) : State P R O T :=
  tasks.foldl (fun s t => ⟨aset s.results t.1 (conv t).1, asetAll s.tree (conv t).2⟩) State.init

/-- The sequential loop with the conversion OPTIONS (channel set, frame slice, ...) made explicit as a value that each
file conversion may hand on changed: `step opt file = ((result, outputs), opt')`.  This is what the Python loop does when
it passes ONE mutable `channels` set object to every `single_*_to_las` call. -/
def sequentialThreaded {Opt : Type} (step : Opt → P × B → (R × List (O × T)) × Opt) (opt : Opt)
    (tasks : List (P × B)) : State P R O T × Opt :=
  tasks.foldl (fun (so : State P R O T × Opt) t =>
    let r := step so.2 t
    (⟨aset so.1.results t.1 r.1.1, asetAll so.1.tree r.1.2⟩, r.2)) (State.init, opt)

/-- converting one file on its own into an empty output directory -/
def alone (conv : P × B → R × List (O × T)) (t : P × B) : State P R O T := sequential conv [t]
end Batch

/-- the events of task `i` that writes `n` output files, in program order -/
def taskEvents (i n : Nat) : List Ev := .start i :: ((List.range n).map (.write i) ++ [.finish i])

/-- at most `k` tasks are in flight at any time (`c` = number in flight so far) -/
def workersOK (k : Nat) : List Ev → Nat → Bool
  | [], _ => true
  | .start _ :: r, c => decide (c < k) && workersOK k r (c + 1)
  | .finish _ :: r, c => workersOK k r (c - 1)
  | .write _ _ :: r, c => workersOK k r c

/-- `σ` is a schedule of the tasks (task `i` writes `nOuts[i]` files) on `k` workers: every event belongs to a
task, the events of each task appear exactly once and in program order, never more than `k` tasks in flight. -/
def validSched (k : Nat) (nOuts : List Nat) (σ : List Ev) : Bool :=
  σ.all (fun e => decide (e.task < nOuts.length)) &&
  (List.range nOuts.length).all (fun i => σ.filter (fun e => e.task == i) == taskEvents i (nOuts.getD i 0)) &&
  workersOK k σ 0

/-- the schedule of the sequential loop -/
def seqSchedule (nOuts : List Nat) : List Ev :=
  (List.range nOuts.length).flatMap (fun i => taskEvents i (nOuts.getD i 0))

section Batch2
variable {P B R O T : Type}
/-- number of output files of every task -/
def nOutsOf (conv : P × B → R × List (O × T)) (tasks : List (P × B)) : List Nat := tasks.map (fun t => (conv t).2.length)

/-- hypothesis 1 of the schedule theorem: no two tasks write the same output path -/
def OutputsDisjoint (conv : P × B → R × List (O × T)) (tasks : List (P × B)) : Prop :=
  tasks.Pairwise (fun a b => ∀ o, o ∈ akeys (conv a).2 → o ∉ akeys (conv b).2)

/-- the input paths are distinct (they are the entries of a directory listing) -/
def PathsDistinct (tasks : List (P × B)) : Prop := (tasks.map Prod.fst).Nodup

instance [DecidableEq O] (conv : P × B → R × List (O × T)) (tasks : List (P × B)) :
    Decidable (OutputsDisjoint conv tasks) := by
  unfold OutputsDisjoint; exact inferInstance

instance [DecidableEq P] (tasks : List (P × B)) : Decidable (PathsDistinct tasks) := by
  unfold PathsDistinct; exact inferInstance

/-- two batch states are the same results dict and the same output tree (as maps: Python `dict.__eq__`
and "the same set of files with the same contents" ignore insertion order) -/
def StateEquiv [DecidableEq P] [DecidableEq O] (s s' : State P R O T) : Prop :=
  (∀ p, aget s.results p = aget s'.results p) ∧ (∀ o, aget s.tree o = aget s'.tree o)
end Batch2

end TD.C12
