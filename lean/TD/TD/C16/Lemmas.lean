import TD.C16.Model
