import TD.C16.Model
import TD.C16.Spec
import Mathlib.Tactic.Ring
import Mathlib.Tactic.Linarith

/-! Helper lemmas for C16 (closed form of a run, decode-after-add, index walks, bisect, the LIS frame walk). -/
namespace TD.C16

/-! ### one run -/

theorem valuesLoop_length (s : Int) : ∀ (n : Nat) (v : Int), (valuesLoop s n v).length = n
  | 0, _ => rfl
  | n + 1, v => by simp [valuesLoop, valuesLoop_length s n]

theorem valuesLoop_succ (s : Int) : ∀ (n : Nat) (v : Int),
    valuesLoop s (n + 1) v = valuesLoop s n v ++ [v + s * ((n : Int) + 1)]
  | 0, v => by simp [valuesLoop]
  | n + 1, v => by
    rw [valuesLoop, valuesLoop_succ s n (v + s)]
    conv => rhs; rw [valuesLoop]
    simp only [List.cons_append, List.cons.injEq, true_and, List.append_cancel_left_eq, and_true]
    push_cast; ring

theorem valuesLoop_getElem? (s : Int) : ∀ (n : Nat) (v : Int) (k : Nat), k < n →
    (valuesLoop s n v)[k]? = some (v + s * ((k : Int) + 1))
  | 0, _, _, h => by omega
  | n + 1, v, 0, _ => by simp [valuesLoop]
  | n + 1, v, k + 1, h => by
    simp only [valuesLoop, List.getElem?_cons_succ]
    rw [valuesLoop_getElem? s n (v + s) k (by omega)]
    congr 1; push_cast; ring

theorem Item.values_length (it : Item) : it.values.length = it.rep + 1 := by
  simp [Item.values, valuesLoop_length]

theorem Item.values_ne_nil (it : Item) : it.values ≠ [] := by simp [Item.values]

theorem Item.values_getElem? (it : Item) (k : Nat) (h : k ≤ it.rep) :
    it.values[k]? = some (it.datum + it.stride * (k : Int)) := by
  cases k with
  | zero => simp [Item.values]
  | succ k =>
    simp only [Item.values, List.getElem?_cons_succ]
    rw [valuesLoop_getElem? _ _ _ _ (by omega)]
    push_cast; rfl

theorem Item.values_getElem?_none (it : Item) (k : Nat) (h : it.rep < k) : it.values[k]? = none := by
  rw [List.getElem?_eq_none_iff, Item.values_length]; omega

/-- closed form of a run: `datum + stride·k` for `k = 0 … repeat`. -/
theorem Item.values_eq (it : Item) :
    it.values = (List.range (it.rep + 1)).map (fun k : Nat => it.datum + it.stride * (k : Int)) := by
  apply List.ext_getElem?
  intro k
  by_cases h : k ≤ it.rep
  · rw [Item.values_getElem? it k h]
    simp [show k < it.rep + 1 by omega]
  · rw [Item.values_getElem?_none it k (by omega)]
    simp; omega

theorem Item.mem_values (it : Item) (x : Int) :
    x ∈ it.values ↔ ∃ k : Nat, k ≤ it.rep ∧ x = it.datum + it.stride * (k : Int) := by
  rw [Item.values_eq]; simp only [List.mem_map, List.mem_range]
  constructor
  · rintro ⟨k, hk, rfl⟩; exact ⟨k, by omega, rfl⟩
  · rintro ⟨k, hk, rfl⟩; exact ⟨k, by omega, rfl⟩

theorem Item.datum_mem_values (it : Item) : it.datum ∈ it.values := by simp [Item.values]

/-- `RLEItem.add` returning True appends exactly the added value to the run. -/
theorem Item.values_add {it it' : Item} {v : Int} (h : it.add v = some it') : it'.values = it.values ++ [v] := by
  unfold Item.add at h
  split at h
  · rename_i h0
    cases h
    simp only [Item.values, valuesLoop, h0]
    simp
  · rename_i h0
    simp only at h
    split at h
    · rename_i hv
      cases h
      simp only [Item.values]
      rw [valuesLoop_succ]
      simp [hv]
    · cases h

theorem Item.add_datum {it it' : Item} {v : Int} (h : it.add v = some it') : it'.datum = it.datum := by
  unfold Item.add at h
  split at h
  · cases h; rfl
  · simp only at h; split at h
    · cases h; rfl
    · cases h

/-! ### the list of runs -/

theorem rleValues_nil : rleValues [] = [] := rfl
theorem rleValues_cons (it : Item) (rest : List Item) : rleValues (it :: rest) = it.values ++ rleValues rest := by
  simp [rleValues]

/-- `RLE.add(v)` appends `v` to the decoded sequence, whatever the runs were. -/
theorem rleValues_add (items : List Item) (v : Int) : rleValues (rleAdd items v) = rleValues items ++ [v] := by
  fun_induction rleAdd items v with
  | case1 v => simp [rleValues, Item.new, Item.values, valuesLoop]
  | case2 lastItem v it' h => simp [rleValues, Item.values_add h]
  | case3 lastItem v h => simp [rleValues, Item.new, Item.values, valuesLoop]
  | case4 it rest v hne ih => rw [rleValues_cons, ih, rleValues_cons, List.append_assoc]

theorem rleValues_foldl (xs : List Int) : ∀ items : List Item,
    rleValues (xs.foldl rleAdd items) = rleValues items ++ xs := by
  induction xs with
  | nil => intro items; simp
  | cons x xs ih => intro items; simp [List.foldl_cons, ih, rleValues_add]

theorem numValues_eq (items : List Item) : numValues items = (rleValues items).length := by
  induction items with
  | nil => rfl
  | cons it rest ih =>
    simp only [numValues, List.map_cons, List.sum_cons] at ih ⊢
    rw [rleValues_cons, List.length_append, Item.values_length, ih]; rfl

theorem rleFirst_eq (items : List Item) : rleFirst items = (rleValues items).head? := by
  cases items with
  | nil => rfl
  | cons it rest => simp [rleFirst, rleValues_cons, Item.values]

theorem Item.last_eq (it : Item) : some it.last = it.values.getLast? := by
  rw [List.getLast?_eq_getElem?, Item.values_length, Nat.add_sub_cancel, Item.values_getElem? it it.rep (Nat.le_refl _)]
  unfold Item.last
  split
  · rename_i h; simp [h]
  · rfl

theorem rleLast_eq (items : List Item) : rleLast items = (rleValues items).getLast? := by
  induction items with
  | nil => rfl
  | cons it rest ih =>
    rw [rleValues_cons]
    cases rest with
    | nil => simp [rleLast, rleValues, ← Item.last_eq]
    | cons r rs =>
      rw [List.getLast?_append, ← ih]
      simp only [rleLast, List.getLast?_cons_cons]
      rw [List.getLast?_eq_some_getLast (List.cons_ne_nil r rs)]
      rfl

/-! ### indexing -/

/-- result of looking up position `k` in a plain list, as an exception-or-value. -/
def getExc (xs : List Int) (k : Nat) : Except Err Int :=
  match xs[k]? with
  | some v => .ok v
  | none => .error .indexError

theorem Item.value_nat_le (it : Item) (k : Nat) (h : k ≤ it.rep) :
    it.value (k : Int) = ((k : Int), some (it.datum + it.stride * (k : Int))) := by
  unfold Item.value
  have h1 : (k : Int) ≥ 0 := by omega
  have h2 : ¬ ((k : Int) > (it.rep : Int)) := by omega
  simp only [h1, if_true, h2, if_false]
  split
  · rename_i h0
    have : k = 0 := by omega
    subst this; simp
  · rw [Int.mul_comm]

theorem Item.value_nat_gt (it : Item) (k : Nat) (h : it.rep < k) :
    it.value (k : Int) = (((k - it.rep - 1 : Nat) : Int), none) := by
  unfold Item.value
  have h1 : (k : Int) ≥ 0 := by omega
  have h2 : (k : Int) > (it.rep : Int) := by omega
  simp only [h1, if_true, h2]
  congr 1; omega

theorem valueLoop_nat (items : List Item) : ∀ k : Nat, valueLoop items (k : Int) = getExc (rleValues items) k := by
  induction items with
  | nil => intro k; simp [valueLoop, getExc, rleValues]
  | cons r rs ih =>
    intro k
    rw [valueLoop, rleValues_cons]
    by_cases h : k ≤ r.rep
    · rw [Item.value_nat_le r k h]
      simp only [getExc]
      rw [List.getElem?_append_left (by rw [Item.values_length]; omega), Item.values_getElem? r k h]
    · rw [Item.value_nat_gt r k (by omega)]
      simp only
      rw [ih]
      simp only [getExc]
      rw [List.getElem?_append_right (by rw [Item.values_length]; omega), Item.values_length]
      congr 2

theorem Item.value_neg_le (it : Item) (k : Nat) (h : k ≤ it.rep) :
    it.value (-(k : Int) - 1) = (-(k : Int) - 1, some (it.datum + it.stride * ((it.rep - k : Nat) : Int))) := by
  unfold Item.value
  have h1 : ¬ (-(k : Int) - 1 ≥ 0) := by omega
  have h2 : ¬ (-(-(k : Int) - 1) > (it.rep : Int) + 1) := by omega
  simp only [h1, if_false, h2]
  congr 3
  rw [Int.mul_comm]; congr 1; omega

theorem Item.value_neg_gt (it : Item) (k : Nat) (h : it.rep < k) :
    it.value (-(k : Int) - 1) = (-((k - it.rep - 1 : Nat) : Int) - 1, none) := by
  unfold Item.value
  have h1 : ¬ (-(k : Int) - 1 ≥ 0) := by omega
  have h2 : (-(-(k : Int) - 1) > (it.rep : Int) + 1) := by omega
  simp only [h1, if_false, h2, if_true]
  congr 1; omega

theorem valueLoop_neg (items : List Item) : ∀ k : Nat,
    valueLoop items (-(k : Int) - 1) = getExc (items.flatMap (fun r => r.values.reverse)) k := by
  induction items with
  | nil => intro k; simp [valueLoop, getExc]
  | cons r rs ih =>
    intro k
    rw [valueLoop, List.flatMap_cons]
    by_cases h : k ≤ r.rep
    · rw [Item.value_neg_le r k h]
      simp only [getExc]
      rw [List.getElem?_append_left (by rw [List.length_reverse, Item.values_length]; omega),
        List.getElem?_reverse (by rw [Item.values_length]; omega), Item.values_length,
        Item.values_getElem? r _ (by omega)]
      congr 4
    · rw [Item.value_neg_gt r k (by omega)]
      simp only
      rw [ih]
      simp only [getExc]
      rw [List.getElem?_append_right (by rw [List.length_reverse, Item.values_length]; omega),
        List.length_reverse, Item.values_length]
      congr 2

theorem rleValue_nat (items : List Item) (k : Nat) : rleValue items (k : Int) = getExc (rleValues items) k := by
  unfold rleValue
  rw [if_pos (by omega), valueLoop_nat]

theorem rleValue_neg (items : List Item) (k : Nat) :
    rleValue items (-(k : Int) - 1) = getExc (rleValues items).reverse k := by
  unfold rleValue
  rw [if_neg (by omega), valueLoop_neg, rleValues, List.reverse_flatMap]
  rfl

/-! ### largest_le -/

theorem Item.largestLe_err (it : Item) (q : Int) (h : q < it.datum) : it.largestLe q = .error .valueError := by
  unfold Item.largestLe; simp [h]

theorem Item.datum_le_of_sorted (it : Item) (hs : it.values.Pairwise (· ≤ ·)) : ∀ x ∈ it.values, it.datum ≤ x := by
  intro x hx
  unfold Item.values at hs hx
  rw [List.pairwise_cons] at hs
  rcases List.mem_cons.1 hx with rfl | hx
  · exact Int.le_refl _
  · exact hs.1 x hx

theorem Item.stride_nonneg_of_sorted (it : Item) (hs : it.values.Pairwise (· ≤ ·)) (hr : 1 ≤ it.rep) : 0 ≤ it.stride := by
  have h1 : it.datum + it.stride * ((1 : Nat) : Int) ∈ it.values := (Item.mem_values it _).2 ⟨1, hr, rfl⟩
  have := Item.datum_le_of_sorted it hs _ h1
  omega

/-- one run, ascending: `RLEItem.largest_le(q)` is the greatest value of the run that is ≤ q. -/
theorem Item.largestLe_spec (it : Item) (q : Int) (hs : it.values.Pairwise (· ≤ ·)) (hq : it.datum ≤ q) :
    ∃ m, it.largestLe q = .ok m ∧ m ∈ it.values ∧ m ≤ q ∧ ∀ x ∈ it.values, x ≤ q → x ≤ m := by
  unfold Item.largestLe
  have h0 : ¬ (it.datum > q) := by omega
  simp only [h0, if_false]
  by_cases hr : it.rep = 0
  · -- a single value
    have hvals : ∀ x ∈ it.values, x = it.datum := by
      intro x hx
      obtain ⟨k, hk, rfl⟩ := (Item.mem_values it x).1 hx
      have : k = 0 := by omega
      subst this; simp
    have hlast : it.last = it.datum := by simp [Item.last, hr]
    refine ⟨it.datum, ?_, Item.datum_mem_values it, hq, fun x hx _ => by rw [hvals x hx]⟩
    rw [hlast]
    split
    · rfl
    · split
      · rfl
      · have : q - it.datum = 0 := by omega
        rw [this, Int.zero_fdiv]; simp
  · have hst : 0 ≤ it.stride := Item.stride_nonneg_of_sorted it hs (by omega)
    have hlast : it.last = it.datum + it.stride * (it.rep : Int) := by simp [Item.last, hr]
    rw [hlast]
    split
    · -- beyond the last value of the run
      rename_i hgt
      refine ⟨_, rfl, (Item.mem_values it _).2 ⟨it.rep, Nat.le_refl _, rfl⟩, by omega, ?_⟩
      intro x hx _
      obtain ⟨k, hk, rfl⟩ := (Item.mem_values it x).1 hx
      have : it.stride * (k : Int) ≤ it.stride * (it.rep : Int) :=
        Int.mul_le_mul_of_nonneg_left (by omega) hst
      omega
    · rename_i hle
      split
      · -- run of equal values
        rename_i hz
        refine ⟨_, rfl, Item.datum_mem_values it, hq, ?_⟩
        intro x hx _
        obtain ⟨k, hk, rfl⟩ := (Item.mem_values it x).1 hx
        simp [hz]
      · rename_i hnz
        have hpos : 0 < it.stride := by omega
        rw [Int.fdiv_eq_ediv_of_nonneg _ hst]
        have hd : 0 ≤ q - it.datum := by omega
        have hi0 : 0 ≤ (q - it.datum) / it.stride := Int.ediv_nonneg hd hst
        have hlo : it.stride * ((q - it.datum) / it.stride) ≤ q - it.datum := Int.mul_ediv_self_le (by omega)
        have hhi : q - it.datum < it.stride * ((q - it.datum) / it.stride) + it.stride := Int.lt_mul_ediv_self_add hpos
        have hidx : (q - it.datum) / it.stride ≤ (it.rep : Int) := by
          by_contra hc
          have : it.stride * ((it.rep : Int) + 1) ≤ it.stride * ((q - it.datum) / it.stride) :=
            Int.mul_le_mul_of_nonneg_left (by omega) hst
          have e : it.stride * ((it.rep : Int) + 1) = it.stride * (it.rep : Int) + it.stride := by ring
          omega
        refine ⟨_, rfl, ?_, by omega, ?_⟩
        · refine (Item.mem_values it _).2 ⟨((q - it.datum) / it.stride).toNat, by omega, ?_⟩
          rw [Int.toNat_of_nonneg hi0]
        · intro x hx hxq
          obtain ⟨k, hk, rfl⟩ := (Item.mem_values it x).1 hx
          have hk' : (k : Int) ≤ (q - it.datum) / it.stride := by
            by_contra hc
            have : it.stride * ((q - it.datum) / it.stride + 1) ≤ it.stride * (k : Int) :=
              Int.mul_le_mul_of_nonneg_left (by omega) hst
            have e : it.stride * ((q - it.datum) / it.stride + 1) = it.stride * ((q - it.datum) / it.stride) + it.stride := by ring
            omega
          have : it.stride * (k : Int) ≤ it.stride * ((q - it.datum) / it.stride) :=
            Int.mul_le_mul_of_nonneg_left hk' hst
          omega

/-- the bisect loop: with ascending datums it returns the number of runs whose datum is ≤ q. -/
theorem bisect_spec (items : List Item) (q : Int)
    (hs : ∀ i j (hi : i < items.length) (hj : j < items.length), i ≤ j → items[i].datum ≤ items[j].datum) :
    ∀ lo hi, lo ≤ hi → hi ≤ items.length →
      (∀ j (hj : j < items.length), j < lo → items[j].datum ≤ q) →
      (∀ j (hj : j < items.length), hi ≤ j → q < items[j].datum) →
      bisect items q lo hi ≤ items.length ∧
      (∀ j (hj : j < items.length), j < bisect items q lo hi → items[j].datum ≤ q) ∧
      (∀ j (hj : j < items.length), bisect items q lo hi ≤ j → q < items[j].datum) := by
  intro lo hi
  fun_induction bisect items q lo hi with
  | case1 lo hi hlt mid it hget hq ih =>
    intro hle hlen hL hH
    have hm : mid < items.length := by
      have := (List.getElem?_eq_some_iff.1 hget).1; exact this
    have hit : items[mid] = it := (List.getElem?_eq_some_iff.1 hget).2
    apply ih (by omega) (by omega) hL
    intro j hj hmj
    have := hs mid j hm hj hmj
    rw [hit] at this; omega
  | case2 lo hi hlt mid it hget hq ih =>
    intro hle hlen hL hH
    have hm : mid < items.length := (List.getElem?_eq_some_iff.1 hget).1
    have hit : items[mid] = it := (List.getElem?_eq_some_iff.1 hget).2
    apply ih (by omega) hlen _ hH
    intro j hj hjm
    have := hs j mid hj hm (by omega)
    rw [hit] at this; omega
  | case3 lo hi hlt mid hget =>
    intro hle hlen hL hH
    have : items.length ≤ mid := List.getElem?_eq_none_iff.1 hget
    omega
  | case4 lo hi hnlt =>
    intro hle hlen hL hH
    have : lo = hi := by omega
    subst this
    exact ⟨hlen, hL, hH⟩

/-- `RLE.largest_le` on runs whose decoded sequence is (non-strictly) ascending. -/
theorem rleLargestLe_spec (items : List Item) (q : Int) (hs : (rleValues items).Pairwise (· ≤ ·)) :
    ((∀ x ∈ rleValues items, q < x) → rleLargestLe items q = .error .valueError) ∧
    ((∃ x ∈ rleValues items, x ≤ q) →
      ∃ m, rleLargestLe items q = .ok m ∧ m ∈ rleValues items ∧ m ≤ q ∧ ∀ x ∈ rleValues items, x ≤ q → x ≤ m) := by
  unfold rleValues at hs
  rw [List.pairwise_flatMap] at hs
  obtain ⟨hA, hB⟩ := hs
  rw [List.pairwise_iff_getElem] at hB
  have hC : ∀ it ∈ items, ∀ x ∈ it.values, it.datum ≤ x := fun it hit => Item.datum_le_of_sorted it (hA it hit)
  have hsd : ∀ i j (hi : i < items.length) (hj : j < items.length), i ≤ j → items[i].datum ≤ items[j].datum := by
    intro i j hi hj hij
    rcases Nat.lt_or_eq_of_le hij with h | h
    · exact hB i j hi hj h _ (Item.datum_mem_values _) _ (Item.datum_mem_values _)
    · subst h; exact Int.le_refl _
  obtain ⟨hk, hL, hH⟩ := bisect_spec items q hsd 0 items.length (Nat.zero_le _) (Nat.le_refl _)
    (fun j _ h => by omega) (fun j hj h => by omega)
  have hmem : ∀ x, x ∈ rleValues items ↔ ∃ j, ∃ hj : j < items.length, x ∈ items[j].values := by
    intro x
    simp only [rleValues, List.mem_flatMap]
    constructor
    · rintro ⟨r, hr, hx⟩
      obtain ⟨j, hj, rfl⟩ := List.getElem_of_mem hr
      exact ⟨j, hj, hx⟩
    · rintro ⟨j, hj, hx⟩
      exact ⟨items[j], List.getElem_mem hj, hx⟩
  unfold rleLargestLe
  simp only
  generalize bisect items q 0 items.length = k at hk hL hH
  by_cases hk0 : k = 0
  · subst hk0
    simp only [ne_eq, not_true_eq_false, if_false, implies_true, true_and]
    rintro ⟨x, hx, hxq⟩
    obtain ⟨j, hj, hxj⟩ := (hmem x).1 hx
    have h1 := hH j hj (Nat.zero_le _)
    have h2 := hC _ (List.getElem_mem hj) x hxj
    omega
  · have hk1 : k - 1 < items.length := by omega
    simp only [ne_eq, hk0, not_false_eq_true, if_true, List.getElem?_eq_getElem hk1]
    have hdq : items[k - 1].datum ≤ q := hL (k - 1) hk1 (by omega)
    constructor
    · intro hall
      have := hall _ ((hmem _).2 ⟨k - 1, hk1, Item.datum_mem_values _⟩)
      omega
    · intro _
      obtain ⟨m, hm, hmv, hmq, hmax⟩ := Item.largestLe_spec items[k - 1] q (hA _ (List.getElem_mem hk1)) hdq
      refine ⟨m, hm, (hmem m).2 ⟨k - 1, hk1, hmv⟩, hmq, ?_⟩
      intro x hx hxq
      obtain ⟨j, hj, hxj⟩ := (hmem x).1 hx
      rcases Nat.lt_trichotomy j (k - 1) with h | h | h
      · have h1 := hB j (k - 1) hj hk1 h x hxj _ (Item.datum_mem_values _)
        have h2 := hC _ (List.getElem_mem hk1) m hmv
        omega
      · subst h; exact hmax x hxj hxq
      · have h1 := hH j hj (by omega)
        have h2 := hC _ (List.getElem_mem hj) x hxj
        omega

theorem sum_nonneg_of (l : List Int) (h : ∀ x ∈ l, 0 ≤ x) : 0 ≤ l.sum := by
  induction l with
  | nil => simp
  | cons a l ih =>
    have := h a (by simp)
    have := ih (fun x hx => h x (List.mem_cons_of_mem _ hx))
    simp only [List.sum_cons]; omega

/-! ### LIS `RLEType01` -/

/-- the `(position, frames)` pairs one `RLEItemType01` stands for. -/
def Item01.recs (it : Item01) : List (Int × Int) := it.base.values.map (fun p => (p, it.numFrames))

def recs01 (items : List Item01) : List (Int × Int) := items.flatMap Item01.recs

/-- invariant of an `RLEItemType01`: its X-axis RLE holds one value per record of the run. -/
def Item01.wf (it : Item01) : Prop := (rleValues it.xaxis).length = it.base.rep + 1

theorem Item.add_rep {it it' : Item} {v : Int} (h : it.add v = some it') : it'.rep = it.rep + 1 := by
  have := congrArg List.length (Item.values_add h)
  rw [List.length_append, Item.values_length, Item.values_length] at this
  simpa using this

theorem Item01.new_recs (p n x : Int) : (Item01.new p n x).recs = [(p, n)] := by
  simp [Item01.new, Item01.recs, Item.new, Item.values, valuesLoop]

theorem Item01.new_wf (p n x : Int) : (Item01.new p n x).wf := by
  simp [Item01.new, Item01.wf, rleAdd, rleValues, Item.new, Item.values, valuesLoop]

theorem Item01.add_recs {it it' : Item01} {p n x : Int} (h : it.add p n x = some it') :
    it'.recs = it.recs ++ [(p, n)] ∧ (it.wf → it'.wf) := by
  unfold Item01.add at h
  split at h
  · cases h
  · rename_i hn
    split at h
    · cases h
    · rename_i b hb
      cases h
      have hn' : n = it.numFrames := by simpa using hn
      refine ⟨?_, ?_⟩
      · simp [Item01.recs, Item.values_add hb, hn']
      · intro hw
        simp only [Item01.wf] at hw ⊢
        rw [rleValues_add, List.length_append, hw, Item.add_rep hb]; rfl

theorem recs01_add (items : List Item01) (p n x : Int) :
    recs01 (add01 items p n x) = recs01 items ++ [(p, n)] ∧
    ((∀ it ∈ items, it.wf) → ∀ it ∈ add01 items p n x, it.wf) := by
  fun_induction add01 items p n x with
  | case1 p n x =>
    refine ⟨by simp [recs01, Item01.new_recs], ?_⟩
    intro _ it hit
    rw [List.mem_singleton.1 hit]; exact Item01.new_wf p n x
  | case2 lastItem p n x it' h =>
    obtain ⟨h1, h2⟩ := Item01.add_recs h
    refine ⟨by simp [recs01, h1], ?_⟩
    intro hw it hit
    rw [List.mem_singleton.1 hit]; exact h2 (hw lastItem (by simp))
  | case3 lastItem p n x h =>
    refine ⟨by simp [recs01, Item01.new_recs], ?_⟩
    intro hw it hit
    rcases List.mem_cons.1 hit with rfl | hit
    · exact hw _ (by simp)
    · rw [List.mem_singleton.1 hit]; exact Item01.new_wf p n x
  | case4 it rest p n x hne ih =>
    obtain ⟨h1, h2⟩ := ih
    refine ⟨?_, ?_⟩
    · simp only [recs01, List.flatMap_cons] at h1 ⊢
      rw [h1, List.append_assoc]
    · intro hw i hi
      rcases List.mem_cons.1 hi with rfl | hi
      · exact hw _ (by simp)
      · exact h2 (fun j hj => hw j (List.mem_cons_of_mem _ hj)) i hi

theorem recs01_foldl (recs : List (Int × Int × Int)) : ∀ items : List Item01,
    recs01 (recs.foldl (fun items r => add01 items r.1 r.2.1 r.2.2) items) = recs01 items ++ recs.map (fun r => (r.1, r.2.1)) ∧
    ((∀ it ∈ items, it.wf) → ∀ it ∈ recs.foldl (fun items r => add01 items r.1 r.2.1 r.2.2) items, it.wf) := by
  induction recs with
  | nil => intro items; simp
  | cons r rs ih =>
    intro items
    obtain ⟨h1, h2⟩ := ih (add01 items r.1 r.2.1 r.2.2)
    obtain ⟨a1, a2⟩ := recs01_add items r.1 r.2.1 r.2.2
    refine ⟨?_, fun hw => h2 (a2 hw)⟩
    rw [List.foldl_cons, h1, a1]; simp

/-- frames below the run's total: the record `f / nf` of the run, offset `f % nf`. -/
theorem Item01.tell_lt (it : Item01) (f : Int) (hw : it.wf) (hn : 1 ≤ it.numFrames) (h0 : 0 ≤ f)
    (hlt : f < it.totalFrames) :
    ∃ x, it.tell f = .ok (f % it.numFrames, some (it.base.datum + it.base.stride * (f / it.numFrames), it.numFrames, x)) := by
  unfold Item01.totalFrames at hlt
  have hj0 : 0 ≤ f / it.numFrames := Int.ediv_nonneg h0 (by omega)
  have hj1 : f / it.numFrames < (it.base.rep : Int) + 1 := Int.ediv_lt_of_lt_mul (by omega) (by rw [Int.mul_comm]; exact hlt)
  obtain ⟨j, hj⟩ : ∃ j : Nat, f / it.numFrames = (j : Int) := ⟨(f / it.numFrames).toNat, by omega⟩
  have hjr : j ≤ it.base.rep := by omega
  have hx : ∃ x, (rleValues it.xaxis)[j]? = some x := by
    have : j < (rleValues it.xaxis).length := by rw [hw]; omega
    exact ⟨_, List.getElem?_eq_getElem this⟩
  obtain ⟨x, hx⟩ := hx
  refine ⟨x, ?_⟩
  unfold Item01.tell
  have e1 : ¬ ¬ (f ≥ 0) := by omega
  have e2 : f ≤ it.totalFrames := by unfold Item01.totalFrames; omega
  have e3 : ¬ (it.numFrames = 0) := by omega
  simp only [e1, if_false, e2, if_true, e3]
  rw [Int.fdiv_eq_ediv_of_nonneg _ (by omega), Int.fmod_eq_emod_of_nonneg _ (by omega), hj]
  unfold Item01.value
  rw [Item.value_nat_le _ j hjr]
  simp only
  rw [rleValue_nat, getExc, hx]

/-- frames at or beyond the run's total are passed on, reduced by the total (also through the `<=` branch). -/
theorem Item01.tell_ge (it : Item01) (f : Int) (hn : 1 ≤ it.numFrames) (hge : it.totalFrames ≤ f) :
    it.tell f = .ok (f - it.totalFrames, none) := by
  have hT : 0 ≤ it.totalFrames := by
    unfold Item01.totalFrames; exact Int.mul_nonneg (by omega) (by omega)
  unfold Item01.tell
  have e1 : ¬ ¬ (f ≥ 0) := by omega
  simp only [e1, if_false]
  by_cases heq : f = it.totalFrames
  · have e2 : f ≤ it.totalFrames := by omega
    have e3 : ¬ (it.numFrames = 0) := by omega
    simp only [e2, if_true, e3, if_false]
    rw [Int.fdiv_eq_ediv_of_nonneg _ (by omega), Int.fmod_eq_emod_of_nonneg _ (by omega)]
    have hd : f / it.numFrames = ((it.base.rep + 1 : Nat) : Int) := by
      rw [heq]; unfold Item01.totalFrames
      rw [Int.mul_ediv_cancel_left _ e3]; push_cast; rfl
    have hm : f % it.numFrames = 0 := by
      rw [heq]; unfold Item01.totalFrames; exact Int.mul_emod_right _ _
    rw [hd, hm]
    unfold Item01.value
    rw [Item.value_nat_gt _ _ (by omega)]
    simp only
    congr 2; omega
  · have e2 : ¬ (f ≤ it.totalFrames) := by omega
    simp only [e2, if_false]

/-- `locate` across the records of one regular run. -/
theorem locate_run (d s nf : Int) (hnf : 1 ≤ nf) (rest : List (Int × Int)) :
    ∀ (n start : Nat) (f : Int), 0 ≤ f →
      locate (((List.range' start n).map (fun k : Nat => (d + s * (k : Int), nf))) ++ rest) f =
        if f < nf * (n : Int) then .ok (d + s * ((start : Int) + f / nf), f % nf) else locate rest (f - nf * (n : Int)) := by
  intro n
  induction n with
  | zero =>
    intro start f h0
    have : ¬ (f < nf * ((0 : Nat) : Int)) := by simp; omega
    simp only [List.range'_zero, List.map_nil, List.nil_append, this, if_false]
    simp
  | succ n ih =>
    intro start f h0
    rw [List.range'_succ, List.map_cons, List.cons_append, locate]
    have hexp : nf * ((n + 1 : Nat) : Int) = nf * (n : Int) + nf := by push_cast; ring
    have hnn : 0 ≤ nf * (n : Int) := Int.mul_nonneg (by omega) (by omega)
    by_cases hlt : f < nf
    · have h1 : f < nf * ((n + 1 : Nat) : Int) := by omega
      simp only [hlt, if_true, h1]
      rw [Int.ediv_eq_zero_of_lt h0 hlt, Int.emod_eq_of_lt h0 hlt]; simp
    · simp only [hlt, if_false]
      rw [ih (start + 1) (f - nf) (by omega)]
      have hf : f = (f - nf) + nf * 1 := by omega
      have hdiv : f / nf = (f - nf) / nf + 1 := by
        conv => lhs; rw [hf]
        exact Int.add_mul_ediv_left _ _ (by omega)
      have hmod : f % nf = (f - nf) % nf := by
        conv => lhs; rw [hf]
        exact Int.add_mul_emod_self_left _ _ _
      by_cases h2 : f - nf < nf * (n : Int)
      · have h3 : f < nf * ((n + 1 : Nat) : Int) := by omega
        simp only [h2, if_true, h3]
        rw [hdiv, hmod]; congr 3; push_cast; ring
      · have h3 : ¬ (f < nf * ((n + 1 : Nat) : Int)) := by omega
        simp only [h2, if_false, h3]
        congr 1; omega

theorem Item01.recs_eq (it : Item01) :
    it.recs = (List.range' 0 (it.base.rep + 1)).map (fun k : Nat => (it.base.datum + it.base.stride * (k : Int), it.numFrames)) := by
  rw [Item01.recs, Item.values_eq, List.map_map, List.range_eq_range']; rfl

/-- the frame walk over the runs equals the walk over the plain record list. -/
theorem tellLoop_eq_locate (items : List Item01) : ∀ f : Int, 0 ≤ f →
    (∀ it ∈ items, it.wf) → (∀ it ∈ items, 1 ≤ it.numFrames) →
    tellLoop items f = locate (recs01 items) f := by
  induction items with
  | nil => intro f _ _ _; simp [tellLoop, recs01, locate]
  | cons it rest ih =>
    intro f h0 hw hn
    have hwi := hw it (by simp)
    have hni := hn it (by simp)
    have hT : it.totalFrames = it.numFrames * ((it.base.rep + 1 : Nat) : Int) := by
      unfold Item01.totalFrames; push_cast; rfl
    rw [tellLoop]
    simp only [recs01, List.flatMap_cons]
    rw [Item01.recs_eq, locate_run _ _ _ hni _ _ _ _ h0, ← hT]
    by_cases hlt : f < it.totalFrames
    · obtain ⟨x, hx⟩ := Item01.tell_lt it f hwi hni h0 hlt
      rw [hx]; simp [hlt]
    · rw [Item01.tell_ge it f hni (by omega)]
      simp only [hlt, if_false]
      exact ih _ (by omega) (fun j hj => hw j (List.mem_cons_of_mem _ hj)) (fun j hj => hn j (List.mem_cons_of_mem _ hj))

theorem Item01.totalFrames_eq (it : Item01) : it.totalFrames = (it.recs.map (·.2)).sum := by
  have : ∀ l : List Int, ((l.map (fun p => (p, it.numFrames))).map (·.2)).sum = it.numFrames * (l.length : Int) := by
    intro l
    induction l with
    | nil => simp
    | cons a l ih => simp only [List.map_cons, List.sum_cons, ih, List.length_cons]; push_cast; ring
  rw [Item01.recs, this, Item.values_length]; unfold Item01.totalFrames; push_cast; rfl

theorem totalFrames01_eq (items : List Item01) : totalFrames01 items = ((recs01 items).map (·.2)).sum := by
  induction items with
  | nil => rfl
  | cons it rest ih =>
    simp only [totalFrames01, List.map_cons, List.sum_cons, recs01, List.flatMap_cons, List.map_append, List.sum_append] at ih ⊢
    rw [ih, Item01.totalFrames_eq]

/-- `locate` in closed form. -/
theorem locate_closed (pre : List (Int × Int)) (p n : Int) (post : List (Int × Int)) (off : Int)
    (hpre : ∀ r ∈ pre, 0 ≤ r.2) (h0 : 0 ≤ off) (h1 : off < n) :
    locate (pre ++ (p, n) :: post) ((pre.map (·.2)).sum + off) = .ok (p, off) := by
  induction pre with
  | nil => simp [locate, h1]
  | cons r pre ih =>
    obtain ⟨rp, rn⟩ := r
    have hs : 0 ≤ (pre.map (·.2)).sum := by
      apply sum_nonneg_of
      intro x hx
      obtain ⟨r, hr, rfl⟩ := List.mem_map.1 hx
      exact hpre r (List.mem_cons_of_mem _ hr)
    simp only [List.cons_append, List.map_cons, List.sum_cons, locate]
    have : ¬ (rn + (pre.map (·.2)).sum + off < rn) := by omega
    simp only [this, if_false]
    have e : rn + (pre.map (·.2)).sum + off - rn = (pre.map (·.2)).sum + off := by omega
    rw [e]
    exact ih (fun r hr => hpre r (List.mem_cons_of_mem _ hr))

/-! ### float abstraction (`Rat`, `isclose` as a parameter) -/
namespace F

/-- "the decoded value `y` stands for the added value `x`": identical, or accepted by `isclose`. -/
def Rel (close : Rat → Rat → Bool) (x y : Rat) : Prop := x = y ∨ close x y = true

theorem valuesLoop_length (s : Rat) : ∀ (n : Nat) (v : Rat), (valuesLoop s n v).length = n
  | 0, _ => rfl
  | n + 1, v => by simp [valuesLoop, valuesLoop_length s n]

theorem valuesLoop_succ (s : Rat) : ∀ (n : Nat) (v : Rat),
    valuesLoop s (n + 1) v = valuesLoop s n v ++ [v + s * ((n + 1 : Nat) : Rat)]
  | 0, v => by simp [valuesLoop]
  | n + 1, v => by
    rw [valuesLoop, valuesLoop_succ s n (v + s)]
    conv => rhs; rw [valuesLoop]
    simp only [List.cons_append, List.cons.injEq, true_and, List.append_cancel_left_eq, and_true]
    grind

theorem Item.values_length (it : Item) : it.values.length = it.rep + 1 := by
  simp [Item.values, valuesLoop_length]

theorem Item.values_add {close : Rat → Rat → Bool} {it it' : Item} {v : Rat} (h : it.add close v = some it') :
    ∃ y, it'.values = it.values ++ [y] ∧ Rel close v y ∧ it'.rep = it.rep + 1 := by
  unfold Item.add at h
  split at h
  · rename_i h0
    cases h
    refine ⟨v, ?_, Or.inl rfl, by simp [h0]⟩
    simp only [Item.values, valuesLoop, h0, List.cons_append, List.nil_append, List.cons.injEq, true_and, and_true]
    grind
  · simp only at h
    split at h
    · rename_i hv
      cases h
      refine ⟨_, ?_, Or.inr hv, rfl⟩
      simp only [Item.values]
      rw [valuesLoop_succ]; rfl
    · cases h

theorem rleValues_add (close : Rat → Rat → Bool) (items : List Item) (v : Rat) :
    ∃ y, rleValues (rleAdd close items v) = rleValues items ++ [y] ∧ Rel close v y ∧
      numValues (rleAdd close items v) = numValues items + 1 := by
  fun_induction rleAdd close items v with
  | case1 v => exact ⟨v, by simp [rleValues, Item.new, Item.values, valuesLoop], Or.inl rfl, by simp [numValues, Item.new]⟩
  | case2 lastItem v it' h =>
    obtain ⟨y, hy, hr, hn⟩ := Item.values_add h
    exact ⟨y, by simp [rleValues, hy], hr, by simp [numValues, hn]⟩
  | case3 lastItem v h =>
    exact ⟨v, by simp [rleValues, Item.new, Item.values, valuesLoop], Or.inl rfl, by simp [numValues, Item.new]⟩
  | case4 it rest v hne ih =>
    obtain ⟨y, hy, hr, hn⟩ := ih
    refine ⟨y, ?_, hr, ?_⟩
    · simp only [rleValues, List.flatMap_cons] at hy ⊢
      rw [hy, List.append_assoc]
    · simp only [numValues, List.map_cons, List.sum_cons] at hn ⊢
      omega

theorem rleValues_foldl (close : Rat → Rat → Bool) (xs : List Rat) : ∀ items : List Item,
    ∃ ys, rleValues (xs.foldl (rleAdd close) items) = rleValues items ++ ys ∧ List.Forall₂ (Rel close) xs ys ∧
      numValues (xs.foldl (rleAdd close) items) = numValues items + xs.length := by
  induction xs with
  | nil => intro items; exact ⟨[], by simp, List.Forall₂.nil, by simp⟩
  | cons x xs ih =>
    intro items
    obtain ⟨y, hy, hr, hn⟩ := rleValues_add close items x
    obtain ⟨ys, hys, hrs, hns⟩ := ih (rleAdd close items x)
    refine ⟨y :: ys, ?_, List.Forall₂.cons hr hrs, ?_⟩
    · rw [List.foldl_cons, hys, hy]; simp
    · rw [List.foldl_cons, hns, hn, List.length_cons]; omega

end F

end TD.C16
