import TD.C16.Lemmas
namespace TD.C16
theorem stub : create [] = [] := rfl
end TD.C16
