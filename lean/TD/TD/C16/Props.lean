import TD.C16.Lemmas

/-!
# C16 — Run-length indexes reproduce the positions they encode

Property theorems only.  The model (`TD.C16.Model`) transcribes `TotalDepth/common/Rle.py` and
`TotalDepth/LIS/core/Rle.py`; it is tied to the Python source by the correspondence run of `./check C16`.
The specifications (`pyIndex`, `locate`, `frameSpec`, plain lists) are in `TD.C16.Spec`.
All statements are for every list (no length bound).
-/
namespace TD.C16

/-- **Iteration**: `list(create_rle(xs).values()) == xs` for every integer list (repeats, negative strides,
irregular runs included). -/
theorem values_roundtrip (xs : List Int) : rleValues (create xs) = xs := by
  unfold create; rw [rleValues_foldl]; simp [rleValues]

example : rleValues (create [1, 2, 3, 7, 7, 7, 5, 3, 1, 1]) = [1, 2, 3, 7, 7, 7, 5, 3, 1, 1] := by decide
example : create [1, 2, 3, 7, 7, 7, 5, 3, 1, 1] = [⟨1, 1, 2⟩, ⟨7, 0, 2⟩, ⟨5, -2, 2⟩, ⟨1, 0, 0⟩] := by decide

/-- **What is written to the RP66V1 XML index**: expanding every stored `(datum, stride, repeat)` triple as
`datum + k·stride, k = 0 … repeat` gives back the list. -/
theorem items_expand (xs : List Int) :
    (create xs).flatMap (fun it => (List.range (it.rep + 1)).map (fun k : Nat => it.datum + it.stride * (k : Int))) = xs := by
  have e : (fun it : Item => (List.range (it.rep + 1)).map (fun k : Nat => it.datum + it.stride * (k : Int))) = Item.values := by
    funext it; exact (Item.values_eq it).symm
  rw [e]
  exact values_roundtrip xs

/-- **Position**: `create_rle(xs).value(i)` is Python's `xs[i]` for every integer `i` — non-negative, negative
(from the end), and out of range (IndexError). -/
theorem value_index (xs : List Int) (i : Int) : rleValue (create xs) i = pyIndex xs i := by
  have hv := values_roundtrip xs
  unfold pyIndex
  by_cases hi : 0 ≤ i
  · obtain ⟨k, rfl⟩ : ∃ k : Nat, i = (k : Int) := ⟨i.toNat, by omega⟩
    rw [rleValue_nat, hv]
    have h1 : ¬ ((k : Int) < 0) := by omega
    simp only [h1, if_false, Int.toNat_natCast]
    rfl
  · obtain ⟨k, rfl⟩ : ∃ k : Nat, i = -(k : Int) - 1 := ⟨(-i - 1).toNat, by omega⟩
    rw [rleValue_neg, hv]
    have h1 : (-(k : Int) - 1 < 0) := by omega
    simp only [h1, if_true]
    unfold getExc
    by_cases hk : k < xs.length
    · have h2 : ¬ (-(k : Int) - 1 + (xs.length : Int) < 0) := by omega
      simp only [h2, if_false]
      rw [List.getElem?_reverse hk]
      have : (-(k : Int) - 1 + (xs.length : Int)).toNat = xs.length - 1 - k := by omega
      rw [this]
      rfl
    · have h2 : (-(k : Int) - 1 + (xs.length : Int) < 0) := by omega
      simp only [h2, if_true]
      rw [List.getElem?_eq_none (by rw [List.length_reverse]; omega)]

/-- `value_index` read for a valid non-negative index. -/
theorem value_at (xs : List Int) (i : Nat) (h : i < xs.length) : rleValue (create xs) (i : Int) = .ok xs[i] := by
  rw [value_index]; unfold pyIndex
  have h1 : ¬ ((i : Int) < 0) := by omega
  simp [h1, h]

/-- `value_index` read for a valid negative index: `value(-1-i)` is the `i`-th value from the end. -/
theorem value_from_end (xs : List Int) (i : Nat) (h : i < xs.length) :
    rleValue (create xs) (-(i : Int) - 1) = .ok (xs[xs.length - 1 - i]'(by omega)) := by
  rw [value_index]; unfold pyIndex
  have h1 : (-(i : Int) - 1 < 0) := by omega
  have h2 : ¬ (-(i : Int) - 1 + (xs.length : Int) < 0) := by omega
  have h3 : (-(i : Int) - 1 + (xs.length : Int)).toNat = xs.length - 1 - i := by omega
  have h4 : xs.length - 1 - i < xs.length := by omega
  simp [h1, h2, h3, h4]

example : rleValue (create [4, 4, 9, 8, 7]) (-2) = .ok 8 ∧ rleValue (create [4, 4, 9, 8, 7]) 5 = .error .indexError
    ∧ rleValue (create [4, 4, 9, 8, 7]) (-6) = .error .indexError := by decide

/-- **Count, first, last**: `num_values()`, `first()`, `last()` (None for the empty encoding). -/
theorem num_first_last (xs : List Int) :
    numValues (create xs) = xs.length ∧ rleFirst (create xs) = xs.head? ∧ rleLast (create xs) = xs.getLast? := by
  rw [numValues_eq, rleFirst_eq, rleLast_eq, values_roundtrip]
  exact ⟨rfl, rfl, rfl⟩

/-- **largest_le** for every non-strictly ascending integer list: ValueError exactly when no stored value is `≤ q`
(empty list, or `q` below the first element); otherwise the greatest stored value that is `≤ q`. -/
theorem largest_le_spec (xs : List Int) (hs : xs.Pairwise (· ≤ ·)) (q : Int) :
    ((∀ x ∈ xs, q < x) → rleLargestLe (create xs) q = .error .valueError) ∧
    ((∃ x ∈ xs, x ≤ q) →
      ∃ m, rleLargestLe (create xs) q = .ok m ∧ m ∈ xs ∧ m ≤ q ∧ ∀ x ∈ xs, x ≤ q → x ≤ m) := by
  have h := rleLargestLe_spec (create xs) q (by rw [values_roundtrip]; exact hs)
  rw [values_roundtrip] at h
  exact h

example : [1, 2, 3, 7, 7, 12].Pairwise (· ≤ ·) := by decide

/-- the input classes of the repaired defects F2 / F3 (query equal to the datum of a single-value run; equal
neighbours) — the theorem applied to them. -/
example : ∃ m, rleLargestLe (create [1, 2, 3, 7]) 7 = .ok m ∧ m ∈ [1, 2, 3, 7] ∧ m ≤ 7 ∧ ∀ x ∈ [1, 2, 3, 7], x ≤ 7 → x ≤ m :=
  (largest_le_spec [1, 2, 3, 7] (by decide) 7).2 ⟨7, by decide, by decide⟩
example : rleValues (create [5, 5, 5]) = [5, 5, 5] := values_roundtrip _

/-! ### LIS frame index `RLEType01` -/

/-- **Frame → record**, against the plain record list: for record triples `(position, frames ≥ 1, x)` (positions need
not even be increasing) and every integer `k`, `tellLrForFrame(k)` is what walking the plain list gives: the position of
the record containing frame `k` and the offset inside it; IndexError for `k < 0` or `k ≥` total frames. -/
theorem tell_eq_locate (recs : List (Int × Int × Int)) (hn : ∀ r ∈ recs, 1 ≤ r.2.1) (k : Int) :
    tell01 (create01 recs) k = frameSpec recs k := by
  unfold tell01 frameSpec
  split
  · rfl
  · rename_i hk
    obtain ⟨h1, h2⟩ := recs01_foldl recs []
    have hrecs : recs01 (create01 recs) = recs.map (fun r => (r.1, r.2.1)) := by
      unfold create01; rw [h1]; simp [recs01]
    have hwf : ∀ it ∈ create01 recs, it.wf := h2 (by simp)
    have hnf : ∀ it ∈ create01 recs, 1 ≤ it.numFrames := by
      intro it hit
      have hm : (it.base.datum, it.numFrames) ∈ recs01 (create01 recs) := by
        simp only [recs01, List.mem_flatMap]
        exact ⟨it, hit, by simp [Item01.recs, Item.values]⟩
      rw [hrecs, List.mem_map] at hm
      obtain ⟨r, hr, he⟩ := hm
      have := hn r hr
      have e2 : r.2.1 = it.numFrames := congrArg Prod.snd he
      omega
    rw [tellLoop_eq_locate _ k (by omega) hwf hnf, hrecs]

/-- **Frame → record, closed form**: with frame counts ≥ 1, the frame at offset `off` of record `r` — i.e. frame number
`(frames of all earlier records) + off` — maps to `(position of r, off)`. -/
theorem tell_for_frame (pre : List (Int × Int × Int)) (r : Int × Int × Int) (post : List (Int × Int × Int)) (off : Int)
    (hn : ∀ s ∈ pre ++ r :: post, 1 ≤ s.2.1) (h0 : 0 ≤ off) (h1 : off < r.2.1) :
    tell01 (create01 (pre ++ r :: post)) ((pre.map (·.2.1)).sum + off) = .ok (r.1, off) := by
  rw [tell_eq_locate _ hn]
  unfold frameSpec
  have hpre : ∀ s ∈ pre, 1 ≤ s.2.1 := fun s hs => hn s (by simp [hs])
  have hsum : 0 ≤ (pre.map (·.2.1)).sum := by
    apply sum_nonneg_of
    intro x hx
    obtain ⟨s, hs, rfl⟩ := List.mem_map.1 hx
    have := hpre s hs; omega
  rw [if_neg (by omega), List.map_append, List.map_cons]
  have := locate_closed (pre.map (fun r => (r.1, r.2.1))) r.1 r.2.1 (post.map (fun r => (r.1, r.2.1))) off
    (by intro s hs; obtain ⟨t, ht, rfl⟩ := List.mem_map.1 hs; have := hpre t ht; simp only; omega) h0 h1
  simpa [List.map_map, Function.comp_def] using this

/-- frame numbers outside `0 … total-1` raise IndexError. -/
theorem tell_out_of_range (recs : List (Int × Int × Int)) (hn : ∀ r ∈ recs, 1 ≤ r.2.1) (k : Int)
    (hk : k < 0 ∨ (recs.map (·.2.1)).sum ≤ k) : tell01 (create01 recs) k = .error .indexError := by
  rw [tell_eq_locate _ hn]
  unfold frameSpec
  split
  · rfl
  · rename_i h0
    have hk' : (recs.map (·.2.1)).sum ≤ k := by omega
    clear hk h0
    induction recs generalizing k with
    | nil => simp [locate]
    | cons r rs ih =>
      simp only [List.map_cons, List.sum_cons] at hk'
      have hrs : 0 ≤ (rs.map (·.2.1)).sum := by
        apply sum_nonneg_of
        intro x hx
        obtain ⟨s, hs, rfl⟩ := List.mem_map.1 hx
        have := hn s (List.mem_cons_of_mem _ hs); omega
      simp only [List.map_cons, locate]
      rw [if_neg (by omega)]
      exact ih (fun s hs => hn s (List.mem_cons_of_mem _ hs)) _ (by omega)

/-- **Total frames**: `totalFrames()` is the sum of the frame counts added (any records). -/
theorem total_frames (recs : List (Int × Int × Int)) : totalFrames01 (create01 recs) = (recs.map (·.2.1)).sum := by
  rw [totalFrames01_eq]
  obtain ⟨h1, _⟩ := recs01_foldl recs []
  unfold create01; rw [h1]
  simp [recs01, List.map_map, Function.comp_def]

example : ∀ s ∈ [((10 : Int), (2 : Int), (0 : Int)), (20, 2, 5), (30, 2, 10), (50, 3, 11)], 1 ≤ s.2.1 := by decide
example : tell01 (create01 [(10, 2, 0), (20, 2, 5), (30, 2, 10), (50, 3, 11)]) 7 = .ok (50, 1) := by decide
example : create01 [(10, 2, 0), (20, 2, 5), (30, 2, 10), (50, 3, 11)]
    = [⟨⟨10, 10, 2⟩, 2, [⟨0, 5, 2⟩]⟩, ⟨⟨50, 0, 0⟩, 3, [⟨11, 0, 0⟩]⟩] := by decide

/-! ### floats (partial) -/

/-- **Floats — partial.**  Full statement wanted: for every list of finite floats, every value decoded by
`values()`/`value(i)` is within one stride-rounding of the value added, and the count is exact.
Proved here: over exact rationals, with `math.isclose(v, exp, rel_tol=eps)` abstracted as an arbitrary predicate
`close`, the decoded sequence has the same length as the input and each decoded value either *is* the value added or
is the expected value `datum + stride·k` that `close` accepted for it.  Missing: IEEE-754 rounding of
`v - datum`, `stride * k`, `datum + …` and of the repeated `v += stride` in `values()` (not modelled; the oracle
checks an explicit rounding bound on the real implementation). -/
theorem float_values_close_partial (close : Rat → Rat → Bool) (xs : List Rat) :
    List.Forall₂ (F.Rel close) xs (F.rleValues (F.create close xs)) ∧ F.numValues (F.create close xs) = xs.length := by
  obtain ⟨ys, h1, h2, h3⟩ := F.rleValues_foldl close xs []
  unfold F.create
  rw [h1, h3]
  simpa [F.rleValues, F.numValues] using h2

/-- with exact equality as the predicate the abstraction is an exact round trip (sanity of the abstraction). -/
theorem float_values_exact (xs : List Rat) : F.rleValues (F.create (fun a b => decide (a = b)) xs) = xs := by
  have h := (float_values_close_partial (fun a b => decide (a = b)) xs).1
  have : ∀ (a b : List Rat), List.Forall₂ (F.Rel (fun a b => decide (a = b))) a b → b = a := by
    intro a b hab
    induction hab with
    | nil => rfl
    | cons h _ ih =>
      rw [ih]; congr 1
      rcases h with h | h
      · exact h.symm
      · exact (of_decide_eq_true h).symm
  exact this _ _ h

example : F.numValues (F.create (fun a b => decide (a - b ≤ 1/1000 ∧ b - a ≤ 1/1000)) [0, 1/2, 1, 3/2 + 1/2000, 5]) = 5 :=
  (float_values_close_partial _ _).2

/-! ## Compression (what makes the index *run-length*) -/

/-- the arithmetic progression `a, a+d, …` of `n` terms -/
def prog (a d : Int) (n : Nat) : List Int := (List.range n).map (fun (k : Nat) => a + d * (k : Int))

/-- **A regular run is ONE item**: `create_rle` of an arithmetic progression of `n + 2` terms (any start, any stride —
zero and negative included — any length) is the single triple `(a, d, n + 1)`; so regularly spaced positions cost
O(1) index entries, and every later value that continues the run is absorbed (no spurious split). -/
theorem create_progression (a d : Int) (n : Nat) : create (prog a d (n + 2)) = [⟨a, d, n + 1⟩] := by
  induction n with
  | zero => simp [create, prog, List.range_succ, rleAdd, Item.new, Item.add]
  | succ n ih =>
    unfold create prog at ih ⊢
    rw [List.range_succ, List.map_append, List.foldl_append, ih]
    simp only [List.map_cons, List.map_nil, List.foldl_cons, List.foldl_nil, rleAdd, Item.add]
    have h1 : ¬ (n + 1 = 0) := by omega
    have h2 : a + d * ((n + 2 : Nat) : Int) = a + d * (((n + 1 : Nat) : Int) + 1) := by push_cast; ring_nf
    simp only [h1, if_false, h2, if_true]

/-- **A value off the run starts a new item** (and only then): appending `v` to a progression of at least two terms
keeps one item iff `v` is the next term. -/
theorem create_progression_snoc (a d : Int) (n : Nat) (v : Int) :
    create (prog a d (n + 2) ++ [v]) =
      if v = a + d * ((n : Int) + 2) then [⟨a, d, n + 2⟩] else [⟨a, d, n + 1⟩, ⟨v, 0, 0⟩] := by
  unfold create
  rw [List.foldl_append]
  have := create_progression a d n
  unfold create at this
  rw [this]
  have h1 : ¬ (n + 1 = 0) := by omega
  have h2 : a + d * (((n + 1 : Nat) : Int) + 1) = a + d * ((n : Int) + 2) := by push_cast; ring_nf
  by_cases hv : v = a + d * ((n : Int) + 2)
  · simp only [List.foldl_cons, List.foldl_nil, rleAdd, Item.add, h1, if_false, h2, hv, if_true]
  · simp only [List.foldl_cons, List.foldl_nil, rleAdd, Item.add, Item.new, h1, if_false, h2, hv]

/-- **Never more items than values**: `len(rle) ≤ len(xs)` and `num_values` is the number of values. -/
theorem create_length_le (xs : List Int) : (create xs).length ≤ xs.length ∧ numValues (create xs) = xs.length := by
  have hn : numValues (create xs) = xs.length := by rw [numValues_eq, values_roundtrip]
  refine ⟨?_, hn⟩
  have : ∀ items : List Item, items.length ≤ numValues items := by
    intro items
    induction items with
    | nil => simp [numValues]
    | cons it rest ih =>
      simp only [numValues, List.map_cons, List.sum_cons, List.length_cons, Item.len] at ih ⊢
      omega
  exact hn ▸ this _

example : create (prog 1000 (-8) 5000) = [⟨1000, -8, 4999⟩] := create_progression 1000 (-8) 4998
example : create (prog 7 0 3 ++ [8]) = [⟨7, 0, 2⟩, ⟨8, 0, 0⟩] := by
  rw [create_progression_snoc 7 0 1 8]; decide

/-! ## Structural invariant of the index and the compression bound (for every list) -/

/-- **Invariant**: every run but the newest holds at least two values (`repeat ≥ 1`) — a single value always absorbs
the next one, so singleton items can only be last. -/
def FullButLast (items : List Item) : Prop := ∀ it ∈ items.dropLast, 1 ≤ it.rep

/-- the invariant is preserved by `RLE.add` (one step) -/
theorem rleAdd_fullButLast (items : List Item) (v : Int) (h : FullButLast items) : FullButLast (rleAdd items v) := by
  unfold FullButLast at *
  fun_induction rleAdd items v with
  | case1 v => simp [Item.new]
  | case2 lastItem v it' hadd => simp
  | case3 lastItem v hadd =>
    intro it hit
    simp at hit
    subst hit
    unfold Item.add at hadd
    by_cases h0 : it.rep = 0
    · simp [h0] at hadd
    · omega
  | case4 it rest v hne ih =>
    intro x hx
    have hr : rleAdd rest v ≠ [] := by
      cases rest with
      | nil => simp at hne
      | cons a r => 
        cases r with
        | nil => simp only [rleAdd]; split <;> simp
        | cons b r' => simp [rleAdd]
    rw [List.dropLast_cons_of_ne_nil hr] at hx
    have hrest : rest ≠ [] := by intro e; subst e; simp at hne
    rw [List.dropLast_cons_of_ne_nil hrest] at h
    rcases List.mem_cons.1 hx with hx | hx
    · subst hx; exact h _ (List.mem_cons_self ..)
    · exact ih (fun y hy => h y (List.mem_cons_of_mem _ hy)) x hx


/-- … hence holds for every index `create_rle` builds (induction over the values added). -/
theorem create_fullButLast (xs : List Int) : FullButLast (create xs) := by
  unfold create
  have : ∀ (xs : List Int) (items : List Item), FullButLast items → FullButLast (xs.foldl rleAdd items) := by
    intro xs
    induction xs with
    | nil => intro items h; simpa using h
    | cons x xs ih => intro items h; exact ih _ (rleAdd_fullButLast items x h)
  exact this xs [] (by simp [FullButLast])

theorem fullButLast_bound (items : List Item) (h : FullButLast items) : 2 * items.length ≤ numValues items + 1 := by
  induction items with
  | nil => simp
  | cons it rest ih =>
    by_cases hr : rest = []
    · subst hr; simp [numValues, Item.len]
    · unfold FullButLast at h ih
      rw [List.dropLast_cons_of_ne_nil hr] at h
      have h1 := h it (List.mem_cons_self ..)
      have h2 := ih (fun y hy => h y (List.mem_cons_of_mem _ hy))
      simp only [numValues, List.map_cons, List.sum_cons, List.length_cons, Item.len] at h2 ⊢
      omega

/-- **Compression bound**: `create_rle` never needs more than ⌈n/2⌉ items for `n` values, whatever the values. -/
theorem create_half_bound (xs : List Int) : 2 * (create xs).length ≤ xs.length + 1 := by
  have := fullButLast_bound _ (create_fullButLast xs)
  rw [(create_length_le xs).2] at this
  exact this

example : FullButLast (create [1, 2, 3, 7, 7, 7, 5, 3, 1, 1]) ∧ 2 * (create [5, 9, 1, 1, 4]).length = 5 + 1 := by
  refine ⟨create_fullButLast _, by decide⟩   -- the bound is attained: [5,9] [1,1] [4]

end TD.C16
