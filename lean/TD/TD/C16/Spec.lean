/-
C16 — independent specifications (plain lists, no run-length encoding).  Core Lean only.
-/
import TD.C16.Model
namespace TD.C16

/-- Python list indexing `xs[i]` (negative `i` counts from the end; out of range raises IndexError). -/
def pyIndex (xs : List Int) (i : Int) : Except Err Int :=
  let j := if i < 0 then i + (xs.length : Int) else i
  if j < 0 then .error .indexError
  else match xs[j.toNat]? with
    | some v => .ok v
    | none => .error .indexError

/-- Walk the plain list of `(record position, frames in record)` pairs: the record that contains frame `k` and the
offset of `k` inside it; past the end is an IndexError. -/
def locate : List (Int × Int) → Int → Except Err (Int × Int)
  | [], _ => .error .indexError
  | (p, n) :: rest, k => if k < n then .ok (p, k) else locate rest (k - n)

/-- `tellLrForFrame` as it should behave on the plain record list. -/
def frameSpec (recs : List (Int × Int × Int)) (k : Int) : Except Err (Int × Int) :=
  if k < 0 then .error .indexError else locate (recs.map (fun r => (r.1, r.2.1))) k

end TD.C16
