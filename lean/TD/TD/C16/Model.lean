/-
C16 — model of `TotalDepth/common/Rle.py` (RLEItem, RLE, create_rle) and of
`TotalDepth/LIS/core/Rle.py` (RLEItemType01, RLEType01), as the code is in /repo/src.
Core Lean only (no Mathlib): the driver is compiled from this file.

Python `int` is `Int`, `repeat` (a count) is `Nat`, a Python exception is `Except Err`.
The optional conversion function `RLE(theFunc)` is `None` in every production caller and is not modelled.

The integer model (`Item`, `RLE…`) is the primary one.  Section `F` repeats `RLEItem.add`/`values`/`value` over `Rat`
with `math.isclose` abstracted as a parameter `close : Rat → Rat → Bool` (float arithmetic itself is not modelled).
-/
namespace TD.C16

inductive Err where
  | valueError | indexError | zeroDivision | assertion
  deriving Repr, DecidableEq

/-! ### `class RLEItem` -/

/-- One run: `datum`, `stride`, `repeat` (= number of *further* values). -/
structure Item where
  datum : Int
  stride : Int
  rep : Nat
  deriving Repr, DecidableEq

/-- `RLEItem.__init__(datum)`. -/
def Item.new (v : Int) : Item := ⟨v, 0, 0⟩

/-- `RLEItem.__len__`. -/
def Item.len (it : Item) : Nat := it.rep + 1

/-- `RLEItem.add(v)`: `some it'` = returned True (with the mutated item), `none` = returned False (item unchanged). -/
def Item.add (it : Item) (v : Int) : Option Item :=
  if it.rep = 0 then
    some { it with stride := v - it.datum, rep := 1 }
  else
    let expValue := it.datum + it.stride * ((it.rep : Int) + 1)
    if v = expValue then some { it with rep := it.rep + 1 } else none

/-- body of the `for i in range(self.repeat)` loop of `RLEItem.values`: `v += stride; yield v`. -/
def valuesLoop (stride : Int) : Nat → Int → List Int
  | 0, _ => []
  | n + 1, v => (v + stride) :: valuesLoop stride n (v + stride)

/-- `list(RLEItem.values())`. -/
def Item.values (it : Item) : List Int := it.datum :: valuesLoop it.stride it.rep it.datum

/-- `RLEItem.value(i)` → `(i', v or None)`. -/
def Item.value (it : Item) (i : Int) : Int × Option Int :=
  if i ≥ 0 then
    if i > it.rep then (i - it.rep - 1, none)
    else if it.rep = 0 then (i, some it.datum)
    else (i, some (it.datum + i * it.stride))
  else
    if -i > (it.rep : Int) + 1 then (i + it.rep + 1, none)
    else (i, some (it.datum + ((it.rep : Int) + i + 1) * it.stride))

/-- `RLEItem.last()`. -/
def Item.last (it : Item) : Int :=
  if it.rep = 0 then it.datum else it.datum + it.stride * (it.rep : Int)

/-- `RLEItem.largest_le(value)` (Python `//` is floor division; `int()` of an int is the identity). -/
def Item.largestLe (it : Item) (value : Int) : Except Err Int :=
  if it.datum > value then .error .valueError
  else
    let last := it.last
    if value > last then .ok last
    else if it.stride = 0 then .ok it.datum
    else
      let index := Int.fdiv (value - it.datum) it.stride
      .ok (it.datum + it.stride * index)

/-! ### `class RLE`  (`rle_items` is a `List Item`, oldest first) -/

/-- `RLE.add(v)`: `if len(items) == 0 or not items[-1].add(v): items.append(RLEItem(v))`.
The recursion only walks to the last item (`items[-1]`). -/
def rleAdd : List Item → Int → List Item
  | [], v => [Item.new v]
  | [lastItem], v =>
    match lastItem.add v with
    | some it' => [it']
    | none => [lastItem, Item.new v]
  | it :: rest, v => it :: rleAdd rest v

/-- `create_rle(values)`. -/
def create (xs : List Int) : List Item := xs.foldl rleAdd []

/-- `list(RLE.values())`. -/
def rleValues (items : List Item) : List Int := items.flatMap Item.values

/-- `RLE.num_values()`. -/
def numValues (items : List Item) : Nat := (items.map Item.len).sum

/-- the `for r in …: i, v = r.value(i); if v is not None: return v` loop, then `raise IndexError`. -/
def valueLoop : List Item → Int → Except Err Int
  | [], _ => .error .indexError
  | r :: rs, i =>
    match r.value i with
    | (_, some v) => .ok v
    | (i', none) => valueLoop rs i'

/-- `RLE.value(i)`. -/
def rleValue (items : List Item) (i : Int) : Except Err Int :=
  if i ≥ 0 then valueLoop items i else valueLoop items.reverse i

/-- `RLE.first()` (None when empty). -/
def rleFirst : List Item → Option Int
  | [] => none
  | it :: _ => some it.datum

/-- `RLE.last()` (None when empty). -/
def rleLast (items : List Item) : Option Int := items.getLast?.map Item.last

/-- the `while lo < hi` loop of `RLE.largest_le` (bisect_right on the datums). -/
def bisect (items : List Item) (value : Int) (lo hi : Nat) : Nat :=
  if lo < hi then
    let mid := (lo + hi) / 2
    match items[mid]? with
    | some it => if value < it.datum then bisect items value lo mid else bisect items value (mid + 1) hi
    | none => lo   -- not reachable: mid < hi ≤ len(items)
  else lo
termination_by hi - lo
decreasing_by all_goals omega

/-- `RLE.largest_le(value)`. -/
def rleLargestLe (items : List Item) (value : Int) : Except Err Int :=
  let lo := bisect items value 0 items.length
  if lo ≠ 0 then
    match items[lo - 1]? with
    | some it => it.largestLe value
    | none => .error .indexError   -- not reachable
  else .error .valueError

/-! ### LIS `class RLEItemType01(RLEItem)` / `class RLEType01(RLE)` -/

/-- `RLEItemType01`: the base `RLEItem` over record positions, `_numFrames`, and the `RLE` of X-axis values. -/
structure Item01 where
  base : Item
  numFrames : Int
  xaxis : List Item
  deriving Repr, DecidableEq

/-- `RLEItemType01.__init__(tellLrPos, numFrameS, xAxisValue)`. -/
def Item01.new (pos nf x : Int) : Item01 := ⟨Item.new pos, nf, rleAdd [] x⟩

/-- `RLEItemType01.add`: the eliminating test on `numFrameS` comes *before* `super().add` (which mutates). -/
def Item01.add (it : Item01) (pos nf x : Int) : Option Item01 :=
  if nf ≠ it.numFrames then none
  else match it.base.add pos with
    | none => none
    | some b => some { it with base := b, xaxis := rleAdd it.xaxis x }

/-- `RLEItemType01.value(i)` → `(i', (pos, numFrames, x) or None)`; the X-axis lookup may raise. -/
def Item01.value (it : Item01) (i : Int) : Except Err (Int × Option (Int × Int × Int)) :=
  match it.base.value i with
  | (i', none) => .ok (i', none)
  | (i', some v) =>
    match rleValue it.xaxis i' with
    | .ok x => .ok (i', some (v, it.numFrames, x))
    | .error e => .error e

/-- `RLEItemType01.totalFrames()`. -/
def Item01.totalFrames (it : Item01) : Int := it.numFrames * ((it.base.rep : Int) + 1)

/-- `RLEItemType01.tellLrForFrame(fNum)` (note the `<=`, kept as coded; Python `%`, `//` are floor operations). -/
def Item01.tell (it : Item01) (f : Int) : Except Err (Int × Option (Int × Int × Int)) :=
  if ¬ (f ≥ 0) then .error .assertion
  else
    let totalF := it.totalFrames
    if f ≤ totalF then
      if it.numFrames = 0 then .error .zeroDivision
      else
        match it.value (Int.fdiv f it.numFrames) with
        | .ok (_, v) => .ok (Int.fmod f it.numFrames, v)
        | .error e => .error e
    else .ok (f - totalF, none)

/-- `RLEType01.add(tellLrPos, numFrameS, xAxisValue)`. -/
def add01 : List Item01 → Int → Int → Int → List Item01
  | [], p, n, x => [Item01.new p n x]
  | [lastItem], p, n, x =>
    match lastItem.add p n x with
    | some it' => [it']
    | none => [lastItem, Item01.new p n x]
  | it :: rest, p, n, x => it :: add01 rest p n x

/-- feed a list of `(position, frames, x)` records into an empty `RLEType01`. -/
def create01 (recs : List (Int × Int × Int)) : List Item01 :=
  recs.foldl (fun items r => add01 items r.1 r.2.1 r.2.2) []

/-- the loop of `RLEType01.tellLrForFrame`. -/
def tellLoop : List Item01 → Int → Except Err (Int × Int)
  | [], _ => .error .indexError
  | r :: rs, f =>
    match r.tell f with
    | .error e => .error e
    | .ok (f', some v) => .ok (v.1, f')
    | .ok (f', none) => tellLoop rs f'

/-- `RLEType01.tellLrForFrame(fNum)` → `(lr_seek, frame_offset)`. -/
def tell01 (items : List Item01) (f : Int) : Except Err (Int × Int) :=
  if f < 0 then .error .indexError else tellLoop items f

/-- `RLEType01.totalFrames()`. -/
def totalFrames01 (items : List Item01) : Int := (items.map Item01.totalFrames).sum

/-! ### Float abstraction: `RLEItem`/`RLE` over `Rat`, `math.isclose(v, exp, rel_tol=eps)` as a parameter -/
namespace F

structure Item where
  datum : Rat
  stride : Rat
  rep : Nat

def Item.new (v : Rat) : Item := ⟨v, 0, 0⟩

/-- `RLEItem.add(v)` for `isinstance(v, float)`. -/
def Item.add (close : Rat → Rat → Bool) (it : Item) (v : Rat) : Option Item :=
  if it.rep = 0 then
    some { it with stride := v - it.datum, rep := 1 }
  else
    let expValue := it.datum + it.stride * ((it.rep + 1 : Nat) : Rat)
    if close v expValue then some { it with rep := it.rep + 1 } else none

def valuesLoop (stride : Rat) : Nat → Rat → List Rat
  | 0, _ => []
  | n + 1, v => (v + stride) :: valuesLoop stride n (v + stride)

def Item.values (it : Item) : List Rat := it.datum :: valuesLoop it.stride it.rep it.datum

def rleAdd (close : Rat → Rat → Bool) : List Item → Rat → List Item
  | [], v => [Item.new v]
  | [lastItem], v =>
    match lastItem.add close v with
    | some it' => [it']
    | none => [lastItem, Item.new v]
  | it :: rest, v => it :: rleAdd close rest v

def create (close : Rat → Rat → Bool) (xs : List Rat) : List Item := xs.foldl (rleAdd close) []

def rleValues (items : List Item) : List Rat := items.flatMap Item.values

def numValues (items : List Item) : Nat := (items.map (fun it => it.rep + 1)).sum

end F

end TD.C16
