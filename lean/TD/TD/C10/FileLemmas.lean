import TD.C10.File
import TD.C10.Compose
import TD.C09.Props

/-! C10 — the writer's whole text is an instance of the C09 printer (`fileText_eq_print`). -/
namespace TD.C10
set_option linter.unusedSimpArgs false

open TD.C09 (Str HLine DCell CSect LasContent LasLayout HPad SectLay RowLay JunkLine spaces oneLine blanks sep joinToks
  printJunk printJunkLine printHLine printHLines printHBody printHead printSect printSects printRows printRowUnwrapped
  printDataLine printCell printValue)

theorem spaces_add (a b : Nat) : spaces (a + b) = spaces a ++ spaces b := by
  unfold spaces; exact List.replicate_add _ _ _

theorem oneLine_id (t : Str) (h : ∀ c ∈ t, c ≠ '\n') : oneLine t = t := by
  unfold oneLine
  rw [List.filter_eq_self]
  intro c hc; simp [h c hc]

theorem blanks_false (n : Nat) : blanks (List.replicate n false) = List.replicate n ' ' := by
  simp [blanks, TD.C09.blankChar]

/-! ### the curve section -/

theorem curve_line (w0 w1 : Nat) (c : ChanF) :
    printHBody (curveHLine c) (curvePad w0 w1 false c) ++ ['\n'] = tableLine w0 w1 (col0 c) (col1 c) := by
  simp only [printHBody, curveHLine, curvePad, printValue, List.isEmpty_nil, if_true, tableLine, padR, col0, col1,
    spaces_add, List.append_assoc, List.cons_append, List.nil_append]
  simp [spaces]

theorem curve_lines (w0 w1 : Nat) (cs : List ChanF) :
    printHLines (cs.map curveHLine) (curvePads w0 w1 false cs) =
      (cs.map (fun c => tableLine w0 w1 (col0 c) (col1 c))).flatten := by
  induction cs with
  | nil => rfl
  | cons c cs ih =>
    simp only [List.map_cons, printHLines, curvePads, List.headD_cons, List.tail_cons, List.flatten_cons, ih]
    congr 1
    have := curve_line w0 w1 c
    simp only [printHLine, curvePad, if_false, printJunk, List.map_nil, List.flatten_nil, List.nil_append] at this ⊢
    simpa [spaces, List.append_assoc] using this

theorem padR_noLF (w : Nat) (s : Str) (h : ∀ c ∈ s, c ≠ '\n') : ∀ c ∈ padR w s, c ≠ '\n' := by
  intro c hc
  rcases List.mem_append.1 hc with h1 | h1
  · exact h c h1
  · have := List.eq_of_mem_replicate h1; subst this; decide

theorem hdr_comment (w0 w1 : Nat) (a b : Str) (ra : Str) (ha : a = '#' :: ra) (hna : ∀ c ∈ a, c ≠ '\n')
    (hnb : ∀ c ∈ b, c ≠ '\n') :
    printJunkLine (.comment 0 ((padR w0 a).drop 1 ++ ' ' :: ' ' :: padR w1 b)) = tableLine w0 w1 a b := by
  have hdrop : padR w0 a = '#' :: (padR w0 a).drop 1 := by subst ha; simp [padR]
  have hnl : ∀ c ∈ (padR w0 a).drop 1 ++ ' ' :: ' ' :: padR w1 b, c ≠ '\n' := by
    intro c hc
    rcases List.mem_append.1 hc with h | h
    · exact padR_noLF w0 a hna c (List.mem_of_mem_drop h)
    · rcases List.mem_cons.1 h with h | h
      · subst h; decide
      · rcases List.mem_cons.1 h with h | h
        · subst h; decide
        · exact padR_noLF w1 b hnb c h
  simp only [printJunkLine, oneLine_id _ hnl, spaces, List.replicate_zero, List.nil_append, tableLine]
  rw [hdrop]
  simp [List.append_assoc]

theorem curve_block (w0 w1 : Nat) (c : ChanF) (cs : List ChanF) :
    printHLines ((c :: cs).map curveHLine) (curvePads w0 w1 true (c :: cs)) =
      tableLine w0 w1 hdr0a hdr1a ++ (tableLine w0 w1 hdr0b hdr1b ++
        ((c :: cs).map (fun c => tableLine w0 w1 (col0 c) (col1 c))).flatten) := by
  have h1 := hdr_comment w0 w1 hdr0a hdr1a _ rfl (by decide) (by decide)
  have h2 := hdr_comment w0 w1 hdr0b hdr1b _ rfl (by decide) (by decide)
  have hl := curve_line w0 w1 c
  have hb : printHBody (curveHLine c) (curvePad w0 w1 true c) = printHBody (curveHLine c) (curvePad w0 w1 false c) := rfl
  simp only [List.map_cons, printHLines, curvePads, List.headD_cons, List.tail_cons, List.flatten_cons, curve_lines]
  unfold printHLine
  rw [hb]
  have hj : (curvePad w0 w1 true c).junk = [.comment 0 ((padR w0 hdr0a).drop 1 ++ ' ' :: ' ' :: padR w1 hdr1a),
      .comment 0 ((padR w0 hdr0b).drop 1 ++ ' ' :: ' ' :: padR w1 hdr1b)] := rfl
  have hlead : (curvePad w0 w1 true c).lead = 0 := rfl
  rw [hj, hlead]
  simp only [printJunk, List.map_cons, List.map_nil, List.flatten_cons, List.flatten_nil, List.append_nil, h1, h2,
    spaces, List.replicate_zero, List.nil_append, List.append_assoc]
  rw [← hl]
  simp only [List.append_assoc]

theorem curve_head (l : List HPad) :
    printHead 'C' { junk := [], lead := 0, title := "urve Information Section".toList, lines := l } =
      "~Curve Information Section\n".toList := by
  simp only [printHead, printJunk, List.map_nil, List.flatten_nil, spaces, List.replicate_zero, List.nil_append]
  decide

/-- the `~Curve Information Section` block is the C09 printing of the curve lines under `curveLay` -/
theorem curveSection_eq (c : ChanF) (cs : List ChanF) :
    curveSection (c :: cs) = printSect (.hdr 'C' ((c :: cs).map curveHLine)) (curveLay (c :: cs)) := by
  have hb := curve_block (maxLen 10 ((c :: cs).map col0)) (maxLen 17 ((c :: cs).map col1)) c cs
  have hh := curve_head (curvePads (maxLen 10 ((c :: cs).map col0)) (maxLen 17 ((c :: cs).map col1)) true (c :: cs))
  have hs : printSect (.hdr 'C' ((c :: cs).map curveHLine)) (curveLay (c :: cs)) =
      printHead 'C' (curveLay (c :: cs)) ++ printHLines ((c :: cs).map curveHLine) (curveLay (c :: cs)).lines := rfl
  rw [hs]
  unfold curveLay
  simp only []
  rw [hh, hb]
  unfold curveSection
  simp only [List.append_assoc]

/-! ### comment lines and the `~A` line -/

theorem commentLines_eq (cmts : List Str) : printJunk (cmts.map (fun t => JunkLine.comment 0 t)) = commentLines cmts := by
  induction cmts with
  | nil => rfl
  | cons t ts ih =>
    simp only [printJunk, commentLines, List.map_cons, List.flatten_cons, List.map_map] at ih ⊢
    rw [ih]
    simp [printJunkLine, spaces]

theorem headLine_noLF (w : Nat) (cols : List Col) (h : ∀ p ∈ cols, ∀ c ∈ p.2, c ≠ '\n') :
    ∀ c ∈ headLine w cols, c ≠ '\n' := by
  intro c hc
  simp only [headLine, List.mem_cons, List.mem_flatMap] at hc
  rcases hc with hc | hc | ⟨p, hp, hc⟩
  · subst hc; decide
  · subst hc; decide
  · have hpad : ∀ k, ∀ x ∈ padLeft k p.2, x ≠ '\n' := by
      intro k x hx
      rcases List.mem_append.1 hx with h1 | h1
      · have := List.eq_of_mem_replicate h1; subst this; decide
      · exact h p hp x h1
    split at hc
    · exact hpad _ c hc
    · rcases List.mem_cons.1 hc with h1 | h1
      · subst h1; decide
      · exact hpad _ c h1

theorem head_eq (sel : List (ChanF × Nat)) (w : Nat) (cmts : List Str)
    (h : ∀ p ∈ sel, ∀ c ∈ p.1.ch.ident, c ≠ '\n') :
    printHead 'A' (headLay sel w cmts) =
      commentLines cmts ++ headLine w (sel.map (fun p => (p.2, p.1.ch.ident))) ++ ['\n'] := by
  have hn := headLine_noLF w (sel.map (fun p => (p.2, p.1.ch.ident)))
    (by intro p hp; obtain ⟨q, hq, rfl⟩ := List.mem_map.1 hp; exact h q hq)
  have hdrop : headLine w (sel.map (fun p => (p.2, p.1.ch.ident))) =
      '~' :: 'A' :: (headLine w (sel.map (fun p => (p.2, p.1.ch.ident)))).drop 2 := by
    simp [headLine]
  simp only [printHead, headLay, commentLines_eq, spaces, List.replicate_zero, List.nil_append]
  rw [oneLine_id _ (fun c hc => hn c (List.mem_of_mem_drop hc))]
  conv_rhs => rw [hdrop]
  simp [List.append_assoc]

/-! ### data rows -/

theorem joinToks_tail (w : Nat) (t0 : Str) (rest : List Col) :
    joinToks (t0 :: rest.map (·.2)) (rest.map (fun p => List.replicate (w - p.2.length) false)) =
      t0 ++ tailLine w rest := by
  induction rest generalizing t0 with
  | nil => simp [joinToks, tailLine]
  | cons p ps ih =>
    simp only [List.map_cons, joinToks, List.headD_cons, List.tail_cons, ih, sep, blanks_false, tailLine,
      List.flatMap_cons, padLeft, List.append_assoc, List.cons_append]

theorem row_eq (w : Nat) (t0 : Str) (rest : List Col) (hpos : ∀ p ∈ rest, 0 < p.1) :
    rowLine w ((0, t0) :: rest) ++ ['\n'] =
      printDataLine (t0 :: rest.map (·.2)) (rowLayOf w ((0, t0) :: rest)) := by
  have h1 : rowLine w ((0, t0) :: rest) = padLeft w t0 ++ rowLine w rest := by simp [rowLine]
  rw [h1, rowLine_tail w rest hpos]
  have hb : blanks ([] : List Bool) = [] := rfl
  simp only [printDataLine, rowLayOf, List.headD_cons, List.tail_cons, joinToks_tail, blanks_false, hb,
    List.append_nil, padLeft, List.append_assoc]

theorem printRows_map {α : Type} (l : List α) (F : α → List DCell) (G : α → RowLay) :
    printRows false (l.map F) (l.map G) = (l.map (fun f => printRowUnwrapped (F f) (G f))).flatten := by
  induction l with
  | nil => rfl
  | cons a l ih => simp [printRows, ih]

theorem printSects_append (pre : List CSect) (lpre : List SectLay) (s : CSect) (ls : SectLay)
    (hlen : lpre.length = pre.length) :
    printSects (pre ++ [s]) (lpre ++ [ls]) = printSects pre lpre ++ printSect s ls := by
  induction pre generalizing lpre with
  | nil =>
    have : lpre = [] := List.eq_nil_of_length_eq_zero hlen
    subst this; simp [printSects]
  | cons p ps ih =>
    cases lpre with
    | nil => simp at hlen
    | cons l ls' =>
      simp only [List.cons_append, printSects, List.headD_cons, List.tail_cons, List.append_assoc]
      rw [ih ls' (by simpa using hlen)]

/-- the selection starts with channel 0 and every other listed channel has a positive index -/
theorem selF_shape (c0 : ChanF) (cs : List ChanF) (S : List Str) :
    ∃ rest, selF (c0 :: cs) S = (c0, 0) :: rest ∧ ∀ p ∈ rest, 0 < p.2 := by
  refine ⟨(cs.zipIdx 1).filter (fun p => (addXAxis ((c0 :: cs).map (·.ch.ident)) S).isEmpty || p.2 == 0 ||
    (addXAxis ((c0 :: cs).map (·.ch.ident)) S).contains p.1.ch.ident), ?_, ?_⟩
  · simp [selF, List.zipIdx_cons, List.filter_cons]
  · intro p hp
    have := (List.mem_filter.1 hp).1
    have := List.le_snd_of_mem_zipIdx this
    omega

/-- **the writer's text is an instance of the C09 printer** (channel identities without line feeds) -/
theorem fileText_eq_print (v : List HLine) (lv : SectLay) (pre : List CSect) (lpre : List SectLay)
    (c0 : ChanF) (cs : List ChanF) (S : List Str) (red : Reduction) (w d n : Nat) (cmts : List Str)
    (hlen : lpre.length = pre.length) (hwrap : TD.C09.wrapOf ⟨v, [], []⟩ = false)
    (hidsel : ∀ p ∈ selF (c0 :: cs) S, ∀ x ∈ p.1.ch.ident, x ≠ '\n') :
    headerText v lv pre lpre ++ fileText (c0 :: cs) S red w d n cmts =
      TD.C09.print (contentOf v pre (c0 :: cs) S red d n) (layoutOf lv lpre (c0 :: cs) S red w d n cmts) := by
  obtain ⟨rest, hsel, hpos⟩ := selF_shape c0 cs S
  have hwr : TD.C09.wrapOf (contentOf v pre (c0 :: cs) S red d n) = false := hwrap
  unfold TD.C09.print
  rw [hwr]
  simp only [contentOf, layoutOf, headerText, printSects_append pre lpre _ _ hlen, printRows_map, printJunk,
    List.map_nil, List.flatten_nil, List.append_nil, List.append_assoc]
  congr 2
  simp only [fileText, List.append_assoc]
  rw [head_eq _ w cmts hidsel]
  rw [hsel] at hidsel ⊢
  have hcs := curveSection_eq c0 (rest.map (·.1))
  simp only [List.map_cons, List.map_map, Function.comp_def] at hcs ⊢
  rw [← hcs]
  simp only [List.append_assoc]
  congr 4
  congr 1
  apply List.map_congr_left
  intro f _
  have := row_eq w (cellText red c0.ch.isInt d (valAt red f c0.ch))
    (rest.map (fun p => (p.2, cellText red p.1.ch.isInt d (valAt red f p.1.ch))))
    (by intro p hp; obtain ⟨q, hq, rfl⟩ := List.mem_map.1 hp; exact hpos q hq)
  simp only [rowCols, List.map_cons, printRowUnwrapped, printJunk, rowLayOf, List.map_nil, List.flatten_nil,
    List.nil_append, rowCells, printCell, List.map_map, Function.comp_def] at this ⊢
  rw [this]

/-! ### what is read back -/

theorem curvesOf_contentOf (v : List HLine) (pre : List CSect) (chans : List ChanF) (S : List Str) (red : Reduction)
    (d n : Nat) (hpre : ∀ s ∈ pre, s.typ ≠ 'C') :
    TD.C09.curvesOf (contentOf v pre chans S red d n) = (selF chans S).map (fun p => curveHLine p.1) := by
  have hnone : pre.find? (fun s => s.typ == 'C') = none := by
    rw [List.find?_eq_none]; intro s hs; simp [hpre s hs]
  simp only [TD.C09.curvesOf, contentOf]
  rw [List.find?_append, hnone]
  simp [CSect.typ]


end TD.C10
