/-
C10 — model of the LAS frame-array writers of `TotalDepth/LAS/core/WriteLAS.py`
(`_add_x_axis_to_channels_to_write`, `write_curve_section_to_las`, `write_array_section_header_to_las`,
`write_array_section_data_to_las`, `array_reduce`) AS CODED.  Core Lean only (no Mathlib): the native driver
`drv_c10` imports this file.

Python values that may be a channel identity (`typing.Hashable`) are an abstract type `Obj` with decidable equality;
`stringify : Obj → Obj` is `WriteLAS._stringify` (identity on `str`, ascii-decode on `bytes`, `str()` on the rest).
A requested channel set is a `List Obj` used only through `isEmpty`/membership (Python `set`).
Numbers subject to printing are core `Rat`; float64 rounding of `np.mean`/`np.median` is NOT modelled (exercised by
the harness only).
-/
namespace TD.C10

/-! ## 1. Which channels are written -/
section Selection
variable {Obj : Type} [DecidableEq Obj]

/-- `_add_x_axis_to_channels_to_write`: `if len(S) != 0: S.add(frame_array.x_axis.ident)` (set insertion).
For a frame array without channels `x_axis` raises; every caller has already raised by then
(`len(frame_array.x_axis)`), the model returns the set unchanged. -/
def addXAxis (idents : List Obj) (S : List Obj) : List Obj :=
  if S.isEmpty then S else
    match idents with
    | [] => S
    | x :: _ => if S.contains x then S else x :: S

/-- `write_curve_section_to_las`: `for c, channel in enumerate(channels):
      if len(channels) == 0 or c == 0 or _stringify(channel.ident) in channels` — the indices listed. -/
def curveSel (stringify : Obj → Obj) (idents : List Obj) (S : List Obj) : List Nat :=
  (idents.zipIdx.filter (fun p => S.isEmpty || p.2 == 0 || S.contains (stringify p.1))).map (·.2)

/-- `write_array_section_header_to_las` (after `_add_x_axis_to_channels_to_write`):
    `if len(S) == 0 or c == 0 or channel.ident in S`. -/
def headSel (idents : List Obj) (S : List Obj) : List Nat :=
  (idents.zipIdx.filter (fun p => S.isEmpty || p.2 == 0 || S.contains p.1)).map (·.2)

/-- `write_array_section_data_to_las` (after `_add_x_axis_to_channels_to_write`):
    `if len(S) == 0 or channel.ident in S` — there is NO `c == 0` here. -/
def rowSel (idents : List Obj) (S : List Obj) : List Nat :=
  (idents.zipIdx.filter (fun p => S.isEmpty || S.contains p.1)).map (·.2)

/-- The three lists of channel indices written by one call of `write_curve_and_array_section_to_las`. -/
structure Selection where
  curve : List Nat
  head : List Nat
  rows : List Nat
  deriving DecidableEq, Repr

/-- `write_curve_and_array_section_to_las`: the curve section sees the ORIGINAL set; the header mutates it
(`S1`), the data writer receives the mutated set and mutates it again (`S2`).  Every data row uses `S2`. -/
def writeSel (stringify : Obj → Obj) (idents : List Obj) (S : List Obj) : Selection :=
  let curve := curveSel stringify idents S
  let S1 := addXAxis idents S
  let head := headSel idents S1
  let S2 := addXAxis idents S1
  let rows := rowSel idents S2
  { curve, head, rows }

end Selection

/-! ## 2. Number formatting: `format(value, f'{width}.{d}f')` and `format(value, f'{width}d')` -/

/-- decimal digits of a natural number, most significant first (`0 ↦ [0]`) -/
def natDigits (n : Nat) : List Nat :=
  if n < 10 then [n] else natDigits (n / 10) ++ [n % 10]
decreasing_by omega

/-- exactly `d` decimal digits of `m % 10^d`, most significant first -/
def fixDigits : Nat → Nat → List Nat
  | 0, _ => []
  | d + 1, m => fixDigits d (m / 10) ++ [m % 10]

def digitChar (k : Nat) : Char := Char.ofNat (48 + k)

/-- round to nearest integer, ties to even (what `'%.{d}f'` does with the exact binary value scaled by `10^d`) -/
def roundHalfEven (x : Rat) : Int :=
  let q := x.num / (x.den : Int)
  let r := x.num % (x.den : Int)
  if 2 * r < x.den then q
  else if (x.den : Int) < 2 * r then q + 1
  else if q % 2 = 0 then q else q + 1

/-- the text of `format(v, '.{d}f')`; `negz` says that the value is the IEEE negative zero (printed `-0.00`) -/
def fmtFixed (negz : Bool) (v : Rat) (d : Nat) : List Char :=
  let m := (roundHalfEven (v * (10 : Rat) ^ d)).natAbs
  let sign := if v < 0 || (negz && v.num == 0) then ['-'] else []
  let ip := (natDigits (m / 10 ^ d)).map digitChar
  let fp := if d = 0 then [] else '.' :: (fixDigits d (m % 10 ^ d)).map digitChar
  sign ++ ip ++ fp

/-- the text of `format(n, 'd')` -/
def intText (n : Int) : List Char :=
  (if n < 0 then ['-'] else []) ++ (natDigits n.natAbs).map digitChar

/-- right-justify in `w`, never truncating (`'>{w}'` for `str`, the default alignment for numbers) -/
def padLeft (w : Nat) (t : List Char) : List Char := List.replicate (w - t.length) ' ' ++ t

/-! ## 3. Array reduction (`array_reduce`) on exact numbers -/

inductive Reduction | first | mean | median | min | max
  deriving DecidableEq, Repr

def Reduction.isAverage : Reduction → Bool
  | .mean | .median => true
  | _ => false

def ratLe (a b : Rat) : Bool := decide (a ≤ b)

def insertRat (a : Rat) : List Rat → List Rat
  | [] => [a]
  | b :: bs => if ratLe a b then a :: b :: bs else b :: insertRat a bs

/-- ascending sort (insertion sort; `np.median` partitions, the result is the same multiset order statistics) -/
def sortRat : List Rat → List Rat
  | [] => []
  | a :: as => insertRat a (sortRat as)

/-- `None` stands for the numpy error / nan on an empty array (a dimension of size 0). -/
def reduce (m : Reduction) (xs : List Rat) : Option Rat :=
  match xs with
  | [] => none
  | x :: rest =>
    match m with
    | .first => some x
    | .mean => some ((x :: rest).foldl (· + ·) 0 / ((x :: rest).length : Nat))
    | .min => some (rest.foldl (fun a b => if ratLe b a then b else a) x)
    | .max => some (rest.foldl (fun a b => if ratLe a b then b else a) x)
    | .median =>
      let s := sortRat (x :: rest)
      let n := s.length
      if n % 2 = 1 then s[n / 2]? else
        match s[n / 2 - 1]?, s[n / 2]? with
        | some a, some b => some ((a + b) / 2)
        | _, _ => none

/-! ## 4. The lines written -/

/-- one printed column: `(c, text)` with `c` the index of the channel in the FRAME ARRAY -/
abbrev Col := Nat × List Char

/-- a data row: `if c > 0: write(' ')` then the value right-justified in `width` -/
def rowLine (w : Nat) (cols : List Col) : List Char :=
  cols.flatMap (fun p => (if p.1 > 0 then [' '] else []) ++ padLeft w p.2)

/-- the `~A` line: channel 0 in `max(width - 2, 0)`, the others preceded by one blank in `width` -/
def headLine (w : Nat) (cols : List Col) : List Char :=
  '~' :: 'A' :: cols.flatMap (fun p => if p.1 == 0 then padLeft (w - 2) p.2 else ' ' :: padLeft w p.2)

structure Chan (Obj : Type) where
  ident : Obj
  /-- `np.issubdtype(dtype, np.integer)`; otherwise floating (object arrays are not modelled) -/
  isInt : Bool
  /-- `channel.array[f]` flattened, one list per frame -/
  frames : List (List Rat)

inductive Err | valueError | indexError | reduceError
  deriving DecidableEq, Repr

/-- the value text of one cell: integer dtype prints `d` when the reduced value is an integer
(`first/min/max`) and `.0f` when numpy returned a float (`mean/median`); floating dtype prints `.{d}f` -/
def cellText (red : Reduction) (isInt : Bool) (d : Nat) (v : Rat) : List Char :=
  if isInt then (if red.isAverage then fmtFixed false v 0 else intText v.num) else fmtFixed false v d

def cellOf {Obj : Type} (red : Reduction) (d : Nat) (f : Nat) (ch : Chan Obj) : Except Err (List Char) :=
  if ch.frames.length = 0 then .error .valueError else
  match ch.frames[f]? with
  | none => .error .indexError
  | some vals =>
    match reduce red vals with
    | none => .error .reduceError
    | some v => .ok (cellText red ch.isInt d v)

def mapE {α β ε : Type} (f : α → Except ε β) : List α → Except ε (List β)
  | [] => .ok []
  | a :: as =>
    match f a with
    | .error e => .error e
    | .ok b => match mapE f as with
      | .error e => .error e
      | .ok bs => .ok (b :: bs)

/-- row `f`: the selected channels (in frame-array order), each reduced and printed -/
def dataRow {Obj : Type} [DecidableEq Obj] (chans : List (Chan Obj)) (S : List Obj) (red : Reduction) (w d f : Nat) :
    Except Err (List Char) :=
  match mapE (fun p : Chan Obj × Nat => (cellOf red d f p.1).map (fun t => ((p.2, t) : Col)))
      (chans.zipIdx.filter (fun p => S.isEmpty || S.contains p.1.ident)) with
  | .error e => .error e
  | .ok cols => .ok (rowLine w cols)

/-- `len(frame_array.x_axis)` (raises for a frame array without channels; 0 here) -/
def numFrames {Obj : Type} (chans : List (Chan Obj)) : Nat :=
  match chans with | [] => 0 | x :: _ => x.frames.length

/-- `write_array_section_data_to_las`: `for frame_number in range(len(frame_array.x_axis))` -/
def dataRows {Obj : Type} [DecidableEq Obj] (chans : List (Chan Obj)) (S : List Obj) (red : Reduction) (w d : Nat) :
    Except Err (List (List Char)) :=
  let S2 := addXAxis (chans.map (·.ident)) S
  mapE (dataRow chans S2 red w d) (List.range (numFrames chans))

end TD.C10
