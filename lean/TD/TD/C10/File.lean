import TD.C10.Model
import TD.C09.Spec

/-!
C10 — the WHOLE text written by `write_curve_and_array_section_to_las` (model, core Lean only), and the C09 content and
layout it is an instance of.

* `~Curve Information Section`, the table of `data_table.format_table(table, pad='  ', left_flush=True)` with its two
  header rows `#MNEM.UNIT | Curve Description`, `#--------- | -----------------` and one row
  `f'{ident:<4}.{units:<4}' | f': {long_name} Dimensions {dimensions}'` per listed channel;
* the comment lines of `write_array_section_header_to_las` (free text: `cmts`, each printed after a `#`);
* the `~A` line (`headLine`) and one `rowLine` per frame.

Channel identities are strings here (`Obj := List Char`), which is the reachable case.
-/
namespace TD.C10

open TD.C09 (Str HLine DCell CSect LasContent LasLayout HPad SectLay RowLay JunkLine spaces oneLine)

/-- a channel with what the curve section prints about it: `descr` is the text `"{long_name} Dimensions {dims}"` -/
structure ChanF where
  ch : Chan Str
  units : Str
  descr : Str

/-- channels listed by heading and rows (the set after `_add_x_axis_to_channels_to_write`), with their positions -/
def selF (chans : List ChanF) (S : List Str) : List (ChanF × Nat) :=
  let S2 := addXAxis (chans.map (·.ch.ident)) S
  chans.zipIdx.filter (fun p => S2.isEmpty || p.2 == 0 || S2.contains p.1.ch.ident)

/-- the reduced value of frame `f` (0 when the frame is missing or empty; excluded by `WellShaped`) -/
def valAt (red : Reduction) (f : Nat) (c : Chan Str) : Rat :=
  match c.frames[f]? with
  | some vals => (reduce red vals).getD 0
  | none => 0

def rowCols (sel : List (ChanF × Nat)) (red : Reduction) (d f : Nat) : List Col :=
  sel.map (fun p => (p.2, cellText red p.1.ch.isInt d (valAt red f p.1.ch)))

def padR (w : Nat) (s : Str) : Str := s ++ spaces (w - s.length)

def col0 (c : ChanF) : Str := padR 4 c.ch.ident ++ '.' :: padR 4 c.units
def col1 (c : ChanF) : Str := ':' :: ' ' :: c.descr

def maxLen (init : Nat) (l : List Str) : Nat := l.foldl (fun a s => max a s.length) init

def hdr0a : Str := "#MNEM.UNIT".toList
def hdr1a : Str := "Curve Description".toList
def hdr0b : Str := "#---------".toList
def hdr1b : Str := "-----------------".toList

/-- one line of the formatted table -/
def tableLine (w0 w1 : Nat) (a b : Str) : Str := padR w0 a ++ ' ' :: ' ' :: padR w1 b ++ ['\n']

def curveSection (cs : List ChanF) : Str :=
  let w0 := maxLen 10 (cs.map col0)
  let w1 := maxLen 17 (cs.map col1)
  "~Curve Information Section\n".toList ++ tableLine w0 w1 hdr0a hdr1a ++ tableLine w0 w1 hdr0b hdr1b ++
    (cs.map (fun c => tableLine w0 w1 (col0 c) (col1 c))).flatten

def commentLines (cmts : List Str) : Str := (cmts.map (fun t => '#' :: oneLine t ++ ['\n'])).flatten

/-- the text of `write_curve_and_array_section_to_las` for `n` frames (the channels are listed by the common
selection `selF`; `same_channels` shows that the three writers agree on it) -/
def fileText (chans : List ChanF) (S : List Str) (red : Reduction) (w d n : Nat) (cmts : List Str) : Str :=
  let sel := selF chans S
  curveSection (sel.map (·.1)) ++ commentLines cmts ++
    headLine w (sel.map (fun p => (p.2, p.1.ch.ident))) ++ ['\n'] ++
    ((List.range n).map (fun f => rowLine w (rowCols sel red d f) ++ ['\n'])).flatten

/-- one call of the writer: everything but the frame array -/
structure WriteReq where
  S : List Str
  red : Reduction
  w : Nat
  d : Nat
  n : Nat
  cmts : List Str

def writeOne (chans : List ChanF) (r : WriteReq) : Str := fileText chans r.S r.red r.w r.d r.n r.cmts

/-- A sequence of writes of ONE frame array: the texts written, and the frame array afterwards.  In the model the frame
array is an argument and never a result (the writer only reads it) and there is no other state: this is what the harness
checks on the implementation by snapshotting the caller's arrays around every write and by write histories. -/
def writeSession (chans : List ChanF) (reqs : List WriteReq) : List Str × List ChanF :=
  (reqs.map (writeOne chans), chans)

/-! ### the same text as an instance of the C09 printer -/

/-- the decimal read back from a printed cell: `roundHalfEven(v·10^d)·10^-d`, an integer for the `d` format -/
def cellDec (red : Reduction) (isInt : Bool) (d : Nat) (v : Rat) : Int × Int :=
  if isInt then (if red.isAverage then (roundHalfEven (v * (10 : Rat) ^ 0), 0) else (v.num, 0))
  else (roundHalfEven (v * (10 : Rat) ^ d), -(d : Int))

def curveHLine (c : ChanF) : HLine := ⟨c.ch.ident, c.units, .text [], c.descr⟩

def curvePad (w0 w1 : Nat) (first : Bool) (c : ChanF) : HPad :=
  { junk := if first then [.comment 0 ((padR w0 hdr0a).drop 1 ++ ' ' :: ' ' :: padR w1 hdr1a),
                           .comment 0 ((padR w0 hdr0b).drop 1 ++ ' ' :: ' ' :: padR w1 hdr1b)] else [],
    lead := 0, a := 4 - c.ch.ident.length, b := (4 - c.units.length) + (w0 - (col0 c).length) + 2, c := 0, d := 1,
    e := w1 - (col1 c).length, k := 0 }

def curvePads (w0 w1 : Nat) : Bool → List ChanF → List HPad
  | _, [] => []
  | first, c :: cs => curvePad w0 w1 first c :: curvePads w0 w1 false cs

def curveLay (cs : List ChanF) : SectLay :=
  { junk := [], lead := 0, title := "urve Information Section".toList,
    lines := curvePads (maxLen 10 (cs.map col0)) (maxLen 17 (cs.map col1)) true cs }

def headLay (sel : List (ChanF × Nat)) (w : Nat) (cmts : List Str) : SectLay :=
  { junk := cmts.map (fun t => .comment 0 t), lead := 0,
    title := (headLine w (sel.map (fun p => (p.2, p.1.ch.ident)))).drop 2, lines := [] }

def rowCells (sel : List (ChanF × Nat)) (red : Reduction) (d f : Nat) : List DCell :=
  sel.map (fun p =>
    let v := valAt red f p.1.ch
    let me := cellDec red p.1.ch.isInt d v
    .lit (cellText red p.1.ch.isInt d v) me.1 me.2)

def rowLayOf (w : Nat) (cols : List Col) : RowLay :=
  { junk := [], lead := List.replicate (w - (cols.headD (0, [])).2.length) false,
    seps := cols.tail.map (fun p => List.replicate (w - p.2.length) false), trail := [], k := 0, perLine := 0 }

/-- the content read back: the given version lines and preceding sections, the curve section, the printed decimals -/
def contentOf (v : List HLine) (pre : List CSect) (chans : List ChanF) (S : List Str) (red : Reduction) (d n : Nat) :
    LasContent :=
  let sel := selF chans S
  { v := v, sects := pre ++ [.hdr 'C' (sel.map (fun p => curveHLine p.1))],
    frames := (List.range n).map (fun f => rowCells sel red d f) }

def layoutOf (lv : SectLay) (lpre : List SectLay) (chans : List ChanF) (S : List Str) (red : Reduction) (w d n : Nat)
    (cmts : List Str) : LasLayout :=
  let sel := selF chans S
  { v := lv, sects := lpre ++ [curveLay (sel.map (·.1))], a := headLay sel w cmts,
    rows := (List.range n).map (fun f => rowLayOf w (rowCols sel red d f)), tail := [] }

/-- the header text in front of the writer's output: a version section and the preceding sections (`~Well …`) -/
def headerText (v : List HLine) (lv : SectLay) (pre : List CSect) (lpre : List SectLay) : Str :=
  TD.C09.printSect (.hdr 'V' v) lv ++ TD.C09.printSects pre lpre

end TD.C10
