import TD.C10.Model
import TD.C10.Spec
import Mathlib.Tactic.Ring
import Mathlib.Tactic.Linarith
import Mathlib.Tactic.FieldSimp
import Mathlib.Algebra.Order.Field.Rat
import Mathlib.Algebra.Order.Ring.Abs

/-! Helper lemmas for C10, part 1 (core only): channel selection, tokenising, digit strings. -/
namespace TD.C10

/-! ### selection -/
section Selection
variable {Obj : Type}

theorem sel_all (q : Obj × Nat → Bool) (xs : List Obj) (k : Nat) (h : ∀ p ∈ xs.zipIdx k, q p = true) :
    ((xs.zipIdx k).filter q).map (·.2) = List.range' k xs.length := by
  induction xs generalizing k with
  | nil => simp
  | cons x xs ih =>
    simp only [List.zipIdx_cons] at h ⊢
    have h0 : q (x, k) = true := h _ (by simp)
    simp only [List.filter_cons, h0, if_true, List.map_cons, List.length_cons, List.range'_succ]
    congr 1
    exact ih (k + 1) (fun p hp => h p (by simp [hp]))

theorem sel_tail (q : Obj × Nat → Bool) (p : Obj → Bool) (xs : List Obj) (k : Nat) (hk : 1 ≤ k)
    (h : ∀ y ∈ xs, ∀ c, 1 ≤ c → q (y, c) = p y) :
    ((xs.zipIdx k).filter q).map (·.2) = positionsFrom p k xs := by
  induction xs generalizing k with
  | nil => simp [positionsFrom]
  | cons x xs ih =>
    have hx : q (x, k) = p x := h x (by simp) k hk
    have ih' := ih (k + 1) (by omega) (fun y hy c hc => h y (by simp [hy]) c hc)
    simp only [List.zipIdx_cons, List.filter_cons, hx, positionsFrom]
    cases hp : p x <;> simp [ih']

end Selection

/-! ### tokenising -/

theorem splitWsAux_blankfree (t cur rest : List Char) (ht : ∀ c ∈ t, c ≠ ' ') :
    splitWsAux cur (t ++ rest) = splitWsAux (cur ++ t) rest := by
  induction t generalizing cur with
  | nil => simp
  | cons c t ih =>
    have hc : c ≠ ' ' := ht c (by simp)
    have := ih (cur ++ [c]) (fun c' hc' => ht c' (by simp [hc']))
    simp only [List.cons_append, splitWsAux, hc, if_false]
    rw [this]; simp

theorem splitWsAux_blanks (k : Nat) (rest : List Char) :
    splitWsAux [] (List.replicate k ' ' ++ rest) = splitWsAux [] rest := by
  induction k with
  | zero => simp
  | succ k ih => simp [List.replicate_succ, splitWsAux, ih]

theorem splitWsAux_blank_cons (cur rest : List Char) :
    splitWsAux cur (' ' :: rest) = (if cur.isEmpty then [] else [cur]) ++ splitWsAux [] rest := by
  simp only [splitWsAux, if_true]
  split <;> simp

/-- the part of a line after its first field: every field preceded by one blank -/
def tailLine (w : Nat) (cols : List Col) : List Char := cols.flatMap (fun p => ' ' :: padLeft w p.2)

def GoodText (t : List Char) : Prop := t ≠ [] ∧ ∀ c ∈ t, c ≠ ' '

theorem splitWsAux_padLeft (w : Nat) (t rest : List Char) (ht : GoodText t) :
    splitWsAux [] (padLeft w t ++ rest) = splitWsAux t rest := by
  unfold padLeft
  rw [List.append_assoc, splitWsAux_blanks, splitWsAux_blankfree t [] rest ht.2]
  simp

theorem splitWsAux_tailLine (w : Nat) (cols : List Col) (cur : List Char)
    (hg : ∀ p ∈ cols, GoodText p.2) :
    splitWsAux cur (tailLine w cols) = (if cur.isEmpty then [] else [cur]) ++ cols.map (·.2) := by
  induction cols generalizing cur with
  | nil => simp [tailLine, splitWsAux]
  | cons p cols ih =>
    have hp : GoodText p.2 := hg p (by simp)
    have ih' := ih p.2 (fun q hq => hg q (by simp [hq]))
    have hne : p.2.isEmpty = false := by
      cases h : p.2 with
      | nil => exact absurd h hp.1
      | cons _ _ => rfl
    have e : tailLine w (p :: cols) = ' ' :: (padLeft w p.2 ++ tailLine w cols) := by
      simp [tailLine]
    rw [e, splitWsAux_blank_cons, splitWsAux_padLeft w p.2 _ hp, ih', hne]; simp

theorem rowLine_tail (w : Nat) (cols : List Col) (h : ∀ p ∈ cols, 0 < p.1) :
    rowLine w cols = tailLine w cols := by
  induction cols with
  | nil => rfl
  | cons p cols ih =>
    have hp : p.1 > 0 := h p (by simp)
    have := ih (fun q hq => h q (by simp [hq]))
    simp only [rowLine, tailLine, List.flatMap_cons, hp, if_true] at this ⊢
    rw [this]; simp

theorem headLine_tail (w : Nat) (cols : List Col) (h : ∀ p ∈ cols, 0 < p.1) :
    cols.flatMap (fun p => if p.1 == 0 then padLeft (w - 2) p.2 else ' ' :: padLeft w p.2) = tailLine w cols := by
  induction cols with
  | nil => rfl
  | cons p cols ih =>
    have hp : (p.1 == 0) = false := by
      have := h p (by simp); simp; omega
    have := ih (fun q hq => h q (by simp [hq]))
    simp only [tailLine, List.flatMap_cons, hp] at this ⊢
    rw [this]; simp

theorem tail_pos_of_pairwise (p : Col) (cols : List Col)
    (h : ((p :: cols).map (·.1)).Pairwise (· < ·)) : ∀ q ∈ cols, 0 < q.1 := by
  intro q hq
  simp only [List.map_cons, List.pairwise_cons, List.mem_map] at h
  have := h.1 q.1 ⟨q, hq, rfl⟩
  omega

/-! ### digit strings -/

theorem digit_cases {k : Nat} (hk : k < 10) :
    k = 0 ∨ k = 1 ∨ k = 2 ∨ k = 3 ∨ k = 4 ∨ k = 5 ∨ k = 6 ∨ k = 7 ∨ k = 8 ∨ k = 9 := by omega

theorem charDigit_digitChar {k : Nat} (hk : k < 10) : charDigit? (digitChar k) = some k := by
  rcases digit_cases hk with h | h | h | h | h | h | h | h | h | h <;> subst h <;> decide

theorem digitChar_ne_blank {k : Nat} (hk : k < 10) : digitChar k ≠ ' ' := by
  rcases digit_cases hk with h | h | h | h | h | h | h | h | h | h <;> subst h <;> decide

theorem digitChar_ne_dot {k : Nat} (hk : k < 10) : (digitChar k != '.') = true := by
  rcases digit_cases hk with h | h | h | h | h | h | h | h | h | h <;> subst h <;> decide

theorem digitChar_ne_minus {k : Nat} (hk : k < 10) : digitChar k ≠ '-' := by
  rcases digit_cases hk with h | h | h | h | h | h | h | h | h | h <;> subst h <;> decide

def AllDigits (ds : List Nat) : Prop := ∀ d ∈ ds, d < 10

theorem digitsVal_map (ds : List Nat) (acc : Nat) (h : AllDigits ds) :
    digitsVal acc (ds.map digitChar) = some (ds.foldl (fun a d => 10 * a + d) acc) := by
  induction ds generalizing acc with
  | nil => rfl
  | cons d ds ih =>
    have hd : d < 10 := h d (by simp)
    simp only [List.map_cons, digitsVal, charDigit_digitChar hd, List.foldl_cons]
    exact ih _ (fun x hx => h x (by simp [hx]))

theorem natDigits_all (n : Nat) : AllDigits (natDigits n) := by
  induction n using Nat.strong_induction_on with
  | _ n ih =>
    unfold natDigits
    split
    · intro d hd; simp at hd; omega
    · intro d hd
      simp only [List.mem_append, List.mem_singleton] at hd
      rcases hd with hd | hd
      · exact ih (n / 10) (by omega) d hd
      · omega

theorem natDigits_ne_nil (n : Nat) : natDigits n ≠ [] := by
  unfold natDigits; split <;> simp

theorem natDigits_val (n : Nat) : (natDigits n).foldl (fun a d => 10 * a + d) 0 = n := by
  induction n using Nat.strong_induction_on with
  | _ n ih =>
    unfold natDigits
    split
    · simp
    · rw [List.foldl_append, ih (n / 10) (by omega)]; simp; omega

theorem fixDigits_all (d m : Nat) : AllDigits (fixDigits d m) := by
  induction d generalizing m with
  | zero => intro x hx; simp [fixDigits] at hx
  | succ d ih =>
    intro x hx
    simp only [fixDigits, List.mem_append, List.mem_singleton] at hx
    rcases hx with hx | hx
    · exact ih _ x hx
    · omega

theorem fixDigits_length (d m : Nat) : (fixDigits d m).length = d := by
  induction d generalizing m with
  | zero => rfl
  | succ d ih => simp [fixDigits, ih]

theorem fixDigits_val (d m : Nat) : (fixDigits d m).foldl (fun a d => 10 * a + d) 0 = m % 10 ^ d := by
  induction d generalizing m with
  | zero => simp [fixDigits, Nat.mod_one]
  | succ d ih =>
    simp only [fixDigits, List.foldl_append, ih, List.foldl_cons, List.foldl_nil]
    rw [Nat.pow_succ, Nat.mul_comm (10 ^ d) 10, Nat.mod_mul]; omega

theorem takeWhile_nodot (a b : List Char) (h : ∀ c ∈ a, (c != '.') = true) :
    (a ++ '.' :: b).takeWhile (· != '.') = a ∧ (a ++ '.' :: b).dropWhile (· != '.') = '.' :: b := by
  induction a with
  | nil => simp
  | cons c a ih =>
    have hc := h c (by simp)
    have := ih (fun x hx => h x (by simp [hx]))
    simp only [List.cons_append, List.takeWhile_cons, List.dropWhile_cons, hc, if_true, this, and_self]

theorem takeWhile_nodot_all (a : List Char) (h : ∀ c ∈ a, (c != '.') = true) :
    a.takeWhile (· != '.') = a ∧ a.dropWhile (· != '.') = [] := by
  induction a with
  | nil => simp
  | cons c a ih =>
    have hc := h c (by simp)
    have := ih (fun x hx => h x (by simp [hx]))
    simp only [List.takeWhile_cons, List.dropWhile_cons, hc, if_true, this, and_self]

/-- unsigned body of a fixed-point numeral -/
def fixedBody (m d : Nat) : List Char :=
  (natDigits (m / 10 ^ d)).map digitChar ++
    (if d = 0 then [] else '.' :: (fixDigits d (m % 10 ^ d)).map digitChar)

theorem map_digitChar_nodot (ds : List Nat) (h : AllDigits ds) : ∀ c ∈ ds.map digitChar, (c != '.') = true := by
  intro c hc
  simp only [List.mem_map] at hc
  obtain ⟨k, hk, rfl⟩ := hc
  exact digitChar_ne_dot (h k hk)

theorem parseUnsigned_fixedBody (m d : Nat) :
    parseUnsigned (fixedBody m d) = some ((m : Rat) / (10 : Rat) ^ d) := by
  have hne : ((natDigits (m / 10 ^ d)).map digitChar).isEmpty = false := by
    have := natDigits_ne_nil (m / 10 ^ d)
    cases h : natDigits (m / 10 ^ d) with
    | nil => exact absurd h this
    | cons _ _ => rfl
  have hnd := map_digitChar_nodot _ (natDigits_all (m / 10 ^ d))
  unfold fixedBody parseUnsigned
  by_cases hd : d = 0
  · subst hd
    obtain ⟨h1, h2⟩ := takeWhile_nodot_all _ hnd
    simp only [if_true, List.append_nil, h1, h2, hne, Bool.false_eq_true, if_false,
      digitsVal_map _ 0 (natDigits_all _), natDigits_val]
    simp
  · obtain ⟨h1, h2⟩ := takeWhile_nodot _ ((fixDigits d (m % 10 ^ d)).map digitChar) hnd
    simp only [hd, if_false, h1, h2, hne, Bool.false_eq_true,
      digitsVal_map _ 0 (natDigits_all _), natDigits_val,
      digitsVal_map _ 0 (fixDigits_all _ _), fixDigits_val, List.length_map, fixDigits_length]
    congr 1
    have hp : (0 : Rat) < (10 : Rat) ^ d := by positivity
    have hm : (m : Rat) = ((m / 10 ^ d : Nat) : Rat) * (10 : Rat) ^ d + ((m % 10 ^ d % 10 ^ d : Nat) : Rat) := by
      rw [Nat.mod_mod]
      have := Nat.div_add_mod m (10 ^ d)
      have h2 : ((10 ^ d * (m / 10 ^ d) + m % 10 ^ d : Nat) : Rat) = (m : Rat) := by rw [this]
      push_cast at h2
      linarith
    rw [hm]
    field_simp

/-! ### rounding -/

theorem roundHalfEven_err (x : Rat) : |(roundHalfEven x : Rat) - x| ≤ 1 / 2 := by
  have hD : (0 : Rat) < (x.den : Rat) := by exact_mod_cast x.den_pos
  have hDi : (0 : Int) < (x.den : Int) := by exact_mod_cast x.den_pos
  have hx : x = (x.num : Rat) / (x.den : Rat) := (Rat.num_div_den x).symm
  have hdm : (x.den : Int) * (x.num / (x.den : Int)) + x.num % (x.den : Int) = x.num := Int.mul_ediv_add_emod _ _
  have hr0 : 0 ≤ x.num % (x.den : Int) := Int.emod_nonneg _ (by omega)
  have hr1 : x.num % (x.den : Int) < x.den := Int.emod_lt_of_pos _ hDi
  generalize hq : x.num / (x.den : Int) = q at hdm
  generalize hr : x.num % (x.den : Int) = r at hdm hr0 hr1
  have hxq : x * (x.den : Rat) = (x.den : Rat) * q + r := by
    have : ((x.den : Int) * q + r : Int) = x.num := hdm
    have h2 : (((x.den : Int) * q + r : Int) : Rat) = (x.num : Rat) := by rw [this]
    push_cast at h2
    rw [h2]
    have h3 : (x.num : Rat) / (x.den : Rat) * (x.den : Rat) = x.num := by field_simp
    rw [← hx] at h3; exact h3
  have hr0' : (0 : Rat) ≤ r := by exact_mod_cast hr0
  have hr1' : (r : Rat) < x.den := by exact_mod_cast hr1
  unfold roundHalfEven
  simp only [hq, hr]
  rw [abs_le]
  split
  · rename_i h
    have h' : (2 : Rat) * r < x.den := by exact_mod_cast h
    constructor <;> nlinarith
  · split
    · rename_i h
      have h' : (x.den : Rat) < 2 * r := by exact_mod_cast h
      push_cast
      constructor <;> nlinarith
    · rename_i h1 h2
      have h' : (2 : Rat) * r = x.den := by
        have : 2 * r = (x.den : Int) := by omega
        exact_mod_cast this
      split
      · constructor <;> nlinarith
      · push_cast
        constructor <;> nlinarith

theorem roundHalfEven_nonpos {x : Rat} (h : x < 0) : roundHalfEven x ≤ 0 := by
  have := (abs_le.1 (roundHalfEven_err x)).2
  have h1 : ((roundHalfEven x : Int) : Rat) < ((1 : Int) : Rat) := by push_cast; linarith
  have := Int.cast_lt.1 h1
  omega

theorem roundHalfEven_nonneg {x : Rat} (h : 0 ≤ x) : 0 ≤ roundHalfEven x := by
  have := (abs_le.1 (roundHalfEven_err x)).1
  have h1 : (((-1 : Int)) : Rat) < ((roundHalfEven x : Int) : Rat) := by push_cast; linarith
  have := Int.cast_lt.1 h1
  omega

theorem natAbs_cast_of_nonneg {n : Int} (h : 0 ≤ n) : ((n.natAbs : Nat) : Rat) = (n : Rat) := by
  have h1 : ((n.natAbs : Nat) : Int) = n := by omega
  rw [← Int.cast_natCast, h1]

theorem natAbs_cast_of_nonpos {n : Int} (h : n ≤ 0) : ((n.natAbs : Nat) : Rat) = -(n : Rat) := by
  have h1 : ((n.natAbs : Nat) : Int) = -n := by omega
  rw [← Int.cast_natCast, h1, Int.cast_neg]

theorem parseDec_of_head_ne (c : Char) (cs : List Char) (h : c ≠ '-') :
    parseDec (c :: cs) = parseUnsigned (c :: cs) := by
  unfold parseDec
  split
  · rename_i heq; simp only [List.cons.injEq] at heq; exact absurd heq.1 h
  · rfl

theorem fixedBody_head (m d : Nat) : ∃ k cs, k < 10 ∧ fixedBody m d = digitChar k :: cs := by
  unfold fixedBody
  have hne := natDigits_ne_nil (m / 10 ^ d)
  have hall := natDigits_all (m / 10 ^ d)
  cases h : natDigits (m / 10 ^ d) with
  | nil => exact absurd h hne
  | cons k ks =>
    refine ⟨k, _, ?_, by simp only [List.map_cons, List.cons_append]; rfl⟩
    exact hall k (by simp [h])

theorem parseDec_fixedBody (m d : Nat) : parseDec (fixedBody m d) = some ((m : Rat) / (10 : Rat) ^ d) := by
  obtain ⟨k, cs, hk, h⟩ := fixedBody_head m d
  rw [h, parseDec_of_head_ne _ _ (digitChar_ne_minus hk), ← h, parseUnsigned_fixedBody]

theorem parseDec_neg_fixedBody (m d : Nat) :
    parseDec ('-' :: fixedBody m d) = some (-((m : Rat) / (10 : Rat) ^ d)) := by
  simp [parseDec, parseUnsigned_fixedBody]

theorem fmtFixed_eq (negz : Bool) (v : Rat) (d : Nat) :
    fmtFixed negz v d = (if v < 0 || (negz && v.num == 0) then ['-'] else []) ++
      fixedBody (roundHalfEven (v * (10 : Rat) ^ d)).natAbs d := by
  simp [fmtFixed, fixedBody]

theorem parseDec_fmtFixed (negz : Bool) (v : Rat) (d : Nat) :
    parseDec (fmtFixed negz v d) = some ((roundHalfEven (v * (10 : Rat) ^ d) : Rat) / (10 : Rat) ^ d) := by
  have hP : (0 : Rat) < (10 : Rat) ^ d := by positivity
  rw [fmtFixed_eq]
  by_cases hneg : v < 0
  · have hn := roundHalfEven_nonpos (mul_neg_of_neg_of_pos hneg hP)
    simp only [hneg, decide_true, Bool.true_or, if_true, List.singleton_append, parseDec_neg_fixedBody]
    congr 1
    rw [natAbs_cast_of_nonpos hn]; ring
  · have hv : 0 ≤ v := not_lt.1 hneg
    have hn := roundHalfEven_nonneg (mul_nonneg hv hP.le)
    have h2 := natAbs_cast_of_nonneg hn
    by_cases hz : (negz && v.num == 0) = true
    · have hv0 : v = 0 := by
        simp only [Bool.and_eq_true, beq_iff_eq] at hz
        exact Rat.num_eq_zero.1 hz.2
      subst hv0
      have h0 : roundHalfEven (0 * (10 : Rat) ^ d) = 0 := by
        rw [zero_mul]; decide
      simp only [hneg, decide_false, Bool.false_or, hz, if_true, List.singleton_append, parseDec_neg_fixedBody, h0]
      simp
    · simp only [hneg, decide_false, Bool.false_or, hz, Bool.false_eq_true, if_false, List.nil_append,
        parseDec_fixedBody]
      rw [h2]

/-! ### texts of numbers are good tokens -/

theorem goodText_of_digits_prefix (pre : List Char) (ds : List Nat) (rest : List Char) (hds : ds ≠ [])
    (hpre : ∀ c ∈ pre, c ≠ ' ') (hall : AllDigits ds) (hrest : ∀ c ∈ rest, c ≠ ' ') :
    GoodText (pre ++ ds.map digitChar ++ rest) := by
  constructor
  · cases ds with
    | nil => exact absurd rfl hds
    | cons k ks => simp
  · intro c hc
    simp only [List.mem_append, List.mem_map] at hc
    rcases hc with (hc | ⟨k, hk, rfl⟩) | hc
    · exact hpre c hc
    · exact digitChar_ne_blank (hall k hk)
    · exact hrest c hc

theorem goodText_fmtFixed (negz : Bool) (v : Rat) (d : Nat) : GoodText (fmtFixed negz v d) := by
  unfold fmtFixed
  apply goodText_of_digits_prefix _ _ _ (natDigits_ne_nil _) _ (natDigits_all _)
  · intro c hc
    split at hc
    · simp at hc
    · simp only [List.mem_cons, List.mem_map] at hc
      rcases hc with rfl | ⟨k, hk, rfl⟩
      · decide
      · exact digitChar_ne_blank (fixDigits_all _ _ k hk)
  · intro c hc
    split at hc
    · simp only [List.mem_singleton] at hc; subst hc; decide
    · simp at hc

theorem goodText_intText (n : Int) : GoodText (intText n) := by
  unfold intText
  have := goodText_of_digits_prefix (if n < 0 then ['-'] else []) (natDigits n.natAbs) []
    (natDigits_ne_nil _) (by
      intro c hc
      split at hc
      · simp only [List.mem_singleton] at hc; subst hc; decide
      · simp at hc) (natDigits_all _) (by simp)
  simpa using this

theorem parseDec_intText (n : Int) : parseDec (intText n) = some (n : Rat) := by
  have hb : (natDigits n.natAbs).map digitChar = fixedBody n.natAbs 0 := by
    simp [fixedBody]
  unfold intText
  rw [hb]
  by_cases hn : n < 0
  · simp only [hn, if_true, List.singleton_append, parseDec_neg_fixedBody]
    congr 1
    rw [natAbs_cast_of_nonpos (by omega : n ≤ 0)]; simp
  · simp only [hn, if_false, List.nil_append, parseDec_fixedBody]
    congr 1
    rw [natAbs_cast_of_nonneg (by omega : 0 ≤ n)]; simp

/-! ### `mapE`, folds -/

theorem mapE_length {α β ε : Type} (f : α → Except ε β) (l : List α) (r : List β) (h : mapE f l = .ok r) :
    r.length = l.length := by
  induction l generalizing r with
  | nil => simp only [mapE, Except.ok.injEq] at h; subst h; rfl
  | cons a as ih =>
    unfold mapE at h
    split at h
    · exact absurd h (by simp)
    · split at h
      · exact absurd h (by simp)
      · rename_i bs hbs
        simp only [Except.ok.injEq] at h; subst h
        simp [ih _ hbs]

theorem mapE_cols {α : Type} (g : α → Except Err (List Char)) (idx : α → Nat) (l : List α) (r : List Col)
    (h : mapE (fun a => (g a).map (fun t => ((idx a, t) : Col))) l = .ok r) :
    r.map (·.1) = l.map idx ∧ ∀ p ∈ r, ∃ a ∈ l, g a = .ok p.2 := by
  induction l generalizing r with
  | nil => simp only [mapE, Except.ok.injEq] at h; subst h; simp
  | cons a as ih =>
    unfold mapE at h
    split at h
    · exact absurd h (by simp)
    · rename_i b hb
      split at h
      · exact absurd h (by simp)
      · rename_i bs hbs
        simp only [Except.ok.injEq] at h; subst h
        obtain ⟨h1, h2⟩ := ih _ hbs
        cases hg : g a with
        | error e => rw [hg] at hb; exact absurd hb (by simp [Except.map])
        | ok t =>
          rw [hg] at hb
          simp only [Except.map, Except.ok.injEq] at hb
          subst hb
          refine ⟨by simp [h1], ?_⟩
          intro p hp
          simp only [List.mem_cons] at hp
          rcases hp with rfl | hp
          · exact ⟨a, by simp, hg⟩
          · obtain ⟨a', ha', hga'⟩ := h2 p hp
            exact ⟨a', by simp [ha'], hga'⟩

theorem foldl_pick_mem (pick : Rat → Rat → Rat) (hp : ∀ a b, pick a b = a ∨ pick a b = b) (xs : List Rat) (a : Rat) :
    xs.foldl pick a = a ∨ xs.foldl pick a ∈ xs := by
  induction xs generalizing a with
  | nil => left; rfl
  | cons x xs ih =>
    simp only [List.foldl_cons, List.mem_cons]
    rcases ih (pick a x) with h | h
    · rcases hp a x with h' | h'
      · left; rw [h, h']
      · right; left; rw [h, h']
    · right; right; exact h

end TD.C10
