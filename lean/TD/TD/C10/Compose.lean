import TD.C10.Lemmas
import TD.C09.LemmasLine

/-!
C10 ∘ C09 — the text the writer model prints is read back by the READER model of C09 (`TD.C09.splitWs`,
`TD.C09.convertValue`, i.e. the functions that are tied to `LASRead.py` by the C09 correspondence run), not merely by
C10's own specification-side tokeniser/numeral parser.
-/
namespace TD.C10
set_option linter.unusedSimpArgs false

open TD.C09 (isSpace isDigit digitVal parseFloatStripped parseFloat? convertValue applySign takeSign)

theorem digitChar_eq (k : Nat) : TD.C10.digitChar k = TD.C09.digitChar k := rfl

theorem c09_digit {k : Nat} (hk : k < 10) :
    isDigit (digitChar k) = true ∧ digitVal (digitChar k) = k := by
  rw [digitChar_eq]; exact ⟨TD.C09.isDigit_digitChar hk, TD.C09.digitVal_digitChar hk⟩

theorem c09_all_digits (ds : List Nat) (h : AllDigits ds) : ∀ c ∈ ds.map digitChar, isDigit c = true := by
  intro c hc
  obtain ⟨k, hk, rfl⟩ := List.mem_map.1 hc
  exact (c09_digit (h k hk)).1

theorem foldl_digits_init (ds : List Nat) (a : Nat) :
    ds.foldl (fun a d => 10 * a + d) a = a * 10 ^ ds.length + ds.foldl (fun a d => 10 * a + d) 0 := by
  induction ds generalizing a with
  | nil => simp
  | cons d ds ih =>
    simp only [List.foldl_cons, List.length_cons]
    rw [ih (10 * a + d), ih (10 * 0 + d)]
    ring

theorem c09_digitsVal_map (ds : List Nat) (h : AllDigits ds) (a : Nat) :
    (ds.map digitChar).foldl (fun acc c => acc * 10 + digitVal c) a = ds.foldl (fun a d => 10 * a + d) a := by
  induction ds generalizing a with
  | nil => rfl
  | cons d ds ih =>
    have hd := (c09_digit (h d (by simp))).2
    simp only [List.map_cons, List.foldl_cons, hd]
    rw [ih (fun x hx => h x (by simp [hx]))]
    congr 1; ring

/-- value (as C09 computes it) of the digit strings of `fixedBody` -/
theorem c09_digitsVal_body (m d : Nat) :
    TD.C09.digitsVal ((natDigits (m / 10 ^ d)).map digitChar ++ (fixDigits d (m % 10 ^ d)).map digitChar) = m := by
  unfold TD.C09.digitsVal
  rw [List.foldl_append, c09_digitsVal_map _ (natDigits_all _), c09_digitsVal_map _ (fixDigits_all _ _),
    natDigits_val, foldl_digits_init, fixDigits_val, fixDigits_length]
  have h1 : m % 10 ^ d % 10 ^ d = m % 10 ^ d := Nat.mod_mod _ _
  rw [h1]
  exact Nat.div_add_mod' m (10 ^ d)

/-- `float()` of C09 on the unsigned body and on its negation -/
theorem c09_parse_fixedBody (m d : Nat) :
    parseFloatStripped (fixedBody m d) = some ((m : Int), -(d : Int)) ∧
    parseFloatStripped ('-' :: fixedBody m d) = some (-(m : Int), -(d : Int)) := by
  have hne := natDigits_ne_nil (m / 10 ^ d)
  have hall := natDigits_all (m / 10 ^ d)
  cases hnd : natDigits (m / 10 ^ d) with
  | nil => exact absurd hnd hne
  | cons k ks =>
    have hk : k < 10 := hall k (by simp [hnd])
    have hks : AllDigits ks := fun x hx => hall x (by simp [hnd, hx])
    have h0 := (c09_digit hk).1
    have hip := c09_all_digits ks hks
    have hval := c09_digitsVal_body m d
    rw [hnd] at hval
    by_cases hd : d = 0
    · -- no decimal point: `[-]digits`
      subst hd
      simp only [fixedBody, hnd, if_true, List.append_nil, List.map_cons]
      simp only [fixDigits, List.map_nil, List.append_nil, List.map_cons] at hval
      have hall' : ∀ c ∈ digitChar k :: ks.map digitChar, isDigit c = true := by
        intro c hc
        rcases List.mem_cons.1 hc with h | h
        · subst h; exact h0
        · exact hip c h
      have htd := TD.C09.takeWhile_append_stop (p := isDigit) (digitChar k :: ks.map digitChar) [] hall' (Or.inl rfl)
      simp only [List.append_nil] at htd
      constructor
      · unfold parseFloatStripped
        rw [TD.C09.takeSign_digit _ _ h0]
        simp only [htd.1, htd.2, List.isEmpty_cons, TD.C09.parseExp, applySign, hval]
        simp
      · unfold parseFloatStripped
        simp only [takeSign, htd.1, htd.2, List.isEmpty_cons, TD.C09.parseExp, applySign, hval]
        simp
    · have := TD.C09.parseFloat_shape (digitChar k) (ks.map digitChar) ((fixDigits d (m % 10 ^ d)).map digitChar) [] 0
        h0 hip (c09_all_digits _ (fixDigits_all _ _)) (Or.inl rfl) rfl
      simp only [List.append_nil, List.length_map, fixDigits_length] at this
      simp only [fixedBody, hnd, hd, if_false, List.map_cons, List.cons_append]
      rw [show (digitChar k :: List.map digitChar ks ++ List.map digitChar (fixDigits d (m % 10 ^ d))) =
        (k :: ks).map digitChar ++ (fixDigits d (m % 10 ^ d)).map digitChar from by simp] at this
      rw [hval] at this
      constructor
      · rw [this.1]; simp
      · rw [this.2]; simp

theorem fixedBody_chars (m d : Nat) : ∀ c ∈ fixedBody m d, isSpace c = false ∧ c ≠ '\n' := by
  have hdig : ∀ ds : List Nat, AllDigits ds → ∀ c ∈ ds.map digitChar, isSpace c = false ∧ c ≠ '\n' := by
    intro ds h c hc
    have := TD.C09.isDigit_facts (c09_all_digits ds h c hc)
    exact ⟨this.2.2.2.2.2.1, fun hn => by subst hn; simp [isSpace] at this⟩
  intro c hc
  unfold fixedBody at hc
  rcases List.mem_append.1 hc with h | h
  · exact hdig _ (natDigits_all _) c h
  · split at h
    · cases h
    · rcases List.mem_cons.1 h with h | h
      · subst h; exact ⟨by decide, by decide⟩
      · exact hdig _ (fixDigits_all _ _) c h

theorem fmtFixed_nospace (negz : Bool) (v : Rat) (d : Nat) : ∀ c ∈ fmtFixed negz v d, isSpace c = false := by
  intro c hc
  rw [fmtFixed_eq] at hc
  rcases List.mem_append.1 hc with h | h
  · split at h
    · simp at h; subst h; decide
    · cases h
  · exact (fixedBody_chars _ _ c h).1

/-- **the C09 reader reads a printed float field exactly**: `_convert_value` (model of C09) applied to the text the
writer prints for `v` with `d` decimals is the decimal `roundHalfEven(v·10^d) · 10^-d`. -/
theorem c09_convert_fmtFixed (negz : Bool) (v : Rat) (d : Nat) :
    convertValue (fmtFixed negz v d) = .num (roundHalfEven (v * (10 : Rat) ^ d)) (-(d : Int)) := by
  have hP : (0 : Rat) < (10 : Rat) ^ d := by positivity
  have hstrip : TD.C09.stripC (fmtFixed negz v d) = fmtFixed negz v d := by
    unfold TD.C09.stripC
    apply TD.C09.stripP_nospace
    intro c hc
    have := fmtFixed_nospace negz v d c hc
    cases h : TD.C09.isSpaceC c with
    | false => rfl
    | true => rw [TD.C09.isSpace_of_isSpaceC h] at this; cases this
  unfold convertValue parseFloat?
  rw [hstrip, fmtFixed_eq]
  obtain ⟨hpos, hneg⟩ := c09_parse_fixedBody (roundHalfEven (v * (10 : Rat) ^ d)).natAbs d
  by_cases hv : v < 0
  · have hr : roundHalfEven (v * (10 : Rat) ^ d) ≤ 0 := roundHalfEven_nonpos (mul_neg_of_neg_of_pos hv hP)
    simp only [hv, decide_true, Bool.true_or, if_true, List.singleton_append, hneg]
    congr 1; omega
  · have hr : 0 ≤ roundHalfEven (v * (10 : Rat) ^ d) :=
      roundHalfEven_nonneg (mul_nonneg (not_lt.1 hv) hP.le)
    by_cases hz : (negz && v.num == 0) = true
    · have hv0 : v = 0 := by
        simp only [Bool.and_eq_true, beq_iff_eq] at hz
        exact Rat.zero_of_num_zero hz.2
      have hr0 : roundHalfEven (v * (10 : Rat) ^ d) = 0 := by
        rw [hv0, zero_mul]; decide
      rw [hr0] at hneg ⊢
      simp only [hv, decide_false, Bool.false_or, hz, if_true, List.singleton_append, hneg]
      simp
    · simp only [hv, decide_false, Bool.false_or, hz, Bool.false_eq_true, if_false, List.nil_append, hpos]
      congr 1; omega

/-- a field text for the C09 tokeniser: non-empty, no white space in the sense of `str.split()` -/
def C09Text (t : List Char) : Prop := t ≠ [] ∧ ∀ c ∈ t, isSpace c = false

theorem c09Text_fmtFixed (negz : Bool) (v : Rat) (d : Nat) : C09Text (fmtFixed negz v d) :=
  ⟨(goodText_fmtFixed negz v d).1, fmtFixed_nospace negz v d⟩

theorem c09_splitWsAux_tailLine (w : Nat) (cols : List Col) (cur : List Char)
    (hg : ∀ p ∈ cols, C09Text p.2) :
    TD.C09.splitWsAux (tailLine w cols ++ ['\n']) cur =
      (if cur.isEmpty then [] else [cur.reverse]) ++ cols.map (·.2) := by
  induction cols generalizing cur with
  | nil =>
    simp only [tailLine, List.flatMap_nil, List.nil_append, List.map_nil, List.append_nil]
    simp only [TD.C09.splitWsAux, show isSpace '\n' = true from by decide, if_true]
    cases cur <;> simp
  | cons p cols ih =>
    have hp := hg p (by simp)
    have e : tailLine w (p :: cols) ++ ['\n'] =
        ' ' :: (List.replicate (w - p.2.length) ' ' ++ (p.2 ++ (tailLine w cols ++ ['\n']))) := by
      simp [tailLine, padLeft, List.append_assoc]
    have hrep : ∀ c ∈ List.replicate (w - p.2.length) ' ', isSpace c = true := by
      intro c hc; have := List.eq_of_mem_replicate hc; subst this; decide
    have hstep : ∀ Y : List Char, TD.C09.splitWsAux (' ' :: Y) cur =
        (if cur.isEmpty then [] else [cur.reverse]) ++ TD.C09.splitWsAux Y [] := by
      intro Y
      simp only [TD.C09.splitWsAux, show isSpace ' ' = true from by decide, if_true]
      cases cur <;> simp
    rw [e, hstep, TD.C09.splitWsAux_ws _ _ hrep, TD.C09.splitWsAux_token _ _ _ hp.2,
      ih _ (fun q hq => hg q (by simp [hq]))]
    have : (p.2.reverse ++ []).isEmpty = false := by
      cases h : p.2 with
      | nil => exact absurd h hp.1
      | cons a r => simp
    simp [this, hp.1]

/-- **the C09 tokeniser reads a printed data row back**: whatever the field width, `str.split()` (model of C09) of the
row the writer prints (with its line feed) is exactly the list of field texts. -/
theorem c09_split_rowLine (w : Nat) (cols : List Col) (hidx : (cols.map (·.1)).Pairwise (· < ·))
    (hg : ∀ p ∈ cols, C09Text p.2) :
    TD.C09.splitWs (rowLine w cols ++ ['\n']) = cols.map (·.2) := by
  cases cols with
  | nil => simp [rowLine, TD.C09.splitWs, TD.C09.splitWsAux]; decide
  | cons p ps =>
    have hpos := tail_pos_of_pairwise p ps hidx
    have hp := hg p (by simp)
    have e : rowLine w (p :: ps) ++ ['\n'] =
        (if p.1 > 0 then [' '] else []) ++ (List.replicate (w - p.2.length) ' ' ++ (p.2 ++ (tailLine w ps ++ ['\n']))) := by
      have h1 : rowLine w (p :: ps) = ((if p.1 > 0 then [' '] else []) ++ padLeft w p.2) ++ rowLine w ps := by
        simp [rowLine]
      rw [h1, rowLine_tail w ps hpos]
      simp [padLeft, List.append_assoc]
    have hlead : ∀ c ∈ (if p.1 > 0 then [' '] else []) ++ List.replicate (w - p.2.length) ' ', isSpace c = true := by
      intro c hc
      rcases List.mem_append.1 hc with h | h
      · split at h
        · simp at h; subst h; decide
        · cases h
      · have := List.eq_of_mem_replicate h; subst this; decide
    unfold TD.C09.splitWs
    rw [e, ← List.append_assoc, TD.C09.splitWsAux_ws _ _ hlead, TD.C09.splitWsAux_token _ _ _ hp.2,
      c09_splitWsAux_tailLine w ps _ (fun q hq => hg q (by simp [hq]))]
    have : (p.2.reverse ++ []).isEmpty = false := by
      cases h : p.2 with
      | nil => exact absurd h hp.1
      | cons a r => simp
    simp [this, hp.1]

theorem intText_eq (n : Int) : intText n = (if n < 0 then ['-'] else []) ++ fixedBody n.natAbs 0 := by
  simp [intText, fixedBody]

/-- **the C09 reader reads a printed integer field exactly** (`d` format of integer channels) -/
theorem c09_convert_intText (n : Int) : convertValue (intText n) = .num n 0 := by
  have hns : ∀ c ∈ intText n, isSpace c = false := by
    intro c hc
    rw [intText_eq] at hc
    rcases List.mem_append.1 hc with h | h
    · split at h
      · simp at h; subst h; decide
      · cases h
    · exact (fixedBody_chars _ _ c h).1
  have hstrip : TD.C09.stripC (intText n) = intText n := by
    unfold TD.C09.stripC
    apply TD.C09.stripP_nospace
    intro c hc
    have := hns c hc
    cases h : TD.C09.isSpaceC c with
    | false => rfl
    | true => rw [TD.C09.isSpace_of_isSpaceC h] at this; cases this
  unfold convertValue parseFloat?
  rw [hstrip, intText_eq]
  obtain ⟨hpos, hneg⟩ := c09_parse_fixedBody n.natAbs 0
  by_cases hn : n < 0
  · simp only [hn, if_true, List.singleton_append, hneg]
    congr 1; omega
  · simp only [hn, if_false, List.nil_append, hpos]
    congr 1; omega

end TD.C10
