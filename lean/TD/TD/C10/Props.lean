import TD.C10.Lemmas
import TD.C10.Compose

/-!
# C10 — LAS written by TotalDepth reads back as the same log

Property theorems only.  The model (`TD.C10.Model`) transcribes the frame-array writers of
`TotalDepth/LAS/core/WriteLAS.py`; `TD.C10.Spec` holds the independent side (`specSel`, `splitWs`, `parseDec`).
The model is tied to the Python source by the correspondence run of `./check C10`.
The last section composes the writer model with the READER model of C09 (`TD.C10.Compose`).

Not proved here (exercised by the harness only): the float64 rounding inside `np.mean`/`np.median`, and that
CPython's `format(float, '.nf')` is `fmtFixed` of the exact binary value.
-/
namespace TD.C10

/-! ## same_channels -/

/-- **same_channels**: for every frame array (non-empty, distinct identities, identities that `_stringify` leaves
alone, i.e. `str`) and EVERY requested set `S` (empty, any subset, names that are not present): the curve section, the
`~A` heading and every data row list the same channels — all of them when `S` is empty, otherwise channel 0 followed
by the requested channels that are present, in frame-array order (`specSel`). -/
theorem same_channels {Obj : Type} [DecidableEq Obj] (stringify : Obj → Obj) (idents S : List Obj)
    (hne : idents ≠ []) (hnd : idents.Nodup) (hstr : ∀ i ∈ idents, stringify i = i) :
    writeSel stringify idents S =
      { curve := specSel idents S, head := specSel idents S, rows := specSel idents S } := by
  cases idents with
  | nil => exact absurd rfl hne
  | cons x rest =>
    have hx : x ∉ rest := (List.nodup_cons.1 hnd).1
    by_cases hS : S.isEmpty = true
    · -- nothing requested: everything is written
      have hS' : S = [] := List.isEmpty_iff.1 hS
      subst hS'
      have hall : ∀ q : Obj × Nat → Bool, (∀ p, q p = true) →
          (((x :: rest).zipIdx).filter q).map (·.2) = List.range (rest.length + 1) := by
        intro q hq
        rw [sel_all q (x :: rest) 0 (fun p _ => hq p), List.range_eq_range']
        simp
      simp only [writeSel, addXAxis, curveSel, headSel, rowSel, specSel, List.isEmpty_nil, if_true,
        Bool.true_or]
      rw [hall _ (fun _ => rfl)]
    · -- a non-empty request
      have hSf : S.isEmpty = false := by simpa using hS
      -- the set after the header added the X axis, and after the data writer added it again
      have hS1 : ∃ S1, addXAxis (x :: rest) S = S1 ∧ S1.isEmpty = false ∧ S1.contains x = true ∧
          (∀ y, y ≠ x → S1.contains y = S.contains y) ∧ addXAxis (x :: rest) S1 = S1 := by
        by_cases hc : S.contains x = true
        · have hc' : x ∈ S := by simpa using hc
          exact ⟨S, by simp [addXAxis, hSf, hc'], hSf, hc, fun _ _ => rfl, by simp [addXAxis, hSf, hc']⟩
        · have hc' : x ∉ S := by simpa using hc
          refine ⟨x :: S, by simp [addXAxis, hSf, hc'], rfl, by simp, ?_, by simp [addXAxis]⟩
          intro y hy
          simp [hy]
      obtain ⟨S1, e1, hS1f, hS1x, hS1y, e2⟩ := hS1
      have hne' : ∀ y ∈ rest, y ≠ x := fun y hy h => hx (h ▸ hy)
      simp only [writeSel, e1, e2, curveSel, headSel, rowSel, specSel, hSf, Bool.false_eq_true, if_false,
        List.zipIdx_cons, List.filter_cons, hS1f, Bool.false_or, hS1x, beq_self_eq_true, Bool.true_or,
        Bool.or_true, if_true, List.map_cons, Nat.zero_add]
      have t1 := sel_tail (fun p : Obj × Nat => p.2 == 0 || S.contains (stringify p.1))
        (fun y => S.contains y) rest 1 (by omega) (by
          intro y hy c hc
          have : (c == 0) = false := by simp; omega
          simp only [this, Bool.false_or, hstr y (by simp [hy])])
      have t2 := sel_tail (fun p : Obj × Nat => p.2 == 0 || S1.contains p.1)
        (fun y => S.contains y) rest 1 (by omega) (by
          intro y hy c hc
          have : (c == 0) = false := by simp; omega
          simp only [this, Bool.false_or, hS1y y (hne' y hy)])
      have t3 := sel_tail (fun p : Obj × Nat => S1.contains p.1)
        (fun y => S.contains y) rest 1 (by omega) (by
          intro y hy c _
          simp only [hS1y y (hne' y hy)])
      rw [t1, t2, t3]

example : writeSel (fun s : String => s) ["DEPT", "GR", "RHOB", "NPHI"] ["NPHI", "ZZZ", "GR"] =
    { curve := [0, 1, 3], head := [0, 1, 3], rows := [0, 1, 3] } := by decide
example : specSel ["DEPT", "GR", "RHOB", "NPHI"] ["NPHI", "ZZZ", "GR"] = [0, 1, 3] := by decide
example : specSel ["DEPT", "GR", "RHOB"] ([] : List String) = [0, 1, 2] := by decide
example : specSel ["DEPT", "GR", "RHOB"] ["ZZZ"] = [0] := by decide

/-- Names are compared EXACTLY (no stripping, no case folding): the LIS-style padded channel `"GR  "` is not selected by
the request `"GR"`, in none of the three places; a stripping curve section (`stringify` mapping `"GR  "` to `"GR"`) would list it alone. -/
example : writeSel (fun s : String => s) ["DEPT", "GR  ", "RHOB"] ["GR", "rhob"] = { curve := [0], head := [0], rows := [0] } ∧
    writeSel (fun s : String => s) ["DEPT", "GR  ", "RHOB"] ["GR  "] = { curve := [0, 1], head := [0, 1], rows := [0, 1] } ∧
    writeSel (fun s : String => if s = "GR  " then "GR" else s) ["DEPT", "GR  ", "RHOB"] ["GR"] = { curve := [0, 1], head := [0], rows := [0] } := by
  decide

/-- adding the X axis twice (header, then data writer on the same set) is the same as adding it once -/
theorem addXAxis_idem {Obj : Type} [DecidableEq Obj] (idents S : List Obj) :
    addXAxis idents (addXAxis idents S) = addXAxis idents S := by
  cases idents with
  | nil => simp [addXAxis]
  | cons x rest =>
    by_cases h1 : S.isEmpty = true
    · simp [addXAxis, h1]
    · by_cases h2 : x ∈ S
      · simp [addXAxis, h1, h2]
      · simp [addXAxis, h1, h2]

/-- **same_channels**, incremental use (`write_curve_section_to_las`, `write_array_section_header_to_las`,
`write_array_section_data_to_las` called one by one, each with its OWN copy of the requested set, as the docstring
of the data writer describes): the three lists are still the specified one, because the header and the data writer
each add the X axis themselves. -/
theorem same_channels_separate {Obj : Type} [DecidableEq Obj] (stringify : Obj → Obj) (idents S : List Obj)
    (hne : idents ≠ []) (hnd : idents.Nodup) (hstr : ∀ i ∈ idents, stringify i = i) :
    curveSel stringify idents S = specSel idents S ∧
    headSel idents (addXAxis idents S) = specSel idents S ∧
    rowSel idents (addXAxis idents S) = specSel idents S := by
  have h := same_channels stringify idents S hne hnd hstr
  simp only [writeSel, addXAxis_idem, Selection.mk.injEq] at h
  exact h

example : rowSel ["DEPT", "GR", "RHOB"] (addXAxis ["DEPT", "GR", "RHOB"] ["RHOB"]) = [0, 2] := by decide

/-- The hypothesis `stringify i = i` matters: with integer identities (API use only) and a set holding the `str` form,
the curve section lists the channel while heading and rows do not (and the other way round for the raw integer). -/
example : writeSel (fun o : Nat ⊕ String => match o with | .inl n => .inr (toString n) | o => o)
    [.inr "DEPT", .inl 5] [.inr "5"] = { curve := [0, 1], head := [0], rows := [0] } := by decide
example : writeSel (fun o : Nat ⊕ String => match o with | .inl n => .inr (toString n) | o => o)
    [.inr "DEPT", .inl 5] [.inl 5] = { curve := [0], head := [0, 1], rows := [0, 1] } := by decide

/-- The specified list is exactly: position `c` of the frame array is listed iff nothing was requested, or `c = 0`,
or the identity at `c` was requested; and it is strictly increasing (frame-array order, no repeats). -/
theorem specSel_mem_iff {Obj : Type} [DecidableEq Obj] (idents S : List Obj) (c : Nat) :
    c ∈ specSel idents S ↔ ∃ x, idents[c]? = some x ∧ (S = [] ∨ c = 0 ∨ x ∈ S) := by
  have hpos : ∀ (xs : List Obj) (k c : Nat), c ∈ positionsFrom (fun y => S.contains y) k xs ↔
      k ≤ c ∧ ∃ y, xs[c - k]? = some y ∧ y ∈ S := by
    intro xs
    induction xs with
    | nil => intro k c; simp [positionsFrom]
    | cons y ys ih =>
      intro k c
      simp only [positionsFrom]
      by_cases hy : S.contains y = true
      · simp only [hy, if_true, List.mem_cons, ih (k + 1) c]
        constructor
        · rintro (rfl | ⟨h1, z', h2, h3⟩)
          · exact ⟨Nat.le_refl _, y, by simp, by simpa using hy⟩
          · refine ⟨by omega, z', ?_, h3⟩
            have : c - k = (c - (k + 1)) + 1 := by omega
            rw [this, List.getElem?_cons_succ]; exact h2
        · rintro ⟨h1, z', h2, h3⟩
          by_cases hck : c = k
          · left; exact hck
          · right
            refine ⟨by omega, z', ?_, h3⟩
            have : c - k = (c - (k + 1)) + 1 := by omega
            rw [this, List.getElem?_cons_succ] at h2; exact h2
      · simp only [hy, Bool.false_eq_true, if_false, ih (k + 1) c]
        constructor
        · rintro ⟨h1, z', h2, h3⟩
          refine ⟨by omega, z', ?_, h3⟩
          have : c - k = (c - (k + 1)) + 1 := by omega
          rw [this, List.getElem?_cons_succ]; exact h2
        · rintro ⟨h1, z', h2, h3⟩
          by_cases hck : c = k
          · subst hck
            simp only [Nat.sub_self, List.getElem?_cons_zero, Option.some.injEq] at h2
            subst h2
            exact absurd (by simpa using h3) hy
          · refine ⟨by omega, z', ?_, h3⟩
            have : c - k = (c - (k + 1)) + 1 := by omega
            rw [this, List.getElem?_cons_succ] at h2; exact h2
  cases idents with
  | nil => simp [specSel]
  | cons x rest =>
    by_cases hS : S = []
    · subst hS
      simp only [specSel, List.isEmpty_nil, if_true, List.mem_range, true_or, and_true]
      constructor
      · intro h
        exact ⟨(x :: rest)[c]'(by simpa using h), by simp [h]⟩
      · rintro ⟨y, hy⟩
        have := (List.getElem?_eq_some_iff.1 hy).1
        simpa using this
    · have hSf : S.isEmpty = false := by
        cases S with
        | nil => exact absurd rfl hS
        | cons _ _ => rfl
      simp only [specSel, hSf, Bool.false_eq_true, if_false, List.mem_cons, hpos rest 1 c, hS, false_or]
      constructor
      · rintro (rfl | ⟨h1, y, h2, h3⟩)
        · exact ⟨x, by simp, Or.inl rfl⟩
        · refine ⟨y, ?_, Or.inr h3⟩
          have : c = (c - 1) + 1 := by omega
          rw [this, List.getElem?_cons_succ]; exact h2
      · rintro ⟨y, h2, h3⟩
        by_cases hc : c = 0
        · left; exact hc
        · right
          rcases h3 with h3 | h3
          · exact absurd h3 hc
          · refine ⟨by omega, y, ?_, h3⟩
            have : c = (c - 1) + 1 := by omega
            rw [this, List.getElem?_cons_succ] at h2; exact h2


/-- the specified list starts with the X axis (channel 0): the first field of every row is the index value -/
theorem specSel_head {Obj : Type} [DecidableEq Obj] (idents S : List Obj) (hne : idents ≠ []) :
    (specSel idents S).head? = some 0 := by
  cases idents with
  | nil => exact absurd rfl hne
  | cons x rest =>
    simp only [specSel]
    split
    · simp [List.range_succ_eq_map]
    · rfl

example : (specSel ["DEPT", "GR"] ["GR"]).head? = some 0 := by decide

/-! ## fields_separated -/

/-- **fields_separated** (data rows): whatever the field width and however wide the value texts are, a printed row
tokenises on blanks into exactly the list of value texts — consecutive fields are always separated by at least one
blank.  Hypotheses: the columns are in frame-array order (so only the first can be channel 0) and every text is
non-empty and blank-free (`GoodText`; shown for the number formatters in `number_texts_good`). -/
theorem fields_separated (w : Nat) (cols : List Col) (hidx : (cols.map (·.1)).Pairwise (· < ·))
    (hg : ∀ p ∈ cols, GoodText p.2) :
    splitWs (rowLine w cols) = cols.map (·.2) := by
  cases cols with
  | nil => rfl
  | cons p rest =>
    have hpos := tail_pos_of_pairwise p rest hidx
    have hgp : GoodText p.2 := hg p (by simp)
    have hgr : ∀ q ∈ rest, GoodText q.2 := fun q hq => hg q (by simp [hq])
    have hne : p.2.isEmpty = false := by
      cases h : p.2 with
      | nil => exact absurd h hgp.1
      | cons _ _ => rfl
    have e : rowLine w (p :: rest) = (if p.1 > 0 then [' '] else []) ++ (padLeft w p.2 ++ tailLine w rest) := by
      rw [← rowLine_tail w rest hpos]; simp [rowLine]
    rw [splitWs, e]
    split
    · rw [List.singleton_append, splitWsAux_blank_cons, splitWsAux_padLeft w _ _ hgp,
        splitWsAux_tailLine w rest _ hgr, hne]; simp
    · rw [List.nil_append, splitWsAux_padLeft w _ _ hgp, splitWsAux_tailLine w rest _ hgr, hne]; simp

/-- a row with field width 3 whose values are all wider than the field -/
example : splitWs (rowLine 3 [(0, "1234.5".toList), (2, "-0.25".toList), (3, "7".toList)]) =
    ["1234.5".toList, "-0.25".toList, "7".toList] := by decide

/-- **fields_separated** (the `~A` line): after the literal `~A` the line tokenises into exactly the channel names,
for every width (including `width < 2`, defect F21) and names wider than the field. -/
theorem heading_fields_separated (w : Nat) (cols : List Col) (hidx : (cols.map (·.1)).Pairwise (· < ·))
    (hg : ∀ p ∈ cols, GoodText p.2) :
    ∃ rest, headLine w cols = '~' :: 'A' :: rest ∧ splitWs rest = cols.map (·.2) := by
  refine ⟨_, rfl, ?_⟩
  cases cols with
  | nil => rfl
  | cons p rest =>
    have hpos := tail_pos_of_pairwise p rest hidx
    have hgp : GoodText p.2 := hg p (by simp)
    have hgr : ∀ q ∈ rest, GoodText q.2 := fun q hq => hg q (by simp [hq])
    have hne : p.2.isEmpty = false := by
      cases h : p.2 with
      | nil => exact absurd h hgp.1
      | cons _ _ => rfl
    rw [splitWs, List.flatMap_cons, headLine_tail w rest hpos]
    split
    · rw [splitWsAux_padLeft _ _ _ hgp, splitWsAux_tailLine w rest _ hgr, hne]; simp
    · rw [List.cons_append, splitWsAux_blank_cons, splitWsAux_padLeft w _ _ hgp,
        splitWsAux_tailLine w rest _ hgr, hne]; simp

/-- width 1 (`max(width - 2, 0) = 0`): the first name follows `~A` directly, the reader does not tokenise this line -/
example : headLine 1 [(0, "DEPT".toList), (1, "GR".toList)] = "~ADEPT GR".toList := by decide
example : headLine 8 [(0, "DEPT".toList), (2, "GR".toList)] = "~A  DEPT       GR".toList := by decide
example : splitWs ((headLine 1 [(0, "DEPT".toList), (1, "GR".toList)]).drop 2) = ["DEPT".toList, "GR".toList] := by
  decide

/-- the texts produced by the number formatters are non-empty and contain no blank -/
theorem number_texts_good (red : Reduction) (isInt negz : Bool) (d : Nat) (v : Rat) (n : Int) :
    GoodText (fmtFixed negz v d) ∧ GoodText (intText n) ∧ GoodText (cellText red isInt d v) := by
  refine ⟨goodText_fmtFixed _ _ _, goodText_intText _, ?_⟩
  unfold cellText
  split
  · split
    · exact goodText_fmtFixed _ _ _
    · exact goodText_intText _
  · exact goodText_fmtFixed _ _ _

/-- the first field of a row (channel 0) is never preceded by a separator -/
theorem first_field_no_separator (w : Nat) (t : List Char) (rest : List Col) :
    rowLine w ((0, t) :: rest) = padLeft w t ++ rowLine w rest := by
  simp [rowLine]

/-! ## print_error -/

/-- **print_error**: the decimal numeral printed for `v` with `d` decimals denotes a number within half a unit of the
last printed decimal of `v` (round-half-even on the exact value; `-0.00` for negative values that round to zero and
for the IEEE negative zero). -/
theorem print_error (negz : Bool) (v : Rat) (d : Nat) :
    ∃ p, parseDec (fmtFixed negz v d) = some p ∧ |p - v| ≤ 1 / (2 * (10 : Rat) ^ d) := by
  refine ⟨_, parseDec_fmtFixed negz v d, ?_⟩
  have hP : (0 : Rat) < (10 : Rat) ^ d := by positivity
  have h := abs_le.1 (roundHalfEven_err (v * (10 : Rat) ^ d))
  have e : (roundHalfEven (v * (10 : Rat) ^ d) : Rat) / (10 : Rat) ^ d - v =
      ((roundHalfEven (v * (10 : Rat) ^ d) : Rat) - v * (10 : Rat) ^ d) / (10 : Rat) ^ d := by
    field_simp
  rw [e, abs_le]
  constructor
  · rw [le_div_iff₀ hP]
    have : -(1 / (2 * (10 : Rat) ^ d)) * (10 : Rat) ^ d = -(1 / 2) := by field_simp
    rw [this]; exact h.1
  · rw [div_le_iff₀ hP]
    have : 1 / (2 * (10 : Rat) ^ d) * (10 : Rat) ^ d = 1 / 2 := by field_simp
    rw [this]; exact h.2

/-- `0.125` with `.2f` is an exact half at the last decimal: ties go to even (`0.12`) -/
example : fmtFixed false (1 / 8) 2 = "0.12".toList ∧ fmtFixed false (3 / 8) 2 = "0.38".toList ∧
    fmtFixed false (-1 / 1000) 2 = "-0.00".toList ∧ fmtFixed false (5 / 2) 0 = "2".toList := by decide +kernel

/-- **print_error**, integer `d` format: exact. -/
theorem print_int_exact (n : Int) : parseDec (intText n) = some (n : Rat) := parseDec_intText n

example : intText (-9223372036854775808) = "-9223372036854775808".toList := by decide +kernel

/-! ## row count and row contents -/

/-- **row count**: when the data writer succeeds it writes exactly one row per frame of the X axis channel. -/
theorem rows_count {Obj : Type} [DecidableEq Obj] (chans : List (Chan Obj)) (S : List Obj) (red : Reduction)
    (w d : Nat) (rows : List (List Char)) (h : dataRows chans S red w d = .ok rows) :
    rows.length = numFrames chans := by
  unfold dataRows at h
  have := mapE_length _ _ _ h
  simpa using this

example : dataRows [({ ident := "DEPT", isInt := false, frames := [[1], [3 / 2]] } : Chan String),
    { ident := "N", isInt := true, frames := [[7, 9], [8, 11]] }] [] .max 6 1 =
    .ok ["   1.0      9".toList, "   1.5     11".toList] := by decide +kernel

/-- **row contents**: every row the data writer produces lists exactly the channels of `rowSel` (the same for every
frame), and tokenises on blanks into one number text per listed channel. -/
theorem data_row_tokens {Obj : Type} [DecidableEq Obj] (chans : List (Chan Obj)) (S : List Obj) (red : Reduction)
    (w d f : Nat) (line : List Char) (h : dataRow chans S red w d f = .ok line) :
    ∃ cols : List Col, line = rowLine w cols ∧ cols.map (·.1) = rowSel (chans.map (·.ident)) S ∧
      splitWs line = cols.map (·.2) ∧ (splitWs line).length = (rowSel (chans.map (·.ident)) S).length := by
  unfold dataRow at h
  split at h
  · exact absurd h (by simp)
  · rename_i cols hcols
    simp only [Except.ok.injEq] at h; subst h
    obtain ⟨h1, h2⟩ := mapE_cols (fun p : Chan Obj × Nat => cellOf red d f p.1) (fun p => p.2) _ _ hcols
    have hsel : cols.map (·.1) = rowSel (chans.map (·.ident)) S := by
      rw [h1]
      simp only [rowSel, List.zipIdx_map, List.filter_map, List.map_map]
      rfl
    have hpw : (cols.map (·.1)).Pairwise (· < ·) := by
      rw [h1]
      have : ((chans.zipIdx).map (·.2)).Pairwise (· < ·) := by
        rw [List.zipIdx_map_snd]; exact List.pairwise_lt_range'
      exact (List.Pairwise.sublist (List.Sublist.map _ List.filter_sublist) this)
    have hgood : ∀ p ∈ cols, GoodText p.2 := by
      intro p hp
      obtain ⟨a, _, ha⟩ := h2 p hp
      unfold cellOf at ha
      split at ha
      · exact absurd ha (by simp)
      · split at ha
        · exact absurd ha (by simp)
        · split at ha
          · exact absurd ha (by simp)
          · simp only [Except.ok.injEq] at ha
            rw [← ha]; exact (number_texts_good _ _ false _ _ 0).2.2
    have hs := fields_separated w cols hpw hgood
    refine ⟨cols, rfl, hsel, hs, ?_⟩
    rw [hs, ← hsel]; simp

example : dataRow [({ ident := "DEPT", isInt := false, frames := [[1], [3 / 2]] } : Chan String),
    { ident := "A", isInt := true, frames := [[7, 9], [8, 11]] },
    { ident := "B", isInt := true, frames := [[1, 2], [-3, 4]] }] ["DEPT", "B"] .mean 2 3 1 =
    .ok "1.500  0".toList := by decide +kernel

/-! ## reductions -/

/-- `first`, `min` and `max` return one of the values of the frame — so for an integer channel the reduced value is an
integer and the exact `d` format applies (`mean`/`median` may not be integers and are printed with `.0f`). -/
theorem reduce_mem (m : Reduction) (hm : m.isAverage = false) (xs : List Rat) (v : Rat)
    (h : reduce m xs = some v) : v ∈ xs := by
  cases xs with
  | nil => simp [reduce] at h
  | cons x rest =>
    cases m with
    | first => simp only [reduce, Option.some.injEq] at h; subst h; simp
    | mean => simp [Reduction.isAverage] at hm
    | median => simp [Reduction.isAverage] at hm
    | min =>
      simp only [reduce, Option.some.injEq] at h; subst h
      rcases foldl_pick_mem (fun a b => if ratLe b a then b else a)
        (fun a b => by by_cases hc : ratLe b a = true <;> simp [hc]) rest x with h | h
      · rw [h]; simp
      · simp [h]
    | max =>
      simp only [reduce, Option.some.injEq] at h; subst h
      rcases foldl_pick_mem (fun a b => if ratLe a b then b else a)
        (fun a b => by by_cases hc : ratLe a b = true <;> simp [hc]) rest x with h | h
      · rw [h]; simp
      · simp [h]

example : reduce .min [3, -2, 7 / 3] = some (-2) ∧ reduce .max [3, -2, 7 / 3] = some 3 ∧
    reduce .median [1, 10, 5 / 2, 3] = some (11 / 4) ∧ reduce .mean [1, 2] = some (3 / 2) := by decide +kernel


/-! ## composition with the reader model of C09 (`TD.C09`, tied to `LASRead.py` by the C09 correspondence run) -/

/-- **round trip of one row through the C09 reader, tokens**: `str.split()` as modelled in C09 (all ASCII white
space, the terminating line feed included) applied to a printed data row gives back exactly the field texts, whatever
the field width. -/
theorem roundtrip_row_tokens (w : Nat) (cols : List Col) (hidx : (cols.map (·.1)).Pairwise (· < ·))
    (hg : ∀ p ∈ cols, p.2 ≠ [] ∧ ∀ c ∈ p.2, TD.C09.isSpace c = false) :
    TD.C09.splitWs (rowLine w cols ++ ['\n']) = cols.map (·.2) :=
  c09_split_rowLine w cols hidx hg

/-- **round trip of one float value through the C09 reader**: `_convert_value` as modelled in C09 applied to the
text printed for `v` with `d` decimals is a decimal `m·10^-d` within half a unit of the last printed decimal of `v`;
the text is a single token for the C09 tokeniser. -/
theorem roundtrip_value (negz : Bool) (v : Rat) (d : Nat) :
    ∃ m : Int, TD.C09.convertValue (fmtFixed negz v d) = .num m (-(d : Int)) ∧
      |(m : Rat) / (10 : Rat) ^ d - v| ≤ 1 / (2 * (10 : Rat) ^ d) ∧
      (fmtFixed negz v d ≠ [] ∧ ∀ c ∈ fmtFixed negz v d, TD.C09.isSpace c = false) := by
  refine ⟨roundHalfEven (v * (10 : Rat) ^ d), c09_convert_fmtFixed negz v d, ?_, c09Text_fmtFixed negz v d⟩
  obtain ⟨p, hp, hb⟩ := print_error negz v d
  rw [parseDec_fmtFixed] at hp
  injection hp with hp
  rw [hp]; exact hb

/-- **round trip of one integer value through the C09 reader**: exact. -/
theorem roundtrip_int (n : Int) : TD.C09.convertValue (intText n) = .num n 0 := c09_convert_intText n

example : TD.C09.convertValue (fmtFixed false (1 / 8) 2) = .num 12 (-2) ∧
    TD.C09.splitWs (rowLine 6 [(0, "2889.40".toList), (1, "-999.250".toList), (3, "7".toList)] ++ ['\n']) =
      ["2889.40".toList, "-999.250".toList, "7".toList] := by decide +kernel

end TD.C10
