import TD.C10.Lemmas
import TD.C10.Compose
import TD.C10.FileLemmas

/-!
# C10 — LAS written by TotalDepth reads back as the same log

Property theorems only.  The model (`TD.C10.Model`) transcribes the frame-array writers of
`TotalDepth/LAS/core/WriteLAS.py`; `TD.C10.Spec` holds the independent side (`specSel`, `splitWs`, `parseDec`).
The model is tied to the Python source by the correspondence run of `./check C10`.
The last section composes the writer model with the READER model of C09 (`TD.C10.Compose`).

Not proved here (exercised by the harness only): the float64 rounding inside `np.mean`/`np.median`, and that
CPython's `format(float, '.nf')` is `fmtFixed` of the exact binary value.
-/
namespace TD.C10

/-! ## same_channels -/

/-- **same_channels**: for every frame array (non-empty, distinct identities, identities that `_stringify` leaves
alone, i.e. `str`) and EVERY requested set `S` (empty, any subset, names that are not present): the curve section, the
`~A` heading and every data row list the same channels — all of them when `S` is empty, otherwise channel 0 followed
by the requested channels that are present, in frame-array order (`specSel`). -/
theorem same_channels {Obj : Type} [DecidableEq Obj] (stringify : Obj → Obj) (idents S : List Obj)
    (hne : idents ≠ []) (hnd : idents.Nodup) (hstr : ∀ i ∈ idents, stringify i = i) :
    writeSel stringify idents S =
      { curve := specSel idents S, head := specSel idents S, rows := specSel idents S } := by
  cases idents with
  | nil => exact absurd rfl hne
  | cons x rest =>
    have hx : x ∉ rest := (List.nodup_cons.1 hnd).1
    by_cases hS : S.isEmpty = true
    · -- nothing requested: everything is written
      have hS' : S = [] := List.isEmpty_iff.1 hS
      subst hS'
      have hall : ∀ q : Obj × Nat → Bool, (∀ p, q p = true) →
          (((x :: rest).zipIdx).filter q).map (·.2) = List.range (rest.length + 1) := by
        intro q hq
        rw [sel_all q (x :: rest) 0 (fun p _ => hq p), List.range_eq_range']
        simp
      simp only [writeSel, addXAxis, curveSel, headSel, rowSel, specSel, List.isEmpty_nil, if_true,
        Bool.true_or]
      rw [hall _ (fun _ => rfl)]
    · -- a non-empty request
      have hSf : S.isEmpty = false := by simpa using hS
      -- the set after the header added the X axis, and after the data writer added it again
      have hS1 : ∃ S1, addXAxis (x :: rest) S = S1 ∧ S1.isEmpty = false ∧ S1.contains x = true ∧
          (∀ y, y ≠ x → S1.contains y = S.contains y) ∧ addXAxis (x :: rest) S1 = S1 := by
        by_cases hc : S.contains x = true
        · have hc' : x ∈ S := by simpa using hc
          exact ⟨S, by simp [addXAxis, hSf, hc'], hSf, hc, fun _ _ => rfl, by simp [addXAxis, hSf, hc']⟩
        · have hc' : x ∉ S := by simpa using hc
          refine ⟨x :: S, by simp [addXAxis, hSf, hc'], rfl, by simp, ?_, by simp [addXAxis]⟩
          intro y hy
          simp [hy]
      obtain ⟨S1, e1, hS1f, hS1x, hS1y, e2⟩ := hS1
      have hne' : ∀ y ∈ rest, y ≠ x := fun y hy h => hx (h ▸ hy)
      simp only [writeSel, e1, e2, curveSel, headSel, rowSel, specSel, hSf, Bool.false_eq_true, if_false,
        List.zipIdx_cons, List.filter_cons, hS1f, Bool.false_or, hS1x, beq_self_eq_true, Bool.true_or,
        Bool.or_true, if_true, List.map_cons, Nat.zero_add]
      have t1 := sel_tail (fun p : Obj × Nat => p.2 == 0 || S.contains (stringify p.1))
        (fun y => S.contains y) rest 1 (by omega) (by
          intro y hy c hc
          have : (c == 0) = false := by simp; omega
          simp only [this, Bool.false_or, hstr y (by simp [hy])])
      have t2 := sel_tail (fun p : Obj × Nat => p.2 == 0 || S1.contains p.1)
        (fun y => S.contains y) rest 1 (by omega) (by
          intro y hy c hc
          have : (c == 0) = false := by simp; omega
          simp only [this, Bool.false_or, hS1y y (hne' y hy)])
      have t3 := sel_tail (fun p : Obj × Nat => S1.contains p.1)
        (fun y => S.contains y) rest 1 (by omega) (by
          intro y hy c _
          simp only [hS1y y (hne' y hy)])
      rw [t1, t2, t3]

example : writeSel (fun s : String => s) ["DEPT", "GR", "RHOB", "NPHI"] ["NPHI", "ZZZ", "GR"] =
    { curve := [0, 1, 3], head := [0, 1, 3], rows := [0, 1, 3] } := by decide
example : specSel ["DEPT", "GR", "RHOB", "NPHI"] ["NPHI", "ZZZ", "GR"] = [0, 1, 3] := by decide
example : specSel ["DEPT", "GR", "RHOB"] ([] : List String) = [0, 1, 2] := by decide
example : specSel ["DEPT", "GR", "RHOB"] ["ZZZ"] = [0] := by decide

/-- Names are compared EXACTLY (no stripping, no case folding): the LIS-style padded channel `"GR  "` is not selected by
the request `"GR"`, in none of the three places; a stripping curve section (`stringify` mapping `"GR  "` to `"GR"`) would list it alone. -/
example : writeSel (fun s : String => s) ["DEPT", "GR  ", "RHOB"] ["GR", "rhob"] = { curve := [0], head := [0], rows := [0] } ∧
    writeSel (fun s : String => s) ["DEPT", "GR  ", "RHOB"] ["GR  "] = { curve := [0, 1], head := [0, 1], rows := [0, 1] } ∧
    writeSel (fun s : String => if s = "GR  " then "GR" else s) ["DEPT", "GR  ", "RHOB"] ["GR"] = { curve := [0, 1], head := [0], rows := [0] } := by
  decide

/-- adding the X axis twice (header, then data writer on the same set) is the same as adding it once -/
theorem addXAxis_idem {Obj : Type} [DecidableEq Obj] (idents S : List Obj) :
    addXAxis idents (addXAxis idents S) = addXAxis idents S := by
  cases idents with
  | nil => simp [addXAxis]
  | cons x rest =>
    by_cases h1 : S.isEmpty = true
    · simp [addXAxis, h1]
    · by_cases h2 : x ∈ S
      · simp [addXAxis, h1, h2]
      · simp [addXAxis, h1, h2]

/-- **same_channels**, incremental use (`write_curve_section_to_las`, `write_array_section_header_to_las`,
`write_array_section_data_to_las` called one by one, each with its OWN copy of the requested set, as the docstring
of the data writer describes): the three lists are still the specified one, because the header and the data writer
each add the X axis themselves. -/
theorem same_channels_separate {Obj : Type} [DecidableEq Obj] (stringify : Obj → Obj) (idents S : List Obj)
    (hne : idents ≠ []) (hnd : idents.Nodup) (hstr : ∀ i ∈ idents, stringify i = i) :
    curveSel stringify idents S = specSel idents S ∧
    headSel idents (addXAxis idents S) = specSel idents S ∧
    rowSel idents (addXAxis idents S) = specSel idents S := by
  have h := same_channels stringify idents S hne hnd hstr
  simp only [writeSel, addXAxis_idem, Selection.mk.injEq] at h
  exact h

example : rowSel ["DEPT", "GR", "RHOB"] (addXAxis ["DEPT", "GR", "RHOB"] ["RHOB"]) = [0, 2] := by decide

/-- The hypothesis `stringify i = i` matters: with integer identities (API use only) and a set holding the `str` form,
the curve section lists the channel while heading and rows do not (and the other way round for the raw integer). -/
example : writeSel (fun o : Nat ⊕ String => match o with | .inl n => .inr (toString n) | o => o)
    [.inr "DEPT", .inl 5] [.inr "5"] = { curve := [0, 1], head := [0], rows := [0] } := by decide
example : writeSel (fun o : Nat ⊕ String => match o with | .inl n => .inr (toString n) | o => o)
    [.inr "DEPT", .inl 5] [.inl 5] = { curve := [0], head := [0, 1], rows := [0, 1] } := by decide

/-- The specified list is exactly: position `c` of the frame array is listed iff nothing was requested, or `c = 0`,
or the identity at `c` was requested; and it is strictly increasing (frame-array order, no repeats). -/
theorem specSel_mem_iff {Obj : Type} [DecidableEq Obj] (idents S : List Obj) (c : Nat) :
    c ∈ specSel idents S ↔ ∃ x, idents[c]? = some x ∧ (S = [] ∨ c = 0 ∨ x ∈ S) := by
  have hpos : ∀ (xs : List Obj) (k c : Nat), c ∈ positionsFrom (fun y => S.contains y) k xs ↔
      k ≤ c ∧ ∃ y, xs[c - k]? = some y ∧ y ∈ S := by
    intro xs
    induction xs with
    | nil => intro k c; simp [positionsFrom]
    | cons y ys ih =>
      intro k c
      simp only [positionsFrom]
      by_cases hy : S.contains y = true
      · simp only [hy, if_true, List.mem_cons, ih (k + 1) c]
        constructor
        · rintro (rfl | ⟨h1, z', h2, h3⟩)
          · exact ⟨Nat.le_refl _, y, by simp, by simpa using hy⟩
          · refine ⟨by omega, z', ?_, h3⟩
            have : c - k = (c - (k + 1)) + 1 := by omega
            rw [this, List.getElem?_cons_succ]; exact h2
        · rintro ⟨h1, z', h2, h3⟩
          by_cases hck : c = k
          · left; exact hck
          · right
            refine ⟨by omega, z', ?_, h3⟩
            have : c - k = (c - (k + 1)) + 1 := by omega
            rw [this, List.getElem?_cons_succ] at h2; exact h2
      · simp only [hy, Bool.false_eq_true, if_false, ih (k + 1) c]
        constructor
        · rintro ⟨h1, z', h2, h3⟩
          refine ⟨by omega, z', ?_, h3⟩
          have : c - k = (c - (k + 1)) + 1 := by omega
          rw [this, List.getElem?_cons_succ]; exact h2
        · rintro ⟨h1, z', h2, h3⟩
          by_cases hck : c = k
          · subst hck
            simp only [Nat.sub_self, List.getElem?_cons_zero, Option.some.injEq] at h2
            subst h2
            exact absurd (by simpa using h3) hy
          · refine ⟨by omega, z', ?_, h3⟩
            have : c - k = (c - (k + 1)) + 1 := by omega
            rw [this, List.getElem?_cons_succ] at h2; exact h2
  cases idents with
  | nil => simp [specSel]
  | cons x rest =>
    by_cases hS : S = []
    · subst hS
      simp only [specSel, List.isEmpty_nil, if_true, List.mem_range, true_or, and_true]
      constructor
      · intro h
        exact ⟨(x :: rest)[c]'(by simpa using h), by simp [h]⟩
      · rintro ⟨y, hy⟩
        have := (List.getElem?_eq_some_iff.1 hy).1
        simpa using this
    · have hSf : S.isEmpty = false := by
        cases S with
        | nil => exact absurd rfl hS
        | cons _ _ => rfl
      simp only [specSel, hSf, Bool.false_eq_true, if_false, List.mem_cons, hpos rest 1 c, hS, false_or]
      constructor
      · rintro (rfl | ⟨h1, y, h2, h3⟩)
        · exact ⟨x, by simp, Or.inl rfl⟩
        · refine ⟨y, ?_, Or.inr h3⟩
          have : c = (c - 1) + 1 := by omega
          rw [this, List.getElem?_cons_succ]; exact h2
      · rintro ⟨y, h2, h3⟩
        by_cases hc : c = 0
        · left; exact hc
        · right
          rcases h3 with h3 | h3
          · exact absurd h3 hc
          · refine ⟨by omega, y, ?_, h3⟩
            have : c = (c - 1) + 1 := by omega
            rw [this, List.getElem?_cons_succ] at h2; exact h2


/-- the specified list starts with the X axis (channel 0): the first field of every row is the index value -/
theorem specSel_head {Obj : Type} [DecidableEq Obj] (idents S : List Obj) (hne : idents ≠ []) :
    (specSel idents S).head? = some 0 := by
  cases idents with
  | nil => exact absurd rfl hne
  | cons x rest =>
    simp only [specSel]
    split
    · simp [List.range_succ_eq_map]
    · rfl

example : (specSel ["DEPT", "GR"] ["GR"]).head? = some 0 := by decide

/-! ## fields_separated -/

/-- **fields_separated** (data rows): whatever the field width and however wide the value texts are, a printed row
tokenises on blanks into exactly the list of value texts — consecutive fields are always separated by at least one
blank.  Hypotheses: the columns are in frame-array order (so only the first can be channel 0) and every text is
non-empty and blank-free (`GoodText`; shown for the number formatters in `number_texts_good`). -/
theorem fields_separated (w : Nat) (cols : List Col) (hidx : (cols.map (·.1)).Pairwise (· < ·))
    (hg : ∀ p ∈ cols, GoodText p.2) :
    splitWs (rowLine w cols) = cols.map (·.2) := by
  cases cols with
  | nil => rfl
  | cons p rest =>
    have hpos := tail_pos_of_pairwise p rest hidx
    have hgp : GoodText p.2 := hg p (by simp)
    have hgr : ∀ q ∈ rest, GoodText q.2 := fun q hq => hg q (by simp [hq])
    have hne : p.2.isEmpty = false := by
      cases h : p.2 with
      | nil => exact absurd h hgp.1
      | cons _ _ => rfl
    have e : rowLine w (p :: rest) = (if p.1 > 0 then [' '] else []) ++ (padLeft w p.2 ++ tailLine w rest) := by
      rw [← rowLine_tail w rest hpos]; simp [rowLine]
    rw [splitWs, e]
    split
    · rw [List.singleton_append, splitWsAux_blank_cons, splitWsAux_padLeft w _ _ hgp,
        splitWsAux_tailLine w rest _ hgr, hne]; simp
    · rw [List.nil_append, splitWsAux_padLeft w _ _ hgp, splitWsAux_tailLine w rest _ hgr, hne]; simp

/-- a row with field width 3 whose values are all wider than the field -/
example : splitWs (rowLine 3 [(0, "1234.5".toList), (2, "-0.25".toList), (3, "7".toList)]) =
    ["1234.5".toList, "-0.25".toList, "7".toList] := by decide

/-- **fields_separated** (the `~A` line): after the literal `~A` the line tokenises into exactly the channel names,
for every width (including `width < 2`, defect F21) and names wider than the field. -/
theorem heading_fields_separated (w : Nat) (cols : List Col) (hidx : (cols.map (·.1)).Pairwise (· < ·))
    (hg : ∀ p ∈ cols, GoodText p.2) :
    ∃ rest, headLine w cols = '~' :: 'A' :: rest ∧ splitWs rest = cols.map (·.2) := by
  refine ⟨_, rfl, ?_⟩
  cases cols with
  | nil => rfl
  | cons p rest =>
    have hpos := tail_pos_of_pairwise p rest hidx
    have hgp : GoodText p.2 := hg p (by simp)
    have hgr : ∀ q ∈ rest, GoodText q.2 := fun q hq => hg q (by simp [hq])
    have hne : p.2.isEmpty = false := by
      cases h : p.2 with
      | nil => exact absurd h hgp.1
      | cons _ _ => rfl
    rw [splitWs, List.flatMap_cons, headLine_tail w rest hpos]
    split
    · rw [splitWsAux_padLeft _ _ _ hgp, splitWsAux_tailLine w rest _ hgr, hne]; simp
    · rw [List.cons_append, splitWsAux_blank_cons, splitWsAux_padLeft w _ _ hgp,
        splitWsAux_tailLine w rest _ hgr, hne]; simp

/-- width 1 (`max(width - 2, 0) = 0`): the first name follows `~A` directly, the reader does not tokenise this line -/
example : headLine 1 [(0, "DEPT".toList), (1, "GR".toList)] = "~ADEPT GR".toList := by decide
example : headLine 8 [(0, "DEPT".toList), (2, "GR".toList)] = "~A  DEPT       GR".toList := by decide
example : splitWs ((headLine 1 [(0, "DEPT".toList), (1, "GR".toList)]).drop 2) = ["DEPT".toList, "GR".toList] := by
  decide

/-- the texts produced by the number formatters are non-empty and contain no blank -/
theorem number_texts_good (red : Reduction) (isInt negz : Bool) (d : Nat) (v : Rat) (n : Int) :
    GoodText (fmtFixed negz v d) ∧ GoodText (intText n) ∧ GoodText (cellText red isInt d v) := by
  refine ⟨goodText_fmtFixed _ _ _, goodText_intText _, ?_⟩
  unfold cellText
  split
  · split
    · exact goodText_fmtFixed _ _ _
    · exact goodText_intText _
  · exact goodText_fmtFixed _ _ _

/-- the first field of a row (channel 0) is never preceded by a separator -/
theorem first_field_no_separator (w : Nat) (t : List Char) (rest : List Col) :
    rowLine w ((0, t) :: rest) = padLeft w t ++ rowLine w rest := by
  simp [rowLine]

/-! ## print_error -/

/-- **print_error**: the decimal numeral printed for `v` with `d` decimals denotes a number within half a unit of the
last printed decimal of `v` (round-half-even on the exact value; `-0.00` for negative values that round to zero and
for the IEEE negative zero). -/
theorem print_error (negz : Bool) (v : Rat) (d : Nat) :
    ∃ p, parseDec (fmtFixed negz v d) = some p ∧ |p - v| ≤ 1 / (2 * (10 : Rat) ^ d) := by
  refine ⟨_, parseDec_fmtFixed negz v d, ?_⟩
  have hP : (0 : Rat) < (10 : Rat) ^ d := by positivity
  have h := abs_le.1 (roundHalfEven_err (v * (10 : Rat) ^ d))
  have e : (roundHalfEven (v * (10 : Rat) ^ d) : Rat) / (10 : Rat) ^ d - v =
      ((roundHalfEven (v * (10 : Rat) ^ d) : Rat) - v * (10 : Rat) ^ d) / (10 : Rat) ^ d := by
    field_simp
  rw [e, abs_le]
  constructor
  · rw [le_div_iff₀ hP]
    have : -(1 / (2 * (10 : Rat) ^ d)) * (10 : Rat) ^ d = -(1 / 2) := by field_simp
    rw [this]; exact h.1
  · rw [div_le_iff₀ hP]
    have : 1 / (2 * (10 : Rat) ^ d) * (10 : Rat) ^ d = 1 / 2 := by field_simp
    rw [this]; exact h.2

/-- `0.125` with `.2f` is an exact half at the last decimal: ties go to even (`0.12`) -/
example : fmtFixed false (1 / 8) 2 = "0.12".toList ∧ fmtFixed false (3 / 8) 2 = "0.38".toList ∧
    fmtFixed false (-1 / 1000) 2 = "-0.00".toList ∧ fmtFixed false (5 / 2) 0 = "2".toList := by decide +kernel

/-- **print_error**, integer `d` format: exact. -/
theorem print_int_exact (n : Int) : parseDec (intText n) = some (n : Rat) := parseDec_intText n

example : intText (-9223372036854775808) = "-9223372036854775808".toList := by decide +kernel

/-! ## row count and row contents -/

/-- **row count**: when the data writer succeeds it writes exactly one row per frame of the X axis channel. -/
theorem rows_count {Obj : Type} [DecidableEq Obj] (chans : List (Chan Obj)) (S : List Obj) (red : Reduction)
    (w d : Nat) (rows : List (List Char)) (h : dataRows chans S red w d = .ok rows) :
    rows.length = numFrames chans := by
  unfold dataRows at h
  have := mapE_length _ _ _ h
  simpa using this

example : dataRows [({ ident := "DEPT", isInt := false, frames := [[1], [3 / 2]] } : Chan String),
    { ident := "N", isInt := true, frames := [[7, 9], [8, 11]] }] [] .max 6 1 =
    .ok ["   1.0      9".toList, "   1.5     11".toList] := by decide +kernel

/-- **row contents**: every row the data writer produces lists exactly the channels of `rowSel` (the same for every
frame), and tokenises on blanks into one number text per listed channel. -/
theorem data_row_tokens {Obj : Type} [DecidableEq Obj] (chans : List (Chan Obj)) (S : List Obj) (red : Reduction)
    (w d f : Nat) (line : List Char) (h : dataRow chans S red w d f = .ok line) :
    ∃ cols : List Col, line = rowLine w cols ∧ cols.map (·.1) = rowSel (chans.map (·.ident)) S ∧
      splitWs line = cols.map (·.2) ∧ (splitWs line).length = (rowSel (chans.map (·.ident)) S).length := by
  unfold dataRow at h
  split at h
  · exact absurd h (by simp)
  · rename_i cols hcols
    simp only [Except.ok.injEq] at h; subst h
    obtain ⟨h1, h2⟩ := mapE_cols (fun p : Chan Obj × Nat => cellOf red d f p.1) (fun p => p.2) _ _ hcols
    have hsel : cols.map (·.1) = rowSel (chans.map (·.ident)) S := by
      rw [h1]
      simp only [rowSel, List.zipIdx_map, List.filter_map, List.map_map]
      rfl
    have hpw : (cols.map (·.1)).Pairwise (· < ·) := by
      rw [h1]
      have : ((chans.zipIdx).map (·.2)).Pairwise (· < ·) := by
        rw [List.zipIdx_map_snd]; exact List.pairwise_lt_range'
      exact (List.Pairwise.sublist (List.Sublist.map _ List.filter_sublist) this)
    have hgood : ∀ p ∈ cols, GoodText p.2 := by
      intro p hp
      obtain ⟨a, _, ha⟩ := h2 p hp
      unfold cellOf at ha
      split at ha
      · exact absurd ha (by simp)
      · split at ha
        · exact absurd ha (by simp)
        · split at ha
          · exact absurd ha (by simp)
          · simp only [Except.ok.injEq] at ha
            rw [← ha]; exact (number_texts_good _ _ false _ _ 0).2.2
    have hs := fields_separated w cols hpw hgood
    refine ⟨cols, rfl, hsel, hs, ?_⟩
    rw [hs, ← hsel]; simp

example : dataRow [({ ident := "DEPT", isInt := false, frames := [[1], [3 / 2]] } : Chan String),
    { ident := "A", isInt := true, frames := [[7, 9], [8, 11]] },
    { ident := "B", isInt := true, frames := [[1, 2], [-3, 4]] }] ["DEPT", "B"] .mean 2 3 1 =
    .ok "1.500  0".toList := by decide +kernel

/-! ## reductions -/

/-- `first`, `min` and `max` return one of the values of the frame — so for an integer channel the reduced value is an
integer and the exact `d` format applies (`mean`/`median` may not be integers and are printed with `.0f`). -/
theorem reduce_mem (m : Reduction) (hm : m.isAverage = false) (xs : List Rat) (v : Rat)
    (h : reduce m xs = some v) : v ∈ xs := by
  cases xs with
  | nil => simp [reduce] at h
  | cons x rest =>
    cases m with
    | first => simp only [reduce, Option.some.injEq] at h; subst h; simp
    | mean => simp [Reduction.isAverage] at hm
    | median => simp [Reduction.isAverage] at hm
    | min =>
      simp only [reduce, Option.some.injEq] at h; subst h
      rcases foldl_pick_mem (fun a b => if ratLe b a then b else a)
        (fun a b => by by_cases hc : ratLe b a = true <;> simp [hc]) rest x with h | h
      · rw [h]; simp
      · simp [h]
    | max =>
      simp only [reduce, Option.some.injEq] at h; subst h
      rcases foldl_pick_mem (fun a b => if ratLe a b then b else a)
        (fun a b => by by_cases hc : ratLe a b = true <;> simp [hc]) rest x with h | h
      · rw [h]; simp
      · simp [h]

example : reduce .min [3, -2, 7 / 3] = some (-2) ∧ reduce .max [3, -2, 7 / 3] = some 3 ∧
    reduce .median [1, 10, 5 / 2, 3] = some (11 / 4) ∧ reduce .mean [1, 2] = some (3 / 2) := by decide +kernel


/-! ## composition with the reader model of C09 (`TD.C09`, tied to `LASRead.py` by the C09 correspondence run) -/

/-- **round trip of one row through the C09 reader, tokens**: `str.split()` as modelled in C09 (all ASCII white
space, the terminating line feed included) applied to a printed data row gives back exactly the field texts, whatever
the field width. -/
theorem roundtrip_row_tokens (w : Nat) (cols : List Col) (hidx : (cols.map (·.1)).Pairwise (· < ·))
    (hg : ∀ p ∈ cols, p.2 ≠ [] ∧ ∀ c ∈ p.2, TD.C09.isSpace c = false) :
    TD.C09.splitWs (rowLine w cols ++ ['\n']) = cols.map (·.2) :=
  c09_split_rowLine w cols hidx hg

/-- **round trip of one float value through the C09 reader**: `_convert_value` as modelled in C09 applied to the
text printed for `v` with `d` decimals is a decimal `m·10^-d` within half a unit of the last printed decimal of `v`;
the text is a single token for the C09 tokeniser. -/
theorem roundtrip_value (negz : Bool) (v : Rat) (d : Nat) :
    ∃ m : Int, TD.C09.convertValue (fmtFixed negz v d) = .num m (-(d : Int)) ∧
      |(m : Rat) / (10 : Rat) ^ d - v| ≤ 1 / (2 * (10 : Rat) ^ d) ∧
      (fmtFixed negz v d ≠ [] ∧ ∀ c ∈ fmtFixed negz v d, TD.C09.isSpace c = false) := by
  refine ⟨roundHalfEven (v * (10 : Rat) ^ d), c09_convert_fmtFixed negz v d, ?_, c09Text_fmtFixed negz v d⟩
  obtain ⟨p, hp, hb⟩ := print_error negz v d
  rw [parseDec_fmtFixed] at hp
  injection hp with hp
  rw [hp]; exact hb

/-- **round trip of one integer value through the C09 reader**: exact. -/
theorem roundtrip_int (n : Int) : TD.C09.convertValue (intText n) = .num n 0 := c09_convert_intText n

example : TD.C09.convertValue (fmtFixed false (1 / 8) 2) = .num 12 (-2) ∧
    TD.C09.splitWs (rowLine 6 [(0, "2889.40".toList), (1, "-999.250".toList), (3, "7".toList)] ++ ['\n']) =
      ["2889.40".toList, "-999.250".toList, "7".toList] := by decide +kernel


/-! ## the whole file through the C09 reader (file-level round trip) -/

/-- the error of the decimal read back from a printed cell -/
theorem cellDec_spec (red : Reduction) (isInt : Bool) (d : Nat) (v : Rat) :
    (isInt = false → (cellDec red isInt d v).2 = -(d : Int) ∧
        |((cellDec red isInt d v).1 : Rat) / (10 : Rat) ^ d - v| ≤ 1 / (2 * (10 : Rat) ^ d)) ∧
    (isInt = true → red.isAverage = true → (cellDec red isInt d v).2 = 0 ∧
        |((cellDec red isInt d v).1 : Rat) - v| ≤ 1 / 2) ∧
    (isInt = true → red.isAverage = false → v.den = 1 → (cellDec red isInt d v).2 = 0 ∧
        ((cellDec red isInt d v).1 : Rat) = v) := by
  refine ⟨?_, ?_, ?_⟩
  · intro h
    subst h
    refine ⟨by simp [cellDec], ?_⟩
    obtain ⟨p, hp, hb⟩ := print_error false v d
    rw [parseDec_fmtFixed] at hp
    injection hp with hp
    have : (cellDec red false d v).1 = roundHalfEven (v * (10 : Rat) ^ d) := by simp [cellDec]
    rw [this, hp]; exact hb
  · intro h ha
    subst h
    refine ⟨by simp [cellDec, ha], ?_⟩
    have h1 : (cellDec red true d v).1 = roundHalfEven (v * (10 : Rat) ^ 0) := by simp [cellDec, ha]
    rw [h1]
    have := roundHalfEven_err (v * (10 : Rat) ^ 0)
    simpa using this
  · intro h ha hden
    subst h
    refine ⟨by simp [cellDec, ha], ?_⟩
    have h1 : (cellDec red true d v).1 = v.num := by simp [cellDec, ha]
    rw [h1]
    have := Rat.num_div_den v
    rw [hden] at this
    simpa using this

/-- **file-level round trip**: the whole text of `write_curve_and_array_section_to_las` (curve table, comment lines,
`~A` line, one row per frame — `fileText`, compared with the real writer on every run), placed after any well-formed
unwrapped version section and preceding sections (`~Well …`) as the callers do, is read by the C09 model of `LASRead`
into an array with exactly the listed channels (names and units, in order), one frame per source frame, and every cell
the decimal `cellDec` of the reduced source value — by `cellDec_spec` within ½·10^-d of it for floating channels, equal
to it for integer channels with first/min/max, within ½ for the `.0f` of integer mean/median.  Every reduction, subset,
width and decimal count; `.0f` tokens (`123`) and `-0.00` included.

Hypotheses (all decidable): the layouts of the preceding sections match them in number; the version section says
WRAP NO; no preceding section is a curve section; `wfContent` of the content — i.e. header lines well formed, channel
identities/units plain tokens, descriptions without ':', no `DATE.D`/`TIME.HHMMSS` channel, and the printed X values
pairwise distinct (its clause on the data cells always holds: `cells_wf`).  The examples below show that WRAP NO, the
DATE/TIME exclusion and the distinct X values are necessary. -/
theorem roundtrip_file (v : List TD.C09.HLine) (lv : TD.C09.SectLay) (pre : List TD.C09.CSect)
    (lpre : List TD.C09.SectLay) (c0 : ChanF) (cs : List ChanF) (S : List TD.C09.Str) (red : Reduction)
    (w d n : Nat) (cmts : List TD.C09.Str)
    (hlen : lpre.length = pre.length) (hwrap : TD.C09.wrapOf ⟨v, [], []⟩ = false)
    (hpre : ∀ s ∈ pre, s.typ ≠ 'C')
    (hwf : TD.C09.wfContent (contentOf v pre (c0 :: cs) S red d n) = true) :
    ∃ f a, TD.C09.parse (headerText v lv pre lpre ++ fileText (c0 :: cs) S red w d n cmts) = .ok f ∧
      f.array = some a ∧
      a.names = (selF (c0 :: cs) S).map (fun p =>
        ((.text p.1.ch.ident : TD.C09.Value), (.text p.1.units : TD.C09.Value))) ∧
      a.frames = (List.range n).map (fun fr => (selF (c0 :: cs) S).map (fun p =>
        TD.C09.Cell.num (cellDec red p.1.ch.isInt d (valAt red fr p.1.ch)).1
          (cellDec red p.1.ch.isInt d (valAt red fr p.1.ch)).2)) ∧
      a.frames.length = n := by
  have hwf' := hwf
  simp only [TD.C09.wfContent, Bool.and_eq_true, List.all_eq_true, Bool.not_eq_true', Bool.or_eq_true,
    beq_iff_eq] at hwf'
  obtain ⟨⟨⟨⟨⟨⟨⟨⟨⟨_, _⟩, hs⟩, _⟩, _⟩, _⟩, _⟩, _⟩, _⟩, _⟩ := hwf'
  have hC := hs (.hdr 'C' ((selF (c0 :: cs) S).map (fun p => curveHLine p.1))) (by simp [contentOf])
  simp only [TD.C09.wfSect, Bool.and_eq_true, List.all_eq_true] at hC
  have hidsel : ∀ p ∈ selF (c0 :: cs) S, ∀ x ∈ p.1.ch.ident, x ≠ '\n' := by
    intro p hp
    have h1 := hC.2 (curveHLine p.1) (List.mem_map.2 ⟨p, hp, rfl⟩)
    obtain ⟨hm, _⟩ := TD.C09.wfHLine_facts h1
    obtain ⟨_, _, _, _, _, _, hall, _⟩ := TD.C09.wfMnem_facts hm
    exact TD.C09.noLF_of_nospace (fun c hc => (hall c hc).1)
  rw [fileText_eq_print v lv pre lpre c0 cs S red w d n cmts hlen hwrap hidsel]
  refine ⟨_, _, TD.C09.parse_print _ _ hwf, rfl, ?_, ?_, ?_⟩
  · simp only [curvesOf_contentOf v pre (c0 :: cs) S red d n hpre, List.map_map]
    rfl
  · simp only [contentOf, List.map_map]
    apply List.map_congr_left; intro fr _
    simp only [Function.comp_def, rowCells, List.map_map, TD.C09.expectCell]
  · simp [contentOf]

/-- the data-cell clause of `wfContent` always holds for the cells the writer prints -/
theorem cells_wf (red : Reduction) (isInt : Bool) (d : Nat) (v : Rat) :
    TD.C09.wfCell (.lit (cellText red isInt d v) (cellDec red isInt d v).1 (cellDec red isInt d v).2) = true := by
  have key : ∀ (t : List Char) (m e : Int), C09Text t → TD.C09.convertValue t = .num m e →
      (∃ k r, k < 10 ∧ (t = digitChar k :: r ∨ t = '-' :: r)) → TD.C09.wfCell (.lit t m e) = true := by
    intro t m e ht hc hhead
    have hp : TD.C09.parseFloat? t = some (m, e) := by
      unfold TD.C09.convertValue at hc
      cases hpf : TD.C09.parseFloat? t with
      | none => rw [hpf] at hc; cases hc
      | some me => rw [hpf] at hc; obtain ⟨a, b⟩ := me; simp only [TD.C09.Cell.num.injEq] at hc; rw [hc.1, hc.2]
    obtain ⟨k, r, hk, hh⟩ := hhead
    have hne : t.isEmpty = false := by rcases hh with h | h <;> (rw [h]; rfl)
    have hns : TD.C09.noSpace t = true := by
      simp only [TD.C09.noSpace, List.all_eq_true, Bool.not_eq_true']; exact ht.2
    have hd := (c09_digit hk).1
    have hf := TD.C09.isDigit_facts hd
    have h1 : (t.head? != some '#') = true ∧ (t.head? != some '~') = true := by
      rcases hh with h | h
      · rw [h]; simp only [List.head?_cons, bne_iff_ne, ne_eq, Option.some.injEq]
        exact ⟨hf.2.2.2.2.2.2.2.2, hf.2.2.2.2.2.2.2.1⟩
      · rw [h]; simp
    simp only [TD.C09.wfCell, hne, hns, hp, h1.1, h1.2, Bool.not_false, Bool.and_self, beq_self_eq_true]
  have hfix : ∀ (negz : Bool) (v : Rat) (d : Nat), ∃ k r, k < 10 ∧
      (fmtFixed negz v d = digitChar k :: r ∨ fmtFixed negz v d = '-' :: r) := by
    intro negz v d
    rw [fmtFixed_eq]
    obtain ⟨k, cs, hk, h⟩ := fixedBody_head (roundHalfEven (v * (10 : Rat) ^ d)).natAbs d
    split
    · exact ⟨k, _, hk, Or.inr rfl⟩
    · exact ⟨k, cs, hk, Or.inl (by rw [h]; rfl)⟩
  have hint : ∀ n : Int, C09Text (intText n) ∧ ∃ k r, k < 10 ∧ (intText n = digitChar k :: r ∨ intText n = '-' :: r) := by
    intro n
    refine ⟨⟨(goodText_intText n).1, ?_⟩, ?_⟩
    · intro c hc
      rw [intText_eq] at hc
      rcases List.mem_append.1 hc with h | h
      · split at h
        · simp at h; subst h; decide
        · cases h
      · exact (fixedBody_chars _ _ c h).1
    · rw [intText_eq]
      obtain ⟨k, cs, hk, h⟩ := fixedBody_head n.natAbs 0
      split
      · exact ⟨k, _, hk, Or.inr rfl⟩
      · exact ⟨k, cs, hk, Or.inl (by rw [h]; rfl)⟩
  unfold cellText cellDec
  cases isInt with
  | false =>
    simp only [Bool.false_eq_true, if_false]
    exact key _ _ _ (c09Text_fmtFixed false v d) (c09_convert_fmtFixed false v d) (hfix false v d)
  | true =>
    simp only [if_true]
    cases red.isAverage with
    | true =>
      simp only [if_true]
      have := c09_convert_fmtFixed false v 0
      simp only [Int.natCast_zero, Int.neg_zero] at this
      exact key _ _ _ (c09Text_fmtFixed false v 0) this (hfix false v 0)
    | false =>
      simp only [Bool.false_eq_true, if_false]
      exact key _ _ _ (hint v.num).1 (c09_convert_intText v.num) (hint v.num).2

/-- **history independence / read-only input**: in a sequence of writes of one frame array, what a write produces is
what the same write produces on its own — whatever was written before (other subsets, reductions, widths) and after —
and the frame array is the same afterwards. -/
theorem writer_history_independent (chans : List ChanF) (before after : List WriteReq) (r : WriteReq) :
    (writeSession chans (before ++ r :: after)).1[before.length]? = some (writeOne chans r) ∧
    (writeSession chans (before ++ r :: after)).2 = chans ∧
    (writeSession chans (before ++ r :: after)).1.length = before.length + 1 + after.length := by
  refine ⟨?_, rfl, ?_⟩
  · simp [writeSession]
  · simp [writeSession]; omega

/-! ### non-vacuity and necessity of the hypotheses of `roundtrip_file` -/

section Examples
open TD.C09 (HLine CSect SectLay HPad Value)

def exV (wrap : Bool) : List HLine :=
  [⟨"VERS".toList, [], .float 20 (-1), "CWLS".toList⟩, ⟨"WRAP".toList, [], .bool wrap, "one line per frame".toList⟩]
def exLv : SectLay :=
  { title := "ersion Information Section".toList, lines := [{ c := 1, d := 1, k := 1 }, { c := 1, d := 1 }] }
def exPre : List CSect := [.hdr 'W' [⟨"NULL".toList, [], .float (-99925) (-2), []⟩]]
def exLpre : List SectLay := [{ title := "ell Information Section".toList, lines := [{ c := 1, k := 2 }] }]

/-- DEPT (float), GR (float, a small negative value: `-0.00`), N (integer, two samples per frame: `.0f` of the mean) -/
def exChans (x0 x1 : Rat) (u : String) : List ChanF :=
  [⟨⟨"DEPT".toList, false, [[x0], [x1]]⟩, "m".toList, "Depth Dimensions (1,)".toList⟩,
   ⟨⟨"TIME".toList, false, [[-1 / 1000], [5 / 2]]⟩, u.toList, "Gamma Dimensions (1,)".toList⟩,
   ⟨⟨"N".toList, true, [[7, 8], [1, 2]]⟩, [], "Counts Dimensions (2,)".toList⟩]

/-- the header is the one the harness (and a minimal caller) writes -/
example : headerText (exV false) exLv exPre exLpre =
    ("~Version Information Section\nVERS. 2.0 : CWLS\nWRAP. NO : one line per frame\n" ++
     "~Well Information Section\nNULL. -999.25 :\n").toList := by decide +kernel

/-- the text written for the example: `-0.00`, the `.0f` tokens `8` and `2` (7.5 and 1.5 round to even) -/
example : fileText (exChans 100 (201 / 2) "MS") ["N".toList, "TIME".toList, "ZZ".toList] .mean 8 2 2 ["c".toList] =
    ("~Curve Information Section\n#MNEM.UNIT  Curve Description       \n#---------  -----------------       \n" ++
     "DEPT.m      : Depth Dimensions (1,) \nTIME.MS     : Gamma Dimensions (1,) \nN   .       : Counts Dimensions (2,)\n" ++
     "#c\n~A  DEPT     TIME        N\n  100.00    -0.00        8\n  100.50     2.50        2\n").toList := by
  decide +kernel

/-- the hypotheses of `roundtrip_file` hold for it -/
example : TD.C09.wrapOf ⟨exV false, [], []⟩ = false ∧
    TD.C09.wfContent (contentOf (exV false) exPre (exChans 100 (201 / 2) "MS")
      ["N".toList, "TIME".toList, "ZZ".toList] .mean 2 2) = true := by decide +kernel

/-- necessity of WRAP NO: under a `WRAP YES` header the reader refuses the very same rows -/
example : (match TD.C09.parse (headerText (exV true) exLv exPre exLpre ++
    fileText (exChans 100 (201 / 2) "MS") [] .mean 8 2 2 []) with | .error .wrapIndex => true | _ => false) = true := by
  decide +kernel

/-- necessity of distinct printed X values: 0.001 and 0.002 both print `0.00` and the reader raises `Duplicate Xaxis` -/
example : TD.C09.wfContent (contentOf (exV false) exPre (exChans (1 / 1000) (2 / 1000) "MS") [] .mean 2 2) = false ∧
    (match TD.C09.parse (headerText (exV false) exLv exPre exLpre ++
      fileText (exChans (1 / 1000) (2 / 1000) "MS") [] .mean 8 2 2 []) with | .error .dupX => true | _ => false) = true := by
  decide +kernel

/-- necessity of the DATE/TIME exclusion: `TIME.HHMMSS` is a text column for the reader (outside the model: `unsupported`) -/
example : TD.C09.wfContent (contentOf (exV false) exPre (exChans 100 101 "HHMMSS") [] .mean 2 2) = false ∧
    (match TD.C09.parse (headerText (exV false) exLv exPre exLpre ++
      fileText (exChans 100 101 "HHMMSS") [] .mean 8 2 2 []) with | .error .unsupported => true | _ => false) = true := by
  decide +kernel

end Examples

end TD.C10
