import TD.C10.Lemmas

/-!
# C10 — LAS written by TotalDepth reads back as the same log

Property theorems only.  The model (`TD.C10.Model`) transcribes the frame-array writers of
`TotalDepth/LAS/core/WriteLAS.py`; `TD.C10.Spec` holds the independent side (`specSel`, `splitWs`, `parseDec`).
The model is tied to the Python source by the correspondence run of `./check C10`.

Not proved here (exercised by the harness only): the float64 rounding inside `np.mean`/`np.median`, and that
CPython's `format(float, '.nf')` is `fmtFixed` of the exact binary value.
-/
namespace TD.C10

/-! ## same_channels -/

/-- **same_channels**: for every frame array (non-empty, distinct identities, identities that `_stringify` leaves
alone, i.e. `str`) and EVERY requested set `S` (empty, any subset, names that are not present): the curve section, the
`~A` heading and every data row list the same channels — all of them when `S` is empty, otherwise channel 0 followed
by the requested channels that are present, in frame-array order (`specSel`). -/
theorem same_channels {Obj : Type} [DecidableEq Obj] (stringify : Obj → Obj) (idents S : List Obj)
    (hne : idents ≠ []) (hnd : idents.Nodup) (hstr : ∀ i ∈ idents, stringify i = i) :
    writeSel stringify idents S =
      { curve := specSel idents S, head := specSel idents S, rows := specSel idents S } := by
  cases idents with
  | nil => exact absurd rfl hne
  | cons x rest =>
    have hx : x ∉ rest := (List.nodup_cons.1 hnd).1
    by_cases hS : S.isEmpty = true
    · -- nothing requested: everything is written
      have hS' : S = [] := List.isEmpty_iff.1 hS
      subst hS'
      have hall : ∀ q : Obj × Nat → Bool, (∀ p, q p = true) →
          (((x :: rest).zipIdx).filter q).map (·.2) = List.range (rest.length + 1) := by
        intro q hq
        rw [sel_all q (x :: rest) 0 (fun p _ => hq p), List.range_eq_range']
        simp
      simp only [writeSel, addXAxis, curveSel, headSel, rowSel, specSel, List.isEmpty_nil, if_true,
        Bool.true_or]
      rw [hall _ (fun _ => rfl)]
    · -- a non-empty request
      have hSf : S.isEmpty = false := by simpa using hS
      -- the set after the header added the X axis, and after the data writer added it again
      have hS1 : ∃ S1, addXAxis (x :: rest) S = S1 ∧ S1.isEmpty = false ∧ S1.contains x = true ∧
          (∀ y, y ≠ x → S1.contains y = S.contains y) ∧ addXAxis (x :: rest) S1 = S1 := by
        by_cases hc : S.contains x = true
        · have hc' : x ∈ S := by simpa using hc
          exact ⟨S, by simp [addXAxis, hSf, hc'], hSf, hc, fun _ _ => rfl, by simp [addXAxis, hSf, hc']⟩
        · have hc' : x ∉ S := by simpa using hc
          refine ⟨x :: S, by simp [addXAxis, hSf, hc'], rfl, by simp, ?_, by simp [addXAxis]⟩
          intro y hy
          simp [hy]
      obtain ⟨S1, e1, hS1f, hS1x, hS1y, e2⟩ := hS1
      have hne' : ∀ y ∈ rest, y ≠ x := fun y hy h => hx (h ▸ hy)
      simp only [writeSel, e1, e2, curveSel, headSel, rowSel, specSel, hSf, Bool.false_eq_true, if_false,
        List.zipIdx_cons, List.filter_cons, hS1f, Bool.false_or, hS1x, beq_self_eq_true, Bool.true_or,
        Bool.or_true, if_true, List.map_cons, Nat.zero_add]
      have t1 := sel_tail (fun p : Obj × Nat => p.2 == 0 || S.contains (stringify p.1))
        (fun y => S.contains y) rest 1 (by omega) (by
          intro y hy c hc
          have : (c == 0) = false := by simp; omega
          simp only [this, Bool.false_or, hstr y (by simp [hy])])
      have t2 := sel_tail (fun p : Obj × Nat => p.2 == 0 || S1.contains p.1)
        (fun y => S.contains y) rest 1 (by omega) (by
          intro y hy c hc
          have : (c == 0) = false := by simp; omega
          simp only [this, Bool.false_or, hS1y y (hne' y hy)])
      have t3 := sel_tail (fun p : Obj × Nat => S1.contains p.1)
        (fun y => S.contains y) rest 1 (by omega) (by
          intro y hy c _
          simp only [hS1y y (hne' y hy)])
      rw [t1, t2, t3]

example : writeSel (fun s : String => s) ["DEPT", "GR", "RHOB", "NPHI"] ["NPHI", "ZZZ", "GR"] =
    { curve := [0, 1, 3], head := [0, 1, 3], rows := [0, 1, 3] } := by decide
example : specSel ["DEPT", "GR", "RHOB", "NPHI"] ["NPHI", "ZZZ", "GR"] = [0, 1, 3] := by decide
example : specSel ["DEPT", "GR", "RHOB"] ([] : List String) = [0, 1, 2] := by decide
example : specSel ["DEPT", "GR", "RHOB"] ["ZZZ"] = [0] := by decide

/-- The hypothesis `stringify i = i` matters: with integer identities (API use only) and a set holding the `str` form,
the curve section lists the channel while heading and rows do not (and the other way round for the raw integer). -/
example : writeSel (fun o : Nat ⊕ String => match o with | .inl n => .inr (toString n) | o => o)
    [.inr "DEPT", .inl 5] [.inr "5"] = { curve := [0, 1], head := [0], rows := [0] } := by decide
example : writeSel (fun o : Nat ⊕ String => match o with | .inl n => .inr (toString n) | o => o)
    [.inr "DEPT", .inl 5] [.inl 5] = { curve := [0], head := [0, 1], rows := [0, 1] } := by decide

/-- The specified list is exactly: position `c` of the frame array is listed iff nothing was requested, or `c = 0`,
or the identity at `c` was requested; and it is strictly increasing (frame-array order, no repeats). -/
theorem specSel_mem_iff {Obj : Type} [DecidableEq Obj] (idents S : List Obj) (c : Nat) :
    c ∈ specSel idents S ↔ ∃ x, idents[c]? = some x ∧ (S = [] ∨ c = 0 ∨ x ∈ S) := by
  have hpos : ∀ (xs : List Obj) (k c : Nat), c ∈ positionsFrom (fun y => S.contains y) k xs ↔
      k ≤ c ∧ ∃ y, xs[c - k]? = some y ∧ y ∈ S := by
    intro xs
    induction xs with
    | nil => intro k c; simp [positionsFrom]
    | cons y ys ih =>
      intro k c
      simp only [positionsFrom]
      by_cases hy : S.contains y = true
      · simp only [hy, if_true, List.mem_cons, ih (k + 1) c]
        constructor
        · rintro (rfl | ⟨h1, z', h2, h3⟩)
          · exact ⟨Nat.le_refl _, y, by simp, by simpa using hy⟩
          · refine ⟨by omega, z', ?_, h3⟩
            have : c - k = (c - (k + 1)) + 1 := by omega
            rw [this, List.getElem?_cons_succ]; exact h2
        · rintro ⟨h1, z', h2, h3⟩
          by_cases hck : c = k
          · left; exact hck
          · right
            refine ⟨by omega, z', ?_, h3⟩
            have : c - k = (c - (k + 1)) + 1 := by omega
            rw [this, List.getElem?_cons_succ] at h2; exact h2
      · simp only [hy, Bool.false_eq_true, if_false, ih (k + 1) c]
        constructor
        · rintro ⟨h1, z', h2, h3⟩
          refine ⟨by omega, z', ?_, h3⟩
          have : c - k = (c - (k + 1)) + 1 := by omega
          rw [this, List.getElem?_cons_succ]; exact h2
        · rintro ⟨h1, z', h2, h3⟩
          by_cases hck : c = k
          · subst hck
            simp only [Nat.sub_self, List.getElem?_cons_zero, Option.some.injEq] at h2
            subst h2
            exact absurd (by simpa using h3) hy
          · refine ⟨by omega, z', ?_, h3⟩
            have : c - k = (c - (k + 1)) + 1 := by omega
            rw [this, List.getElem?_cons_succ] at h2; exact h2
  cases idents with
  | nil => simp [specSel]
  | cons x rest =>
    by_cases hS : S = []
    · subst hS
      simp only [specSel, List.isEmpty_nil, if_true, List.mem_range, true_or, and_true]
      constructor
      · intro h
        exact ⟨(x :: rest)[c]'(by simpa using h), by simp [h]⟩
      · rintro ⟨y, hy⟩
        have := (List.getElem?_eq_some_iff.1 hy).1
        simpa using this
    · have hSf : S.isEmpty = false := by
        cases S with
        | nil => exact absurd rfl hS
        | cons _ _ => rfl
      simp only [specSel, hSf, Bool.false_eq_true, if_false, List.mem_cons, hpos rest 1 c, hS, false_or]
      constructor
      · rintro (rfl | ⟨h1, y, h2, h3⟩)
        · exact ⟨x, by simp, Or.inl rfl⟩
        · refine ⟨y, ?_, Or.inr h3⟩
          have : c = (c - 1) + 1 := by omega
          rw [this, List.getElem?_cons_succ]; exact h2
      · rintro ⟨y, h2, h3⟩
        by_cases hc : c = 0
        · left; exact hc
        · right
          rcases h3 with h3 | h3
          · exact absurd h3 hc
          · refine ⟨by omega, y, ?_, h3⟩
            have : c = (c - 1) + 1 := by omega
            rw [this, List.getElem?_cons_succ] at h2; exact h2

end TD.C10
