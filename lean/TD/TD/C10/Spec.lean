/-
C10 — independent specification side (core Lean only): what a whitespace-tokenising reader sees, the value of a
decimal numeral, and the channel list the property asks for.
-/
namespace TD.C10

/-! ## Tokenising a line on blanks (`line.split()` restricted to `' '`) -/

def splitWsAux : List Char → List Char → List (List Char)
  | cur, [] => if cur.isEmpty then [] else [cur]
  | cur, c :: cs =>
    if c = ' ' then (if cur.isEmpty then splitWsAux [] cs else cur :: splitWsAux [] cs)
    else splitWsAux (cur ++ [c]) cs

/-- the non-empty maximal blank-free pieces of a line, in order -/
def splitWs (s : List Char) : List (List Char) := splitWsAux [] s

/-! ## Value of a decimal numeral `[-]digits[.digits]` -/

def charDigit? (c : Char) : Option Nat :=
  if 48 ≤ c.toNat ∧ c.toNat ≤ 57 then some (c.toNat - 48) else none

/-- value of a digit string continuing from `acc`; `none` if a character is not a digit -/
def digitsVal (acc : Nat) : List Char → Option Nat
  | [] => some acc
  | c :: cs => match charDigit? c with
    | none => none
    | some k => digitsVal (10 * acc + k) cs

def parseUnsigned (cs : List Char) : Option Rat :=
  let ip := cs.takeWhile (· != '.')
  match cs.dropWhile (· != '.') with
  | [] => if ip.isEmpty then none else (digitsVal 0 ip).map (fun n => (n : Rat))
  | _ :: fp =>
    if ip.isEmpty then none else
    match digitsVal 0 ip, digitsVal 0 fp with
    | some i, some f => some ((i : Rat) + (f : Rat) / (10 : Rat) ^ fp.length)
    | _, _ => none

/-- the rational number denoted by the text (what `float(text)` rounds) -/
def parseDec : List Char → Option Rat
  | '-' :: cs => (parseUnsigned cs).map (fun q => -q)
  | cs => parseUnsigned cs

/-! ## The channel list the property asks for -/

/-- positions (counted from `k`) of the elements satisfying `p` -/
def positionsFrom {α : Type} (p : α → Bool) : Nat → List α → List Nat
  | _, [] => []
  | k, x :: xs => if p x then k :: positionsFrom p (k + 1) xs else positionsFrom p (k + 1) xs

/-- all channels when nothing is requested, else channel 0 followed by the requested channels that are present,
in frame-array order -/
def specSel {Obj : Type} [DecidableEq Obj] (idents : List Obj) (S : List Obj) : List Nat :=
  match idents with
  | [] => []
  | _ :: rest => if S.isEmpty then List.range (rest.length + 1) else 0 :: positionsFrom (fun x => S.contains x) 1 rest

end TD.C10
