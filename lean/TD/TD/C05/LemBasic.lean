import TD.C05.Model
/-! C05 helper lemmas: integer packing, attribute bits, checksum. -/
namespace TD.C05

def BytesOK (b : Bytes) : Prop := ∀ x ∈ b, x < 256

theorem land_bit (x k : Nat) : (x &&& 2 ^ k ≠ 0) ↔ x.testBit k = true := by
  constructor
  · intro h
    cases hb : x.testBit k with
    | true => rfl
    | false =>
      exfalso; apply h
      apply Nat.eq_of_testBit_eq
      intro i
      simp only [Nat.testBit_and, Nat.testBit_two_pow, Nat.zero_testBit]
      by_cases hi : k = i
      · subst hi; simp [hb]
      · simp [hi]
  · intro h h0
    have := congrArg (fun y => Nat.testBit y k) h0
    simp [Nat.testBit_and, h] at this

theorem land_10000 (x : Nat) (_h : x < 262144) : (x &&& 0x10000 ≠ 0) ↔ (x / 65536 % 2 = 1) := by
  have : (0x10000 : Nat) = 2 ^ 16 := by decide
  rw [this, land_bit, Nat.testBit_eq_decide_div_mod_eq]
  simp

theorem land_ffff (x : Nat) : x &&& 0xFFFF = x % 65536 := by
  have : (0xFFFF : Nat) = 2 ^ 16 - 1 := by decide
  rw [this, Nat.and_two_pow_sub_one_eq_mod]

theorem ckStep_eq (c a b : Nat) (hc : c < 65536) (ha : a < 256) (hb : b < 256) :
    ckStep c a b = rotl16 (onesAdd c (256 * a + b)) := by
  unfold ckStep rotl16 onesAdd
  simp only []
  rw [land_ffff]
  have h1 := land_10000 (c + (b + 256 * a)) (by omega)
  by_cases hs : c + (b + 256 * a) ≥ 65536
  · have : (c + (b + 256 * a)) / 65536 % 2 = 1 := by omega
    rw [if_pos (h1.mpr this)]
    have h2 := land_10000 ((c + (b + 256 * a) + 1) * 2) (by omega)
    have hs' : c + (256 * a + b) ≥ 65536 := by omega
    rw [if_pos hs']
    by_cases h3 : ((c + (b + 256 * a) + 1) * 2) / 65536 % 2 = 1
    · rw [if_pos (h2.mpr h3)]; omega
    · rw [if_neg (fun h => h3 (h2.mp h))]; omega
  · have : ¬ ((c + (b + 256 * a)) / 65536 % 2 = 1) := by omega
    rw [if_neg (fun h => this (h1.mp h))]
    have h2 := land_10000 ((c + (b + 256 * a)) * 2) (by omega)
    have hs' : ¬ c + (256 * a + b) ≥ 65536 := by omega
    rw [if_neg hs']
    by_cases h3 : ((c + (b + 256 * a)) * 2) / 65536 % 2 = 1
    · rw [if_pos (h2.mpr h3)]; omega
    · rw [if_neg (fun h => h3 (h2.mp h))]; omega

theorem rotl16_lt (x : Nat) (h : x < 65536) : rotl16 x < 65536 := by
  unfold rotl16; omega

theorem onesAdd_lt (c t : Nat) (hc : c < 65536) (ht : t < 65536) : onesAdd c t < 65536 := by
  unfold onesAdd; split <;> omega

theorem ckLoop_eq : ∀ (n : Nat) (b : Bytes) (c : Nat), b.length ≤ n → c < 65536 → BytesOK b →
    ckLoop c b = (words16 b).foldl (fun c t => rotl16 (onesAdd c t)) c := by
  intro n
  induction n using Nat.strongRecOn with
  | _ n ih =>
    intro b c hn hc hb
    match b with
    | [] => simp [ckLoop, words16]
    | [_] => simp [ckLoop, words16]
    | a :: x :: r =>
      have ha : a < 256 := hb a (by simp)
      have hx : x < 256 := hb x (by simp)
      simp only [ckLoop, words16, List.foldl_cons]
      rw [ckStep_eq c a x hc ha hx]
      have hlt : rotl16 (onesAdd c (256 * a + x)) < 65536 :=
        rotl16_lt _ (onesAdd_lt _ _ hc (by omega))
      simp only [List.length_cons] at hn
      exact ih (n - 2) (by omega) r _ (by omega) hlt (fun y hy => hb y (by simp [hy]))

theorem checksum_eq (b : Bytes) (hb : BytesOK b) : ckLoop 0 b = checksumSpec b := by
  unfold checksumSpec
  exact ckLoop_eq b.length b 0 (Nat.le_refl _) (by omega) hb

theorem u16be_ok (n : Nat) : BytesOK (u16be n) := by
  intro x hx; simp [u16be] at hx; omega

theorem BytesOK_append {a b : Bytes} (ha : BytesOK a) (hb : BytesOK b) : BytesOK (a ++ b) := by
  intro x hx; rcases List.mem_append.mp hx with h | h
  · exact ha x h
  · exact hb x h

theorem BytesOK_nil : BytesOK [] := by intro x hx; simp at hx

theorem BytesOK_take {a : Bytes} (ha : BytesOK a) (n : Nat) : BytesOK (a.take n) :=
  fun x hx => ha x (List.mem_of_mem_take hx)

theorem BytesOK_drop {a : Bytes} (ha : BytesOK a) (n : Nat) : BytesOK (a.drop n) :=
  fun x hx => ha x (List.mem_of_mem_drop hx)

end TD.C05
