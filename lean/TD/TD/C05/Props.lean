import TD.C05.LemWriter
import TD.C05.LemStrip
import TD.C05.LemInit
import TD.C05.LemScan
/-!
C05 — property theorems (LIS physical records: what is written is what is read, at any position; TIF stripping).

`Spec.lean`  : LIS-79 layout `encode`, positions `tellOf`, abstract reader `absStep/absRun`.
`Model.lean` : the code as it is (writer, reader state machine, strip_tif).
-/
namespace TD.C05

/-- **writer_layout.** For every valid layout (TIF off or normal), every list of logical records made of bytes, and —
with TIF markers — a file shorter than 2^32 bytes, `FileWrite(...)`, `write(r)` for every record and `close()` produce
exactly the LIS-79 encoding of the records (header length/attributes with successor and predecessor bits, trailer fields
with the running record number, the file number, the checksum; TIF markers with type/previous/next and the two EOF
markers), and the value returned by the i-th `write` is the sum of the sizes of the records before it. -/
theorem writer_layout (L : Layout) (rs : List Bytes) (hL : L.Valid) (hbe : L.tif ≠ .be)
    (hb : ∀ r ∈ rs, ∀ x ∈ r, x < 256) (hsz : L.tif = .le → fileSize L rs < 4294967296) :
    writeFile (L.tif != .off) L.prMax L.hasRec L.fileNum L.hasChk rs
      = .ok (encode L rs, (List.range rs.length).map (tellOf L rs)) :=
  writeFile_spec L rs hL hbe hb hsz

/-- the hypotheses of `writer_layout` are satisfiable by a non-trivial case: PR length 12 with a record number
trailer (payload 6), TIF on, a 13-byte record (three PRs) and a 2-byte record -/
example : let L : Layout := ⟨12, true, none, false, .le⟩
    L.Valid ∧ L.tif ≠ .be ∧ (L.tif = .le → fileSize L [[1,2,3,4,5,6,7,8,9,10,11,12,13],[1,2]] < 4294967296)
    ∧ tellOf L [[1,2,3,4,5,6,7,8,9,10,11,12,13],[1,2]] 1 = 67 := by decide


/-- **strip_tif.** For a layout with (normal) TIF markers, at least one record, no empty record and a file shorter
than 2^32 bytes, `DeTif.strip_tif` applied to the TIF-marked encoding returns exactly the encoding of the same records
under the same layout without TIF markers; it reports one stripped marker per physical record plus the two EOF markers
and the size of the unmarked file as the number of bytes written. -/
theorem strip_tif_encode (L : Layout) (rs : List Bytes) (hL : L.Valid) (hle : L.tif = .le)
    (hne : rs ≠ []) (hr : ∀ r ∈ rs, r ≠ []) (hsz : fileSize L rs < 4294967296) :
    stripTif (encode L rs) = .ok (encode L.noTif rs, numPRs L rs + 2, (encode L.noTif rs).length) :=
  stripTif_encode L hL hle rs hne hr hsz

/-- **writer_layout_open.** The bytes in the stream BEFORE `close()` (a legal state of a file being written, and how
the project's tests build in-memory files) are the encoding without the two TIF end-of-file markers. -/
theorem writer_layout_open (L : Layout) (rs : List Bytes) (hL : L.Valid) (hbe : L.tif ≠ .be)
    (hb : ∀ r ∈ rs, ∀ x ∈ r, x < 256) (hsz : L.tif = .le → fileSize L rs < 4294967296) :
    writeFileOpen (L.tif != .off) L.prMax L.hasRec L.fileNum L.hasChk rs
      = .ok (encodeN L rs 0, (List.range rs.length).map (tellOf L rs)) :=
  writeFileOpen_spec L rs hL hbe hb hsz

/-- **strip_tif_open.** `strip_tif` of a TIF-marked file that ends with `k` = 0 (not closed), 1 or 2 (closed)
end-of-file markers is the unmarked file of the same records; it reports one marker per physical record plus `k`. -/
theorem strip_tif_open (L : Layout) (rs : List Bytes) (k : Nat) (hL : L.Valid) (hle : L.tif = .le) (hk : k ≤ 2)
    (hne : rs ≠ []) (hr : ∀ r ∈ rs, r ≠ []) (hsz : (encodeN L rs k).length < 4294967296) :
    stripTif (encodeN L rs k) = .ok (encode L.noTif rs, numPRs L rs + k, (encode L.noTif rs).length) :=
  stripTif_encodeN L hL hle rs k hk hne hr hsz

/-- **strip_tif (write tif rs) = write noTif rs**, on the writer model: stripping what the writer produced with TIF
markers gives byte for byte what the writer produces without them. -/
theorem strip_tif_write (L : Layout) (rs : List Bytes) (hL : L.Valid) (hle : L.tif = .le)
    (hne : rs ≠ []) (hr : ∀ r ∈ rs, r ≠ []) (hb : ∀ r ∈ rs, ∀ x ∈ r, x < 256)
    (hsz : fileSize L rs < 4294967296) :
    ∃ fTif fPlain tells tells' n w,
      writeFile true L.prMax L.hasRec L.fileNum L.hasChk rs = .ok (fTif, tells)
      ∧ writeFile false L.prMax L.hasRec L.fileNum L.hasChk rs = .ok (fPlain, tells')
      ∧ stripTif fTif = .ok (fPlain, n, w) := by
  have h1 := writer_layout L rs hL (by rw [hle]; intro h; cases h) hb (fun _ => hsz)
  have hL' : L.noTif.Valid := hL
  have h2 := writer_layout L.noTif rs hL' (by intro h; cases h) hb (by intro h; cases h)
  have e1 : (L.tif != TifMode.off) = true := by rw [hle]; rfl
  have e2 : (L.noTif.tif != TifMode.off) = false := rfl
  rw [e1] at h1
  rw [e2] at h2
  exact ⟨_, _, _, _, _, _, h1, h2, strip_tif_encode L rs hL hle hne hr hsz⟩

/-- hypotheses of `strip_tif_encode` are satisfiable (record-number and checksum trailers, two records, 3+1 PRs) -/
example : let L : Layout := ⟨14, true, none, true, .le⟩
    let rs : List Bytes := [[1,2,3,4,5,6,7,8,9,10,11,12,13],[1,2]]
    L.Valid ∧ L.tif = .le ∧ rs ≠ [] ∧ (∀ r ∈ rs, r ≠ []) ∧ fileSize L rs < 4294967296 ∧ numPRs L rs = 4 := by decide


/-- **read_refines** (simulation, unbounded in records, lengths, layout and history length).
Take any valid layout (all trailer combinations, TIF off / normal / byte-reversed), any list of non-empty logical
records, and the LIS-79 encoding `encode L rs` of it. For EVERY history of operations
`read n | skip n | read rest (n<0) | skip rest | skipToNextLr | seekLr(position of record i) | tellLr`
the replies of the reader model (`PhysRecRead` through `File.FileRead`, constructed on the file with `pad_modulo = 0` and
any `keepGoing` — `Cfg.plain` is `FileRead(f)`) are exactly the
replies of the abstract semantics on `(records, cursor = (record, offset))`: bytes are the bytes of the records,
counts are the numbers of bytes left, positions are the sums of the record sizes, `None` comes once at the end of a
record, operations at end of file raise the EOF error — and no other exception ever occurs.
Hypotheses: records non-empty; a TIF file has at least one record; byte-reversed TIF excludes the two first `next`
words 0x100 and 0x10000 whose byte orders are indistinguishable; the file is shorter than 2^32 − 24 bytes.
The proof is `init_rel` (invariant holds initially), `step_sim` (every operation preserves the invariant `Rel` and
answers like the abstract step) and induction over the history (`run_sim`). -/
theorem read_refines (cfg : Cfg) [Pad0 cfg] (L : Layout) (rs : List Bytes) (ops : List Op)
    (hL : L.Valid) (hr : ∀ r ∈ rs, r ≠ []) (hne : L.tif ≠ .off → rs ≠ [])
    (hbe : L.tif = .be → firstNext L rs ≠ 0x100 ∧ firstNext L rs ≠ 0x10000)
    (hsz : fileSize L rs + 24 < 4294967296) (hops : HistOK rs ops) :
    run cfg (encode L rs) (some (Rd.new (encode L rs))) (ops.map (concOp L rs)) = absRun L rs AState.init ops := by
  have g : Good L rs := ⟨hL, hr, by unfold fileSize at hsz; omega⟩
  exact run_sim (cfg := cfg) g ops _ _ (init_rel g hne hbe) (histOK_opOK hops)

/-- **seek_any_order.** After ANY history (any interleaving of reads, skips, seeks in any order), seeking to the reported
start of record `i`, reading it whole and asking for the position answers: that position, exactly the bytes of record
`i`, that position. -/
theorem seek_any_order (cfg : Cfg) [Pad0 cfg] (L : Layout) (rs : List Bytes) (ops : List Op) (i : Nat)
    (hL : L.Valid) (hr : ∀ r ∈ rs, r ≠ []) (hne : L.tif ≠ .off → rs ≠ [])
    (hbe : L.tif = .be → firstNext L rs ≠ 0x100 ∧ firstNext L rs ≠ 0x10000)
    (hsz : fileSize L rs + 24 < 4294967296) (hops : HistOK rs ops) (hi : i < rs.length) :
    (run cfg (encode L rs) (some (Rd.new (encode L rs)))
        ((ops ++ ([Op.seek i, Op.read (-1), Op.tell] : List Op)).map (concOp L rs))).drop ops.length
      = [.pos (tellOf L rs i), .bytes (recAt rs i), .pos (tellOf L rs i)] := by
  have hops' : HistOK rs (ops ++ ([Op.seek i, Op.read (-1), Op.tell] : List Op)) := by
    intro op hop j hj
    rcases List.mem_append.mp hop with h | h
    · exact hops op h j hj
    · subst hj
      simp only [List.mem_cons, Op.seek.injEq, reduceCtorEq, List.mem_nil_iff, or_false] at h
      omega
  rw [read_refines cfg L rs _ hL hr hne hbe hsz hops', absRun_append]
  have hl := absRun_length L rs ops AState.init
  rw [← hl, List.drop_left]
  exact abs_seek_read L rs _ i hi (hr _ (by unfold recAt; simp [hi]))

/-- **pad_tie_order** (`ret_padding_options_with_max_records` + `best_physical_record_pad_settings`): the options are
scanned in the order (0,F) (0,T) (2,F) (2,T) (4,F) (4,T) and among those with the maximal count the FIRST is chosen —
so whenever the first option counts at least one record and none counts more, the first option is returned. -/
theorem pad_tie_order (o : Nat × Bool) (c : Nat) (t : List ((Nat × Bool) × Nat)) (hc : 0 < c)
    (h : ∀ x ∈ t, x.2 ≤ c) : pickBest ((o, c) :: t) = some o :=
  best_first o c t hc h

/-- **scan_counts_records**: scanning (`scan_file_no_output` / `genPr`) a file written without padding with
`pad_modulo = 0` (any `keepGoing`) counts exactly its physical records, up to `pr_limit`. -/
theorem scan_counts_records (cfg : Cfg) [Pad0 cfg] (L : Layout) (rs : List Bytes) (limit : Nat)
    (hL : L.Valid) (hr : ∀ r ∈ rs, r ≠ []) (hne : L.tif ≠ .off → rs ≠ [])
    (hbe : L.tif = .be → firstNext L rs ≠ 0x100 ∧ firstNext L rs ≠ 0x10000)
    (hsz : fileSize L rs + 24 < 4294967296) :
    scanFile cfg (encode L rs) limit = if limit = 0 then numPRs L rs else min limit (numPRs L rs) :=
  scan_unpadded ⟨hL, hr, by unfold fileSize at hsz; omega⟩ hne hbe limit

/-- **pad_reader_refines** — the reader obtained through `file_read_with_best_physical_record_pad_settings(f, id,
pr_limit)` on an unpadded written file is `FileRead(f, id, keepGoing=True, pad_modulo=0, pad_non_null=False)` and
answers every history like the abstract semantics, provided `0 < pr_limit ≤ number of physical records` (then no padding
option can count more than `pr_limit` records, and (0, False) is first among the tied best options). -/
theorem pad_reader_refines (L : Layout) (rs : List Bytes) (ops : List Op) (limit : Nat)
    (hL : L.Valid) (hr : ∀ r ∈ rs, r ≠ []) (hne : L.tif ≠ .off → rs ≠ [])
    (hbe : L.tif = .be → firstNext L rs ≠ 0x100 ∧ firstNext L rs ≠ 0x10000)
    (hsz : fileSize L rs + 24 < 4294967296) (hops : HistOK rs ops)
    (hl : 0 < limit) (hn : limit ≤ numPRs L rs) :
    bestPad (encode L rs) limit = some (0, false)
    ∧ ∃ cfg, bestReaderCfg (encode L rs) limit = some cfg
        ∧ run cfg (encode L rs) (some (Rd.new (encode L rs))) (ops.map (concOp L rs)) = absRun L rs AState.init ops := by
  have g : Good L rs := ⟨hL, hr, by unfold fileSize at hsz; omega⟩
  have hb := bestPad_unpadded_limit g hne hbe limit hl hn
  refine ⟨hb, ⟨true, 0, false⟩, by unfold bestReaderCfg; rw [hb]; rfl, ?_⟩
  exact read_refines ⟨true, 0, false⟩ L rs ops hL hr hne hbe hsz hops

/-- **pad_reader_refines_cond** — the same for every `pr_limit` (0 = scan the whole file) under the explicit hypothesis
that no padding option makes the scan count more records than the file has (within the limit). The hypothesis cannot be
dropped: the scan is a heuristic, a payload that looks like physical records after a mis-consumed byte can make a
padding option count more (the full statement "for every unpadded written file the choice is (0, False)" is false for
`pr_limit = 0` and for `pr_limit` above the number of records). -/
theorem pad_reader_refines_cond (L : Layout) (rs : List Bytes) (ops : List Op) (limit : Nat)
    (hL : L.Valid) (hr : ∀ r ∈ rs, r ≠ []) (hrs : rs ≠ [])
    (hbe : L.tif = .be → firstNext L rs ≠ 0x100 ∧ firstNext L rs ≠ 0x10000)
    (hsz : fileSize L rs + 24 < 4294967296) (hops : HistOK rs ops)
    (hle : ∀ o ∈ padOptions, scanFile ⟨true, o.1, o.2⟩ (encode L rs) limit
        ≤ (if limit = 0 then numPRs L rs else min limit (numPRs L rs))) :
    bestPad (encode L rs) limit = some (0, false)
    ∧ ∃ cfg, bestReaderCfg (encode L rs) limit = some cfg
        ∧ run cfg (encode L rs) (some (Rd.new (encode L rs))) (ops.map (concOp L rs)) = absRun L rs AState.init ops := by
  have g : Good L rs := ⟨hL, hr, by unfold fileSize at hsz; omega⟩
  have hb := bestPad_unpadded_of_le g (fun _ => hrs) hbe limit hrs hle
  refine ⟨hb, ⟨true, 0, false⟩, by unfold bestReaderCfg; rw [hb]; rfl, ?_⟩
  exact read_refines ⟨true, 0, false⟩ L rs ops hL hr (fun _ => hrs) hbe hsz hops

/-- hypotheses of `pad_reader_refines` are satisfiable (5 physical records, pr_limit 5), and the model computes the
choice: all six options tie at 5 records and (0, False) is returned -/
example : let L : Layout := ⟨8, false, none, false, .off⟩
    let rs : List Bytes := [[1,2,3,4],[5,6,7,8,9,10,11,12],[13,14,15,16],[17]]
    numPRs L rs = 5 ∧ (scanAll true (encode L rs) 5).map (·.2) = [5, 5, 5, 5, 5, 5]
    ∧ bestPad (encode L rs) 5 = some (0, false) := by decide +kernel

/-- the hypotheses of `read_refines` are satisfiable by a non-trivial instance: reversed TIF, record-number and
file-number trailers, maximum payload 3, records of 7 and 2 bytes, a history that reads across PR boundaries, seeks
backwards and runs into the end of the file -/
example : let L : Layout := ⟨11, true, some 7, false, .be⟩
    let rs : List Bytes := [[1,2,3,4,5,6,7],[8,9]]
    let ops : List Op := [.read 2, .skip 3, .read 5, .read 1, .tell, .seek 1, .next, .read 1, .seek 0, .read (-1)]
    L.Valid ∧ (∀ r ∈ rs, r ≠ []) ∧ (L.tif ≠ .off → rs ≠ []) ∧
    (L.tif = .be → firstNext L rs ≠ 0x100 ∧ firstNext L rs ≠ 0x10000) ∧ fileSize L rs + 24 < 4294967296
    ∧ HistOK rs ops
    ∧ absRun L rs AState.init ops = [.bytes [1,2], .count 3, .bytes [6,7], .none, .pos 0, .pos 67, .count 2,
        .eofError, .pos 0, .bytes [1,2,3,4,5,6,7]] := by
  refine ⟨by decide, by decide, by decide, by decide, by decide, ?_, by decide⟩
  intro op hop i hi
  subst hi
  simp only [List.mem_cons, Op.seek.injEq, reduceCtorEq, List.mem_nil_iff, or_false, false_or] at hop
  rcases hop with h | h <;> (subst h; decide)

/-- the exclusion for byte-reversed TIF markers is necessary: with a first marker `next = 0x100` (first PR of 244 bytes)
the constructor takes the file for a normal TIF file and the second marker is refused — the model's replies differ
from the abstract ones. (The second excluded value 0x10000 is finding F22: it needs a 65 524 byte PR and is shown
on the real code by the harness.) -/
example : let L : Layout := ⟨244, false, none, false, .be⟩
    let rs : List Bytes := [List.replicate 240 65, [1, 2]]
    firstNext L rs = 0x100 ∧
    run Cfg.plain (encode L rs) (some (Rd.new (encode L rs))) ([.read (-1), .read (-1)].map (concOp L rs))
      ≠ absRun L rs AState.init [.read (-1), .read (-1)] := by
  decide +kernel

end TD.C05
