import TD.C05.LemWriter
import TD.C05.LemStrip
/-!
C05 — property theorems (LIS physical records: what is written is what is read, at any position; TIF stripping).

`Spec.lean`  : LIS-79 layout `encode`, positions `tellOf`, abstract reader `absStep/absRun`.
`Model.lean` : the code as it is (writer, reader state machine, strip_tif).
-/
namespace TD.C05

/-- **writer_layout.** For every valid layout (TIF off or normal), every list of logical records made of bytes, and —
with TIF markers — a file shorter than 2^32 bytes, `FileWrite(...)`, `write(r)` for every record and `close()` produce
exactly the LIS-79 encoding of the records (header length/attributes with successor and predecessor bits, trailer fields
with the running record number, the file number, the checksum; TIF markers with type/previous/next and the two EOF
markers), and the value returned by the i-th `write` is the sum of the sizes of the records before it. -/
theorem writer_layout (L : Layout) (rs : List Bytes) (hL : L.Valid) (hbe : L.tif ≠ .be)
    (hb : ∀ r ∈ rs, ∀ x ∈ r, x < 256) (hsz : L.tif = .le → fileSize L rs < 4294967296) :
    writeFile (L.tif != .off) L.prMax L.hasRec L.fileNum L.hasChk rs
      = .ok (encode L rs, (List.range rs.length).map (tellOf L rs)) :=
  writeFile_spec L rs hL hbe hb hsz

/-- the hypotheses of `writer_layout` are satisfiable by a non-trivial case: PR length 12 with a record number
trailer (payload 6), TIF on, a 13-byte record (three PRs) and a 2-byte record -/
example : let L : Layout := ⟨12, true, none, false, .le⟩
    L.Valid ∧ L.tif ≠ .be ∧ (L.tif = .le → fileSize L [[1,2,3,4,5,6,7,8,9,10,11,12,13],[1,2]] < 4294967296)
    ∧ tellOf L [[1,2,3,4,5,6,7,8,9,10,11,12,13],[1,2]] 1 = 67 := by decide


/-- **strip_tif.** For a layout with (normal) TIF markers, at least one record, no empty record and a file shorter
than 2^32 bytes, `DeTif.strip_tif` applied to the TIF-marked encoding returns exactly the encoding of the same records
under the same layout without TIF markers; it reports one stripped marker per physical record plus the two EOF markers
and the size of the unmarked file as the number of bytes written. -/
theorem strip_tif_encode (L : Layout) (rs : List Bytes) (hL : L.Valid) (hle : L.tif = .le)
    (hne : rs ≠ []) (hr : ∀ r ∈ rs, r ≠ []) (hsz : fileSize L rs < 4294967296) :
    stripTif (encode L rs) = .ok (encode L.noTif rs, numPRs L rs + 2, (encode L.noTif rs).length) :=
  stripTif_encode L hL hle rs hne hr hsz

/-- **strip_tif (write tif rs) = write noTif rs**, on the writer model: stripping what the writer produced with TIF
markers gives byte for byte what the writer produces without them. -/
theorem strip_tif_write (L : Layout) (rs : List Bytes) (hL : L.Valid) (hle : L.tif = .le)
    (hne : rs ≠ []) (hr : ∀ r ∈ rs, r ≠ []) (hb : ∀ r ∈ rs, ∀ x ∈ r, x < 256)
    (hsz : fileSize L rs < 4294967296) :
    ∃ fTif fPlain tells tells' n w,
      writeFile true L.prMax L.hasRec L.fileNum L.hasChk rs = .ok (fTif, tells)
      ∧ writeFile false L.prMax L.hasRec L.fileNum L.hasChk rs = .ok (fPlain, tells')
      ∧ stripTif fTif = .ok (fPlain, n, w) := by
  have h1 := writer_layout L rs hL (by rw [hle]; intro h; cases h) hb (fun _ => hsz)
  have hL' : L.noTif.Valid := hL
  have h2 := writer_layout L.noTif rs hL' (by intro h; cases h) hb (by intro h; cases h)
  have e1 : (L.tif != TifMode.off) = true := by rw [hle]; rfl
  have e2 : (L.noTif.tif != TifMode.off) = false := rfl
  rw [e1] at h1
  rw [e2] at h2
  exact ⟨_, _, _, _, _, _, h1, h2, strip_tif_encode L rs hL hle hne hr hsz⟩

/-- hypotheses of `strip_tif_encode` are satisfiable (record-number and checksum trailers, two records, 3+1 PRs) -/
example : let L : Layout := ⟨14, true, none, true, .le⟩
    let rs : List Bytes := [[1,2,3,4,5,6,7,8,9,10,11,12,13],[1,2]]
    L.Valid ∧ L.tif = .le ∧ rs ≠ [] ∧ (∀ r ∈ rs, r ≠ []) ∧ fileSize L rs < 4294967296 ∧ numPRs L rs = 4 := by decide

end TD.C05
