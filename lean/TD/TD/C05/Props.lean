import TD.C05.LemWriter
import TD.C05.LemStrip
import TD.C05.LemInit
/-!
C05 — property theorems (LIS physical records: what is written is what is read, at any position; TIF stripping).

`Spec.lean`  : LIS-79 layout `encode`, positions `tellOf`, abstract reader `absStep/absRun`.
`Model.lean` : the code as it is (writer, reader state machine, strip_tif).
-/
namespace TD.C05

/-- **writer_layout.** For every valid layout (TIF off or normal), every list of logical records made of bytes, and —
with TIF markers — a file shorter than 2^32 bytes, `FileWrite(...)`, `write(r)` for every record and `close()` produce
exactly the LIS-79 encoding of the records (header length/attributes with successor and predecessor bits, trailer fields
with the running record number, the file number, the checksum; TIF markers with type/previous/next and the two EOF
markers), and the value returned by the i-th `write` is the sum of the sizes of the records before it. -/
theorem writer_layout (L : Layout) (rs : List Bytes) (hL : L.Valid) (hbe : L.tif ≠ .be)
    (hb : ∀ r ∈ rs, ∀ x ∈ r, x < 256) (hsz : L.tif = .le → fileSize L rs < 4294967296) :
    writeFile (L.tif != .off) L.prMax L.hasRec L.fileNum L.hasChk rs
      = .ok (encode L rs, (List.range rs.length).map (tellOf L rs)) :=
  writeFile_spec L rs hL hbe hb hsz

/-- the hypotheses of `writer_layout` are satisfiable by a non-trivial case: PR length 12 with a record number
trailer (payload 6), TIF on, a 13-byte record (three PRs) and a 2-byte record -/
example : let L : Layout := ⟨12, true, none, false, .le⟩
    L.Valid ∧ L.tif ≠ .be ∧ (L.tif = .le → fileSize L [[1,2,3,4,5,6,7,8,9,10,11,12,13],[1,2]] < 4294967296)
    ∧ tellOf L [[1,2,3,4,5,6,7,8,9,10,11,12,13],[1,2]] 1 = 67 := by decide


/-- **strip_tif.** For a layout with (normal) TIF markers, at least one record, no empty record and a file shorter
than 2^32 bytes, `DeTif.strip_tif` applied to the TIF-marked encoding returns exactly the encoding of the same records
under the same layout without TIF markers; it reports one stripped marker per physical record plus the two EOF markers
and the size of the unmarked file as the number of bytes written. -/
theorem strip_tif_encode (L : Layout) (rs : List Bytes) (hL : L.Valid) (hle : L.tif = .le)
    (hne : rs ≠ []) (hr : ∀ r ∈ rs, r ≠ []) (hsz : fileSize L rs < 4294967296) :
    stripTif (encode L rs) = .ok (encode L.noTif rs, numPRs L rs + 2, (encode L.noTif rs).length) :=
  stripTif_encode L hL hle rs hne hr hsz

/-- **strip_tif (write tif rs) = write noTif rs**, on the writer model: stripping what the writer produced with TIF
markers gives byte for byte what the writer produces without them. -/
theorem strip_tif_write (L : Layout) (rs : List Bytes) (hL : L.Valid) (hle : L.tif = .le)
    (hne : rs ≠ []) (hr : ∀ r ∈ rs, r ≠ []) (hb : ∀ r ∈ rs, ∀ x ∈ r, x < 256)
    (hsz : fileSize L rs < 4294967296) :
    ∃ fTif fPlain tells tells' n w,
      writeFile true L.prMax L.hasRec L.fileNum L.hasChk rs = .ok (fTif, tells)
      ∧ writeFile false L.prMax L.hasRec L.fileNum L.hasChk rs = .ok (fPlain, tells')
      ∧ stripTif fTif = .ok (fPlain, n, w) := by
  have h1 := writer_layout L rs hL (by rw [hle]; intro h; cases h) hb (fun _ => hsz)
  have hL' : L.noTif.Valid := hL
  have h2 := writer_layout L.noTif rs hL' (by intro h; cases h) hb (by intro h; cases h)
  have e1 : (L.tif != TifMode.off) = true := by rw [hle]; rfl
  have e2 : (L.noTif.tif != TifMode.off) = false := rfl
  rw [e1] at h1
  rw [e2] at h2
  exact ⟨_, _, _, _, _, _, h1, h2, strip_tif_encode L rs hL hle hne hr hsz⟩

/-- hypotheses of `strip_tif_encode` are satisfiable (record-number and checksum trailers, two records, 3+1 PRs) -/
example : let L : Layout := ⟨14, true, none, true, .le⟩
    let rs : List Bytes := [[1,2,3,4,5,6,7,8,9,10,11,12,13],[1,2]]
    L.Valid ∧ L.tif = .le ∧ rs ≠ [] ∧ (∀ r ∈ rs, r ≠ []) ∧ fileSize L rs < 4294967296 ∧ numPRs L rs = 4 := by decide


/-- **read_refines** (simulation, unbounded in records, lengths, layout and history length).
Take any valid layout (all trailer combinations, TIF off / normal / byte-reversed), any list of non-empty logical
records, and the LIS-79 encoding `encode L rs` of it. For EVERY history of operations
`read n | skip n | read rest (n<0) | skip rest | skipToNextLr | seekLr(position of record i) | tellLr`
the replies of the reader model (`PhysRecRead` through `File.FileRead`, constructed on the file with `pad_modulo = 0` and
any `keepGoing` — `Cfg.plain` is `FileRead(f)`) are exactly the
replies of the abstract semantics on `(records, cursor = (record, offset))`: bytes are the bytes of the records,
counts are the numbers of bytes left, positions are the sums of the record sizes, `None` comes once at the end of a
record, operations at end of file raise the EOF error — and no other exception ever occurs.
Hypotheses: records non-empty; a TIF file has at least one record; byte-reversed TIF excludes the two first `next`
words 0x100 and 0x10000 whose byte orders are indistinguishable; the file is shorter than 2^32 − 24 bytes.
The proof is `init_rel` (invariant holds initially), `step_sim` (every operation preserves the invariant `Rel` and
answers like the abstract step) and induction over the history (`run_sim`). -/
theorem read_refines (cfg : Cfg) [Pad0 cfg] (L : Layout) (rs : List Bytes) (ops : List Op)
    (hL : L.Valid) (hr : ∀ r ∈ rs, r ≠ []) (hne : L.tif ≠ .off → rs ≠ [])
    (hbe : L.tif = .be → firstNext L rs ≠ 0x100 ∧ firstNext L rs ≠ 0x10000)
    (hsz : fileSize L rs + 24 < 4294967296) (hops : HistOK rs ops) :
    run cfg (encode L rs) (some (Rd.new (encode L rs))) (ops.map (concOp L rs)) = absRun L rs AState.init ops := by
  have g : Good L rs := ⟨hL, hr, by unfold fileSize at hsz; omega⟩
  exact run_sim (cfg := cfg) g ops _ _ (init_rel g hne hbe) (histOK_opOK hops)

/-- **seek_any_order.** After ANY history (any interleaving of reads, skips, seeks in any order), seeking to the reported
start of record `i`, reading it whole and asking for the position answers: that position, exactly the bytes of record
`i`, that position. -/
theorem seek_any_order (cfg : Cfg) [Pad0 cfg] (L : Layout) (rs : List Bytes) (ops : List Op) (i : Nat)
    (hL : L.Valid) (hr : ∀ r ∈ rs, r ≠ []) (hne : L.tif ≠ .off → rs ≠ [])
    (hbe : L.tif = .be → firstNext L rs ≠ 0x100 ∧ firstNext L rs ≠ 0x10000)
    (hsz : fileSize L rs + 24 < 4294967296) (hops : HistOK rs ops) (hi : i < rs.length) :
    (run cfg (encode L rs) (some (Rd.new (encode L rs)))
        ((ops ++ ([Op.seek i, Op.read (-1), Op.tell] : List Op)).map (concOp L rs))).drop ops.length
      = [.pos (tellOf L rs i), .bytes (recAt rs i), .pos (tellOf L rs i)] := by
  have hops' : HistOK rs (ops ++ ([Op.seek i, Op.read (-1), Op.tell] : List Op)) := by
    intro op hop j hj
    rcases List.mem_append.mp hop with h | h
    · exact hops op h j hj
    · subst hj
      simp only [List.mem_cons, Op.seek.injEq, reduceCtorEq, List.mem_nil_iff, or_false] at h
      omega
  rw [read_refines cfg L rs _ hL hr hne hbe hsz hops', absRun_append]
  have hl := absRun_length L rs ops AState.init
  rw [← hl, List.drop_left]
  exact abs_seek_read L rs _ i hi (hr _ (by unfold recAt; simp [hi]))

/-- the hypotheses of `read_refines` are satisfiable by a non-trivial instance: reversed TIF, record-number and
file-number trailers, maximum payload 3, records of 7 and 2 bytes, a history that reads across PR boundaries, seeks
backwards and runs into the end of the file -/
example : let L : Layout := ⟨11, true, some 7, false, .be⟩
    let rs : List Bytes := [[1,2,3,4,5,6,7],[8,9]]
    let ops : List Op := [.read 2, .skip 3, .read 5, .read 1, .tell, .seek 1, .next, .read 1, .seek 0, .read (-1)]
    L.Valid ∧ (∀ r ∈ rs, r ≠ []) ∧ (L.tif ≠ .off → rs ≠ []) ∧
    (L.tif = .be → firstNext L rs ≠ 0x100 ∧ firstNext L rs ≠ 0x10000) ∧ fileSize L rs + 24 < 4294967296
    ∧ HistOK rs ops
    ∧ absRun L rs AState.init ops = [.bytes [1,2], .count 3, .bytes [6,7], .none, .pos 0, .pos 67, .count 2,
        .eofError, .pos 0, .bytes [1,2,3,4,5,6,7]] := by
  refine ⟨by decide, by decide, by decide, by decide, by decide, ?_, by decide⟩
  intro op hop i hi
  subst hi
  simp only [List.mem_cons, Op.seek.injEq, reduceCtorEq, List.mem_nil_iff, or_false, false_or] at hop
  rcases hop with h | h <;> (subst h; decide)

/-- the exclusion for byte-reversed TIF markers is necessary: with a first marker `next = 0x100` (first PR of 244 bytes)
the constructor takes the file for a normal TIF file and the second marker is refused — the model's replies differ
from the abstract ones. (The second excluded value 0x10000 is finding F22: it needs a 65 524 byte PR and is shown
on the real code by the harness.) -/
example : let L : Layout := ⟨244, false, none, false, .be⟩
    let rs : List Bytes := [List.replicate 240 65, [1, 2]]
    firstNext L rs = 0x100 ∧
    run Cfg.plain (encode L rs) (some (Rd.new (encode L rs))) ([.read (-1), .read (-1)].map (concOp L rs))
      ≠ absRun L rs AState.init [.read (-1), .read (-1)] := by
  decide +kernel

end TD.C05
