import TD.C05.LemWriter
/-!
C05 — property theorems (LIS physical records: what is written is what is read, at any position; TIF stripping).

`Spec.lean`  : LIS-79 layout `encode`, positions `tellOf`, abstract reader `absStep/absRun`.
`Model.lean` : the code as it is (writer, reader state machine, strip_tif).
-/
namespace TD.C05

/-- **writer_layout.** For every valid layout (TIF off or normal), every list of logical records made of bytes, and —
with TIF markers — a file shorter than 2^32 bytes, `FileWrite(...)`, `write(r)` for every record and `close()` produce
exactly the LIS-79 encoding of the records (header length/attributes with successor and predecessor bits, trailer fields
with the running record number, the file number, the checksum; TIF markers with type/previous/next and the two EOF
markers), and the value returned by the i-th `write` is the sum of the sizes of the records before it. -/
theorem writer_layout (L : Layout) (rs : List Bytes) (hL : L.Valid) (hbe : L.tif ≠ .be)
    (hb : ∀ r ∈ rs, ∀ x ∈ r, x < 256) (hsz : L.tif = .le → fileSize L rs < 4294967296) :
    writeFile (L.tif != .off) L.prMax L.hasRec L.fileNum L.hasChk rs
      = .ok (encode L rs, (List.range rs.length).map (tellOf L rs)) :=
  writeFile_spec L rs hL hbe hb hsz

/-- the hypotheses of `writer_layout` are satisfiable by a non-trivial case: PR length 12 with a record number
trailer (payload 6), TIF on, a 13-byte record (three PRs) and a 2-byte record -/
example : let L : Layout := ⟨12, true, none, false, .le⟩
    L.Valid ∧ L.tif ≠ .be ∧ (L.tif = .le → fileSize L [[1,2,3,4,5,6,7,8,9,10,11,12,13],[1,2]] < 4294967296)
    ∧ tellOf L [[1,2,3,4,5,6,7,8,9,10,11,12,13],[1,2]] 1 = 67 := by decide

end TD.C05
