import TD.C05.Model
namespace TD.C05

/-- placeholder while the harness is brought up (replaced by the property theorems) -/
theorem encode_nil_off (L : Layout) (h : L.tif = .off) : encode L [] = [] := by
  simp [encode, encRecs, eofMarkers, tifMarker, h]

end TD.C05
