import TD.C05.LemRead
/-! C05: the reader's loops on an encoded file, in terms of a zipper over the chunk structure. -/
namespace TD.C05

variable {cfg : Cfg} [Pad0 cfg]

/-! ### encoder states -/

def ES.BackLe (st : ES) : Prop := st.back ≤ st.pos

theorem next_backLe (L : Layout) (st : ES) (c : Bytes) : (st.next L c).BackLe := by
  unfold ES.BackLe ES.next; simp only []; omega

theorem stAfterChunks_backLe (L : Layout) : ∀ (cs : List Bytes) (st : ES), st.BackLe → (stAfterChunks L st cs).BackLe := by
  intro cs; induction cs with
  | nil => intro st h; exact h
  | cons c cs ih => intro st _; exact ih _ (next_backLe L st c)

theorem stAfterRecs_backLe (L : Layout) : ∀ (rs : List Bytes) (st : ES), st.BackLe → (stAfterRecs L st rs).BackLe := by
  intro rs; induction rs with
  | nil => intro st h; exact h
  | cons r rs ih => intro st h; exact ih _ (stAfterChunks_backLe L _ st h)

theorem stAfterChunks_append (L : Layout) : ∀ (a b : List Bytes) (st : ES),
    stAfterChunks L st (a ++ b) = stAfterChunks L (stAfterChunks L st a) b := by
  intro a; induction a with
  | nil => intro b st; rfl
  | cons c a ih => intro b st; simp only [List.cons_append, stAfterChunks]; exact ih b _

theorem stAfterRecs_append (L : Layout) : ∀ (a b : List Bytes) (st : ES),
    stAfterRecs L st (a ++ b) = stAfterRecs L (stAfterRecs L st a) b := by
  intro a; induction a with
  | nil => intro b st; rfl
  | cons c a ih => intro b st; simp only [List.cons_append, stAfterRecs]; exact ih b _

theorem encRecs_append (L : Layout) : ∀ (a b : List Bytes) (st : ES),
    encRecs L st (a ++ b) = encRecs L st a ++ encRecs L (stAfterRecs L st a) b := by
  intro a; induction a with
  | nil => intro b st; rfl
  | cons c a ih => intro b st; simp only [List.cons_append, encRecs, stAfterRecs, ih, List.append_assoc]

/-! ### the rest of the file seen from a position -/

/-- rest of the file before record list `rrs`, encoder state `st` -/
def tailStart (L : Layout) (st : ES) (rrs : List Bytes) : Bytes :=
  encRecs L st rrs ++ eofMarkers L (stAfterRecs L st rrs)

/-- a position inside a logical record: the record starts at encoder state `stR`; chunks `pre` are consumed, the
current chunk is `c` of which `j` bytes are consumed, `cs` are the later chunks, `rrs` the later records -/
structure Z where
  stR : ES
  pre : List Bytes
  c : Bytes
  cs : List Bytes
  j : Nat
  rrs : List Bytes

def Z.st (L : Layout) (z : Z) : ES := stAfterChunks L z.stR z.pre
def Z.st2 (L : Layout) (z : Z) : ES := stAfterChunks L ((z.st L).next L z.c) z.cs

def tailInside (L : Layout) (z : Z) : Bytes :=
  z.c.drop z.j ++ (trailerOf L (z.st L) z.pre.isEmpty z.cs.isEmpty z.c
    ++ (encChunks L ((z.st L).next L z.c) false z.cs ++ tailStart L (z.st2 L) z.rrs))

/-- the file fits: the last position is below 2^32 (needed for TIF words) -/
def Fits (L : Layout) (st : ES) (rrs : List Bytes) : Prop := (stAfterRecs L st rrs).pos + 24 < 4294967296

structure CStart (L : Layout) (f : Bytes) (st : ES) (rrs : List Bytes) (s : Rd) : Prop where
  pos : s.pos = st.pos
  drop : f.drop s.pos = tailStart L st rrs
  mrh : s.mustReadHead = true
  eof : s.isEOF = false
  succ : s.hasSuccessor = false
  ld : s.ldLen ≤ s.ldIndex
  tm : TifMode' L s.tif
  tl : TifLink L s.tif st
  bl : st.BackLe
  fits : Fits L st rrs
  rne : ∀ r ∈ rrs, r ≠ []

structure CInside (L : Layout) (f : Bytes) (z : Z) (s : Rd) : Prop where
  pos : s.pos = (z.st L).pos + L.tifLen + 4 + z.j
  drop : f.drop s.pos = tailInside L z
  attr : s.prAttr = attrOf L z.pre.isEmpty z.cs.isEmpty
  ldLen : s.ldLen = z.c.length
  ldIndex : s.ldIndex = z.j
  jle : z.j ≤ z.c.length
  mrh : s.mustReadHead = false
  eof : s.isEOF = false
  tm : TifMode' L s.tif
  tl : TifLink L s.tif ((z.st L).next L z.c)
  bl : z.stR.BackLe
  fits : Fits L (z.st2 L) z.rrs
  rne : ∀ r ∈ z.rrs, r ≠ []
  csz : ∀ x ∈ z.cs, x ≠ [] ∧ x.length ≤ L.maxPayload

theorem prLenOf_lt (L : Layout) (hL : L.Valid) (c : Bytes) (h : c.length ≤ L.maxPayload) : prLenOf L c < 65536 := by
  have := hL.1; have := hL.2
  unfold prLenOf; unfold Layout.maxPayload at h; omega


theorem chunks_all (mp : Nat) (hmp : 1 ≤ mp) : ∀ (n : Nat) (l : Bytes), l.length ≤ n →
    ∀ x ∈ chunks mp l, x ≠ [] ∧ x.length ≤ mp := by
  intro n
  induction n with
  | zero =>
    intro l hl x hx
    have : l = [] := List.eq_nil_of_length_eq_zero (by omega)
    subst this; rw [chunks_nil] at hx; simp at hx
  | succ n ih =>
    intro l hl x hx
    by_cases hne : l = []
    · subst hne; rw [chunks_nil] at hx; simp at hx
    · rw [chunks_cons mp hmp l hne] at hx
      have hlen : 0 < l.length := List.length_pos_iff.mpr hne
      rcases List.mem_cons.mp hx with h | h
      · subst h
        refine ⟨?_, by simp [List.length_take]; omega⟩
        intro h0
        have h1 : (l.take mp).length = 0 := by rw [h0]; rfl
        rw [List.length_take] at h1; omega
      · apply ih (l.drop (l.take mp).length) _ x h
        simp [List.length_drop, List.length_take]; omega

theorem chunks_flatten (mp : Nat) (hmp : 1 ≤ mp) : ∀ (n : Nat) (l : Bytes), l.length ≤ n → (chunks mp l).flatten = l := by
  intro n
  induction n with
  | zero =>
    intro l hl
    have : l = [] := List.eq_nil_of_length_eq_zero (by omega)
    subst this; rw [chunks_nil]; rfl
  | succ n ih =>
    intro l hl
    by_cases hne : l = []
    · subst hne; rw [chunks_nil]; rfl
    · rw [chunks_cons mp hmp l hne]
      have hlen : 0 < l.length := List.length_pos_iff.mpr hne
      simp only [List.flatten_cons]
      rw [ih (l.drop (l.take mp).length) (by simp [List.length_drop, List.length_take]; omega)]
      simp [List.length_take]
      by_cases h : mp ≤ l.length
      · rw [Nat.min_eq_left h]; exact List.take_append_drop mp l
      · rw [Nat.min_eq_right (by omega)]; simp [List.take_of_length_le (by omega : l.length ≤ mp)]

theorem stAfterRecs_pos_mono (L : Layout) (st : ES) (rrs : List Bytes) : st.pos ≤ (stAfterRecs L st rrs).pos :=
  stAfterRecs_pos_ge L rrs st

/-- at the end of the last chunk of a record: the trailer is consumed and the reader stands before the next record -/
theorem finishRec {L : Layout} {f : Bytes} {z : Z} {s : Rd} (h : CInside L f z s)
    (hj : z.j = z.c.length) (hcs : z.cs = []) :
    ∃ s1, readTail cfg f s = .ok s1 ∧ CStart L f (z.st2 L) z.rrs s1 ∧ s1.startOfLr = s.startOfLr := by
  have hd := h.drop
  unfold tailInside at hd
  rw [hj, List.drop_length, List.nil_append, hcs] at hd
  simp only [encChunks, List.nil_append] at hd
  have hlen : L.prtLen ≤ f.length - s.pos := by
    have := congrArg List.length hd
    simp only [List.length_drop, List.length_append, trailerOf_length] at this; omega
  have hattr := h.attr
  rw [hcs] at hattr
  have e1 := readTail_ok (cfg := cfg) (f := f) L z.pre.isEmpty ([] : List Bytes).isEmpty hattr hlen h.eof
  have hd2 := drop_add_of_drop hd
  rw [trailerOf_length] at hd2
  have hst2 : z.st2 L = (z.st L).next L z.c := by unfold Z.st2; rw [hcs]; rfl
  refine ⟨_, e1, ?_, rfl⟩
  obtain ⟨b0, _⟩ := bitSet_attrOf L z.pre.isEmpty ([] : List Bytes).isEmpty
  refine ⟨?_, hd2, rfl, h.eof, ?_, ?_, h.tm, ?_, ?_, h.fits, h.rne⟩
  · simp only [hst2, next_pos, prLenOf, h.pos, hj]; omega
  · show bitSet s.prAttr 0 = false
    rw [hattr, b0]; rfl
  · show s.ldLen ≤ s.ldIndex
    rw [h.ldLen, h.ldIndex, hj]; exact Nat.le_refl _
  · rw [hst2]; exact h.tl
  · rw [hst2]; exact next_backLe L _ _


theorem stAfterChunks_pos_mono (L : Layout) (st : ES) (cs : List Bytes) : st.pos ≤ (stAfterChunks L st cs).pos :=
  stAfterChunks_pos_ge L cs st

/-- at the end of a chunk that has a successor: trailer and next header are consumed -/
theorem nextChunk {L : Layout} (hL : L.Valid) {f : Bytes} {z : Z} {s : Rd} (h : CInside L f z s)
    (hj : z.j = z.c.length) (c2 : Bytes) (cs2 : List Bytes) (hcs : z.cs = c2 :: cs2) :
    ∃ s1 s2, readTail cfg f s = .ok s1 ∧ s1.hasSuccessor = true ∧ readHead cfg f s1 = .ok s2
      ∧ CInside L f ⟨z.stR, z.pre ++ [z.c], c2, cs2, 0, z.rrs⟩ s2 ∧ s2.startOfLr = s.startOfLr
      ∧ Z.st2 L ⟨z.stR, z.pre ++ [z.c], c2, cs2, 0, z.rrs⟩ = z.st2 L ∧ s1.isEOF = false := by
  have hd := h.drop
  unfold tailInside at hd
  rw [hj, List.drop_length, List.nil_append, hcs] at hd
  simp only [encChunks] at hd
  have hlen : L.prtLen ≤ f.length - s.pos := by
    have := congrArg List.length hd
    simp only [List.length_drop, List.length_append, trailerOf_length] at this; omega
  have hattr := h.attr
  rw [hcs] at hattr
  have e1 := readTail_ok (cfg := cfg) (f := f) L z.pre.isEmpty (c2 :: cs2).isEmpty hattr hlen h.eof
  have hd2 := drop_add_of_drop hd
  rw [trailerOf_length] at hd2
  obtain ⟨b0, _⟩ := bitSet_attrOf L z.pre.isEmpty (c2 :: cs2).isEmpty
  have hsucc : ({ s with mustReadHead := true, pos := s.pos + L.prtLen } : Rd).hasSuccessor = true := by
    show bitSet s.prAttr 0 = true
    rw [hattr, b0]; rfl
  have hc2 := h.csz c2 (by rw [hcs]; simp)
  have hst' : Z.st L ⟨z.stR, z.pre ++ [z.c], c2, cs2, 0, z.rrs⟩ = (z.st L).next L z.c := by
    unfold Z.st; simp only [stAfterChunks_append, stAfterChunks]
  have hst2' : Z.st2 L ⟨z.stR, z.pre ++ [z.c], c2, cs2, 0, z.rrs⟩ = z.st2 L := by
    unfold Z.st2; rw [hst']; simp only [hcs, stAfterChunks]
  have hpos1 : ({ s with mustReadHead := true, pos := s.pos + L.prtLen } : Rd).pos = ((z.st L).next L z.c).pos := by
    simp only [next_pos, prLenOf, h.pos, hj]; omega
  have hfits := h.fits
  unfold Fits at hfits
  have m1 := stAfterRecs_pos_mono L (z.st2 L) z.rrs
  have m2 : (((z.st L).next L z.c).next L c2).pos ≤ (z.st2 L).pos := by
    unfold Z.st2; rw [hcs]; simp only [stAfterChunks]; exact stAfterChunks_pos_mono L _ cs2
  have hbl : ((z.st L).next L z.c).BackLe := next_backLe L _ _
  unfold ES.BackLe at hbl
  have m3 : (((z.st L).next L z.c).next L c2).pos = ((z.st L).next L z.c).pos + L.tifLen + prLenOf L c2 := rfl
  have hd3 : f.drop ({ s with mustReadHead := true, pos := s.pos + L.prtLen } : Rd).pos
      = encPR L ((z.st L).next L z.c) false cs2.isEmpty c2
        ++ (encChunks L (((z.st L).next L z.c).next L c2) false cs2 ++ tailStart L (z.st2 L) z.rrs) := by
    simpa using hd2
  obtain ⟨s2, e2, hp⟩ := readHead_ok (cfg := cfg) (f := f) L { s with mustReadHead := true, pos := s.pos + L.prtLen }
    ((z.st L).next L z.c) false cs2.isEmpty c2 h.tm h.tl hpos1 hd3 (prLenOf_lt L hL c2 hc2.2) (by omega) (by omega)
  have hpe : (z.pre ++ [z.c]).isEmpty = false := by cases z.pre <;> rfl
  refine ⟨_, s2, e1, hsucc, e2, ?_, ?_, hst2', h.eof⟩
  · refine ⟨?_, ?_, ?_, hp.ldLen, hp.ldIndex, Nat.zero_le _, hp.mrh, ?_, hp.tm, ?_, h.bl, ?_, h.rne, ?_⟩
    · rw [hst', hp.pos, hpos1]; rfl
    · rw [hp.drop]; unfold tailInside; simp only [hst', hst2', List.drop_zero, hpe]
      simp
    · rw [hp.attr]; simp only [hpe]
    · rw [hp.eof]; exact h.eof
    · rw [hst']; exact hp.tl
    · rw [hst2']; exact h.fits
    · intro x hx; exact h.csz x (by rw [hcs]; exact List.mem_cons_of_mem _ hx)
  · rw [hp.sol, hsucc]; rfl


/-- before a record: the header of its first PR is read -/
theorem openRecC {L : Layout} (hL : L.Valid) {f : Bytes} {st : ES} {r : Bytes} {rrs : List Bytes} {s : Rd}
    (h : CStart L f st (r :: rrs) s) :
    ∃ c cs s', chunks L.maxPayload r = c :: cs ∧ readHead cfg f s = .ok s'
      ∧ CInside L f ⟨st, [], c, cs, 0, rrs⟩ s' ∧ s'.startOfLr = s.pos := by
  have hmp : 1 ≤ L.maxPayload := by have := hL.2; unfold Layout.maxPayload; omega
  have hrne : r ≠ [] := h.rne r (by simp)
  have hall := chunks_all L.maxPayload hmp r.length r (Nat.le_refl _)
  have hcne : chunks L.maxPayload r ≠ [] := fun h0 => hrne ((chunks_eq_nil _ hmp r).mp h0)
  obtain ⟨c, cs, hc⟩ := List.exists_cons_of_ne_nil hcne
  have hcc := hall c (by rw [hc]; simp)
  have hd := h.drop
  unfold tailStart at hd
  simp only [encRecs, stAfterRecs, encRec, stAfterRec, hc, encChunks, stAfterChunks, List.append_assoc] at hd
  have hfits := h.fits
  unfold Fits at hfits
  simp only [stAfterRecs, stAfterRec, hc, stAfterChunks] at hfits
  have m1 := stAfterRecs_pos_mono L (stAfterChunks L (st.next L c) cs) rrs
  have m2 := stAfterChunks_pos_mono L (st.next L c) cs
  have m3 : (st.next L c).pos = st.pos + L.tifLen + prLenOf L c := rfl
  have hbl := h.bl
  unfold ES.BackLe at hbl
  obtain ⟨s', e1, hp⟩ := readHead_ok (cfg := cfg) (f := f) L s st true cs.isEmpty c h.tm h.tl h.pos hd
    (prLenOf_lt L hL c hcc.2) (by omega) (by omega)
  refine ⟨c, cs, s', hc, e1, ?_, ?_⟩
  · refine ⟨?_, ?_, hp.attr, hp.ldLen, hp.ldIndex, Nat.zero_le _, hp.mrh, ?_, hp.tm, hp.tl, h.bl, ?_,
      fun x hx => h.rne x (List.mem_cons_of_mem _ hx), fun x hx => hall x (by rw [hc]; exact List.mem_cons_of_mem _ hx)⟩
    · rw [hp.pos, h.pos]; rfl
    · rw [hp.drop]; unfold tailInside tailStart; simp [Z.st, Z.st2, stAfterChunks]
    · rw [hp.eof]; exact h.eof
    · unfold Fits; simpa [Z.st, Z.st2, stAfterChunks] using h.fits |> fun hf => by
        unfold Fits at hf; simpa [stAfterRecs, stAfterRec, hc, stAfterChunks] using hf
  · rw [hp.sol, h.succ]; rfl


theorem succ_of_inside {L : Layout} {f : Bytes} {z : Z} {s : Rd} (h : CInside L f z s) :
    s.hasSuccessor = !z.cs.isEmpty := by
  obtain ⟨b0, _⟩ := bitSet_attrOf L z.pre.isEmpty z.cs.isEmpty
  show bitSet s.prAttr 0 = _
  rw [h.attr, b0]

/-- read or skip `m` bytes inside the current chunk -/
theorem advanceZ {L : Layout} {f : Bytes} {z : Z} {s : Rd} (h : CInside L f z s) (acc : Acc) (m : Nat)
    (hm : m ≤ z.c.length - z.j) :
    ldWithin f s acc m = .ok ({ s with ldIndex := s.ldIndex + m, ldTell := s.ldTell + m, pos := s.pos + m },
        acc.app ((z.c.drop z.j).take m))
    ∧ CInside L f { z with j := z.j + m }
        { s with ldIndex := s.ldIndex + m, ldTell := s.ldTell + m, pos := s.pos + m } := by
  have hjle := h.jle
  have hd := h.drop
  unfold tailInside at hd
  have hsplit : z.c.drop z.j = (z.c.drop z.j).take m ++ z.c.drop (z.j + m) := by
    rw [← List.drop_drop]; exact (List.take_append_drop m _).symm
  have hlen : ((z.c.drop z.j).take m).length = m := by
    rw [List.length_take, List.length_drop]; omega
  rw [hsplit, List.append_assoc] at hd
  have e1 := ldWithin_ok (s := s) acc hd
  rw [hlen] at e1
  refine ⟨e1, ?_⟩
  have hd2 := drop_add_of_drop hd
  rw [hlen] at hd2
  exact ⟨by simp only [h.pos, Z.st]; omega, by unfold tailInside; exact hd2, h.attr, h.ldLen,
    by simp only [h.ldIndex], by simp only []; omega, h.mrh, h.eof, h.tm, h.tl, h.bl, h.fits, h.rne, h.csz⟩

/-- the "all the rest" loop: from inside a record to the start of the next one -/
theorem allLoop_ok {L : Layout} (hL : L.Valid) {f : Bytes} : ∀ (cs : List Bytes) (z : Z) (s : Rd) (acc : Acc)
    (fuel : Nat), z.cs = cs → CInside L f z s → cs.length < fuel →
    ∃ s', allLoop cfg f fuel s acc = .ok (s', acc.app (z.c.drop z.j ++ cs.flatten))
      ∧ CStart L f (z.st2 L) z.rrs s' ∧ s'.startOfLr = s.startOfLr := by
  intro cs
  induction cs with
  | nil =>
    intro z s acc fuel hcs h hf
    cases fuel with
    | zero => simp at hf
    | succ k =>
      obtain ⟨e1, h1⟩ := advanceZ h acc (z.c.length - z.j) (Nat.le_refl _)
      have hjle := h.jle
      obtain ⟨s2, e2, h2, e3⟩ := finishRec (cfg := cfg) (z := { z with j := z.j + (z.c.length - z.j) }) h1
        (by simp only []; omega) hcs
      refine ⟨s2, ?_, h2, e3⟩
      unfold allLoop
      rw [h.ldLen, h.ldIndex, e1]
      simp only [e2, h2.succ, Bool.false_eq_true, if_false]
      rw [List.take_of_length_le (by rw [List.length_drop]; omega)]
      simp
  | cons c2 cs2 ih =>
    intro z s acc fuel hcs h hf
    cases fuel with
    | zero => simp at hf
    | succ k =>
      obtain ⟨e1, h1⟩ := advanceZ h acc (z.c.length - z.j) (Nat.le_refl _)
      have hjle := h.jle
      obtain ⟨s2, s3, e2, e3, e4, h3, e5, e6, _⟩ := nextChunk (cfg := cfg) hL (z := { z with j := z.j + (z.c.length - z.j) }) h1
        (by simp only []; omega) c2 cs2 hcs
      obtain ⟨s', e7, h7, e8⟩ := ih ⟨z.stR, z.pre ++ [z.c], c2, cs2, 0, z.rrs⟩ s3
        (acc.app ((z.c.drop z.j).take (z.c.length - z.j))) k rfl h3 (by simpa using hf)
      refine ⟨s', ?_, ?_, ?_⟩
      · unfold allLoop
        rw [h.ldLen, h.ldIndex, e1]
        simp only [e2, e3, if_true, e4, e7]
        rw [List.take_of_length_le (by rw [List.length_drop]; omega), Acc.app_app]
        simp
      · rw [e6] at h7; exact h7
      · rw [e8, e5]


theorem take_split (a b : Bytes) (n : Nat) (h : a.length ≤ n) : (a ++ b).take n = a ++ b.take (n - a.length) := by
  rw [List.take_append, List.take_of_length_le h]

/-- `z'` is `z` moved forward by `m` bytes inside the same record -/
structure Adv (z z' : Z) (m : Nat) : Prop where
  stR : z'.stR = z.stR
  rrs : z'.rrs = z.rrs
  chunks : z'.pre ++ z'.c :: z'.cs = z.pre ++ z.c :: z.cs
  off : z'.pre.flatten.length + z'.j = z.pre.flatten.length + z.j + m

/-- the sized loop: reads/skips `min (size - br) (what is left of the record)` bytes and stays inside the record -/
theorem sizedLoop_ok {L : Layout} (hL : L.Valid) {f : Bytes} : ∀ (cs : List Bytes) (z : Z) (s : Rd) (acc : Acc)
    (fuel br size : Nat), z.cs = cs → CInside L f z s → cs.length < fuel → br ≤ size →
    ∃ s' z', sizedLoop cfg f fuel s acc br size = .ok (s', acc.app ((z.c.drop z.j ++ cs.flatten).take (size - br)))
      ∧ CInside L f z' s' ∧ Adv z z' (min (size - br) (z.c.length - z.j + cs.flatten.length))
      ∧ s'.startOfLr = s.startOfLr := by
  intro cs
  induction cs with
  | nil =>
    intro z s acc fuel br size hcs h hf hbr
    have hjle := h.jle
    cases fuel with
    | zero => simp at hf
    | succ k =>
      unfold sizedLoop
      by_cases hlt : br < size
      · rw [if_pos hlt, h.ldLen, h.ldIndex]
        by_cases hin : size - br ≤ z.c.length - z.j
        · rw [if_pos hin]
          obtain ⟨e1, h1⟩ := advanceZ h acc (size - br) hin
          refine ⟨_, _, e1.trans ?_, h1, ⟨rfl, rfl, rfl, ?_⟩, rfl⟩
          · simp
          · simp only [List.flatten_nil, List.length_nil, Nat.add_zero]; omega
        · rw [if_neg hin]
          obtain ⟨e1, h1⟩ := advanceZ h acc (z.c.length - z.j) (Nat.le_refl _)
          have hsucc := succ_of_inside h1
          simp only [hcs, List.isEmpty_nil, Bool.not_true] at hsucc
          simp only [e1, hsucc, Bool.false_eq_true, if_false]
          refine ⟨_, _, ?_, h1, ⟨rfl, rfl, rfl, ?_⟩, rfl⟩
          · rw [List.take_of_length_le (by rw [List.length_drop]; omega)]
            rw [List.take_of_length_le (by simp [List.length_drop]; omega)]
            simp
          · simp only [List.flatten_nil, List.length_nil, Nat.add_zero]; omega
      · rw [if_neg hlt]
        have : size - br = 0 := by omega
        refine ⟨s, z, ?_, h, ⟨rfl, rfl, rfl, ?_⟩, rfl⟩
        · rw [this]; simp [Acc.app_nil]
        · rw [this]; simp
  | cons c2 cs2 ih =>
    intro z s acc fuel br size hcs h hf hbr
    have hjle := h.jle
    cases fuel with
    | zero => simp at hf
    | succ k =>
      unfold sizedLoop
      by_cases hlt : br < size
      · rw [if_pos hlt, h.ldLen, h.ldIndex]
        by_cases hin : size - br ≤ z.c.length - z.j
        · rw [if_pos hin]
          obtain ⟨e1, h1⟩ := advanceZ h acc (size - br) hin
          refine ⟨_, _, e1.trans ?_, h1, ⟨rfl, rfl, rfl, ?_⟩, rfl⟩
          · rw [List.take_append_of_le_length (by rw [List.length_drop]; omega)]
          · simp only []; omega
        · rw [if_neg hin]
          obtain ⟨e1, h1⟩ := advanceZ h acc (z.c.length - z.j) (Nat.le_refl _)
          have hsucc := succ_of_inside h1
          simp only [hcs, List.isEmpty_cons, Bool.not_false] at hsucc
          obtain ⟨s2, s3, e2, e3, e4, h3, e5, e6, _⟩ := nextChunk (cfg := cfg) hL (z := { z with j := z.j + (z.c.length - z.j) }) h1
            (by simp only []; omega) c2 cs2 hcs
          obtain ⟨s', z', e7, h7, a7, e8⟩ := ih ⟨z.stR, z.pre ++ [z.c], c2, cs2, 0, z.rrs⟩ s3
            (acc.app ((z.c.drop z.j).take (z.c.length - z.j))) k (br + (z.c.length - z.j)) size rfl h3
            (by simpa using hf) (by omega)
          simp only [e1, hsucc, if_true, e2, e4]
          refine ⟨s', z', e7.trans ?_, h7, ⟨a7.stR, a7.rrs, ?_, ?_⟩, by rw [e8, e5]⟩
          · rw [List.take_of_length_le (by rw [List.length_drop]; omega), Acc.app_app]
            rw [take_split (z.c.drop z.j) ((c2 :: cs2).flatten) (size - br) (by rw [List.length_drop]; omega)]
            simp only [List.drop_zero, List.flatten_cons, List.length_drop, Nat.sub_add_eq]
          · rw [a7.chunks, hcs]; simp
          · have := a7.off
            simp only [List.flatten_append, List.length_append, List.flatten_cons, List.flatten_nil,
              List.append_nil, List.length_nil, Nat.add_zero, Nat.sub_zero] at this ⊢
            omega
      · rw [if_neg hlt]
        have : size - br = 0 := by omega
        refine ⟨s, z, ?_, h, ⟨rfl, rfl, rfl, ?_⟩, rfl⟩
        · rw [this]; simp [Acc.app_nil]
        · rw [this]; simp

end TD.C05
