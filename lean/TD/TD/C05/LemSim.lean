import TD.C05.LemLoop
/-! C05: simulation between the abstract reader and the reader model on an encoded file. -/
namespace TD.C05

variable {cfg : Cfg} [Pad0 cfg]

def stAt (L : Layout) (rs : List Bytes) (i : Nat) : ES := stAfterRecs L ES.init (rs.take i)

theorem stAt_pos (L : Layout) (rs : List Bytes) (i : Nat) : (stAt L rs i).pos = tellOf L rs i := by
  unfold stAt tellOf; rw [stAfterRecs_pos]; simp [ES.init]

theorem drop_recAt (rs : List Bytes) (i : Nat) (h : i < rs.length) : rs.drop i = recAt rs i :: rs.drop (i + 1) := by
  rw [List.drop_eq_getElem_cons h]
  congr 1
  unfold recAt; simp [h]

theorem stAt_succ (L : Layout) (rs : List Bytes) (i : Nat) (h : i < rs.length) :
    stAt L rs (i + 1) = stAfterRec L (stAt L rs i) (recAt rs i) := by
  unfold stAt
  have : rs.take (i + 1) = rs.take i ++ [recAt rs i] := by
    rw [List.take_succ_eq_append_getElem h]; congr 2; unfold recAt; simp [h]
  rw [this, stAfterRecs_append]; rfl

theorem stAt_end (L : Layout) (rs : List Bytes) (i : Nat) :
    stAfterRecs L (stAt L rs i) (rs.drop i) = stAfterRecs L ES.init rs := by
  unfold stAt; rw [← stAfterRecs_append, List.take_append_drop]

theorem stAt_backLe (L : Layout) (rs : List Bytes) (i : Nat) : (stAt L rs i).BackLe :=
  stAfterRecs_backLe L _ _ (Nat.le_refl 0)

theorem drop_tell (L : Layout) (rs : List Bytes) (i : Nat) :
    (encode L rs).drop (tellOf L rs i) = tailStart L (stAt L rs i) (rs.drop i) := by
  unfold encode tailStart
  rw [stAt_end]
  have e : encRecs L ES.init rs = encRecs L ES.init (rs.take i) ++ encRecs L (stAt L rs i) (rs.drop i) := by
    conv => lhs; rw [← List.take_append_drop i rs]
    rw [encRecs_append]; rfl
  have hl : (encRecs L ES.init (rs.take i)).length = tellOf L rs i := by rw [encRecs_length]; rfl
  rw [e, List.append_assoc, ← hl, List.drop_left]

structure Good (L : Layout) (rs : List Bytes) : Prop where
  valid : L.Valid
  rne : ∀ r ∈ rs, r ≠ []
  fits : tellOf L rs rs.length + 24 < 4294967296

theorem fits_at {L : Layout} {rs : List Bytes} (g : Good L rs) (i : Nat) : Fits L (stAt L rs i) (rs.drop i) := by
  unfold Fits; rw [stAt_end]
  have := stAt_pos L rs rs.length
  unfold stAt at this; rw [List.take_length] at this
  rw [this]; exact g.fits

def curVal (L : Layout) (rs : List Bytes) : Option Nat → Nat
  | none => 0
  | some j => tellOf L rs j

/-- the simulation relation -/
def Rel (L : Layout) (rs : List Bytes) (f : Bytes) (a : AState) (s : Rd) : Prop :=
  s.startOfLr = curVal L rs a.cur ∧ TifMode' L s.tif ∧
  match a.ph with
  | .start i => i ≤ rs.length ∧ CStart L f (stAt L rs i) (rs.drop i) s
  | .inside i off => i < rs.length ∧ ∃ z, CInside L f z s ∧ z.stR = stAt L rs i ∧ z.rrs = rs.drop (i + 1)
      ∧ z.pre ++ z.c :: z.cs = chunks L.maxPayload (recAt rs i) ∧ off = z.pre.flatten.length + z.j
  | .eof => s.isEOF = true ∧ f.drop s.pos = [] ∧ (L.tif ≠ .off → s.tif.tifNext = s.pos)


/-- reading a header at the start of record `k` (or at the end of the file) -/
theorem headAt {L : Layout} {rs : List Bytes} {f : Bytes} (g : Good L rs) {s : Rd} (k : Nat) (cur : Option Nat)
    (hk : k ≤ rs.length) (h : CStart L f (stAt L rs k) (rs.drop k) s) (hcur : s.startOfLr = curVal L rs cur) :
    ∃ s', readHead cfg f s = .ok s' ∧ Rel L rs f (openRec rs ⟨.start k, cur⟩) s'
      ∧ (k < rs.length → s'.hasLd = true ∧ s'.isEOF = false ∧ s'.mustReadHead = false)
      ∧ (¬ k < rs.length → s'.hasLd = false ∧ s'.isEOF = true ∧ f.drop s'.pos = []
            ∧ (L.tif ≠ .off → s'.tif.tifNext = s'.pos)) := by
  have hmp : 1 ≤ L.maxPayload := by have := g.valid.2; unfold Layout.maxPayload; omega
  by_cases hlt : k < rs.length
  · have hdrop := drop_recAt rs k hlt
    rw [hdrop] at h
    obtain ⟨c, cs, s', hc, e1, hin, e2⟩ := openRecC (cfg := cfg) g.valid h
    have hcne := (chunks_all L.maxPayload hmp _ _ (Nat.le_refl _) c (by rw [hc]; simp)).1
    have hclen : 0 < c.length := List.length_pos_iff.mpr hcne
    refine ⟨s', e1, ?_, fun _ => ⟨?_, hin.eof, hin.mrh⟩, fun hh => absurd hlt hh⟩
    · simp only [openRec, hlt, if_true]
      refine ⟨?_, hin.tm, hlt, _, hin, rfl, rfl, ?_, ?_⟩
      · rw [e2, h.pos, stAt_pos]; rfl
      · simp only [List.nil_append]; exact hc.symm
      · simp
    · unfold Rd.hasLd
      rw [hin.ldLen, hin.ldIndex]
      simp [hclen]
  · have hk' : k = rs.length := by omega
    have hnil : rs.drop k = [] := List.drop_eq_nil_of_le (by omega)
    rw [hnil] at h
    have hd := h.drop
    unfold tailStart at hd
    simp only [encRecs, stAfterRecs, List.nil_append] at hd
    have hf := h.fits
    unfold Fits at hf
    simp only [stAfterRecs] at hf
    have hb := h.bl
    unfold ES.BackLe at hb
    obtain ⟨s', e1, hp⟩ := readHead_eof (cfg := cfg) (f := f) L s (stAt L rs k) h.tm h.tl h.pos hd (by omega) hf
    refine ⟨s', e1, ?_, fun hh => absurd hh hlt, fun _ => ⟨?_, hp.eof, hp.atEnd, hp.tn⟩⟩
    · simp only [openRec, hlt, if_false]
      exact ⟨by rw [hp.sol]; exact hcur, hp.tm, hp.eof, hp.atEnd, hp.tn⟩
    · unfold Rd.hasLd Rd.hasSuccessor
      rw [hp.ldLen, hp.ldIndex, hp.attr]
      have hs := h.succ
      unfold Rd.hasSuccessor at hs
      rw [hs]
      have := h.ld
      simp; omega


theorem encChunks_len_ge (L : Layout) : ∀ (cs : List Bytes) (st : ES) (fl : Bool), cs.length ≤ (encChunks L st fl cs).length := by
  intro cs; induction cs with
  | nil => intro st fl; exact Nat.le_refl _
  | cons c cs ih =>
    intro st fl
    have := ih (st.next L c) false
    simp only [encChunks, List.length_append, encPR_length, prLenOf, List.length_cons]; omega

theorem fuel_ok {L : Layout} {f : Bytes} {z : Z} {s : Rd} (h : CInside L f z s) : z.cs.length < f.length + 1 := by
  have := congrArg List.length h.drop
  unfold tailInside at this
  simp only [List.length_drop, List.length_append] at this
  have := encChunks_len_ge L z.cs ((z.st L).next L z.c) false
  omega

theorem flatten_len_ge : ∀ (cs : List Bytes), (∀ x ∈ cs, x ≠ []) → cs.length ≤ cs.flatten.length := by
  intro cs; induction cs with
  | nil => intro _; exact Nat.le_refl _
  | cons c cs ih =>
    intro h
    have h1 := ih (fun x hx => h x (List.mem_cons_of_mem _ hx))
    have h2 : 0 < c.length := List.length_pos_iff.mpr (h c (by simp))
    simp only [List.flatten_cons, List.length_append, List.length_cons]; omega

/-- list facts that connect a zipper position with the abstract offset -/
theorem zip_facts {L : Layout} (hL : L.Valid) {z : Z} {r : Bytes} (hch : z.pre ++ z.c :: z.cs = chunks L.maxPayload r)
    (hj : z.j ≤ z.c.length) (hcs : ∀ x ∈ z.cs, x ≠ []) :
    r.drop (z.pre.flatten.length + z.j) = z.c.drop z.j ++ z.cs.flatten
    ∧ r.length = z.pre.flatten.length + z.c.length + z.cs.flatten.length
    ∧ (z.pre.flatten.length + z.j ≥ r.length ↔ z.j = z.c.length ∧ z.cs = []) := by
  have hmp : 1 ≤ L.maxPayload := by have := hL.2; unfold Layout.maxPayload; omega
  have hfl := chunks_flatten L.maxPayload hmp r.length r (Nat.le_refl _)
  rw [← hch] at hfl
  simp only [List.flatten_append, List.flatten_cons] at hfl
  have hlen : r.length = z.pre.flatten.length + z.c.length + z.cs.flatten.length := by
    rw [← hfl]; simp only [List.length_append]; omega
  refine ⟨?_, hlen, ?_⟩
  · rw [← hfl, ← List.drop_drop, List.drop_left, List.drop_append_of_le_length hj]
  · have hge := flatten_len_ge z.cs hcs
    constructor
    · intro h
      have h1 : z.cs.flatten.length = 0 := by omega
      have h2 : z.cs.length = 0 := by omega
      exact ⟨by omega, List.eq_nil_of_length_eq_zero h2⟩
    · intro ⟨h1, h2⟩
      rw [hlen, h1, h2]; simp

theorem st2_eq {L : Layout} {rs : List Bytes} {z : Z} {i : Nat} (hi : i < rs.length) (hst : z.stR = stAt L rs i)
    (hch : z.pre ++ z.c :: z.cs = chunks L.maxPayload (recAt rs i)) : z.st2 L = stAt L rs (i + 1) := by
  rw [stAt_succ L rs i hi]
  unfold Z.st2 Z.st stAfterRec
  rw [← hch, stAfterChunks_append, hst]
  rfl


/-- `__readOrSkip` from inside a record that is not exhausted -/
theorem inside_go {L : Layout} {rs : List Bytes} {f : Bytes} (g : Good L rs) {s : Rd} {i off : Nat}
    {cur : Option Nat} (acc : Acc) (n : Int)
    (hrel : Rel L rs f ⟨.inside i off, cur⟩ s) :
    ∃ s', readOrSkip cfg f s acc n
        = .ok (s', acc.app (if n < 0 then (recAt rs i).drop off else ((recAt rs i).drop off).take n.toNat))
      ∧ Rel L rs f (if n < 0 then ⟨.start (i + 1), cur⟩
                    else ⟨.inside i (off + min n.toNat ((recAt rs i).length - off)), cur⟩) s' := by
  obtain ⟨hsol, htm, hi, z, hin, hst, hrrs, hch, hoff⟩ := hrel
  obtain ⟨zf1, zf2, _⟩ := zip_facts g.valid hch hin.jle (fun x hx => (hin.csz x hx).1)
  unfold readOrSkip
  simp only [hin.eof, Bool.false_eq_true, if_false]
  by_cases hn : n < 0
  · simp only [hn, if_true]
    obtain ⟨s', e1, h1, e2⟩ := allLoop_ok (cfg := cfg) g.valid z.cs z s acc (f.length + 1) rfl hin (fuel_ok hin)
    refine ⟨s', ?_, ?_, h1.tm, by omega, ?_⟩
    · rw [e1, hoff, zf1]
    · rw [e2]; exact hsol
    · rw [st2_eq hi hst hch, hrrs] at h1; exact h1
  · simp only [hn, if_false]
    obtain ⟨s', z', e1, h1, a1, e2⟩ := sizedLoop_ok (cfg := cfg) g.valid z.cs z s acc (f.length + 1) 0 n.toNat rfl hin
      (fuel_ok hin) (Nat.zero_le _)
    refine ⟨s', ?_, ?_, h1.tm, hi, z', h1, ?_, ?_, ?_, ?_⟩
    · rw [e1, hoff, zf1]; rfl
    · rw [e2]; exact hsol
    · rw [a1.stR]; exact hst
    · rw [a1.rrs]; exact hrrs
    · rw [a1.chunks]; exact hch
    · have := a1.off
      simp only [Nat.sub_zero] at this
      rw [this, hoff, zf2]
      have := hin.jle
      congr 2
      omega


/-- `_readOrSkipPreamble` followed by `__readOrSkip`, against the abstract `absRead` -/
theorem rs_core {L : Layout} {rs : List Bytes} {f : Bytes} (g : Good L rs) {a : AState} {s : Rd}
    (acc : Acc) (n : Int) (hrel : Rel L rs f a s) (hne : a.ph ≠ .eof) :
    ∃ s', Rel L rs f (absRead rs a n).1 s' ∧
      (match (absRead rs a n).2 with
       | some b => ∃ s1, preamble cfg f s = .ok (s1, true) ∧ readOrSkip cfg f s1 acc n = .ok (s', acc.app b)
       | none => preamble cfg f s = .ok (s', false)) := by
  obtain ⟨ph, cur⟩ := a
  cases ph with
  | eof => exact absurd rfl hne
  | start k =>
    obtain ⟨hsol, htm, hk, hst⟩ := hrel
    obtain ⟨s1, e1, hrel1, hA, hB⟩ := headAt (cfg := cfg) g k cur hk hst hsol
    have hpre : preamble cfg f s = (if s1.hasLd then .ok (s1, true) else .ok (s1, false)) := by
      unfold preamble
      simp only [hst.eof, Bool.false_eq_true, if_false, hst.mrh, if_true, e1]
      by_cases hlt : k < rs.length
      · simp [(hA hlt).1]
      · simp [(hB hlt).1, (hB hlt).2.1]
    by_cases hlt : k < rs.length
    · have hrne : (recAt rs k) ≠ [] := g.rne _ (by rw [drop_recAt rs k hlt] at hst; unfold recAt; simp [hlt])
      have hlen : 0 < (recAt rs k).length := List.length_pos_iff.mpr hrne
      simp only [openRec, hlt, if_true] at hrel1
      obtain ⟨s', e2, hrel2⟩ := inside_go (cfg := cfg) g acc n hrel1
      have hnot : ¬ (0 ≥ (recAt rs k).length) := by omega
      by_cases hn : n < 0
      · have habs : absRead rs ⟨.start k, cur⟩ n = (⟨.start (k + 1), some k⟩, some ((recAt rs k).drop 0)) := by
          simp [absRead, openRec, hlt, hnot, hn]
        rw [habs]
        simp only [hn, if_true] at e2 hrel2
        exact ⟨s', hrel2, s1, by rw [hpre, (hA hlt).1]; rfl, e2⟩
      · have habs : absRead rs ⟨.start k, cur⟩ n
            = (⟨.inside k (0 + min n.toNat ((recAt rs k).length - 0)), some k⟩, some (((recAt rs k).drop 0).take n.toNat)) := by
          simp [absRead, openRec, hlt, hnot, hn]
        rw [habs]
        simp only [hn, if_false] at e2 hrel2
        exact ⟨s', hrel2, s1, by rw [hpre, (hA hlt).1]; rfl, e2⟩
    · have habs : absRead rs ⟨.start k, cur⟩ n = (⟨.eof, cur⟩, none) := by
        simp [absRead, openRec, hlt]
      rw [habs]
      simp only [openRec, hlt, if_false] at hrel1
      exact ⟨s1, hrel1, by rw [hpre, (hB hlt).1]; rfl⟩
  | inside i off =>
    have hrel0 := hrel
    obtain ⟨hsol, htm, hi, z, hin, hst, hrrs, hch, hoff⟩ := hrel
    obtain ⟨zf1, zf2, zf3⟩ := zip_facts g.valid hch hin.jle (fun x hx => (hin.csz x hx).1)
    by_cases hex : off ≥ (recAt rs i).length
    · have habs : absRead rs ⟨.inside i off, cur⟩ n = (⟨.start (i + 1), cur⟩, none) := by
        simp [absRead, openRec, hex]
      rw [habs]
      have hjc := zf3.mp (by rw [← hoff]; exact hex)
      obtain ⟨s1, e1, h1, e2⟩ := finishRec (cfg := cfg) hin hjc.1 hjc.2
      have hld : s.hasLd = false := by
        unfold Rd.hasLd
        rw [succ_of_inside hin, hin.ldLen, hin.ldIndex, hjc.1, hjc.2]
        simp
      refine ⟨s1, ⟨by rw [e2]; exact hsol, h1.tm, by omega, ?_⟩, ?_⟩
      · rw [st2_eq hi hst hch, hrrs] at h1; exact h1
      · unfold preamble
        simp only [hin.eof, Bool.false_eq_true, if_false, hin.mrh, hld, not_false_eq_true, if_true, e1]
    · have hld : s.hasLd = true := by
        unfold Rd.hasLd
        rw [succ_of_inside hin, hin.ldLen, hin.ldIndex]
        by_cases hj : z.j < z.c.length
        · simp [hj]
        · have hj' : z.j = z.c.length := by have := hin.jle; omega
          have : z.cs ≠ [] := fun h0 => hex (by rw [hoff]; exact zf3.mpr ⟨hj', h0⟩)
          cases hcs : z.cs with
          | nil => exact absurd hcs this
          | cons x xs => simp
      have hpre : preamble cfg f s = .ok (s, true) := by
        unfold preamble
        simp only [hin.eof, Bool.false_eq_true, if_false, hin.mrh, hld, not_true_eq_false]
      obtain ⟨s', e2, hrel2⟩ := inside_go (cfg := cfg) g acc n hrel0
      by_cases hn : n < 0
      · have habs : absRead rs ⟨.inside i off, cur⟩ n = (⟨.start (i + 1), cur⟩, some ((recAt rs i).drop off)) := by
          simp [absRead, openRec, hex, hn]
        rw [habs]
        simp only [hn, if_true] at e2 hrel2
        exact ⟨s', hrel2, s, hpre, e2⟩
      · have habs : absRead rs ⟨.inside i off, cur⟩ n
            = (⟨.inside i (off + min n.toNat ((recAt rs i).length - off)), cur⟩, some (((recAt rs i).drop off).take n.toNat)) := by
          simp [absRead, openRec, hex, hn]
        rw [habs]
        simp only [hn, if_false] at e2 hrel2
        exact ⟨s', hrel2, s, hpre, e2⟩


/-! ### one operation -/

theorem seek_sim {L : Layout} {rs : List Bytes} (g : Good L rs) {a : AState} {s : Rd}
    (hrel : Rel L rs (encode L rs) a s) (i : Nat) (hi : i ≤ rs.length) :
    Rel L rs (encode L rs) ⟨.start i, none⟩ (seekLr s (tellOf L rs i)).1 := by
  obtain ⟨_, htm, _⟩ := hrel
  refine ⟨rfl, ⟨htm.1, htm.2⟩, hi, ?_⟩
  refine ⟨(stAt_pos L rs i).symm, drop_tell L rs i, rfl, rfl, (by simp [seekLr, Rd.hasSuccessor, bitSet]),
    Nat.le_refl _, ⟨htm.1, htm.2⟩, ?_,
    stAt_backLe L rs i, fits_at g i, fun r hr => g.rne r (List.mem_of_mem_drop hr)⟩
  intro _
  exact ⟨by intro x hx; simp [seekLr, Tif.reset] at hx, by intro hp; simp [seekLr, Tif.reset, Tif.hasPrevious] at hp⟩

theorem read_sim {L : Layout} {rs : List Bytes} {f : Bytes} (g : Good L rs) {a : AState} {s : Rd}
    (hrel : Rel L rs f a s) (n : Int) (hne : a.ph ≠ .eof) :
    ∃ s', readLrBytes cfg f s n = .ok (s', (absRead rs a n).2) ∧ Rel L rs f (absRead rs a n).1 s' := by
  obtain ⟨s', hrel', hm⟩ := rs_core (cfg := cfg) g (.data []) n hrel hne
  refine ⟨s', ?_, hrel'⟩
  unfold readLrBytes
  cases hb : (absRead rs a n).2 with
  | none => rw [hb] at hm; simp only [hm]
  | some b =>
    rw [hb] at hm
    obtain ⟨s1, e1, e2⟩ := hm
    simp only [e1, e2, Acc.app, List.nil_append]

theorem skip_sim {L : Layout} {rs : List Bytes} {f : Bytes} (g : Good L rs) {a : AState} {s : Rd}
    (hrel : Rel L rs f a s) (n : Int) (hne : a.ph ≠ .eof) :
    ∃ s', skipLrBytes cfg f s n = .ok (s', match (absRead rs a n).2 with | some b => b.length | none => 0)
      ∧ Rel L rs f (absRead rs a n).1 s' := by
  obtain ⟨s', hrel', hm⟩ := rs_core (cfg := cfg) g (.cnt 0) n hrel hne
  refine ⟨s', ?_, hrel'⟩
  unfold skipLrBytes
  cases hb : (absRead rs a n).2 with
  | none => rw [hb] at hm; simp only [hm]
  | some b =>
    rw [hb] at hm
    obtain ⟨s1, e1, e2⟩ := hm
    simp only [e1, e2, Acc.app, Nat.zero_add]


theorem absRead_start_neg (rs : List Bytes) (k : Nat) (cur : Option Nat) (hk : k < rs.length)
    (hne : recAt rs k ≠ []) :
    absRead rs ⟨.start k, cur⟩ (-1) = (⟨.start (k + 1), some k⟩, some (recAt rs k)) := by
  have hlen : 0 < (recAt rs k).length := List.length_pos_iff.mpr hne
  have hnot : ¬ (0 ≥ (recAt rs k).length) := by omega
  simp [absRead, openRec, hk, hnot]

theorem absRead_start_end (rs : List Bytes) (k : Nat) (cur : Option Nat) (hk : ¬ k < rs.length) (n : Int) :
    absRead rs ⟨.start k, cur⟩ n = (⟨.eof, cur⟩, none) := by
  simp [absRead, openRec, hk]

theorem absRead_inside_neg (rs : List Bytes) (i off : Nat) (cur : Option Nat) :
    absRead rs ⟨.inside i off, cur⟩ (-1)
      = (⟨.start (i + 1), cur⟩, if off ≥ (recAt rs i).length then none else some ((recAt rs i).drop off)) := by
  by_cases h : off ≥ (recAt rs i).length <;> simp [absRead, openRec, h]

theorem next_sim {L : Layout} {rs : List Bytes} {f : Bytes} (g : Good L rs) {a : AState} {s : Rd}
    (hrel : Rel L rs f a s) (hne : a.ph ≠ .eof) :
    ∃ s' c, skipToNextLr cfg f s = .ok (s', c) ∧ (absStep L rs a .next).2 = .count c
      ∧ Rel L rs f (absStep L rs a .next).1 s' := by
  obtain ⟨s1, e1, hrel1⟩ := skip_sim (cfg := cfg) g hrel (-1) hne
  obtain ⟨ph, cur⟩ := a
  cases ph with
  | eof => exact absurd rfl hne
  | start k =>
    by_cases hk : k < rs.length
    · have hrne : recAt rs k ≠ [] := g.rne _ (by unfold recAt; simp [hk])
      rw [absRead_start_neg rs k cur hk hrne] at e1 hrel1
      simp only [] at e1 hrel1
      obtain ⟨hsol, htm, hk1, hst⟩ := hrel1
      obtain ⟨s2, e2, hrel2, _, _⟩ := headAt (cfg := cfg) g (k + 1) (some k) hk1 hst hsol
      refine ⟨s2, (recAt rs k).length, ?_, ?_, ?_⟩
      · unfold skipToNextLr
        simp only [e1, hst.mrh, not_true_eq_false, and_false, if_false, e2]
      · simp [absStep, hk]
      · simpa [absStep, hk, gotoNext] using hrel2
    · rw [absRead_start_end rs k cur hk] at e1 hrel1
      simp only [] at e1 hrel1
      obtain ⟨hsol, htm, heof, hend, htn⟩ := hrel1
      obtain ⟨s2, e2, f1, f2, f3, f4, f5⟩ := readHead_atEnd (cfg := cfg) (f := f) L s1 htm hend htn
      refine ⟨s2, 0, ?_, ?_, ?_⟩
      · unfold skipToNextLr
        simp only [e1, ne_eq, not_true_eq_false, false_and, if_false, e2]
      · simp [absStep, hk]
      · simp only [absStep, hk, if_false]
        exact ⟨by rw [f2]; exact hsol, f3, f1, f4, f5⟩
  | inside i off =>
    rw [absRead_inside_neg] at e1 hrel1
    simp only [] at hrel1
    obtain ⟨hsol, htm, hk1, hst⟩ := hrel1
    obtain ⟨s2, e2, hrel2, _, _⟩ := headAt (cfg := cfg) g (i + 1) cur hk1 hst hsol
    refine ⟨s2, (recAt rs i).length - off, ?_, ?_, ?_⟩
    · unfold skipToNextLr
      by_cases hex : off ≥ (recAt rs i).length
      · simp only [hex, if_true] at e1
        have : (recAt rs i).length - off = 0 := by omega
        simp only [e1, ne_eq, not_true_eq_false, false_and, if_false, e2, this]
      · simp only [hex, if_false, List.length_drop] at e1
        simp only [e1, hst.mrh, not_true_eq_false, and_false, if_false, e2]
    · simp [absStep]
    · simpa [absStep, gotoNext] using hrel2


/-- a history only seeks to positions of records (or the end position) -/
def OpOK (rs : List Bytes) : Op → Prop
  | .seek i => i ≤ rs.length
  | _ => True

theorem step_sim {L : Layout} {rs : List Bytes} (g : Good L rs) {a : AState} {s : Rd}
    (hrel : Rel L rs (encode L rs) a s) (op : Op) (hop : OpOK rs op) :
    ∃ s', step cfg (encode L rs) s (concOp L rs op) = (some s', (absStep L rs a op).2)
      ∧ Rel L rs (encode L rs) (absStep L rs a op).1 s' := by
  cases op with
  | tell =>
    refine ⟨s, ?_, hrel⟩
    simp only [concOp, step, absStep, tellLr, hrel.1]
    cases a.cur <;> rfl
  | seek i =>
    exact ⟨(seekLr s (tellOf L rs i)).1, rfl, seek_sim g hrel i hop⟩
  | read n =>
    by_cases he : a.ph = .eof
    · have hs : s.isEOF = true := by
        have := hrel.2.2; rw [he] at this; exact this.1
      refine ⟨s, ?_, by simpa [absStep, he] using hrel⟩
      simp [concOp, step, readLrBytes, preamble, hs, absStep, he, errReply]
    · obtain ⟨s', e1, h1⟩ := read_sim (cfg := cfg) g hrel n he
      rcases hx : absRead rs a n with ⟨a', b'⟩
      rw [hx] at e1 h1
      cases b' with
      | none => exact ⟨s', by simp [concOp, step, e1, absStep, he, hx], by simpa [absStep, he, hx] using h1⟩
      | some b => exact ⟨s', by simp [concOp, step, e1, absStep, he, hx], by simpa [absStep, he, hx] using h1⟩
  | skip n =>
    by_cases he : a.ph = .eof
    · have hs : s.isEOF = true := by
        have := hrel.2.2; rw [he] at this; exact this.1
      refine ⟨s, ?_, by simpa [absStep, he] using hrel⟩
      simp [concOp, step, skipLrBytes, preamble, hs, absStep, he, errReply]
    · obtain ⟨s', e1, h1⟩ := skip_sim (cfg := cfg) g hrel n he
      rcases hx : absRead rs a n with ⟨a', b'⟩
      rw [hx] at e1 h1
      cases b' with
      | none => exact ⟨s', by simp [concOp, step, e1, absStep, he, hx], by simpa [absStep, he, hx] using h1⟩
      | some b => exact ⟨s', by simp [concOp, step, e1, absStep, he, hx], by simpa [absStep, he, hx] using h1⟩
  | next =>
    by_cases he : a.ph = .eof
    · have hs : s.isEOF = true := by
        have := hrel.2.2; rw [he] at this; exact this.1
      refine ⟨s, ?_, by simpa [absStep, he] using hrel⟩
      simp [concOp, step, skipToNextLr, skipLrBytes, preamble, hs, absStep, he, errReply]
    · obtain ⟨s', c, e1, e2, h1⟩ := next_sim (cfg := cfg) g hrel he
      exact ⟨s', by simp only [concOp, step, e1, e2], h1⟩

theorem run_sim {L : Layout} {rs : List Bytes} (g : Good L rs) : ∀ (ops : List Op) (a : AState) (s : Rd),
    Rel L rs (encode L rs) a s → (∀ op ∈ ops, OpOK rs op) →
    run cfg (encode L rs) (some s) (ops.map (concOp L rs)) = absRun L rs a ops := by
  intro ops
  induction ops with
  | nil => intro a s _ _; rfl
  | cons op ops ih =>
    intro a s hrel hok
    obtain ⟨s', e1, h1⟩ := step_sim (cfg := cfg) g hrel op (hok op (by simp))
    simp only [List.map_cons, run, absRun, e1]
    rw [ih _ s' h1 (fun o ho => hok o (List.mem_cons_of_mem _ ho))]

end TD.C05
