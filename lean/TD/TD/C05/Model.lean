/-
C05 — model of the code as it is in
  src/TotalDepth/LIS/core/PhysRec.py   (PhysRecTail, PhysRecWrite.writeLr, PhysRecRead)
  src/TotalDepth/LIS/core/TifMarker.py (TifMarkerWrite, TifMarkerRead)
  src/TotalDepth/LIS/core/File.py      (FileWrite.write/close, FileRead.readLrBytes/skipLrBytes/skipToNextLr/seekLr/tellLr)
  src/TotalDepth/LIS/core/RawStream.py (read, readAndUnpack, seek, tell on an io.BytesIO)
  src/TotalDepth/DeTif.py              (strip_tif)
Core Lean only.

Conventions: bytes are `List Nat`; a stream opened for reading is the pair (file : Bytes, pos : Nat), `read n` returns
`(file.drop pos).take n` and advances by the number of bytes returned (io.BytesIO). The reader takes its constructor
arguments `keepGoing, pad_modulo, pad_non_null` as a `Cfg` (`Cfg.plain` = the defaults of `File.FileRead`). A Python exception is `Except Err`; the state after an
exception is not modelled, except for the entry guard "already at EOF" which raises before touching anything
(`run` continues after that one and halts after any other).
-/
import TD.C05.Spec
namespace TD.C05

inductive Err where
  | eof        -- ExceptionPhysRecEOF   (wrapped in ExceptionFileRead by File.FileRead)
  | physRec    -- other ExceptionPhysRec (wrapped in ExceptionFileRead)
  | tif        -- ExceptionTifMarker    (not wrapped)
  | write      -- ExceptionPhysRecWrite / struct.error while writing
  | fuel       -- model artefact: loop fuel exhausted (never: fuel = file length + 1)
  deriving Repr, DecidableEq

/-! ## writer -/

/-- `PhysRecTail`: `_recNum` counter; `fileNum` after the constructor's normalisation -/
structure Prt where
  hasRec : Bool
  fileNum : Option Int
  hasCheck : Bool
  recNum : Int := 0

/-- `PhysRecTail.normalise_integer(value, 0, 65535)` (Python `%` with a positive modulus is `Int.emod`) -/
def normalise (v : Int) : Int := ((v - 0) % (65535 - 0 + 1)) + 0

/-- `PhysRecTail.__init__` -/
def Prt.mk' (hasRec : Bool) (fileNum : Option Int) (hasCheck : Bool) : Prt :=
  let fn := match fileNum with
    | some n => if n < 0 ∨ n > 65535 then some (normalise n) else some n
    | none => none
  { hasRec := hasRec, fileNum := fn, hasCheck := hasCheck }

def Prt.prtLen (p : Prt) : Nat :=
  (if p.hasRec then 2 else 0) + (if p.fileNum.isSome then 2 else 0) + (if p.hasCheck then 2 else 0)

/-- `_prhAttr`, built with `|=` -/
def Prt.prhAttr (p : Prt) : Nat :=
  ((0 ||| (if p.hasRec then 1 <<< 9 else 0)) ||| (if p.fileNum.isSome then 1 <<< 10 else 0))
    ||| (if p.hasCheck then 1 <<< 12 else 0)

/-- one iteration of the loop in `computeCheckSum` -/
def ckStep (c a b : Nat) : Nat :=
  let t := b + 256 * a
  let c := c + t
  let c := if c &&& 0x10000 ≠ 0 then c + 1 else c
  let c := c * 2
  let c := if c &&& 0x10000 ≠ 0 then c + 1 else c
  c &&& 0xFFFF

/-- `for i in range(0, len(theB)-1, 2)` -/
def ckLoop (c : Nat) : Bytes → Nat
  | a :: b :: r => ckLoop (ckStep c a b) r
  | _ => c

def computeCheckSum (p : Prt) (b : Bytes) : Nat := if p.hasCheck then ckLoop 0 b else 0

/-- `prtRecNum`: returns the bytes and the updated counter -/
def Prt.recNumBytes (p : Prt) : Bytes × Prt :=
  if p.hasRec then
    let n := if p.recNum < 0 ∨ p.recNum > 65535 then normalise p.recNum else p.recNum
    (u16be n.toNat, { p with recNum := n + 1 })
  else ([], p)

def Prt.fileNumBytes (p : Prt) : Bytes := match p.fileNum with
  | some n => u16be n.toNat
  | none => []

/-- `TifMarkerWrite` -/
structure TifW where
  tifType : Nat := 0
  tifBack : Nat := 0
  tifNext : Nat := 0
  previousDiff : Nat := 0

/-- `TifMarkerWrite.write(stream, theLen)`; `struct.pack('<3L')` refuses values ≥ 2^32 -/
def TifW.write (t : TifW) (len : Nat) : Except Err (Bytes × TifW) :=
  let nx := t.tifNext + (len + 12)
  if nx ≥ 4294967296 ∨ t.tifBack ≥ 4294967296 then .error .write else
  .ok (u32le t.tifType ++ u32le t.tifBack ++ u32le nx,
       { t with tifNext := nx, tifBack := t.tifBack + t.previousDiff, previousDiff := len + 12 })

/-- `PhysRecWrite` (the stream is the list of bytes written so far) -/
structure Wr where
  out : Bytes
  tif : Option TifW
  prLen : Nat
  prt : Prt
  maxPayloadLen : Nat

/-- `PhysRecWrite.__init__` -/
def Wr.new (hasTif : Bool) (prLen : Nat) (prt : Prt) : Except Err Wr :=
  let mp : Int := (prLen : Int) - 4 - prt.prtLen
  if prLen > 65535 then .error .write
  else if mp < 1 then .error .write
  else .ok { out := [], tif := if hasTif then some {} else none, prLen := prLen, prt := prt, maxPayloadLen := mp.toNat }

/-- the bytes of one physical record as assembled in `myB` by one iteration of the loop in `writeLr`
(header, payload, trailer) and the trailer object after `prtRecNum()` incremented its counter -/
def prBytes (w : Wr) (lr : Bytes) (ofs : Nat) : Bytes × Prt :=
  let payload := (lr.drop ofs).take w.maxPayloadLen
  let b := u16be (4 + payload.length + w.prt.prtLen)
  let attr := w.prt.prhAttr
  let attr := if ofs + w.maxPayloadLen < lr.length then attr ||| (1 <<< 0) else attr
  let attr := if ofs > 0 then attr ||| (1 <<< 1) else attr
  let b := b ++ u16be attr
  let b := b ++ payload
  let r := w.prt.recNumBytes
  let b := b ++ r.1
  let b := b ++ r.2.fileNumBytes
  let ck := computeCheckSum r.2 b
  let b := b ++ (if r.2.hasCheck then u16be ck else [])
  (b, r.2)

/-- `while ofs < len(theLr)` in `writeLr`; fuel = len(theLr) + 1 -/
def writeLoop : Nat → Wr → Bytes → Nat → Except Err Wr
  | 0, _, _, _ => .error .fuel
  | fuel + 1, w, lr, ofs =>
    if ofs < lr.length then
      let pb := prBytes w lr ofs
      match w.tif with
      | some t =>
        match t.write pb.1.length with
        | .error e => .error e
        | .ok (m, t') =>
          writeLoop fuel { w with out := w.out ++ m ++ pb.1, tif := some t', prt := pb.2 } lr
            (ofs + ((lr.drop ofs).take w.maxPayloadLen).length)
      | none =>
        writeLoop fuel { w with out := w.out ++ pb.1, prt := pb.2 } lr
          (ofs + ((lr.drop ofs).take w.maxPayloadLen).length)
    else .ok w

/-- `writeLr`: returns the tell of the start of the record and the new writer -/
def Wr.writeLr (w : Wr) (lr : Bytes) : Except Err (Nat × Wr) :=
  (writeLoop (lr.length + 1) w lr 0).map (fun w' => (w.out.length, w'))

/-- `PhysRecWrite.close` -/
def Wr.close (w : Wr) : Except Err Bytes :=
  match w.tif with
  | none => .ok w.out
  | some t =>
    match ({ t with tifType := 1 } : TifW).write 0 with
    | .error e => .error e
    | .ok (m1, t1) =>
      match t1.write 0 with
      | .error e => .error e
      | .ok (m2, _) => .ok (w.out ++ m1 ++ m2)

def writeAll (w : Wr) : List Bytes → Except Err (List Nat × Wr)
  | [] => .ok ([], w)
  | r :: rs =>
    match w.writeLr r with
    | .error e => .error e
    | .ok (t, w') =>
      match writeAll w' rs with
      | .error e => .error e
      | .ok (ts, w'') => .ok (t :: ts, w'')

/-- `FileWrite(BytesIO, hasTif, thePrLen, PhysRecTail(..))`, `write` every record, `close`:
(file bytes, reported tells) -/
def writeFile (hasTif : Bool) (prLen : Nat) (hasRec : Bool) (fileNum : Option Int) (hasCheck : Bool)
    (rs : List Bytes) : Except Err (Bytes × List Nat) :=
  match Wr.new hasTif prLen (Prt.mk' hasRec fileNum hasCheck) with
  | .error e => .error e
  | .ok w =>
    match writeAll w rs with
    | .error e => .error e
    | .ok (ts, w') =>
      match w'.close with
      | .error e => .error e
      | .ok b => .ok (b, ts)

/-- the same without `close()`: the bytes in the stream after the last `write` (how the project's tests build files) -/
def writeFileOpen (hasTif : Bool) (prLen : Nat) (hasRec : Bool) (fileNum : Option Int) (hasCheck : Bool)
    (rs : List Bytes) : Except Err (Bytes × List Nat) :=
  match Wr.new hasTif prLen (Prt.mk' hasRec fileNum hasCheck) with
  | .error e => .error e
  | .ok w =>
    match writeAll w rs with
    | .error e => .error e
    | .ok (ts, w') => .ok (w'.out, ts)

/-! ## reader -/

/-- `stream.read(n)` at `pos` -/
def rdBytes (f : Bytes) (pos n : Nat) : Bytes := (f.drop pos).take n

/-- `TifMarkerRead` -/
structure Tif where
  hasTif : Bool
  isReversed : Bool
  tifType : Nat
  tifBack : Nat
  tifNext : Nat
  previousTell : Option Nat
  deriving Repr, DecidableEq

def le32 (a b c d : Nat) : Nat := a + 256 * b + 65536 * c + 16777216 * d

/-- `struct.unpack('<3L' | '>3L')` of exactly 12 bytes -/
def unpack3 (rev : Bool) : Bytes → Option (Nat × Nat × Nat)
  | [a0, a1, a2, a3, b0, b1, b2, b3, c0, c1, c2, c3] =>
    if rev then some (le32 a3 a2 a1 a0, le32 b3 b2 b1 b0, le32 c3 c2 c1 c0)
    else some (le32 a0 a1 a2 a3, le32 b0 b1 b2 b3, le32 c0 c1 c2 c3)
  | _ => none

def Tif.hasPrevious (t : Tif) : Bool :=
  t.previousTell.isSome && !(t.tifType = 0 ∧ t.tifBack = 0 ∧ t.tifNext = 0)

/-- `TifMarkerRead.__init__`: look at the first 12 bytes -/
def Tif.init (f : Bytes) : Tif :=
  let t0 : Tif := ⟨true, false, 0, 0, 0, some 0⟩
  match unpack3 false (rdBytes f 0 12) with
  | none => { t0 with hasTif := false }
  | some (ty, bk, nx) =>
    if ¬ (ty = 0 ∧ bk = 0) then { t0 with hasTif := false }
    else if nx > 0xFFFF + 12 then { t0 with isReversed := true }
    else t0

/-- `TifMarkerRead.reset` -/
def Tif.reset (t : Tif) : Tif := { t with tifType := 0, tifBack := 0, tifNext := 0, previousTell := none }

/-- constructor arguments of `PhysRecRead` / `File.FileRead`: `keepGoing`, `pad_modulo`, `pad_non_null` -/
structure Cfg where
  keepGoing : Bool
  padModulo : Nat
  padNonNull : Bool
  deriving Repr, DecidableEq

/-- `File.FileRead(f, id)`: keepGoing False, no padding -/
def Cfg.plain : Cfg := ⟨false, 0, false⟩

/-- outcome of reading a marker: fine / RawStream EOF (caught by `_readHead`) / ExceptionTifMarker -/
inductive TR where
  | ok (t : Tif) (pos : Nat) (r : Option Nat)
  | rawEof (t : Tif) (pos : Nat)
  | err

/-- `TifMarkerRead._read` (allowPrPadding = keepGoing, raiseOnError = True): when the previous marker's `next` is
ahead of the stream and padding is allowed the stream is moved there, any other mismatch raises -/
def tifRead1 (cfg : Cfg) (f : Bytes) (t : Tif) (pos : Nat) : TR :=
  if t.hasTif then
    let ret : Option Nat :=
      if t.hasPrevious ∧ t.tifNext ≠ pos then
        (if cfg.keepGoing ∧ t.tifNext > pos then some t.tifNext else none)
      else some pos
    match ret with
    | none => .err
    | some retTell =>
      let b := rdBytes f retTell 12
      match unpack3 t.isReversed b with
      | none => .rawEof t (retTell + b.length)
      | some (ty, bk, nx) =>
        let t := { t with tifType := ty, tifBack := bk, tifNext := nx }
        if t.hasPrevious ∧ some t.tifBack ≠ t.previousTell then .err
        else .ok { t with previousTell := some retTell } (retTell + 12) (some retTell)
  else .ok t pos none

/-- `TifMarkerRead.read`: an EOF marker (type 1) is followed by its duplicate -/
def tifRead (cfg : Cfg) (f : Bytes) (t : Tif) (pos : Nat) : TR :=
  if t.hasTif then
    match tifRead1 cfg f t pos with
    | .ok t1 p1 r =>
      if t1.tifType = 1 then
        match tifRead1 cfg f t1 p1 with
        | .ok t2 p2 _ => .ok t2 p2 r
        | other => other
      else .ok t1 p1 r
    | other => other
  else .ok t pos none

/-- `PhysRecRead` -/
structure Rd where
  pos : Nat
  prLen : Nat
  prAttr : Nat
  ldLen : Nat
  startOfLr : Nat
  startPrPos : Nat
  isEOF : Bool
  ldIndex : Nat
  ldTell : Nat
  isLrStart : Bool
  mustReadHead : Bool
  tif : Tif
  deriving Repr, DecidableEq

def bitSet (attr bit : Nat) : Bool := attr &&& (1 <<< bit) ≠ 0
def Rd.hasSuccessor (s : Rd) : Bool := bitSet s.prAttr 0
def Rd.hasPredecessor (s : Rd) : Bool := bitSet s.prAttr 1
def Rd.hasRecordNumber (s : Rd) : Bool := bitSet s.prAttr 9
def Rd.hasFileNumber (s : Rd) : Bool := bitSet s.prAttr 10
/-- `_hasChecksum` raises when the "undefined" bit 13 is set and not keepGoing -/
def Rd.hasChecksum (s : Rd) (kg : Bool) : Except Err Bool :=
  if bitSet s.prAttr 13 ∧ ¬ kg then .error .physRec else .ok (bitSet s.prAttr 12)

/-- `PhysRecRead.__init__` -/
def Rd.new (f : Bytes) : Rd :=
  { pos := 0, prLen := 0, prAttr := 0, ldLen := 0, startOfLr := 0, startPrPos := 0, isEOF := false,
    ldIndex := 0, ldTell := 0, isLrStart := true, mustReadHead := true, tif := Tif.init f }

/-- `readAndUnpack('>H')` -/
def readU16 (f : Bytes) (pos : Nat) : Option Nat × Nat :=
  match rdBytes f pos 2 with
  | [a, b] => (some (a * 256 + b), pos + 2)
  | l => (none, pos + l.length)

/-- second half of `_readHead`: from `self.prLen = self.stream.readAndUnpack(PR_PRH_LEN_FORMAT)[0]` on -/
def readHeadBody (cfg : Cfg) (f : Bytes) (s : Rd) : Except Err Rd :=
  match readU16 f s.pos with
  | (none, p) => .ok { s with pos := p, isEOF := true }
  | (some len, p) =>
    let s := { s with prLen := len, pos := p }
    match readU16 f s.pos with
    | (none, p) => .ok { s with pos := p, isEOF := true }
    | (some attr, p) =>
      let s := { s with prAttr := attr, pos := p }
      if bitSet s.prAttr 14 ∧ ¬ cfg.keepGoing then .error .physRec else
      let s := if s.isLrStart then { s with startOfLr := s.startPrPos } else s
      let s := { s with ldIndex := 0 }
      let ld : Int := (s.prLen : Int) - 4
      let ld := if s.hasRecordNumber then ld - 2 else ld
      let ld := if s.hasFileNumber then ld - 2 else ld
      match s.hasChecksum cfg.keepGoing with
      | .error e => .error e
      | .ok ck =>
        let ld := if ck then ld - 2 else ld
        if ld < 0 then .error .physRec else
        let s := { s with ldLen := ld.toNat, mustReadHead := false }
        let s := if s.ldTell > 0 then { s with isLrStart := false } else s
        .ok s

/-- `_readHead` -/
def readHead (cfg : Cfg) (f : Bytes) (s : Rd) : Except Err Rd :=
  let s := if ¬ s.hasSuccessor then { s with ldTell := 0, isLrStart := true } else { s with isLrStart := false }
  let s := { s with startPrPos := s.pos }
  match tifRead cfg f s.tif s.pos with
  | .err => .error .tif
  | .rawEof t p => .ok { s with tif := t, pos := p, isEOF := true }
  | .ok t p r => readHeadBody cfg f { s with tif := t, pos := p, startPrPos := r.getD s.startPrPos }

/-- the `for i in range(pad_len)` loop of `_consume_padding`: `tell` is the position to restore, `cur` the stream -/
def padLoop (cfg : Cfg) (f : Bytes) (tell : Nat) : Nat → Nat → Nat
  | 0, cur => cur
  | n + 1, cur =>
    match rdBytes f cur 1 with
    | [b] => if ¬ cfg.padNonNull ∧ b ≠ 0 then tell else padLoop cfg f tell n (cur + 1)
    | _ => tell

/-- `_consume_padding`: the stream position afterwards -/
def consumePadding (cfg : Cfg) (f : Bytes) (pos : Nat) : Nat :=
  if cfg.padModulo ≠ 0 then
    if pos % cfg.padModulo ≠ 0 then padLoop cfg f pos (cfg.padModulo - pos % cfg.padModulo) pos
    else pos
  else pos

/-- `_readTail` -/
def readTail (cfg : Cfg) (f : Bytes) (s : Rd) : Except Err Rd :=
  let s := { s with mustReadHead := true }
  if s.isEOF then .error .eof else
  let r1 := if s.hasRecordNumber then readU16 f s.pos else (some 0, s.pos)
  match r1 with
  | (none, _) => .error .eof
  | (some _, p) =>
    let s := { s with pos := p }
    let r2 := if s.hasFileNumber then readU16 f s.pos else (some 0, s.pos)
    match r2 with
    | (none, _) => .error .eof
    | (some _, p) =>
      let s := { s with pos := p }
      match s.hasChecksum cfg.keepGoing with
      | .error e => .error e
      | .ok ck =>
        let r3 := if ck then readU16 f s.pos else (some 0, s.pos)
        match r3 with
        | (none, _) => .error .eof
        | (some _, p) => .ok { s with pos := consumePadding cfg f p }

/-- accumulator of `__readOrSkip`: logical data read, or number of bytes skipped -/
inductive Acc where
  | data (b : Bytes)
  | cnt (n : Nat)
  deriving Repr, DecidableEq

/-- `__readLdWithinPr` / `__skipLdWithinPr` (selected by the accumulator) -/
def ldWithin (f : Bytes) (s : Rd) (acc : Acc) (size : Nat) : Except Err (Rd × Acc) :=
  let s := { s with ldIndex := s.ldIndex + size, ldTell := s.ldTell + size }
  match acc with
  | .data b =>
    let d := rdBytes f s.pos size
    if d.length ≠ size then .error .eof
    else .ok ({ s with pos := s.pos + d.length }, .data (b ++ d))
  | .cnt n => .ok ({ s with pos := s.pos + size }, .cnt (n + size))

/-- `while 1:` loop of `__readOrSkip` (theSize < 0) -/
def allLoop (cfg : Cfg) (f : Bytes) : Nat → Rd → Acc → Except Err (Rd × Acc)
  | 0, _, _ => .error .fuel
  | fuel + 1, s, acc =>
    match ldWithin f s acc (s.ldLen - s.ldIndex) with
    | .error e => .error e
    | .ok (s, acc) =>
      match readTail cfg f s with
      | .error e => .error e
      | .ok s =>
        if s.hasSuccessor then
          match readHead cfg f s with
          | .error e => .error e
          | .ok s => allLoop cfg f fuel s acc
        else .ok (s, acc)

/-- `while bytesRead < theSize:` loop of `__readOrSkip` -/
def sizedLoop (cfg : Cfg) (f : Bytes) : Nat → Rd → Acc → Nat → Nat → Except Err (Rd × Acc)
  | 0, _, _, _, _ => .error .fuel
  | fuel + 1, s, acc, bytesRead, theSize =>
    if bytesRead < theSize then
      if theSize - bytesRead ≤ s.ldLen - s.ldIndex then
        ldWithin f s acc (theSize - bytesRead)
      else
        let bytesRead := bytesRead + (s.ldLen - s.ldIndex)
        match ldWithin f s acc (s.ldLen - s.ldIndex) with
        | .error e => .error e
        | .ok (s, acc) =>
          if s.hasSuccessor then
            match readTail cfg f s with
            | .error e => .error e
            | .ok s =>
              match readHead cfg f s with
              | .error e => .error e
              | .ok s => sizedLoop cfg f fuel s acc bytesRead theSize
          else .ok (s, acc)
    else .ok (s, acc)

/-- `__readOrSkip` -/
def readOrSkip (cfg : Cfg) (f : Bytes) (s : Rd) (acc : Acc) (theSize : Int) : Except Err (Rd × Acc) :=
  if s.isEOF then .error .eof else
  if theSize < 0 then allLoop cfg f (f.length + 1) s acc
  else sizedLoop cfg f (f.length + 1) s acc 0 theSize.toNat

def Rd.hasLd (s : Rd) : Bool := s.ldLen > s.ldIndex || s.hasSuccessor

/-- `_readOrSkipPreamble` -/
def preamble (cfg : Cfg) (f : Bytes) (s : Rd) : Except Err (Rd × Bool) :=
  if s.isEOF then .error .eof else
  match (if s.mustReadHead then readHead cfg f s else .ok s) with
  | .error e => .error e
  | .ok s =>
    if ¬ s.hasLd then
      if ¬ s.isEOF then
        match readTail cfg f s with
        | .error e => .error e
        | .ok s => .ok (s, false)
      else .ok (s, false)
    else .ok (s, true)

/-- `readLrBytes(theSize)`: `none` = Python `None` -/
def readLrBytes (cfg : Cfg) (f : Bytes) (s : Rd) (theSize : Int) : Except Err (Rd × Option Bytes) :=
  match preamble cfg f s with
  | .error e => .error e
  | .ok (s, false) => .ok (s, none)
  | .ok (s, true) =>
    match readOrSkip cfg f s (.data []) theSize with
    | .error e => .error e
    | .ok (s, .data b) => .ok (s, some b)
    | .ok (s, .cnt _) => .ok (s, some [])

/-- `skipLrBytes(theSize)` -/
def skipLrBytes (cfg : Cfg) (f : Bytes) (s : Rd) (theSize : Int) : Except Err (Rd × Nat) :=
  match preamble cfg f s with
  | .error e => .error e
  | .ok (s, false) => .ok (s, 0)
  | .ok (s, true) =>
    match readOrSkip cfg f s (.cnt 0) theSize with
    | .error e => .error e
    | .ok (s, .cnt n) => .ok (s, n)
    | .ok (s, .data _) => .ok (s, 0)

/-- `skipToNextLr` -/
def skipToNextLr (cfg : Cfg) (f : Bytes) (s : Rd) : Except Err (Rd × Nat) :=
  match skipLrBytes cfg f s (-1) with
  | .error e => .error e
  | .ok (s, r) =>
    match (if r ≠ 0 ∧ ¬ s.mustReadHead then readTail cfg f s else .ok s) with
    | .error e => .error e
    | .ok s =>
      match readHead cfg f s with
      | .error e => .error e
      | .ok s => .ok (s, r)

/-- `seekLr(offset)` = `stream.seek(offset)`, `_reset()`, returns `stream.tell()` -/
def seekLr (s : Rd) (offset : Nat) : Rd × Nat :=
  ({ s with pos := offset, prLen := 0, prAttr := 0, ldLen := 0, startOfLr := 0, startPrPos := 0, isEOF := false,
            ldIndex := 0, ldTell := 0, isLrStart := true, mustReadHead := true, tif := s.tif.reset }, offset)

def tellLr (s : Rd) : Nat := s.startOfLr

/-! ## histories on the concrete reader -/

/-- concrete operations: `seek` takes a file offset -/
inductive COp where
  | read (n : Int) | skip (n : Int) | next | seek (off : Nat) | tell
  deriving Repr, DecidableEq

def errReply (s : Rd) (e : Err) : Reply :=
  if s.isEOF ∧ e = .eof then .eofError else .failed

/-- one operation: new state (`none` = halted after an exception other than the EOF entry guard) and the reply -/
def step (cfg : Cfg) (f : Bytes) (s : Rd) : COp → Option Rd × Reply
  | .tell => (some s, .pos (tellLr s))
  | .seek o => let (s', p) := seekLr s o; (some s', .pos p)
  | .read n =>
    match readLrBytes cfg f s n with
    | .ok (s', some b) => (some s', .bytes b)
    | .ok (s', none) => (some s', .none)
    | .error e => (if s.isEOF then some s else none, errReply s e)
  | .skip n =>
    match skipLrBytes cfg f s n with
    | .ok (s', c) => (some s', .count c)
    | .error e => (if s.isEOF then some s else none, errReply s e)
  | .next =>
    match skipToNextLr cfg f s with
    | .ok (s', c) => (some s', .count c)
    | .error e => (if s.isEOF then some s else none, errReply s e)

def run (cfg : Cfg) (f : Bytes) : Option Rd → List COp → List Reply
  | _, [] => []
  | none, _ :: ops => .halted :: run cfg f none ops
  | some s, op :: ops => let (s', r) := step cfg f s op; r :: run cfg f s' ops

/-- abstract operation ↦ concrete operation: a seek goes to the position of the record -/
def concOp (L : Layout) (rs : List Bytes) : Op → COp
  | .read n => .read n
  | .skip n => .skip n
  | .next => .next
  | .tell => .tell
  | .seek i => .seek (tellOf L rs i)

/-! ## File.py: choosing the padding settings by scanning -/

/-- one iteration of `genPr` after a successful `_readHead`: `self.skipLrBytes(self.ldLen)`, `self._readTail()` -/
def genPrBody (cfg : Cfg) (f : Bytes) (s : Rd) : Except Err Rd :=
  match skipLrBytes cfg f s s.ldLen with
  | .error e => .error e
  | .ok (s, _) => readTail cfg f s

/-- `scan_file_no_output`: the loop `for _ in phys_rec.genPr(): pr_count += 1; if pr_limit and pr_count >= pr_limit: break`
with `genPr` (`_readHead`, stop at EOF, body, yield) inlined; fuel = file length + 1 -/
def genPrLoop (cfg : Cfg) (f : Bytes) : Nat → Rd → Nat → Nat → Except Err Nat
  | 0, _, _, _ => .error .fuel
  | fuel + 1, s, cnt, limit =>
    if s.isEOF then .ok cnt else
    match readHead cfg f s with
    | .error e => .error e
    | .ok s =>
      if s.isEOF then .ok cnt else
      match genPrBody cfg f s with
      | .error e => .error e
      | .ok s =>
        if limit ≠ 0 ∧ cnt + 1 ≥ limit then .ok (cnt + 1) else genPrLoop cfg f fuel s (cnt + 1) limit

/-- `scan_file_no_output(file, keep_going, pad_modulo, pad_non_null, pr_limit)`: number of PRs, 0 after
ExceptionPhysRec / ExceptionTifMarker -/
def scanFile (cfg : Cfg) (f : Bytes) (limit : Nat) : Nat :=
  match genPrLoop cfg f (f.length + 1) (seekLr (Rd.new f) 0).1 0 limit with
  | .ok n => n
  | .error _ => 0

/-- the order in which `scan_file_with_different_padding` fills its dict -/
def padOptions : List (Nat × Bool) := [(0, false), (0, true), (2, false), (2, true), (4, false), (4, true)]

/-- `scan_file_with_different_padding(file, keep_going, pr_limit)` as the list of dict items in insertion order -/
def scanAll (kg : Bool) (f : Bytes) (limit : Nat) : List ((Nat × Bool) × Nat) :=
  padOptions.map (fun o => (o, scanFile ⟨kg, o.1, o.2⟩ f limit))

/-- `ret_padding_options_with_max_records`: the keys with the maximal count, in dict order -/
def retMax (l : List ((Nat × Bool) × Nat)) : List (Nat × Bool) :=
  let mx := l.foldl (fun a x => max a x.2) 0
  (l.filter (fun x => x.2 = mx)).map (·.1)

/-- the end of `best_physical_record_pad_settings`: `best_pad_opts[0]` if there is one and it counted a record -/
def pickBest (c : List ((Nat × Bool) × Nat)) : Option (Nat × Bool) :=
  match retMax c with
  | [] => none
  | o :: _ => if (c.lookup o).getD 0 > 0 then some o else none

/-- `best_physical_record_pad_settings(file, pr_limit)` (the scan runs with keep_going=True) -/
def bestPad (f : Bytes) (limit : Nat) : Option (Nat × Bool) := pickBest (scanAll true f limit)

/-- `file_read_with_best_physical_record_pad_settings`: the constructor arguments of the `FileRead` it returns -/
def bestReaderCfg (f : Bytes) (limit : Nat) : Option Cfg :=
  (bestPad f limit).map (fun o => ⟨true, o.1, o.2⟩)

/-! ## DeTif.strip_tif -/

inductive SErr where
  | structError      -- struct.error: fewer than 12 bytes at the very start
  | notTifStart      -- DeTifExceptionRead: first marker is not (0, 0, _)
  | negative         -- DeTifExceptionRead: negative block size
  | fuel
  deriving Repr, DecidableEq

/-- `_read_tifs`: (type, prev, next) little-endian, `none` = struct.error -/
def readTifs (f : Bytes) (pos : Nat) : Option (Nat × Nat × Nat) := unpack3 false (rdBytes f pos 12)

/-- the `while True` loop of `strip_tif`; `tell`/`next` describe the current marker, `pos` is the input position -/
def stripLoop (f : Bytes) : Nat → Nat → Nat → Nat → Bytes → Nat → Nat → Except SErr (Bytes × Nat × Nat)
  | 0, _, _, _, _, _, _ => .error .fuel
  | fuel + 1, pos, tell, next, out, stripped, written =>
    let readLen : Int := (next : Int) - tell - 12
    if readLen < 0 then .error .negative else
    let d := rdBytes f pos readLen.toNat
    let out := out ++ d
    let pos := pos + d.length
    let written := written + readLen.toNat
    match readTifs f pos with
    | none => .ok (out, stripped, written)
    | some (_, _, nx) => stripLoop f fuel (pos + 12) pos nx out (stripped + 1) written

/-- `strip_tif(file_in, file_out)` → (output bytes, tif_markers_stripped, bytes_written) -/
def stripTif (f : Bytes) : Except SErr (Bytes × Nat × Nat) :=
  match readTifs f 0 with
  | none => .error .structError
  | some (ty, pv, nx) =>
    if ¬ (ty = 0 ∧ pv = 0) then .error .notTifStart
    else stripLoop f (f.length + 1) 12 0 nx [] 1 0

end TD.C05
