/-
C05 — specification side: the LIS-79 physical record format written from the standard's point of view,
and the abstract protocol semantics of a LIS reader on a list of logical records.

Core Lean only (the driver links this file).

* a file is a list of logical records (`List Bytes`);
* a `Layout` fixes the maximum physical record (PR) length, the optional trailer fields (record number,
  file number, checksum) and the TIF mode (off / little-endian words, which is what the code calls normal /
  big-endian words, which the code calls "reversed");
* `encode L rs` lays the records out: each logical record is cut in chunks of at most `maxPayload` bytes, each
  chunk becomes one PR = [TIF marker] header(length, attributes) payload [recnum] [filenum] [checksum];
  the attributes carry the successor bit (0) on every chunk but the last and the predecessor bit (1) on every chunk
  but the first; a TIF marker is (type, position of the previous marker, position of the next marker); a TIF file ends
  with two markers of type 1;
* `absStep` is the abstract reader: state = which record, how many bytes of it were consumed.
-/
namespace TD.C05

abbrev Bytes := List Nat

/-! ## integers -/

def u16be (n : Nat) : Bytes := [n / 256 % 256, n % 256]
def u32le (n : Nat) : Bytes := [n % 256, n / 256 % 256, n / 65536 % 256, n / 16777216 % 256]
def u32be (n : Nat) : Bytes := [n / 16777216 % 256, n / 65536 % 256, n / 256 % 256, n % 256]

/-! ## layout -/

inductive TifMode where
  | off | le | be
  deriving DecidableEq, Repr

structure Layout where
  prMax : Nat
  hasRec : Bool
  fileNum : Option Int
  hasChk : Bool
  tif : TifMode

/-- length of the PR trailer -/
def Layout.prtLen (L : Layout) : Nat :=
  (if L.hasRec then 2 else 0) + (if L.fileNum.isSome then 2 else 0) + (if L.hasChk then 2 else 0)

/-- the largest payload of one PR -/
def Layout.maxPayload (L : Layout) : Nat := L.prMax - 4 - L.prtLen

/-- a usable layout: PR length fits 16 bits and leaves room for at least one payload byte -/
def Layout.Valid (L : Layout) : Prop := L.prMax ≤ 65535 ∧ 4 + L.prtLen + 1 ≤ L.prMax

instance (L : Layout) : Decidable L.Valid := by unfold Layout.Valid; exact inferInstance

def Layout.tifLen (L : Layout) : Nat := match L.tif with
  | .off => 0
  | _ => 12

/-! ## checksum (LIS-79: 16 bit, add with end-around carry then rotate left by one) -/

/-- ones' complement (end-around carry) addition of two 16-bit numbers -/
def onesAdd (c t : Nat) : Nat := if c + t ≥ 65536 then c + t - 65535 else c + t
/-- rotate a 16-bit number left by one bit -/
def rotl16 (x : Nat) : Nat := (2 * x) % 65536 + x / 32768

/-- big-endian 16-bit words of a byte string, a trailing odd byte is not used -/
def words16 : Bytes → List Nat
  | a :: b :: r => (256 * a + b) :: words16 r
  | _ => []

def checksumSpec (b : Bytes) : Nat := (words16 b).foldl (fun c t => rotl16 (onesAdd c t)) 0

/-! ## one physical record -/

/-- encoder state: absolute position of the next PR (of its TIF marker when present), position of the previous
TIF marker, number of PRs written so far -/
structure ES where
  pos : Nat
  back : Nat
  recNo : Nat
  deriving Repr, DecidableEq

def ES.init : ES := ⟨0, 0, 0⟩

def prLenOf (L : Layout) (c : Bytes) : Nat := 4 + c.length + L.prtLen

/-- PR attributes: trailer description bits, successor bit 0 unless last, predecessor bit 1 unless first -/
def attrOf (L : Layout) (first last : Bool) : Nat :=
  (if L.hasRec then 0x200 else 0) + (if L.fileNum.isSome then 0x400 else 0) + (if L.hasChk then 0x1000 else 0)
  + (if last then 0 else 1) + (if first then 0 else 2)

def fileNumBytes (L : Layout) : Bytes := match L.fileNum with
  | none => []
  | some n => u16be (n % 65536).toNat

/-- header, payload, record number, file number: the part the checksum covers -/
def prCovered (L : Layout) (st : ES) (first last : Bool) (c : Bytes) : Bytes :=
  u16be (prLenOf L c) ++ u16be (attrOf L first last) ++ c
    ++ (if L.hasRec then u16be (st.recNo % 65536) else []) ++ fileNumBytes L

def prBody (L : Layout) (st : ES) (first last : Bool) (c : Bytes) : Bytes :=
  prCovered L st first last c
    ++ (if L.hasChk then u16be (checksumSpec (prCovered L st first last c)) else [])

def tifMarker (m : TifMode) (ty back next : Nat) : Bytes := match m with
  | .off => []
  | .le => u32le ty ++ u32le back ++ u32le next
  | .be => u32be ty ++ u32be back ++ u32be next

def encPR (L : Layout) (st : ES) (first last : Bool) (c : Bytes) : Bytes :=
  tifMarker L.tif 0 st.back (st.pos + 12 + prLenOf L c) ++ prBody L st first last c

def ES.next (L : Layout) (st : ES) (c : Bytes) : ES :=
  ⟨st.pos + L.tifLen + prLenOf L c, st.pos, st.recNo + 1⟩

/-! ## logical records -/

/-- cut a logical record in payload chunks of at most `mp` bytes (fuel = length of the record) -/
def chunksF : Nat → Nat → Bytes → List Bytes
  | 0, _, _ => []
  | fuel + 1, mp, l =>
    if l = [] then [] else
    if l.length ≤ mp then [l] else l.take mp :: chunksF fuel mp (l.drop mp)

def chunks (mp : Nat) (l : Bytes) : List Bytes := chunksF l.length mp l

/-- the PRs of one logical record, `first` tells whether the first chunk given is the first of the record -/
def encChunks (L : Layout) (st : ES) (first : Bool) : List Bytes → Bytes
  | [] => []
  | c :: cs => encPR L st first cs.isEmpty c ++ encChunks L (st.next L c) false cs

def stAfterChunks (L : Layout) (st : ES) : List Bytes → ES
  | [] => st
  | c :: cs => stAfterChunks L (st.next L c) cs

def encRec (L : Layout) (st : ES) (r : Bytes) : Bytes := encChunks L st true (chunks L.maxPayload r)
def stAfterRec (L : Layout) (st : ES) (r : Bytes) : ES := stAfterChunks L st (chunks L.maxPayload r)

def encRecs (L : Layout) (st : ES) : List Bytes → Bytes
  | [] => []
  | r :: rs => encRec L st r ++ encRecs L (stAfterRec L st r) rs

def stAfterRecs (L : Layout) (st : ES) : List Bytes → ES
  | [] => st
  | r :: rs => stAfterRecs L (stAfterRec L st r) rs

/-- the two TIF end-of-file markers -/
def eofMarkers (L : Layout) (st : ES) : Bytes :=
  tifMarker L.tif 1 st.back (st.pos + 12) ++ tifMarker L.tif 1 st.pos (st.pos + 24)

/-- the whole file -/
def encode (L : Layout) (rs : List Bytes) : Bytes :=
  encRecs L ES.init rs ++ eofMarkers L (stAfterRecs L ES.init rs)

/-- the first `k` (0, 1 or 2) TIF end-of-file markers: a file still being written has none (`close()` writes both) -/
def eofMarkersN (L : Layout) (st : ES) : Nat → Bytes
  | 0 => []
  | 1 => tifMarker L.tif 1 st.back (st.pos + 12)
  | _ => eofMarkers L st

/-- the file with only the first `k` end-of-file markers (`k = 2`: the closed file, `k = 0`: the bytes before `close()`) -/
def encodeN (L : Layout) (rs : List Bytes) (k : Nat) : Bytes :=
  encRecs L ES.init rs ++ eofMarkersN L (stAfterRecs L ES.init rs) k

/-- size on file of one logical record -/
def recSize (L : Layout) (r : Bytes) : Nat :=
  ((chunks L.maxPayload r).map (fun c => L.tifLen + prLenOf L c)).sum

/-- start position of logical record `i` = sum of the sizes of the records before it -/
def tellOf (L : Layout) (rs : List Bytes) (i : Nat) : Nat := ((rs.take i).map (recSize L)).sum

def fileSize (L : Layout) (rs : List Bytes) : Nat :=
  tellOf L rs rs.length + (match L.tif with | .off => 0 | _ => 24)

/-! ## abstract reader protocol -/

/-- operations of a reader; `read n`/`skip n` with `n < 0` mean "all the rest of the logical record",
`seek i` = `seekLr(position of record i)`, `next` = `skipToNextLr`, `tell` = `tellLr` -/
inductive Op where
  | read (n : Int) | skip (n : Int) | next | seek (i : Nat) | tell
  deriving Repr, DecidableEq

inductive Reply where
  | bytes (b : Bytes)     -- readLrBytes result
  | none                  -- readLrBytes returned None
  | count (n : Nat)       -- skipLrBytes / skipToNextLr result
  | pos (p : Nat)         -- tellLr / seekLr result
  | eofError              -- operation raised because the reader is at end of file
  | failed                -- any other exception (never on well-formed files)
  | halted                -- history abandoned after `failed`
  deriving Repr, DecidableEq

/-- where the abstract reader is -/
inductive Phase where
  | start (i : Nat)          -- before record `i` (header not read); `i = length` means at the end
  | inside (i off : Nat)     -- record `i` opened, `off` of its bytes consumed (`off = length` : exhausted)
  | eof                      -- end of file was detected
  deriving Repr, DecidableEq

/-- `cur` is the record whose start position `tellLr` reports (`none`: 0, i.e. nothing read since a seek) -/
structure AState where
  ph : Phase
  cur : Option Nat
  deriving Repr, DecidableEq

def AState.init : AState := ⟨.start 0, none⟩

def recAt (rs : List Bytes) (i : Nat) : Bytes := rs.getD i []

/-- open the record at a `start` phase (what reading a PR header does) -/
def openRec (rs : List Bytes) (a : AState) : AState := match a.ph with
  | .start i => if i < rs.length then ⟨.inside i 0, some i⟩ else ⟨.eof, a.cur⟩
  | _ => a

/-- move to the record after `i` and open it (used by `next`) -/
def gotoNext (rs : List Bytes) (a : AState) (i : Nat) : AState :=
  openRec rs ⟨.start (i + 1), a.cur⟩

def absRead (rs : List Bytes) (a : AState) (n : Int) : AState × Option Bytes :=
  match (openRec rs a).ph with
  | .inside i off =>
    let a := openRec rs a
    let r := recAt rs i
    if off ≥ r.length then (⟨.start (i + 1), a.cur⟩, none)           -- exhausted: `None` once
    else if n < 0 then (⟨.start (i + 1), a.cur⟩, some (r.drop off))
    else (⟨.inside i (off + min n.toNat (r.length - off)), a.cur⟩, some ((r.drop off).take n.toNat))
  | _ => (openRec rs a, none)                                         -- end of file

def absStep (L : Layout) (rs : List Bytes) (a : AState) : Op → AState × Reply
  | .tell => (a, .pos (match a.cur with | none => 0 | some j => tellOf L rs j))
  | .seek i => (⟨.start i, none⟩, .pos (tellOf L rs i))
  | .read n =>
    if a.ph = .eof then (a, .eofError) else
    match absRead rs a n with
    | (a', some b) => (a', .bytes b)
    | (a', none) => (a', .none)
  | .skip n =>
    if a.ph = .eof then (a, .eofError) else
    match absRead rs a n with
    | (a', some b) => (a', .count b.length)
    | (a', none) => (a', .count 0)
  | .next =>
    match a.ph with
    | .eof => (a, .eofError)
    | .start i =>
      if i < rs.length then (gotoNext rs ⟨a.ph, some i⟩ i, .count (recAt rs i).length)
      else (⟨.eof, a.cur⟩, .count 0)
    | .inside i off => (gotoNext rs a i, .count ((recAt rs i).length - off))

def absRun (L : Layout) (rs : List Bytes) : AState → List Op → List Reply
  | _, [] => []
  | a, op :: ops => let (a', r) := absStep L rs a op; r :: absRun L rs a' ops

end TD.C05
