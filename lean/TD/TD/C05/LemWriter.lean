import TD.C05.LemBasic
/-! C05: the writer model produces the spec encoding. -/
namespace TD.C05

/-! ### chunks -/

theorem chunksF_succ (n mp : Nat) (l : Bytes) : chunksF (n + 1) mp l =
    if l = [] then [] else if l.length ≤ mp then [l] else l.take mp :: chunksF n mp (l.drop mp) := rfl

theorem chunksF_fuel (mp : Nat) (hmp : 1 ≤ mp) : ∀ (f1 f2 : Nat) (l : Bytes), l.length ≤ f1 → l.length ≤ f2 →
    chunksF f1 mp l = chunksF f2 mp l := by
  intro f1
  induction f1 with
  | zero =>
    intro f2 l h1 _
    have : l = [] := List.eq_nil_of_length_eq_zero (by omega)
    subst this
    cases f2 with
    | zero => rfl
    | succ m => rw [chunksF_succ]; simp [chunksF]
  | succ n ih =>
    intro f2 l h1 h2
    cases f2 with
    | zero =>
      have : l = [] := List.eq_nil_of_length_eq_zero (by omega)
      subst this; rw [chunksF_succ]; simp [chunksF]
    | succ m =>
      rw [chunksF_succ, chunksF_succ]
      by_cases hne : l = []
      · simp [hne]
      · by_cases hle : l.length ≤ mp
        · simp [hne, hle]
        · simp only [hne, hle, if_false]
          have hd : (l.drop mp).length = l.length - mp := List.length_drop
          rw [ih m (l.drop mp) (by omega) (by omega)]

theorem chunks_unfold (mp : Nat) (hmp : 1 ≤ mp) (l : Bytes) : chunks mp l =
    if l = [] then [] else if l.length ≤ mp then [l] else l.take mp :: chunks mp (l.drop mp) := by
  unfold chunks
  cases hl : l.length with
  | zero =>
    have : l = [] := List.eq_nil_of_length_eq_zero hl
    subst this; simp [chunksF]
  | succ m =>
    rw [chunksF_succ]
    by_cases hne : l = []
    · simp [hne]
    · by_cases hle : l.length ≤ mp
      · have h' : m + 1 ≤ mp := by omega
        simp [hne, h', hle]
      · have h' : ¬ (m + 1 ≤ mp) := by omega
        simp only [hne, h', hle, if_false]
        have hd : (l.drop mp).length = l.length - mp := List.length_drop
        rw [chunksF_fuel mp hmp m (l.drop mp).length (l.drop mp) (by omega) (Nat.le_refl _)]


/-! ### attributes, trailer pieces -/

theorem attr_eq (r f c s p : Bool) :
    (let a := ((0 ||| (if r then 1 <<< 9 else 0)) ||| (if f then 1 <<< 10 else 0)) ||| (if c then 1 <<< 12 else 0)
     let a := if s then a ||| (1 <<< 0) else a
     if p then a ||| (1 <<< 1) else a)
    = (if r then 0x200 else 0) + (if f then 0x400 else 0) + (if c then 0x1000 else 0)
      + (if s then 1 else 0) + (if p then 2 else 0) := by
  cases r <;> cases f <;> cases c <;> cases s <;> cases p <;> rfl

theorem normalise_eq (n : Int) : normalise n = n % 65536 := by
  unfold normalise; simp

/-- relation between the writer object and the spec encoder state -/
structure WInv (L : Layout) (st : ES) (w : Wr) : Prop where
  mp : w.maxPayloadLen = L.maxPayload
  hasRec : w.prt.hasRec = L.hasRec
  hasChk : w.prt.hasCheck = L.hasChk
  fnum : w.prt.fileNum = L.fileNum.map (fun n => n % 65536)
  rn0 : 0 ≤ w.prt.recNum ∧ w.prt.recNum ≤ 65536
  rn : L.hasRec = true → w.prt.recNum.toNat % 65536 = st.recNo % 65536
  len : w.out.length = st.pos
  back : st.back ≤ st.pos
  tifOff : L.tif = .off → w.tif = none
  tifOn : L.tif ≠ .off → ∃ t, w.tif = some t ∧ t.tifType = 0 ∧ t.tifNext = st.pos ∧ t.tifBack = st.back
            ∧ t.tifBack + t.previousDiff = st.pos

theorem prtLen_eq {L : Layout} {st : ES} {w : Wr} (h : WInv L st w) : w.prt.prtLen = L.prtLen := by
  unfold Prt.prtLen Layout.prtLen
  rw [h.hasRec, h.hasChk, h.fnum]
  cases L.fileNum <;> simp

theorem fileNumBytes_eq (L : Layout) (p : Prt) (h : p.fileNum = L.fileNum.map (fun n => n % 65536)) :
    p.fileNumBytes = fileNumBytes L := by
  unfold Prt.fileNumBytes fileNumBytes
  rw [h]; cases L.fileNum <;> simp

theorem recNumBytes_spec {L : Layout} {st : ES} {w : Wr} (h : WInv L st w) :
    w.prt.recNumBytes.1 = (if L.hasRec then u16be (st.recNo % 65536) else [])
    ∧ w.prt.recNumBytes.2.hasRec = L.hasRec ∧ w.prt.recNumBytes.2.hasCheck = L.hasChk
    ∧ w.prt.recNumBytes.2.fileNum = L.fileNum.map (fun n => n % 65536)
    ∧ (0 ≤ w.prt.recNumBytes.2.recNum ∧ w.prt.recNumBytes.2.recNum ≤ 65536)
    ∧ (L.hasRec = true → w.prt.recNumBytes.2.recNum.toNat % 65536 = (st.recNo + 1) % 65536) := by
  have h0 := h.rn0
  unfold Prt.recNumBytes
  rw [h.hasRec]
  cases hr : L.hasRec with
  | false => simp [h.hasRec, h.hasChk, h.fnum, hr, h0]
  | true =>
    have hrn := h.rn hr
    have key : ∃ n : Int, (if w.prt.recNum < 0 ∨ w.prt.recNum > 65535 then normalise w.prt.recNum else w.prt.recNum) = n
        ∧ n.toNat = st.recNo % 65536 ∧ 0 ≤ n ∧ n ≤ 65535 := by
      by_cases hc : w.prt.recNum < 0 ∨ w.prt.recNum > 65535
      · refine ⟨0, ?_, ?_, by omega, by omega⟩
        · have : w.prt.recNum = 65536 := by omega
          rw [if_pos hc, normalise_eq, this]; rfl
        · have : w.prt.recNum = 65536 := by omega
          rw [this] at hrn
          have : (65536 : Int).toNat = 65536 := rfl
          rw [this] at hrn
          omega
      · refine ⟨w.prt.recNum, by rw [if_neg hc], ?_, by omega, by omega⟩
        have : w.prt.recNum.toNat < 65536 := by omega
        rw [← hrn, Nat.mod_eq_of_lt this]
    obtain ⟨n, hn, hn1, hn2, hn3⟩ := key
    simp only [if_true, hn]
    refine ⟨by rw [hn1], trivial, h.hasChk, h.fnum, by omega, ?_⟩
    intro _
    have : (n + 1).toNat = n.toNat + 1 := by omega
    rw [this, hn1]; omega


theorem fileNumBytes_ok (L : Layout) : BytesOK (fileNumBytes L) := by
  unfold fileNumBytes; cases L.fileNum with
  | none => exact BytesOK_nil
  | some n => exact u16be_ok _

theorem prAttr_eq {L : Layout} {st : ES} {w : Wr} (h : WInv L st w) (lr : Bytes) (ofs : Nat) :
    (let attr := w.prt.prhAttr
     let attr := if ofs + w.maxPayloadLen < lr.length then attr ||| (1 <<< 0) else attr
     if ofs > 0 then attr ||| (1 <<< 1) else attr)
    = attrOf L (decide (ofs = 0)) (decide (¬ (ofs + L.maxPayload < lr.length))) := by
  unfold Prt.prhAttr attrOf
  rw [h.hasRec, h.hasChk, h.fnum, h.mp]
  have e : (Option.map (fun n : Int => n % 65536) L.fileNum).isSome = L.fileNum.isSome := by
    cases L.fileNum <;> rfl
  rw [e]
  have e0 : (ofs = 0) ↔ ¬ (ofs > 0) := by omega
  generalize L.fileNum.isSome = f
  generalize L.hasRec = r
  generalize L.hasChk = c
  by_cases h1 : ofs + L.maxPayload < lr.length <;> by_cases h2 : ofs > 0 <;>
    cases r <;> cases f <;> cases c <;> simp only [h1, h2, e0] <;> decide

theorem prBytes_spec {L : Layout} {st : ES} {w : Wr} (h : WInv L st w) (lr : Bytes) (ofs : Nat) (hb : BytesOK lr) :
    (prBytes w lr ofs).1 = prBody L st (decide (ofs = 0)) (decide (¬ (ofs + L.maxPayload < lr.length)))
        ((lr.drop ofs).take L.maxPayload)
    ∧ (prBytes w lr ofs).2 = w.prt.recNumBytes.2 := by
  obtain ⟨r1, _, r3, r4, _, _⟩ := recNumBytes_spec h
  have hattr := prAttr_eq h lr ofs
  simp only [] at hattr
  unfold prBytes prBody prCovered
  simp only []
  rw [hattr, h.mp, prtLen_eq h, r1, fileNumBytes_eq L _ r4, r3]
  refine ⟨?_, trivial⟩
  unfold prLenOf computeCheckSum
  rw [r3]
  cases hc : L.hasChk with
  | false => simp
  | true =>
    simp only [if_true]
    rw [checksum_eq]
    refine BytesOK_append (BytesOK_append (BytesOK_append (BytesOK_append (u16be_ok _) (u16be_ok _)) ?_) ?_) (fileNumBytes_ok L)
    · exact BytesOK_take (BytesOK_drop hb _) _
    · split
      · exact u16be_ok _
      · exact BytesOK_nil


/-! ### chunk list facts -/

theorem chunks_nil (mp : Nat) : chunks mp [] = [] := by simp [chunks, chunksF]

theorem chunks_cons (mp : Nat) (hmp : 1 ≤ mp) (l : Bytes) (hl : l ≠ []) :
    chunks mp l = l.take mp :: chunks mp (l.drop (l.take mp).length) := by
  rw [chunks_unfold mp hmp l]
  simp only [hl, if_false]
  by_cases hle : l.length ≤ mp
  · simp only [hle, if_true]
    rw [List.take_of_length_le hle, List.drop_length, chunks_nil]
  · simp only [hle, if_false]
    have : (l.take mp).length = mp := by rw [List.length_take]; omega
    rw [this]

theorem chunks_eq_nil (mp : Nat) (hmp : 1 ≤ mp) (l : Bytes) : chunks mp l = [] ↔ l = [] := by
  constructor
  · intro h
    by_cases hl : l = []
    · exact hl
    · rw [chunks_cons mp hmp l hl] at h; simp at h
  · intro h; subst h; exact chunks_nil mp

theorem u16be_length (n : Nat) : (u16be n).length = 2 := rfl

theorem fileNumBytes_length (L : Layout) : (fileNumBytes L).length = if L.fileNum.isSome then 2 else 0 := by
  unfold fileNumBytes; cases L.fileNum <;> rfl

theorem prBody_length (L : Layout) (st : ES) (f l : Bool) (c : Bytes) :
    (prBody L st f l c).length = prLenOf L c := by
  unfold prBody prCovered prLenOf Layout.prtLen
  simp only [List.length_append, u16be_length, fileNumBytes_length]
  cases L.hasRec <;> cases L.hasChk <;> cases L.fileNum.isSome <;> simp [u16be_length] <;> omega

theorem tifMarker_length (L : Layout) (a b c : Nat) : (tifMarker L.tif a b c).length = L.tifLen := by
  unfold tifMarker Layout.tifLen; cases L.tif <;> rfl

theorem encPR_length (L : Layout) (st : ES) (f l : Bool) (c : Bytes) :
    (encPR L st f l c).length = L.tifLen + prLenOf L c := by
  unfold encPR; rw [List.length_append, tifMarker_length, prBody_length]

theorem next_pos (L : Layout) (st : ES) (c : Bytes) : (st.next L c).pos = st.pos + L.tifLen + prLenOf L c := rfl

theorem stAfterChunks_pos_ge (L : Layout) : ∀ (cs : List Bytes) (st : ES), st.pos ≤ (stAfterChunks L st cs).pos := by
  intro cs
  induction cs with
  | nil => intro st; exact Nat.le_refl _
  | cons c cs ih =>
    intro st
    have := ih (st.next L c)
    simp only [stAfterChunks]
    rw [next_pos] at this; omega


/-! ### the loop of `writeLr` -/

theorem writeLoop_spec (L : Layout) (hL : L.Valid) (hbe : L.tif ≠ .be) :
    ∀ (fuel : Nat) (w : Wr) (st : ES) (lr : Bytes) (ofs : Nat),
    WInv L st w → BytesOK lr → lr.length - ofs < fuel →
    (L.tif = .le → (stAfterChunks L st (chunks L.maxPayload (lr.drop ofs))).pos < 4294967296) →
    ∃ w', writeLoop fuel w lr ofs = .ok w'
      ∧ w'.out = w.out ++ encChunks L st (decide (ofs = 0)) (chunks L.maxPayload (lr.drop ofs))
      ∧ WInv L (stAfterChunks L st (chunks L.maxPayload (lr.drop ofs))) w' := by
  have hmp : 1 ≤ L.maxPayload := by
    have := hL.2; unfold Layout.maxPayload; omega
  intro fuel
  induction fuel with
  | zero => intro w st lr ofs _ _ hf; omega
  | succ n ih =>
    intro w st lr ofs hinv hb hf hsz
    by_cases hofs : ofs < lr.length
    · -- one more physical record
      have hne : lr.drop ofs ≠ [] := by
        intro h0; have := congrArg List.length h0; simp at this; omega
      rw [chunks_cons _ hmp _ hne] at hsz ⊢
      obtain ⟨hb1, hb2⟩ := prBytes_spec hinv lr ofs hb
      obtain ⟨_, r2, r3, r4, r5, r6⟩ := recNumBytes_spec hinv
      have hclen : ((lr.drop ofs).take L.maxPayload).length = min L.maxPayload (lr.length - ofs) := by
        simp [List.length_take, List.length_drop]
      have hcpos : 1 ≤ ((lr.drop ofs).take L.maxPayload).length := by rw [hclen]; omega
      have hdrop : (lr.drop ofs).drop ((lr.drop ofs).take L.maxPayload).length
          = lr.drop (ofs + ((lr.drop ofs).take L.maxPayload).length) := by
        rw [List.drop_drop]
      have hlast : (chunks L.maxPayload ((lr.drop ofs).drop ((lr.drop ofs).take L.maxPayload).length)).isEmpty
          = decide (¬ (ofs + L.maxPayload < lr.length)) := by
        rw [Bool.eq_iff_iff]
        simp only [List.isEmpty_iff, decide_eq_true_eq]
        rw [chunks_eq_nil _ hmp, hdrop, List.drop_eq_nil_iff, hclen]; omega
      have hofs1 : decide (ofs + ((lr.drop ofs).take L.maxPayload).length = 0) = false := by
        simp only [decide_eq_false_iff_not]; omega
      simp only [encChunks, stAfterChunks] at hsz ⊢
      rw [hlast, hdrop]
      rw [hdrop] at hsz
      have hfuel : lr.length - (ofs + ((lr.drop ofs).take L.maxPayload).length) < n := by omega
      have hposge := stAfterChunks_pos_ge L (chunks L.maxPayload (lr.drop (ofs + ((lr.drop ofs).take L.maxPayload).length)))
        (st.next L ((lr.drop ofs).take L.maxPayload))
      rw [writeLoop]
      simp only [hofs, if_true]
      cases htif : L.tif with
      | be => exact absurd htif hbe
      | off =>
        rw [hinv.tifOff htif]
        simp only []
        rw [hinv.mp]
        have hinv1 : WInv L (st.next L ((lr.drop ofs).take L.maxPayload))
            { out := w.out ++ (prBytes w lr ofs).1, tif := none, prLen := w.prLen, prt := (prBytes w lr ofs).2,
              maxPayloadLen := L.maxPayload } := by
          refine ⟨rfl, ?_, ?_, ?_, ?_, ?_, ?_, ?_, ?_, ?_⟩
          · simp only [hb2]; exact r2
          · simp only [hb2]; exact r3
          · simp only [hb2]; exact r4
          · simp only [hb2]; exact r5
          · simp only [hb2]; exact r6
          · simp only [List.length_append, hb1, prBody_length, hinv.len, next_pos, Layout.tifLen, htif]; omega
          · simp only [ES.next]; omega
          · intro _; rfl
          · intro h; exact absurd htif h
        obtain ⟨w', e1, e2, e3⟩ := ih _ _ lr _ hinv1 hb hfuel hsz
        refine ⟨w', e1, ?_, e3⟩
        rw [e2, hofs1]
        simp only [encPR, tifMarker, htif, List.nil_append, List.append_assoc, hb1]
      | le =>
        have hne' : L.tif ≠ .off := by rw [htif]; intro h; cases h
        obtain ⟨t, ht1, ht2, ht3, ht4, ht5⟩ := hinv.tifOn hne'
        rw [ht1]
        simp only []
        have hblen : (prBytes w lr ofs).1.length = prLenOf L ((lr.drop ofs).take L.maxPayload) := by
          rw [hb1, prBody_length]
        have hnp : (st.next L ((lr.drop ofs).take L.maxPayload)).pos
            = st.pos + 12 + prLenOf L ((lr.drop ofs).take L.maxPayload) := by
          simp [next_pos, Layout.tifLen, htif]
        have hback := hinv.back
        have hsz' := hsz htif
        have hw : t.write (prBytes w lr ofs).1.length = .ok
            (u32le 0 ++ u32le st.back ++ u32le (st.pos + 12 + prLenOf L ((lr.drop ofs).take L.maxPayload)),
             { t with tifNext := st.pos + 12 + prLenOf L ((lr.drop ofs).take L.maxPayload),
                      tifBack := st.pos, previousDiff := prLenOf L ((lr.drop ofs).take L.maxPayload) + 12 }) := by
          unfold TifW.write
          simp only [hblen, ht2, ht3, ht4]
          have hlt : ¬ (st.pos + (prLenOf L ((lr.drop ofs).take L.maxPayload) + 12) ≥ 4294967296 ∨ st.back ≥ 4294967296) := by
            omega
          rw [if_neg hlt]
          have e1 : st.pos + (prLenOf L ((lr.drop ofs).take L.maxPayload) + 12)
              = st.pos + 12 + prLenOf L ((lr.drop ofs).take L.maxPayload) := by omega
          have e2 : st.back + t.previousDiff = st.pos := by rw [← ht4]; exact ht5
          simp only [e1, e2]
        rw [hw]
        simp only []
        rw [hinv.mp]
        have hinv1 : WInv L (st.next L ((lr.drop ofs).take L.maxPayload))
            { out := w.out ++ (u32le 0 ++ u32le st.back ++ u32le (st.pos + 12 + prLenOf L ((lr.drop ofs).take L.maxPayload)))
                        ++ (prBytes w lr ofs).1,
              tif := some { t with tifNext := st.pos + 12 + prLenOf L ((lr.drop ofs).take L.maxPayload),
                                   tifBack := st.pos,
                                   previousDiff := prLenOf L ((lr.drop ofs).take L.maxPayload) + 12 },
              prLen := w.prLen, prt := (prBytes w lr ofs).2, maxPayloadLen := L.maxPayload } := by
          refine ⟨rfl, ?_, ?_, ?_, ?_, ?_, ?_, ?_, ?_, ?_⟩
          · simp only [hb2]; exact r2
          · simp only [hb2]; exact r3
          · simp only [hb2]; exact r4
          · simp only [hb2]; exact r5
          · simp only [hb2]; exact r6
          · simp only [List.length_append, hblen, hinv.len, hnp, u32le, List.length_cons, List.length_nil]
          · simp only [ES.next]; omega
          · intro h; exact absurd h hne'
          · intro _
            refine ⟨_, rfl, ht2, ?_, rfl, ?_⟩
            · simp only [hnp]
            · simp only [hnp]; omega
        obtain ⟨w', e1, e2, e3⟩ := ih _ _ lr _ hinv1 hb hfuel hsz
        refine ⟨w', e1, ?_, e3⟩
        rw [e2, hofs1]
        simp only [encPR, tifMarker, htif, List.append_assoc, hb1]
    · -- nothing left
      have h0 : lr.drop ofs = [] := List.drop_eq_nil_of_le (by omega)
      rw [h0, chunks_nil]
      refine ⟨w, ?_, by simp [encChunks], by simpa [stAfterChunks] using hinv⟩
      simp [writeLoop, hofs]


/-! ### positions -/

theorem stAfterChunks_pos (L : Layout) : ∀ (cs : List Bytes) (st : ES),
    (stAfterChunks L st cs).pos = st.pos + (cs.map (fun c => L.tifLen + prLenOf L c)).sum := by
  intro cs
  induction cs with
  | nil => intro st; simp [stAfterChunks]
  | cons c cs ih =>
    intro st
    simp only [stAfterChunks, List.map_cons, List.sum_cons]
    rw [ih, next_pos]; omega

theorem stAfterRec_pos (L : Layout) (st : ES) (r : Bytes) : (stAfterRec L st r).pos = st.pos + recSize L r := by
  unfold stAfterRec recSize; exact stAfterChunks_pos L _ st

theorem stAfterRecs_pos (L : Layout) : ∀ (rs : List Bytes) (st : ES),
    (stAfterRecs L st rs).pos = st.pos + (rs.map (recSize L)).sum := by
  intro rs
  induction rs with
  | nil => intro st; simp [stAfterRecs]
  | cons r rs ih =>
    intro st
    simp only [stAfterRecs, List.map_cons, List.sum_cons]
    rw [ih, stAfterRec_pos]; omega

/-- start positions of the records when the first starts at `p` -/
def tellsFrom (L : Layout) : Nat → List Bytes → List Nat
  | _, [] => []
  | p, r :: rs => p :: tellsFrom L (p + recSize L r) rs

theorem tellsFrom_length (L : Layout) : ∀ (rs : List Bytes) (p : Nat), (tellsFrom L p rs).length = rs.length := by
  intro rs; induction rs with
  | nil => intro p; rfl
  | cons r rs ih => intro p; simp [tellsFrom, ih]

theorem tellsFrom_get (L : Layout) : ∀ (rs : List Bytes) (p i : Nat), i < rs.length →
    (tellsFrom L p rs)[i]? = some (p + tellOf L rs i) := by
  intro rs; induction rs with
  | nil => intro p i h; simp at h
  | cons r rs ih =>
    intro p i h
    cases i with
    | zero => simp [tellsFrom, tellOf]
    | succ j =>
      simp only [tellsFrom, List.getElem?_cons_succ]
      rw [ih _ j (by simpa using h)]
      simp [tellOf, List.take_succ_cons]; omega

theorem tellsFrom_eq (L : Layout) (rs : List Bytes) :
    tellsFrom L 0 rs = (List.range rs.length).map (tellOf L rs) := by
  apply List.ext_getElem?
  intro i
  by_cases h : i < rs.length
  · rw [tellsFrom_get L rs 0 i h]; simp [h]
  · rw [List.getElem?_eq_none (by rw [tellsFrom_length]; omega), List.getElem?_eq_none (by simp; omega)]

/-! ### all records, close -/

theorem writeLr_spec (L : Layout) (hL : L.Valid) (hbe : L.tif ≠ .be) (w : Wr) (st : ES) (lr : Bytes)
    (hinv : WInv L st w) (hb : BytesOK lr) (hsz : L.tif = .le → (stAfterRec L st lr).pos < 4294967296) :
    ∃ w', w.writeLr lr = .ok (st.pos, w') ∧ w'.out = w.out ++ encRec L st lr ∧ WInv L (stAfterRec L st lr) w' := by
  have := writeLoop_spec L hL hbe (lr.length + 1) w st lr 0 hinv hb (by omega)
    (by simpa [stAfterRec] using hsz)
  obtain ⟨w', e1, e2, e3⟩ := this
  refine ⟨w', ?_, by simpa [encRec] using e2, by simpa [stAfterRec] using e3⟩
  unfold Wr.writeLr; rw [e1, hinv.len]; rfl

theorem stAfterRecs_pos_ge (L : Layout) (rs : List Bytes) (st : ES) : st.pos ≤ (stAfterRecs L st rs).pos := by
  rw [stAfterRecs_pos]; omega

theorem writeAll_spec (L : Layout) (hL : L.Valid) (hbe : L.tif ≠ .be) : ∀ (rs : List Bytes) (w : Wr) (st : ES),
    WInv L st w → (∀ r ∈ rs, BytesOK r) → (L.tif = .le → (stAfterRecs L st rs).pos < 4294967296) →
    ∃ w', writeAll w rs = .ok (tellsFrom L st.pos rs, w') ∧ w'.out = w.out ++ encRecs L st rs
      ∧ WInv L (stAfterRecs L st rs) w' := by
  intro rs
  induction rs with
  | nil => intro w st hinv _ _; exact ⟨w, rfl, by simp [encRecs], by simpa [stAfterRecs] using hinv⟩
  | cons r rs ih =>
    intro w st hinv hb hsz
    simp only [stAfterRecs] at hsz
    have hge := stAfterRecs_pos_ge L rs (stAfterRec L st r)
    obtain ⟨w1, e1, e2, e3⟩ := writeLr_spec L hL hbe w st r hinv (hb r (by simp)) (fun h => by have := hsz h; omega)
    obtain ⟨w2, f1, f2, f3⟩ := ih w1 _ e3 (fun x hx => hb x (by simp [hx])) hsz
    refine ⟨w2, ?_, ?_, by simpa [stAfterRecs] using f3⟩
    · simp only [writeAll, e1, f1, tellsFrom, stAfterRec_pos]
    · rw [f2, e2]; simp [encRecs]

theorem new_spec (L : Layout) (hL : L.Valid) :
    ∃ w, Wr.new (L.tif != .off) L.prMax (Prt.mk' L.hasRec L.fileNum L.hasChk) = .ok w ∧ w.out = []
      ∧ (L.tif ≠ .be → WInv L ES.init w) := by
  have hfn : (Prt.mk' L.hasRec L.fileNum L.hasChk).fileNum = L.fileNum.map (fun n => n % 65536) := by
    unfold Prt.mk'
    cases L.fileNum with
    | none => rfl
    | some n =>
      simp only [Option.map_some]
      by_cases h : n < 0 ∨ n > 65535
      · simp only [if_pos h, normalise_eq]
      · simp only [if_neg h]; congr 1; omega
  have hpl : (Prt.mk' L.hasRec L.fileNum L.hasChk).prtLen = L.prtLen := by
    unfold Prt.prtLen Layout.prtLen
    rw [hfn]
    cases L.fileNum <;> simp [Prt.mk'] <;> rfl
  have h1 := hL.1
  have h2 := hL.2
  unfold Wr.new
  simp only [hpl]
  have c1 : ¬ (L.prMax > 65535) := by omega
  have c2 : ¬ ((L.prMax : Int) - 4 - (L.prtLen : Int) < 1) := by omega
  rw [if_neg c1, if_neg c2]
  refine ⟨_, rfl, rfl, ?_⟩
  intro hbe
  refine ⟨?_, rfl, rfl, hfn, by simp [Prt.mk'], by intro _; simp [Prt.mk', ES.init], rfl, Nat.le_refl _, ?_, ?_⟩
  · simp only [Layout.maxPayload]; omega
  · intro h; simp [h]
  · intro h
    have : (L.tif != .off) = true := by cases ht : L.tif <;> simp_all
    simp only [this, if_true]
    exact ⟨_, rfl, rfl, rfl, rfl, rfl⟩


theorem close_spec (L : Layout) (hbe : L.tif ≠ .be) (w : Wr) (st : ES) (hinv : WInv L st w)
    (hsz : L.tif = .le → st.pos + 24 < 4294967296) :
    w.close = .ok (w.out ++ eofMarkers L st) := by
  unfold Wr.close eofMarkers
  cases htif : L.tif with
  | be => exact absurd htif hbe
  | off => rw [hinv.tifOff htif]; simp [tifMarker]
  | le =>
    have hne' : L.tif ≠ .off := by rw [htif]; intro h; cases h
    obtain ⟨t, ht1, ht2, ht3, ht4, ht5⟩ := hinv.tifOn hne'
    have hb := hinv.back
    have hs := hsz htif
    rw [ht1]
    simp only [TifW.write, ht3, ht4]
    have c1 : ¬ (st.pos + (0 + 12) ≥ 4294967296 ∨ st.back ≥ 4294967296) := by omega
    rw [if_neg c1]
    simp only []
    have e2 : st.back + t.previousDiff = st.pos := by rw [← ht4]; exact ht5
    have c2 : ¬ (st.pos + (0 + 12) + (0 + 12) ≥ 4294967296 ∨ st.back + t.previousDiff ≥ 4294967296) := by omega
    rw [if_neg c2]
    simp only [tifMarker, e2, List.append_assoc]

theorem writeFile_spec (L : Layout) (rs : List Bytes) (hL : L.Valid) (hbe : L.tif ≠ .be)
    (hb : ∀ r ∈ rs, BytesOK r) (hsz : L.tif = .le → fileSize L rs < 4294967296) :
    writeFile (L.tif != .off) L.prMax L.hasRec L.fileNum L.hasChk rs
      = .ok (encode L rs, (List.range rs.length).map (tellOf L rs)) := by
  obtain ⟨w0, e0, o0, i0⟩ := new_spec L hL
  have hpos : (stAfterRecs L ES.init rs).pos = tellOf L rs rs.length := by
    rw [stAfterRecs_pos]; simp [tellOf, ES.init]
  have hbound : L.tif = .le → (stAfterRecs L ES.init rs).pos + 24 < 4294967296 := by
    intro h; have := hsz h; unfold fileSize at this; rw [h] at this; rw [hpos]; simpa using this
  obtain ⟨w1, e1, o1, i1⟩ := writeAll_spec L hL hbe rs w0 ES.init (i0 hbe) hb (fun h => by have := hbound h; omega)
  have e2 := close_spec L hbe w1 _ i1 hbound
  unfold writeFile
  rw [e0]; simp only []
  rw [e1]; simp only []
  rw [e2]; simp only []
  rw [o1, o0, ← tellsFrom_eq]
  simp [encode, ES.init]

theorem writeFileOpen_spec (L : Layout) (rs : List Bytes) (hL : L.Valid) (hbe : L.tif ≠ .be)
    (hb : ∀ r ∈ rs, BytesOK r) (hsz : L.tif = .le → fileSize L rs < 4294967296) :
    writeFileOpen (L.tif != .off) L.prMax L.hasRec L.fileNum L.hasChk rs
      = .ok (encodeN L rs 0, (List.range rs.length).map (tellOf L rs)) := by
  obtain ⟨w0, e0, o0, i0⟩ := new_spec L hL
  have hpos : (stAfterRecs L ES.init rs).pos = tellOf L rs rs.length := by
    rw [stAfterRecs_pos]; simp [tellOf, ES.init]
  have hbound : L.tif = .le → (stAfterRecs L ES.init rs).pos + 24 < 4294967296 := by
    intro h; have := hsz h; unfold fileSize at this; rw [h] at this; rw [hpos]; simpa using this
  obtain ⟨w1, e1, o1, _⟩ := writeAll_spec L hL hbe rs w0 ES.init (i0 hbe) hb (fun h => by have := hbound h; omega)
  unfold writeFileOpen
  rw [e0]; simp only []
  rw [e1]; simp only []
  rw [o1, o0, ← tellsFrom_eq]
  simp [encodeN, eofMarkersN, ES.init]

end TD.C05
