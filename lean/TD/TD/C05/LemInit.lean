import TD.C05.LemSim
/-! C05: the reader's constructor on an encoded file (TIF detection). -/
namespace TD.C05

variable {cfg : Cfg} [Pad0 cfg]

/-- `next` word of the first TIF marker of a file -/
def firstNext (L : Layout) : List Bytes → Nat
  | [] => 0
  | r :: _ => 12 + prLenOf L (r.take L.maxPayload)

theorem tifInit_fields (f : Bytes) : (Tif.init f).previousTell = some 0 ∧ (Tif.init f).tifType = 0
    ∧ (Tif.init f).tifBack = 0 ∧ (Tif.init f).tifNext = 0 := by
  unfold Tif.init
  simp only []
  split
  · exact ⟨rfl, rfl, rfl, rfl⟩
  · split
    · exact ⟨rfl, rfl, rfl, rfl⟩
    · split <;> exact ⟨rfl, rfl, rfl, rfl⟩

theorem unpack3_head (a b : Nat) (t : Bytes) (ty bk nx : Nat)
    (h : unpack3 false (a :: b :: t) = some (ty, bk, nx)) (h0 : ty = 0) : a = 0 ∧ b = 0 := by
  unfold unpack3 at h
  split at h
  · rename_i heq
    simp only [List.cons.injEq] at heq
    obtain ⟨ha, hb, _⟩ := heq
    simp only [Bool.false_eq_true, if_false, Option.some.injEq, Prod.mk.injEq, le32] at h
    subst ha hb
    omega
  · simp at h

/-- the encoding of a non-empty file starts with the first PR -/
theorem encode_cons (L : Layout) (hL : L.Valid) (r : Bytes) (rs : List Bytes) (hr : r ≠ []) :
    ∃ last R, encode L (r :: rs) = encPR L ES.init true last (r.take L.maxPayload) ++ R := by
  have hmp : 1 ≤ L.maxPayload := by have := hL.2; unfold Layout.maxPayload; omega
  unfold encode
  simp only [encRecs, encRec]
  rw [chunks_cons _ hmp r hr]
  simp only [encChunks, List.append_assoc]
  exact ⟨_, _, rfl⟩

theorem tifInit_mode (L : Layout) (hL : L.Valid) (rs : List Bytes) (hrne : ∀ r ∈ rs, r ≠ [])
    (hne : L.tif ≠ .off → rs ≠ [])
    (hbe : L.tif = .be → firstNext L rs ≠ 0x100 ∧ firstNext L rs ≠ 0x10000) :
    TifMode' L (Tif.init (encode L rs)) := by
  have hmp : 1 ≤ L.maxPayload := by have := hL.2; unfold Layout.maxPayload; omega
  cases rs with
  | nil =>
    have hoff : L.tif = .off := by
      by_cases h : L.tif = .off
      · exact h
      · exact absurd rfl (hne h)
    have : encode L [] = [] := by simp [encode, encRecs, eofMarkers, tifMarker, hoff]
    rw [this]
    unfold TifMode' Tif.init rdBytes
    simp [unpack3, hoff]
  | cons r rs' =>
    have hr : r ≠ [] := hrne r (by simp)
    obtain ⟨last, R, he⟩ := encode_cons L hL r rs' hr
    have hclen : (r.take L.maxPayload).length ≤ L.maxPayload := by simp [List.length_take]; omega
    have hcpos : 1 ≤ (r.take L.maxPayload).length := by
      have : 0 < r.length := List.length_pos_iff.mpr hr
      simp [List.length_take]; omega
    have hpl := prLenOf_lt L hL _ hclen
    rw [he]
    cases htif : L.tif with
    | off =>
      unfold TifMode' Tif.init
      simp only [encPR, tifMarker, htif, List.nil_append, prBody_split, u16be, List.cons_append, rdBytes, List.drop_zero]
      simp only [List.take_succ_cons]
      split
      · simp
      · rename_i ty bk nx heq
        split
        · simp
        · rename_i hcond
          exfalso; apply hcond
          intro ⟨h0, _⟩
          have := unpack3_head _ _ _ ty bk nx heq h0
          unfold prLenOf at this hpl
          omega
    | le =>
      have hfirst : rdBytes (encPR L ES.init true last (r.take L.maxPayload) ++ R) 0 12
          = u32le 0 ++ u32le 0 ++ u32le (0 + 12 + prLenOf L (r.take L.maxPayload)) := by
        simp [encPR, tifMarker, htif, rdBytes, u32le, ES.init]
      unfold TifMode' Tif.init
      simp only [hfirst, unpack3_le 0 0 (0 + 12 + prLenOf L (r.take L.maxPayload)) (by omega) (by omega) (by omega)]
      have : ¬ (0 + 12 + prLenOf L (r.take L.maxPayload) > 0xFFFF + 12) := by omega
      simp [this, htif]
    | be =>
      obtain ⟨hb1, hb2⟩ := hbe htif
      unfold firstNext at hb1 hb2
      simp only [] at hb1 hb2
      have hfirst : rdBytes (encPR L ES.init true last (r.take L.maxPayload) ++ R) 0 12
          = u32be 0 ++ u32be 0 ++ u32be (0 + 12 + prLenOf L (r.take L.maxPayload)) := by
        simp [encPR, tifMarker, htif, rdBytes, u32be, ES.init]
      unfold TifMode' Tif.init
      simp only [hfirst]
      simp only [u32be, List.cons_append, List.nil_append, unpack3, le32, Bool.false_eq_true, if_false]
      have hgt : (0 + 12 + prLenOf L (r.take L.maxPayload)) / 16777216 % 256
          + 256 * ((0 + 12 + prLenOf L (r.take L.maxPayload)) / 65536 % 256)
          + 65536 * ((0 + 12 + prLenOf L (r.take L.maxPayload)) / 256 % 256)
          + 16777216 * ((0 + 12 + prLenOf L (r.take L.maxPayload)) % 256) > 0xFFFF + 12 := by
        unfold prLenOf at hb1 hb2 hpl ⊢
        omega
      simp [hgt, htif]


theorem init_rel {L : Layout} {rs : List Bytes} (g : Good L rs) (hne : L.tif ≠ .off → rs ≠ [])
    (hbe : L.tif = .be → firstNext L rs ≠ 0x100 ∧ firstNext L rs ≠ 0x10000) :
    Rel L rs (encode L rs) AState.init (Rd.new (encode L rs)) := by
  have htm := tifInit_mode L g.valid rs g.rne hne hbe
  obtain ⟨t1, t2, t3, t4⟩ := tifInit_fields (encode L rs)
  refine ⟨rfl, htm, Nat.zero_le _, ?_⟩
  have h0 : stAt L rs 0 = ES.init := rfl
  have hd := drop_tell L rs 0
  have ht0 : tellOf L rs 0 = 0 := rfl
  rw [ht0] at hd
  refine ⟨rfl, hd, rfl, rfl, by simp [Rd.new, Rd.hasSuccessor, bitSet], Nat.le_refl _, htm, ?_, stAt_backLe L rs 0,
    fits_at g 0, fun r hr => g.rne r (List.mem_of_mem_drop hr)⟩
  intro _
  refine ⟨?_, ?_⟩
  · intro x hx
    have : (Rd.new (encode L rs)).tif = Tif.init (encode L rs) := rfl
    rw [this, t1] at hx
    simp only [Option.some.injEq] at hx
    rw [← hx]; rfl
  · intro hp
    have : (Rd.new (encode L rs)).tif = Tif.init (encode L rs) := rfl
    rw [this] at hp
    unfold Tif.hasPrevious at hp
    rw [t2, t3, t4] at hp
    simp at hp

/-- state of the abstract reader after a history -/
def absFinal (L : Layout) (rs : List Bytes) : AState → List Op → AState
  | a, [] => a
  | a, op :: ops => absFinal L rs (absStep L rs a op).1 ops

theorem absRun_append (L : Layout) (rs : List Bytes) : ∀ (o1 o2 : List Op) (a : AState),
    absRun L rs a (o1 ++ o2) = absRun L rs a o1 ++ absRun L rs (absFinal L rs a o1) o2 := by
  intro o1
  induction o1 with
  | nil => intro o2 a; rfl
  | cons op o1 ih => intro o2 a; simp only [List.cons_append, absRun, absFinal, ih]

theorem absRun_length (L : Layout) (rs : List Bytes) : ∀ (ops : List Op) (a : AState),
    (absRun L rs a ops).length = ops.length := by
  intro ops
  induction ops with
  | nil => intro a; rfl
  | cons op ops ih => intro a; simp [absRun, ih]

/-- whatever happened before: seek to record `i`, read it whole, ask for the position -/
theorem abs_seek_read (L : Layout) (rs : List Bytes) (a : AState) (i : Nat) (hi : i < rs.length)
    (hne : recAt rs i ≠ []) :
    absRun L rs a [.seek i, .read (-1), .tell]
      = [.pos (tellOf L rs i), .bytes (recAt rs i), .pos (tellOf L rs i)] := by
  have hlen : 0 < (recAt rs i).length := List.length_pos_iff.mpr hne
  have hnot : ¬ (0 ≥ (recAt rs i).length) := by omega
  simp [absRun, absStep, absRead, openRec, hi, hnot]

/-- what a history may contain: seeks go to the reported start position of a record (or to the end position) -/
def HistOK (rs : List Bytes) (ops : List Op) : Prop := ∀ op ∈ ops, ∀ i, op = .seek i → i ≤ rs.length

theorem histOK_opOK {rs : List Bytes} {ops : List Op} (h : HistOK rs ops) : ∀ op ∈ ops, OpOK rs op := by
  intro op hop
  cases op with
  | seek i => exact h _ hop i rfl
  | _ => trivial

end TD.C05
