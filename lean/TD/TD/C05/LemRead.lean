import TD.C05.LemStrip
/-! C05: primitive steps of the reader on an encoded file. -/
namespace TD.C05

/-- the reader was constructed with `pad_modulo = 0` (any `keepGoing`) -/
class Pad0 (cfg : Cfg) : Prop where
  h : cfg.padModulo = 0

instance : Pad0 Cfg.plain := ⟨rfl⟩
instance (kg nn : Bool) : Pad0 ⟨kg, 0, nn⟩ := ⟨rfl⟩

theorem consumePadding_pad0 (cfg : Cfg) [hp : Pad0 cfg] (f : Bytes) (pos : Nat) : consumePadding cfg f pos = pos := by
  unfold consumePadding; simp [hp.h]

variable {cfg : Cfg} [Pad0 cfg]

theorem rdBytes_of_drop {f d R : Bytes} {pos : Nat} (h : f.drop pos = d ++ R) : rdBytes f pos d.length = d := by
  unfold rdBytes; rw [h]; simp

theorem drop_add_of_drop {f d R : Bytes} {pos : Nat} (h : f.drop pos = d ++ R) : f.drop (pos + d.length) = R := by
  rw [← List.drop_drop, h]; simp

theorem readU16_ok {f R : Bytes} {pos n : Nat} (h : f.drop pos = u16be n ++ R) (hn : n < 65536) :
    readU16 f pos = (some n, pos + 2) := by
  unfold readU16
  have : rdBytes f pos 2 = u16be n := rdBytes_of_drop (d := u16be n) h
  rw [this]
  simp only [u16be]
  congr 2; omega

/-- accumulate bytes into the accumulator of `__readOrSkip` -/
def Acc.app : Acc → Bytes → Acc
  | .data b, d => .data (b ++ d)
  | .cnt n, d => .cnt (n + d.length)

theorem Acc.app_nil (a : Acc) : a.app [] = a := by cases a <;> simp [Acc.app]
theorem Acc.app_app (a : Acc) (x y : Bytes) : (a.app x).app y = a.app (x ++ y) := by
  cases a <;> simp [Acc.app, Nat.add_assoc]

theorem ldWithin_ok {f d R : Bytes} {s : Rd} (acc : Acc) (h : f.drop s.pos = d ++ R) :
    ldWithin f s acc d.length = .ok ({ s with ldIndex := s.ldIndex + d.length, ldTell := s.ldTell + d.length,
                                              pos := s.pos + d.length }, acc.app d) := by
  unfold ldWithin
  cases acc with
  | data b =>
    simp only [rdBytes_of_drop h, Acc.app]
    simp
  | cnt n => simp only [Acc.app]

/-! ### attribute bits of the spec encoding -/

theorem bitSet_attrOf (L : Layout) (first last : Bool) :
    bitSet (attrOf L first last) 0 = !last ∧ bitSet (attrOf L first last) 1 = !first
    ∧ bitSet (attrOf L first last) 9 = L.hasRec ∧ bitSet (attrOf L first last) 10 = L.fileNum.isSome
    ∧ bitSet (attrOf L first last) 12 = L.hasChk ∧ bitSet (attrOf L first last) 13 = false
    ∧ bitSet (attrOf L first last) 14 = false := by
  unfold attrOf
  generalize L.fileNum.isSome = fn
  generalize L.hasRec = r
  generalize L.hasChk = c
  cases r <;> cases fn <;> cases c <;> cases first <;> cases last <;> decide

theorem attrOf_lt (L : Layout) (first last : Bool) : attrOf L first last < 65536 := by
  unfold attrOf
  generalize L.fileNum.isSome = fn
  generalize L.hasRec = r
  generalize L.hasChk = c
  cases r <;> cases fn <;> cases c <;> cases first <;> cases last <;> decide

/-- the trailer of a PR (the bytes after the payload) -/
def trailerOf (L : Layout) (st : ES) (first last : Bool) (c : Bytes) : Bytes :=
  (if L.hasRec then u16be (st.recNo % 65536) else []) ++ fileNumBytes L
    ++ (if L.hasChk then u16be (checksumSpec (prCovered L st first last c)) else [])

theorem prBody_split (L : Layout) (st : ES) (first last : Bool) (c : Bytes) :
    prBody L st first last c = u16be (prLenOf L c) ++ (u16be (attrOf L first last) ++ (c ++ trailerOf L st first last c)) := by
  unfold prBody trailerOf
  conv => lhs; arg 1; unfold prCovered
  simp only [List.append_assoc]

theorem trailerOf_length (L : Layout) (st : ES) (first last : Bool) (c : Bytes) :
    (trailerOf L st first last c).length = L.prtLen := by
  unfold trailerOf Layout.prtLen
  simp only [List.length_append, fileNumBytes_length]
  cases L.hasRec <;> cases L.hasChk <;> cases L.fileNum.isSome <;> simp [u16be_length]


theorem readU16_avail {f : Bytes} {pos : Nat} (h : pos + 2 ≤ f.length) : ∃ v, readU16 f pos = (some v, pos + 2) := by
  unfold readU16 rdBytes
  have hl : ((f.drop pos).take 2).length = 2 := by simp [List.length_take, List.length_drop]; omega
  match hm : (f.drop pos).take 2 with
  | [a, b] => exact ⟨_, rfl⟩
  | [] => rw [hm] at hl; simp at hl
  | [_] => rw [hm] at hl; simp at hl
  | _ :: _ :: _ :: _ => rw [hm] at hl; simp at hl

theorem readTail_ok {f : Bytes} {s : Rd} (L : Layout) (first last : Bool)
    (hattr : s.prAttr = attrOf L first last) (hlen : L.prtLen ≤ f.length - s.pos) (heof : s.isEOF = false) :
    readTail cfg f s = .ok { s with mustReadHead := true, pos := s.pos + L.prtLen } := by
  obtain ⟨_, _, b9, b10, b12, b13, _⟩ := bitSet_attrOf L first last
  unfold readTail
  simp only [heof, Bool.false_eq_true, if_false, Rd.hasRecordNumber, Rd.hasFileNumber, Rd.hasChecksum, hattr,
    b9, b10, b12, b13, false_and, consumePadding_pad0]
  unfold Layout.prtLen at hlen ⊢
  cases hr : L.hasRec <;> cases hf : L.fileNum.isSome <;> cases hc : L.hasChk <;>
    simp only [hr, hf, hc, Bool.false_eq_true, if_false, if_true] at hlen ⊢
  all_goals (
    try (obtain ⟨v1, e1⟩ := readU16_avail (f := f) (pos := s.pos) (by omega); rw [e1]; try simp only [])
    try (obtain ⟨v2, e2⟩ := readU16_avail (f := f) (pos := s.pos + 2) (by omega); rw [e2]; try simp only [])
    try (obtain ⟨v3, e3⟩ := readU16_avail (f := f) (pos := s.pos + 2 + 2) (by omega); rw [e3]; try simp only []))
  all_goals (first | rfl | simp [Nat.add_assoc])


/-! ### TIF markers -/

theorem unpack3_be (a b c : Nat) (ha : a < 4294967296) (hb : b < 4294967296) (hc : c < 4294967296) :
    unpack3 true (u32be a ++ u32be b ++ u32be c) = some (a, b, c) := by
  simp only [u32be, List.cons_append, List.nil_append, unpack3, le32]
  simp only [if_true, Option.some.injEq, Prod.mk.injEq]
  refine ⟨?_, ?_, ?_⟩ <;> omega

/-- the reader's TIF object agrees with the layout about presence and byte order of the markers -/
def TifMode' (L : Layout) (t : Tif) : Prop :=
  t.hasTif = decide (L.tif ≠ .off) ∧ t.isReversed = decide (L.tif = .be)

/-- the reader's TIF object is consistent with arriving linearly (or after a seek) at the PR described by `st` -/
def TifLink (L : Layout) (t : Tif) (st : ES) : Prop :=
  L.tif ≠ .off → (∀ x, t.previousTell = some x → x = st.back) ∧ (t.hasPrevious = true → t.tifNext = st.pos)

theorem unpack3_marker (L : Layout) (t : Tif) (hm : TifMode' L t) (hon : L.tif ≠ .off) (a b c : Nat)
    (ha : a < 4294967296) (hb : b < 4294967296) (hc : c < 4294967296) :
    unpack3 t.isReversed (tifMarker L.tif a b c) = some (a, b, c) := by
  rw [hm.2]
  cases h : L.tif with
  | off => exact absurd h hon
  | le => simp only [tifMarker]; exact unpack3_le a b c ha hb hc
  | be => simp only [tifMarker]; exact unpack3_be a b c ha hb hc

theorem tifMarker_len12 (L : Layout) (hon : L.tif ≠ .off) (a b c : Nat) : (tifMarker L.tif a b c).length = 12 := by
  cases h : L.tif with
  | off => exact absurd h hon
  | le => rfl
  | be => rfl

theorem tifRead1_ok {f R : Bytes} (L : Layout) (t : Tif) (st : ES) (ty next : Nat)
    (hm : TifMode' L t) (hon : L.tif ≠ .off) (hl : TifLink L t st)
    (h : f.drop st.pos = tifMarker L.tif ty st.back next ++ R)
    (hty : ty < 4294967296) (hbk : st.back < 4294967296) (hnx : next < 4294967296) :
    tifRead1 cfg f t st.pos = .ok { t with tifType := ty, tifBack := st.back, tifNext := next, previousTell := some st.pos }
      (st.pos + 12) (some st.pos) := by
  obtain ⟨hl1, hl2⟩ := hl hon
  unfold tifRead1
  have hT : t.hasTif = true := by rw [hm.1]; simp [hon]
  simp only [hT, if_true]
  have c1 : ¬ (t.hasPrevious = true ∧ t.tifNext ≠ st.pos) := by
    intro ⟨h1, h2⟩; exact h2 (hl2 h1)
  rw [if_neg c1]
  have hb : rdBytes f st.pos 12 = tifMarker L.tif ty st.back next := by
    have := rdBytes_of_drop h
    rwa [tifMarker_len12 L hon] at this
  simp only [hb, unpack3_marker L t hm hon ty st.back next hty hbk hnx]
  rw [if_neg]
  intro ⟨h1, h2⟩
  apply h2
  cases hp : t.previousTell with
  | none => simp [Tif.hasPrevious, hp] at h1
  | some x => rw [hl1 x hp]

/-! ### PR header -/

theorem ld0 (n : Nat) : ¬ (((4 + n : Nat) : Int) - 4 < 0) ∧ (((4 + n : Nat) : Int) - 4).toNat = n := by omega
theorem ld2 (n : Nat) : ¬ (((4 + n + 2 : Nat) : Int) - 4 - 2 < 0) ∧ (((4 + n + 2 : Nat) : Int) - 4 - 2).toNat = n := by
  omega
theorem ld4 (n : Nat) : ¬ (((4 + n + 4 : Nat) : Int) - 4 - 2 - 2 < 0)
    ∧ (((4 + n + 4 : Nat) : Int) - 4 - 2 - 2).toNat = n := by omega
theorem ld6 (n : Nat) : ¬ (((4 + n + 6 : Nat) : Int) - 4 - 2 - 2 - 2 < 0)
    ∧ (((4 + n + 6 : Nat) : Int) - 4 - 2 - 2 - 2).toNat = n := by omega

theorem readHeadBody_ok {f R : Bytes} (L : Layout) (s : Rd) (st : ES) (first last : Bool) (c : Bytes)
    (h : f.drop s.pos = prBody L st first last c ++ R) (hlen : prLenOf L c < 65536) :
    readHeadBody cfg f s = .ok
      { s with prLen := prLenOf L c, pos := s.pos + 4, prAttr := attrOf L first last,
               startOfLr := if s.isLrStart then s.startPrPos else s.startOfLr,
               ldIndex := 0, ldLen := c.length, mustReadHead := false,
               isLrStart := if s.ldTell > 0 then false else s.isLrStart }
    ∧ f.drop (s.pos + 4) = c ++ trailerOf L st first last c ++ R := by
  obtain ⟨_, _, b9, b10, b12, b13, b14⟩ := bitSet_attrOf L first last
  rw [prBody_split] at h
  simp only [List.append_assoc] at h
  have e1 := readU16_ok h hlen
  have h2 := drop_add_of_drop h
  rw [u16be_length] at h2
  have e2 := readU16_ok h2 (attrOf_lt L first last)
  have h3 := drop_add_of_drop h2
  rw [u16be_length] at h3
  refine ⟨?_, by have e : s.pos + 4 = s.pos + 2 + 2 := by omega
                 rw [e, h3]; simp⟩
  have hpl : prLenOf L c = 4 + c.length + L.prtLen := rfl
  unfold Layout.prtLen at hpl
  unfold readHeadBody
  cases hls : s.isLrStart <;> by_cases htl : s.ldTell > 0 <;>
    cases hr : L.hasRec <;> cases hf : L.fileNum.isSome <;> cases hc : L.hasChk <;>
    simp only [hr, hf, hc, Bool.false_eq_true, if_false, if_true, Nat.add_zero, Nat.zero_add, Nat.reduceAdd] at hpl b9 b10 b12 <;>
    simp only [e1, e2, b14, Bool.false_eq_true, if_false, if_true, Rd.hasRecordNumber, Rd.hasFileNumber,
      Rd.hasChecksum, b9, b10, b12, b13, hls, htl, hpl, false_and] <;>
    simp only [(ld0 c.length).1, (ld0 c.length).2, (ld2 c.length).1, (ld2 c.length).2, (ld4 c.length).1,
      (ld4 c.length).2, (ld6 c.length).1, (ld6 c.length).2, if_false] <;> rfl


theorem tifRead_pr {f R : Bytes} (L : Layout) (t : Tif) (st : ES) (c : Bytes)
    (hm : TifMode' L t) (hl : TifLink L t st)
    (h : f.drop st.pos = tifMarker L.tif 0 st.back (st.pos + 12 + prLenOf L c) ++ R)
    (hbk : st.back < 4294967296) (hnx : st.pos + 12 + prLenOf L c < 4294967296) :
    ∃ t' r, tifRead cfg f t st.pos = .ok t' (st.pos + L.tifLen) r ∧ r.getD st.pos = st.pos
      ∧ TifMode' L t' ∧ TifLink L t' (st.next L c) := by
  by_cases hon : L.tif = .off
  · refine ⟨t, none, ?_, rfl, hm, fun h => absurd hon h⟩
    unfold tifRead
    have : t.hasTif = false := by rw [hm.1]; simp [hon]
    simp [this, Layout.tifLen, hon]
  · have h1 := tifRead1_ok (cfg := cfg) L t st 0 (st.pos + 12 + prLenOf L c) hm hon hl h (by omega) hbk hnx
    have hT : t.hasTif = true := by rw [hm.1]; simp [hon]
    have htl : L.tifLen = 12 := by unfold Layout.tifLen; cases hh : L.tif <;> simp_all
    refine ⟨{ t with tifType := 0, tifBack := st.back, tifNext := st.pos + 12 + prLenOf L c,
                     previousTell := some st.pos }, some st.pos, ?_, rfl, ⟨hm.1, hm.2⟩, ?_⟩
    · unfold tifRead
      rw [if_pos hT, h1, htl]
      simp only [Nat.zero_ne_one, if_false]
    · intro _
      refine ⟨?_, ?_⟩
      · intro x hx; simp only [Option.some.injEq] at hx; rw [← hx]; rfl
      · intro _; rw [next_pos, htl]


structure HeadPost (L : Layout) (f : Bytes) (s s' : Rd) (st : ES) (first last : Bool) (c R : Bytes) : Prop where
  pos : s'.pos = s.pos + L.tifLen + 4
  drop : f.drop s'.pos = c ++ trailerOf L st first last c ++ R
  attr : s'.prAttr = attrOf L first last
  ldLen : s'.ldLen = c.length
  ldIndex : s'.ldIndex = 0
  mrh : s'.mustReadHead = false
  eof : s'.isEOF = s.isEOF
  sol : s'.startOfLr = if s.hasSuccessor then s.startOfLr else s.pos
  tm : TifMode' L s'.tif
  tl : TifLink L s'.tif (st.next L c)

theorem readHead_ok {f R : Bytes} (L : Layout) (s : Rd) (st : ES) (first last : Bool) (c : Bytes)
    (hm : TifMode' L s.tif) (hl : TifLink L s.tif st) (hpos : s.pos = st.pos)
    (h : f.drop s.pos = encPR L st first last c ++ R)
    (hlen : prLenOf L c < 65536) (hbk : st.back < 4294967296) (hnx : st.pos + 12 + prLenOf L c < 4294967296) :
    ∃ s', readHead cfg f s = .ok s' ∧ HeadPost L f s s' st first last c R := by
  unfold encPR at h
  rw [List.append_assoc, hpos] at h
  obtain ⟨t', r, e1, e2, e3, e4⟩ := tifRead_pr (cfg := cfg) L s.tif st c hm hl h hbk hnx
  have h2 := drop_add_of_drop h
  rw [tifMarker_length] at h2
  unfold readHead
  cases hs : s.hasSuccessor
  · simp only [Bool.false_eq_true, not_false_eq_true, if_true, hpos, e1]
    have := readHeadBody_ok (cfg := cfg) (f := f) (R := R) L
      { s with ldTell := 0, isLrStart := true, startPrPos := r.getD st.pos, tif := t', pos := st.pos + L.tifLen }
      st first last c h2 hlen
    obtain ⟨e5, e6⟩ := this
    refine ⟨_, e5, ?_⟩
    exact ⟨by simp [hpos], by simpa [Nat.add_assoc] using e6, rfl, rfl, rfl, rfl, rfl, by simp [e2, hpos, hs], e3, e4⟩
  · simp only [not_true_eq_false, if_false, hpos, e1]
    have := readHeadBody_ok (cfg := cfg) (f := f) (R := R) L
      { s with isLrStart := false, startPrPos := r.getD st.pos, tif := t', pos := st.pos + L.tifLen }
      st first last c h2 hlen
    obtain ⟨e5, e6⟩ := this
    refine ⟨_, e5, ?_⟩
    exact ⟨by simp [hpos], by simpa [Nat.add_assoc] using e6, rfl, rfl, rfl, rfl, rfl, by simp [hs], e3, e4⟩


/-! ### end of file -/

theorem readHeadBody_eof {f : Bytes} (s : Rd) (h : f.drop s.pos = []) :
    readHeadBody cfg f s = .ok { s with isEOF := true } := by
  unfold readHeadBody readU16 rdBytes
  rw [h]
  simp

structure EofPost (L : Layout) (f : Bytes) (s s' : Rd) : Prop where
  eof : s'.isEOF = true
  sol : s'.startOfLr = s.startOfLr
  tm : TifMode' L s'.tif
  ldLen : s'.ldLen = s.ldLen
  ldIndex : s'.ldIndex = s.ldIndex
  attr : s'.prAttr = s.prAttr
  atEnd : f.drop s'.pos = []
  tn : L.tif ≠ .off → s'.tif.tifNext = s'.pos

theorem readHead_eof {f : Bytes} (L : Layout) (s : Rd) (st : ES)
    (hm : TifMode' L s.tif) (hl : TifLink L s.tif st) (hpos : s.pos = st.pos)
    (h : f.drop s.pos = eofMarkers L st) (hbk : st.back < 4294967296) (hnx : st.pos + 24 < 4294967296) :
    ∃ s', readHead cfg f s = .ok s' ∧ EofPost L f s s' := by
  by_cases hon : L.tif = .off
  · have hT : s.tif.hasTif = false := by rw [hm.1]; simp [hon]
    have h0 : f.drop s.pos = [] := by rw [h]; simp [eofMarkers, tifMarker, hon]
    have e1 : ∀ p, tifRead cfg f s.tif p = .ok s.tif p none := by
      intro p; unfold tifRead; simp [hT]
    unfold readHead
    cases hs : s.hasSuccessor
    · simp only [Bool.false_eq_true, not_false_eq_true, if_true, e1]
      rw [readHeadBody_eof _ (by simpa using h0)]
      exact ⟨_, rfl, rfl, rfl, hm, rfl, rfl, rfl, h0, fun hh => absurd hon hh⟩
    · simp only [not_true_eq_false, if_false, e1]
      rw [readHeadBody_eof _ (by simpa using h0)]
      exact ⟨_, rfl, rfl, rfl, hm, rfl, rfl, rfl, h0, fun hh => absurd hon hh⟩
  · have hT : s.tif.hasTif = true := by rw [hm.1]; simp [hon]
    rw [hpos] at h
    unfold eofMarkers at h
    have h1 := tifRead1_ok (cfg := cfg) L s.tif st 1 (st.pos + 12) hm hon hl h (by omega) hbk (by omega)
    have h2 := drop_add_of_drop h
    rw [tifMarker_len12 L hon] at h2
    -- the duplicate marker
    have hm1 : TifMode' L { s.tif with tifType := 1, tifBack := st.back, tifNext := st.pos + 12,
                                       previousTell := some st.pos } := ⟨hm.1, hm.2⟩
    have hl1 : TifLink L { s.tif with tifType := 1, tifBack := st.back, tifNext := st.pos + 12,
                                      previousTell := some st.pos } ⟨st.pos + 12, st.pos, 0⟩ := by
      intro _
      exact ⟨by intro x hx; simp only [Option.some.injEq] at hx; exact hx.symm, by intro _; rfl⟩
    have h2' : f.drop (⟨st.pos + 12, st.pos, 0⟩ : ES).pos
        = tifMarker L.tif 1 (⟨st.pos + 12, st.pos, 0⟩ : ES).back (st.pos + 24) ++ [] := by
      simpa using h2
    have h3 := tifRead1_ok (cfg := cfg) L _ ⟨st.pos + 12, st.pos, 0⟩ 1 (st.pos + 24) hm1 hon hl1 h2' (by omega)
      (by simp only []; omega) (by omega)
    have h4 := drop_add_of_drop h2'
    rw [tifMarker_len12 L hon] at h4
    simp only [] at h3 h4
    have e1 : ∃ t2, tifRead cfg f s.tif st.pos = .ok t2 (st.pos + 12 + 12) (some st.pos) ∧ TifMode' L t2
        ∧ t2.tifNext = st.pos + 12 + 12 := by
      have e : tifRead cfg f s.tif st.pos = .ok (⟨s.tif.hasTif, s.tif.isReversed, 1, st.pos, st.pos + 24, some (st.pos + 12)⟩ : Tif)
          (st.pos + 12 + 12) (some st.pos) := by
        unfold tifRead
        rw [if_pos hT, h1]
        simp only [if_true]
        rw [h3]
      exact ⟨_, e, ⟨hm.1, hm.2⟩, rfl⟩
    obtain ⟨t2, e1, e2, e2n⟩ := e1
    unfold readHead
    cases hs : s.hasSuccessor
    · simp only [Bool.false_eq_true, not_false_eq_true, if_true, hpos, e1]
      rw [readHeadBody_eof _ (by simpa using h4)]
      exact ⟨_, rfl, rfl, rfl, e2, rfl, rfl, rfl, h4, fun _ => e2n⟩
    · simp only [not_true_eq_false, if_false, hpos, e1]
      rw [readHeadBody_eof _ (by simpa using h4)]
      exact ⟨_, rfl, rfl, rfl, e2, rfl, rfl, rfl, h4, fun _ => e2n⟩


/-- `_readHead` once more when the stream already stands at the end of the file -/
theorem readHead_atEnd {f : Bytes} (L : Layout) (s : Rd) (hm : TifMode' L s.tif) (h : f.drop s.pos = [])
    (htn : L.tif ≠ .off → s.tif.tifNext = s.pos) :
    ∃ s', readHead cfg f s = .ok s' ∧ s'.isEOF = true ∧ s'.startOfLr = s.startOfLr ∧ TifMode' L s'.tif
      ∧ f.drop s'.pos = [] ∧ (L.tif ≠ .off → s'.tif.tifNext = s'.pos) := by
  by_cases hon : L.tif = .off
  · have hT : s.tif.hasTif = false := by rw [hm.1]; simp [hon]
    have e1 : ∀ p, tifRead cfg f s.tif p = .ok s.tif p none := by
      intro p; unfold tifRead; simp [hT]
    unfold readHead
    cases hs : s.hasSuccessor
    · simp only [Bool.false_eq_true, not_false_eq_true, if_true, e1]
      rw [readHeadBody_eof _ (by simpa using h)]
      exact ⟨_, rfl, rfl, rfl, hm, h, fun hh => absurd hon hh⟩
    · simp only [not_true_eq_false, if_false, e1]
      rw [readHeadBody_eof _ (by simpa using h)]
      exact ⟨_, rfl, rfl, rfl, hm, h, fun hh => absurd hon hh⟩
  · have hT : s.tif.hasTif = true := by rw [hm.1]; simp [hon]
    have e1 : tifRead cfg f s.tif s.pos = .rawEof s.tif s.pos := by
      unfold tifRead tifRead1
      simp only [hT, if_true]
      have c1 : ¬ (s.tif.hasPrevious = true ∧ s.tif.tifNext ≠ s.pos) := fun ⟨_, h2⟩ => h2 (htn hon)
      rw [if_neg c1]
      simp only []
      unfold rdBytes
      rw [h]
      simp [unpack3]
    unfold readHead
    cases hs : s.hasSuccessor
    · simp only [Bool.false_eq_true, not_false_eq_true, if_true, e1]
      exact ⟨_, rfl, rfl, rfl, hm, h, htn⟩
    · simp only [not_true_eq_false, if_false, e1]
      exact ⟨_, rfl, rfl, rfl, hm, h, htn⟩

end TD.C05
