import TD.C05.LemInit
/-! C05: the padding-settings heuristic of File.py on a file written without padding. -/
namespace TD.C05

variable {cfg : Cfg} [Pad0 cfg]

/-! ### tie order of `ret_padding_options_with_max_records` / `best_physical_record_pad_settings` -/

theorem foldl_max_le (t : List ((Nat × Bool) × Nat)) : ∀ (a : Nat), (∀ x ∈ t, x.2 ≤ a) →
    t.foldl (fun a x => max a x.2) a = a := by
  induction t with
  | nil => intro a _; rfl
  | cons x t ih =>
    intro a h
    have hx := h x (by simp)
    simp only [List.foldl_cons, Nat.max_eq_left hx]
    exact ih a (fun y hy => h y (List.mem_cons_of_mem _ hy))

/-- the first option wins every tie: if no option counts more records than the first and the first counts at least
one, the first is returned -/
theorem best_first (o : Nat × Bool) (c : Nat) (t : List ((Nat × Bool) × Nat)) (hc : 0 < c) (h : ∀ x ∈ t, x.2 ≤ c) :
    pickBest ((o, c) :: t) = some o := by
  have hmx : ((o, c) :: t).foldl (fun a x => max a x.2) 0 = c := by
    simp only [List.foldl_cons, Nat.zero_max]
    exact foldl_max_le t c h
  unfold pickBest retMax
  simp only [hmx, List.filter_cons, decide_true, if_true, List.map_cons]
  simp [List.lookup, hc]

/-! ### the scan never counts more than `pr_limit` -/

theorem scanFile_le_limit (c : Cfg) (f : Bytes) (limit : Nat) (hl : 0 < limit) : scanFile c f limit ≤ limit := by
  unfold scanFile
  split
  · rename_i n h
    -- the bound does not use the `pad_modulo = 0` hypothesis: redo the induction for an arbitrary configuration
    have : ∀ (fuel : Nat) (s : Rd) (cnt n : Nat), cnt < limit → genPrLoop c f fuel s cnt limit = .ok n → n ≤ limit := by
      intro fuel
      induction fuel with
      | zero => intro s cnt n _ h; simp [genPrLoop] at h
      | succ k ih =>
        intro s cnt n hc h
        unfold genPrLoop at h
        split at h
        · simp only [Except.ok.injEq] at h; omega
        · split at h
          · simp at h
          · split at h
            · simp only [Except.ok.injEq] at h; omega
            · split at h
              · simp at h
              · split at h
                · simp only [Except.ok.injEq] at h; omega
                · exact ih _ _ _ (by omega) h
    exact this _ _ 0 n hl h
  · exact Nat.zero_le _


/-! ### the scan of an unpadded encoded file with `pad_modulo = 0` counts its physical records -/

/-- number of physical records still to come when the reader is inside chunk `z.c` -/
def Z.rem (L : Layout) (z : Z) : Nat := 1 + z.cs.length + numPRs L z.rrs

/-- the body of a `genPr` iteration from the start of a chunk: the whole payload is skipped, the trailer read -/
theorem genPrBody_ok {L : Layout} (hL : L.Valid) {f : Bytes} {z : Z} {s : Rd} (h : CInside L f z s) (hj : z.j = 0)
    (hc : 0 < z.c.length) :
    ∃ s1, genPrBody cfg f s = .ok s1 ∧ s1.isEOF = false
      ∧ (z.cs = [] → CStart L f (z.st2 L) z.rrs s1)
      ∧ (∀ c2 cs2, z.cs = c2 :: cs2 → ∃ s2, readHead cfg f s1 = .ok s2
            ∧ CInside L f ⟨z.stR, z.pre ++ [z.c], c2, cs2, 0, z.rrs⟩ s2
            ∧ Z.st2 L ⟨z.stR, z.pre ++ [z.c], c2, cs2, 0, z.rrs⟩ = z.st2 L) := by
  obtain ⟨e1, h1⟩ := advanceZ h (.cnt 0) z.c.length (by omega)
  have hld : s.hasLd = true := by
    unfold Rd.hasLd; rw [h.ldLen, h.ldIndex, hj]; simp [hc]
  have hskip : skipLrBytes cfg f s (s.ldLen : Int)
      = .ok ({ s with ldIndex := s.ldIndex + z.c.length, ldTell := s.ldTell + z.c.length, pos := s.pos + z.c.length },
             z.c.length) := by
    unfold skipLrBytes preamble
    simp only [h.eof, Bool.false_eq_true, if_false, h.mrh, hld, not_true_eq_false]
    unfold readOrSkip
    have hnn : ¬ ((s.ldLen : Int) < 0) := by omega
    simp only [h.eof, Bool.false_eq_true, if_false, hnn, Int.toNat_natCast]
    unfold sizedLoop
    rw [h.ldLen, h.ldIndex, hj]
    simp only [hc, if_true, Nat.sub_zero, Nat.le_refl, e1]
    have : ((z.c.drop z.j).take z.c.length).length = z.c.length := by
      rw [hj, List.drop_zero, List.take_length]
    simp [Acc.app, this, h.ldLen, h.eof, h.ldIndex, hj, h.mrh]
  have hj1 : ({ z with j := z.j + z.c.length } : Z).j = ({ z with j := z.j + z.c.length } : Z).c.length := by
    simp only [hj, Nat.zero_add]
  cases hcs : z.cs with
  | nil =>
    obtain ⟨s1, e2, h2, _⟩ := finishRec (cfg := cfg) (z := { z with j := z.j + z.c.length }) h1 hj1 hcs
    refine ⟨s1, ?_, h2.eof, fun _ => h2, fun c2 cs2 hh => by simp at hh⟩
    unfold genPrBody; rw [hskip]; exact e2
  | cons c2 cs2 =>
    obtain ⟨s1, s2, e2, _, e4, h3, _, e6, heof1⟩ := nextChunk (cfg := cfg) hL (z := { z with j := z.j + z.c.length }) h1 hj1 c2 cs2 hcs
    refine ⟨s1, ?_, heof1, fun hh => by simp at hh, ?_⟩
    · unfold genPrBody; rw [hskip]; exact e2
    · intro c2' cs2' hh
      simp only [List.cons.injEq] at hh
      obtain ⟨ha, hb⟩ := hh
      subst ha hb
      exact ⟨s2, e4, h3, e6⟩


theorem numPRs_cons (L : Layout) (r : Bytes) (rs : List Bytes) :
    numPRs L (r :: rs) = (chunks L.maxPayload r).length + numPRs L rs := by
  simp [numPRs]

/-- the reader stands where the next `_readHead` of the scan loop happens, with `n` physical records still to come -/
def AtHead (cfg : Cfg) (L : Layout) (f : Bytes) (n : Nat) (s : Rd) : Prop :=
  (∃ st rrs, CStart L f st rrs s ∧ numPRs L rrs = n) ∨
  (∃ z s2, n = z.rem L ∧ 0 < z.c.length ∧ z.j = 0 ∧ s.isEOF = false ∧ readHead cfg f s = .ok s2 ∧ CInside L f z s2)

theorem headEof {L : Layout} {f : Bytes} {st : ES} {s : Rd} (h : CStart L f st [] s) :
    ∃ s', readHead cfg f s = .ok s' ∧ s'.isEOF = true := by
  have hd := h.drop
  unfold tailStart at hd
  simp only [encRecs, stAfterRecs, List.nil_append] at hd
  have hf := h.fits
  unfold Fits at hf
  simp only [stAfterRecs] at hf
  have hb := h.bl
  unfold ES.BackLe at hb
  obtain ⟨s', e1, hp⟩ := readHead_eof (cfg := cfg) (f := f) L s st h.tm h.tl h.pos hd (by omega) hf
  exact ⟨s', e1, hp.eof⟩

theorem genPrLoop_ok {L : Layout} (hL : L.Valid) {f : Bytes} (limit : Nat) : ∀ (n fuel : Nat) (s : Rd) (cnt : Nat),
    AtHead cfg L f n s → n < fuel → (limit = 0 ∨ cnt < limit) →
    genPrLoop cfg f fuel s cnt limit = .ok (if limit = 0 then cnt + n else min limit (cnt + n)) := by
  have hmp : 1 ≤ L.maxPayload := by have := hL.2; unfold Layout.maxPayload; omega
  intro n
  induction n with
  | zero =>
    intro fuel s cnt hat hf hl
    cases fuel with
    | zero => omega
    | succ k =>
      rcases hat with ⟨st, rrs, hst, hn⟩ | ⟨z, s2, hn, _⟩
      · cases rrs with
        | cons r t =>
          have hr := hst.rne r (by simp)
          have : chunks L.maxPayload r ≠ [] := fun h0 => hr ((chunks_eq_nil _ hmp r).mp h0)
          have : 0 < (chunks L.maxPayload r).length := List.length_pos_iff.mpr this
          rw [numPRs_cons] at hn; omega
        | nil =>
          obtain ⟨s', e1, e2⟩ := headEof (cfg := cfg) hst
          unfold genPrLoop
          simp only [hst.eof, Bool.false_eq_true, if_false, e1, e2, if_true, Nat.add_zero]
          rcases hl with h0 | h0
          · simp [h0]
          · have : limit ≠ 0 := by omega
            simp only [this, if_false]; congr 1; omega
      · unfold Z.rem at hn; omega
  | succ n ih =>
    intro fuel s cnt hat hf hl
    cases fuel with
    | zero => omega
    | succ k =>
      -- both forms give: not EOF, the header can be read, and we are at the start of a non-empty chunk
      have key : s.isEOF = false ∧ ∃ z s2, n + 1 = z.rem L ∧ 0 < z.c.length ∧ z.j = 0
          ∧ readHead cfg f s = .ok s2 ∧ CInside L f z s2 := by
        rcases hat with ⟨st, rrs, hst, hn⟩ | ⟨z, s2, hn, hc, hj, he, e1, hin⟩
        · cases rrs with
          | nil => simp [numPRs] at hn
          | cons r t =>
            obtain ⟨c, cs, s2, hch, e1, hin, _⟩ := openRecC (cfg := cfg) hL hst
            have hcne := (chunks_all L.maxPayload hmp _ _ (Nat.le_refl _) c (by rw [hch]; simp)).1
            refine ⟨hst.eof, ⟨st, [], c, cs, 0, t⟩, s2, ?_, List.length_pos_iff.mpr hcne, rfl, e1, hin⟩
            rw [← hn, numPRs_cons, hch]; simp [Z.rem]; omega
        · exact ⟨he, z, s2, hn, hc, hj, e1, hin⟩
      obtain ⟨he, z, s2, hn, hc, hj, e1, hin⟩ := key
      obtain ⟨s1, e2, he1, hA, hB⟩ := genPrBody_ok (cfg := cfg) hL hin hj hc
      have hat1 : AtHead cfg L f n s1 := by
        cases hcs : z.cs with
        | nil =>
          left
          refine ⟨_, _, hA hcs, ?_⟩
          unfold Z.rem at hn; rw [hcs] at hn; simp at hn; omega
        | cons c2 cs2 =>
          right
          obtain ⟨s3, e3, h3, _⟩ := hB c2 cs2 hcs
          refine ⟨_, s3, ?_, List.length_pos_iff.mpr (hin.csz c2 (by rw [hcs]; simp)).1, rfl, he1, e3, h3⟩
          unfold Z.rem at hn ⊢; rw [hcs] at hn; simp at hn ⊢; omega
      unfold genPrLoop
      simp only [he, Bool.false_eq_true, if_false, e1, hin.eof, e2]
      by_cases hstop : limit ≠ 0 ∧ cnt + 1 ≥ limit
      · rw [if_pos hstop]
        have : limit ≠ 0 := hstop.1
        simp only [this, if_false]
        congr 1
        rcases hl with h0 | h0
        · exact absurd h0 this
        · omega
      · rw [if_neg hstop]
        rw [ih k s1 (cnt + 1) hat1 (by omega) (by
          rcases hl with h0 | h0
          · exact Or.inl h0
          · by_cases hz : limit = 0
            · exact Or.inl hz
            · right; have := hstop; omega)]
        by_cases hz : limit = 0
        · simp [hz]; omega
        · simp only [hz, if_false]; congr 2; omega


theorem sum_ge_length (L : Layout) : ∀ (cs : List Bytes), cs.length ≤ (cs.map (fun c => L.tifLen + prLenOf L c)).sum := by
  intro cs; induction cs with
  | nil => exact Nat.le_refl _
  | cons c cs ih =>
    simp only [List.map_cons, List.sum_cons, List.length_cons]
    have : 1 ≤ L.tifLen + prLenOf L c := by unfold prLenOf; omega
    omega

theorem numPRs_le_size (L : Layout) : ∀ (rs : List Bytes), numPRs L rs ≤ (rs.map (recSize L)).sum := by
  intro rs; induction rs with
  | nil => exact Nat.le_refl _
  | cons r rs ih =>
    rw [numPRs_cons]
    simp only [List.map_cons, List.sum_cons]
    have h2 : (chunks L.maxPayload r).length ≤ recSize L r := sum_ge_length L (chunks L.maxPayload r)
    omega

/-- the scan with `pad_modulo = 0` of a file written without padding counts its physical records (up to `pr_limit`) -/
theorem scan_unpadded {L : Layout} {rs : List Bytes} (g : Good L rs) (hne : L.tif ≠ .off → rs ≠ [])
    (hbe : L.tif = .be → firstNext L rs ≠ 0x100 ∧ firstNext L rs ≠ 0x10000) (limit : Nat) :
    scanFile cfg (encode L rs) limit = if limit = 0 then numPRs L rs else min limit (numPRs L rs) := by
  have hrel := seek_sim g (init_rel g hne hbe) 0 (Nat.zero_le _)
  have ht0 : tellOf L rs 0 = 0 := rfl
  rw [ht0] at hrel
  obtain ⟨_, _, _, hst⟩ := hrel
  have hat : AtHead cfg L (encode L rs) (numPRs L rs) (seekLr (Rd.new (encode L rs)) 0).1 :=
    Or.inl ⟨_, _, hst, by simp⟩
  have hfuel : numPRs L rs < (encode L rs).length + 1 := by
    rw [encode_length]; unfold fileSize tellOf
    have := numPRs_le_size L rs
    simp only [List.take_length]; omega
  unfold scanFile
  rw [genPrLoop_ok (cfg := cfg) g.valid limit _ _ _ 0 hat hfuel (by omega)]
  simp

/-- **choice of the padding settings for an unpadded file**: if no padding option makes the scan count more physical
records than the file has within the limit, `best_physical_record_pad_settings` returns `(0, False)` — because the
options are tried in the order (0,F) (0,T) (2,F) (2,T) (4,F) (4,T) and the FIRST of the best ones is taken -/
theorem bestPad_unpadded_of_le {L : Layout} {rs : List Bytes} (g : Good L rs) (hne : L.tif ≠ .off → rs ≠ [])
    (hbe : L.tif = .be → firstNext L rs ≠ 0x100 ∧ firstNext L rs ≠ 0x10000) (limit : Nat) (hrs : rs ≠ [])
    (hle : ∀ o ∈ padOptions, scanFile ⟨true, o.1, o.2⟩ (encode L rs) limit
        ≤ (if limit = 0 then numPRs L rs else min limit (numPRs L rs))) :
    bestPad (encode L rs) limit = some (0, false) := by
  have hmp : 1 ≤ L.maxPayload := by have := g.valid.2; unfold Layout.maxPayload; omega
  have h0 : scanFile ⟨true, 0, false⟩ (encode L rs) limit = if limit = 0 then numPRs L rs else min limit (numPRs L rs) :=
    scan_unpadded (cfg := ⟨true, 0, false⟩) g hne hbe limit
  have hpos : 0 < numPRs L rs := by
    obtain ⟨r, t, hrt⟩ := List.exists_cons_of_ne_nil hrs
    subst hrt
    have hr := g.rne r (by simp)
    have : chunks L.maxPayload r ≠ [] := fun h0 => hr ((chunks_eq_nil _ hmp r).mp h0)
    have : 0 < (chunks L.maxPayload r).length := List.length_pos_iff.mpr this
    rw [numPRs_cons]; omega
  have hc : 0 < (if limit = 0 then numPRs L rs else min limit (numPRs L rs)) := by
    split <;> omega
  have hall : scanAll true (encode L rs) limit
      = ((0, false), scanFile ⟨true, 0, false⟩ (encode L rs) limit)
        :: (([(0, true), (2, false), (2, true), (4, false), (4, true)] : List (Nat × Bool)).map
              (fun o => (o, scanFile ⟨true, o.1, o.2⟩ (encode L rs) limit))) := rfl
  unfold bestPad
  rw [hall, h0]
  apply best_first (0, false) _ _ hc
  intro x hx
  obtain ⟨o, ho, hxo⟩ := List.mem_map.mp hx
  rw [← hxo]
  exact hle o (by
    simp only [List.mem_cons, List.mem_nil_iff, or_false] at ho
    rcases ho with h | h | h | h | h <;> (rw [h]; simp [padOptions]))

/-- with `0 < pr_limit ≤ number of physical records` no hypothesis about the other options is needed: none of them
can count more than `pr_limit` -/
theorem bestPad_unpadded_limit {L : Layout} {rs : List Bytes} (g : Good L rs) (hne : L.tif ≠ .off → rs ≠ [])
    (hbe : L.tif = .be → firstNext L rs ≠ 0x100 ∧ firstNext L rs ≠ 0x10000) (limit : Nat)
    (hl : 0 < limit) (hn : limit ≤ numPRs L rs) :
    bestPad (encode L rs) limit = some (0, false) := by
  have hrs : rs ≠ [] := by intro h; subst h; simp [numPRs] at hn; omega
  apply bestPad_unpadded_of_le g hne hbe limit hrs
  intro o _
  have : ¬ (limit = 0) := by omega
  simp only [this, if_false, Nat.min_eq_left hn]
  exact scanFile_le_limit _ _ _ hl

end TD.C05
