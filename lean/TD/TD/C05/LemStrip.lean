import TD.C05.LemWriter
/-! C05: `strip_tif` of a TIF-marked encoding is the unmarked encoding. -/
namespace TD.C05

theorem unpack3_le (a b c : Nat) (ha : a < 4294967296) (hb : b < 4294967296) (hc : c < 4294967296) :
    unpack3 false (u32le a ++ u32le b ++ u32le c) = some (a, b, c) := by
  simp only [u32le, List.cons_append, List.nil_append, unpack3, le32]
  simp only [Bool.false_eq_true, if_false, Option.some.injEq, Prod.mk.injEq]
  refine ⟨?_, ?_, ?_⟩ <;> omega

/-- a chain of TIF blocks: marker (type, previous position, next position) then the body -/
def tifChain : Nat → Nat → List (Nat × Bytes) → Bytes
  | _, _, [] => []
  | pos, back, (ty, b) :: r =>
    u32le ty ++ u32le back ++ u32le (pos + 12 + b.length) ++ b ++ tifChain (pos + 12 + b.length) pos r

def chainEnd : Nat → List (Nat × Bytes) → Nat
  | pos, [] => pos
  | pos, (_, b) :: r => chainEnd (pos + 12 + b.length) r

theorem chainEnd_ge : ∀ (bl : List (Nat × Bytes)) (pos : Nat), pos ≤ chainEnd pos bl := by
  intro bl; induction bl with
  | nil => intro pos; exact Nat.le_refl _
  | cons x r ih => intro pos; obtain ⟨ty, b⟩ := x; have := ih (pos + 12 + b.length); simp only [chainEnd]; omega

theorem tifChain_length : ∀ (bl : List (Nat × Bytes)) (pos back : Nat),
    pos + (tifChain pos back bl).length = chainEnd pos bl := by
  intro bl; induction bl with
  | nil => intro pos back; simp [tifChain, chainEnd]
  | cons x r ih =>
    intro pos back; obtain ⟨ty, b⟩ := x
    have := ih (pos + 12 + b.length) pos
    simp only [tifChain, chainEnd, List.length_append, u32le, List.length_cons, List.length_nil]
    omega

theorem chain_blocks_le : ∀ (bl : List (Nat × Bytes)) (pos : Nat), pos + 12 * bl.length ≤ chainEnd pos bl := by
  intro bl; induction bl with
  | nil => intro pos; simp [chainEnd]
  | cons x r ih =>
    intro pos; obtain ⟨ty, b⟩ := x
    have := ih (pos + 12 + b.length); simp only [chainEnd, List.length_cons]; omega

/-- the loop of `strip_tif`, positioned just after the marker of a block whose body and successors follow -/
theorem stripLoop_chain (f : Bytes) : ∀ (rest : List (Nat × Bytes)) (fuel p : Nat) (b out : Bytes) (n wr : Nat),
    f.drop (p + 12) = b ++ tifChain (p + 12 + b.length) p rest →
    rest.length < fuel →
    (∀ x ∈ rest, x.1 < 4294967296) →
    chainEnd (p + 12 + b.length) rest < 4294967296 →
    stripLoop f fuel (p + 12) p (p + 12 + b.length) out n wr
      = .ok (out ++ b ++ (rest.map (·.2)).flatten, n + rest.length, wr + b.length + ((rest.map (·.2.length)).sum)) := by
  intro rest
  induction rest with
  | nil =>
    intro fuel p b out n wr hf hfu _ _
    cases fuel with
    | zero => simp at hfu
    | succ k =>
      simp only [tifChain, List.append_nil] at hf
      unfold stripLoop
      have e1 : ((p + 12 + b.length : Nat) : Int) - (p : Int) - 12 = (b.length : Int) := by omega
      simp only [e1]
      have c1 : ¬ ((b.length : Int) < 0) := by omega
      simp only [c1, if_false, Int.toNat_natCast]
      have e2 : rdBytes f (p + 12) b.length = b := by
        unfold rdBytes; rw [hf]; simp
      rw [e2]
      have e3 : readTifs f (p + 12 + b.length) = none := by
        unfold readTifs rdBytes
        have : f.drop (p + 12 + b.length) = [] := by
          rw [← List.drop_drop, hf]; simp
        rw [this]; rfl
      simp only [e3]
      simp
  | cons x r ih =>
    intro fuel p b out n wr hf hfu hty hend
    obtain ⟨ty, b'⟩ := x
    cases fuel with
    | zero => simp at hfu
    | succ k =>
      simp only [tifChain] at hf
      simp only [chainEnd] at hend
      have hge := chainEnd_ge r (p + 12 + b.length + 12 + b'.length)
      unfold stripLoop
      have e1 : ((p + 12 + b.length : Nat) : Int) - (p : Int) - 12 = (b.length : Int) := by omega
      simp only [e1]
      have c1 : ¬ ((b.length : Int) < 0) := by omega
      simp only [c1, if_false, Int.toNat_natCast]
      have e2 : rdBytes f (p + 12) b.length = b := by
        unfold rdBytes; rw [hf]; simp
      rw [e2]
      have hd : f.drop (p + 12 + b.length) = u32le ty ++ u32le p ++ u32le (p + 12 + b.length + 12 + b'.length) ++ b'
          ++ tifChain (p + 12 + b.length + 12 + b'.length) (p + 12 + b.length) r := by
        rw [← List.drop_drop, hf]; simp
      have e3 : readTifs f (p + 12 + b.length) = some (ty, p, p + 12 + b.length + 12 + b'.length) := by
        unfold readTifs rdBytes
        rw [hd]
        have : (u32le ty ++ u32le p ++ u32le (p + 12 + b.length + 12 + b'.length) ++ b'
          ++ tifChain (p + 12 + b.length + 12 + b'.length) (p + 12 + b.length) r).take 12
            = u32le ty ++ u32le p ++ u32le (p + 12 + b.length + 12 + b'.length) := by
          simp [u32le]
        rw [this]
        exact unpack3_le _ _ _ (hty (ty, b') (by simp)) (by omega) (by omega)
      simp only [e3]
      have hf' : f.drop (p + 12 + b.length + 12) = b' ++ tifChain (p + 12 + b.length + 12 + b'.length) (p + 12 + b.length) r := by
        rw [← List.drop_drop, hd]; simp [u32le]
      have := ih k (p + 12 + b.length) b' (out ++ b) (n + 1) (wr + b.length) hf'
        (by simpa using hfu) (fun x hx => hty x (by simp [hx])) hend
      rw [this]
      simp only [List.map_cons, List.flatten_cons, List.sum_cons, List.length_cons, List.append_assoc]
      congr 1
      simp only [Prod.mk.injEq, true_and]
      constructor <;> omega


/-! ### the encoding as a chain of blocks -/

def Layout.noTif (L : Layout) : Layout := { L with tif := .off }

def chunkBlocks (L : Layout) : Nat → Bool → List Bytes → List (Nat × Bytes)
  | _, _, [] => []
  | n, first, c :: cs => (0, prBody L ⟨0, 0, n⟩ first cs.isEmpty c) :: chunkBlocks L (n + 1) false cs

def recBlocks (L : Layout) : Nat → List Bytes → List (Nat × Bytes)
  | _, [] => []
  | n, r :: rs => chunkBlocks L n true (chunks L.maxPayload r)
      ++ recBlocks L (n + (chunks L.maxPayload r).length) rs

theorem chunkBlocks_length (L : Layout) : ∀ (cs : List Bytes) (n : Nat) (f : Bool),
    (chunkBlocks L n f cs).length = cs.length := by
  intro cs; induction cs with
  | nil => intro n f; rfl
  | cons c cs ih => intro n f; simp [chunkBlocks, ih]

theorem stAfterChunks_recNo (L : Layout) : ∀ (cs : List Bytes) (st : ES),
    (stAfterChunks L st cs).recNo = st.recNo + cs.length := by
  intro cs; induction cs with
  | nil => intro st; rfl
  | cons c cs ih => intro st; simp only [stAfterChunks, ih, ES.next, List.length_cons]; omega

theorem encChunks_chain (L : Layout) (hle : L.tif = .le) : ∀ (cs : List Bytes) (st : ES) (first : Bool)
    (R : List (Nat × Bytes)),
    tifChain st.pos st.back (chunkBlocks L st.recNo first cs ++ R)
      = encChunks L st first cs
        ++ tifChain (stAfterChunks L st cs).pos (stAfterChunks L st cs).back R := by
  intro cs; induction cs with
  | nil => intro st first R; simp [chunkBlocks, encChunks, stAfterChunks]
  | cons c cs ih =>
    intro st first R
    simp only [chunkBlocks, List.cons_append, tifChain, encChunks, stAfterChunks]
    have hn : (st.next L c).recNo = st.recNo + 1 := rfl
    have hp : (st.next L c).pos = st.pos + 12 + (prBody L ⟨0, 0, st.recNo⟩ first cs.isEmpty c).length := by
      rw [prBody_length, next_pos]; simp [Layout.tifLen, hle]
    have hb : (st.next L c).back = st.pos := rfl
    rw [← hn, ← hp]
    have := ih (st.next L c) false R
    rw [hb] at this
    rw [this]
    simp only [encPR, tifMarker, hle, List.append_assoc]
    rw [hp, prBody_length]
    rfl

theorem encChunks_noTif (L : Layout) : ∀ (cs : List Bytes) (st : ES) (first : Bool),
    encChunks L.noTif st first cs = ((chunkBlocks L st.recNo first cs).map (·.2)).flatten := by
  intro cs; induction cs with
  | nil => intro st first; rfl
  | cons c cs ih =>
    intro st first
    simp only [chunkBlocks, encChunks, List.map_cons, List.flatten_cons]
    have := ih (st.next L.noTif c) false
    rw [this]
    rfl

theorem encRecs_chain (L : Layout) (hle : L.tif = .le) : ∀ (rs : List Bytes) (st : ES) (R : List (Nat × Bytes)),
    tifChain st.pos st.back (recBlocks L st.recNo rs ++ R)
      = encRecs L st rs ++ tifChain (stAfterRecs L st rs).pos (stAfterRecs L st rs).back R := by
  intro rs; induction rs with
  | nil => intro st R; simp [recBlocks, encRecs, stAfterRecs]
  | cons r rs ih =>
    intro st R
    simp only [recBlocks, encRecs, stAfterRecs, List.append_assoc]
    rw [encChunks_chain L hle]
    have hn : (stAfterRec L st r).recNo = st.recNo + (chunks L.maxPayload r).length := by
      unfold stAfterRec; rw [stAfterChunks_recNo]
    rw [← hn]
    have := ih (stAfterRec L st r) R
    unfold stAfterRec at this ⊢
    rw [this]
    simp [encRec]

theorem encRecs_noTif (L : Layout) : ∀ (rs : List Bytes) (st : ES),
    encRecs L.noTif st rs = ((recBlocks L st.recNo rs).map (·.2)).flatten := by
  intro rs; induction rs with
  | nil => intro st; rfl
  | cons r rs ih =>
    intro st
    simp only [recBlocks, encRecs, List.map_append, List.flatten_append]
    have hn : (stAfterRec L.noTif st r).recNo = st.recNo + (chunks L.maxPayload r).length := by
      unfold stAfterRec; rw [stAfterChunks_recNo]; rfl
    rw [ih, hn]
    congr 1
    exact encChunks_noTif L _ st true

theorem eof_chain (L : Layout) (hle : L.tif = .le) (st : ES) :
    eofMarkers L st = tifChain st.pos st.back [(1, []), (1, [])] := by
  simp [eofMarkers, tifMarker, hle, tifChain]

theorem encode_chain (L : Layout) (hle : L.tif = .le) (rs : List Bytes) :
    encode L rs = tifChain 0 0 (recBlocks L 0 rs ++ [(1, []), (1, [])]) := by
  have := encRecs_chain L hle rs ES.init [(1, []), (1, [])]
  simp only [ES.init] at this
  unfold encode
  rw [eof_chain L hle]
  exact this.symm


/-- number of physical records of a file -/
def numPRs (L : Layout) (rs : List Bytes) : Nat := (rs.map (fun r => (chunks L.maxPayload r).length)).sum

theorem recBlocks_length (L : Layout) : ∀ (rs : List Bytes) (n : Nat), (recBlocks L n rs).length = numPRs L rs := by
  intro rs; induction rs with
  | nil => intro n; rfl
  | cons r rs ih => intro n; simp [recBlocks, numPRs, chunkBlocks_length, ih]

theorem chunkBlocks_type (L : Layout) : ∀ (cs : List Bytes) (n : Nat) (f : Bool), ∀ x ∈ chunkBlocks L n f cs, x.1 = 0 := by
  intro cs; induction cs with
  | nil => intro n f x hx; simp [chunkBlocks] at hx
  | cons c cs ih =>
    intro n f x hx
    simp only [chunkBlocks, List.mem_cons] at hx
    rcases hx with h | h
    · rw [h]
    · exact ih _ _ x h

theorem recBlocks_type (L : Layout) : ∀ (rs : List Bytes) (n : Nat), ∀ x ∈ recBlocks L n rs, x.1 = 0 := by
  intro rs; induction rs with
  | nil => intro n x hx; simp [recBlocks] at hx
  | cons r rs ih =>
    intro n x hx
    simp only [recBlocks, List.mem_append] at hx
    rcases hx with h | h
    · exact chunkBlocks_type L _ _ _ x h
    · exact ih _ x h

theorem flatten_bodies_length (bl : List (Nat × Bytes)) :
    ((bl.map (·.2)).flatten).length = (bl.map (·.2.length)).sum := by
  induction bl with
  | nil => rfl
  | cons x r ih => simp [ih]

theorem encode_noTif (L : Layout) (rs : List Bytes) :
    encode L.noTif rs = ((recBlocks L 0 rs).map (·.2)).flatten := by
  unfold encode
  rw [encRecs_noTif]
  simp [eofMarkers, tifMarker, Layout.noTif, ES.init]

theorem stripTif_chain (bl : List (Nat × Bytes)) (b0 : Bytes) (rest : List (Nat × Bytes))
    (hbl : bl = (0, b0) :: rest) (hty : ∀ x ∈ rest, x.1 < 4294967296)
    (hsz : (tifChain 0 0 bl).length < 4294967296) :
    stripTif (tifChain 0 0 bl)
      = .ok (((bl.map (·.2)).flatten), bl.length, (bl.map (·.2.length)).sum) := by
  subst hbl
  have hlen := tifChain_length ((0, b0) :: rest) 0 0
  have hblk := chain_blocks_le ((0, b0) :: rest) 0
  simp only [chainEnd, Nat.zero_add, List.length_cons] at hlen hblk
  have hge := chainEnd_ge rest (12 + b0.length)
  have hf : (tifChain 0 0 ((0, b0) :: rest)).drop (0 + 12) = b0 ++ tifChain (0 + 12 + b0.length) 0 rest := by
    simp [tifChain, u32le]
  have hmain := stripLoop_chain (tifChain 0 0 ((0, b0) :: rest)) rest
    ((tifChain 0 0 ((0, b0) :: rest)).length + 1) 0 b0 [] 1 0 hf (by omega) hty
    (by simp only [Nat.zero_add]; omega)
  have e3 : readTifs (tifChain 0 0 ((0, b0) :: rest)) 0 = some (0, 0, 0 + 12 + b0.length) := by
    unfold readTifs rdBytes
    have : ((tifChain 0 0 ((0, b0) :: rest)).drop 0).take 12
        = u32le 0 ++ u32le 0 ++ u32le (0 + 12 + b0.length) := by
      simp [tifChain, u32le]
    rw [this]
    exact unpack3_le _ _ _ (by omega) (by omega) (by omega)
  unfold stripTif
  rw [e3]
  simp only [and_self, not_true_eq_false, if_false]
  rw [hmain]
  simp only [List.map_cons, List.flatten_cons, List.sum_cons, List.length_cons, List.nil_append]
  congr 1
  simp only [Prod.mk.injEq, true_and]
  constructor <;> omega

theorem encChunks_length (L : Layout) : ∀ (cs : List Bytes) (st : ES) (f : Bool),
    (encChunks L st f cs).length = (cs.map (fun c => L.tifLen + prLenOf L c)).sum := by
  intro cs; induction cs with
  | nil => intro st f; rfl
  | cons c cs ih => intro st f; simp [encChunks, encPR_length, ih]

theorem encRecs_length (L : Layout) : ∀ (rs : List Bytes) (st : ES),
    (encRecs L st rs).length = (rs.map (recSize L)).sum := by
  intro rs; induction rs with
  | nil => intro st; rfl
  | cons r rs ih => intro st; simp [encRecs, encRec, encChunks_length, ih, recSize]

theorem encode_length (L : Layout) (rs : List Bytes) : (encode L rs).length = fileSize L rs := by
  unfold encode fileSize
  rw [List.length_append, encRecs_length]
  simp only [tellOf, List.take_length]
  cases h : L.tif <;> simp [eofMarkers, tifMarker, h, u32le, u32be]

theorem eofN_chain (L : Layout) (hle : L.tif = .le) (st : ES) (k : Nat) (hk : k ≤ 2) :
    eofMarkersN L st k = tifChain st.pos st.back (List.replicate k (1, [])) := by
  have : k = 0 ∨ k = 1 ∨ k = 2 := by omega
  rcases this with h | h | h <;> subst h
  · rfl
  · simp [eofMarkersN, tifMarker, hle, tifChain]
  · exact eof_chain L hle st

theorem encodeN_chain (L : Layout) (hle : L.tif = .le) (rs : List Bytes) (k : Nat) (hk : k ≤ 2) :
    encodeN L rs k = tifChain 0 0 (recBlocks L 0 rs ++ List.replicate k (1, [])) := by
  have := encRecs_chain L hle rs ES.init (List.replicate k (1, []))
  simp only [ES.init] at this
  unfold encodeN
  rw [eofN_chain L hle _ k hk]
  exact this.symm

/-- stripping a TIF-marked file that ends with `k ≤ 2` end-of-file markers (0 = not yet closed) -/
theorem stripTif_encodeN (L : Layout) (hL : L.Valid) (hle : L.tif = .le) (rs : List Bytes) (k : Nat) (hk : k ≤ 2)
    (hne : rs ≠ []) (hr : ∀ r ∈ rs, r ≠ []) (hsz : (encodeN L rs k).length < 4294967296) :
    stripTif (encodeN L rs k) = .ok (encode L.noTif rs, numPRs L rs + k, (encode L.noTif rs).length) := by
  have hmp : 1 ≤ L.maxPayload := by
    have := hL.2; unfold Layout.maxPayload; omega
  have hlen : (tifChain 0 0 (recBlocks L 0 rs ++ List.replicate k (1, []))).length < 4294967296 := by
    rw [← encodeN_chain L hle rs k hk]; exact hsz
  rw [encodeN_chain L hle rs k hk]
  -- the first block exists
  obtain ⟨r, rs', hrs⟩ := List.exists_cons_of_ne_nil hne
  have hrne : r ≠ [] := hr r (by rw [hrs]; simp)
  have hcs : chunks L.maxPayload r ≠ [] := fun h => hrne ((chunks_eq_nil _ hmp r).mp h)
  obtain ⟨c, cs, hc⟩ := List.exists_cons_of_ne_nil hcs
  have hbl : ∃ b0 rest, recBlocks L 0 rs ++ List.replicate k (1, []) = (0, b0) :: rest
      ∧ (∀ x ∈ rest, x.1 < 4294967296) := by
    subst hrs
    have hX : recBlocks L 0 (r :: rs') ++ List.replicate k (1, [])
        = (0, prBody L ⟨0, 0, 0⟩ true cs.isEmpty c)
          :: (chunkBlocks L (0 + 1) false cs ++ (recBlocks L (0 + (c :: cs).length) rs' ++ List.replicate k (1, []))) := by
      simp only [recBlocks, hc, chunkBlocks, List.cons_append, List.append_assoc]
    refine ⟨_, _, hX, ?_⟩
    intro x hx
    have hall : ∀ y ∈ recBlocks L 0 (r :: rs') ++ List.replicate k (1, []), y.1 < 4294967296 := by
      intro y hy
      rcases List.mem_append.mp hy with h | h
      · rw [recBlocks_type L _ _ y h]; omega
      · rw [(List.mem_replicate.mp h).2]; decide
    apply hall
    rw [hX]
    exact List.mem_cons_of_mem _ hx
  obtain ⟨b0, rest, hbl, hty⟩ := hbl
  rw [stripTif_chain _ b0 rest hbl hty hlen]
  rw [encode_noTif]
  simp only [List.map_append, List.flatten_append, List.length_append, recBlocks_length, List.sum_append,
    List.length_replicate]
  simp
  rfl

theorem stripTif_encode (L : Layout) (hL : L.Valid) (hle : L.tif = .le) (rs : List Bytes)
    (hne : rs ≠ []) (hr : ∀ r ∈ rs, r ≠ []) (hsz : fileSize L rs < 4294967296) :
    stripTif (encode L rs) = .ok (encode L.noTif rs, numPRs L rs + 2, (encode L.noTif rs).length) := by
  have h2 : encode L rs = encodeN L rs 2 := rfl
  rw [h2]
  exact stripTif_encodeN L hL hle rs 2 (Nat.le_refl _) hne hr (by rw [← h2, encode_length]; exact hsz)

end TD.C05
