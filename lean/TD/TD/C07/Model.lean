/-
C07 — model of the representation-code decoders/encoders AS THEY ARE in /repo/src:

* `TotalDepth/LIS/core/pRepCode.py`            (from49 … from79, to68)                — `from49` … `to68`
* `TotalDepth/LIS/core/src/cython/cRepCode.pyx` (typed-argument overrides)              — `cArgOk`, `from68c`
* `TotalDepth/LIS/core/src/cpp/LISRepCode.cpp`  (`_from68`, `_to68`, via cpRepCode)      — `from68c` (same algorithm)
* `TotalDepth/LIS/core/RepCode.py`              (override order p < c < cp, readBytes)  — `readBytes`
* `TotalDepth/RP66V1/core/pRepCode.py`          (Appendix B codes on a `LogicalData`)   — `FSINGL` … `UNITS`, `*_len`
* `TotalDepth/BIT/ReadBIT.py::bytes_to_float`   (IBM float, same as ISINGL)             — `ibmBytes`

Core Lean only (no Mathlib): the driver `drv_c07` is compiled from this file.

Conventions.  A Python `int` is `Int`; an unsigned word is `Nat`; bytes are `List Nat` (each < 256).
A Python `float` that the code produces *exactly* is a dyadic `Dy = (m, e)` meaning `m·2^e` (NOT canonicalised in the
model; the driver canonicalises for printing, the theorems talk about the value).  `FV` adds `-0.0`, `±inf`, `nan`.
Python exceptions are `Except Err`.
-/
namespace TD.C07

/-- `m·2^e`, exact. -/
structure Dy where
  m : Int
  e : Int
  deriving Repr, DecidableEq

/-- What a float-returning decoder can return. -/
inductive FV where
  | fin (d : Dy)
  | negZero
  | inf (neg : Bool)
  | nan
  deriving Repr, DecidableEq

inductive Err where
  | indexError      -- LogicalData.read/chunk past the end
  | overflowError   -- Cython typed argument out of range
  | structError     -- struct.unpack on the wrong number of bytes (RepCode.readBytes: ExceptionRepCodeRead)
  | unknownRepCode  -- ExceptionRepCodeUnknown
  | noLength        -- ExceptionRepCodeNoLength
  | repCode         -- RP66V1 ExceptionRepCode (negative index in a *_len helper)
  deriving Repr, DecidableEq

/-! ## Python integer primitives (assumed behaviour of CPython's arbitrary-precision ints) -/

/-- Python `x & mask` for any int `x` and a non-negative `mask < 2^64`: two's complement with infinite sign
extension, so only the low 64 bits of `x` matter. -/
def pyAnd (x : Int) (mask : Nat) : Nat := (x % 18446744073709551616).toNat &&& mask

/-- Python `x >> k` (floor). -/
def pyShr (x : Int) (k : Nat) : Int := x >>> k

/-- Python `a | b` for `b ≥ 0`; for negative `a`: `~(~a & ~b)` and `~a & ~b = ~a - (~a & b)`. -/
def pyOr (a : Int) (b : Nat) : Int :=
  if 0 ≤ a then ((a.toNat ||| b : Nat) : Int)
  else
    let na := (-a - 1).toNat
    Int.negSucc (na - (na &&& b))

/-- number of bits of `n` (`int.bit_length`) -/
def bitLen (n : Nat) : Nat := if n = 0 then 0 else Nat.log2 n + 1

/-- `math.ldexp(m, e)` / C `ldexp` for an integer-valued `m`: exact when representable; the only inexact case that
the callers reach is total underflow (`|m·2^e| < 2^-1075`), which gives a signed zero. -/
def ldexp (m e : Int) : FV :=
  if m ≠ 0 ∧ e + (bitLen m.natAbs : Int) ≤ -1075 then (if m < 0 then .negZero else .fin ⟨0, 0⟩)
  else .fin ⟨m, e⟩

/-! ## LIS-79 representation codes — `pRepCode.py` -/

/-- `pRepCode.from49` -/
def from49 (w : Int) : FV :=
  let m : Int := pyAnd w 0xFFF0
  let m := if pyAnd w 0x8000 ≠ 0 then m - 0x10000 else m
  -- `m / (1.0 * (1<<15))` is exact, then `ldexp(_, w & 0xF)`
  ldexp m ((pyAnd w 0xF : Int) - 15)

/-- `pRepCode.from50` (and `cRepCode.from50`, same statements) -/
def from50 (w : Int) : FV :=
  let mant : Int := pyAnd w 0xFFFF
  let exp : Int := pyAnd (pyShr w 16) 0x03FF
  let exp := exp - 15
  let mant := if pyAnd w 0x8000 ≠ 0 then mant - 0x10000 else mant
  let exp := if pyAnd w 0x80000000 ≠ 0 then exp - 0x10000 else exp
  ldexp mant exp

/-- `pRepCode.from56` -/
def from56 (w : Int) : Int :=
  if pyAnd w 0x80 ≠ 0 then (pyAnd w 0xFF : Int) - 0x100 else pyAnd w 0xFF

/-- `pRepCode.from66` -/
def from66 (w : Int) : Int := pyAnd w 0xFF

/-- `pRepCode.from68` -/
def from68 (w : Int) : FV :=
  let mant : Int := pyAnd w 0x80000000
  let isNeg := mant ≠ 0
  let mant := if isNeg then mant * (-1) else mant
  let mant := pyShr mant 8
  let mant := pyOr mant (pyAnd w 0x007FFFFF)
  let exp : Int := pyAnd w 0x7F800000
  let exp := pyShr exp 23
  let exp := if isNeg then 104 - exp else exp - 151
  ldexp mant exp

/-- `cRepCode.from68` / `LISRepCode.cpp::_from68` (identical statements, 32-bit `int` arithmetic). -/
def from68c (w : Int) : FV :=
  let neg := pyAnd w 0x80000000 ≠ 0
  let mant : Int := if neg then -8388608 else 0
  let mant := pyOr mant (pyAnd w 0x007FFFFF)
  let exp : Int := pyAnd w 0x7F800000
  let exp := pyShr exp 23
  let exp := if neg then 104 - exp else exp - 151
  ldexp mant exp

/-- `int(x)` for `x = m·2^s`: truncation toward zero. -/
def truncShift (m : Int) (s : Int) : Int :=
  if 0 ≤ s then m * (2 ^ s.toNat : Nat) else Int.tdiv m ((2 ^ (-s).toNat : Nat) : Int)

/-- exponent returned by `math.frexp(m·2^e)` (`frexp(0) = (0.0, 0)`); the mantissa is `m·2^-bitLen|m|`. -/
def frexpExp (m e : Int) : Int := if m = 0 then 0 else e + (bitLen m.natAbs : Int)

/-- `pRepCode.to68` / `cRepCode.to68` / `LISRepCode.cpp::_to68` on the finite value `m·2^e`
(the three sources have the same statements; `mant /= 2**k` and `mant *= 1<<23` are exact on doubles). -/
def to68 (m e : Int) : Nat :=
  let n : Int := bitLen m.natAbs
  let exp := frexpExp m e
  if exp ≤ -(128 + 23) then 0x40000000
  else if exp > 127 then (if m < 0 then 0xFFC00000 else 0x7FFFFFFF)
  else
    -- mant = m·2^-n ; `if exp < -128: mant /= 2**(-128 - exp); exp = -128`
    let sh : Int := if exp < -128 then -128 - exp else 0
    let exp := if exp < -128 then -128 else exp
    let ex : Int := if m < 0 then 127 - exp else exp - 128
    let w : Nat := if m < 0 then 1 else 0
    let w := (w <<< 8) ||| pyAnd ex 0xFF
    let w := w <<< 23
    -- `mant *= 1<<23 ; m = int(mant) & 0x007FFFFF`
    let t := truncShift m (23 - n - sh)
    w ||| pyAnd t 0x007FFFFF

/-- `pRepCode.from70` : `(w>>16)&0xFFFF + (w&0xFFFF)/65536.0 [- 0x10000]` — all exact. Value `·2^-16`. -/
def from70 (w : Int) : FV :=
  let hi : Int := pyAnd (pyShr w 16) 0xFFFF
  let lo : Int := pyAnd w 0xFFFF
  let v := hi * 65536 + lo
  let v := if pyAnd w 0x80000000 ≠ 0 then v - 0x10000 * 65536 else v
  .fin ⟨v, -16⟩

/-- `pRepCode.from73` -/
def from73 (w : Int) : Int := w
/-- `pRepCode.from77` -/
def from77 (w : Int) : Int := pyAnd w 0xFF
/-- `pRepCode.from79` -/
def from79 (w : Int) : Int := w

/-- Cython typed arguments of `cRepCode.fromNN`: values outside raise `OverflowError`. -/
def cArgOk (rc : Nat) (w : Int) : Bool :=
  match rc with
  | 49 => -2147483648 ≤ w ∧ w ≤ 2147483647                      -- int
  | 50 => -9223372036854775808 ≤ w ∧ w ≤ 9223372036854775807    -- signed long long
  | 56 => -128 ≤ w ∧ w ≤ 127                                    -- signed char
  | 66 => 0 ≤ w ∧ w ≤ 255                                       -- unsigned char
  | 68 => -9223372036854775808 ≤ w ∧ w ≤ 9223372036854775807    -- signed long long
  | 70 => 0 ≤ w ∧ w ≤ 4294967295                                -- unsigned int
  | 73 => -2147483648 ≤ w ∧ w ≤ 2147483647                      -- signed int
  | 77 => 0 ≤ w ∧ w ≤ 255                                       -- unsigned char
  | 79 => -32768 ≤ w ∧ w ≤ 32767                                -- signed short
  | _ => false

inductive Val where
  | int (v : Int)
  | flt (v : FV)
  | bytes (b : List Nat)
  deriving Repr, DecidableEq

/-- `pRepCode.fromNN(w)` -/
def pFrom (rc : Nat) (w : Int) : Except Err Val :=
  match rc with
  | 49 => .ok (.flt (from49 w))
  | 50 => .ok (.flt (from50 w))
  | 56 => .ok (.int (from56 w))
  | 66 => .ok (.int (from66 w))
  | 68 => .ok (.flt (from68 w))
  | 70 => .ok (.flt (from70 w))
  | 73 => .ok (.int (from73 w))
  | 77 => .ok (.int (from77 w))
  | 79 => .ok (.int (from79 w))
  | _ => .error .unknownRepCode

/-- `cRepCode.fromNN(w)`: the typed argument conversion, then the same arithmetic (56/66/73/77/79 return the
converted argument itself, which for an in-range argument is what pRepCode computes). -/
def cFrom (rc : Nat) (w : Int) : Except Err Val :=
  if rc ∈ [49, 50, 56, 66, 68, 70, 73, 77, 79] then
    if cArgOk rc w then (if rc = 68 then .ok (.flt (from68c w)) else pFrom rc w) else .error .overflowError
  else .error .unknownRepCode

/-- `LIS.core.RepCode.fromNN` after `from pRepCode import *; from cRepCode import *; from cpRepCode import *`:
Cython wins for every code, C++ (cpRepCode) wins for 68. -/
def rcFrom (rc : Nat) (w : Int) : Except Err Val :=
  if rc = 68 then
    (if -9223372036854775808 ≤ w ∧ w ≤ 9223372036854775807 then .ok (.flt (from68c w)) else .error .overflowError)
  else cFrom rc w

/-- big-endian unsigned word -/
def beWord (bs : List Nat) : Nat := bs.foldl (fun a b => a * 256 + b) 0

/-- two's complement reading of an unsigned `bits`-bit word -/
def toSigned (bits : Nat) (u : Nat) : Int := if u < 2 ^ (bits - 1) then (u : Int) else (u : Int) - ((2 ^ bits : Nat) : Int)

/-- `RC_SIZE_MAP` -/
def lisSize (rc : Nat) : Option Nat :=
  match rc with
  | 49 => some 2 | 50 => some 4 | 56 => some 1 | 65 => some 0 | 66 => some 1 | 68 => some 4 | 70 => some 4
  | 73 => some 4 | 77 => some 1 | 79 => some 2 | 130 => some 80 | 234 => some 90
  | _ => none

/-- `STRUCT_RC_NN` signedness: 49 h, 50 i, 56 b, 66 B, 68 I, 70 I, 73 i, 77 B, 79 h
(70 is unsigned since the fix of `C07-readBytes70-negative`: `cRepCode.from70` takes an `unsigned int`). -/
def structSigned (rc : Nat) : Bool := rc ∈ [49, 50, 56, 73, 79]

/-- `LIS.core.RepCode.readBytes(rc, bytes)` for the numeric codes (`theLen=None`). -/
def readBytes (rc : Nat) (bs : List Nat) : Except Err Val :=
  if rc = 65 then .error .noLength
  else if rc = 130 ∨ rc = 234 then
    (match bs with | b :: _ => .ok (.int b) | [] => .error .indexError)
  else if rc ∈ [49, 50, 56, 66, 68, 70, 73, 77, 79] then
    match lisSize rc with
    | none => .error .unknownRepCode
    | some sz =>
      if bs.length ≠ sz then .error .structError
      else
        let u := beWord bs
        let w : Int := if structSigned rc then toSigned (8 * sz) u else u
        rcFrom rc w
  else .error .unknownRepCode

/-- `RepCode.writeBytes68(v)` = `struct.pack('>I', to68(v))` -/
def writeBytes68 (m e : Int) : List Nat :=
  let w := to68 m e
  [w / 16777216 % 256, w / 65536 % 256, w / 256 % 256, w % 256]

/-! ## RP66V1 Appendix B — `RP66V1/core/pRepCode.py` on a `LogicalData` (bytes + index) -/

/-- a reader: bytes, index ↦ value and new index -/
abbrev Rd (α : Type) := List Nat → Nat → Except Err (α × Nat)

/-- `LogicalData.read()` -/
def ldRead : Rd Nat := fun bs i =>
  match bs[i]? with
  | some b => .ok (b, i + 1)
  | none => .error .indexError

/-- `LogicalData.chunk(n)` (`remain` is `len - index` or 0) -/
def ldChunk (n : Nat) : Rd (List Nat) := fun bs i =>
  if n > bs.length - i then .error .indexError else .ok ((bs.drop i).take n, i + n)

/-- `struct.unpack('>f' / '>d')`: IEEE-754 binary interchange format with `eb` exponent and `fb` fraction bits. -/
def ieee (eb fb : Nat) (w : Nat) : FV :=
  let frac := w &&& (2 ^ fb - 1)
  let ex := (w >>> fb) &&& (2 ^ eb - 1)
  let neg := (w >>> (eb + fb)) &&& 1 = 1
  let bias : Int := ((2 ^ (eb - 1) - 1 : Nat) : Int)
  let sg : Int := if neg then -1 else 1
  if ex = 2 ^ eb - 1 then (if frac = 0 then .inf neg else .nan)
  else if ex = 0 then
    (if frac = 0 then (if neg then .negZero else .fin ⟨0, 0⟩) else .fin ⟨sg * frac, 1 - bias - fb⟩)
  else .fin ⟨sg * ((2 ^ fb + frac : Nat) : Int), (ex : Int) - bias - fb⟩

def FSINGL : Rd FV := fun bs i => do
  let (by_, j) ← ldChunk 4 bs i
  pure (ieee 8 23 (beWord by_), j)

def FDOUBL : Rd FV := fun bs i => do
  let (by_, j) ← ldChunk 8 bs i
  pure (ieee 11 52 (beWord by_), j)

/-- the arithmetic of `ISINGL` / `ReadBIT.bytes_to_float` on four bytes:
`m = mantissa / 0x1000000 ; ret = m * 16**(exp - 64) ; -ret if sign` (all exact on doubles) -/
def ibm4 (b0 b1 b2 b3 : Nat) : FV :=
  let sign := b0 &&& 0x80
  let exp := b0 &&& 0x7f
  let mantissa := (b1 <<< 16) ||| (b2 <<< 8) ||| b3
  let d : Dy := ⟨mantissa, 4 * ((exp : Int) - 64) - 24⟩
  if sign ≠ 0 then (if mantissa = 0 then .negZero else .fin ⟨-d.m, d.e⟩) else .fin d

def ISINGL : Rd FV := fun bs i => do
  let (by_, j) ← ldChunk 4 bs i
  match by_ with
  | [b0, b1, b2, b3] => pure (ibm4 b0 b1 b2 b3, j)
  | _ => .error .indexError

/-- `ReadBIT.bytes_to_float(b)`: needs at least 4 bytes (`ValueError` otherwise, reported as structError). -/
def ibmBytes (bs : List Nat) : Except Err FV :=
  match bs with
  | b0 :: b1 :: b2 :: b3 :: _ => .ok (ibm4 b0 b1 b2 b3)
  | _ => .error .structError

/-- `ReadBIT.float_to_bytes(f)` for the finite value `f = m·2^e` (the IBM / ISINGL encoder):
`m, e = frexp(f)`; the exponent is rounded up to a multiple of 4 (`m /= 2**power`, exact), the 24-bit fraction is
`int(0x1000000 * abs(m))` (truncation), the 7-bit excess-64 exponent is clamped to `0 … 0x7f` (the mantissa is not),
and a fresh `bytes` object of length 4 is returned. -/
def floatToBytes (m e : Int) : List Nat :=
  let n : Int := bitLen m.natAbs
  let ex := frexpExp m e
  let r := ex % 4
  let power : Int := if r ≠ 0 then 4 - r else 0
  let ex := ex + power
  let mantissa := (truncShift (m.natAbs : Int) (24 - n - power)).toNat
  let exponent : Int :=
    if mantissa ≠ 0 then
      let x := Int.fdiv ex 4 + 64
      let x := if x < 0 then 0 else x
      let x := if x > 0x7f then 0x7f else x
      if m < 0 then x + 128 else x      -- `exponent |= 0x80` on a value ≤ 0x7f
    else 0
  [exponent.toNat, (mantissa >>> 16) &&& 0xff, (mantissa >>> 8) &&& 0xff, mantissa &&& 0xff]

/-- `VSINGL` exactly as coded (see DESIGN F9: the fraction is divided by 2^23, not 2^24). -/
def vax4 (b0 b1 b2 b3 : Nat) : FV :=
  let s := b1 &&& 0x80
  let m := ((b0 &&& 0x7f) <<< 16) ||| (b3 <<< 8) ||| b2
  let e := ((b1 &&& 0x7f) <<< 1) ||| ((b0 &&& 0x80) >>> 7)
  if e = 0 ∧ s = 0 then .fin ⟨0, 0⟩
  else
    -- (0.5 + m/2^23) * 2^(e-128) = (2^22 + m) * 2^(e-128-23)
    let mm : Int := ((4194304 + m : Nat) : Int)
    .fin ⟨if s ≠ 0 then -mm else mm, (e : Int) - 151⟩

def VSINGL : Rd FV := fun bs i => do
  let (by_, j) ← ldChunk 4 bs i
  match by_ with
  | [b0, b1, b2, b3] => pure (vax4 b0 b1 b2 b3, j)
  | _ => .error .indexError

def SSHORT : Rd Int := fun bs i => do
  let (r, j) ← ldRead bs i
  pure (if r > 127 then (r : Int) - 256 else r, j)

def SNORM : Rd Int := fun bs i => do
  let (by_, j) ← ldChunk 2 bs i
  pure (toSigned 16 (beWord by_), j)

def SLONG : Rd Int := fun bs i => do
  let (by_, j) ← ldChunk 4 bs i
  pure (toSigned 32 (beWord by_), j)

def USHORT : Rd Nat := ldRead

def UNORM : Rd Nat := fun bs i => do
  let (a, j) ← ldRead bs i
  let r := a <<< 8
  let (b, k) ← ldRead bs j
  pure (r ||| b, k)

def ULONG : Rd Nat := fun bs i => do
  let (by_, j) ← ldChunk 4 bs i
  pure (beWord by_, j)

def UVARI : Rd Nat := fun bs i => do
  let (value, j) ← ldRead bs i
  if value &&& 0xc0 = 0x80 then
    let value := value &&& 0x7f
    let value := value <<< 8
    let (b, k) ← ldRead bs j
    pure (value ||| b, k)
  else if value &&& 0xc0 = 0xc0 then
    let value := value &&& 0x3f
    let value := value <<< 8
    let (b, k) ← ldRead bs j
    let value := (value ||| b) <<< 8
    let (c, l) ← ldRead bs k
    let value := (value ||| c) <<< 8
    let (d, n) ← ldRead bs l
    pure (value ||| d, n)
  else pure (value, j)

/-- `UVARI_len(by, index)` (`index : Int`, negative raises) -/
def UVARI_len (bs : List Nat) (index : Int) : Except Err Nat :=
  if index < 0 then .error .repCode
  else match bs[index.toNat]? with
    | none => .ok 0
    | some value =>
      if value &&& 0xc0 = 0x80 then .ok 2
      else if value &&& 0xc0 = 0xc0 then .ok 4
      else .ok 1

def pascalString : Rd (List Nat) := fun bs i => do
  let (siz, j) ← ldRead bs i
  ldChunk siz bs j

def IDENT : Rd (List Nat) := pascalString

def IDENT_len (bs : List Nat) (index : Int) : Except Err Nat :=
  if index < 0 then .error .repCode
  else match bs[index.toNat]? with
    | none => .ok 0
    | some b => .ok (1 + b)

def ASCII : Rd (List Nat) := fun bs i => do
  let (size, j) ← UVARI bs i
  ldChunk size bs j

structure DateTime where
  year : Nat
  tz : Nat
  month : Nat
  day : Nat
  hour : Nat
  minute : Nat
  second : Nat
  millisecond : Nat
  deriving Repr, DecidableEq

def DTIME : Rd DateTime := fun bs i => do
  let (y, i) ← USHORT bs i
  let (v, i) ← ldRead bs i
  let (d, i) ← USHORT bs i
  let (h, i) ← USHORT bs i
  let (mi, i) ← USHORT bs i
  let (s, i) ← USHORT bs i
  let (ms, i) ← UNORM bs i
  pure (⟨y + 1900, (v >>> 4) &&& 0xf, v &&& 0xf, d, h, mi, s, ms⟩, i)

def ORIGIN : Rd Nat := UVARI
def ORIGIN_len := UVARI_len

structure ObName where
  o : Nat
  c : Nat
  i : List Nat
  deriving Repr, DecidableEq

def OBNAME : Rd ObName := fun bs i => do
  let (o, j) ← ORIGIN bs i
  let (c, k) ← USHORT bs j
  let (id, l) ← IDENT bs k
  pure (⟨o, c, id⟩, l)

def OBNAME_len (bs : List Nat) (index : Int) : Except Err Nat :=
  if index < 0 then .error .repCode
  else do
    let length ← ORIGIN_len bs index
    if length ≠ 0 then
      let length := length + 1
      if (bs.length : Int) ≥ length + index then
        let identLength ← IDENT_len bs (index + length)
        if identLength ≠ 0 then pure (length + identLength) else pure 0
      else pure 0
    else pure 0

def OBJREF : Rd (List Nat × ObName) := fun bs i => do
  let (t, j) ← IDENT bs i
  let (n, k) ← OBNAME bs j
  pure ((t, n), k)

def STATUS : Rd Nat := USHORT

/-- `UNITS`: a Pascal string; disallowed characters are only logged. -/
def UNITS : Rd (List Nat) := pascalString

/-- `REP_CODE_FIXED_LENGTHS` -/
def fixedLength (rc : Nat) : Option Nat :=
  match rc with
  | 1 => some 2 | 2 => some 4 | 3 => some 8 | 4 => some 12 | 5 => some 4 | 6 => some 4 | 7 => some 8 | 8 => some 16
  | 9 => some 24 | 10 => some 8 | 11 => some 16 | 12 => some 1 | 13 => some 2 | 14 => some 4 | 15 => some 1
  | 16 => some 2 | 17 => some 4 | 21 => some 8 | 26 => some 1
  | _ => none

end TD.C07
